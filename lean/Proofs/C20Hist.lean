import Model.Based
import Proofs.C20

/-! Histories of `GetNextBatch` calls as `block.Manager` makes them (`retrieveBatch`,
block/manager.go:546-581: `LastBatchData` = ids of the last batch received), each call with its own
view of the DA layer (errors, heights not yet reached) and its own limit, with restarts between any
two calls; the invariant that ties everything released so far and the carry-over to the DA stream;
and the progress measure. Helper file of `Spec.C20`. -/
namespace Based

/-- one step of a history: a call (DA answers of that moment, size limit) or a restart -/
inductive Step
  | call (da : Nat → Fetch) (max : Nat)
  | restart

def Step.isCall : Step → Bool
  | .call _ _ => true
  | .restart => false

/-- what the caller echoes next: the ids of the batch it just got, else what it had -/
def nextLast (last : List Bytes) : Resp → List Bytes
  | .batch items _ => items.map (·.id)
  | _ => last

/-- result of a history: final state, what the caller will echo next, and the batch released by
every call (`[]` = nil response) -/
structure Played where
  st : St
  last : List Bytes
  batches : List (List Item)

/-- a history from state `s` with the caller holding `last` -/
def playH (cfg : Cfg) : St → List Bytes → List Step → Played
  | s, last, [] => ⟨s, last, []⟩
  | s, last, .restart :: es => playH cfg (restart s) last es
  | s, last, .call da m :: es =>
    let r := playH cfg (getNextBatch cfg da s { max := m, last := last }).st
        (nextLast last (getNextBatch cfg da s { max := m, last := last }).resp) es
    ⟨r.st, r.last, (getNextBatch cfg da s { max := m, last := last }).resp.items :: r.batches⟩

theorem playH_append (cfg : Cfg) (s : St) (last : List Bytes) (a b : List Step) :
    playH cfg s last (a ++ b) =
      ⟨(playH cfg (playH cfg s last a).st (playH cfg s last a).last b).st,
       (playH cfg (playH cfg s last a).st (playH cfg s last a).last b).last,
       (playH cfg s last a).batches ++ (playH cfg (playH cfg s last a).st (playH cfg s last a).last b).batches⟩ := by
  induction a generalizing s last with
  | nil => simp [playH]
  | cons e es ih =>
    cases e with
    | restart => simpa [playH] using ih (restart s) last
    | call da m => simp only [List.cons_append, playH, ih]

/-- every view of the DA layer used in the history is consistent with the content `c` -/
def AllAnswer (c : Content) : List Step → Prop
  | [] => True
  | .restart :: es => AllAnswer c es
  | .call da _ :: es => Answers c da ∧ AllAnswer c es

/-- DA ids carry their height (`coreda.SplitID`, which the sequencer itself relies on): the height
read from an id of height `h` is not above `h` -/
def IdsNotAhead (c : Content) : Prop :=
  ∀ h, ∀ it ∈ c h, ∃ e, splitHeight it.id = some e ∧ e ≤ h

/-- the invariant of a history: `R` = everything released so far -/
structure Inv (c : Content) (cfg : Cfg) (s : St) (last : List Bytes) (R : List Item) : Prop where
  dur : restart s = s
  str : ∃ N, R ++ flat s.queue = stream c cfg.daStart N ∧ persistedPos cfg s = cfg.daStart + N
  echo : ∀ id ∈ last, ∃ e, splitHeight id = some e ∧ e ≤ persistedPos cfg s

theorem inv_init (c : Content) (cfg : Cfg) : Inv c cfg {} [] [] :=
  ⟨rfl, ⟨0, by simp [flat, stream], by simp [persistedPos]⟩, by simp⟩

theorem inv_echoOk {c : Content} {cfg : Cfg} {s : St} {last : List Bytes} {R : List Item}
    (h : Inv c cfg s last R) : EchoOk cfg s last := by
  intro id hid
  exact h.echo id (List.mem_of_getLast? hid)

theorem restart_gnb (cfg : Cfg) (da : Nat → Fetch) (s : St) (r : Req) (h : r.idOk = true) :
    restart (getNextBatch cfg da s r).st = (getNextBatch cfg da s r).st := by
  unfold getNextBatch
  simp only [h, Bool.not_true, Bool.false_eq_true, if_false]
  split
  · split <;> simp [restart]
  · simp [restart]

theorem items_of_nextLast (last : List Bytes) (resp : Resp) (id : Bytes) (h : id ∈ nextLast last resp) :
    id ∈ last ∨ ∃ it ∈ resp.items, it.id = id := by
  cases resp <;> simp_all [nextLast, Resp.items]

/-- the call of a history, normalised: under the invariant the echo is irrelevant -/
theorem inv_norm {c : Content} {cfg : Cfg} {s : St} {last : List Bytes} {R : List Item}
    (h : Inv c cfg s last R) (da : Nat → Fetch) (m : Nat) :
    getNextBatch cfg da s { max := m, last := last } = getNextBatch cfg da s { max := m } :=
  gnb_norm cfg da s { max := m, last := last } rfl (inv_echoOk h)

theorem inv_call {c : Content} {cfg : Cfg} {s : St} {last : List Bytes} {R : List Item}
    (hc : IdsNotAhead c) (h : Inv c cfg s last R) (da : Nat → Fetch) (hA : Answers c da) (m : Nat) :
    Inv c cfg (getNextBatch cfg da s { max := m, last := last }).st
      (nextLast last (getNextBatch cfg da s { max := m, last := last }).resp)
      (R ++ (getNextBatch cfg da s { max := m, last := last }).resp.items) := by
  have hd := restart_gnb cfg da s { max := m, last := last } rfl
  rw [inv_norm h] at hd ⊢
  obtain ⟨N, h1, h2⟩ := h.str
  obtain ⟨n, g1, g2⟩ := call_stream c cfg da hA s m
  have hstr : (R ++ (getNextBatch cfg da s { max := m }).resp.items) ++ flat (getNextBatch cfg da s { max := m }).st.queue
      = stream c cfg.daStart (N + n) := by
    rw [List.append_assoc, g1, ← List.append_assoc, h1, stream_add, h2]
  refine ⟨hd, ⟨N + n, hstr, by omega⟩, ?_⟩
  intro id hid
  rcases items_of_nextLast _ _ _ hid with hl | ⟨it, hit, rfl⟩
  · obtain ⟨e, e1, e2⟩ := h.echo id hl
    exact ⟨e, e1, by omega⟩
  · have : it ∈ stream c cfg.daStart (N + n) := by
      rw [← hstr]; simp [hit]
    obtain ⟨hh, _, k2, k3⟩ := (mem_stream ..).mp this
    obtain ⟨e, e1, e2⟩ := hc hh it k3
    exact ⟨e, e1, by omega⟩

theorem inv_restart {c : Content} {cfg : Cfg} {s : St} {last : List Bytes} {R : List Item}
    (h : Inv c cfg s last R) : Inv c cfg (restart s) last R := by
  rw [h.dur]; exact h

/-- the invariant along every history -/
theorem playH_inv (c : Content) (cfg : Cfg) (hc : IdsNotAhead c) (evs : List Step) (hA : AllAnswer c evs)
    (s : St) (last : List Bytes) (R : List Item) (h : Inv c cfg s last R) :
    Inv c cfg (playH cfg s last evs).st (playH cfg s last evs).last (R ++ (playH cfg s last evs).batches.flatten) := by
  induction evs generalizing s last R with
  | nil => simpa [playH] using h
  | cons e es ih =>
    cases e with
    | restart => exact ih hA _ _ _ (inv_restart h)
    | call da m =>
      have h' := ih hA.2 _ _ _ (inv_call hc h da hA.1 m)
      simpa [playH, List.append_assoc] using h'

/-- restarts change nothing in a history that starts from a durable state -/
theorem playH_restart_invariance (cfg : Cfg) (s : St) (last : List Bytes) (hs : restart s = s) (evs : List Step) :
    playH cfg s last evs = playH cfg s last (evs.filter Step.isCall) := by
  induction evs generalizing s last with
  | nil => rfl
  | cons e es ih =>
    cases e with
    | restart => simp only [playH, List.filter, Step.isCall, hs]; exact ih s last hs
    | call da m =>
      simp only [playH, List.filter, Step.isCall]
      rw [ih _ _ (restart_gnb cfg da s _ rfl)]

/-! ## Retrieval errors / heights from the future along a history -/

/-- in every call of the history the height `h` fails to be retrieved or is not yet reached -/
def AllFailAt (h : Nat) : List Step → Prop
  | [] => True
  | .restart :: es => AllFailAt h es
  | .call da _ :: es => (da h = .error ∨ da h = .future) ∧ AllFailAt h es

theorem playH_stops_at (c : Content) (cfg : Cfg) (hc : IdsNotAhead c) (evs : List Step) (hA : AllAnswer c evs)
    (h : Nat) (hF : AllFailAt h evs) (s : St) (last : List Bytes) (R : List Item) (hI : Inv c cfg s last R)
    (hn : persistedPos cfg s ≤ h) : persistedPos cfg (playH cfg s last evs).st ≤ h := by
  induction evs generalizing s last R with
  | nil => simpa [playH] using hn
  | cons e es ih =>
    cases e with
    | restart =>
      have := ih hA hF (restart s) last R (inv_restart hI) (by rw [hI.dur]; exact hn)
      simpa [playH] using this
    | call da m =>
      have hI' := inv_call hc hI da hA.1 m
      simp only [playH]
      refine ih hA.2 hF.2 _ _ _ hI' ?_
      rw [inv_norm hI]
      exact call_stops_at cfg da s m h hF.1 hn

/-! ## "comes first in the next batch", along a history -/

/-- the first tx released by a history, if any -/
def firstReleased (bs : List (List Item)) : Option Item := bs.flatten.head?

theorem playH_first (c : Content) (cfg : Cfg) (hc : IdsNotAhead c) (evs : List Step) (hA : AllAnswer c evs)
    (s : St) (last : List Bytes) (R : List Item) (h : Inv c cfg s last R)
    (y : Item) (ys : List Item) (hq : flat s.queue = y :: ys) :
    firstReleased (playH cfg s last evs).batches = none ∨ firstReleased (playH cfg s last evs).batches = some y := by
  induction evs generalizing s last R ys with
  | nil => left; simp [playH, firstReleased]
  | cons e es ih =>
    cases e with
    | restart =>
      have := ih hA (restart s) last R (inv_restart h) ys (by rw [h.dur]; exact hq)
      simpa [playH] using this
    | call da m =>
      have hI := inv_call hc h da hA.1 m
      simp only [playH, firstReleased, List.flatten_cons]
      rw [inv_norm h] at hI ⊢
      rcases call_first cfg da s m y ys hq with ⟨rest, hr⟩ | ⟨h0, hf⟩
      · right; simp [hr]
      · rw [h0, List.nil_append]
        exact ih hA.2 _ _ _ hI ys (by rw [hf]; exact hq)

/-! ## Progress: nothing is stuck -/

theorem stream_length_le (c : Content) (lo a b : Nat) (h : a ≤ b) :
    (stream c lo a).length ≤ (stream c lo b).length := by
  obtain ⟨d, rfl⟩ : ∃ d, b = a + d := ⟨b - a, by omega⟩
  rw [stream_add]; simp

theorem mem_left_of_append_eq {α : Type} (R A B ys : List α) (y : α)
    (h : R ++ y :: ys = A ++ B) (hl : R.length < A.length) : y ∈ A := by
  induction R generalizing A with
  | nil =>
    cases A with
    | nil => simp at hl
    | cons a A' => simp at h; simp [h.1]
  | cons r R' ih =>
    cases A with
    | nil => simp at hl
    | cons a A' =>
      simp only [List.cons_append, List.cons.injEq] at h
      exact List.mem_cons_of_mem _ (ih A' h.2 (by simpa using hl))

/-- the measure: heights below `hi` still to scan + txs of heights below `hi` still to release -/
def todo (c : Content) (cfg : Cfg) (hi : Nat) (s : St) (R : List Item) : Nat :=
  (hi - persistedPos cfg s) + ((stream c cfg.daStart (hi - cfg.daStart)).length - R.length)

/-- a call on which the heights below `hi` answer and whose limit admits each of their txs -/
def Drains (c : Content) (cfg : Cfg) (hi : Nat) (da : Nat → Fetch) (m : Nat) : Prop :=
  Answers c da ∧
  (∀ h, cfg.daStart ≤ h → h < hi → da h ≠ .error ∧ da h ≠ .future) ∧
  (∀ h, cfg.daStart ≤ h → h < hi → ∀ it ∈ c h, it.tx.length ≤ effMax m)

theorem call_todo {c : Content} {cfg : Cfg} {s : St} {last : List Bytes} {R : List Item}
    (h : Inv c cfg s last R) (hi : Nat) (da : Nat → Fetch) (m : Nat) (hD : Drains c cfg hi da m) :
    todo c cfg hi (getNextBatch cfg da s { max := m, last := last }).st
        (R ++ (getNextBatch cfg da s { max := m, last := last }).resp.items) + 1 ≤ todo c cfg hi s R ∨
    todo c cfg hi s R = 0 := by
  rw [inv_norm h]
  obtain ⟨hA, hgood, hfit⟩ := hD
  obtain ⟨N, h1, h2⟩ := h.str
  obtain ⟨n, g1, g2⟩ := call_stream c cfg da hA s m
  unfold todo
  rw [g2, List.length_append]
  generalize hL : (stream c cfg.daStart (hi - cfg.daStart)).length = L
  by_cases hpos : persistedPos cfg s < hi
  · -- heights below `hi` remain to be scanned: the streams up to `pos` is a prefix of the stream up to `hi`
    have hle : (stream c cfg.daStart N).length ≤ L := by
      rw [← hL]; exact stream_length_le _ _ _ _ (by omega)
    cases hq : flat s.queue with
    | nil =>
      have := call_progress_scan cfg da s m hq (hgood _ (daStart_le_pos cfg s) hpos)
      rw [g2] at this
      left; omega
    | cons y ys =>
      rw [hq] at h1
      have hlen : R.length + (ys.length + 1) = (stream c cfg.daStart N).length := by
        rw [← h1]; simp
      have hy : y ∈ stream c cfg.daStart N := by rw [← h1]; simp
      obtain ⟨hh, k1, k2, k3⟩ := (mem_stream ..).mp hy
      obtain ⟨rest, hr⟩ := (call_head cfg da s m y ys hq).1 (hfit hh k1 (by omega) y k3)
      rw [hr]
      left
      simp only [List.length_cons]
      omega
  · -- the scan is past `hi`
    have hN : N = (hi - cfg.daStart) + (N - (hi - cfg.daStart)) := by omega
    have hsplit := stream_add c cfg.daStart (hi - cfg.daStart) (N - (hi - cfg.daStart))
    rw [← hN] at hsplit
    by_cases hR : R.length < L
    · cases hq : flat s.queue with
      | nil =>
        rw [hq, List.append_nil] at h1
        have : R.length = L + (stream c (cfg.daStart + (hi - cfg.daStart)) (N - (hi - cfg.daStart))).length := by
          rw [h1, hsplit, List.length_append, hL]
        omega
      | cons y ys =>
        rw [hq, hsplit] at h1
        have hy : y ∈ stream c cfg.daStart (hi - cfg.daStart) :=
          mem_left_of_append_eq _ _ _ _ _ h1 (by rw [hL]; exact hR)
        obtain ⟨hh, k1, k2, k3⟩ := (mem_stream ..).mp hy
        have hlt : hh < hi := by
          have := daStart_le_pos cfg s
          omega
        obtain ⟨rest, hr⟩ := (call_head cfg da s m y ys hq).1 (hfit hh k1 hlt y k3)
        rw [hr]
        left
        simp only [List.length_cons]
        omega
    · right; omega

theorem call_todo_le {c : Content} {cfg : Cfg} {s : St} {last : List Bytes} {R : List Item}
    (h : Inv c cfg s last R) (hi : Nat) (da : Nat → Fetch) (hA : Answers c da) (m : Nat) :
    todo c cfg hi (getNextBatch cfg da s { max := m, last := last }).st
        (R ++ (getNextBatch cfg da s { max := m, last := last }).resp.items) ≤ todo c cfg hi s R := by
  rw [inv_norm h]
  obtain ⟨n, _, g2⟩ := call_stream c cfg da hA s m
  unfold todo
  rw [g2, List.length_append]
  omega

/-- every step of the history is a restart or a draining call -/
def AllDrain (c : Content) (cfg : Cfg) (hi : Nat) : List Step → Prop
  | [] => True
  | .restart :: es => AllDrain c cfg hi es
  | .call da m :: es => Drains c cfg hi da m ∧ AllDrain c cfg hi es

theorem allDrain_answer (c : Content) (cfg : Cfg) (hi : Nat) (evs : List Step) (h : AllDrain c cfg hi evs) :
    AllAnswer c evs := by
  induction evs with
  | nil => trivial
  | cons e es ih =>
    cases e with
    | restart => exact ih h
    | call da m => exact ⟨h.1.1, ih h.2⟩

def calls (evs : List Step) : Nat := (evs.filter Step.isCall).length

theorem playH_todo (c : Content) (cfg : Cfg) (hc : IdsNotAhead c) (hi : Nat) (evs : List Step)
    (hD : AllDrain c cfg hi evs) (s : St) (last : List Bytes) (R : List Item) (h : Inv c cfg s last R) :
    todo c cfg hi (playH cfg s last evs).st (R ++ (playH cfg s last evs).batches.flatten) + calls evs ≤ todo c cfg hi s R ∨
    todo c cfg hi (playH cfg s last evs).st (R ++ (playH cfg s last evs).batches.flatten) = 0 := by
  induction evs generalizing s last R with
  | nil => left; simp [playH, calls]
  | cons e es ih =>
    cases e with
    | restart =>
      have := ih hD (restart s) last R (inv_restart h)
      rw [h.dur] at this
      simpa [playH, calls, List.filter, Step.isCall, h.dur] using this
    | call da m =>
      have hI := inv_call hc h da hD.1.1 m
      have h1 := call_todo h hi da m hD.1
      have h2 := call_todo_le h hi da hD.1.1 m
      have := ih hD.2 _ _ _ hI
      simp only [playH, List.flatten_cons, calls, List.filter, Step.isCall, List.length_cons]
      rw [← List.append_assoc]
      simp only [calls] at this
      rcases this with this | this
      · rcases h1 with h1 | h1
        · left; omega
        · right; omega
      · right; exact this

/-- when nothing is left to do, the content of all heights below `hi` has been released -/
theorem todo_zero {c : Content} {cfg : Cfg} {s : St} {last : List Bytes} {R : List Item}
    (h : Inv c cfg s last R) (hi : Nat) (h0 : todo c cfg hi s R = 0) :
    stream c cfg.daStart (hi - cfg.daStart) <+: R := by
  obtain ⟨N, h1, h2⟩ := h.str
  unfold todo at h0
  have hN : N = (hi - cfg.daStart) + (N - (hi - cfg.daStart)) := by omega
  have hsplit := stream_add c cfg.daStart (hi - cfg.daStart) (N - (hi - cfg.daStart))
  rw [← hN] at hsplit
  apply List.prefix_of_prefix_length_le (l₃ := stream c cfg.daStart N)
  · rw [hsplit]; exact List.prefix_append _ _
  · rw [← h1]; exact List.prefix_append _ _
  · omega

end Based
