import Model.Chain

/-! Simp lemmas about the abstract store. -/
namespace Chain
open Wire

@[simp] theorem getBlock_saveBlock_same (s : Store) (h : Nat) (b : Block) :
    (s.apply (.saveBlock h b)).getBlock h = some b := by
  simp [Store.apply, Store.getBlock]

@[simp] theorem getBlock_saveBlock_other (s : Store) (h k : Nat) (b : Block) (hk : h ≠ k) :
    (s.apply (.saveBlock h b)).getBlock k = s.getBlock k := by
  simp [Store.apply, Store.getBlock, hk]

theorem getBlock_saveBlock (s : Store) (h k : Nat) (b : Block) :
    (s.apply (.saveBlock h b)).getBlock k = if h = k then some b else s.getBlock k := by
  by_cases hk : h = k
  · subst hk; simp
  · simp [hk]

@[simp] theorem getBlock_setHeight (s : Store) (h k : Nat) :
    (s.apply (.setHeight h)).getBlock k = s.getBlock k := by
  simp only [Store.apply]; split <;> rfl

@[simp] theorem getBlock_updateState (s : Store) (st : State) (k : Nat) :
    (s.apply (.updateState st)).getBlock k = s.getBlock k := rfl

@[simp] theorem getBlock_setMeta (s : Store) (key : String) (v : Bytes) (k : Nat) :
    (s.apply (.setMeta key v)).getBlock k = s.getBlock k := rfl

@[simp] theorem height_saveBlock (s : Store) (h : Nat) (b : Block) :
    (s.apply (.saveBlock h b)).height = s.height := rfl
@[simp] theorem height_updateState (s : Store) (st : State) :
    (s.apply (.updateState st)).height = s.height := rfl
@[simp] theorem height_setMeta (s : Store) (key : String) (v : Bytes) :
    (s.apply (.setMeta key v)).height = s.height := rfl
theorem height_setHeight (s : Store) (h : Nat) :
    (s.apply (.setHeight h)).height = if h > s.height then h else s.height := by
  simp only [Store.apply]; split <;> rfl

@[simp] theorem state_saveBlock (s : Store) (h : Nat) (b : Block) :
    (s.apply (.saveBlock h b)).state = s.state := rfl
@[simp] theorem state_setHeight (s : Store) (h : Nat) :
    (s.apply (.setHeight h)).state = s.state := by
  simp only [Store.apply]; split <;> rfl
@[simp] theorem state_updateState (s : Store) (st : State) :
    (s.apply (.updateState st)).state = some st := rfl
@[simp] theorem state_setMeta (s : Store) (key : String) (v : Bytes) :
    (s.apply (.setMeta key v)).state = s.state := rfl

/-- applying the (zero or one) writes of `setHeightW` -/
theorem applyAll_setHeightW (s : Store) (h : Nat) :
    (s.applyAll (setHeightW s h)).height = (if h > s.height then h else s.height) ∧
    (∀ k, (s.applyAll (setHeightW s h)).getBlock k = s.getBlock k) ∧
    (s.applyAll (setHeightW s h)).state = s.state ∧
    (s.applyAll (setHeightW s h)).kv = s.kv := by
  unfold setHeightW Store.applyAll
  split
  · rename_i hgt
    simp [Store.apply, hgt, Store.getBlock]
  · simp

theorem verify_by (k : KeyId) (p : Bytes) : verify k p (.by k p) = true := by simp [verify]

theorem verify_eq_true {k : KeyId} {p : Bytes} {s : Sig} (h : verify k p s = true) : s = .by k p := by
  cases s <;> simp_all [verify]

end Chain
