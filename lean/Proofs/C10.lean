import Model.Queue

/-! Helper lemmas for `Spec/C10.lean`. Core Lean only. -/

namespace Queue
open List

/-! ## the key-ordered map -/

theorem Disk.ins_perm (k : Nat) (v : Batch) (d : Disk) : (Disk.ins k v d).Perm ((k, v) :: d) := by
  induction d with
  | nil => exact Perm.refl _
  | cons e r ih =>
    unfold Disk.ins
    split
    · exact Perm.refl _
    · exact (Perm.cons e ih).trans (Perm.swap _ _ _)

theorem Disk.mem_ins {k : Nat} {v : Batch} {d : Disk} {e : Nat × Batch} :
    e ∈ Disk.ins k v d ↔ e = (k, v) ∨ e ∈ d := by
  rw [(Disk.ins_perm k v d).mem_iff]; simp

theorem Disk.mem_del {k : Nat} {d : Disk} {e : Nat × Batch} : e ∈ Disk.del k d ↔ e ∈ d ∧ e.1 ≠ k := by
  simp [Disk.del]

/-- strictly ascending keys -/
def Disk.Sorted (d : Disk) : Prop := d.Pairwise (fun a b => a.1 < b.1)

theorem Disk.del_sorted {k : Nat} {d : Disk} (h : d.Sorted) : (Disk.del k d).Sorted :=
  Pairwise.filter _ h

theorem Disk.ins_sorted {k : Nat} {v : Batch} {d : Disk} (h : d.Sorted) (hk : ∀ e ∈ d, e.1 ≠ k) :
    (Disk.ins k v d).Sorted := by
  induction d with
  | nil => simp [Disk.ins, Disk.Sorted]
  | cons e r ih =>
    have hs : (∀ x ∈ r, e.1 < x.1) ∧ Disk.Sorted r := by simpa [Disk.Sorted] using h
    have hne : e.1 ≠ k := hk e (by simp)
    have hr : ∀ x ∈ r, x.1 ≠ k := fun x hx => hk x (by simp [hx])
    unfold Disk.ins
    split
    · rename_i hlt
      refine pairwise_cons.2 ⟨?_, h⟩
      intro x hx
      rcases mem_cons.1 hx with rfl | hx
      · exact hlt
      · exact Nat.lt_trans hlt (hs.1 x hx)
    · rename_i hge
      refine pairwise_cons.2 ⟨?_, ih hs.2 hr⟩
      intro x hx
      rcases Disk.mem_ins.1 hx with rfl | hx
      · show e.1 < k
        omega
      · exact hs.1 x hx

theorem Disk.put_sorted {k : Nat} {v : Batch} {d : Disk} (h : d.Sorted) : (Disk.put k v d).Sorted :=
  Disk.ins_sorted (Disk.del_sorted h) (fun _ he => (Disk.mem_del.1 he).2)

section
variable (key : Batch → Nat)

/-- every entry is stored under the key of its own batch -/
def Keyed (d : Disk) : Prop := ∀ e ∈ d, e.1 = key e.2

theorem map_del {key : Batch → Nat} {d : Disk} (hk : Keyed key d) (k : Nat) :
    (Disk.del k d).map (·.2) = (d.map (·.2)).filter (fun b => key b ≠ k) := by
  induction d with
  | nil => rfl
  | cons e r ih =>
    have he : e.1 = key e.2 := hk e (by simp)
    have hr : Keyed key r := fun x hx => hk x (by simp [hx])
    have ih := ih hr
    simp only [Disk.del, ne_eq, decide_not] at ih ⊢
    by_cases h : key e.2 = k <;> simp [he, h, ih]

theorem map_put_perm {key : Batch → Nat} {d : Disk} (hk : Keyed key d) (b : Batch) :
    ((Disk.put (key b) b d).map (·.2)).Perm (b :: (d.map (·.2)).filter (fun x => key x ≠ key b)) := by
  unfold Disk.put
  refine ((Disk.ins_perm _ _ _).map _).trans ?_
  simp only [map_cons]
  rw [map_del hk]

theorem keyed_put {key : Batch → Nat} {d : Disk} (hk : Keyed key d) (b : Batch) : Keyed key (Disk.put (key b) b d) := by
  intro e he
  rcases Disk.mem_ins.1 he with rfl | he
  · rfl
  · exact hk e (Disk.mem_del.1 he).1

theorem keyed_del {key : Batch → Nat} {d : Disk} (hk : Keyed key d) (k : Nat) : Keyed key (Disk.del k d) :=
  fun e he => hk e (Disk.mem_del.1 he).1

/-! ## every operation is one of three primitive transitions, optionally followed by a reload -/

/-- `Trans s s₁ a d`: from `s` to `s₁`, accepting the batches `a`, handing out the batches `d` -/
inductive Trans (cfg : Cfg) (s : St) : St → List Batch → List Batch → Prop
  | none : Trans cfg s s [] []
  | accept (b : Batch) : full cfg s = false → Trans cfg s (accept key s b) [b] []
  | pop (b : Batch) (r : List Batch) : s.mem = b :: r → Trans cfg s (pop key s b r) [] [b]

theorem addBatch_cases (cfg : Cfg) (s : St) (b : Batch) :
    ((addBatch key cfg s b) = (s, .errFull) ∧ full cfg s = true) ∨
    ((addBatch key cfg s b) = (accept key s b, .ok) ∧ full cfg s = false) := by
  unfold addBatch
  cases h : full cfg s <;> simp

theorem nextBatch_cases (s : St) :
    ((nextBatch key s) = (s, .empty) ∧ s.mem = []) ∨
    (∃ b r, (nextBatch key s) = (pop key s b r, .batch b) ∧ s.mem = b :: r) := by
  unfold nextBatch
  cases h : s.mem with
  | nil => simp
  | cons b r => exact Or.inr ⟨b, r, by simp⟩

theorem submit_cases (cfg : Cfg) (s : St) (id : Bytes) (b : Batch) :
    (∃ o, submit key cfg s id b = (s, o) ∧ (o = .errId ∨ o = .skipEmpty ∨ o = .errFull)) ∨
    (submit key cfg s id b = (accept key s b, .ok) ∧ full cfg s = false) := by
  unfold submit
  by_cases h1 : id ≠ cfg.id
  · simp [h1]
  · by_cases h2 : b.isEmpty
    · simp only [h1, h2]; simp
    · simp only [h1, h2]
      rcases addBatch_cases key cfg s b with ⟨h, _⟩ | ⟨h, hf⟩
      · left; exact ⟨_, by simpa using h, by simp⟩
      · right; exact ⟨by simpa using h, hf⟩

theorem getNext_cases (cfg : Cfg) (s : St) (id : Bytes) :
    (∃ o, getNext key cfg s id = (s, o) ∧ (o = .errId ∨ o = .empty)) ∨
    (∃ b r, getNext key cfg s id = (pop key s b r, .batch b) ∧ s.mem = b :: r) := by
  unfold getNext
  by_cases h1 : id ≠ cfg.id
  · simp [h1]
  · simp only [h1]
    rcases nextBatch_cases key s with ⟨h, _⟩ | ⟨b, r, h, hm⟩
    · left; exact ⟨_, by simpa using h, by simp⟩
    · right; exact ⟨b, r, by simpa using h, hm⟩

/-- the shape of one step -/
theorem step_cases (cfg : Cfg) (s : St) (op : Op) :
    ∃ s₁, Trans key cfg s s₁ (acceptedBy op (step key cfg s op).2) (deliveredBy op (step key cfg s op).2) ∧
      ((step key cfg s op).1 = s₁ ∨ (step key cfg s op).1 = reload s₁) ∧
      (op.plain = true → (step key cfg s op).1 = s₁) := by
  cases op with
  | submit id b =>
    rcases submit_cases key cfg s id b with ⟨o, h, ho⟩ | ⟨h, hf⟩
    · refine ⟨s, ?_, by simp [step, h], by simp [step, h]⟩
      rcases ho with rfl | rfl | rfl <;> simp [step, h, acceptedBy, deliveredBy] <;> exact .none
    · refine ⟨accept key s b, ?_, by simp [step, h], by simp [step, h]⟩
      simp only [step, h, acceptedBy, deliveredBy]
      exact .accept b hf
  | next id =>
    rcases getNext_cases key cfg s id with ⟨o, h, ho⟩ | ⟨b, r, h, hm⟩
    · refine ⟨s, ?_, by simp [step, h], by simp [step, h]⟩
      rcases ho with rfl | rfl <;> simp [step, h, acceptedBy, deliveredBy] <;> exact .none
    · refine ⟨pop key s b r, ?_, by simp [step, h], by simp [step, h]⟩
      simp only [step, h, acceptedBy, deliveredBy]
      exact .pop b r hm
  | restart => exact ⟨s, by simp [acceptedBy, deliveredBy]; exact .none, by simp [step], by simp [Op.plain]⟩
  | load => exact ⟨s, by simp [acceptedBy, deliveredBy]; exact .none, by simp [step], by simp [Op.plain]⟩
  | crashSubmit aw id b =>
    cases aw with
    | true =>
      rcases submit_cases key cfg s id b with ⟨o, h, ho⟩ | ⟨h, hf⟩
      · refine ⟨s, ?_, by simp [step, h], by simp [Op.plain]⟩
        rcases ho with rfl | rfl | rfl <;> simp [step, h, acceptedBy, deliveredBy] <;> exact .none
      · refine ⟨accept key s b, ?_, by simp [step, h], by simp [Op.plain]⟩
        simp only [step, h, acceptedBy, deliveredBy]
        exact .accept b hf
    | false =>
      refine ⟨s, ?_, by simp [step], by simp [Op.plain]⟩
      have : acceptedBy (.crashSubmit false id b) (step key cfg s (.crashSubmit false id b)).2 = [] := by
        cases (step key cfg s (.crashSubmit false id b)).2 <;> rfl
      have h2 : deliveredBy (.crashSubmit false id b) (step key cfg s (.crashSubmit false id b)).2 = [] := by
        cases (step key cfg s (.crashSubmit false id b)).2 <;> rfl
      rw [this, h2]; exact .none
  | crashNext aw id =>
    cases aw with
    | true =>
      rcases getNext_cases key cfg s id with ⟨o, h, ho⟩ | ⟨b, r, h, hm⟩
      · refine ⟨s, ?_, by simp [step, h], by simp [Op.plain]⟩
        rcases ho with rfl | rfl <;> simp [step, h, acceptedBy, deliveredBy] <;> exact .none
      · refine ⟨pop key s b r, ?_, by simp [step, h], by simp [Op.plain]⟩
        simp only [step, h, acceptedBy, deliveredBy]
        exact .pop b r hm
    | false =>
      refine ⟨s, ?_, by simp [step], by simp [Op.plain]⟩
      have : acceptedBy (.crashNext false id) (step key cfg s (.crashNext false id)).2 = [] := by
        cases (step key cfg s (.crashNext false id)).2 <;> rfl
      have h2 : deliveredBy (.crashNext false id) (step key cfg s (.crashNext false id)).2 = [] := by
        cases (step key cfg s (.crashNext false id)).2 <;> rfl
      rw [this, h2]; exact .none
  | add b =>
    rcases addBatch_cases key cfg s b with ⟨h, _⟩ | ⟨h, hf⟩
    · exact ⟨s, by simp [step, h, acceptedBy, deliveredBy]; exact .none, by simp [step, h], by simp [step, h]⟩
    · refine ⟨accept key s b, ?_, by simp [step, h], by simp [step, h]⟩
      simp only [step, h, acceptedBy, deliveredBy]
      exact .accept b hf
  | qnext =>
    rcases nextBatch_cases key s with ⟨h, _⟩ | ⟨b, r, h, hm⟩
    · exact ⟨s, by simp [step, h, acceptedBy, deliveredBy]; exact .none, by simp [step, h], by simp [step, h]⟩
    · refine ⟨pop key s b r, ?_, by simp [step, h], by simp [step, h]⟩
      simp only [step, h, acceptedBy, deliveredBy]
      exact .pop b r hm

/-! ## lifting a one-step invariant over histories -/

theorem runFrom_cons (cfg : Cfg) (r : Run) (op : Op) (ops : List Op) :
    runFrom key cfg r (op :: ops) = runFrom key cfg (Run.step key cfg r op) ops := rfl

theorem runFrom_append (cfg : Cfg) (r : Run) (ops₁ ops₂ : List Op) :
    runFrom key cfg r (ops₁ ++ ops₂) = runFrom key cfg (runFrom key cfg r ops₁) ops₂ := by
  simp [runFrom, foldl_append]

/-- the accepted list only grows -/
theorem acc_prefix (cfg : Cfg) (r : Run) (ops : List Op) : ∃ t, (runFrom key cfg r ops).acc = r.acc ++ t := by
  induction ops generalizing r with
  | nil => exact ⟨[], by simp [runFrom]⟩
  | cons op ops ih =>
    obtain ⟨t, ht⟩ := ih (Run.step key cfg r op)
    exact ⟨acceptedBy op (step key cfg r.st op).2 ++ t, by rw [runFrom_cons, ht]; simp [Run.step]⟩

/-- an invariant of runs that is preserved by every step is true of every history -/
theorem run_induction (cfg : Cfg) (P : Run → Prop)
    (hstep : ∀ r op, P r → P (Run.step key cfg r op)) (r : Run) (h0 : P r) (ops : List Op) :
    P (runFrom key cfg r ops) := by
  induction ops generalizing r with
  | nil => exact h0
  | cons op ops ih => exact ih _ (hstep r op h0)

/-- the same for an invariant that needs a hypothesis `G` on the final accepted list which is
inherited by every prefix of it -/
theorem run_induction_guarded (cfg : Cfg) (P : Run → Prop) (G : List Batch → Prop)
    (hG : ∀ l t, G (l ++ t) → G l)
    (hstep : ∀ r op, P r → G (Run.step key cfg r op).acc → P (Run.step key cfg r op))
    (r : Run) (h0 : P r) (ops : List Op) (hg : G (runFrom key cfg r ops).acc) :
    P (runFrom key cfg r ops) := by
  induction ops generalizing r with
  | nil => exact h0
  | cons op ops ih =>
    rw [runFrom_cons] at hg ⊢
    obtain ⟨t, ht⟩ := acc_prefix key cfg (Run.step key cfg r op) ops
    exact ih _ (hstep r op h0 (hG _ t (ht ▸ hg))) hg

/-! ## invariant J (every key function, every history): the datastore is a key-sorted, correctly
keyed sub-multiset of memory, and memory respects the bound -/

structure J (cfg : Cfg) (s : St) : Prop where
  keyed : Keyed key s.disk
  sorted : s.disk.Sorted
  sub : ∃ l, l.Sublist s.mem ∧ (s.disk.map (·.2)).Perm l
  bound : 0 < cfg.max → s.mem.length ≤ cfg.max

theorem J_init (cfg : Cfg) : J key cfg {} :=
  ⟨fun _ h => by simp at h, by simp [Disk.Sorted], ⟨[], by simp, by simp⟩, fun _ => by simp⟩

theorem J_reload {cfg : Cfg} {s : St} (h : J key cfg s) : J key cfg (reload s) := by
  obtain ⟨l, hl, hp⟩ := h.sub
  refine ⟨h.keyed, h.sorted, ⟨_, Sublist.refl _, Perm.refl _⟩, fun hm => ?_⟩
  have := h.bound hm
  have h1 := hp.length_eq
  have h2 := hl.length_le
  simp only [reload, length_map] at h1 ⊢
  omega

theorem J_trans {cfg : Cfg} {s s₁ : St} {a d : List Batch} (h : J key cfg s) (t : Trans key cfg s s₁ a d) :
    J key cfg s₁ := by
  obtain ⟨l, hl, hp⟩ := h.sub
  cases t with
  | none => exact h
  | accept b hf =>
    refine ⟨keyed_put h.keyed b, Disk.put_sorted h.sorted, ?_, fun hm => ?_⟩
    · refine ⟨l.filter (fun x => key x ≠ key b) ++ [b], ?_, ?_⟩
      · exact Sublist.append ((filter_sublist).trans hl) (Sublist.refl _)
      · refine (map_put_perm h.keyed b).trans ?_
        refine (Perm.cons b (hp.filter _)).trans ?_
        exact (perm_append_comm (l₁ := [b])).trans (Perm.refl _) |>.trans (by simp)
    · have := h.bound hm
      simp only [full, hm, decide_true, Bool.true_and, decide_eq_false_iff_not, Nat.not_le] at hf
      simp only [accept, length_append, length_singleton]
      omega
  | pop b r hm =>
    refine ⟨keyed_del h.keyed _, Disk.del_sorted h.sorted, ?_, fun hmax => ?_⟩
    · refine ⟨l.filter (fun x => key x ≠ key b), ?_, ?_⟩
      · have h1 : (l.filter (fun x => key x ≠ key b)).Sublist ((b :: r).filter (fun x => key x ≠ key b)) :=
          (hm ▸ hl).filter _
        have h2 : (b :: r).filter (fun x => key x ≠ key b) = r.filter (fun x => key x ≠ key b) := by simp
        exact (h2 ▸ h1).trans filter_sublist
      · simp only [pop]
        rw [map_del h.keyed]
        exact hp.filter _
    · have := h.bound hmax
      simp only [hm, length_cons] at this
      simp only [pop]
      omega

theorem J_step {cfg : Cfg} {s : St} (h : J key cfg s) (op : Op) : J key cfg (step key cfg s op).1 := by
  obtain ⟨s₁, t, hs | hs, _⟩ := step_cases key cfg s op
  · exact hs ▸ J_trans key h t
  · exact hs ▸ J_reload key (J_trans key h t)

theorem J_run (cfg : Cfg) (ops : List Op) : J key cfg (run key cfg ops).st :=
  run_induction key cfg (fun r => J key cfg r.st) (fun _ op h => J_step key h op) {} (J_init key cfg) ops

/-! ## invariant M (every key function, every history): nothing is handed out or pending more often
than it was accepted -/

def M (r : Run) : Prop := ∀ x, (r.dlv ++ r.st.mem).count x ≤ r.acc.count x

theorem M_trans {cfg : Cfg} {s s₁ : St} {a d acc dlv : List Batch} (t : Trans key cfg s s₁ a d)
    (h : ∀ x, (dlv ++ s.mem).count x ≤ acc.count x) :
    ∀ x, (dlv ++ d ++ s₁.mem).count x ≤ (acc ++ a).count x := by
  intro x
  have hx := h x
  cases t with
  | none => simpa using hx
  | accept b hf =>
    simp only [accept, count_append, append_nil] at hx ⊢
    omega
  | pop b rest hm =>
    simp only [hm, count_append] at hx
    simp only [pop, count_append, append_nil]
    have : count x (b :: rest) = count x [b] + count x rest := by
      rw [← count_append]; rfl
    omega

theorem M_step {cfg : Cfg} {r : Run} (hj : J key cfg r.st) (h : M r) (op : Op) : M (Run.step key cfg r op) := by
  obtain ⟨s₁, t, hs, _⟩ := step_cases key cfg r.st op
  have h1 := M_trans key t h
  -- a reload can only lose
  have hj₁ : J key cfg s₁ := J_trans key hj t
  intro x
  rcases hs with hs | hs
  · simpa [Run.step, hs] using h1 x
  · obtain ⟨l, hl, hp⟩ := hj₁.sub
    have h2 : (s₁.disk.map (·.2)).count x ≤ s₁.mem.count x := by
      rw [hp.count_eq]; exact hl.count_le x
    have h3 := h1 x
    simp only [Run.step, hs, reload, count_append] at h3 ⊢
    omega

/-! ## invariant K (distinct keys): the datastore holds exactly the pending batches, and handed out
++ pending is a permutation of accepted -/

structure K (r : Run) : Prop where
  keyed : Keyed key r.st.disk
  multiset : (r.dlv ++ r.st.mem).Perm r.acc
  disk : (r.st.disk.map (·.2)).Perm r.st.mem

theorem K_init : K key {} := ⟨fun _ h => by simp at h, by simp, by simp⟩

theorem nodup_keys_prefix (l t : List Batch) (h : ((l ++ t).map key).Nodup) : (l.map key).Nodup := by
  rw [map_append] at h
  exact (nodup_append.1 h).1

theorem K_trans {cfg : Cfg} {s s₁ : St} {a d acc dlv : List Batch} (t : Trans key cfg s s₁ a d)
    (hkd : Keyed key s.disk) (hms : (dlv ++ s.mem).Perm acc) (hdisk : (s.disk.map (·.2)).Perm s.mem)
    (hn : ((acc ++ a).map key).Nodup) :
    Keyed key s₁.disk ∧ (dlv ++ d ++ s₁.mem).Perm (acc ++ a) ∧ (s₁.disk.map (·.2)).Perm s₁.mem := by
  cases t with
  | none => exact ⟨hkd, by simpa using hms, hdisk⟩
  | accept b hf =>
    -- the new key is not among the pending ones
    have hnk : ∀ x ∈ s.mem, key x ≠ key b := by
      intro x hx hxb
      have hxa : x ∈ acc := (hms.mem_iff).1 (mem_append_right _ hx)
      rw [map_append, nodup_append] at hn
      exact hn.2.2 (key x) (mem_map_of_mem hxa) (key b) (by simp) hxb
    refine ⟨keyed_put hkd b, ?_, ?_⟩
    · simp only [accept, append_nil]
      rw [← append_assoc]
      exact hms.append_right [b]
    · refine (map_put_perm hkd b).trans ?_
      have hf' : (s.disk.map (·.2)).filter (fun x => key x ≠ key b) = s.disk.map (·.2) := by
        refine filter_eq_self.2 (fun x hx => ?_)
        simpa using hnk x ((hdisk.mem_iff).1 hx)
      rw [hf']
      simp only [accept]
      exact (Perm.cons b hdisk).trans (perm_append_comm (l₁ := [b]))
  | pop b rest hm =>
    simp only [append_nil] at hn
    have hmem : (s.mem.map key).Nodup := by
      have h2 : ((dlv ++ s.mem).map key).Nodup := (hms.map key).nodup_iff.2 hn
      rw [map_append] at h2
      exact (nodup_append.1 h2).2.1
    have hnk : ∀ x ∈ rest, key x ≠ key b := by
      rw [hm, map_cons, nodup_cons] at hmem
      intro x hx hxb
      exact hmem.1 (hxb ▸ mem_map_of_mem hx)
    refine ⟨keyed_del hkd _, ?_, ?_⟩
    · simp only [pop, append_nil]
      have := hms
      rw [hm] at this
      simpa using this
    · simp only [pop]
      rw [map_del hkd]
      have h3 := hdisk.filter (fun x => key x ≠ key b)
      rw [hm] at h3
      have h4 : (b :: rest).filter (fun x => key x ≠ key b) = rest := by
        simp only [filter_cons, ne_eq, not_true_eq_false, decide_false]
        exact filter_eq_self.2 (fun x hx => by simpa using hnk x hx)
      rw [h4] at h3
      exact h3

theorem K_step {cfg : Cfg} {r : Run} (h : K key r) (op : Op)
    (hn : ((Run.step key cfg r op).acc.map key).Nodup) : K key (Run.step key cfg r op) := by
  obtain ⟨s₁, t, hs, _⟩ := step_cases key cfg r.st op
  have hacc : (Run.step key cfg r op).acc = r.acc ++ acceptedBy op (step key cfg r.st op).2 := rfl
  rw [hacc] at hn
  have h1 := K_trans key t h.keyed h.multiset h.disk hn
  rcases hs with hs | hs
  · exact ⟨by simpa [Run.step, hs] using h1.1, by simpa [Run.step, hs] using h1.2.1, by simpa [Run.step, hs] using h1.2.2⟩
  · refine ⟨by simpa [Run.step, hs, reload] using h1.1, ?_, by simp [Run.step, hs, reload]⟩
    have : (r.dlv ++ deliveredBy op (step key cfg r.st op).2 ++ s₁.disk.map (·.2)).Perm
        (r.dlv ++ deliveredBy op (step key cfg r.st op).2 ++ s₁.mem) := Perm.append_left _ h1.2.2
    simpa [Run.step, hs, reload] using this.trans h1.2.1

theorem K_run (cfg : Cfg) (ops : List Op) (hn : ((run key cfg ops).acc.map key).Nodup) : K key (run key cfg ops) :=
  run_induction_guarded key cfg (K key) (fun l => (l.map key).Nodup) (nodup_keys_prefix key)
    (fun _ op h hg => K_step key h op hg) {} (K_init key) ops hn

/-! ## without restart: the memory list is the abstract FIFO -/

theorem step_refines (cfg : Cfg) (s : St) (op : Op) (hp : op.plain = true) :
    (step key cfg s op).1.mem = (astep cfg s.mem op).1 ∧ (step key cfg s op).2 = (astep cfg s.mem op).2 := by
  have hfull : afull cfg s.mem = full cfg s := rfl
  cases op with
  | submit id b =>
    simp only [step, submit, astep, addBatch, hfull]
    split
    · simp
    · split
      · simp
      · split <;> simp [accept]
  | add b =>
    simp only [step, astep, addBatch, hfull]
    split <;> simp [accept]
  | next id =>
    simp only [step, getNext, astep, nextBatch]
    split
    · simp
    · cases h : s.mem <;> simp [pop, h]
  | qnext =>
    simp only [step, astep, nextBatch]
    cases h : s.mem <;> simp [pop, h]
  | restart => simp [Op.plain] at hp
  | load => simp [Op.plain] at hp
  | crashSubmit _ _ _ => simp [Op.plain] at hp
  | crashNext _ _ => simp [Op.plain] at hp

theorem run_refines (cfg : Cfg) (ops : List Op) (hp : ∀ op ∈ ops, op.plain = true) (r : Run) :
    (runFrom key cfg r ops).st.mem = (arun cfg r.st.mem ops).1 ∧
    (runFrom key cfg r ops).outs = r.outs ++ (arun cfg r.st.mem ops).2 := by
  induction ops generalizing r with
  | nil => simp [runFrom, arun]
  | cons op ops ih =>
    have h1 := step_refines key cfg r.st op (hp op (by simp))
    have h2 := ih (fun o ho => hp o (by simp [ho])) (Run.step key cfg r op)
    rw [runFrom_cons]
    simp only [arun]
    have hst : (Run.step key cfg r op).st = (step key cfg r.st op).1 := rfl
    have hout : (Run.step key cfg r op).outs = r.outs ++ [(step key cfg r.st op).2] := rfl
    rw [hst, h1.1] at h2
    rw [hout, h1.2] at h2
    exact ⟨h2.1, by rw [h2.2]; simp⟩

/-- without restart: handed out ++ pending = accepted, as lists -/
theorem fifo_plain (cfg : Cfg) (ops : List Op) (hp : ∀ op ∈ ops, op.plain = true) (r : Run)
    (h : r.dlv ++ r.st.mem = r.acc) :
    (runFrom key cfg r ops).dlv ++ (runFrom key cfg r ops).st.mem = (runFrom key cfg r ops).acc := by
  induction ops generalizing r with
  | nil => exact h
  | cons op ops ih =>
    rw [runFrom_cons]
    refine ih (fun o ho => hp o (by simp [ho])) _ ?_
    obtain ⟨s₁, t, _, hpl⟩ := step_cases key cfg r.st op
    have hs := hpl (hp op (by simp))
    show r.dlv ++ deliveredBy op (step key cfg r.st op).2 ++ (step key cfg r.st op).1.mem =
      r.acc ++ acceptedBy op (step key cfg r.st op).2
    rw [hs]
    revert t
    generalize acceptedBy op (step key cfg r.st op).2 = a
    generalize deliveredBy op (step key cfg r.st op).2 = d
    intro t
    cases t with
    | none => simpa using h
    | accept b hf => simp [accept, ← h]
    | pop b rest hm => rw [hm] at h; simp [pop, ← h]

/-! ## keys arriving in ascending order: the datastore order is the arrival order -/

/-- strictly ascending datastore order = memory order -/
structure A (r : Run) : Prop where
  keyed : Keyed key r.st.disk
  fifo : r.dlv ++ r.st.mem = r.acc
  disk : r.st.disk.map (·.2) = r.st.mem

theorem Disk.ins_last {k : Nat} {v : Batch} {d : Disk} (h : ∀ e ∈ d, e.1 < k) : Disk.ins k v d = d ++ [(k, v)] := by
  induction d with
  | nil => rfl
  | cons e r ih =>
    have he : e.1 < k := h e (by simp)
    have : ¬ k < e.1 := by omega
    simp only [Disk.ins, this, if_false, cons_append]
    rw [ih (fun x hx => h x (by simp [hx]))]

theorem ascending_prefix (l t : List Batch) (h : ((l ++ t).map key).Pairwise (· < ·)) :
    (l.map key).Pairwise (· < ·) := by
  rw [map_append] at h
  exact (pairwise_append.1 h).1

theorem A_trans {cfg : Cfg} {s s₁ : St} {a d acc dlv : List Batch} (t : Trans key cfg s s₁ a d)
    (hkd : Keyed key s.disk) (hf : dlv ++ s.mem = acc) (hdisk : s.disk.map (·.2) = s.mem)
    (hn : ((acc ++ a).map key).Pairwise (· < ·)) :
    Keyed key s₁.disk ∧ dlv ++ d ++ s₁.mem = acc ++ a ∧ s₁.disk.map (·.2) = s₁.mem := by
  cases t with
  | none => exact ⟨hkd, by simpa using hf, hdisk⟩
  | accept b hfull =>
    -- every pending key is smaller than the new one
    have hlt : ∀ x ∈ s.mem, key x < key b := by
      intro x hx
      have hxa : x ∈ acc := hf ▸ mem_append_right _ hx
      rw [map_append, pairwise_append] at hn
      exact hn.2.2 (key x) (mem_map_of_mem hxa) (key b) (by simp)
    have hdl : ∀ e ∈ s.disk, e.1 < key b := by
      intro e he
      rw [hkd e he]
      exact hlt e.2 (hdisk ▸ mem_map_of_mem (f := (·.2)) he)
    refine ⟨keyed_put hkd b, by simp [accept, ← hf], ?_⟩
    have hdel : Disk.del (key b) s.disk = s.disk :=
      filter_eq_self.2 (fun e he => by have := hdl e he; simp; omega)
    simp only [accept, Disk.put, hdel, Disk.ins_last hdl, map_append, hdisk, map_cons, map_nil]
  | pop b rest hm =>
    simp only [append_nil] at hn
    have hmem : (s.mem.map key).Pairwise (· < ·) := by
      rw [← hf, map_append] at hn
      exact (pairwise_append.1 hn).2.1
    have hnk : ∀ x ∈ rest, key x ≠ key b := by
      rw [hm, map_cons, pairwise_cons] at hmem
      intro x hx hxb
      have := hmem.1 (key x) (mem_map_of_mem hx)
      omega
    refine ⟨keyed_del hkd _, by rw [hm] at hf; simp [pop, ← hf], ?_⟩
    simp only [pop]
    rw [map_del hkd, hdisk, hm]
    simp only [filter_cons, ne_eq, not_true_eq_false, decide_false]
    exact filter_eq_self.2 (fun x hx => by simpa using hnk x hx)

theorem A_step {cfg : Cfg} {r : Run} (h : A key r) (op : Op)
    (hn : ((Run.step key cfg r op).acc.map key).Pairwise (· < ·)) : A key (Run.step key cfg r op) := by
  obtain ⟨s₁, t, hs, _⟩ := step_cases key cfg r.st op
  have hacc : (Run.step key cfg r op).acc = r.acc ++ acceptedBy op (step key cfg r.st op).2 := rfl
  rw [hacc] at hn
  have h1 := A_trans key t h.keyed h.fifo h.disk hn
  rcases hs with hs | hs
  · exact ⟨by simpa [Run.step, hs] using h1.1, by simpa [Run.step, hs] using h1.2.1, by simpa [Run.step, hs] using h1.2.2⟩
  · refine ⟨by simpa [Run.step, hs, reload] using h1.1, ?_, by simp [Run.step, hs, reload]⟩
    have := h1.2.1
    rw [← h1.2.2] at this
    simpa [Run.step, hs, reload] using this

theorem A_run (cfg : Cfg) (ops : List Op) (hn : ((run key cfg ops).acc.map key).Pairwise (· < ·)) :
    A key (run key cfg ops) :=
  run_induction_guarded key cfg (A key) (fun l => (l.map key).Pairwise (· < ·)) (ascending_prefix key)
    (fun _ op h hg => A_step key h op hg) {} ⟨fun _ h => by simp at h, rfl, rfl⟩ ops hn

end
end Queue
