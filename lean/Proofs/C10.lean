import Model.Queue

/-! Helper lemmas for `Spec/C10.lean`. Core Lean only. -/

namespace Queue
open List

/-! ## the key-ordered map -/

theorem Disk.ins_perm (k : Nat) (v : Batch) (d : Disk) : (Disk.ins k v d).Perm ((k, v) :: d) := by
  induction d with
  | nil => exact Perm.refl _
  | cons e r ih =>
    unfold Disk.ins
    split
    · exact Perm.refl _
    · exact (Perm.cons e ih).trans (Perm.swap _ _ _)

theorem Disk.mem_ins {k : Nat} {v : Batch} {d : Disk} {e : Nat × Batch} :
    e ∈ Disk.ins k v d ↔ e = (k, v) ∨ e ∈ d := by
  rw [(Disk.ins_perm k v d).mem_iff]; simp

theorem Disk.mem_del {k : Nat} {d : Disk} {e : Nat × Batch} : e ∈ Disk.del k d ↔ e ∈ d ∧ e.1 ≠ k := by
  simp [Disk.del]

/-- strictly ascending keys -/
def Disk.Sorted (d : Disk) : Prop := d.Pairwise (fun a b => a.1 < b.1)

theorem Disk.del_sorted {k : Nat} {d : Disk} (h : d.Sorted) : (Disk.del k d).Sorted :=
  Pairwise.filter _ h

theorem Disk.ins_sorted {k : Nat} {v : Batch} {d : Disk} (h : d.Sorted) (hk : ∀ e ∈ d, e.1 ≠ k) :
    (Disk.ins k v d).Sorted := by
  induction d with
  | nil => simp [Disk.ins, Disk.Sorted]
  | cons e r ih =>
    have hs : (∀ x ∈ r, e.1 < x.1) ∧ Disk.Sorted r := by simpa [Disk.Sorted] using h
    have hne : e.1 ≠ k := hk e (by simp)
    have hr : ∀ x ∈ r, x.1 ≠ k := fun x hx => hk x (by simp [hx])
    unfold Disk.ins
    split
    · rename_i hlt
      refine pairwise_cons.2 ⟨?_, h⟩
      intro x hx
      rcases mem_cons.1 hx with rfl | hx
      · exact hlt
      · exact Nat.lt_trans hlt (hs.1 x hx)
    · rename_i hge
      refine pairwise_cons.2 ⟨?_, ih hs.2 hr⟩
      intro x hx
      rcases Disk.mem_ins.1 hx with rfl | hx
      · show e.1 < k
        omega
      · exact hs.1 x hx

theorem Disk.put_sorted {k : Nat} {v : Batch} {d : Disk} (h : d.Sorted) : (Disk.put k v d).Sorted :=
  Disk.ins_sorted (Disk.del_sorted h) (fun _ he => (Disk.mem_del.1 he).2)

section
variable (key : Batch → Nat)

/-- every entry is stored under the key of its own batch -/
def Keyed (d : Disk) : Prop := ∀ e ∈ d, e.1 = key e.2

theorem map_del {key : Batch → Nat} {d : Disk} (hk : Keyed key d) (k : Nat) :
    (Disk.del k d).map (·.2) = (d.map (·.2)).filter (fun b => key b ≠ k) := by
  induction d with
  | nil => rfl
  | cons e r ih =>
    have he : e.1 = key e.2 := hk e (by simp)
    have hr : Keyed key r := fun x hx => hk x (by simp [hx])
    have ih := ih hr
    simp only [Disk.del, ne_eq, decide_not] at ih ⊢
    by_cases h : key e.2 = k <;> simp [he, h, ih]

theorem map_put_perm {key : Batch → Nat} {d : Disk} (hk : Keyed key d) (b : Batch) :
    ((Disk.put (key b) b d).map (·.2)).Perm (b :: (d.map (·.2)).filter (fun x => key x ≠ key b)) := by
  unfold Disk.put
  refine ((Disk.ins_perm _ _ _).map _).trans ?_
  simp only [map_cons]
  rw [map_del hk]

theorem keyed_put {key : Batch → Nat} {d : Disk} (hk : Keyed key d) (b : Batch) : Keyed key (Disk.put (key b) b d) := by
  intro e he
  rcases Disk.mem_ins.1 he with rfl | he
  · rfl
  · exact hk e (Disk.mem_del.1 he).1

theorem keyed_del {key : Batch → Nat} {d : Disk} (hk : Keyed key d) (k : Nat) : Keyed key (Disk.del k d) :=
  fun e he => hk e (Disk.mem_del.1 he).1

/-! ## every operation is one primitive transition, followed by a reload for the operations that restart -/

/-- `Trans s s₁ a d`: from `s` to `s₁`, accepting the batches `a`, removing the batches `d` from the queue.
`tick`: only the fault counters / the bound change (an armed fault consumed by a failing `Put`, `fail`, a new
bound); `popKeep`: `Next` whose `Delete` failed (possible only while a `Delete` fault is armed). -/
inductive Trans (cfg : Cfg) (s : St) : St → List Batch → List Batch → Prop
  | none : Trans cfg s s [] []
  | tick (s' : St) : s'.mem = s.mem → s'.disk = s.disk → Trans cfg s s' [] []
  | accept (b : Batch) : full cfg s = false → Trans cfg s (accept key s b) [b] []
  | pop (b : Batch) (r : List Batch) : s.mem = b :: r → Trans cfg s (pop key s b r) [] [b]
  | popKeep (b : Batch) (r : List Batch) : s.mem = b :: r → 0 < s.failDel → Trans cfg s (popKeep s r) [] [b]

theorem addBatch_cases (cfg : Cfg) (s : St) (b : Batch) :
    ((addBatch key cfg s b) = (s, .errFull) ∧ full cfg s = true) ∨
    ((addBatch key cfg s b) = (accept key s b, .ok) ∧ full cfg s = false) := by
  unfold addBatch
  cases h : full cfg s <;> simp

theorem nextBatch_cases (s : St) :
    ((nextBatch key s) = (s, .empty) ∧ s.mem = []) ∨
    (∃ b r, (nextBatch key s) = (pop key s b r, .batch b) ∧ s.mem = b :: r) := by
  unfold nextBatch
  cases h : s.mem with
  | nil => simp
  | cons b r => exact Or.inr ⟨b, r, by simp⟩

theorem submit_cases (cfg : Cfg) (s : St) (id : Bytes) (b : Batch) :
    (∃ o, submit key cfg s id b = (s, o) ∧ (o = .errId ∨ o = .skipEmpty ∨ o = .errFull)) ∨
    (submit key cfg s id b = (accept key s b, .ok) ∧ full cfg s = false) := by
  unfold submit
  by_cases h1 : id ≠ cfg.id
  · simp [h1]
  · by_cases h2 : b.isEmpty
    · simp only [h1, h2]; simp
    · simp only [h1, h2]
      rcases addBatch_cases key cfg s b with ⟨h, _⟩ | ⟨h, hf⟩
      · left; exact ⟨_, by simpa using h, by simp⟩
      · right; exact ⟨by simpa using h, hf⟩

theorem getNext_cases (cfg : Cfg) (s : St) (id : Bytes) :
    (∃ o, getNext key cfg s id = (s, o) ∧ (o = .errId ∨ o = .empty)) ∨
    (∃ b r, getNext key cfg s id = (pop key s b r, .batch b) ∧ s.mem = b :: r) := by
  unfold getNext
  by_cases h1 : id ≠ cfg.id
  · simp [h1]
  · simp only [h1]
    rcases nextBatch_cases key s with ⟨h, _⟩ | ⟨b, r, h, hm⟩
    · left; exact ⟨_, by simpa using h, by simp⟩
    · right; exact ⟨b, r, by simpa using h, hm⟩

/-! ### with datastore errors -/

/-- the state after a failing `Put`: one armed fault consumed, nothing else -/
def putFailed (s : St) : St := { s with failPut := s.failPut - 1 }

theorem addBatchF_cases (cfg : Cfg) (s : St) (b : Batch) :
    (addBatchF key cfg s b = (s, .errFull) ∧ full cfg s = true) ∨
    (addBatchF key cfg s b = (putFailed s, .errStore) ∧ full cfg s = false ∧ 0 < s.failPut) ∨
    (addBatchF key cfg s b = (accept key s b, .ok) ∧ full cfg s = false ∧ s.failPut = 0) := by
  unfold addBatchF putFailed
  cases h : full cfg s
  · by_cases hp : 0 < s.failPut
    · right; left; simp [hp]
    · right; right; simp [hp]; omega
  · left; simp

theorem nextBatchF_cases (s : St) :
    (nextBatchF key s = (s, .empty) ∧ s.mem = []) ∨
    (∃ b r, nextBatchF key s = (pop key s b r, .batch b) ∧ s.mem = b :: r ∧ s.failDel = 0) ∨
    (∃ b r, nextBatchF key s = (popKeep s r, .batch b) ∧ s.mem = b :: r ∧ 0 < s.failDel) := by
  unfold nextBatchF
  cases h : s.mem with
  | nil => simp
  | cons b r =>
    by_cases hd : 0 < s.failDel
    · right; right; exact ⟨b, r, by simp [hd], rfl, hd⟩
    · right; left; exact ⟨b, r, by simp [hd], rfl, by omega⟩

theorem submitF_cases (cfg : Cfg) (s : St) (id : Bytes) (b : Batch) :
    (∃ o, submitF key cfg s id b = (s, o) ∧ (o = .errId ∨ o = .skipEmpty ∨ o = .errFull)) ∨
    (submitF key cfg s id b = (putFailed s, .errStore) ∧ full cfg s = false ∧ 0 < s.failPut) ∨
    (submitF key cfg s id b = (accept key s b, .ok) ∧ full cfg s = false ∧ s.failPut = 0) := by
  unfold submitF
  by_cases h1 : id ≠ cfg.id
  · simp [h1]
  · by_cases h2 : b.isEmpty
    · simp only [h1, h2]; simp
    · simp only [h1, h2]
      rcases addBatchF_cases key cfg s b with ⟨h, _⟩ | ⟨h, hf⟩ | ⟨h, hf⟩
      · left; exact ⟨_, by simpa using h, by simp⟩
      · right; left; exact ⟨by simpa using h, hf⟩
      · right; right; exact ⟨by simpa using h, hf⟩

theorem getNextF_cases (cfg : Cfg) (s : St) (id : Bytes) :
    (∃ o, getNextF key cfg s id = (s, o) ∧ (o = .errId ∨ o = .empty)) ∨
    (∃ b r, getNextF key cfg s id = (pop key s b r, .batch b) ∧ s.mem = b :: r ∧ s.failDel = 0) ∨
    (∃ b r, getNextF key cfg s id = (popKeep s r, .batch b) ∧ s.mem = b :: r ∧ 0 < s.failDel) := by
  unfold getNextF
  by_cases h1 : id ≠ cfg.id
  · simp [h1]
  · simp only [h1]
    rcases nextBatchF_cases key s with ⟨h, _⟩ | ⟨b, r, h, hm⟩ | ⟨b, r, h, hm⟩
    · left; exact ⟨_, by simpa using h, by simp⟩
    · right; left; exact ⟨b, r, by simpa using h, hm⟩
    · right; right; exact ⟨b, r, by simpa using h, hm⟩

/-- with a healthy datastore the fault-aware functions are the plain ones -/
theorem addBatchF_eq (cfg : Cfg) (s : St) (b : Batch) (h : s.failPut = 0) : addBatchF key cfg s b = addBatch key cfg s b := by
  unfold addBatchF addBatch; simp [h]
theorem nextBatchF_eq (s : St) (h : s.failDel = 0) : nextBatchF key s = nextBatch key s := by
  unfold nextBatchF nextBatch; cases s.mem <;> simp [h]
theorem submitF_eq (cfg : Cfg) (s : St) (id : Bytes) (b : Batch) (h : s.failPut = 0) :
    submitF key cfg s id b = submit key cfg s id b := by
  unfold submitF submit; rw [addBatchF_eq key cfg s b h]
theorem getNextF_eq (cfg : Cfg) (s : St) (id : Bytes) (h : s.failDel = 0) : getNextF key cfg s id = getNext key cfg s id := by
  unfold getNextF getNext; rw [nextBatchF_eq key s h]

/-- what a submission accepts, by its answer -/
def okList (b : Batch) : Out → List Batch
  | .ok => [b]
  | _ => []

/-- what a request removes from the queue, by its answer -/
def batchList : Out → List Batch
  | .batch b => [b]
  | _ => []

theorem addBatchF_trans (cfg : Cfg) (s : St) (b : Batch) :
    Trans key cfg s (addBatchF key cfg s b).1 (okList b (addBatchF key cfg s b).2) [] := by
  rcases addBatchF_cases key cfg s b with ⟨h, _⟩ | ⟨h, _, _⟩ | ⟨h, hf, _⟩
  · rw [h]; exact .none
  · rw [h]; exact .tick _ rfl rfl
  · rw [h]; exact .accept b hf

theorem submitF_trans (cfg : Cfg) (s : St) (id : Bytes) (b : Batch) :
    Trans key cfg s (submitF key cfg s id b).1 (okList b (submitF key cfg s id b).2) [] := by
  rcases submitF_cases key cfg s id b with ⟨o, h, ho⟩ | ⟨h, _, _⟩ | ⟨h, hf, _⟩
  · rw [h]; rcases ho with rfl | rfl | rfl <;> exact .none
  · rw [h]; exact .tick _ rfl rfl
  · rw [h]; exact .accept b hf

theorem nextBatchF_trans (cfg : Cfg) (s : St) :
    Trans key cfg s (nextBatchF key s).1 [] (batchList (nextBatchF key s).2) := by
  rcases nextBatchF_cases key s with ⟨h, _⟩ | ⟨b, r, h, hm, _⟩ | ⟨b, r, h, hm, hd⟩
  · rw [h]; exact .none
  · rw [h]; exact .pop b r hm
  · rw [h]; exact .popKeep b r hm hd

theorem getNextF_trans (cfg : Cfg) (s : St) (id : Bytes) :
    Trans key cfg s (getNextF key cfg s id).1 [] (batchList (getNextF key cfg s id).2) := by
  rcases getNextF_cases key cfg s id with ⟨o, h, ho⟩ | ⟨b, r, h, hm, _⟩ | ⟨b, r, h, hm, hd⟩
  · rw [h]; rcases ho with rfl | rfl <;> exact .none
  · rw [h]; exact .pop b r hm
  · rw [h]; exact .popKeep b r hm hd

theorem acceptedBy_submit (id : Bytes) (b : Batch) (o : Out) : acceptedBy (.submit id b) o = okList b o := by cases o <;> rfl
theorem acceptedBy_crashSubmit (id : Bytes) (b : Batch) (o : Out) : acceptedBy (.crashSubmit true id b) o = okList b o := by cases o <;> rfl
theorem acceptedBy_add (b : Batch) (o : Out) : acceptedBy (.add b) o = okList b o := by cases o <;> rfl
theorem removedBy_next (id : Bytes) (o : Out) : removedBy (.next id) o = batchList o := by cases o <;> rfl
theorem removedBy_crashNext (id : Bytes) (o : Out) : removedBy (.crashNext true id) o = batchList o := by cases o <;> rfl
theorem removedBy_qnext (o : Out) : removedBy .qnext o = batchList o := by cases o <;> rfl
theorem acceptedBy_submitCtx (c : Ctx) (id : Bytes) (b : Batch) (o : Out) : acceptedBy (.submitCtx c id b) o = okList b o := by cases o <;> rfl
theorem removedBy_nextCtx (c : Ctx) (id : Bytes) (o : Out) : removedBy (.nextCtx c id) o = batchList o := by cases o <;> rfl

/-- the shape of one step: a primitive transition to `stepCore` (the state before the process stops,
if it does), then a reload exactly for the operations that restart -/
theorem step_core (cfg : Cfg) (s : St) (op : Op) :
    Trans key cfg s (stepCore key cfg s op) (acceptedBy op (step key cfg s op).2) (removedBy op (step key cfg s op).2) ∧
    (step key cfg s op).1 = (if op.reloads = true then reload (stepCore key cfg s op) else stepCore key cfg s op) := by
  cases op with
  | submit id b =>
    refine ⟨?_, by simp [step, stepCore, Op.reloads]⟩
    have hr : removedBy (.submit id b) (step key cfg s (.submit id b)).2 = [] := by cases (step key cfg s (.submit id b)).2 <;> rfl
    rw [acceptedBy_submit, hr]; exact submitF_trans key cfg s id b
  | next id =>
    refine ⟨?_, by simp [step, stepCore, Op.reloads]⟩
    have ha : acceptedBy (.next id) (step key cfg s (.next id)).2 = [] := by cases (step key cfg s (.next id)).2 <;> rfl
    rw [removedBy_next, ha]; exact getNextF_trans key cfg s id
  | add b =>
    refine ⟨?_, by simp [step, stepCore, Op.reloads]⟩
    have hr : removedBy (.add b) (step key cfg s (.add b)).2 = [] := by cases (step key cfg s (.add b)).2 <;> rfl
    rw [acceptedBy_add, hr]; exact addBatchF_trans key cfg s b
  | qnext =>
    refine ⟨?_, by simp [step, stepCore, Op.reloads]⟩
    have ha : acceptedBy .qnext (step key cfg s .qnext).2 = [] := by cases (step key cfg s .qnext).2 <;> rfl
    rw [removedBy_qnext, ha]; exact nextBatchF_trans key cfg s
  | submitCtx c id b =>
    refine ⟨?_, by simp [step, stepCore, Op.reloads]⟩
    have hr : removedBy (.submitCtx c id b) (step key cfg s (.submitCtx c id b)).2 = [] := by
      cases (step key cfg s (.submitCtx c id b)).2 <;> rfl
    rw [acceptedBy_submitCtx, hr]; exact submitF_trans key cfg s id b
  | nextCtx c id =>
    refine ⟨?_, by simp [step, stepCore, Op.reloads]⟩
    have ha : acceptedBy (.nextCtx c id) (step key cfg s (.nextCtx c id)).2 = [] := by
      cases (step key cfg s (.nextCtx c id)).2 <;> rfl
    rw [removedBy_nextCtx, ha]; exact getNextF_trans key cfg s id
  | restart => exact ⟨by simp [acceptedBy, removedBy, stepCore]; exact .none, by simp [step, stepCore, Op.reloads]⟩
  | load => exact ⟨by simp [acceptedBy, removedBy, stepCore]; exact .none, by simp [step, stepCore, Op.reloads]⟩
  | restartMax n =>
    exact ⟨by simp [acceptedBy, removedBy, stepCore]; exact .tick _ rfl rfl, by simp [step, stepCore, Op.reloads]⟩
  | fail p d =>
    exact ⟨by simp [acceptedBy, removedBy, stepCore]; exact .tick _ rfl rfl, by simp [step, stepCore, Op.reloads]⟩
  | crashSubmit aw id b =>
    cases aw with
    | true =>
      refine ⟨?_, by simp [step, stepCore, Op.reloads]⟩
      have hr : removedBy (.crashSubmit true id b) (step key cfg s (.crashSubmit true id b)).2 = [] := by
        cases (step key cfg s (.crashSubmit true id b)).2 <;> rfl
      rw [acceptedBy_crashSubmit, hr]; exact submitF_trans key cfg s id b
    | false =>
      refine ⟨?_, by simp [step, stepCore, Op.reloads]⟩
      have : acceptedBy (.crashSubmit false id b) (step key cfg s (.crashSubmit false id b)).2 = [] := by
        cases (step key cfg s (.crashSubmit false id b)).2 <;> rfl
      have h2 : removedBy (.crashSubmit false id b) (step key cfg s (.crashSubmit false id b)).2 = [] := by
        cases (step key cfg s (.crashSubmit false id b)).2 <;> rfl
      rw [this, h2]; exact .none
  | crashNext aw id =>
    cases aw with
    | true =>
      refine ⟨?_, by simp [step, stepCore, Op.reloads]⟩
      have ha : acceptedBy (.crashNext true id) (step key cfg s (.crashNext true id)).2 = [] := by
        cases (step key cfg s (.crashNext true id)).2 <;> rfl
      rw [removedBy_crashNext, ha]; exact getNextF_trans key cfg s id
    | false =>
      refine ⟨?_, by simp [step, stepCore, Op.reloads]⟩
      have : acceptedBy (.crashNext false id) (step key cfg s (.crashNext false id)).2 = [] := by
        cases (step key cfg s (.crashNext false id)).2 <;> rfl
      have h2 : removedBy (.crashNext false id) (step key cfg s (.crashNext false id)).2 = [] := by
        cases (step key cfg s (.crashNext false id)).2 <;> rfl
      rw [this, h2]; exact .none

theorem plain_not_reloads {op : Op} (h : op.plain = true) : op.reloads = false := by
  cases op <;> first | rfl | simp [Op.plain] at h

theorem lifetime_not_reloads {op : Op} (h : op.lifetime = true) : op.reloads = false := by
  cases op <;> first | rfl | simp [Op.lifetime] at h

/-- the same, with the intermediate state abstracted -/
theorem step_cases (cfg : Cfg) (s : St) (op : Op) :
    ∃ s₁, Trans key cfg s s₁ (acceptedBy op (step key cfg s op).2) (removedBy op (step key cfg s op).2) ∧
      ((step key cfg s op).1 = s₁ ∨ (step key cfg s op).1 = reload s₁) ∧
      (op.plain = true → (step key cfg s op).1 = s₁) := by
  obtain ⟨t, hs⟩ := step_core key cfg s op
  refine ⟨_, t, ?_, fun hp => by rw [hs, if_neg (by simp [plain_not_reloads hp])]⟩
  by_cases hp : op.reloads = true
  · right; rw [hs, if_pos hp]
  · left; rw [hs, if_neg hp]

/-! ## the ghost lists: removed = handed out + lost in the window between `Delete` and return -/

theorem removedBy_eq (op : Op) (o : Out) : removedBy op o = deliveredBy op o ++ lostBy op o := by
  cases op with
  | crashNext aw id => cases aw <;> cases o <;> rfl
  | crashSubmit aw id b => cases aw <;> cases o <;> rfl
  | _ => cases o <;> rfl

theorem lostBy_nil_of_not_crash {op : Op} (h : op.crashAfterDelete = false) (o : Out) : lostBy op o = [] := by
  cases op with
  | crashNext aw id =>
    cases aw
    · cases o <;> rfl
    · simp [Op.crashAfterDelete] at h
  | crashSubmit aw id b => cases aw <;> cases o <;> rfl
  | _ => cases o <;> rfl

theorem plain_not_crash {op : Op} (h : op.plain = true) : op.crashAfterDelete = false := by
  cases op <;> first | rfl | simp [Op.plain] at h

/-! ## lifting a one-step invariant over histories -/

theorem runFrom_cons (cfg : Cfg) (r : Run) (op : Op) (ops : List Op) :
    runFrom key cfg r (op :: ops) = runFrom key cfg (Run.step key cfg r op) ops := rfl

theorem runFrom_append (cfg : Cfg) (r : Run) (ops₁ ops₂ : List Op) :
    runFrom key cfg r (ops₁ ++ ops₂) = runFrom key cfg (runFrom key cfg r ops₁) ops₂ := by
  simp [runFrom, foldl_append]

/-- the accepted list only grows -/
theorem acc_prefix (cfg : Cfg) (r : Run) (ops : List Op) : ∃ t, (runFrom key cfg r ops).acc = r.acc ++ t := by
  induction ops generalizing r with
  | nil => exact ⟨[], by simp [runFrom]⟩
  | cons op ops ih =>
    obtain ⟨t, ht⟩ := ih (Run.step key cfg r op)
    exact ⟨acceptedBy op (step key cfg r.st op).2 ++ t, by rw [runFrom_cons, ht]; simp [Run.step]⟩

/-- an invariant of runs that is preserved by every step is true of every history -/
theorem run_induction (cfg : Cfg) (P : Run → Prop)
    (hstep : ∀ r op, P r → P (Run.step key cfg r op)) (r : Run) (h0 : P r) (ops : List Op) :
    P (runFrom key cfg r ops) := by
  induction ops generalizing r with
  | nil => exact h0
  | cons op ops ih => exact ih _ (hstep r op h0)

/-- the same for an invariant that needs a hypothesis `G` on the final accepted list which is
inherited by every prefix of it, and a side condition `R` on every operation -/
theorem run_induction_guarded (cfg : Cfg) (P : Run → Prop) (G : List Batch → Prop) (R : Op → Prop)
    (hG : ∀ l t, G (l ++ t) → G l)
    (hstep : ∀ r op, P r → R op → G (Run.step key cfg r op).acc → P (Run.step key cfg r op))
    (r : Run) (h0 : P r) (ops : List Op) (hr : ∀ op ∈ ops, R op) (hg : G (runFrom key cfg r ops).acc) :
    P (runFrom key cfg r ops) := by
  induction ops generalizing r with
  | nil => exact h0
  | cons op ops ih =>
    rw [runFrom_cons] at hg ⊢
    obtain ⟨t, ht⟩ := acc_prefix key cfg (Run.step key cfg r op) ops
    exact ih _ (hstep r op h0 (hr op (by simp)) (hG _ t (ht ▸ hg))) (fun o ho => hr o (by simp [ho])) hg

/-- an invariant that is preserved by every operation satisfying a side condition `R` -/
theorem run_induction_ops (cfg : Cfg) (P : Run → Prop) (R : Op → Prop)
    (hstep : ∀ r op, P r → R op → P (Run.step key cfg r op)) (r : Run) (h0 : P r) (ops : List Op)
    (hr : ∀ op ∈ ops, R op) : P (runFrom key cfg r ops) := by
  induction ops generalizing r with
  | nil => exact h0
  | cons op ops ih => exact ih _ (hstep r op h0 (hr op (by simp))) (fun o ho => hr o (by simp [ho]))

/-- an invariant that needs, at every position of the history, a hypothesis `Q` about the operation
executed there and the state it reaches before the process stops (`stepCore`) -/
theorem run_induction_moments (cfg : Cfg) (P : Run → Prop) (Q : Op → St → Prop)
    (hstep : ∀ r op, P r → Q op (stepCore key cfg r.st op) → P (Run.step key cfg r op))
    (r : Run) (h0 : P r) (ops : List Op)
    (hq : ∀ pre op post, ops = pre ++ op :: post → Q op (stepCore key cfg (runFrom key cfg r pre).st op)) :
    P (runFrom key cfg r ops) := by
  induction ops generalizing r with
  | nil => exact h0
  | cons op ops ih =>
    rw [runFrom_cons]
    refine ih _ (hstep r op h0 (hq [] op ops rfl)) (fun pre o post he => ?_)
    have := hq (op :: pre) o post (by rw [he]; rfl)
    rwa [runFrom_cons] at this

/-- ghost bookkeeping (every history): removed = handed out + lost, as multisets; handed out is a
subsequence of removed -/
structure Gh (r : Run) : Prop where
  perm : r.rem.Perm (r.dlv ++ r.lost)
  sub : r.dlv.Sublist r.rem

theorem Gh_step {cfg : Cfg} {r : Run} (h : Gh r) (op : Op) : Gh (Run.step key cfg r op) := by
  constructor
  · show (r.rem ++ removedBy op _).Perm (r.dlv ++ deliveredBy op _ ++ (r.lost ++ lostBy op _))
    rw [removedBy_eq]
    have h1 := h.perm.append_right (deliveredBy op (step key cfg r.st op).2 ++ lostBy op (step key cfg r.st op).2)
    refine h1.trans ?_
    simp only [append_assoc]
    refine Perm.append_left _ ?_
    rw [← append_assoc, ← append_assoc]
    exact Perm.append_right _ perm_append_comm
  · show (r.dlv ++ deliveredBy op _).Sublist (r.rem ++ removedBy op _)
    rw [removedBy_eq]
    exact h.sub.append (sublist_append_left _ _)

theorem Gh_run (cfg : Cfg) (ops : List Op) : Gh (run key cfg ops) :=
  run_induction key cfg Gh (fun _ op h => Gh_step key h op) {} ⟨by simp, by simp⟩ ops

/-- nothing was lost in the window ⇒ handed out = removed, as sequences -/
theorem dlv_eq_rem {r : Run} (h : Gh r) (hl : r.lost = []) : r.dlv = r.rem := by
  have hp := h.perm
  rw [hl, append_nil] at hp
  exact h.sub.eq_of_length hp.length_eq.symm

/-- no call died between its `Delete` and its return ⇒ nothing was lost in that window -/
theorem lost_nil_of_no_crash (cfg : Cfg) (ops : List Op) (h : ∀ op ∈ ops, op.crashAfterDelete = false) :
    (run key cfg ops).lost = [] := by
  refine run_induction_moments key cfg (fun r => r.lost = []) (fun op _ => op.crashAfterDelete = false)
    (fun r op hr hq => ?_) {} rfl ops (fun pre op post he => h op (by simp [he]))
  show r.lost ++ lostBy op _ = []
  rw [hr, lostBy_nil_of_not_crash hq]; rfl

/-! ## no failing `Delete` is armed

Datastore errors are outside the property's quantifier.  A failing `Put` is harmless (nothing changes);
a failing `Delete` leaves the record of a batch that has been handed out, which a restart brings back.
The invariants below are about histories in which no `Delete` fault is ever armed (`Op.armsDelete`). -/

theorem failDel_stepCore {cfg : Cfg} {s : St} (h : s.failDel = 0) {op : Op} (ho : op.armsDelete = false) :
    (stepCore key cfg s op).failDel = 0 := by
  cases op with
  | submit id b =>
    rcases submitF_cases key cfg s id b with ⟨o, h1, _⟩ | ⟨h1, _⟩ | ⟨h1, _⟩ <;> simp [stepCore, h1, putFailed, accept, h]
  | crashSubmit aw id b =>
    cases aw
    · exact h
    · rcases submitF_cases key cfg s id b with ⟨o, h1, _⟩ | ⟨h1, _⟩ | ⟨h1, _⟩ <;> simp [stepCore, h1, putFailed, accept, h]
  | add b =>
    rcases addBatchF_cases key cfg s b with ⟨h1, _⟩ | ⟨h1, _⟩ | ⟨h1, _⟩ <;> simp [stepCore, h1, putFailed, accept, h]
  | next id =>
    rcases getNextF_cases key cfg s id with ⟨o, h1, _⟩ | ⟨b, r, h1, _⟩ | ⟨b, r, h1, _, hd⟩
    · simp [stepCore, h1, h]
    · simp [stepCore, h1, pop, h]
    · omega
  | crashNext aw id =>
    cases aw
    · exact h
    · rcases getNextF_cases key cfg s id with ⟨o, h1, _⟩ | ⟨b, r, h1, _⟩ | ⟨b, r, h1, _, hd⟩
      · simp [stepCore, h1, h]
      · simp [stepCore, h1, pop, h]
      · omega
  | qnext =>
    rcases nextBatchF_cases key s with ⟨h1, _⟩ | ⟨b, r, h1, _⟩ | ⟨b, r, h1, _, hd⟩
    · simp [stepCore, h1, h]
    · simp [stepCore, h1, pop, h]
    · omega
  | restart => exact h
  | load => exact h
  | restartMax n => exact h
  | fail p d =>
    have : d = 0 := by simpa [Op.armsDelete] using ho
    simp [stepCore, this]
  | submitCtx c id b =>
    rcases submitF_cases key cfg s id b with ⟨o, h1, _⟩ | ⟨h1, _⟩ | ⟨h1, _⟩ <;> simp [stepCore, h1, putFailed, accept, h]
  | nextCtx c id =>
    rcases getNextF_cases key cfg s id with ⟨o, h1, _⟩ | ⟨b, r, h1, _⟩ | ⟨b, r, h1, _, hd⟩
    · simp [stepCore, h1, h]
    · simp [stepCore, h1, pop, h]
    · omega

theorem failDel_step {cfg : Cfg} {s : St} (h : s.failDel = 0) {op : Op} (ho : op.armsDelete = false) :
    (step key cfg s op).1.failDel = 0 := by
  rw [(step_core key cfg s op).2]
  split
  · rfl
  · exact failDel_stepCore key h ho

/-! ## invariant J (every key function, every history without failing Deletes): the datastore is a
key-sorted, correctly keyed sub-multiset of memory -/

structure J (cfg : Cfg) (s : St) : Prop where
  keyed : Keyed key s.disk
  sorted : s.disk.Sorted
  sub : ∃ l, l.Sublist s.mem ∧ (s.disk.map (·.2)).Perm l
  nofd : s.failDel = 0

theorem J_init (cfg : Cfg) : J key cfg {} :=
  ⟨fun _ h => by simp at h, by simp [Disk.Sorted], ⟨[], by simp, by simp⟩, rfl⟩

theorem J_reload {cfg : Cfg} {s : St} (h : J key cfg s) : J key cfg (reload s) :=
  ⟨h.keyed, h.sorted, ⟨_, Sublist.refl _, Perm.refl _⟩, rfl⟩

theorem J_trans {cfg : Cfg} {s s₁ : St} {a d : List Batch} (h : J key cfg s) (t : Trans key cfg s s₁ a d) :
    Keyed key s₁.disk ∧ s₁.disk.Sorted ∧ ∃ l, l.Sublist s₁.mem ∧ (s₁.disk.map (·.2)).Perm l := by
  obtain ⟨l, hl, hp⟩ := h.sub
  cases t with
  | none => exact ⟨h.keyed, h.sorted, l, hl, hp⟩
  | tick s' hm hd => exact ⟨hd ▸ h.keyed, hd ▸ h.sorted, l, hm ▸ hl, hd ▸ hp⟩
  | accept b hf =>
    refine ⟨keyed_put h.keyed b, Disk.put_sorted h.sorted, ?_⟩
    refine ⟨l.filter (fun x => key x ≠ key b) ++ [b], ?_, ?_⟩
    · exact Sublist.append ((filter_sublist).trans hl) (Sublist.refl _)
    · refine (map_put_perm h.keyed b).trans ?_
      refine (Perm.cons b (hp.filter _)).trans ?_
      exact (perm_append_comm (l₁ := [b])).trans (Perm.refl _) |>.trans (by simp)
  | pop b r hm =>
    refine ⟨keyed_del h.keyed _, Disk.del_sorted h.sorted, ?_⟩
    refine ⟨l.filter (fun x => key x ≠ key b), ?_, ?_⟩
    · have h1 : (l.filter (fun x => key x ≠ key b)).Sublist ((b :: r).filter (fun x => key x ≠ key b)) :=
        (hm ▸ hl).filter _
      have h2 : (b :: r).filter (fun x => key x ≠ key b) = r.filter (fun x => key x ≠ key b) := by simp
      exact (h2 ▸ h1).trans filter_sublist
    · simp only [pop]
      rw [map_del h.keyed]
      exact hp.filter _
  | popKeep b r hm hd => have := h.nofd; omega

theorem J_core {cfg : Cfg} {s : St} (h : J key cfg s) (op : Op) (ho : op.armsDelete = false) :
    J key cfg (stepCore key cfg s op) := by
  obtain ⟨h1, h2, h3⟩ := J_trans key h (step_core key cfg s op).1
  exact ⟨h1, h2, h3, failDel_stepCore key h.nofd ho⟩

theorem J_step {cfg : Cfg} {s : St} (h : J key cfg s) (op : Op) (ho : op.armsDelete = false) :
    J key cfg (step key cfg s op).1 := by
  rw [(step_core key cfg s op).2]
  split
  · exact J_reload key (J_core key h op ho)
  · exact J_core key h op ho

theorem J_run (cfg : Cfg) (ops : List Op) (ho : ∀ op ∈ ops, op.armsDelete = false) : J key cfg (run key cfg ops).st :=
  run_induction_ops key cfg (fun r => J key cfg r.st) (fun op => op.armsDelete = false)
    (fun _ op h hr => J_step key h op hr) {} (J_init key cfg) ops ho

/-! ## the bound (histories in which the bound is not changed by a restart) -/

structure B (cfg : Cfg) (s : St) : Prop where
  same : s.maxOverride = none
  bound : 0 < cfg.max → s.mem.length ≤ cfg.max

theorem B_trans {cfg : Cfg} {s s₁ : St} {a d : List Batch} (h : B cfg s) (t : Trans key cfg s s₁ a d)
    (hs : s₁.maxOverride = none) : B cfg s₁ := by
  refine ⟨hs, fun hm => ?_⟩
  have hb := h.bound hm
  cases t with
  | none => exact hb
  | tick s' hmem _ => rw [hmem]; exact hb
  | accept b hf =>
    simp only [full, effMax, h.same, Option.getD_none, hm, decide_true, Bool.true_and, decide_eq_false_iff_not, Nat.not_le] at hf
    simp only [accept, length_append, length_singleton]
    omega
  | pop b r hmem => rw [hmem] at hb; simp only [pop]; simp only [length_cons] at hb; omega
  | popKeep b r hmem _ => rw [hmem] at hb; simp only [popKeep]; simp only [length_cons] at hb; omega

theorem override_stepCore {cfg : Cfg} {s : St} {op : Op} (ho : op.changesBound = false) :
    (stepCore key cfg s op).maxOverride = s.maxOverride := by
  cases op with
  | submit id b =>
    rcases submitF_cases key cfg s id b with ⟨o, h1, _⟩ | ⟨h1, _⟩ | ⟨h1, _⟩ <;> simp [stepCore, h1, putFailed, accept]
  | crashSubmit aw id b =>
    cases aw
    · rfl
    · rcases submitF_cases key cfg s id b with ⟨o, h1, _⟩ | ⟨h1, _⟩ | ⟨h1, _⟩ <;> simp [stepCore, h1, putFailed, accept]
  | add b =>
    rcases addBatchF_cases key cfg s b with ⟨h1, _⟩ | ⟨h1, _⟩ | ⟨h1, _⟩ <;> simp [stepCore, h1, putFailed, accept]
  | next id =>
    rcases getNextF_cases key cfg s id with ⟨o, h1, _⟩ | ⟨b, r, h1, _⟩ | ⟨b, r, h1, _⟩ <;> simp [stepCore, h1, pop, popKeep]
  | crashNext aw id =>
    cases aw
    · rfl
    · rcases getNextF_cases key cfg s id with ⟨o, h1, _⟩ | ⟨b, r, h1, _⟩ | ⟨b, r, h1, _⟩ <;> simp [stepCore, h1, pop, popKeep]
  | qnext =>
    rcases nextBatchF_cases key s with ⟨h1, _⟩ | ⟨b, r, h1, _⟩ | ⟨b, r, h1, _⟩ <;> simp [stepCore, h1, pop, popKeep]
  | restart => rfl
  | load => rfl
  | restartMax n => simp [Op.changesBound] at ho
  | fail p d => rfl
  | submitCtx c id b =>
    rcases submitF_cases key cfg s id b with ⟨o, h1, _⟩ | ⟨h1, _⟩ | ⟨h1, _⟩ <;> simp [stepCore, h1, putFailed, accept]
  | nextCtx c id =>
    rcases getNextF_cases key cfg s id with ⟨o, h1, _⟩ | ⟨b, r, h1, _⟩ | ⟨b, r, h1, _⟩ <;> simp [stepCore, h1, pop, popKeep]

theorem B_step {cfg : Cfg} {s : St} (hj : J key cfg s) (h : B cfg s) (op : Op) (ho : op.armsDelete = false)
    (hc : op.changesBound = false) : B cfg (step key cfg s op).1 := by
  have hb : B cfg (stepCore key cfg s op) :=
    B_trans key h (step_core key cfg s op).1 (by rw [override_stepCore key hc]; exact h.same)
  rw [(step_core key cfg s op).2]
  split
  · refine ⟨hb.same, fun hm => ?_⟩
    obtain ⟨l, hl, hp⟩ := (J_core key hj op ho).sub
    have h1 := hp.length_eq
    have h2 := hl.length_le
    have h3 := hb.bound hm
    simp only [reload, length_map] at h1 ⊢
    omega
  · exact hb

/-! ## invariant M (every key function, every history without failing Deletes): nothing is removed or
pending more often than it was accepted -/

def M (r : Run) : Prop := ∀ x, (r.rem ++ r.st.mem).count x ≤ r.acc.count x

theorem M_trans {cfg : Cfg} {s s₁ : St} {a d acc dlv : List Batch} (t : Trans key cfg s s₁ a d)
    (h : ∀ x, (dlv ++ s.mem).count x ≤ acc.count x) :
    ∀ x, (dlv ++ d ++ s₁.mem).count x ≤ (acc ++ a).count x := by
  intro x
  have hx := h x
  cases t with
  | none => simpa using hx
  | tick s' hm _ => rw [hm]; simpa using hx
  | accept b hf =>
    simp only [accept, count_append, append_nil] at hx ⊢
    omega
  | pop b rest hm =>
    simp only [hm, count_append] at hx
    simp only [pop, count_append, append_nil]
    have : count x (b :: rest) = count x [b] + count x rest := by
      rw [← count_append]; rfl
    omega
  | popKeep b rest hm _ =>
    simp only [hm, count_append] at hx
    simp only [popKeep, count_append, append_nil]
    have : count x (b :: rest) = count x [b] + count x rest := by
      rw [← count_append]; rfl
    omega

theorem M_step {cfg : Cfg} {r : Run} (hj : J key cfg r.st) (h : M r) (op : Op) (ho : op.armsDelete = false) :
    M (Run.step key cfg r op) := by
  obtain ⟨t, hs⟩ := step_core key cfg r.st op
  have h1 := M_trans key t h
  -- a reload can only lose
  have hj₁ : J key cfg (stepCore key cfg r.st op) := J_core key hj op ho
  intro x
  by_cases hp : op.reloads = true
  · rw [if_pos hp] at hs
    obtain ⟨l, hl, hp⟩ := hj₁.sub
    have h2 : ((stepCore key cfg r.st op).disk.map (·.2)).count x ≤ (stepCore key cfg r.st op).mem.count x := by
      rw [hp.count_eq]; exact hl.count_le x
    have h3 := h1 x
    simp only [Run.step, hs, reload, count_append] at h3 ⊢
    omega
  · rw [if_neg hp] at hs
    simpa [Run.step, hs] using h1 x

/-! ## invariant K (no two equal keys pending at the same time): the datastore holds exactly the
pending batches, and removed ++ pending is a permutation of accepted -/

structure K (r : Run) : Prop where
  keyed : Keyed key r.st.disk
  multiset : (r.rem ++ r.st.mem).Perm r.acc
  disk : (r.st.disk.map (·.2)).Perm r.st.mem
  nodup : (r.st.mem.map key).Nodup
  nofd : r.st.failDel = 0

theorem K_init : K key {} := ⟨fun _ h => by simp at h, by simp, by simp, by simp, rfl⟩

theorem K_trans {cfg : Cfg} {s s₁ : St} {a d acc rem : List Batch} (t : Trans key cfg s s₁ a d)
    (hkd : Keyed key s.disk) (hms : (rem ++ s.mem).Perm acc) (hdisk : (s.disk.map (·.2)).Perm s.mem)
    (hmem : (s.mem.map key).Nodup) (hfd : s.failDel = 0) (hn : (s₁.mem.map key).Nodup) :
    Keyed key s₁.disk ∧ (rem ++ d ++ s₁.mem).Perm (acc ++ a) ∧ (s₁.disk.map (·.2)).Perm s₁.mem := by
  cases t with
  | none => exact ⟨hkd, by simpa using hms, hdisk⟩
  | tick s' hm hd => exact ⟨hd ▸ hkd, by rw [hm]; simpa using hms, by rw [hm, hd]; exact hdisk⟩
  | popKeep b rest hm hd => omega
  | accept b hf =>
    -- the new key is not among the pending ones
    have hnk : ∀ x ∈ s.mem, key x ≠ key b := by
      intro x hx hxb
      simp only [accept, map_append, map_cons, map_nil] at hn
      exact (nodup_append.1 hn).2.2 (key x) (mem_map_of_mem hx) (key b) (by simp) hxb
    refine ⟨keyed_put hkd b, ?_, ?_⟩
    · simp only [accept, append_nil]
      rw [← append_assoc]
      exact hms.append_right [b]
    · refine (map_put_perm hkd b).trans ?_
      have hf' : (s.disk.map (·.2)).filter (fun x => key x ≠ key b) = s.disk.map (·.2) := by
        refine filter_eq_self.2 (fun x hx => ?_)
        simpa using hnk x ((hdisk.mem_iff).1 hx)
      rw [hf']
      simp only [accept]
      exact (Perm.cons b hdisk).trans (perm_append_comm (l₁ := [b]))
  | pop b rest hm =>
    have hnk : ∀ x ∈ rest, key x ≠ key b := by
      rw [hm, map_cons, nodup_cons] at hmem
      intro x hx hxb
      exact hmem.1 (hxb ▸ mem_map_of_mem hx)
    refine ⟨keyed_del hkd _, ?_, ?_⟩
    · simp only [pop, append_nil]
      have := hms
      rw [hm] at this
      simpa using this
    · simp only [pop]
      rw [map_del hkd]
      have h3 := hdisk.filter (fun x => key x ≠ key b)
      rw [hm] at h3
      have h4 : (b :: rest).filter (fun x => key x ≠ key b) = rest := by
        simp only [filter_cons, ne_eq, not_true_eq_false, decide_false]
        exact filter_eq_self.2 (fun x hx => by simpa using hnk x hx)
      rw [h4] at h3
      exact h3

theorem K_step {cfg : Cfg} {r : Run} (h : K key r) (op : Op) (ho : op.armsDelete = false)
    (hn : ((stepCore key cfg r.st op).mem.map key).Nodup) : K key (Run.step key cfg r op) := by
  obtain ⟨t, hs⟩ := step_core key cfg r.st op
  have h1 := K_trans key t h.keyed h.multiset h.disk h.nodup h.nofd hn
  have hfd : (Run.step key cfg r op).st.failDel = 0 := failDel_step key h.nofd ho
  by_cases hp : op.reloads = true
  · rw [if_pos hp] at hs
    refine ⟨by simpa [Run.step, hs, reload] using h1.1, ?_, by simp [Run.step, hs, reload], ?_, hfd⟩
    · have : (r.rem ++ removedBy op (step key cfg r.st op).2 ++ (stepCore key cfg r.st op).disk.map (·.2)).Perm
          (r.rem ++ removedBy op (step key cfg r.st op).2 ++ (stepCore key cfg r.st op).mem) := Perm.append_left _ h1.2.2
      simpa [Run.step, hs, reload] using this.trans h1.2.1
    · have : (((stepCore key cfg r.st op).disk.map (·.2)).map key).Nodup := ((h1.2.2.map key).nodup_iff).2 hn
      simpa [Run.step, hs, reload] using this
  · rw [if_neg hp] at hs
    exact ⟨by simpa [Run.step, hs] using h1.1, by simpa [Run.step, hs] using h1.2.1,
      by simpa [Run.step, hs] using h1.2.2, by simpa [Run.step, hs] using hn, hfd⟩

/-- `Q` for K: no `Delete` fault is armed, and in the state the operation reaches no two pending batches have the same key -/
theorem K_run (cfg : Cfg) (ops : List Op) (ho : ∀ op ∈ ops, op.armsDelete = false)
    (hn : ∀ pre op post, ops = pre ++ op :: post →
      ((stepCore key cfg (run key cfg pre).st op).mem.map key).Nodup) : K key (run key cfg ops) :=
  run_induction_moments key cfg (K key) (fun op s => op.armsDelete = false ∧ (s.mem.map key).Nodup)
    (fun _ op h hq => K_step key h op hq.1 hq.2) {} (K_init key) ops
    (fun pre op post he => ⟨ho op (by simp [he]), hn pre op post he⟩)

/-! ## without restart and with a healthy datastore: the memory list is the abstract FIFO -/

/-- the configured bound is in force and no fault is armed -/
structure Healthy (s : St) : Prop where
  same : s.maxOverride = none
  nofp : s.failPut = 0
  nofd : s.failDel = 0

theorem step_refines (cfg : Cfg) (s : St) (op : Op) (hp : op.plain = true) (hh : Healthy s) :
    (step key cfg s op).1.mem = (astep cfg s.mem op).1 ∧ (step key cfg s op).2 = (astep cfg s.mem op).2 ∧
    Healthy (step key cfg s op).1 := by
  have hfull : afull cfg s.mem = full cfg s := by simp [afull, full, effMax, hh.same]
  cases op with
  | submit id b =>
    simp only [step, submitF_eq key cfg s id b hh.nofp, submit, astep, addBatch, hfull]
    split
    · exact ⟨rfl, rfl, hh⟩
    · split
      · exact ⟨rfl, rfl, hh⟩
      · split
        · exact ⟨rfl, rfl, hh⟩
        · exact ⟨by simp [accept], rfl, ⟨hh.same, hh.nofp, hh.nofd⟩⟩
  | add b =>
    simp only [step, addBatchF_eq key cfg s b hh.nofp, astep, addBatch, hfull]
    split
    · exact ⟨rfl, rfl, hh⟩
    · exact ⟨by simp [accept], rfl, ⟨hh.same, hh.nofp, hh.nofd⟩⟩
  | next id =>
    simp only [step, getNextF_eq key cfg s id hh.nofd, getNext, astep, nextBatch]
    split
    · exact ⟨rfl, rfl, hh⟩
    · cases h : s.mem with
      | nil => exact ⟨by simp [h], by simp, hh⟩
      | cons b r => exact ⟨by simp [pop], by simp, ⟨hh.same, hh.nofp, hh.nofd⟩⟩
  | qnext =>
    simp only [step, nextBatchF_eq key s hh.nofd, astep, nextBatch]
    cases h : s.mem with
    | nil => exact ⟨by simp [h], by simp, hh⟩
    | cons b r => exact ⟨by simp [pop], by simp, ⟨hh.same, hh.nofp, hh.nofd⟩⟩
  | submitCtx c id b =>
    simp only [step, submitF_eq key cfg s id b hh.nofp, submit, astep, addBatch, hfull]
    split
    · exact ⟨rfl, rfl, hh⟩
    · split
      · exact ⟨rfl, rfl, hh⟩
      · split
        · exact ⟨rfl, rfl, hh⟩
        · exact ⟨by simp [accept], rfl, ⟨hh.same, hh.nofp, hh.nofd⟩⟩
  | nextCtx c id =>
    simp only [step, getNextF_eq key cfg s id hh.nofd, getNext, astep, nextBatch]
    split
    · exact ⟨rfl, rfl, hh⟩
    · cases h : s.mem with
      | nil => exact ⟨by simp [h], by simp, hh⟩
      | cons b r => exact ⟨by simp [pop], by simp, ⟨hh.same, hh.nofp, hh.nofd⟩⟩
  | restart => simp [Op.plain] at hp
  | load => simp [Op.plain] at hp
  | crashSubmit _ _ _ => simp [Op.plain] at hp
  | crashNext _ _ => simp [Op.plain] at hp
  | restartMax _ => simp [Op.plain] at hp
  | fail _ _ => simp [Op.plain] at hp

theorem run_refines (cfg : Cfg) (ops : List Op) (hp : ∀ op ∈ ops, op.plain = true) (r : Run) (hh : Healthy r.st) :
    (runFrom key cfg r ops).st.mem = (arun cfg r.st.mem ops).1 ∧
    (runFrom key cfg r ops).outs = r.outs ++ (arun cfg r.st.mem ops).2 := by
  induction ops generalizing r with
  | nil => simp [runFrom, arun]
  | cons op ops ih =>
    have h1 := step_refines key cfg r.st op (hp op (by simp)) hh
    have h2 := ih (fun o ho => hp o (by simp [ho])) (Run.step key cfg r op) h1.2.2
    rw [runFrom_cons]
    simp only [arun]
    have hst : (Run.step key cfg r op).st = (step key cfg r.st op).1 := rfl
    have hout : (Run.step key cfg r op).outs = r.outs ++ [(step key cfg r.st op).2] := rfl
    rw [hst, h1.1] at h2
    rw [hout, h1.2.1] at h2
    exact ⟨h2.1, by rw [h2.2]; simp⟩

/-- a primitive transition keeps "removed ++ pending = accepted" as lists -/
theorem fifo_trans {cfg : Cfg} {s s₁ : St} {a d acc rem : List Batch} (t : Trans key cfg s s₁ a d)
    (h : rem ++ s.mem = acc) : rem ++ d ++ s₁.mem = acc ++ a := by
  cases t with
  | none => simpa using h
  | tick s' hm _ => rw [hm]; simpa using h
  | accept b hf => simp [accept, ← h]
  | pop b rest hm => rw [hm] at h; simp [pop, ← h]
  | popKeep b rest hm _ => rw [hm] at h; simp [popKeep, ← h]

/-- within one process lifetime (calls and armed datastore faults, whatever fails): removed ++ pending =
accepted, as lists -/
theorem fifo_lifetime (cfg : Cfg) (ops : List Op) (hp : ∀ op ∈ ops, op.lifetime = true) (r : Run)
    (h : r.rem ++ r.st.mem = r.acc) :
    (runFrom key cfg r ops).rem ++ (runFrom key cfg r ops).st.mem = (runFrom key cfg r ops).acc := by
  induction ops generalizing r with
  | nil => exact h
  | cons op ops ih =>
    rw [runFrom_cons]
    refine ih (fun o ho => hp o (by simp [ho])) _ ?_
    obtain ⟨t, hs⟩ := step_core key cfg r.st op
    rw [if_neg (by simp [lifetime_not_reloads (hp op (by simp))])] at hs
    show r.rem ++ removedBy op (step key cfg r.st op).2 ++ (step key cfg r.st op).1.mem =
      r.acc ++ acceptedBy op (step key cfg r.st op).2
    rw [hs]
    exact fifo_trans key t h

theorem plain_lifetime {op : Op} (h : op.plain = true) : op.lifetime = true := by
  cases op <;> first | rfl | simp [Op.plain] at h

theorem lifetime_not_crash {op : Op} (h : op.lifetime = true) : op.crashAfterDelete = false := by
  cases op <;> first | rfl | simp [Op.lifetime] at h

/-- without restart: removed ++ pending = accepted, as lists -/
theorem fifo_plain (cfg : Cfg) (ops : List Op) (hp : ∀ op ∈ ops, op.plain = true) (r : Run)
    (h : r.rem ++ r.st.mem = r.acc) :
    (runFrom key cfg r ops).rem ++ (runFrom key cfg r ops).st.mem = (runFrom key cfg r ops).acc :=
  fifo_lifetime key cfg ops (fun op ho => plain_lifetime (hp op ho)) r h

/-! ## pending keys ascending at every restart: the datastore order is the arrival order there -/

/-- K plus: removed ++ pending = accepted as sequences -/
structure A (r : Run) : Prop extends K key r where
  fifo : r.rem ++ r.st.mem = r.acc

/-- two lists with strictly ascending keys that are permutations of each other are equal -/
theorem eq_of_perm_ascending {l₁ l₂ : List Batch} (hp : l₁.Perm l₂)
    (h₁ : (l₁.map key).Pairwise (· < ·)) (h₂ : (l₂.map key).Pairwise (· < ·)) : l₁ = l₂ := by
  rw [pairwise_map] at h₁ h₂
  exact Perm.eq_of_pairwise (le := fun a b => key a < key b) (fun a b _ _ hab hba => by omega) h₁ h₂ hp

theorem nodup_of_ascending {l : List Nat} (h : l.Pairwise (· < ·)) : l.Nodup :=
  h.imp (fun hlt heq => by omega)

theorem sorted_keys {d : Disk} (hk : Keyed key d) (hs : d.Sorted) : ((d.map (·.2)).map key).Pairwise (· < ·) := by
  rw [map_map]
  have : d.map (key ∘ fun x => x.2) = d.map (·.1) := map_congr_left (fun e he => (hk e he).symm)
  rw [this, pairwise_map]
  exact hs

theorem A_step {cfg : Cfg} {r : Run} (hj : J key cfg r.st) (h : A key r) (op : Op) (ho : op.armsDelete = false)
    (hn : ((stepCore key cfg r.st op).mem.map key).Nodup)
    (ha : op.reloads = true → ((stepCore key cfg r.st op).mem.map key).Pairwise (· < ·)) :
    A key (Run.step key cfg r op) := by
  have hk := K_step key h.toK op ho hn
  refine ⟨hk, ?_⟩
  obtain ⟨t, hs⟩ := step_core key cfg r.st op
  have hf := fifo_trans key t h.fifo
  have h1 := K_trans key t h.keyed h.multiset h.disk h.nodup h.nofd hn
  by_cases hp : op.reloads = true
  · rw [if_pos hp] at hs
    have hj₁ : J key cfg (stepCore key cfg r.st op) := J_core key hj op ho
    have heq : (stepCore key cfg r.st op).disk.map (·.2) = (stepCore key cfg r.st op).mem :=
      eq_of_perm_ascending key h1.2.2 (sorted_keys key hj₁.keyed hj₁.sorted) (ha hp)
    simpa [Run.step, hs, reload, heq] using hf
  · rw [if_neg hp] at hs
    simpa [Run.step, hs] using hf

theorem A_run (cfg : Cfg) (ops : List Op) (ho : ∀ op ∈ ops, op.armsDelete = false)
    (hn : ∀ pre op post, ops = pre ++ op :: post →
      ((stepCore key cfg (run key cfg pre).st op).mem.map key).Nodup)
    (ha : ∀ pre op post, ops = pre ++ op :: post → op.reloads = true →
      ((stepCore key cfg (run key cfg pre).st op).mem.map key).Pairwise (· < ·)) :
    A key (run key cfg ops) := by
  have := run_induction_moments key cfg (fun r => J key cfg r.st ∧ A key r)
    (fun op s => op.armsDelete = false ∧ (s.mem.map key).Nodup ∧ (op.reloads = true → (s.mem.map key).Pairwise (· < ·)))
    (fun r op h hq => ⟨J_step key h.1 op hq.1, A_step key h.1 h.2 op hq.1 hq.2.1 hq.2.2⟩) {}
    ⟨J_init key cfg, ⟨K_init key, rfl⟩⟩ ops
    (fun pre op post he => ⟨ho op (by simp [he]), hn pre op post he, ha pre op post he⟩)
  exact this.2

/-! ## sharpness: the hypotheses of the partial theorems are necessary -/

/-- the multiset half of a primitive transition needs no hypothesis -/
theorem ms_trans {cfg : Cfg} {s s₁ : St} {a d acc rem : List Batch} (t : Trans key cfg s s₁ a d)
    (hms : (rem ++ s.mem).Perm acc) : (rem ++ d ++ s₁.mem).Perm (acc ++ a) := by
  cases t with
  | none => simpa using hms
  | tick s' hm _ => rw [hm]; simpa using hms
  | accept b hf =>
    simp only [accept, append_nil]
    rw [← append_assoc]
    exact hms.append_right [b]
  | pop b rest hm =>
    simp only [pop, append_nil]
    rw [hm] at hms
    simpa using hms
  | popKeep b rest hm _ =>
    simp only [popKeep, append_nil]
    rw [hm] at hms
    simpa using hms

/-- "the datastore holds exactly the pending batches" forces pairwise distinct pending keys -/
theorem nodup_of_disk_perm {cfg : Cfg} {s : St} (hj : J key cfg s) (hd : (s.disk.map (·.2)).Perm s.mem) :
    (s.mem.map key).Nodup :=
  ((hd.map key).nodup_iff).1 (nodup_of_ascending (sorted_keys key hj.keyed hj.sorted))

/-- if the accounting is right before and after an operation, no two equal keys were pending in the
state the operation reached -/
theorem nodup_necessary {cfg : Cfg} {r : Run} (hj : J key cfg r.st) (op : Op) (ho : op.armsDelete = false)
    (h0 : (r.rem ++ r.st.mem).Perm r.acc)
    (h1 : ((Run.step key cfg r op).rem ++ (Run.step key cfg r op).st.mem).Perm (Run.step key cfg r op).acc)
    (h2 : ((Run.step key cfg r op).st.disk.map (·.2)).Perm (Run.step key cfg r op).st.mem) :
    ((stepCore key cfg r.st op).mem.map key).Nodup := by
  obtain ⟨t, hs⟩ := step_core key cfg r.st op
  have hj₁ : J key cfg (stepCore key cfg r.st op) := J_core key hj op ho
  by_cases hp : op.reloads = true
  · rw [if_pos hp] at hs
    have hm := ms_trans key t h0
    have hst : (Run.step key cfg r op).st = reload (stepCore key cfg r.st op) := hs
    have h1' : (r.rem ++ removedBy op (step key cfg r.st op).2 ++ (stepCore key cfg r.st op).disk.map (·.2)).Perm
        (r.acc ++ acceptedBy op (step key cfg r.st op).2) := by
      have := h1
      rw [hst] at this
      simpa [Run.step, reload] using this
    have h3 : ((stepCore key cfg r.st op).disk.map (·.2)).Perm (stepCore key cfg r.st op).mem :=
      (perm_append_left_iff _).1 (h1'.trans hm.symm)
    exact nodup_of_disk_perm key hj₁ h3
  · rw [if_neg hp] at hs
    have : (Run.step key cfg r op).st = stepCore key cfg r.st op := hs
    rw [this] at h2
    exact nodup_of_disk_perm key hj₁ h2

/-- if "removed ++ pending = accepted" holds as sequences before and after a restarting operation,
the pending keys were in ascending order when the process stopped -/
theorem ascending_necessary {cfg : Cfg} {r : Run} (hj : J key cfg r.st) (op : Op) (ho : op.armsDelete = false)
    (hp : op.reloads = true) (h0 : r.rem ++ r.st.mem = r.acc)
    (h1 : (Run.step key cfg r op).rem ++ (Run.step key cfg r op).st.mem = (Run.step key cfg r op).acc) :
    ((stepCore key cfg r.st op).mem.map key).Pairwise (· < ·) := by
  obtain ⟨t, hs⟩ := step_core key cfg r.st op
  have hj₁ : J key cfg (stepCore key cfg r.st op) := J_core key hj op ho
  rw [if_pos hp] at hs
  have hf := fifo_trans key t h0
  have hst : (Run.step key cfg r op).st = reload (stepCore key cfg r.st op) := hs
  have h1' : r.rem ++ removedBy op (step key cfg r.st op).2 ++ (stepCore key cfg r.st op).disk.map (·.2) =
      r.acc ++ acceptedBy op (step key cfg r.st op).2 := by
    have := h1
    rw [hst] at this
    simpa [Run.step, reload] using this
  have h3 : (stepCore key cfg r.st op).disk.map (·.2) = (stepCore key cfg r.st op).mem :=
    append_cancel_left (h1'.trans hf.symm)
  rw [← h3]
  exact sorted_keys key hj₁.keyed hj₁.sorted

theorem run_snoc (cfg : Cfg) (pre : List Op) (op : Op) :
    run key cfg (pre ++ [op]) = Run.step key cfg (run key cfg pre) op := by
  simp [run, runFrom, foldl_append]

/-! ## the coarser hypotheses on the whole accepted list imply the sharp ones -/

theorem nodup_keys_prefix (l t : List Batch) (h : ((l ++ t).map key).Nodup) : (l.map key).Nodup := by
  rw [map_append] at h
  exact (nodup_append.1 h).1

theorem ascending_prefix (l t : List Batch) (h : ((l ++ t).map key).Pairwise (· < ·)) :
    (l.map key).Pairwise (· < ·) := by
  rw [map_append] at h
  exact (pairwise_append.1 h).1

/-- keys of all accepted batches pairwise distinct ⇒ K -/
theorem K_run_of_nodup (cfg : Cfg) (ops : List Op) (ho : ∀ op ∈ ops, op.armsDelete = false)
    (hn : ((run key cfg ops).acc.map key).Nodup) : K key (run key cfg ops) := by
  refine run_induction_guarded key cfg (K key) (fun l => (l.map key).Nodup) (fun op => op.armsDelete = false)
    (nodup_keys_prefix key) (fun r op h hr hg => K_step key h op hr ?_) {} (K_init key) ops ho hn
  obtain ⟨t, _⟩ := step_core key cfg r.st op
  have hm := (ms_trans key t h.multiset).map key
  have : ((r.rem ++ removedBy op (step key cfg r.st op).2 ++ (stepCore key cfg r.st op).mem).map key).Nodup :=
    (hm.nodup_iff).2 hg
  rw [map_append] at this
  exact (nodup_append.1 this).2.1

/-- keys of the accepted batches strictly ascending in acceptance order ⇒ A -/
theorem A_run_of_ascending (cfg : Cfg) (ops : List Op) (ho : ∀ op ∈ ops, op.armsDelete = false)
    (hn : ((run key cfg ops).acc.map key).Pairwise (· < ·)) : A key (run key cfg ops) := by
  have := run_induction_guarded key cfg (fun r => J key cfg r.st ∧ A key r) (fun l => (l.map key).Pairwise (· < ·))
    (fun op => op.armsDelete = false) (ascending_prefix key) (fun r op h hr hg => ?_) {}
    ⟨J_init key cfg, ⟨K_init key, rfl⟩⟩ ops ho hn
  · exact this.2
  · obtain ⟨t, _⟩ := step_core key cfg r.st op
    have hf := fifo_trans key t h.2.fifo
    have hasc : ((stepCore key cfg r.st op).mem.map key).Pairwise (· < ·) := by
      have hg' : ((r.acc ++ acceptedBy op (step key cfg r.st op).2).map key).Pairwise (· < ·) := hg
      rw [← hf, map_append] at hg'
      exact (pairwise_append.1 hg').2.1
    exact ⟨J_step key h.1 op hr, A_step key h.1 h.2 op hr (nodup_of_ascending hasc) (fun _ => hasc)⟩

/-! ## concurrent callers: every interleaving of atomic calls is a sequential history -/

theorem conc_of_interleaving {cfg : Cfg} {progs : List (List Op)} {sched : List Op}
    (h : Interleaving progs sched) (r : Run) : Conc key cfg progs r (runFrom key cfg r sched) := by
  induction h generalizing r with
  | done hd => exact .done hd
  | call i op rest hi _ ih => exact .call i op rest hi (ih (Run.step key cfg r op))

theorem interleaving_of_conc {cfg : Cfg} {progs : List (List Op)} {r r' : Run}
    (h : Conc key cfg progs r r') : ∃ sched, Interleaving progs sched ∧ r' = runFrom key cfg r sched := by
  induction h with
  | done hd => exact ⟨[], .done hd, rfl⟩
  | call i op rest hi _ ih =>
    obtain ⟨sched, hs, hr⟩ := ih
    exact ⟨op :: sched, .call i op rest hi hs, hr⟩

theorem flatten_set_perm {progs : List (List Op)} {i : Nat} {op : Op} {rest : List Op}
    (h : progs[i]? = some (op :: rest)) : progs.flatten.Perm (op :: (progs.set i rest).flatten) := by
  induction progs generalizing i with
  | nil => simp at h
  | cons p ps ih =>
    cases i with
    | zero =>
      simp only [getElem?_cons_zero, Option.some.injEq] at h
      subst h
      simp
    | succ i =>
      simp only [getElem?_cons_succ] at h
      simp only [flatten_cons, set_cons_succ]
      exact (Perm.append_left p (ih h)).trans perm_middle

/-- a schedule contains every call of every client exactly once … -/
theorem Interleaving.perm {progs : List (List Op)} {sched : List Op} (h : Interleaving progs sched) :
    sched.Perm progs.flatten := by
  induction h with
  | done hd => rw [flatten_eq_nil_iff.2 hd]
  | call i op rest hi _ ih => exact (Perm.cons op ih).trans (flatten_set_perm hi).symm

/-- … and every client's calls in its program order -/
theorem Interleaving.sublist {progs : List (List Op)} {sched : List Op} (h : Interleaving progs sched) :
    ∀ p ∈ progs, p.Sublist sched := by
  induction h with
  | done hd => intro p hp; rw [hd p hp]; exact nil_sublist _
  | @call progs sched i op rest hi _ ih =>
    intro p hp
    obtain ⟨j, hj⟩ := mem_iff_getElem?.1 hp
    have hil : i < progs.length := by
      rcases Nat.lt_or_ge i progs.length with h | h
      · exact h
      · rw [getElem?_eq_none h] at hi; cases hi
    by_cases hij : i = j
    · subst hij
      rw [hi] at hj
      cases hj
      have : rest ∈ progs.set i rest := mem_iff_getElem?.2 ⟨i, by simp [hil]⟩
      exact (ih rest this).cons_cons op
    · have : p ∈ progs.set i rest := mem_iff_getElem?.2 ⟨j, by rw [getElem?_set_ne hij]; exact hj⟩
      exact (ih p this).cons op

/-! ## the driver's rendering of a key: 64 hex digits of the number = hex of the 32 hash bytes -/

/-- `n` hex digits of `k`, most significant first -/
def hexN (n k : Nat) : List Char := (List.range n).map fun i => Nat.digitChar (k / 16 ^ (n - 1 - i) % 16)

theorem hexN_step (n k b : Nat) (hb : b < 256) :
    hexN (n + 2) (k * 256 + b) = hexN n k ++ [Nat.digitChar (b / 16), Nat.digitChar (b % 16)] := by
  unfold hexN
  rw [range_succ, range_succ, map_append, map_append, append_assoc]
  congr 1
  · refine map_congr_left (fun i hi => ?_)
    have hi : i < n := mem_range.1 hi
    have he : n + 2 - 1 - i = (n - 1 - i) + 2 := by omega
    rw [he, Nat.pow_add, Nat.mul_comm (16 ^ (n - 1 - i)), ← Nat.div_div_eq_div_mul]
    have : (k * 256 + b) / 16 ^ 2 = k := by omega
    rw [this]
  · have h1 : n + 2 - 1 - n = 1 := by omega
    have h2 : n + 2 - 1 - (n + 1) = 0 := by omega
    simp only [map_cons, map_nil, h1, h2, Nat.pow_one, Nat.pow_zero, Nat.div_one, cons_append, nil_append]
    have e1 : (k * 256 + b) / 16 % 16 = b / 16 := by omega
    have e2 : (k * 256 + b) % 16 = b % 16 := by omega
    rw [e1, e2]

theorem hexN_foldl (bs : Bytes) (n k : Nat) :
    hexN (n + 2 * bs.length) (bs.foldl (fun acc x => acc * 256 + x.toNat) k) =
      hexN n k ++ bs.flatMap fun b => [Bytes.hexDigit (b.toNat / 16), Bytes.hexDigit (b.toNat % 16)] := by
  induction bs generalizing n k with
  | nil => simp
  | cons b r ih =>
    have := ih (n + 2) (k * 256 + b.toNat)
    have hl : n + 2 * (b :: r).length = n + 2 + 2 * r.length := by simp only [length_cons]; omega
    rw [hl, foldl_cons, this, hexN_step n k b.toNat (UInt8.toNat_lt b)]
    simp [Bytes.hexDigit]

/-- hex of a byte string = the hex digits of its big-endian value (two per byte) -/
theorem toHex_eq_hexN (bs : Bytes) : Bytes.toHex bs = String.ofList (hexN (2 * bs.length) (beNat bs)) := by
  have := hexN_foldl bs 0 0
  simp only [Nat.zero_add] at this
  unfold Bytes.toHex beNat
  rw [this]
  simp [hexN]

theorem sha256_length (bs : Bytes) : (sha256 bs).length = 32 := by
  simp [sha256, Sha256.hash, Sha256.be4]

/-- the key string the driver prints from the model's numeric key is the key string of the real
layout: `/batches/` + lowercase hex of `Batch.Hash` -/
theorem keyString_eq_renderKey (b : Batch) : keyString b = renderKey (realKey b) := by
  unfold keyString renderKey hex64 realKey
  rw [toHex_eq_hexN, show (hashOf b).length = 32 from sha256_length _]
  rfl

end
end Queue

namespace Queue
open List

/-! ## the hash input is injective (length-prefixed, hence self-delimiting) -/

theorem be8_length (n : Nat) : (be8 n).length = 8 := rfl

theorem toUInt8_mod_inj {a b : Nat} (h : (a % 256).toUInt8 = (b % 256).toUInt8) : a % 256 = b % 256 := by
  have := congrArg UInt8.toNat h
  simpa [Nat.toUInt8, UInt8.toNat_ofNat', Nat.mod_mod] using this

/-- `binary.BigEndian.PutUint64` is injective on uint64 -/
theorem be8_inj {n m : Nat} (hn : n < 18446744073709551616) (hm : m < 18446744073709551616)
    (h : be8 n = be8 m) : n = m := by
  unfold be8 at h
  simp only [List.cons.injEq, and_true] at h
  obtain ⟨h0, h1, h2, h3, h4, h5, h6, h7⟩ := h
  have := toUInt8_mod_inj h0; have := toUInt8_mod_inj h1; have := toUInt8_mod_inj h2
  have := toUInt8_mod_inj h3; have := toUInt8_mod_inj h4; have := toUInt8_mod_inj h5
  have := toUInt8_mod_inj h6; have := toUInt8_mod_inj h7
  omega

/-- the per-transaction part of the hash input -/
def txsEnc (b : List Bytes) : Bytes := b.flatMap (fun tx => be8 tx.length ++ tx)

theorem txsEnc_cons (x : Bytes) (xs : List Bytes) : txsEnc (x :: xs) = be8 x.length ++ (x ++ txsEnc xs) := by
  simp [txsEnc, List.flatMap_cons, List.append_assoc]

/-- the length-prefixed concatenation is self-delimiting -/
theorem txsEnc_injective : ∀ (a b : List Bytes), (∀ tx ∈ a, tx.length < 18446744073709551616) →
    (∀ tx ∈ b, tx.length < 18446744073709551616) → txsEnc a = txsEnc b → a = b
  | [], [], _, _, _ => rfl
  | [], y :: ys, _, _, h => by
    have := congrArg List.length h
    rw [txsEnc_cons] at this; simp [txsEnc, be8_length] at this; omega
  | x :: xs, [], _, _, h => by
    have := congrArg List.length h
    rw [txsEnc_cons] at this; simp [txsEnc, be8_length] at this
  | x :: xs, y :: ys, ha, hb, h => by
    rw [txsEnc_cons, txsEnc_cons] at h
    obtain ⟨h1, h2⟩ := List.append_inj h (by simp [be8_length])
    have hl : x.length = y.length := be8_inj (ha x (by simp)) (hb y (by simp)) h1
    obtain ⟨h3, h4⟩ := List.append_inj h2 hl
    rw [h3, txsEnc_injective xs ys (fun t ht => ha t (by simp [ht])) (fun t ht => hb t (by simp [ht])) h4]

theorem hashEnc_eq (b : List Bytes) : hashEnc b = if b.isEmpty then [] else be8 b.length ++ txsEnc b := rfl

theorem hashEnc_injective (a b : List Bytes) (ha : ∀ tx ∈ a, tx.length < 18446744073709551616)
    (hb : ∀ tx ∈ b, tx.length < 18446744073709551616) (h : hashEnc a = hashEnc b) : a = b := by
  rw [hashEnc_eq, hashEnc_eq] at h
  cases a with
  | nil =>
    cases b with
    | nil => rfl
    | cons y ys =>
      have := congrArg List.length h
      simp [be8_length] at this; omega
  | cons x xs =>
    cases b with
    | nil =>
      have := congrArg List.length h
      simp [be8_length] at this
    | cons y ys =>
      simp only [List.isEmpty_cons, Bool.false_eq_true, if_false] at h
      exact txsEnc_injective _ _ ha hb (List.append_inj h (by simp [be8_length])).2

end Queue
