import Proofs.SyncBase

/-!
# Safety invariant of the sync loop (no assumption on commitments) and its preservation by
`trySync`, `onHeader`, `onData`; shape of the durable writes of a step (`AppliedWrites`).
-/
namespace Sync
open Wire Chain

/-- what the node stores for a block of the chain: the proposer's signed header, signature and transaction
list; for a non-empty block the proposer's data verbatim (for an empty block the data is built locally) -/
def SameBlock (b sb : Block) : Prop :=
  sb.sh = b.sh ∧ sb.savedSig = b.sh.sig ∧ sb.data.txs = b.data.txs ∧ (b.data.txs ≠ [] → sb.data = b.data)

/-- a cached data item usable for block `b` -/
def GoodData (b : Block) (d : Data) : Prop :=
  d.txs = b.data.txs ∧ validateData b.sh d = none ∧ (b.data.txs ≠ [] → d = b.data)

/-- both parts of block `k` have been delivered (an empty block needs no data event) -/
def Delivered (ch : PChain) (evs : List Ev) (k : Nat) : Prop :=
  ∃ b, ch k = some b ∧ Ev.hdr k ∈ evs ∧ (IsEmpty b ∨ Ev.dat k ∈ evs)

theorem Delivered.mono {ch : PChain} {evs evs' : List Ev} {k : Nat} (h : Delivered ch evs k)
    (hsub : ∀ e, e ∈ evs → e ∈ evs') : Delivered ch evs' k := by
  obtain ⟨b, hb, h1, h2⟩ := h
  exact ⟨b, hb, hsub _ h1, h2.imp id (hsub _)⟩

/-- data that does not belong to the proposer's block of height `k`: `types.Validate` rejects it against the
proposer's signed header of that height.  (At a height outside the chain there is nothing to compare with — and no
header will ever be cached there.)  This is what anybody can gossip over P2P: `types.Data` carries no signature. -/
def Junk (ch : PChain) (k : Nat) (d : Data) : Prop := ∀ b, ch k = some b → validateData b.sh d ≠ none

/-- a cached data item is genuine — usable for the proposer's block of its height, and sourced from a delivered
event (the data event, or the header event of an empty block) -/
def DatOK (ch : PChain) (evs : List Ev) (k : Nat) (d : Data) : Prop :=
  ∃ b, ch k = some b ∧ GoodData b d ∧ (Ev.dat k ∈ evs ∨ (Ev.hdr k ∈ evs ∧ IsEmpty b))

/-- Safety invariant.  `h0` = height the node started from, `evs` = genuine events delivered since.
`jk = true`: junk data events (`Junk`) may have been delivered as well, so a cached data item is genuine *or junk*;
`jk = false` (`Safe`): only genuine events. -/
structure SafeJ (jk : Bool) (c : Cfg) (ch : PChain) (h0 : Nat) (evs : List Ev) (n : FNode) : Prop where
  alive : n.alive = true
  ge : h0 ≤ n.store.height
  low : c.initialHeight ≤ n.store.height + 1
  st : n.lastState = stateAt c ch n.store.height
  disk : (n.store.state = some n.lastState ∧ c.initialHeight ≤ n.store.height) ∨
         (n.store.state = none ∧ n.store.height + 1 = c.initialHeight)
  gen : n.store.height + 1 = c.initialHeight → n.store.getBlock c.initialHeight = some (genesisBlock c)
  chain : ∀ k, c.initialHeight ≤ k → k ≤ n.store.height →
    ∃ b sb, ch k = some b ∧ n.store.getBlock k = some sb ∧ SameBlock b sb
  hdrGen : ∀ k sh, (k, sh) ∈ n.hdrCache → ∃ b, ch k = some b ∧ sh = b.sh
  dat : ∀ k d, (k, d) ∈ n.datCache → (jk = true ∧ Junk ch k d) ∨ DatOK ch evs k d
  hdrSrc : ∀ k, k ∈ keysH n → Ev.hdr k ∈ evs
  sound : ∀ k, h0 < k → k ≤ n.store.height → Delivered ch evs k
  wm : WmOK n.store

/-- the invariant of runs with genuine events only -/
abbrev Safe (c : Cfg) (ch : PChain) (h0 : Nat) (evs : List Ev) (n : FNode) : Prop := SafeJ false c ch h0 evs n

variable {c : Cfg} {ch : PChain} {top h0 : Nat} {evs : List Ev} {n : FNode} {jk : Bool}

theorem DatOK.mono {k : Nat} {d : Data} (h : DatOK ch evs k d) {evs' : List Ev} (hsub : ∀ e, e ∈ evs → e ∈ evs') :
    DatOK ch evs' k d := by
  obtain ⟨b, hb, hg, hsrc⟩ := h
  exact ⟨b, hb, hg, hsrc.imp (hsub _) (fun ⟨x, y⟩ => ⟨hsub _ x, y⟩)⟩

/-- without junk every cached data item is usable for the proposer's block of its height … -/
theorem SafeJ.datGen (hs : SafeJ false c ch h0 evs n) : ∀ k d, (k, d) ∈ n.datCache → ∃ b, ch k = some b ∧ GoodData b d := by
  intro k d hm
  rcases hs.dat k d hm with ⟨h, _⟩ | ⟨b, hb, hg, _⟩
  · cases h
  · exact ⟨b, hb, hg⟩

/-- … and every cached height was delivered -/
theorem SafeJ.datSrc (hs : SafeJ false c ch h0 evs n) :
    ∀ k, k ∈ keysD n → Ev.dat k ∈ evs ∨ (Ev.hdr k ∈ evs ∧ ∃ b, ch k = some b ∧ IsEmpty b) := by
  intro k hk
  obtain ⟨d, hm⟩ := mem_keys.mp hk
  rcases hs.dat k d hm with ⟨h, _⟩ | ⟨b, hb, _, hsrc⟩
  · cases h
  · exact hsrc.imp id (fun ⟨x, y⟩ => ⟨x, b, hb, y⟩)

theorem SafeJ.mono (hs : SafeJ jk c ch h0 evs n) {evs' : List Ev} (hsub : ∀ e, e ∈ evs → e ∈ evs') :
    SafeJ jk c ch h0 evs' n :=
  { hs with
    hdrSrc := fun k hk => hsub _ (hs.hdrSrc k hk)
    dat := fun k d hm => (hs.dat k d hm).imp id (fun h => h.mono hsub)
    sound := fun k a b => (hs.sound k a b).mono hsub }

/-- runs without junk are runs with (possibly) junk -/
theorem SafeJ.weaken (hs : SafeJ jk c ch h0 evs n) : SafeJ true c ch h0 evs n :=
  { hs with dat := fun k d hm => (hs.dat k d hm).imp (fun ⟨_, x⟩ => ⟨rfl, x⟩) id }

theorem SafeJ.hs (g : GoodChain c ch top) (hs : SafeJ jk c ch h0 evs n) : n.store.height = n.lastState.lastHeight := by
  rw [hs.st, stateAt_lastHeight g]
  by_cases h : n.store.height + 1 = c.initialHeight
  · exact Or.inl h
  · right
    obtain ⟨b, _, hb, _⟩ := hs.chain n.store.height (by have := hs.low; omega) (Nat.le_refl _)
    simp [hb]

/-- the safety invariant does not mention the seen-sets -/
theorem SafeJ.seen (hs : SafeJ jk c ch h0 evs n) (sH sD : List Bytes) :
    SafeJ jk c ch h0 evs { n with seenH := sH, seenD := sD } :=
  ⟨hs.alive, hs.ge, hs.low, hs.st, hs.disk, hs.gen, hs.chain, hs.hdrGen, hs.dat, hs.hdrSrc, hs.sound, hs.wm⟩

/-- a genuine header validates against junk data never: `GoodData` and `Junk` exclude each other on the chain -/
theorem not_junk_of_good {k : Nat} {b : Block} {d : Data} (hb : ch k = some b) (hg : GoodData b d) : ¬ Junk ch k d :=
  fun hj => hj b hb hg.2.1

theorem stateAfter_eq (g : GoodChain c ch top) (hs : SafeJ jk c ch h0 evs n) {b : Block} {d : Data}
    (hb : ch (n.store.height + 1) = some b) (hd : GoodData b d) :
    stateAfter n b.sh d = stateAt c ch (n.store.height + 1) := by
  unfold stateAfter
  rw [hs.st]
  exact stateAt_succ g hb _ hd.1

theorem sameBlock_blockOf {b : Block} {d : Data} (hd : GoodData b d) : SameBlock b (blockOf b.sh d) :=
  ⟨rfl, rfl, hd.1, hd.2.2⟩

theorem emptyDataFor_some {n : FNode} {h : Header} {d : Data} (he : emptyDataFor n h = some d) :
    h.dataHash = emptyDataHash ∧ d.txs = [] ∧
    ∃ ldh, d.metadata = some { chainId := h.chainId, height := h.height, time := h.time, lastDataHash := ldh } := by
  unfold emptyDataFor at he
  split at he
  · rename_i hh
    simp only [Option.some.injEq] at he
    subst he
    exact ⟨hh, rfl, _, rfl⟩
  · simp at he

theorem emptyDataFor_none {n : FNode} {h : Header} (he : emptyDataFor n h = none) : h.dataHash ≠ emptyDataHash := by
  unfold emptyDataFor at he
  split at he
  · simp at he
  · assumption

theorem goodData_self (g : GoodChain c ch top) {k : Nat} {b : Block} (hb : ch k = some b) : GoodData b b.data :=
  ⟨rfl, (g.facts hb).vdata, fun _ => rfl⟩

theorem goodData_empty (g : GoodChain c ch top) {k : Nat} {b : Block} (hb : ch k = some b) {n : FNode} {d : Data}
    (he : emptyDataFor n b.sh.hdr = some d) : GoodData b d := by
  obtain ⟨h1, h2, ldh, h3⟩ := emptyDataFor_some he
  have ht : b.data.txs = [] := g.emptyTxs k b hb h1
  refine ⟨by rw [h2, ht], ?_, fun h => absurd ht h⟩
  unfold validateData
  rw [h3]
  simp only [ne_eq, not_true_eq_false, or_self, ↓reduceIte]
  rw [daCommitment_empty d h2, h1]
  simp

/-- the proposer's signed header is well-formed -/
theorem GoodChain.basic (g : GoodChain c ch top) {k : Nat} {b : Block} (hb : ch k = some b) : validateBasic b.sh = none := by
  have hv := g.valid k b hb
  unfold execValidate at hv
  split at hv
  · simp at hv
  · assumption

/-- a genuine header with usable data validates against the node's state -/
theorem valid_next (g : GoodChain c ch top) (hs : SafeJ jk c ch h0 evs n) {b : Block} {d : Data}
    (hb : ch (n.store.height + 1) = some b) (hgd : GoodData b d) : execValidate n.lastState b.sh d = none := by
  rw [hs.st]
  have := g.valid _ b hb
  simp only [Nat.add_sub_cancel] at this
  exact execValidate_swap this hgd.2.1

/-- what one loop iteration does on a node satisfying the invariant: nothing (a part is missing); or the proposer's
block of the next height is applied, with data that is genuine and was delivered; or (only when junk data may have
been delivered) the cached data does not match the header and is dropped — the loop does **not** die -/
theorem applyNext_casesJ (g : GoodChain c ch top) (hs : SafeJ jk c ch h0 evs n) :
    (applyNext n .ok = none ∧ ¬ (n.store.height + 1 ∈ keysH n ∧ n.store.height + 1 ∈ keysD n)) ∨
    (∃ b d, ch (n.store.height + 1) = some b ∧ GoodData b d ∧
      (Ev.dat (n.store.height + 1) ∈ evs ∨ (Ev.hdr (n.store.height + 1) ∈ evs ∧ IsEmpty b)) ∧
      n.store.height + 1 ∈ keysH n ∧ n.store.height + 1 ∈ keysD n ∧
      applyNext n .ok = some (advance n b.sh d, blockWrites n b.sh d, true)) ∨
    (jk = true ∧ n.store.height + 1 ∈ keysH n ∧
      (∃ d', getD n (n.store.height + 1) = some d' ∧ Junk ch (n.store.height + 1) d') ∧
      applyNext n .ok = some (dropData n, [], false)) := by
  cases hH : getH n (n.store.height + 1) with
  | none => exact Or.inl ⟨applyNext_none (Or.inl hH), fun h => getH_none.mp hH h.1⟩
  | some sh =>
    cases hD : getD n (n.store.height + 1) with
    | none => exact Or.inl ⟨applyNext_none (Or.inr hD), fun h => getD_none.mp hD h.2⟩
    | some d =>
      right
      obtain ⟨b, hb, rfl⟩ := hs.hdrGen _ _ (getH_some hH)
      have hkH : n.store.height + 1 ∈ keysH n := mem_keys.mpr ⟨_, getH_some hH⟩
      have hkD : n.store.height + 1 ∈ keysD n := mem_keys.mpr ⟨_, getD_some hD⟩
      rcases hs.dat _ _ (getD_some hD) with ⟨hj, hjunk⟩ | ⟨b', hb', hgd, hsrc⟩
      · have hbasic := g.basic hb
        have hmis := hjunk b hb
        by_cases he : IsEmpty b
        · left
          obtain ⟨d', hed⟩ : ∃ d', emptyDataFor (dropData n) b.sh.hdr = some d' := by
            have he' : b.sh.hdr.dataHash = emptyDataHash := he
            unfold emptyDataFor; rw [if_pos he']; exact ⟨_, rfl⟩
          have hgd := goodData_empty g hb hed
          exact ⟨b, d', hb, hgd, Or.inr ⟨hs.hdrSrc _ hkH, he⟩, hkH, hkD,
            applyNext_rebuild hH hD hbasic hmis hed (g.facts hb).height (valid_next g hs hb hgd)⟩
        · right
          exact ⟨hj, hkH, ⟨d, rfl, hjunk⟩, applyNext_drop hH hD hbasic hmis he⟩
      · left
        rw [hb] at hb'; cases hb'
        exact ⟨b, d, hb, hgd, hsrc, hkH, hkD, applyNext_ok hH hD (valid_next g hs hb hgd) (g.facts hb).height⟩

/-- without junk: nothing, or the next block of the chain is applied -/
theorem applyNext_cases (g : GoodChain c ch top) (hs : Safe c ch h0 evs n) :
    (applyNext n .ok = none ∧ ¬ (n.store.height + 1 ∈ keysH n ∧ n.store.height + 1 ∈ keysD n)) ∨
    ∃ b d, ch (n.store.height + 1) = some b ∧ GoodData b d ∧
      (Ev.dat (n.store.height + 1) ∈ evs ∨ (Ev.hdr (n.store.height + 1) ∈ evs ∧ IsEmpty b)) ∧
      n.store.height + 1 ∈ keysH n ∧ n.store.height + 1 ∈ keysD n ∧
      applyNext n .ok = some (advance n b.sh d, blockWrites n b.sh d, true) := by
  rcases applyNext_casesJ g hs with h | h | ⟨h, _⟩
  · exact Or.inl h
  · exact Or.inr h
  · cases h

theorem advance_safe (g : GoodChain c ch top) (hs : SafeJ jk c ch h0 evs n) {b : Block} {d : Data}
    (hb : ch (n.store.height + 1) = some b) (hd : GoodData b d)
    (hkH : n.store.height + 1 ∈ keysH n)
    (hsrc : Ev.dat (n.store.height + 1) ∈ evs ∨ (Ev.hdr (n.store.height + 1) ∈ evs ∧ IsEmpty b)) :
    SafeJ jk c ch h0 evs (advance n b.sh d) := by
  have hst := stateAfter_eq g hs hb hd
  have hh := advance_height n b.sh d
  refine ⟨hs.alive, ?_, ?_, ?_, ?_, ?_, ?_, ?_, ?_, ?_, ?_, hs.wm.kv (advance_kv _ _ _)⟩
  · rw [hh]; have := hs.ge; omega
  · rw [hh]; have := hs.low; omega
  · rw [hh]; exact hst
  · left; rw [hh, advance_state]; exact ⟨rfl, by have := hs.low; omega⟩
  · rw [hh]; intro h; have := hs.low; omega
  · intro k h1 h2
    rw [hh] at h2
    rw [advance_getBlock]
    by_cases hk : n.store.height + 1 = k
    · subst hk
      exact ⟨b, blockOf b.sh d, hb, by simp, sameBlock_blockOf hd⟩
    · rw [if_neg hk]; exact hs.chain k h1 (by omega)
  · intro k sh hm
    exact hs.hdrGen k sh (mem_filter_ne.mp hm).1
  · intro k d' hm
    exact hs.dat k d' (mem_filter_ne.mp hm).1
  · intro k hk
    exact hs.hdrSrc k (keys_filter_ne.mp hk).1
  · intro k h1 h2
    rw [hh] at h2
    by_cases hk : k = n.store.height + 1
    · subst hk
      exact ⟨b, hb, hs.hdrSrc _ hkH, hsrc.symm.imp (fun x => x.2) id⟩
    · exact hs.sound k h1 (by omega)

/-- dropping the cached data of the next height keeps the invariant -/
theorem dropData_safe (hs : SafeJ jk c ch h0 evs n) : SafeJ jk c ch h0 evs (dropData n) :=
  ⟨hs.alive, hs.ge, hs.low, hs.st, hs.disk, hs.gen, hs.chain, hs.hdrGen,
   fun k d hm => hs.dat k d (mem_filter_ne.mp hm).1, hs.hdrSrc, hs.sound, hs.wm⟩

/-! ## the durable writes of a step -/

/-- writes of applying blocks `h+1 … h'` of the chain, three per block, in height order; per block: the block,
then the state that says it was applied, then the chain height -/
inductive AppliedWrites (c : Cfg) (ch : PChain) : Nat → List SW → Nat → Prop
  | nil (h : Nat) : AppliedWrites c ch h [] h
  | cons {h h' : Nat} {ws : List SW} {b sb : Block} : ch (h + 1) = some b → SameBlock b sb →
      AppliedWrites c ch (h + 1) ws h' →
      AppliedWrites c ch h (.saveBlock (h + 1) sb :: .updateState (stateAt c ch (h + 1)) :: .setHeight (h + 1) :: ws) h'

theorem AppliedWrites.le {h h' : Nat} {ws : List SW} (a : AppliedWrites c ch h ws h') : h ≤ h' := by
  induction a with
  | nil => exact Nat.le_refl _
  | cons _ _ _ ih => omega

theorem trySync_acc : ∀ (fuel : Nat) (n : FNode) (ws : List SW),
    trySync fuel n ws = ((trySync fuel n []).1, ws ++ (trySync fuel n []).2) := by
  intro fuel
  induction fuel with
  | zero => intro n ws; simp [trySync]
  | succ f ih =>
    intro n ws
    unfold trySync
    cases applyNext n .ok with
    | none => simp
    | some r =>
      obtain ⟨n', ws', cont⟩ := r
      cases cont with
      | false => simp
      | true =>
        simp only [↓reduceIte]
        rw [ih n' (ws ++ ws'), ih n' ([] ++ ws')]
        simp

theorem trySync_step_none {fuel : Nat} (h : applyNext n .ok = none) : trySync (fuel + 1) n [] = (n, []) := by
  simp [trySync, h]

theorem trySync_step_some {fuel : Nat} {n' : FNode} {ws' : List SW} (h : applyNext n .ok = some (n', ws', true)) :
    trySync (fuel + 1) n [] = ((trySync fuel n' []).1, ws' ++ (trySync fuel n' []).2) := by
  rw [trySync, h]
  simp only [↓reduceIte]
  rw [trySync_acc]; simp

theorem trySync_step_stop {fuel : Nat} {n' : FNode} {ws' : List SW} (h : applyNext n .ok = some (n', ws', false)) :
    trySync (fuel + 1) n [] = (n', ws') := by
  rw [trySync, h]; simp

theorem trySync_safe (g : GoodChain c ch top) : ∀ (fuel : Nat) (n : FNode), SafeJ jk c ch h0 evs n →
    SafeJ jk c ch h0 evs (trySync fuel n []).1 ∧
    AppliedWrites c ch n.store.height (trySync fuel n []).2 (trySync fuel n []).1.store.height := by
  intro fuel
  induction fuel with
  | zero => intro n hs; exact ⟨hs, .nil _⟩
  | succ f ih =>
    intro n hs
    rcases applyNext_casesJ g hs with ⟨hn, _⟩ | ⟨b, d, hb, hd, hsrc, hkH, _, he⟩ | ⟨_, _, _, he⟩
    · rw [trySync_step_none hn]; exact ⟨hs, .nil _⟩
    · rw [trySync_step_some he]
      have hs' := advance_safe g hs hb hd hkH hsrc
      obtain ⟨a1, a2⟩ := ih _ hs'
      refine ⟨a1, ?_⟩
      rw [advance_height] at a2
      simp only [blockWrites, stateAfter_eq g hs hb hd, List.cons_append, List.nil_append]
      exact .cons hb (sameBlock_blockOf hd) a2
    · rw [trySync_step_stop he]; exact ⟨dropData_safe hs, .nil _⟩

/-! ## no block is applicable after a step (`Quiet`) — from the safety invariant alone -/

/-- no block is applicable: header or data of the next height is missing -/
def Quiet (n : FNode) : Prop := ¬ (n.store.height + 1 ∈ keysH n ∧ n.store.height + 1 ∈ keysD n)

theorem applyNext_quiet (hq : Quiet n) : applyNext n .ok = none := by
  by_cases h : n.store.height + 1 ∈ keysH n
  · exact applyNext_none (Or.inr (getD_none.mpr (fun hd => hq ⟨h, hd⟩)))
  · exact applyNext_none (Or.inl (getH_none.mpr h))

theorem dropData_quiet (n : FNode) : Quiet (dropData n) := by
  intro ⟨_, h⟩
  have := (keys_filter_ne (l := n.datCache) (k := n.store.height + 1) (j := n.store.height + 1)).mp h
  exact this.2 rfl

/-- `trySync` with enough fuel (one unit per cached header, plus one) runs until no block is applicable -/
theorem trySync_quiet (g : GoodChain c ch top) : ∀ (fuel : Nat) (n : FNode), SafeJ jk c ch h0 evs n →
    n.hdrCache.length < fuel → Quiet (trySync fuel n []).1 := by
  intro fuel
  induction fuel with
  | zero => intro n _ h; omega
  | succ f ih =>
    intro n hs hlen
    rcases applyNext_casesJ g hs with ⟨hn, hq⟩ | ⟨b, d, hb, hd, hsrc, hkH, _, he⟩ | ⟨_, _, _, he⟩
    · rw [trySync_step_none hn]; exact hq
    · rw [trySync_step_some he]
      apply ih _ (advance_safe g hs hb hd hkH hsrc)
      have : (advance n b.sh d).hdrCache.length < n.hdrCache.length := length_filter_ne_lt hkH
      omega
    · rw [trySync_step_stop he]; exact dropData_quiet n

/-! ## the event cases -/

/-- `onHeader` after the dedup tests: cache the header (and, for an empty block, locally built data) -/
def cacheH (n : FNode) (sh : SHeader) : FNode :=
  let n1 := { n with hdrCache := (sh.hdr.height, sh) :: n.hdrCache }
  match emptyDataFor n1 sh.hdr with
  | some d => { n1 with datCache := (sh.hdr.height, d) :: n1.datCache }
  | none => n1

def cacheD (n : FNode) (k : Nat) (d : Data) : FNode := { n with datCache := (k, d) :: n.datCache }
def markH (n : FNode) (x : Bytes) : FNode := { n with seenH := x :: n.seenH }
def markD (n : FNode) (x : Bytes) : FNode := { n with seenD := x :: n.seenD }

def syncAfter (n : FNode) : FNode × List SW := trySync (n.hdrCache.length + 1) n []

theorem onHeader_eq (n : FNode) (sh : SHeader) : onHeader n sh =
    if !n.alive then (n, []) else
    if sh.hdr.height ≤ n.store.height ∨ sh.hdr.hash ∈ n.seenH then (n, [])
    else if (syncAfter (cacheH n sh)).1.alive then (markH (syncAfter (cacheH n sh)).1 sh.hdr.hash, (syncAfter (cacheH n sh)).2)
    else syncAfter (cacheH n sh) := rfl

theorem onData_eq (n : FNode) (d : Data) : onData n d =
    if !n.alive then (n, []) else
    match d.metadata with
    | none => (n, [])
    | some m =>
      if d.txs.isEmpty then (n, [])
      else if d.daCommitment ∈ n.seenD then (n, [])
      else if m.height ≤ n.store.height then (n, [])
      else syncAfter (cacheD n m.height d) := rfl


/-- caching a header of the chain above the current height -/
theorem cacheH_cases (g : GoodChain c ch top) {k : Nat} {b : Block} (hb : ch k = some b) (n : FNode) :
    (IsEmpty b ∧ ∃ d, GoodData b d ∧
      cacheH n b.sh = { n with hdrCache := (k, b.sh) :: n.hdrCache, datCache := (k, d) :: n.datCache }) ∨
    (¬ IsEmpty b ∧ cacheH n b.sh = { n with hdrCache := (k, b.sh) :: n.hdrCache }) := by
  have hk := (g.facts hb).height
  unfold cacheH
  simp only [hk]
  cases he : emptyDataFor { n with hdrCache := (k, b.sh) :: n.hdrCache } b.sh.hdr with
  | some d => exact Or.inl ⟨(emptyDataFor_some he).1, d, goodData_empty g hb he, rfl⟩
  | none => exact Or.inr ⟨emptyDataFor_none he, rfl⟩

theorem cacheH_store (n : FNode) (sh : SHeader) : (cacheH n sh).store = n.store := by
  unfold cacheH; simp only; split <;> rfl

theorem mem_append_single {α : Type} {l : List α} {a x : α} : x ∈ l → x ∈ l ++ [a] :=
  fun h => List.mem_append_left _ h

theorem cacheH_safe (g : GoodChain c ch top) (hs : SafeJ jk c ch h0 evs n) {k : Nat} {b : Block} (hb : ch k = some b) :
    SafeJ jk c ch h0 (evs ++ [Ev.hdr k]) (cacheH n b.sh) := by
  have hs' := hs.mono (evs' := evs ++ [Ev.hdr k]) (fun _ => mem_append_single)
  have hnew : Ev.hdr k ∈ evs ++ [Ev.hdr k] := by simp
  rcases cacheH_cases g hb n with ⟨he, d, hd, e⟩ | ⟨he, e⟩
  · rw [e]
    refine ⟨hs'.alive, hs'.ge, hs'.low, hs'.st, hs'.disk, hs'.gen, hs'.chain, ?_, ?_, ?_, hs'.sound, hs'.wm⟩
    · intro j sh hm
      simp only [List.mem_cons, Prod.mk.injEq] at hm
      rcases hm with ⟨rfl, rfl⟩ | hm
      · exact ⟨b, hb, rfl⟩
      · exact hs.hdrGen j sh hm
    · intro j d' hm
      simp only [List.mem_cons, Prod.mk.injEq] at hm
      rcases hm with ⟨rfl, rfl⟩ | hm
      · exact Or.inr ⟨b, hb, hd, Or.inr ⟨hnew, he⟩⟩
      · exact hs'.dat j d' hm
    · intro j hj
      simp only [keysH, keys_cons, List.mem_cons] at hj
      rcases hj with rfl | hj
      · exact hnew
      · exact hs'.hdrSrc j hj
  · rw [e]
    refine ⟨hs'.alive, hs'.ge, hs'.low, hs'.st, hs'.disk, hs'.gen, hs'.chain, ?_, hs'.dat, ?_, hs'.sound, hs'.wm⟩
    · intro j sh hm
      simp only [List.mem_cons, Prod.mk.injEq] at hm
      rcases hm with ⟨rfl, rfl⟩ | hm
      · exact ⟨b, hb, rfl⟩
      · exact hs.hdrGen j sh hm
    · intro j hj
      simp only [keysH, keys_cons, List.mem_cons] at hj
      rcases hj with rfl | hj
      · exact hnew
      · exact hs'.hdrSrc j hj

theorem cacheD_safe (g : GoodChain c ch top) (hs : SafeJ jk c ch h0 evs n) {k : Nat} {b : Block} (hb : ch k = some b) :
    SafeJ jk c ch h0 (evs ++ [Ev.dat k]) (cacheD n k b.data) := by
  have hs' := hs.mono (evs' := evs ++ [Ev.dat k]) (fun _ => mem_append_single)
  have hnew : Ev.dat k ∈ evs ++ [Ev.dat k] := by simp
  refine ⟨hs'.alive, hs'.ge, hs'.low, hs'.st, hs'.disk, hs'.gen, hs'.chain, hs'.hdrGen, ?_, hs'.hdrSrc, hs'.sound, hs'.wm⟩
  intro j d' hm
  simp only [cacheD, List.mem_cons, Prod.mk.injEq] at hm
  rcases hm with ⟨rfl, rfl⟩ | hm
  · exact Or.inr ⟨b, hb, goodData_self g hb, Or.inl hnew⟩
  · exact hs'.dat j d' hm

/-- caching a junk data item (only in runs where junk may be delivered) -/
theorem cacheJ_safe (hs : SafeJ true c ch h0 evs n) {k : Nat} {d : Data} (hj : Junk ch k d) :
    SafeJ true c ch h0 evs (cacheD n k d) := by
  refine ⟨hs.alive, hs.ge, hs.low, hs.st, hs.disk, hs.gen, hs.chain, hs.hdrGen, ?_, hs.hdrSrc, hs.sound, hs.wm⟩
  intro j d' hm
  simp only [cacheD, List.mem_cons, Prod.mk.injEq] at hm
  rcases hm with ⟨rfl, rfl⟩ | hm
  · exact Or.inl ⟨rfl, hj⟩
  · exact hs.dat j d' hm

theorem syncAfter_safe (g : GoodChain c ch top) (hs : SafeJ jk c ch h0 evs n) :
    SafeJ jk c ch h0 evs (syncAfter n).1 ∧ AppliedWrites c ch n.store.height (syncAfter n).2 (syncAfter n).1.store.height :=
  trySync_safe g _ n hs

/-- the header case of the loop, on a node satisfying the invariant -/
theorem onHeader_cases (g : GoodChain c ch top) (hs : SafeJ jk c ch h0 evs n) {k : Nat} {b : Block} (hb : ch k = some b) :
    ((k ≤ n.store.height ∨ b.sh.hdr.hash ∈ n.seenH) ∧ onHeader n b.sh = (n, [])) ∨
    (¬ (k ≤ n.store.height ∨ b.sh.hdr.hash ∈ n.seenH) ∧
      onHeader n b.sh = (markH (syncAfter (cacheH n b.sh)).1 b.sh.hdr.hash, (syncAfter (cacheH n b.sh)).2)) := by
  have hk := (g.facts hb).height
  rw [onHeader_eq, hs.alive, hk]
  simp only [Bool.not_true, Bool.false_eq_true, ↓reduceIte]
  by_cases hskip : k ≤ n.store.height ∨ b.sh.hdr.hash ∈ n.seenH
  · rw [if_pos hskip]; exact Or.inl ⟨hskip, rfl⟩
  · rw [if_neg hskip]
    rw [if_pos (syncAfter_safe g (cacheH_safe g hs hb)).1.alive]
    exact Or.inr ⟨hskip, rfl⟩

/-- a data event of the chain is dropped when the block is empty; otherwise it carries its height -/
theorem data_meta (g : GoodChain c ch top) {k : Nat} {b : Block} (hb : ch k = some b) (hne : ¬ IsEmpty b) :
    b.data.txs.isEmpty = false ∧ ∃ m, b.data.metadata = some m ∧ m.height = k := by
  have ht : b.data.txs ≠ [] := fun h => hne ((g.empty_iff hb).mpr h)
  refine ⟨by simpa using ht, ?_⟩
  cases hm : b.data.metadata with
  | none => exact absurd hm (g.hasMeta k b hb ht)
  | some m => exact ⟨m, rfl, (g.facts hb).metaH m hm⟩

theorem onData_empty (g : GoodChain c ch top) {k : Nat} {b : Block} (hb : ch k = some b) (he : IsEmpty b) (n : FNode) :
    onData n b.data = (n, []) := by
  have ht : b.data.txs = [] := g.emptyTxs k b hb he
  rw [onData_eq]
  split
  · rfl
  · split
    · rfl
    · simp [ht]

theorem onData_cases (g : GoodChain c ch top) (hs : SafeJ jk c ch h0 evs n) {k : Nat} {b : Block} (hb : ch k = some b)
    (hne : ¬ IsEmpty b) :
    ((b.data.daCommitment ∈ n.seenD ∨ k ≤ n.store.height) ∧ onData n b.data = (n, [])) ∨
    (¬ (b.data.daCommitment ∈ n.seenD ∨ k ≤ n.store.height) ∧
      onData n b.data = syncAfter (cacheD n k b.data)) := by
  obtain ⟨ht, m, hm, hmk⟩ := data_meta g hb hne
  rw [onData_eq, hs.alive, hm]
  simp only [Bool.not_true, Bool.false_eq_true, ↓reduceIte, ht, hmk]
  by_cases h1 : b.data.daCommitment ∈ n.seenD
  · rw [if_pos h1]; exact Or.inl ⟨Or.inl h1, rfl⟩
  · rw [if_neg h1]
    by_cases h2 : k ≤ n.store.height
    · rw [if_pos h2]; exact Or.inl ⟨Or.inr h2, rfl⟩
    · rw [if_neg h2]
      exact Or.inr ⟨by simp [h1, h2], rfl⟩

/-- **every genuine event preserves the safety invariant**, and its writes apply consecutive blocks -/
theorem deliver_safe (g : GoodChain c ch top) (hs : SafeJ jk c ch h0 evs n) (e : Ev) :
    SafeJ jk c ch h0 (evs ++ [e]) (deliver ch n e).1 ∧
    AppliedWrites c ch n.store.height (deliver ch n e).2 (deliver ch n e).1.store.height := by
  have hs' := hs.mono (evs' := evs ++ [e]) (fun _ => mem_append_single)
  cases e with
  | hdr k =>
    simp only [deliver]
    cases hb : ch k with
    | none => exact ⟨hs', .nil _⟩
    | some b =>
      simp only
      rcases onHeader_cases g hs hb with ⟨_, e⟩ | ⟨_, e⟩
      · rw [e]; exact ⟨hs', .nil _⟩
      · rw [e]
        obtain ⟨a1, a2⟩ := syncAfter_safe g (cacheH_safe g hs hb)
        rw [cacheH_store] at a2
        exact ⟨a1.seen _ _, a2⟩
  | dat k =>
    simp only [deliver]
    cases hb : ch k with
    | none => exact ⟨hs', .nil _⟩
    | some b =>
      simp only
      by_cases he : IsEmpty b
      · rw [onData_empty g hb he]; exact ⟨hs', .nil _⟩
      · rcases onData_cases g hs hb he with ⟨_, e⟩ | ⟨_, e⟩
        · rw [e]; exact ⟨hs', .nil _⟩
        · rw [e]
          exact syncAfter_safe g (cacheD_safe g hs hb)

theorem syncAfter_quiet (g : GoodChain c ch top) (hs : SafeJ jk c ch h0 evs n) : Quiet (syncAfter n).1 :=
  trySync_quiet g _ n hs (Nat.lt_succ_self _)

/-- after every genuine event no block is applicable -/
theorem deliver_quiet (g : GoodChain c ch top) (hs : SafeJ jk c ch h0 evs n) (hq : Quiet n) (e : Ev) :
    Quiet (deliver ch n e).1 := by
  cases e with
  | hdr k =>
    simp only [deliver]
    cases hb : ch k with
    | none => exact hq
    | some b =>
      simp only
      rcases onHeader_cases g hs hb with ⟨_, e⟩ | ⟨_, e⟩
      · rw [e]; exact hq
      · rw [e]; exact syncAfter_quiet g (cacheH_safe g hs hb)
  | dat k =>
    simp only [deliver]
    cases hb : ch k with
    | none => exact hq
    | some b =>
      simp only
      by_cases he : IsEmpty b
      · rw [onData_empty g hb he]; exact hq
      · rcases onData_cases g hs hb he with ⟨_, e⟩ | ⟨_, e⟩
        · rw [e]; exact hq
        · rw [e]; exact syncAfter_quiet g (cacheD_safe g hs hb)

/-! ## junk data events: unauthenticated P2P data that does not belong to the header of the height it claims -/

/-- what an arbitrary party can make a node receive as a data event: **any** `Data` whose claimed height lies
outside the chain, or which `types.Validate` rejects against the proposer's signed header of the height it claims.
(Data that *does* validate against that header carries the committed transactions, up to a collision of the data
commitment — that is the genuine data event.) -/
def JunkData (ch : PChain) (d : Data) : Prop := ∀ m, d.metadata = some m → Junk ch m.height d

/-- **a junk data event never terminates the loop and never corrupts what the node holds**; its writes (it can
complete nothing by itself, but the drop of an earlier junk item may let an empty block through) apply
consecutive blocks of the chain -/
theorem junk_safe (g : GoodChain c ch top) (hs : SafeJ true c ch h0 evs n) {d : Data} (hj : JunkData ch d) :
    SafeJ true c ch h0 evs (onData n d).1 ∧
    AppliedWrites c ch n.store.height (onData n d).2 (onData n d).1.store.height := by
  rw [onData_eq, hs.alive]
  simp only [Bool.not_true, Bool.false_eq_true, ↓reduceIte]
  cases hm : d.metadata with
  | none => exact ⟨hs, .nil _⟩
  | some m =>
    simp only
    split
    · exact ⟨hs, .nil _⟩
    · split
      · exact ⟨hs, .nil _⟩
      · split
        · exact ⟨hs, .nil _⟩
        · exact syncAfter_safe g (cacheJ_safe hs (hj m hm))

theorem junk_quiet (g : GoodChain c ch top) (hs : SafeJ true c ch h0 evs n) (hq : Quiet n) {d : Data}
    (hj : JunkData ch d) : Quiet (onData n d).1 := by
  rw [onData_eq, hs.alive]
  simp only [Bool.not_true, Bool.false_eq_true, ↓reduceIte]
  cases hm : d.metadata with
  | none => exact hq
  | some m =>
    simp only
    split
    · exact hq
    · split
      · exact hq
      · split
        · exact hq
        · exact syncAfter_quiet g (cacheJ_safe hs (hj m hm))

/-! ## the data seen-set names applied blocks only (/repo c3c43a6), so junk can never make genuine data "already seen" -/

/-- every commitment in the data seen-set is the commitment of an **applied** non-empty block of the chain: the data
case of the loop no longer marks what it merely caches (an unauthenticated item can copy the transactions of a block
under wrong metadata), only `trySyncNextBlock` does when it applies a block -/
def SeenApplied (ch : PChain) (n : FNode) : Prop :=
  ∀ x, x ∈ n.seenD → ∃ k b, ch k = some b ∧ ¬ IsEmpty b ∧ x = b.data.daCommitment ∧ k ≤ n.store.height

theorem SeenApplied.congr {n' : FNode} (h : SeenApplied ch n) (h1 : n'.seenD = n.seenD)
    (h2 : n.store.height ≤ n'.store.height) : SeenApplied ch n' := by
  intro x hx
  rw [h1] at hx
  obtain ⟨k, b, a1, a2, a3, a4⟩ := h x hx
  exact ⟨k, b, a1, a2, a3, by omega⟩

theorem advance_seen (g : GoodChain c ch top) (h : SeenApplied ch n) {b : Block} (d : Data)
    (hb : ch (n.store.height + 1) = some b) : SeenApplied ch (advance n b.sh d) := by
  intro x hx
  rw [advance_height]
  simp only [advance] at hx
  split at hx
  · obtain ⟨k, b', a1, a2, a3, a4⟩ := h x hx
    exact ⟨k, b', a1, a2, a3, by omega⟩
  · rename_i hne
    simp only [List.mem_cons] at hx
    rcases hx with rfl | hx
    · exact ⟨_, b, hb, hne, ((g.facts hb).dataHash).symm, Nat.le_refl _⟩
    · obtain ⟨k, b', a1, a2, a3, a4⟩ := h x hx
      exact ⟨k, b', a1, a2, a3, by omega⟩

theorem trySync_seen (g : GoodChain c ch top) : ∀ (fuel : Nat) (n : FNode), SafeJ jk c ch h0 evs n →
    SeenApplied ch n → SeenApplied ch (trySync fuel n []).1 := by
  intro fuel
  induction fuel with
  | zero => intro n _ h; exact h
  | succ f ih =>
    intro n hs h
    rcases applyNext_casesJ g hs with ⟨hn, _⟩ | ⟨b, d, hb, hd, hsrc, hkH, _, he⟩ | ⟨_, _, _, he⟩
    · rw [trySync_step_none hn]; exact h
    · rw [trySync_step_some he]
      exact ih _ (advance_safe g hs hb hd hkH hsrc) (advance_seen g h d hb)
    · rw [trySync_step_stop he]; exact h.congr rfl (Nat.le_refl _)

theorem cacheH_seenD (n : FNode) (sh : SHeader) : (cacheH n sh).seenD = n.seenD := by
  unfold cacheH; simp only; split <;> rfl

/-- every genuine event keeps the seen-set sound -/
theorem deliver_seen (g : GoodChain c ch top) (hs : SafeJ jk c ch h0 evs n) (h : SeenApplied ch n) (e : Ev) :
    SeenApplied ch (deliver ch n e).1 := by
  cases e with
  | hdr k =>
    simp only [deliver]
    cases hb : ch k with
    | none => exact h
    | some b =>
      simp only
      rcases onHeader_cases g hs hb with ⟨_, e⟩ | ⟨_, e⟩
      · rw [e]; exact h
      · rw [e]
        have := trySync_seen g ((cacheH n b.sh).hdrCache.length + 1) _ (cacheH_safe g hs hb)
          (h.congr (cacheH_seenD n b.sh) (by rw [cacheH_store]; exact Nat.le_refl _))
        exact this.congr rfl (Nat.le_refl _)
  | dat k =>
    simp only [deliver]
    cases hb : ch k with
    | none => exact h
    | some b =>
      simp only
      by_cases he : IsEmpty b
      · rw [onData_empty g hb he]; exact h
      · rcases onData_cases g hs hb he with ⟨_, e⟩ | ⟨_, e⟩
        · rw [e]; exact h
        · rw [e]
          exact trySync_seen g _ _ (cacheD_safe g hs hb) (h.congr rfl (Nat.le_refl _))

/-- … and so does every junk data event -/
theorem junk_seen (g : GoodChain c ch top) (hs : SafeJ true c ch h0 evs n) (h : SeenApplied ch n) {d : Data}
    (hj : JunkData ch d) : SeenApplied ch (onData n d).1 := by
  rw [onData_eq, hs.alive]
  simp only [Bool.not_true, Bool.false_eq_true, ↓reduceIte]
  cases hm : d.metadata with
  | none => exact h
  | some m =>
    simp only
    split
    · exact h
    · split
      · exact h
      · split
        · exact h
        · exact trySync_seen g _ _ (cacheJ_safe hs (hj m hm)) (h.congr rfl (Nat.le_refl _))

/-! ### a genuine data item, once cached, stays until its block is applied — whatever junk sits elsewhere -/

theorem find_filter_ne {α : Type} (l : List (Nat × α)) {k j : Nat} (hkj : k ≠ j) :
    (l.filter (·.1 ≠ j)).find? (·.1 = k) = l.find? (·.1 = k) := by
  rw [List.find?_filter]
  congr 1
  funext a
  by_cases h : a.1 = k
  · have : a.1 ≠ j := fun e => hkj (h.symm.trans e)
    simp [h, this, hkj]
  · simp [h]

theorem getD_advance_ne (n : FNode) (sh : SHeader) (d : Data) {k : Nat} (hk : k ≠ n.store.height + 1) :
    getD (advance n sh d) k = getD n k := by
  simp only [getD, advance]; rw [find_filter_ne _ hk]

theorem getD_dropData_ne (n : FNode) {k : Nat} (hk : k ≠ n.store.height + 1) : getD (dropData n) k = getD n k := by
  simp only [getD, dropData]; rw [find_filter_ne _ hk]

theorem keysH_advance_ne (n : FNode) (sh : SHeader) (d : Data) {k : Nat} (hk : k ≠ n.store.height + 1)
    (h : k ∈ keysH n) : k ∈ keysH (advance n sh d) := keys_filter_ne.mpr ⟨h, hk⟩

/-- `trySync` keeps a cached genuine data item (and a cached header) of a height it does not reach -/
theorem trySync_keeps (g : GoodChain c ch top) : ∀ (fuel : Nat) (n : FNode), SafeJ jk c ch h0 evs n →
    ∀ (k : Nat) (b : Block) (d : Data), ch k = some b → GoodData b d → getD n k = some d → n.store.height < k →
    n.store.height ≤ (trySync fuel n []).1.store.height ∧
    (k ≤ (trySync fuel n []).1.store.height ∨
      (getD (trySync fuel n []).1 k = some d ∧ (k ∈ keysH n → k ∈ keysH (trySync fuel n []).1))) := by
  intro fuel
  induction fuel with
  | zero => intro n _ k b d _ _ hd _; exact ⟨Nat.le_refl _, Or.inr ⟨hd, id⟩⟩
  | succ f ih =>
    intro n hs k b d hb hg hd hlt
    rcases applyNext_casesJ g hs with ⟨hn, _⟩ | ⟨b', d', hb', hd', hsrc, hkH, _, he⟩ | ⟨_, _, ⟨dj, hdj, hjunk⟩, he⟩
    · rw [trySync_step_none hn]; exact ⟨Nat.le_refl _, Or.inr ⟨hd, id⟩⟩
    · rw [trySync_step_some he]
      dsimp only
      have hh := advance_height n b'.sh d'
      by_cases hk : k = n.store.height + 1
      · have := (trySync_safe g f _ (advance_safe g hs hb' hd' hkH hsrc)).2.le
        rw [hh] at this
        exact ⟨by omega, Or.inl (by omega)⟩
      · obtain ⟨i1, i2⟩ := ih _ (advance_safe g hs hb' hd' hkH hsrc) k b d hb hg
          (by rw [getD_advance_ne n _ _ hk]; exact hd) (by rw [hh]; omega)
        rw [hh] at i1
        refine ⟨by omega, i2.imp id (fun ⟨x, y⟩ => ⟨x, fun hkk => y (keysH_advance_ne n _ _ hk hkk)⟩)⟩
    · rw [trySync_step_stop he]
      refine ⟨Nat.le_refl _, Or.inr ?_⟩
      by_cases hk : k = n.store.height + 1
      · subst hk
        rw [hd] at hdj; cases hdj
        exact absurd hjunk (not_junk_of_good hb hg)
      · exact ⟨by rw [getD_dropData_ne n hk]; exact hd, fun hkk => hkk⟩

end Sync
