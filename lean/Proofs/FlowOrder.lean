import Proofs.FlowRun

/-!
# C11 helpers (9): the chain holds the batches in the order the queue released them — also across clean restarts
-/
namespace Flow
open Wire Chain Producer

/-- what the queue released so far is, in this order, what the chain and the block waiting at `height + 1` hold -/
def Ord (σ : RunSt) (g : Ghost) : Prop :=
  g.released.flatten = chainTxs σ.n.prod.store ++ pendingTxs σ.n.prod.store

theorem ord_produce {c : Cfg} {σ : RunSt} {g : Ghost} (hc : CfgOK c) (h : FInv c σ g) (ho : Ord σ g) (ex : ExecResp)
    (clk : Clock) (hclk : clk ≠ .back) :
    (prodG c σ g ex clk).released.flatten =
      chainTxs (produce c σ.n ex clk).1.prod.store ++ pendingTxs (produce c σ.n ex clk).1.prod.store := by
  obtain ⟨P', sws, pre, q', T, e1, e2, f1, f2, f3, _, _, _, hcase, f7, f8, _⟩ :=
    produce_cases hc.signer h.live h.synced h.wm h.first h.tb ex clk hclk
  have hall : chainTxs P'.store ++ pendingTxs P'.store = durAll c.p (σ.n.prod.store.applyAll (sws.take sws.length)) := by
    rw [List.take_length, ← f1, node_durAll f2.toInv f3]
  have hold : durAll c.p σ.n.prod.store = g.released.flatten := by
    rw [node_durAll h.live.toInv h.synced]; exact ho.symm
  rw [e1]
  show _ = chainTxs P'.store ++ pendingTxs P'.store
  rw [hall]
  rcases hcase with ⟨rfl, _, rfl⟩ | ⟨b, rest, rfl, _, _, rfl, h2⟩
  · have e4 : prodG c σ g ex clk = g := by unfold prodG; rw [e2]; cases sws <;> rfl
    rw [e4]
    by_cases hj : sws.length ≤ 1
    · rw [f7 _ hj, hold]
    · rw [f8 _ (by omega), hold, List.append_nil]
  · have e4 : prodG c σ g ex clk = { g with released := g.released ++ [T] } := by unfold prodG; rw [e2]; rfl
    rw [e4, f8 _ h2, hold]
    show (g.released ++ [T]).flatten = _
    simp

/-- a clean restart (all writes of the last operation are durable) takes no release back -/
theorem cut_released_len (g : Ghost) (ws : List FW) : (g.cut ws ws.length).released = g.released := by
  cases ws with
  | nil => rfl
  | cons w tl =>
    have hne : (w :: tl).length ≠ 0 := by simp
    cases w with
    | qput b => simp only [Ghost.cut, hne, ↓reduceIte]
    | qdel b =>
      simp only [Ghost.cut, hne, ↓reduceIte]
      split <;> rfl
    | seen t => rfl
    | st w => rfl

/-- one operation that is not a crash keeps the release order -/
theorem step_ord {c : Cfg} {σ σ' : RunSt} {g : Ghost} (hc : CfgOK c) (h : FInv c σ g) (ho : Ord σ g) (op : Op)
    (hop : op.isCrash = false) (hs : opStep c σ op = some σ') : Ord σ' (gstep c σ g op) := by
  cases op with
  | crash _ => cases hop
  | mempool _ => simp only [opStep, Option.some.injEq] at hs; subst hs; exact ho
  | mempoolDrain _ => simp only [opStep, Option.some.injEq] at hs; subst hs; exact ho
  | reapPutFails => simp only [opStep, Option.some.injEq] at hs; subst hs; exact ho
  | reap =>
    simp only [opStep, Option.some.injEq] at hs
    subst hs
    have hp : (reap c σ.n σ.mempool).1.prod = σ.n.prod := by
      rcases reap_cases c σ.n σ.mempool with h0 | ⟨_, _, h1⟩
      · rw [h0]
      · rw [h1]
    have hr : (gstep c σ g .reap).released = g.released := by
      simp only [gstep]; split <;> rfl
    show (gstep c σ g .reap).released.flatten = chainTxs (reap c σ.n σ.mempool).1.prod.store ++ _
    rw [hr, hp]; exact ho
  | produce =>
    simp only [opStep, Option.some.injEq] at hs; subst hs
    exact ord_produce hc h ho .ok .real (by decide)
  | produceFail =>
    simp only [opStep, Option.some.injEq] at hs; subst hs
    exact ord_produce hc h ho .fail .real (by decide)
  | produceSame =>
    simp only [opStep, Option.some.injEq] at hs; subst hs
    exact ord_produce hc h ho .ok .same (by decide)
  | produceCancelled aware =>
    simp only [opStep, Option.some.injEq] at hs; subst hs
    exact ord_produce hc h ho (cancelEx c σ.n aware) .real (by decide)
  | restart =>
    -- a clean restart: the ghost keeps `released`, the node sees exactly what the last image showed
    obtain ⟨σ1, h1, hf1⟩ := step_recover h σ.ws.length
    have hs' : recover c σ σ.ws.length = some σ' := hs
    rw [h1] at hs'
    simp only [Option.some.injEq] at hs'
    subst hs'
    have himg : image σ1 σ1.ws.length = image σ σ.ws.length := by
      unfold recover at h1
      split at h1
      · cases h1
      · simp only [Option.some.injEq] at h1
        subst h1
        exact image_nil rfl _
    have hrel : (g.cut σ.ws σ.ws.length).released = g.released := cut_released_len g σ.ws
    show (g.cut σ.ws σ.ws.length).released.flatten = _
    rw [hrel, ← hf1.all, himg, h.all]
    exact ho

theorem run_ord {c : Cfg} {σ σ' : RunSt} {g g' : Ghost} {ops : List Op} (hc : CfgOK c) (h : FInv c σ g) (ho : Ord σ g)
    (hn : ∀ op ∈ ops, op.isCrash = false) (hr : runG c σ g ops = some (σ', g')) : Ord σ' g' := by
  induction ops generalizing σ g with
  | nil => simp only [runG, Option.some.injEq, Prod.mk.injEq] at hr; rw [← hr.1, ← hr.2]; exact ho
  | cons op rest ih =>
    simp only [runG] at hr
    obtain ⟨σ1, h1, h2⟩ := step_inv hc h op
    rw [h1] at hr
    exact ih h2 (step_ord hc h ho op (hn op (by simp)) h1) (fun o ho' => hn o (by simp [ho'])) hr

end Flow
