import Proofs.Crash

/-!
# Restart on a durable image satisfying the disk invariant (C04 (b), (d))

`start` issues, in this order: (no state saved) the genesis block at the initial height; `setHeight` to the height of
the (saved or genesis) state, if the recorded chain height is below it — **this is what repairs a crash between
`updateState` and `setHeight`**; the two submission watermarks, raised to `initialHeight - 1` when they read less.
-/
namespace Producer
open Wire Chain

theorem wmWrite_wmSafe (c : Cfg) (key : String) (w : Nat) : ∀ x ∈ wmWrite c key w, WmSafe x := by
  unfold wmWrite
  split <;> simp [WmSafe, le64_length]

/-- a metadata write of eight bytes -/
def IsWm (w : SW) : Prop := ∃ k x, w = .setMeta k (le64 x)

theorem wmWrite_isWm (c : Cfg) (key : String) (w : Nat) : ∀ x ∈ wmWrite c key w, IsWm x := by
  unfold wmWrite
  split
  · intro x hx
    simp only [List.mem_cons, List.mem_nil_iff, or_false] at hx
    exact ⟨key, _, hx⟩
  · simp

theorem IsWm.wmSafe {w : SW} (h : IsWm w) : WmSafe w := by
  obtain ⟨k, x, rfl⟩ := h
  exact Or.inr (le64_length x)

/-- watermark writes keep the disk invariant and change neither height, nor blocks, nor the saved state -/
theorem wm_applyAll {c : Cfg} {d : Store} {l : List SW} (hd : DInv c d) (hl : ∀ w ∈ l, IsWm w) :
    DInv c (d.applyAll l) ∧ (d.applyAll l).height = d.height ∧ (∀ k, (d.applyAll l).getBlock k = d.getBlock k) ∧
    (d.applyAll l).state = d.state := by
  induction l generalizing d with
  | nil => exact ⟨hd, rfl, fun _ => rfl, rfl⟩
  | cons w l ih =>
    have hw := hl w (List.mem_cons_self ..)
    obtain ⟨k, x, rfl⟩ := hw
    have hd1 : DInv c (d.apply (.setMeta k (le64 x))) :=
      dinv_of_same hd rfl (fun _ => rfl) rfl (wmOK_apply (Or.inr (le64_length x)) hd.wm)
    obtain ⟨a, b, e, f⟩ := ih hd1 (fun w' hw' => hl w' (List.mem_cons_of_mem _ hw'))
    rw [applyAll_cons]
    exact ⟨a, by rw [b]; rfl, fun k' => by rw [e]; rfl, by rw [f]; rfl⟩

/-! ## no state saved: the genesis restart -/

/-- the writes `start` issues when no state is saved and the watermarks read `w1`, `w2`: the genesis block at the
initial height, the chain height raised to `initialHeight - 1` (a no-op when it is already there), the watermarks -/
def restartWrites (c : Cfg) (d : Store) (w1 w2 : Nat) : List SW :=
  [SW.saveBlock c.initialHeight (genesisBlock c)] ++
    setHeightW (d.apply (.saveBlock c.initialHeight (genesisBlock c))) (c.initialHeight - 1) ++
    wmWrite c hdrWmKey w1 ++ wmWrite c dataWmKey w2

/-- a write `start` issues on a state-less image -/
inductive GenWrite (c : Cfg) : SW → Prop
  | genesis : GenWrite c (.saveBlock c.initialHeight (genesisBlock c))
  | height : GenWrite c (.setHeight (c.initialHeight - 1))
  | wm (w : SW) (h : IsWm w) : GenWrite c w

theorem GenWrite.wmSafe {c : Cfg} {w : SW} (h : GenWrite c w) : WmSafe w := by
  cases h with
  | genesis => simp [WmSafe]
  | height => simp [WmSafe]
  | wm w h => exact h.wmSafe

theorem restartWrites_gen (c : Cfg) (d : Store) (w1 w2 : Nat) : ∀ w ∈ restartWrites c d w1 w2, GenWrite c w := by
  intro w hw
  simp only [restartWrites, List.mem_append, List.mem_cons, List.mem_nil_iff, or_false] at hw
  rcases hw with ((rfl | hw) | hw) | hw
  · exact .genesis
  · unfold setHeightW at hw
    split at hw
    · simp only [List.mem_cons, List.mem_nil_iff, or_false] at hw
      subst hw; exact .height
    · cases hw
  · exact .wm w (wmWrite_isWm _ _ _ w hw)
  · exact .wm w (wmWrite_isWm _ _ _ w hw)

/-- any list of such writes on a state-less image below the genesis -/
theorem genWrites_facts {c : Cfg} {d : Store} (hlow : d.height < c.initialHeight) {l : List SW}
    (hl : ∀ w ∈ l, GenWrite c w) :
    (d.applyAll l).state = d.state ∧ d.height ≤ (d.applyAll l).height ∧ (d.applyAll l).height < c.initialHeight ∧
    (∀ h, h ≠ c.initialHeight → (d.applyAll l).getBlock h = d.getBlock h) := by
  induction l generalizing d with
  | nil => exact ⟨rfl, Nat.le_refl _, hlow, fun _ _ => rfl⟩
  | cons w l ih =>
    have hw := hl w (List.mem_cons_self ..)
    have h1 : (d.apply w).state = d.state ∧ d.height ≤ (d.apply w).height ∧ (d.apply w).height < c.initialHeight ∧
        (∀ h, h ≠ c.initialHeight → (d.apply w).getBlock h = d.getBlock h) := by
      cases hw with
      | genesis => exact ⟨rfl, Nat.le_refl _, hlow, fun h hh => getBlock_saveBlock_other _ _ _ _ (Ne.symm hh)⟩
      | height =>
        refine ⟨state_setHeight _ _, ?_, ?_, fun h _ => getBlock_setHeight _ _ _⟩
        · rw [height_setHeight]; split <;> omega
        · rw [height_setHeight]; split <;> omega
      | wm w h =>
        obtain ⟨k, x, rfl⟩ := h
        exact ⟨rfl, Nat.le_refl _, hlow, fun _ _ => rfl⟩
    obtain ⟨a, b, e, f⟩ := ih h1.2.2.1 (fun w' hw' => hl w' (List.mem_cons_of_mem _ hw'))
    rw [applyAll_cons]
    exact ⟨by rw [a, h1.1], Nat.le_trans h1.2.1 b, e, fun h hh => by rw [f h hh, h1.2.2.2 h hh]⟩

/-- the image after all restart writes -/
theorem restart_all_facts (c : Cfg) (d : Store) (w1 w2 : Nat) (hlow : d.height < c.initialHeight) :
    (d.applyAll (restartWrites c d w1 w2)).height = c.initialHeight - 1 ∧
    (d.applyAll (restartWrites c d w1 w2)).getBlock c.initialHeight = some (genesisBlock c) := by
  unfold restartWrites
  rw [applyAll_append, applyAll_append, applyAll_append]
  obtain ⟨e1, e2, _⟩ := wmWrite_facts c (((d.applyAll [SW.saveBlock c.initialHeight (genesisBlock c)]).applyAll
    (setHeightW (d.apply (.saveBlock c.initialHeight (genesisBlock c))) (c.initialHeight - 1))).applyAll
    (wmWrite c hdrWmKey w1)) dataWmKey w2
  obtain ⟨b1, b2, _⟩ := wmWrite_facts c ((d.applyAll [SW.saveBlock c.initialHeight (genesisBlock c)]).applyAll
    (setHeightW (d.apply (.saveBlock c.initialHeight (genesisBlock c))) (c.initialHeight - 1))) hdrWmKey w1
  rw [e1, e2, b1, b2]
  have : d.applyAll [SW.saveBlock c.initialHeight (genesisBlock c)] = d.apply (.saveBlock c.initialHeight (genesisBlock c)) := rfl
  rw [this]
  obtain ⟨a1, a2, _⟩ := applyAll_setHeightW (d.apply (.saveBlock c.initialHeight (genesisBlock c))) (c.initialHeight - 1)
  rw [a1, a2]
  refine ⟨?_, getBlock_saveBlock_same _ _ _⟩
  rw [height_saveBlock]
  split <;> omega

theorem dinv_of_noState {c : Cfg} {d : Store} (hpos : 1 ≤ c.initialHeight) (hw : WmOK d) (hst : d.state = none)
    (hlow : d.height < c.initialHeight) (habove : ∀ h, h > c.initialHeight → d.getBlock h = none) : DInv c d :=
  ⟨hpos, hw, fun _ => ⟨hlow, habove⟩, fun s hs => by rw [hst] at hs; cases hs⟩

/-- a node below the genesis holding the genesis state, with the genesis block stored at the initial height and
nothing above, satisfies the production invariant -/
theorem live_genesis {c : Cfg} {n : Node} (hpos : 1 ≤ c.initialHeight) (hh : n.store.height = c.initialHeight - 1)
    (hg : n.store.getBlock c.initialHeight = some (genesisBlock c))
    (habove : ∀ h, h > c.initialHeight → n.store.getBlock h = none) (hls : n.lastState = genesisState c) :
    Live c n := by
  have e : n.store.height + 1 = c.initialHeight := by rw [hh]; omega
  refine ⟨⟨hpos, ?_, ?_, ?_, ?_, ?_, ?_, ?_, ?_⟩, ?_, ?_⟩
  · rw [hh, hls]; rfl
  · rw [hh]; omega
  · rw [hls]; rfl
  · intro h h1 h2; rw [hh] at h2; omega
  · intro _; rw [hls]; exact ⟨rfl, rfl⟩
  · intro h1; rw [hh] at h1; omega
  · intro pb hpb
    rw [e, hg] at hpb
    simp only [Option.some.injEq] at hpb
    subst hpb
    refine ⟨?_, rfl, ?_⟩
    · rw [e]; rfl
    · intro hgt; omega
  · intro h hgt
    rw [hh] at hgt
    exact habove h (by omega)
  · intro pb hpb
    rw [e, hg] at hpb
    simp only [Option.some.injEq] at hpb
    subst hpb
    rw [hls]; exact genesis_pendValid c
  · intro _; exact ⟨_, hg⟩

/-! ## a state is saved -/

/-- the writes `start` issues when the state `s` is saved: the chain height raised to the state's height (only in
the window between `updateState` and `setHeight`), the watermarks -/
def resumeWrites (c : Cfg) (d : Store) (s : State) (w1 w2 : Nat) : List SW :=
  setHeightW d s.lastHeight ++ wmWrite c hdrWmKey w1 ++ wmWrite c dataWmKey w2

theorem dinv_raised {c : Cfg} {d : Store} (hd : DInv c d) {s : State} (hs : d.state = some s) :
    DInv c (raised d s) := by
  obtain ⟨hge, _, hl⟩ := hd.withState s hs
  obtain ⟨_, _, r3, r4⟩ := raised_facts d s
  have hw : WmOK (raised d s) := by
    unfold WmOK; rw [wmOf_congr r4, wmOf_congr r4]; exact hd.wm
  exact dinv_of_node (n := { store := raised d s, lastState := s }) hl (Or.inl ⟨by rw [r3]; exact hs, hge⟩) hw

theorem setHeightW_take (d : Store) (h k : Nat) :
    d.applyAll ((setHeightW d h).take k) = d ∨ d.applyAll ((setHeightW d h).take k) = d.applyAll (setHeightW d h) := by
  unfold setHeightW
  split
  · cases k with
    | zero => exact Or.inl rfl
    | succ k => exact Or.inr (by simp)
  · exact Or.inl (by simp [Store.applyAll])

/-- **(b), (d): restart on an image satisfying the disk invariant.**  `start` succeeds; the node it builds
satisfies the production invariant, is in sync with its image, its store is the image with exactly the reported
writes applied; every prefix image of these writes (a crash during recovery) satisfies the disk invariant again
and leaves every committed block alone; when a state was saved, the node holds it and its chain height is the
state's height (raised if the image was in the window). -/
theorem start_of_dinv' {c : Cfg} {d : Store} (hd : DInv c d) :
    ∃ n ws, start c d = .ok (n, ws) ∧ Live c n ∧ Synced c n ∧ WmOK n.store ∧ n.store = d.applyAll ws ∧
      (∀ k, DInv c (d.applyPrefix k ws)) ∧ (∀ k, Adv c d (d.applyPrefix k ws)) ∧
      (∀ s, d.state = some s → n.lastState = s ∧ n.store.height = s.lastHeight ∧
        ∃ w1 w2, ws = resumeWrites c d s w1 w2) ∧
      (∀ h b, SW.saveBlock h b ∈ ws → h = c.initialHeight ∧ b = genesisBlock c) ∧
      (∀ st, SW.updateState st ∉ ws) := by
  obtain ⟨⟨w1, hw1⟩, ⟨w2, hw2⟩⟩ := hd.wm
  cases hst : d.state with
  | none =>
    obtain ⟨hlow, habove⟩ := hd.noState hst
    have hgen := restartWrites_gen c d w1 w2
    have hwmall : WmOK (d.applyAll (restartWrites c d w1 w2)) :=
      wmOK_applyAll (fun w hw => (hgen w hw).wmSafe) hd.wm
    obtain ⟨⟨x1, hx1⟩, ⟨x2, hx2⟩⟩ := hwmall
    obtain ⟨p1, _, _, p4⟩ := genWrites_facts hlow hgen
    obtain ⟨hh, hg⟩ := restart_all_facts c d w1 w2 hlow
    -- what `start` reads and computes
    generalize hd2 : (d.apply (SW.saveBlock c.initialHeight (genesisBlock c))).applyAll
        (setHeightW (d.apply (SW.saveBlock c.initialHeight (genesisBlock c))) (c.initialHeight - 1)) = d2
    have hd2kv : d2.kv = d.kv := by
      rw [← hd2, (applyAll_setHeightW _ _).2.2.2]; rfl
    have hr1 : wmOf d2 hdrWmKey = some w1 := by rw [wmOf_congr hd2kv]; exact hw1
    have hr2 : wmOf d2 dataWmKey = some w2 := by rw [wmOf_congr hd2kv]; exact hw2
    have hstore : (d2.applyAll (wmWrite c hdrWmKey w1)).applyAll (wmWrite c dataWmKey w2) =
        d.applyAll (restartWrites c d w1 w2) := by
      rw [← hd2]
      simp only [restartWrites, applyAll_append]
      rfl
    have hstart : start c d = .ok
        ({ store := d.applyAll (restartWrites c d w1 w2), lastState := genesisState c,
           lastBatchData := (((d.applyAll (restartWrites c d w1 w2)).getMeta lastBatchDataKey).bind bytesToBatchData).getD [],
           hdrWm := wmRaise c w1, dataWm := wmRaise c w2, daHeight := 0 }, restartWrites c d w1 w2) := by
      unfold start
      simp only [hst]
      rw [hd2, hr1, hr2]
      simp only
      rw [← hstore]
      simp [genesisState, restartWrites, wmWrite, wmRaise, hd2]
    refine ⟨_, _, hstart, ?_, Or.inr ⟨by rw [p1, hst], rfl⟩, ⟨⟨x1, hx1⟩, ⟨x2, hx2⟩⟩, rfl, ?_, ?_, ?_, ?_, ?_⟩
    · exact live_genesis hd.ihPos hh hg (fun h hgt => by
        show (d.applyAll (restartWrites c d w1 w2)).getBlock h = none
        rw [p4 h (by omega)]; exact habove h hgt) rfl
    · intro k
      have hk : ∀ w ∈ (restartWrites c d w1 w2).take k, GenWrite c w := fun w hw => hgen w (List.mem_of_mem_take hw)
      obtain ⟨q1, _, q3, q4⟩ := genWrites_facts hlow hk
      unfold Store.applyPrefix
      exact dinv_of_noState hd.ihPos (wmOK_applyAll (fun w hw => (hk w hw).wmSafe) hd.wm) (by rw [q1, hst]) q3
        (fun h hgt => by rw [q4 h (by omega)]; exact habove h hgt)
    · intro k
      have hk : ∀ w ∈ (restartWrites c d w1 w2).take k, GenWrite c w := fun w hw => hgen w (List.mem_of_mem_take hw)
      obtain ⟨_, q2, q3, q4⟩ := genWrites_facts hlow hk
      exact ⟨q2, by unfold Store.applyPrefix; omega, fun h hh => q4 h (by omega)⟩
    · intro s hs; cases hs
    · intro h b hm
      have hgw := hgen _ hm
      cases hgw with
      | genesis => exact ⟨rfl, rfl⟩
      | wm w hw => obtain ⟨k, x, hkx⟩ := hw; cases hkx
    · intro st hm
      have hgw := hgen _ hm
      cases hgw with
      | wm w hw => obtain ⟨k, x, hkx⟩ := hw; cases hkx
  | some s =>
    obtain ⟨hge, hle, hl⟩ := hd.withState s hst
    have hdr := dinv_raised hd hst
    obtain ⟨r1, r2, r3, r4⟩ := raised_facts d s
    have hdle := hd.height_le hst
    have hrh : (raised d s).height = s.lastHeight := hl.hs
    have hr1 : wmOf (raised d s) hdrWmKey = some w1 := by rw [wmOf_congr r4]; exact hw1
    have hr2 : wmOf (raised d s) dataWmKey = some w2 := by rw [wmOf_congr r4]; exact hw2
    have hwl : ∀ w ∈ wmWrite c hdrWmKey w1 ++ wmWrite c dataWmKey w2, IsWm w := by
      intro w hw
      rcases List.mem_append.mp hw with h | h
      · exact wmWrite_isWm _ _ _ w h
      · exact wmWrite_isWm _ _ _ w h
    obtain ⟨f1, f2, f3, f4⟩ := wm_applyAll hdr hwl
    have hstore : ((raised d s).applyAll (wmWrite c hdrWmKey w1)).applyAll (wmWrite c dataWmKey w2) =
        d.applyAll (resumeWrites c d s w1 w2) := by
      simp only [resumeWrites, applyAll_append]; rfl
    have hstore' : (raised d s).applyAll (wmWrite c hdrWmKey w1 ++ wmWrite c dataWmKey w2) =
        d.applyAll (resumeWrites c d s w1 w2) := by
      rw [applyAll_append]; exact hstore
    have hstart : start c d = .ok
        ({ store := d.applyAll (resumeWrites c d s w1 w2), lastState := s,
           lastBatchData := (((d.applyAll (resumeWrites c d s w1 w2)).getMeta lastBatchDataKey).bind bytesToBatchData).getD [],
           hdrWm := wmRaise c w1, dataWm := wmRaise c w2, daHeight := s.daHeight }, resumeWrites c d s w1 w2) := by
      unfold start
      simp only [hst]
      have hng : ¬ c.initialHeight > s.lastHeight := by omega
      simp only [hng, ↓reduceIte]
      have e : d.applyAll (setHeightW d s.lastHeight) = raised d s := rfl
      rw [e, hr1, hr2]
      simp only
      rw [← hstore]
      simp [resumeWrites, wmWrite, wmRaise]
    rw [hstore'] at f1 f2 f3 f4
    refine ⟨_, _, hstart, ?_, Or.inl ⟨by rw [f4, r3, hst], hge⟩, f1.wm, rfl, ?_, ?_, ?_, ?_, ?_⟩
    · exact hl.of_same f2 f3 rfl
    · intro k
      unfold Store.applyPrefix resumeWrites
      rw [List.append_assoc, List.take_append, applyAll_append]
      have hk : ∀ w ∈ (wmWrite c hdrWmKey w1 ++ wmWrite c dataWmKey w2).take (k - (setHeightW d s.lastHeight).length), IsWm w :=
        fun w hw => hwl w (List.mem_of_mem_take hw)
      rcases setHeightW_take d s.lastHeight k with h | h
      · rw [h]; exact (wm_applyAll hd hk).1
      · rw [h]; exact (wm_applyAll hdr hk).1
    · intro k
      unfold Store.applyPrefix resumeWrites
      rw [List.append_assoc, List.take_append, applyAll_append]
      have hk : ∀ w ∈ (wmWrite c hdrWmKey w1 ++ wmWrite c dataWmKey w2).take (k - (setHeightW d s.lastHeight).length), IsWm w :=
        fun w hw => hwl w (List.mem_of_mem_take hw)
      rcases setHeightW_take d s.lastHeight k with h | h
      · rw [h]
        obtain ⟨_, g2, g3, _⟩ := wm_applyAll hd hk
        exact ⟨by omega, by omega, fun h _ => g3 h⟩
      · rw [h]
        obtain ⟨_, g2, g3, _⟩ := wm_applyAll hdr hk
        have e : d.applyAll (setHeightW d s.lastHeight) = raised d s := rfl
        rw [e]
        exact ⟨by omega, by omega, fun h _ => by rw [g3, r2]⟩
    · intro s' hs'
      have : s = s' := by simpa using hs'
      subst this
      exact ⟨rfl, by show (d.applyAll (resumeWrites c d s w1 w2)).height = _; rw [f2, hrh], w1, w2, rfl⟩
    · intro h b hm
      exfalso
      simp only [resumeWrites, List.mem_append] at hm
      rcases hm with (hm | hm) | hm
      · unfold setHeightW at hm
        split at hm
        · simp at hm
        · cases hm
      · obtain ⟨k, x, hkx⟩ := wmWrite_isWm _ _ _ _ hm; cases hkx
      · obtain ⟨k, x, hkx⟩ := wmWrite_isWm _ _ _ _ hm; cases hkx
    · intro st hm
      simp only [resumeWrites, List.mem_append] at hm
      rcases hm with (hm | hm) | hm
      · unfold setHeightW at hm
        split at hm
        · simp at hm
        · cases hm
      · obtain ⟨k, x, hkx⟩ := wmWrite_isWm _ _ _ _ hm; cases hkx
      · obtain ⟨k, x, hkx⟩ := wmWrite_isWm _ _ _ _ hm; cases hkx

theorem start_of_dinv {c : Cfg} {d : Store} (hd : DInv c d) :
    ∃ n ws, start c d = .ok (n, ws) ∧ Live c n ∧ Synced c n ∧ WmOK n.store ∧ n.store = d.applyAll ws ∧
      (∀ k, DInv c (d.applyPrefix k ws)) ∧ (∀ k, Adv c d (d.applyPrefix k ws)) ∧
      (∀ s, d.state = some s → n.lastState = s ∧ n.store.height = s.lastHeight ∧
        ∃ w1 w2, ws = resumeWrites c d s w1 w2) := by
  obtain ⟨n, ws, a1, a2, a3, a4, a5, a6, a7, a8, _, _⟩ := start_of_dinv' hd
  exact ⟨n, ws, a1, a2, a3, a4, a5, a6, a7, a8⟩

end Producer
