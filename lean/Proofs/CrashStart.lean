import Proofs.Crash

/-!
# Restart on a durable image satisfying the disk invariant (C04 (b), (d))
-/
namespace Producer
open Wire Chain

/-- the writes `start` issues when no state is saved: the genesis block at the initial height, then the chain
height is raised to `initialHeight - 1` (a no-op when it is already there) -/
def restartWrites (c : Cfg) (d : Store) : List SW :=
  SW.saveBlock c.initialHeight (genesisBlock c) ::
    setHeightW (d.apply (.saveBlock c.initialHeight (genesisBlock c))) (c.initialHeight - 1)

/-- every prefix image of `restartWrites` on a state-less image below the genesis -/
theorem restart_prefix_facts (c : Cfg) (d : Store) (hlow : d.height < c.initialHeight) (k : Nat) :
    (d.applyPrefix k (restartWrites c d)).state = d.state ∧
    (d.applyPrefix k (restartWrites c d)).kv = d.kv ∧
    d.height ≤ (d.applyPrefix k (restartWrites c d)).height ∧
    (d.applyPrefix k (restartWrites c d)).height < c.initialHeight ∧
    (∀ h, h ≠ c.initialHeight → (d.applyPrefix k (restartWrites c d)).getBlock h = d.getBlock h) := by
  unfold restartWrites Store.applyPrefix setHeightW
  cases k with
  | zero => simp [Store.applyAll]; omega
  | succ k =>
    simp only [List.take_succ_cons, applyAll_cons]
    have hside : ∀ h, h ≠ c.initialHeight →
        (d.apply (.saveBlock c.initialHeight (genesisBlock c))).getBlock h = d.getBlock h :=
      fun h hh => getBlock_saveBlock_other _ _ _ _ (Ne.symm hh)
    split
    · rename_i hgt
      cases k with
      | zero => simp only [List.take_zero, applyAll_nil]; exact ⟨rfl, rfl, Nat.le_refl _, hlow, hside⟩
      | succ k =>
        simp only [List.take_succ_cons, List.take_nil, applyAll_cons, applyAll_nil]
        have hgt' : c.initialHeight - 1 > d.height := hgt
        refine ⟨by simp, ?_, ?_, ?_, ?_⟩
        · simp [Store.apply, hgt']
        · rw [height_setHeight]; simp [hgt']; omega
        · rw [height_setHeight]; simp [hgt']; omega
        · intro h hh; rw [getBlock_setHeight]; exact hside h hh
    · simp only [List.take_nil, applyAll_nil]; exact ⟨rfl, rfl, Nat.le_refl _, hlow, hside⟩

/-- the image after all restart writes -/
theorem restart_all_facts (c : Cfg) (d : Store) (hlow : d.height < c.initialHeight) :
    (d.applyAll (restartWrites c d)).height = c.initialHeight - 1 ∧
    (d.applyAll (restartWrites c d)).getBlock c.initialHeight = some (genesisBlock c) := by
  unfold restartWrites setHeightW
  rw [applyAll_cons]
  split
  · rename_i hgt
    have hgt' : c.initialHeight - 1 > d.height := hgt
    simp [Store.applyAll, height_setHeight, hgt']
  · rename_i hgt
    have hgt' : ¬ c.initialHeight - 1 > d.height := hgt
    simp [Store.applyAll]; omega

theorem dinv_of_noState {c : Cfg} {d : Store} (hpos : 1 ≤ c.initialHeight) (hw : WmOK d) (hst : d.state = none)
    (hlow : d.height < c.initialHeight) (habove : ∀ h, h > c.initialHeight → d.getBlock h = none) : DInv c d :=
  ⟨hpos, hw, fun _ => ⟨hlow, habove⟩, fun s hs => by rw [hst] at hs; cases hs⟩

/-- the node `start` builds when no state is saved satisfies the production invariant -/
theorem inv_restart_genesis {c : Cfg} {d : Store} (hpos : 1 ≤ c.initialHeight) (hlow : d.height < c.initialHeight)
    (habove : ∀ h, h > c.initialHeight → d.getBlock h = none) {n : Node}
    (hst : n.store = d.applyAll (restartWrites c d)) (hls : n.lastState = genesisState c) : Inv c n := by
  obtain ⟨hh, hg⟩ := restart_all_facts c d hlow
  obtain ⟨_, _, _, _, hside⟩ := restart_prefix_facts c d hlow (restartWrites c d).length
  rw [applyPrefix_all _ _ _ (Nat.le_refl _)] at hside
  rw [← hst] at hh hg hside
  refine ⟨hpos, ?_, ?_, ?_, ?_, ?_, ?_, ?_, ?_⟩
  · rw [hh, hls]; rfl
  · rw [hh]; omega
  · rw [hls]; rfl
  · intro h h1 h2; rw [hh] at h2; omega
  · intro _; rw [hls]; exact ⟨rfl, rfl⟩
  · intro h1; rw [hh] at h1; omega
  · intro pb hpb
    have e : n.store.height + 1 = c.initialHeight := by rw [hh]; omega
    rw [e, hg] at hpb
    simp only [Option.some.injEq] at hpb
    subst hpb
    refine ⟨?_, rfl, ?_⟩
    · rw [e]; rfl
    · intro hgt; omega
  · intro h hgt
    rw [hh] at hgt
    rw [hside h (by omega)]
    exact habove h (by omega)

/-- **(b), (d): restart on an image satisfying the disk invariant.**  `start` succeeds; the node it builds
satisfies the production invariant, is in sync with its image, its store is the image with exactly the reported
writes applied; every prefix image of these writes (a crash during recovery) satisfies the disk invariant again
and leaves every committed block alone; when a state was saved, `start` writes nothing at all. -/
theorem start_of_dinv {c : Cfg} {d : Store} (hd : DInv c d) :
    ∃ n ws, start c d = .ok (n, ws) ∧ Inv c n ∧ Synced c n ∧ WmOK n.store ∧ n.store = d.applyAll ws ∧
      (∀ k, DInv c (d.applyPrefix k ws)) ∧ (∀ k, Adv c d (d.applyPrefix k ws)) ∧
      (d.state ≠ none → ws = []) := by
  obtain ⟨⟨w1, hw1⟩, ⟨w2, hw2⟩⟩ := hd.wm
  cases hst : d.state with
  | none =>
    obtain ⟨hlow, habove⟩ := hd.noState hst
    have hpf := restart_prefix_facts c d hlow
    have hall : ∀ k, (restartWrites c d).length ≤ k → d.applyPrefix k (restartWrites c d) = d.applyAll (restartWrites c d) :=
      fun k hk => applyPrefix_all _ _ _ hk
    obtain ⟨p1, p2, _, _, _⟩ := hpf (restartWrites c d).length
    rw [hall _ (Nat.le_refl _)] at p1 p2
    have hwm1 : wmOf (d.applyAll (restartWrites c d)) hdrWmKey = some w1 := by rw [wmOf_congr p2]; exact hw1
    have hwm2 : wmOf (d.applyAll (restartWrites c d)) dataWmKey = some w2 := by rw [wmOf_congr p2]; exact hw2
    have hstart : start c d = .ok
        ({ store := d.applyAll (restartWrites c d), lastState := genesisState c,
           lastBatchData := (((d.applyAll (restartWrites c d)).getMeta lastBatchDataKey).bind bytesToBatchData).getD [],
           hdrWm := w1, dataWm := w2, daHeight := 0 }, restartWrites c d) := by
      unfold start
      simp only [hst]
      have e : (d.apply (SW.saveBlock c.initialHeight (genesisBlock c))).applyAll
          (setHeightW (d.apply (SW.saveBlock c.initialHeight (genesisBlock c))) (c.initialHeight - 1)) =
          d.applyAll (restartWrites c d) := rfl
      rw [e, hwm1, hwm2]
      simp [genesisState, restartWrites]
    refine ⟨_, _, hstart, inv_restart_genesis hd.ihPos hlow habove rfl rfl, Or.inr ⟨by rw [p1, hst], rfl⟩,
      ⟨⟨w1, hwm1⟩, ⟨w2, hwm2⟩⟩, rfl, ?_, ?_, fun h => absurd rfl h⟩
    · intro k
      obtain ⟨q1, q2, _, q4, q5⟩ := hpf k
      refine dinv_of_noState hd.ihPos ?_ (by rw [q1, hst]) q4 (fun h hgt => by rw [q5 h (by omega)]; exact habove h hgt)
      exact ⟨⟨w1, by rw [wmOf_congr q2]; exact hw1⟩, ⟨w2, by rw [wmOf_congr q2]; exact hw2⟩⟩
    · intro k
      obtain ⟨_, _, q3, q4, q5⟩ := hpf k
      exact ⟨q3, by omega, fun h hh => q5 h (by omega)⟩
  | some s =>
    obtain ⟨hge, hi⟩ := hd.withState s hst
    have hh : d.height = s.lastHeight := hi.hs
    have hnw : setHeightW d s.lastHeight = [] := by simp [setHeightW, hh]
    have hstart : start c d = .ok
        ({ store := d, lastState := s,
           lastBatchData := ((d.getMeta lastBatchDataKey).bind bytesToBatchData).getD [],
           hdrWm := w1, dataWm := w2, daHeight := s.daHeight }, []) := by
      unfold start
      simp only [hst]
      have hng : ¬ c.initialHeight > s.lastHeight := by omega
      simp only [hng, ↓reduceIte, hnw, applyAll_nil, hw1, hw2]
      simp
    refine ⟨_, _, hstart, hi.congr rfl rfl, Or.inl ⟨hst, hge⟩, hd.wm, rfl, ?_, ?_, fun _ => rfl⟩
    · intro k; simpa [Store.applyPrefix, Store.applyAll] using hd
    · intro k; simpa [Store.applyPrefix, Store.applyAll] using Adv.refl c d

end Producer
