import Proofs.FlowCuts
import Proofs.C10

/-!
# C11 helpers (3): durable images of the writes of `reap` and `produce`; one summary of every `produce` step
-/
namespace Flow
open Wire Chain Producer

/-- the sequencer's clock bound: no block is stamped later than this at tick `t` -/
def bound (c : Cfg) (t : Nat) : Nat := c.p.genesisTime + t * 1000

theorem fold_seen (txs : List Bytes) (D : Disk) :
    (txs.map FW.seen).foldl Disk.apply D = { D with seen := txs.foldl addSeen D.seen } := by
  induction txs generalizing D with
  | nil => rfl
  | cons t txs ih => simp only [List.map_cons, List.foldl_cons]; rw [ih]; rfl

theorem fold_st (sws : List SW) (D : Disk) :
    (sws.map FW.st).foldl Disk.apply D = { D with store := D.store.applyAll sws } := by
  induction sws generalizing D with
  | nil => rfl
  | cons w sws ih => simp only [List.map_cons, List.foldl_cons]; rw [ih]; rfl

theorem mem_addSeen {s : List Bytes} {t x : Bytes} : x ∈ addSeen s t ↔ x ∈ s ∨ x = t := by
  unfold addSeen
  split
  · rename_i h
    have : t ∈ s := by simpa using h
    constructor
    · exact Or.inl
    · rintro (h | rfl)
      · exact h
      · exact this
  · simp

theorem mem_foldl_addSeen {txs s : List Bytes} {x : Bytes} : x ∈ txs.foldl addSeen s ↔ x ∈ s ∨ x ∈ txs := by
  induction txs generalizing s with
  | nil => simp
  | cons t txs ih =>
    simp only [List.foldl_cons, ih, mem_addSeen, List.mem_cons]
    constructor
    · rintro ((h | h) | h)
      · exact Or.inl h
      · exact Or.inr (Or.inl h)
      · exact Or.inr (Or.inr h)
    · rintro (h | h | h)
      · exact Or.inl (Or.inl h)
      · exact Or.inl (Or.inr h)
      · exact Or.inr h

/-! ## `reap` -/

/-- the transactions of a mempool response that are not yet marked -/
def newTxs (n : Node) (mempool : List Bytes) : List Bytes := mempool.filter (fun t => !n.seen.contains t)

theorem reap_cases (c : Cfg) (n : Node) (mempool : List Bytes) :
    reap c n mempool = (n, []) ∨
    (newTxs n mempool ≠ [] ∧ Queue.full c.qc n.q = false ∧
     reap c n mempool = ({ n with q := Queue.accept key n.q (newTxs n mempool),
                                  seen := (newTxs n mempool).foldl addSeen n.seen },
                         FW.qput (newTxs n mempool) :: (newTxs n mempool).map FW.seen)) := by
  unfold reap
  simp only
  split
  · exact Or.inl rfl
  · rename_i hne
    split
    · rename_i q' heq
      right
      rcases Queue.submit_cases key c.qc n.q c.qc.id (mempool.filter fun t => !n.seen.contains t) with
        ⟨o, h, ho⟩ | ⟨h, hf⟩
      · rw [h] at heq
        simp only [Prod.mk.injEq] at heq
        rcases ho with rfl | rfl | rfl <;> exact absurd heq.2 (by simp)
      · rw [h] at heq
        simp only [Prod.mk.injEq] at heq
        refine ⟨?_, hf, ?_⟩
        · intro h0; apply hne; unfold newTxs at h0; rw [h0]; rfl
        · rw [← heq.1]; rfl
    · exact Or.inl rfl

/-! ## `produce` -/

theorem publish_absent_none (c : Producer.Cfg) (n : Producer.Node) (ex : ExecResp)
    (hnone : n.store.getBlock (n.store.height + 1) = none) :
    (publish c n .absent ex).1 = n ∧ (publish c n .absent ex).2.1 = [] := by
  unfold publish
  split
  · exact ⟨rfl, rfl⟩
  · split
    · exact ⟨rfl, rfl⟩
    · simp [hnone, fresh]

/-- the batch and the queue write of an answer of the sequencing layer -/
def batchOf : Queue.Out → List Bytes
  | .batch b => b
  | _ => []

def delOf : Queue.Out → List FW
  | .batch b => [FW.qdel b]
  | _ => []

theorem produce_ask (c : Cfg) (n : Node) (ex : ExecResp) (clk : Clock) (h : asksSequencer c n = true) :
    produce c n ex clk =
      ({ n with prod := (publish c.p n.prod (.batch (batchOf (Queue.getNext key c.qc n.q c.qc.id).2)
                    (stamp c n clk) []) ex).1,
                q := (Queue.getNext key c.qc n.q c.qc.id).1, tick := n.tick + 1 },
       delOf (Queue.getNext key c.qc n.q c.qc.id).2 ++
         (publish c.p n.prod (.batch (batchOf (Queue.getNext key c.qc n.q c.qc.id).2)
                    (stamp c n clk) []) ex).2.1.map FW.st,
       (publish c.p n.prod (.batch (batchOf (Queue.getNext key c.qc n.q c.qc.id).2)
                    (stamp c n clk) []) ex).2.2) := by
  unfold produce
  simp only [h, ↓reduceIte]
  generalize Queue.getNext key c.qc n.q c.qc.id = r
  obtain ⟨q', out⟩ := r
  cases out <;> rfl

theorem produce_noask (c : Cfg) (n : Node) (ex : ExecResp) (clk : Clock) (h : asksSequencer c n = false) :
    produce c n ex clk =
      ({ n with prod := (publish c.p n.prod .absent ex).1, tick := n.tick + 1 },
       (publish c.p n.prod .absent ex).2.1.map FW.st, (publish c.p n.prod .absent ex).2.2) := by
  unfold produce
  simp only [h, Bool.false_eq_true, ↓reduceIte]

/-- the last state's time is bounded by the time bound of the stored blocks -/
theorem lastTime_le {c : Cfg} {P : Producer.Node} {t : Nat} (hi : Inv c.p P) (htb : TimeBound (bound c t) P.store) :
    P.lastState.lastTime ≤ bound c t := by
  by_cases hge : c.p.initialHeight ≤ P.store.height
  · obtain ⟨b, hb, ht, _⟩ := hi.tip hge
    rw [ht]; exact htb _ b hb
  · have := hi.low
    have := (hi.tipGen (by omega)).2
    unfold bound; omega

/-- a clock that did not step backwards stamps the answer not before the last block and not after the clock bound -/
theorem stamp_ok {c : Cfg} {n : Node} {clk : Clock} (hclk : clk ≠ .back) (hi : Inv c.p n.prod)
    (htb : TimeBound (bound c n.tick) n.prod.store) :
    n.prod.lastState.lastTime ≤ stamp c n clk ∧ stamp c n clk ≤ bound c (n.tick + 1) := by
  have h1 := lastTime_le (c := c) hi htb
  have h2 : bound c n.tick ≤ bound c (n.tick + 1) := by unfold bound; omega
  cases clk with
  | real => exact ⟨Nat.le_trans h1 h2, Nat.le_refl _⟩
  | same => exact ⟨Nat.le_refl _, Nat.le_trans h1 h2⟩
  | back => exact absurd rfl hclk

/-- **summary of one production step** from a node whose producer part satisfies the production invariant, is in
sync with its store, and holds no block stamped after the clock: the store writes `sws` (after at most one queue
delete), the producer afterwards, and the durable view at every crash point `j` of the store writes -/
theorem produce_cases {c : Cfg} {n : Node} (hsg : c.p.signerAddr = c.p.proposerAddr)
    (hl : Live c.p n.prod) (hs : Synced c.p n.prod) (hw : WmOK n.prod.store)
    (hfe : n.prod.store.state = none → blockTxs n.prod.store c.p.initialHeight = [])
    (htb : TimeBound (bound c n.tick) n.prod.store) (ex : ExecResp) (clk : Clock) (hclk : clk ≠ .back) :
    ∃ (P' : Producer.Node) (sws : List SW) (pre : List FW) (q' : Queue.St) (T : List Bytes),
      (produce c n ex clk).1 = { n with prod := P', q := q', tick := n.tick + 1 } ∧
      (produce c n ex clk).2.1 = pre ++ sws.map FW.st ∧
      P'.store = n.prod.store.applyAll sws ∧ Live c.p P' ∧ Synced c.p P' ∧ WmOK P'.store ∧
      (∀ j, DInv c.p (n.prod.store.applyAll (sws.take j))) ∧
      (∀ w ∈ sws, WTime (bound c (n.tick + 1)) w) ∧
      ((pre = [] ∧ q' = n.q ∧ T = []) ∨
       (∃ b rest, pre = [FW.qdel b] ∧ n.q.mem = b :: rest ∧ q' = Queue.pop key n.q b rest ∧ T = b ∧ 2 ≤ sws.length)) ∧
      (∀ j, j ≤ 1 → durAll c.p (n.prod.store.applyAll (sws.take j)) = durAll c.p n.prod.store) ∧
      (∀ j, 2 ≤ j → durAll c.p (n.prod.store.applyAll (sws.take j)) = durAll c.p n.prod.store ++ T) ∧
      (∀ j, (n.prod.store.applyAll (sws.take j)).state = none →
        blockTxs (n.prod.store.applyAll (sws.take j)) c.p.initialHeight = []) := by
  have hi := hl.toInv
  have hH : durH c.p n.prod.store = n.prod.store.height := node_durH hi hs
  have hab : blockTxs n.prod.store (n.prod.store.height + 2) = [] := by
    unfold blockTxs; rw [hi.above _ (by omega)]
  have hbb : bound c n.tick ≤ bound c (n.tick + 1) := by unfold bound; omega
  -- facts common to every answer
  have common : ∀ (resp : SeqResp),
      (publish c.p n.prod resp ex).1.store = n.prod.store.applyAll (publish c.p n.prod resp ex).2.1 ∧
      Live c.p (publish c.p n.prod resp ex).1 ∧ Synced c.p (publish c.p n.prod resp ex).1 ∧
      WmOK (publish c.p n.prod resp ex).1.store ∧
      (∀ j, DInv c.p (n.prod.store.applyAll ((publish c.p n.prod resp ex).2.1.take j))) := by
    intro resp
    obtain ⟨s1, s2, s3⟩ := publish_synced hl hs hw resp ex
    exact ⟨s3, publish_live hl resp ex, s1, s2, fun j => (publish_prefix hl hs hw resp ex j).2⟩
  -- a step that writes nothing
  have idle : ∀ (resp : SeqResp), (publish c.p n.prod resp ex).2.1 = [] →
      (∀ w ∈ (publish c.p n.prod resp ex).2.1, WTime (bound c (n.tick + 1)) w) ∧
      (∀ j, j ≤ 1 → durAll c.p (n.prod.store.applyAll ((publish c.p n.prod resp ex).2.1.take j)) = durAll c.p n.prod.store) ∧
      (∀ j, 2 ≤ j → durAll c.p (n.prod.store.applyAll ((publish c.p n.prod resp ex).2.1.take j)) = durAll c.p n.prod.store ++ []) ∧
      (∀ j, (n.prod.store.applyAll ((publish c.p n.prod resp ex).2.1.take j)).state = none →
        blockTxs (n.prod.store.applyAll ((publish c.p n.prod resp ex).2.1.take j)) c.p.initialHeight = []) := by
    intro resp h0
    rw [h0]
    refine ⟨by simp, fun j _ => by simp [Store.applyAll], fun j _ => by simp [Store.applyAll], fun j hn => ?_⟩
    simp only [List.take_nil, Store.applyAll, List.foldl_nil] at hn ⊢
    exact hfe hn
  -- a step that commits the block waiting at `height + 1`
  have pend : ∀ (resp : SeqResp) (pb : Block), n.prod.store.getBlock (n.prod.store.height + 1) = some pb →
      (∀ w ∈ (publish c.p n.prod resp ex).2.1, WTime (bound c (n.tick + 1)) w) ∧
      (∀ j, j ≤ 1 → durAll c.p (n.prod.store.applyAll ((publish c.p n.prod resp ex).2.1.take j)) = durAll c.p n.prod.store) ∧
      (∀ j, 2 ≤ j → durAll c.p (n.prod.store.applyAll ((publish c.p n.prod resp ex).2.1.take j)) = durAll c.p n.prod.store ++ []) ∧
      (∀ j, (n.prod.store.applyAll ((publish c.p n.prod resp ex).2.1.take j)).state = none →
        blockTxs (n.prod.store.applyAll ((publish c.p n.prod resp ex).2.1.take j)) c.p.initialHeight = []) := by
    intro resp pb hpb
    rcases (publish_tx hi hsg [] _ (Nat.le_refl _) ex |>.1) pb hpb resp with ⟨_, a2⟩ | ⟨_, fb, st, b1, b2, b3, b4, _⟩
    · exact idle resp a2
    · rw [b4]
      have hT : durPend c.p n.prod.store = fb.data.txs := by
        unfold durPend blockTxs; rw [hH, hpb, b1]
      refine ⟨?_, fun j _ => (commit3_cuts hH hT hab b3 j).1,
        fun j _ => by rw [List.append_nil]; exact (commit3_cuts hH hT hab b3 j).1, fun j hn => ?_⟩
      · intro w hw'
        simp only [commit3, List.mem_cons, List.mem_nil_iff, or_false] at hw'
        rcases hw' with rfl | rfl | rfl
        · show fb.sh.hdr.time ≤ _
          rw [b2]; exact Nat.le_trans (htb _ pb hpb) hbb
        · trivial
        · trivial
      · obtain ⟨h1, h2⟩ := (commit3_cuts hH hT hab b3 j).2 hn
        rw [h2]; exact hfe h1
  by_cases hask : asksSequencer c n = true
  · -- the sequencing layer is asked: nothing waits at `height + 1`
    have hask' := hask
    unfold asksSequencer at hask'
    simp only [Bool.and_eq_true, Bool.not_eq_true', Option.isNone_iff_eq_none] at hask'
    obtain ⟨⟨hnr, hprev⟩, hnone⟩ := hask'
    rw [produce_ask c n ex clk hask]
    obtain ⟨hτ, hτ2⟩ := stamp_ok hclk hi htb
    have hpendNil : durPend c.p n.prod.store = [] := by
      unfold durPend blockTxs; rw [hH, hnone]
    have fresh : ∀ T,
        (∀ w ∈ (publish c.p n.prod (.batch T (stamp c n clk) []) ex).2.1, WTime (bound c (n.tick + 1)) w) ∧
        2 ≤ (publish c.p n.prod (.batch T (stamp c n clk) []) ex).2.1.length ∧
        (∀ j, j ≤ 1 → durAll c.p (n.prod.store.applyAll ((publish c.p n.prod (.batch T (stamp c n clk) []) ex).2.1.take j)) = durAll c.p n.prod.store) ∧
        (∀ j, 2 ≤ j → durAll c.p (n.prod.store.applyAll ((publish c.p n.prod (.batch T (stamp c n clk) []) ex).2.1.take j)) = durAll c.p n.prod.store ++ T) ∧
        (∀ j, (n.prod.store.applyAll ((publish c.p n.prod (.batch T (stamp c n clk) []) ex).2.1.take j)).state = none →
          blockTxs (n.prod.store.applyAll ((publish c.p n.prod (.batch T (stamp c n clk) []) ex).2.1.take j)) c.p.initialHeight = []) := by
      intro T
      obtain ⟨v, eb, e1, e2, hsh, _⟩ := (publish_tx hi hsg T _ hτ ex).2 hnone hnr hprev
      -- with no state saved a block is stored at the initial height: impossible here
      have hstate : n.prod.store.state ≠ none := by
        intro hn
        rcases hs with ⟨h1, _⟩ | ⟨_, h2⟩
        · rw [hn] at h1; cases h1
        · have hh := hi.hs
          rw [h2] at hh
          simp only [genesisState] at hh
          have hpos := hi.ihPos
          obtain ⟨pb, hpb⟩ := hl.firstStored (by omega)
          have : n.prod.store.height + 1 = c.p.initialHeight := by omega
          rw [← this, hnone] at hpb; cases hpb
      have htail : ∀ tail, (tail = [] ∨ ∃ fb st, fb.data.txs = T ∧ st.lastHeight = n.prod.store.height + 1 ∧
            tail = commit3 n.prod.store.height fb st) →
          (∀ j, j ≤ 1 → durAll c.p (n.prod.store.applyAll (([SW.setMeta lastBatchDataKey v, SW.saveBlock (n.prod.store.height + 1) eb] ++ tail).take j)) = durAll c.p n.prod.store) ∧
          (∀ j, 2 ≤ j → durAll c.p (n.prod.store.applyAll (([SW.setMeta lastBatchDataKey v, SW.saveBlock (n.prod.store.height + 1) eb] ++ tail).take j)) = durAll c.p n.prod.store ++ T) ∧
          (∀ j, (n.prod.store.applyAll (([SW.setMeta lastBatchDataKey v, SW.saveBlock (n.prod.store.height + 1) eb] ++ tail).take j)).state = none →
            blockTxs (n.prod.store.applyAll (([SW.setMeta lastBatchDataKey v, SW.saveBlock (n.prod.store.height + 1) eb] ++ tail).take j)) c.p.initialHeight = []) := by
        intro tail ht
        refine ⟨fun j hj => (fresh_cuts hH hpendNil hab e1 tail ht j).1 hj,
          fun j hj => (fresh_cuts hH hpendNil hab e1 tail ht j).2.1 hj, fun j hn => ?_⟩
        exact absurd ((fresh_cuts hH hpendNil hab e1 tail ht j).2.2 hn) hstate
      have hts : stamp c n clk ≤ bound c (n.tick + 1) := hτ2
      rcases hsh with hsh | ⟨_, fb, st, f1, f2, f3, hsh⟩
      · rw [hsh]
        obtain ⟨t1, t2, t3⟩ := htail [] (Or.inl rfl)
        refine ⟨?_, by simp, by simpa using t1, by simpa using t2, by simpa using t3⟩
        intro w hw'
        simp only [List.mem_cons, List.mem_nil_iff, or_false] at hw'
        rcases hw' with rfl | rfl
        · trivial
        · show eb.sh.hdr.time ≤ _; rw [e2]; exact hts
      · rw [hsh]
        obtain ⟨t1, t2, t3⟩ := htail _ (Or.inr ⟨fb, st, f1, f3, rfl⟩)
        refine ⟨?_, by simp [commit3], t1, t2, t3⟩
        intro w hw'
        simp only [commit3, List.cons_append, List.nil_append, List.mem_cons, List.mem_nil_iff, or_false] at hw'
        rcases hw' with rfl | rfl | rfl | rfl | rfl
        · trivial
        · show eb.sh.hdr.time ≤ _; rw [e2]; exact hts
        · show fb.sh.hdr.time ≤ _; rw [f2]; exact hts
        · trivial
        · trivial
    rcases Queue.getNext_cases key c.qc n.q c.qc.id with ⟨o, hg, ho⟩ | ⟨b, rest, hg, hm⟩
    · -- nothing handed out: an empty block is built
      have hb0 : batchOf o = [] := by rcases ho with rfl | rfl <;> rfl
      have hd0 : delOf o = [] := by rcases ho with rfl | rfl <;> rfl
      rw [hg]
      simp only [hb0, hd0]
      obtain ⟨c1, c2, c3, c4, c5⟩ := common (.batch [] (stamp c n clk) [])
      obtain ⟨f1, _, f3, f4, f5⟩ := fresh []
      exact ⟨_, _, [], n.q, [], rfl, rfl, c1, c2, c3, c4, c5, f1, Or.inl ⟨rfl, rfl, rfl⟩, f3, f4, f5⟩
    · rw [hg]
      simp only [batchOf, delOf]
      obtain ⟨c1, c2, c3, c4, c5⟩ := common (.batch b (stamp c n clk) [])
      obtain ⟨f1, f2, f3, f4, f5⟩ := fresh b
      exact ⟨_, _, [FW.qdel b], _, b, rfl, rfl, c1, c2, c3, c4, c5, f1, Or.inr ⟨b, rest, rfl, hm, rfl, rfl, f2⟩, f3, f4, f5⟩
  · have hask' : asksSequencer c n = false := by simpa using hask
    rw [produce_noask c n ex clk hask']
    obtain ⟨c1, c2, c3, c4, c5⟩ := common .absent
    cases hpb : n.prod.store.getBlock (n.prod.store.height + 1) with
    | none =>
      obtain ⟨_, a2⟩ := publish_absent_none c.p n.prod ex hpb
      obtain ⟨f1, f3, f4, f5⟩ := idle .absent a2
      exact ⟨_, _, [], n.q, [], rfl, by simp, c1, c2, c3, c4, c5, f1, Or.inl ⟨rfl, rfl, rfl⟩, f3, f4, f5⟩
    | some pb =>
      obtain ⟨f1, f3, f4, f5⟩ := pend .absent pb hpb
      exact ⟨_, _, [], n.q, [], rfl, by simp, c1, c2, c3, c4, c5, f1, Or.inl ⟨rfl, rfl, rfl⟩, f3, f4, f5⟩

end Flow
