import Proofs.WireRaw

/-! # C12 helpers: typed messages — selectors on encoder output, well-formedness, round trips -/
namespace Wire

/-! ### selectors on the pieces the encoders emit -/

theorem fm_pickLen_optV (k k' v : Nat) : (optV k' v).filterMap (pickLen k) = [] := by
  unfold optV; split <;> simp [pickLen]

theorem fm_pickVarint_optB (k k' : Nat) (b : Bytes) : (optB k' b).filterMap (pickVarint k) = [] := by
  unfold optB; split <;> simp [pickVarint]

theorem fm_pickLen_optB (k k' : Nat) (b : Bytes) :
    (optB k' b).filterMap (pickLen k) = if k' = k then (if b = [] then [] else [b]) else [] := by
  unfold optB; split <;> split <;> simp_all [pickLen]

theorem fm_pickVarint_optV (k k' v : Nat) :
    (optV k' v).filterMap (pickVarint k) = if k' = k then (if v = 0 then [] else [v]) else [] := by
  unfold optV; split <;> split <;> simp_all [pickVarint]

theorem fm_pickLen_single (k k' : Nat) (b : Bytes) :
    [((k', WVal.len b) : Field)].filterMap (pickLen k) = if k' = k then [b] else [] := by
  split <;> simp_all [pickLen]

theorem fm_pickVarint_single (k k' : Nat) (b : Bytes) :
    [((k', WVal.len b) : Field)].filterMap (pickVarint k) = [] := by
  simp [pickVarint]

theorem getD_optB (b : Bytes) : ((if b = [] then [] else [b] : List Bytes).getLast?).getD [] = b := by
  split <;> simp_all

theorem getD_optV (v : Nat) : ((if v = 0 then [] else [v] : List Nat).getLast?).getD 0 = v := by
  split <;> simp_all

theorem fm_pickLen_txs (k : Nat) (txs : List Bytes) :
    (txs.map (fun t => ((2, WVal.len t) : Field))).filterMap (pickLen k) = if 2 = k then txs else [] := by
  induction txs with
  | nil => simp
  | cons t ts ih =>
    by_cases hk : 2 = k
    · subst hk; simp only [List.map_cons, List.filterMap_cons, pickLen, ih, ↓reduceIte]
    · simp only [List.map_cons, List.filterMap_cons, pickLen, ih, hk, ↓reduceIte]

/-! ### well-formedness of emitted fields -/

def AllWF (fs : List Field) : Prop := ∀ f ∈ fs, WF f

theorem allWF_nil : AllWF [] := by intro f hf; simp at hf
theorem allWF_append {a b : List Field} : AllWF (a ++ b) ↔ AllWF a ∧ AllWF b := by
  simp [AllWF, List.mem_append, or_imp, forall_and]

theorem allWF_optV {k v : Nat} (h1 : 1 ≤ k) (h2 : k ≤ maxFieldNum) (hv : v < 2 ^ 64) : AllWF (optV k v) := by
  unfold optV; split
  · exact allWF_nil
  · intro f hf; simp at hf; subst hf; exact ⟨h1, h2, hv⟩

theorem allWF_optB {k : Nat} {b : Bytes} (h1 : 1 ≤ k) (h2 : k ≤ maxFieldNum) (hv : b.length < 2 ^ 64) :
    AllWF (optB k b) := by
  unfold optB; split
  · exact allWF_nil
  · intro f hf; simp at hf; subst hf; exact ⟨h1, h2, hv⟩

theorem allWF_single {k : Nat} {b : Bytes} (h1 : 1 ≤ k) (h2 : k ≤ maxFieldNum) (hv : b.length < 2 ^ 64) :
    AllWF [(k, .len b)] := by
  intro f hf; simp at hf; subst hf; exact ⟨h1, h2, hv⟩

theorem allWF_txs {txs : List Bytes} (h : ∀ t ∈ txs, t.length < 2 ^ 64) :
    AllWF (txs.map (fun t => ((2, WVal.len t) : Field))) := by
  intro f hf
  simp only [List.mem_map] at hf
  obtain ⟨t, ht, rfl⟩ := hf
  exact ⟨by simp, by simp [maxFieldNum], h t ht⟩

/-! ### encoded sizes of the small pieces -/

theorem encFields_optV_length (k v : Nat) : (encFields (optV k v)).length ≤ 20 := by
  unfold optV; split
  · simp [encFields]
  · have := encVarint_length_le (k * 8); have := encVarint_length_le v
    simp [encFields, encField]; omega

theorem encFields_optB_length (k : Nat) (b : Bytes) : (encFields (optB k b)).length ≤ 20 + b.length := by
  unfold optB; split
  · simp [encFields]
  · have := encVarint_length_le (k * 8 + 2); have := encVarint_length_le b.length
    simp [encFields, encField]; omega

theorem encFields_single_length (k : Nat) (b : Bytes) :
    (encFields [(k, .len b)]).length ≤ 20 + b.length := by
  have := encVarint_length_le (k * 8 + 2); have := encVarint_length_le b.length
  simp [encFields, encField]; omega

/-! ## Version -/

def Version.WF (v : Version) : Prop := v.block < 2 ^ 64 ∧ v.app < 2 ^ 64
instance : DecidablePred Version.WF := fun v => by unfold Version.WF; infer_instance

theorem Version.fields_wf {v : Version} (h : v.WF) : AllWF v.fields := by
  unfold Version.fields
  exact allWF_append.2 ⟨allWF_optV (by decide) (by decide) h.1, allWF_optV (by decide) (by decide) h.2⟩

theorem Version.encode_length (v : Version) : v.encode.length ≤ 40 := by
  unfold Version.encode Version.fields
  rw [encFields_append]
  have := encFields_optV_length 1 v.block; have := encFields_optV_length 2 v.app
  simp; omega

theorem Version.ofFields_fields (v : Version) : Version.ofFields v.fields = v := by
  cases v
  simp [Version.ofFields, Version.fields, getVarint, List.filterMap_append, fm_pickVarint_optV, getD_optV]

theorem Version.decode_encode {v : Version} (h : v.WF) : Version.decode v.encode = some v := by
  unfold Version.decode Version.encode
  rw [decFields_encFields _ (Version.fields_wf h)]
  simp [Version.ofFields_fields]

/-! ## Metadata -/

def Metadata.WF (m : Metadata) : Prop :=
  (utf8 m.chainId).length < 2 ^ 64 ∧ m.height < 2 ^ 64 ∧ m.time < 2 ^ 64 ∧ m.lastDataHash.length < 2 ^ 64
instance : DecidablePred Metadata.WF := fun m => by unfold Metadata.WF; infer_instance

theorem Metadata.fields_wf {m : Metadata} (h : m.WF) : AllWF m.fields := by
  unfold Metadata.fields
  obtain ⟨h1, h2, h3, h4⟩ := h
  simp only [allWF_append]
  exact ⟨⟨⟨allWF_optB (by decide) (by decide) h1, allWF_optV (by decide) (by decide) h2⟩,
    allWF_optV (by decide) (by decide) h3⟩, allWF_optB (by decide) (by decide) h4⟩

theorem all_utf8_opt (s : String) :
    (if utf8 s = [] then [] else [utf8 s] : List Bytes).all (fun b => (ofUtf8? b).isSome) = true := by
  split <;> simp [ofUtf8?_utf8]

theorem Metadata.decode_encode {m : Metadata} (h : m.WF) : Metadata.decode m.encode = some m := by
  unfold Metadata.decode Metadata.encode
  rw [decFields_encFields _ (Metadata.fields_wf h)]
  cases m
  simp [Metadata.fields, getLen, getVarint, getRep, List.filterMap_append, fm_pickVarint_optV,
    fm_pickLen_optB, fm_pickLen_optV, fm_pickVarint_optB, getD_optV, getD_optB, ofUtf8?_utf8, all_utf8_opt]

/-! ## getMsg on a single well-formed occurrence -/

theorem getMsg_single {α : Type} (dec : Bytes → Option α) (p : Bytes) (a : α) (h : dec p = some a) :
    (let occ := [p]
     if occ.isEmpty then some none
     else if occ.all (fun p => (dec p).isSome) then (dec occ.flatten).map some else none) = some (some a) := by
  simp [h]

/-! ## Header -/

def Header.WF (h : Header) : Prop :=
  h.version.WF ∧ h.height < 2 ^ 64 ∧ h.time < 2 ^ 64 ∧
  h.lastHeaderHash.length < 2 ^ 64 ∧ h.lastCommitHash.length < 2 ^ 64 ∧ h.dataHash.length < 2 ^ 64 ∧
  h.consensusHash.length < 2 ^ 64 ∧ h.appHash.length < 2 ^ 64 ∧ h.lastResultsHash.length < 2 ^ 64 ∧
  h.proposerAddress.length < 2 ^ 64 ∧ h.validatorHash.length < 2 ^ 64 ∧ (utf8 h.chainId).length < 2 ^ 64
instance : DecidablePred Header.WF := fun h => by unfold Header.WF; infer_instance

theorem Header.fields_wf {h : Header} (hw : h.WF) : AllWF h.fields := by
  unfold Header.fields
  obtain ⟨h0, h2, h3, h4, h5, h6, h7, h8, h9, h10, h11, h12⟩ := hw
  have hv : h.version.encode.length < 2 ^ 64 := by have := Version.encode_length h.version; omega
  simp only [allWF_append]
  refine ⟨⟨⟨⟨⟨⟨⟨⟨⟨⟨⟨?_, ?_⟩, ?_⟩, ?_⟩, ?_⟩, ?_⟩, ?_⟩, ?_⟩, ?_⟩, ?_⟩, ?_⟩, ?_⟩
  · exact allWF_single (by decide) (by decide) hv
  · exact allWF_optV (by decide) (by decide) h2
  · exact allWF_optV (by decide) (by decide) h3
  · exact allWF_optB (by decide) (by decide) h4
  · exact allWF_optB (by decide) (by decide) h5
  · exact allWF_optB (by decide) (by decide) h6
  · exact allWF_optB (by decide) (by decide) h7
  · exact allWF_optB (by decide) (by decide) h8
  · exact allWF_optB (by decide) (by decide) h9
  · exact allWF_optB (by decide) (by decide) h10
  · exact allWF_optB (by decide) (by decide) h11
  · exact allWF_optB (by decide) (by decide) h12

/-- normalises a selector applied to an encoder's field list -/
macro "sel_simp" : tactic => `(tactic|
  simp only [getLen, getVarint, getRep, List.filterMap_append, fm_pickVarint_optV,
    fm_pickLen_optB, fm_pickLen_optV, fm_pickVarint_optB, fm_pickLen_single, fm_pickVarint_single,
    fm_pickLen_txs, Nat.reduceEqDiff, ↓reduceIte, List.append_nil, List.nil_append, getD_optV, getD_optB])

theorem Header.decode_encode {h : Header} (hw : h.WF) : Header.decode h.encode = some h := by
  unfold Header.decode Header.encode
  rw [decFields_encFields _ (Header.fields_wf hw)]
  have hv := Version.decode_encode hw.1
  unfold getMsg Header.fields
  sel_simp
  simp [hv, ofUtf8?_utf8, all_utf8_opt]

/-! ## Data -/

def Data.WF (d : Data) : Prop :=
  (∀ m ∈ d.metadata, m.WF ∧ m.encode.length < 2 ^ 64) ∧ ∀ t ∈ d.txs, t.length < 2 ^ 64
instance : DecidablePred Data.WF := fun d => by unfold Data.WF; infer_instance

theorem Data.fields_wf {d : Data} (hw : d.WF) : AllWF d.fields := by
  unfold Data.fields
  refine allWF_append.2 ⟨?_, allWF_txs hw.2⟩
  cases hm : d.metadata with
  | none => exact allWF_nil
  | some m => exact allWF_single (by decide) (by decide) (hw.1 m (by simp [hm])).2

theorem Data.decode_encode {d : Data} (hw : d.WF) : Data.decode d.encode = some d := by
  unfold Data.decode Data.encode
  rw [decFields_encFields _ (Data.fields_wf hw)]
  obtain ⟨md, txs⟩ := d
  unfold getMsg Data.fields
  cases md with
  | none => sel_simp; simp
  | some m =>
    have hm := Metadata.decode_encode (hw.1 m (by simp)).1
    sel_simp
    simp [hm]

/-! ## Signer, SignedHeader, SignedData -/

def Signer.WF (s : Signer) : Prop := s.address.length < 2 ^ 64 ∧ s.pubKey.length < 2 ^ 64
instance : DecidablePred Signer.WF := fun s => by unfold Signer.WF; infer_instance

theorem Signer.fields_wf {s : Signer} (hw : s.WF) : AllWF s.fields := by
  unfold Signer.fields
  split
  · exact allWF_nil
  · exact allWF_append.2 ⟨allWF_optB (by decide) (by decide) hw.1, allWF_optB (by decide) (by decide) hw.2⟩

theorem Signer.decodeRaw_encode {s : Signer} (hw : s.WF) : Signer.decodeRaw s.encode = some s.canon := by
  unfold Signer.decodeRaw Signer.encode
  rw [decFields_encFields _ (Signer.fields_wf hw)]
  obtain ⟨a, k⟩ := s
  unfold Signer.fields Signer.canon
  by_cases hk : k = []
  · subst hk; simp [getLen]
  · simp only [hk, ↓reduceIte, Option.map_some]
    sel_simp

theorem Signer.canon_canon (s : Signer) : s.canon.canon = s.canon := by
  unfold Signer.canon; split <;> simp_all

theorem Signer.canon_pubKey (s : Signer) : s.canon.pubKey = s.pubKey := by
  unfold Signer.canon; split <;> simp_all

def SignedHeader.WF (sh : SignedHeader) : Prop :=
  sh.header.WF ∧ sh.header.encode.length < 2 ^ 64 ∧ sh.signature.length < 2 ^ 64 ∧
  sh.signer.WF ∧ sh.signer.encode.length < 2 ^ 64
instance : DecidablePred SignedHeader.WF := fun s => by unfold SignedHeader.WF; infer_instance

/-- what `FromProto` keeps of a signed header: the signer without a key is dropped -/
def SignedHeader.canon' (sh : SignedHeader) : SignedHeader := { sh with signer := sh.signer.canon }

theorem SignedHeader.fields_wf {sh : SignedHeader} (hw : sh.WF) : AllWF sh.fields := by
  unfold SignedHeader.fields
  obtain ⟨_, h2, h3, _, h5⟩ := hw
  simp only [allWF_append]
  exact ⟨⟨allWF_single (by decide) (by decide) h2, allWF_optB (by decide) (by decide) h3⟩,
    allWF_single (by decide) (by decide) h5⟩

theorem SignedHeader.decode_encode (keyOk : Bytes → Bool) {sh : SignedHeader} (hw : sh.WF)
    (hk : sh.signer.pubKey ≠ [] → keyOk sh.signer.pubKey = true) :
    SignedHeader.decode keyOk sh.encode = some sh.canon' := by
  unfold SignedHeader.decode SignedHeader.encode
  rw [decFields_encFields _ (SignedHeader.fields_wf hw)]
  have hh := Header.decode_encode hw.1
  have hs := Signer.decodeRaw_encode hw.2.2.2.1
  unfold getMsg SignedHeader.fields
  sel_simp
  simp only [List.isEmpty_cons, Bool.false_eq_true, ↓reduceIte, List.all_cons, hh, hs, Option.isSome_some,
    List.all_nil, Bool.and_self, List.flatten_cons, List.flatten_nil, List.append_nil, Option.map_some,
    Option.getD_some, Signer.canon_pubKey, Signer.canon_canon]
  split
  · rename_i h; exact absurd (hk h.1) (by simpa using h.2)
  · rfl

def SignedData.WF (sd : SignedData) : Prop :=
  sd.data.WF ∧ sd.data.encode.length < 2 ^ 64 ∧ sd.signature.length < 2 ^ 64 ∧
  sd.signer.WF ∧ sd.signer.encode.length < 2 ^ 64
instance : DecidablePred SignedData.WF := fun s => by unfold SignedData.WF; infer_instance

def SignedData.canon' (sd : SignedData) : SignedData := { sd with signer := sd.signer.canon }

theorem SignedData.fields_wf {sd : SignedData} (hw : sd.WF) : AllWF sd.fields := by
  unfold SignedData.fields
  obtain ⟨_, h2, h3, _, h5⟩ := hw
  simp only [allWF_append]
  exact ⟨⟨allWF_single (by decide) (by decide) h2, allWF_optB (by decide) (by decide) h3⟩,
    allWF_single (by decide) (by decide) h5⟩

theorem SignedData.decode_encode (keyOk : Bytes → Bool) {sd : SignedData} (hw : sd.WF)
    (hk : sd.signer.pubKey ≠ [] → keyOk sd.signer.pubKey = true) :
    SignedData.decode keyOk sd.encode = some sd.canon' := by
  unfold SignedData.decode SignedData.encode
  rw [decFields_encFields _ (SignedData.fields_wf hw)]
  have hh := Data.decode_encode hw.1
  have hs := Signer.decodeRaw_encode hw.2.2.2.1
  unfold getMsg SignedData.fields
  sel_simp
  simp only [List.isEmpty_cons, Bool.false_eq_true, ↓reduceIte, List.all_cons, hh, hs, Option.isSome_some,
    List.all_nil, Bool.and_self, List.flatten_cons, List.flatten_nil, List.append_nil, Option.map_some,
    Option.getD_some, Signer.canon_pubKey, Signer.canon_canon]
  split
  · rename_i h; exact absurd (hk h.1) (by simpa using h.2)
  · rfl

/-! ### unconditional size bounds: the nested-length clauses of `SignedHeader.WF` / `Data.WF` /
`SignedData.WF` follow from the sizes of the byte-string fields -/

def Header.payload (h : Header) : Nat :=
  h.lastHeaderHash.length + h.lastCommitHash.length + h.dataHash.length + h.consensusHash.length +
  h.appHash.length + h.lastResultsHash.length + h.proposerAddress.length + h.validatorHash.length +
  (utf8 h.chainId).length

theorem Header.encode_length_le (h : Header) : h.encode.length ≤ 300 + h.payload := by
  unfold Header.encode Header.fields Header.payload
  simp only [encFields_append, List.length_append]
  have a1 := encFields_single_length 1 h.version.encode
  have av := Version.encode_length h.version
  have a2 := encFields_optV_length 2 h.height
  have a3 := encFields_optV_length 3 h.time
  have a4 := encFields_optB_length 4 h.lastHeaderHash
  have a5 := encFields_optB_length 5 h.lastCommitHash
  have a6 := encFields_optB_length 6 h.dataHash
  have a7 := encFields_optB_length 7 h.consensusHash
  have a8 := encFields_optB_length 8 h.appHash
  have a9 := encFields_optB_length 9 h.lastResultsHash
  have a10 := encFields_optB_length 10 h.proposerAddress
  have a11 := encFields_optB_length 11 h.validatorHash
  have a12 := encFields_optB_length 12 (utf8 h.chainId)
  omega

theorem Metadata.encode_length_le (m : Metadata) :
    m.encode.length ≤ 80 + (utf8 m.chainId).length + m.lastDataHash.length := by
  unfold Metadata.encode Metadata.fields
  simp only [encFields_append, List.length_append]
  have a1 := encFields_optB_length 1 (utf8 m.chainId)
  have a2 := encFields_optV_length 2 m.height
  have a3 := encFields_optV_length 3 m.time
  have a4 := encFields_optB_length 4 m.lastDataHash
  omega

theorem Signer.encode_length_le (s : Signer) : s.encode.length ≤ 40 + s.address.length + s.pubKey.length := by
  unfold Signer.encode Signer.fields
  split
  · simp [encFields]
  · simp only [encFields_append, List.length_append]
    have a1 := encFields_optB_length 1 s.address
    have a2 := encFields_optB_length 2 s.pubKey
    omega

/-- a signed header whose scalar fields are `uint64`s and whose byte strings together are shorter
than `2^63` (they live in one Go process) is well formed -/
theorem SignedHeader.wf_of_sizes {sh : SignedHeader} (hv : sh.header.version.WF)
    (hh : sh.header.height < 2 ^ 64) (ht : sh.header.time < 2 ^ 64)
    (hs : sh.header.payload + sh.signature.length + sh.signer.address.length + sh.signer.pubKey.length < 2 ^ 63) :
    sh.WF := by
  have a := Header.encode_length_le sh.header
  have b := Signer.encode_length_le sh.signer
  unfold Header.payload at hs a
  refine ⟨⟨hv, hh, ht, ?_, ?_, ?_, ?_, ?_, ?_, ?_, ?_, ?_⟩, ?_, ?_, ⟨?_, ?_⟩, ?_⟩ <;> omega

end Wire
