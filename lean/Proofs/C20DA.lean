import Model.Based
import Proofs.C20
import Proofs.C20Hist

/-! The scripted DA layer of the correspondence stream (`Based.DA`, what `drv_C20` executes and
the harness' `daD` implements) satisfies the hypotheses of the history theorems: its answers are
consistent with its content, also when seen at an earlier moment (lower head, any retrieval faults),
and its ids carry their height. Helper file of `Spec.C20`. -/
namespace Based

theorem le_length (n x : Nat) : (Bytes.le n x).length = n := by
  induction n generalizing x with
  | zero => rfl
  | succ n ih => simp [Bytes.le, ih]

theorem unLe_le_le (n x : Nat) : Bytes.unLe (Bytes.le n x) ≤ x := by
  induction n generalizing x with
  | zero => simp [Bytes.le, Bytes.unLe]
  | succ n ih =>
    have := ih (x / 256)
    have h2 : ((x % 256).toUInt8).toNat = x % 256 := by
      simp [Nat.toUInt8]
    simp only [Bytes.le, Bytes.unLe, h2]
    omega

theorem splitHeight_mkId (h i : Nat) : ∃ e, splitHeight (mkId h i) = some e ∧ e ≤ h := by
  refine ⟨Bytes.unLe (Bytes.le 8 h), ?_, unLe_le_le 8 h⟩
  unfold splitHeight mkId
  have : ¬ (Bytes.le 8 h ++ Bytes.le 8 (i + 1)).length ≤ 8 := by
    simp [le_length]
  rw [if_neg this, List.take_left' (le_length 8 h)]

theorem mem_mkItems (h : Nat) (txs : List Bytes) (i : Nat) (it : Item) (hm : it ∈ mkItems h i txs) :
    ∃ j, it.id = mkId h j := by
  induction txs generalizing i with
  | nil => simp [mkItems] at hm
  | cons tx r ih =>
    simp only [mkItems, List.mem_cons] at hm
    rcases hm with rfl | hm
    · exact ⟨i, rfl⟩
    · exact ih _ hm

/-- the content of the scripted DA: what it holds below its head -/
def DA.content (d : DA) : Content := fun h => if h < d.head then mkItems h 0 (d.txsAt h) else []

/-- `d` is `d'` seen at an earlier moment: a lower head, the same (immutable) content below it;
the retrieval faults of the moment are arbitrary -/
def DA.sees (d d' : DA) : Prop := d.head ≤ d'.head ∧ ∀ h, h < d.head → d'.txsAt h = d.txsAt h

theorem DA.sees_refl (d : DA) : d.sees d := ⟨Nat.le_refl _, fun _ _ => rfl⟩

theorem DA.idsNotAhead (d : DA) : IdsNotAhead d.content := by
  intro h it hit
  unfold DA.content at hit
  split at hit
  · obtain ⟨j, hj⟩ := mem_mkItems _ _ _ _ hit
    rw [hj]; exact splitHeight_mkId h j
  · simp at hit

theorem DA.answers (d d' : DA) (hs : d.sees d') : Answers d'.content d.fetch := by
  intro h
  unfold DA.fetch
  by_cases h1 : h ∈ d.errIds
  · simp [h1]
  · by_cases h2 : h ≥ d.head
    · simp [h1, h2]
    · have hlt : h < d.head := by omega
      have hc : d'.content h = mkItems h 0 (d.txsAt h) := by
        unfold DA.content
        rw [if_pos (by have := hs.1; omega), hs.2 h hlt]
      cases he : d.txsAt h with
      | nil => simp [h1, h2, he, hc, mkItems]
      | cons t r =>
        rw [he] at hc
        by_cases h3 : h ∈ d.errGet <;> simp [h1, h2, h3, hc]

end Based
