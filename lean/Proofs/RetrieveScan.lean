import Model.Retrieve

/-!
# Helper lemmas for C09 (1)–(3): `chunks`, `processNext`, `scan`

Everything here is about the definitions of `Model/Retrieve.lean` that the driver `drv_C09` executes.
-/

namespace Retrieve
open Wire Chain

/-! ## `chunks` (`types.RetrieveWithHelpers`: ids fetched in batches of 100) -/

theorem chunks_flatten {α : Type} (size : Nat) (hs : 0 < size) :
    ∀ (fuel : Nat) (l : List α), l.length ≤ fuel → (chunks size fuel l).flatten = l := by
  intro fuel
  induction fuel with
  | zero =>
    intro l hl
    have : l = [] := List.eq_nil_of_length_eq_zero (by omega)
    subst this; rfl
  | succ f ih =>
    intro l hl
    unfold chunks
    split
    · rename_i he
      have : l = [] := by simpa using he
      subst this; rfl
    · rename_i he
      have hne : l ≠ [] := by simpa using he
      have hpos : 0 < l.length := List.length_pos_iff.mpr hne
      rw [List.flatten_cons, ih (l.drop size) (by rw [List.length_drop]; omega), List.take_append_drop]

theorem chunks_length_le {α : Type} (size : Nat) :
    ∀ (fuel : Nat) (l : List α), ∀ c ∈ chunks size fuel l, c.length ≤ size := by
  intro fuel
  induction fuel with
  | zero => intro l c hc; simp [chunks] at hc
  | succ f ih =>
    intro l c hc
    unfold chunks at hc
    split at hc
    · simp at hc
    · rcases List.mem_cons.mp hc with h | h
      · subst h; rw [List.length_take]; omega
      · exact ih _ _ h

theorem chunks_ne_nil {α : Type} (size : Nat) (hs : 0 < size) :
    ∀ (fuel : Nat) (l : List α), ∀ c ∈ chunks size fuel l, c ≠ [] := by
  intro fuel
  induction fuel with
  | zero => intro l c hc; simp [chunks] at hc
  | succ f ih =>
    intro l c hc
    unfold chunks at hc
    split at hc
    · simp at hc
    · rename_i he
      rcases List.mem_cons.mp hc with h | h
      · subst h
        have hne : l ≠ [] := by simpa using he
        have hpos : 0 < l.length := List.length_pos_iff.mpr hne
        intro h0
        have := congrArg List.length h0
        rw [List.length_take, List.length_nil] at this
        omega
      · exact ih _ _ h

/-- every chunk except possibly the last is full -/
theorem chunks_full_but_last {α : Type} (size : Nat) :
    ∀ (fuel : Nat) (l : List α) (i : Nat) (h : i + 1 < (chunks size fuel l).length),
      ((chunks size fuel l)[i]'(by omega)).length = size := by
  intro fuel
  induction fuel with
  | zero => intro l i h; simp [chunks] at h
  | succ f ih =>
    intro l i h
    have key : ∀ (cs : List (List α)) (hc : cs = chunks size (f + 1) l) (hi : i + 1 < cs.length),
        (cs[i]'(by omega)).length = size := by
      intro cs hc hi
      unfold chunks at hc
      split at hc
      · subst hc; simp at hi
      · subst hc
        cases i with
        | zero =>
          simp only [List.getElem_cons_zero, List.length_take]
          -- a second chunk exists, so `l.drop size` is not empty
          have h2 : 0 < (chunks size f (l.drop size)).length := by simpa using hi
          cases f with
          | zero => simp [chunks] at h2
          | succ f' =>
            unfold chunks at h2
            split at h2
            · simp at h2
            · rename_i hd
              have : l.drop size ≠ [] := by simpa using hd
              have : 0 < (l.drop size).length := List.length_pos_iff.mpr this
              rw [List.length_drop] at this
              omega
        | succ j =>
          simp only [List.getElem_cons_succ]
          exact ih _ j (by simpa using hi)
    exact key _ rfl h

/-! ## `processNext` (`processNextDAHeaderAndData`) -/

/-- a failed attempt that is retried at the same height: error on listing, or error on fetching a chunk that
exists -/
def Fetch.isRetry (len : Nat) : Fetch → Bool
  | .errIds => true
  | .errGet c => decide (c * 100 < len)
  | _ => false

/-- an attempt after which the height may be passed: fetched, confirmed empty, or a scripted chunk error that
never fires because the chunk does not exist -/
def Fetch.isPass (len : Nat) : Fetch → Bool
  | .ok => true
  | .notFound => true
  | .errGet c => !decide (c * 100 < len)
  | _ => false

/-- the outcome attempt `j` (0-based) sees: the scripted one; once the script is exhausted the DA layer's own
answer (`.ok`) -/
def outcomeAt (outs : List Fetch) (j : Nat) : Fetch := outs.getD j .ok

theorem outcomeAt_zero (outs : List Fetch) : outcomeAt outs 0 = outs.headD .ok := by
  cases outs <;> rfl

theorem outcomeAt_succ (outs : List Fetch) (j : Nat) : outcomeAt outs (j + 1) = outcomeAt outs.tail j := by
  cases outs <;> simp [outcomeAt]

/-- what a decisive (non-retried) outcome does -/
def decisive (p : Bytes) (n : RNode) (blobs : List (Bytes × Oracle)) (f : Fetch) (used : Nat) :
    RNode × List Event × Bool × Nat :=
  match f with
  | .future => (n, [], false, used)
  | .notFound => (n, [], true, used)
  | _ => ((handleBlobs p n n.daHeight blobs []).1, (handleBlobs p n n.daHeight blobs []).2, true, used)

theorem processNext_succ (p : Bytes) (n : RNode) (blobs : List (Bytes × Oracle)) (fuel : Nat)
    (outs : List Fetch) (used : Nat) :
    processNext p n blobs (fuel + 1) outs used =
      if (outcomeAt outs 0).isRetry blobs.length then processNext p n blobs fuel outs.tail (used + 1)
      else decisive p n blobs (outcomeAt outs 0) (used + 1) := by
  rw [outcomeAt_zero]
  have hempty : blobs.isEmpty = true → handleBlobs p n n.daHeight blobs [] = (n, []) := by
    intro h
    have : blobs = [] := by simpa using h
    subst this; rfl
  rw [processNext]
  cases hh : outs.headD .ok with
  | ok =>
    simp only [Fetch.isRetry, decisive]
    split
    · rename_i he; rw [hempty he]; simp
    · simp
  | notFound => simp [Fetch.isRetry, decisive]
  | future => simp [Fetch.isRetry, decisive]
  | errIds => simp [Fetch.isRetry]
  | errGet c =>
    simp only [Fetch.isRetry, decisive, decide_eq_true_eq]
    split
    · simp
    · split
      · rename_i he; rw [hempty he]
      · simp

/-- master lemma: the first non-retried outcome within the 10 attempts decides -/
theorem processNext_decisive (p : Bytes) (n : RNode) (blobs : List (Bytes × Oracle)) :
    ∀ (fuel : Nat) (outs : List Fetch) (used i : Nat), i < fuel →
      (∀ j, j < i → (outcomeAt outs j).isRetry blobs.length = true) →
      (outcomeAt outs i).isRetry blobs.length = false →
      processNext p n blobs fuel outs used = decisive p n blobs (outcomeAt outs i) (used + i + 1) := by
  intro fuel
  induction fuel with
  | zero => intro outs used i hi; omega
  | succ f ih =>
    intro outs used i hi hret hdec
    rw [processNext_succ]
    cases i with
    | zero => simp [hdec]
    | succ i' =>
      rw [if_pos (hret 0 (by omega))]
      rw [ih outs.tail (used + 1) i' (by omega)
        (fun j hj => by rw [← outcomeAt_succ]; exact hret (j + 1) (by omega))
        (by rw [← outcomeAt_succ]; exact hdec)]
      rw [← outcomeAt_succ]
      congr 1
      omega

/-- all attempts failed: the height is not passed, the node is unchanged, nothing is emitted -/
theorem processNext_all_retry (p : Bytes) (n : RNode) (blobs : List (Bytes × Oracle)) :
    ∀ (fuel : Nat) (outs : List Fetch) (used : Nat),
      (∀ j, j < fuel → (outcomeAt outs j).isRetry blobs.length = true) →
      processNext p n blobs fuel outs used = (n, [], false, used + fuel) := by
  intro fuel
  induction fuel with
  | zero => intro outs used _; rfl
  | succ f ih =>
    intro outs used h
    rw [processNext_succ, if_pos (h 0 (by omega)),
      ih outs.tail (used + 1) (fun j hj => by rw [← outcomeAt_succ]; exact h (j + 1) (by omega))]
    congr 3
    omega

/-- either every attempt is retried, or there is a first decisive attempt -/
theorem retry_or_decisive (len : Nat) (outs : List Fetch) :
    ∀ fuel : Nat, (∀ j, j < fuel → (outcomeAt outs j).isRetry len = true) ∨
      ∃ i, i < fuel ∧ (∀ j, j < i → (outcomeAt outs j).isRetry len = true) ∧
        (outcomeAt outs i).isRetry len = false := by
  intro fuel
  induction fuel with
  | zero => left; intro j hj; omega
  | succ f ih =>
    rcases ih with h | ⟨i, hi, h1, h2⟩
    · cases hf : (outcomeAt outs f).isRetry len with
      | true =>
        left
        intro j hj
        rcases Nat.lt_succ_iff_lt_or_eq.mp hj with h' | h'
        · exact h j h'
        · subst h'; exact hf
      | false => right; exact ⟨f, by omega, h, hf⟩
    · right; exact ⟨i, by omega, h1, h2⟩

theorem isPass_of_not_retry_not_future {len : Nat} {f : Fetch} (h1 : f.isRetry len = false) (h2 : f ≠ .future) :
    f.isPass len = true := by
  cases f <;> simp_all [Fetch.isRetry, Fetch.isPass]

/-! ## `scan` (`RetrieveLoop`) -/

theorem handleBlobs_daHeight (p : Bytes) (n : RNode) (da : Nat) (bs : List (Bytes × Oracle)) (evs : List Event) :
    (handleBlobs p n da bs evs).1.daHeight = n.daHeight := by
  induction bs generalizing n evs with
  | nil => rfl
  | cons b rest ih =>
    obtain ⟨b, o⟩ := b
    unfold handleBlobs
    split <;> rw [ih]

theorem decisive_daHeight (p : Bytes) (n : RNode) (blobs : List (Bytes × Oracle)) (f : Fetch) (used : Nat) :
    (decisive p n blobs f used).1.daHeight = n.daHeight := by
  cases f <;> simp [decisive, handleBlobs_daHeight]

theorem processNext_daHeight (p : Bytes) (n : RNode) (bs : List (Bytes × Oracle)) :
    ∀ (fuel : Nat) (outs : List Fetch) (used : Nat),
      (processNext p n bs fuel outs used).1.daHeight = n.daHeight := by
  intro fuel
  induction fuel with
  | zero => intro _ _; rfl
  | succ f ih =>
    intro outs used
    rw [processNext_succ]
    split
    · exact ih _ _
    · exact decisive_daHeight _ _ _ _ _

/-- the shape of a scan trace starting at `start` whose cursor ends at `final` -/
structure TraceOK (start final : Nat) (tr : List (Nat × Nat × Bool)) : Prop where
  /-- heights are `start, start+1, …` — none skipped, none repeated, increasing -/
  consecutive : ∀ (i : Nat) (h : i < tr.length), (tr[i]).1 = start + i
  /-- every entry except possibly the last was passed -/
  passed_but_last : ∀ (i : Nat) (h : i + 1 < tr.length), (tr[i]'(by omega)).2.2 = true
  /-- the cursor: one past the last examined height if it was passed, else that height itself (retried next
  time); unchanged if nothing was examined -/
  cursor : final = match tr.getLast? with
    | none => start
    | some e => if e.2.2 then e.1 + 1 else e.1

theorem scan_trace_spec (p : Bytes) :
    ∀ (fuel : Nat) (n : RNode) (v : DAView) (evs : List Event) (tr : List (Nat × Nat × Bool)),
      ∃ new, (scan p fuel n v evs tr).2.2.2 = tr ++ new ∧ new.length ≤ fuel ∧
        TraceOK n.daHeight (scan p fuel n v evs tr).1.daHeight new := by
  intro fuel
  induction fuel with
  | zero =>
    intro n v evs tr
    exact ⟨[], by simp [scan], by simp, ⟨by intro i h; simp at h, by intro i h; simp at h, by simp [scan]⟩⟩
  | succ f ih =>
    intro n v evs tr
    rw [scan]
    have hd := processNext_daHeight p n (v.blobsAt n.daHeight) dAFetcherRetries (v.effective n.daHeight) 0
    generalize processNext p n (v.blobsAt n.daHeight) dAFetcherRetries (v.effective n.daHeight) 0 = r at hd
    simp only
    split
    · rename_i hv
      obtain ⟨new, h1, h2, h3⟩ := ih { r.1 with daHeight := n.daHeight + 1 }
        (v.setScript n.daHeight ((v.scriptAt n.daHeight).drop r.2.2.2)) (evs ++ r.2.1)
        (tr ++ [(n.daHeight, r.2.2.2, r.2.2.1)])
      refine ⟨(n.daHeight, r.2.2.2, r.2.2.1) :: new, ?_, by simp; omega, ?_⟩
      · rw [h1]; simp
      · obtain ⟨c1, c2, c3⟩ := h3
        simp only at c1 c2 c3
        refine ⟨?_, ?_, ?_⟩
        · intro i h
          cases i with
          | zero => simp
          | succ j =>
            simp only [List.getElem_cons_succ]
            rw [c1 j (by simpa using h)]; omega
        · intro i h
          cases i with
          | zero => simpa using hv
          | succ j =>
            simp only [List.getElem_cons_succ]
            exact c2 j (by simpa using h)
        · rw [c3]
          cases new with
          | nil => simp [hv]
          | cons a l =>
            rw [List.getLast?_cons_cons]
            cases hgl : (a :: l).getLast? with
            | none => simp at hgl
            | some e => rfl
    · rename_i hv
      refine ⟨[(n.daHeight, r.2.2.2, r.2.2.1)], rfl, by simp, ⟨?_, ?_, ?_⟩⟩
      · intro i h
        have : i = 0 := by simpa using h
        subst this; simp
      · intro i h; simp at h
      · simp [hv, hd]

theorem scan_trace_acc (p : Bytes) :
    ∀ (fuel : Nat) (n : RNode) (v : DAView) (evs : List Event) (tr : List (Nat × Nat × Bool)),
      (scan p fuel n v evs tr).2.2.2 = tr ++ (scan p fuel n v [] []).2.2.2 ∧
      (scan p fuel n v evs tr).2.2.1 = evs ++ (scan p fuel n v [] []).2.2.1 ∧
      (scan p fuel n v evs tr).1 = (scan p fuel n v [] []).1 ∧
      (scan p fuel n v evs tr).2.1 = (scan p fuel n v [] []).2.1 := by
  intro fuel
  induction fuel with
  | zero => intro n v evs tr; simp [scan]
  | succ f ih =>
    intro n v evs tr
    rw [scan, scan]
    generalize processNext p n (v.blobsAt n.daHeight) dAFetcherRetries (v.effective n.daHeight) 0 = r
    simp only
    split
    · obtain ⟨a1, a2, a3, a4⟩ := ih { r.1 with daHeight := n.daHeight + 1 }
        (v.setScript n.daHeight ((v.scriptAt n.daHeight).drop r.2.2.2)) (evs ++ r.2.1)
        (tr ++ [(n.daHeight, r.2.2.2, r.2.2.1)])
      obtain ⟨b1, b2, b3, b4⟩ := ih { r.1 with daHeight := n.daHeight + 1 }
        (v.setScript n.daHeight ((v.scriptAt n.daHeight).drop r.2.2.2)) ([] ++ r.2.1)
        ([] ++ [(n.daHeight, r.2.2.2, r.2.2.1)])
      rw [a1, a2, a3, a4, b1, b2, b3, b4]
      simp
    · simp

end Retrieve
