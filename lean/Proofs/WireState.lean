import Model.WireState
import Proofs.WireCanon

/-! # C12 helpers: `Timestamp`, `time.Time`, `State`; Go strings that are not UTF-8; nil vs empty -/
namespace Wire

/-! ### two's complement -/

theorem ofI64_lt (z : Int) : ofI64 z < 2 ^ 64 := by
  unfold ofI64 two64; omega

theorem toI64_ofI64 {z : Int} (h1 : -two63 ≤ z) (h2 : z < two63) : toI64 (ofI64 z) = z := by
  unfold toI64 ofI64 two64 two63 at *; split <;> omega

theorem toI32_ofI64 {z : Int} (h1 : -two31 ≤ z) (h2 : z < two31) : toI32 (ofI64 z) = z := by
  unfold toI32 ofI64 two64 two32 two31 at *; split <;> omega

theorem toI64_range (n : Nat) : -two63 ≤ toI64 n ∧ toI64 n < two63 := by
  unfold toI64 two64 two63; split <;> omega

theorem toI32_range (n : Nat) : -two31 ≤ toI32 n ∧ toI32 n < two31 := by
  unfold toI32 two32 two31; split <;> omega

theorem wrapI64_range (z : Int) : -two63 ≤ wrapI64 z ∧ wrapI64 z < two63 := toI64_range _

theorem wrapI64_id {z : Int} (h1 : -two63 ≤ z) (h2 : z < two63) : wrapI64 z = z := toI64_ofI64 h1 h2

/-! ### Timestamp -/

/-- `seconds` is an `int64`, `nanos` an `int32` -/
def Timestamp.WF (t : Timestamp) : Prop :=
  -two63 ≤ t.seconds ∧ t.seconds < two63 ∧ -two31 ≤ t.nanos ∧ t.nanos < two31
instance : DecidablePred Timestamp.WF := fun t => by unfold Timestamp.WF; infer_instance

theorem Timestamp.wf_mk {s n : Int} (h1 : -two63 ≤ s) (h2 : s < two63) (h3 : -two31 ≤ n) (h4 : n < two31) :
    ({ seconds := s, nanos := n } : Timestamp).WF := ⟨h1, h2, h3, h4⟩

theorem Timestamp.fields_wf (t : Timestamp) : AllWF t.fields := by
  unfold Timestamp.fields
  exact allWF_append.2 ⟨allWF_optV (by decide) (by decide) (ofI64_lt _), allWF_optV (by decide) (by decide) (ofI64_lt _)⟩

theorem Timestamp.encode_length (t : Timestamp) : t.encode.length ≤ 40 := by
  unfold Timestamp.encode Timestamp.fields
  rw [encFields_append]
  have := encFields_optV_length 1 (ofI64 t.seconds); have := encFields_optV_length 2 (ofI64 t.nanos)
  simp; omega

theorem Timestamp.ofFields_fields {t : Timestamp} (h : t.WF) : Timestamp.ofFields t.fields = t := by
  obtain ⟨s, n⟩ := t
  obtain ⟨h1, h2, h3, h4⟩ := h
  simp only [Timestamp.ofFields, Timestamp.fields, getVarint, List.filterMap_append, fm_pickVarint_optV,
    Nat.reduceEqDiff, ↓reduceIte, List.append_nil, List.nil_append, getD_optV]
  simp only at h1 h2 h3 h4
  rw [toI64_ofI64 h1 h2, toI32_ofI64 h3 h4]

theorem Timestamp.decode_encode {t : Timestamp} (h : t.WF) : Timestamp.decode t.encode = some t := by
  unfold Timestamp.decode Timestamp.encode
  rw [decFields_encFields _ (Timestamp.fields_wf t)]
  simp [Timestamp.ofFields_fields h]

theorem Timestamp.decode_wf {bs : Bytes} {t : Timestamp} (h : Timestamp.decode bs = some t) : t.WF := by
  unfold Timestamp.decode at h
  cases hd : decFields bs with
  | none => simp [hd] at h
  | some fs =>
    simp [hd] at h; subst h
    exact Timestamp.wf_mk (toI64_range _).1 (toI64_range _).2 (toI32_range _).1 (toI32_range _).2

/-! ### time.Time -/

/-- `Unix()` is an `int64`, `Nanosecond()` is below `10^9` -/
def GoTime.WF (t : GoTime) : Prop := -two63 ≤ t.sec ∧ t.sec < two63 ∧ t.nsec < 1000000000
instance : DecidablePred GoTime.WF := fun t => by unfold GoTime.WF; infer_instance

theorem tsNew_wf {t : GoTime} (h : t.WF) : (tsNew t).WF := by
  obtain ⟨h1, h2, h3⟩ := h
  refine ⟨h1, h2, ?_, ?_⟩
  · show -two31 ≤ (t.nsec : Int)
    unfold two31; omega
  · show (t.nsec : Int) < two31
    unfold two31; omega

theorem GoTime.wf_mk {s : Int} {n : Nat} (h1 : -two63 ≤ s) (h2 : s < two63) (h3 : n < 1000000000) :
    ({ sec := s, nsec := n } : GoTime).WF := ⟨h1, h2, h3⟩

/-- in-range nanoseconds are left alone -/
theorem timeUnix_id (s : Int) (n : Nat) (h : n < 1000000000) : timeUnix s (n : Int) = { sec := s, nsec := n } := by
  unfold timeUnix nsPerSec
  have : ¬ ((n : Int) < 0 ∨ (1000000000 : Int) ≤ (n : Int)) := by omega
  simp [this]

/-- whatever the nanoseconds, the result is normalised (and the seconds are an `int64` again) -/
theorem timeUnix_wf {s : Int} (n : Int) (h1 : -two63 ≤ s) (h2 : s < two63) : (timeUnix s n).WF := by
  unfold timeUnix
  split
  · dsimp only
    split
    · rename_i hn hlt
      refine GoTime.wf_mk (wrapI64_range _).1 (wrapI64_range _).2 ?_
      unfold goDiv nsPerSec at *
      split at hlt <;> omega
    · rename_i hn hge
      refine GoTime.wf_mk (wrapI64_range _).1 (wrapI64_range _).2 ?_
      unfold goDiv nsPerSec at *
      split at hge <;> omega
  · rename_i hn
    refine GoTime.wf_mk h1 h2 ?_
    unfold nsPerSec at hn
    omega

theorem GoTime.mk_congr {a c : Int} {b d : Nat} (h1 : a = c) (h2 : b = d) : GoTime.mk a b = GoTime.mk c d := by
  subst h1 h2; rfl

theorem wrapI64_congr {a b : Int} (h : a % two64 = b % two64) : wrapI64 a = wrapI64 b := by
  unfold wrapI64 ofI64; rw [h]

theorem wrapI64_emod (z : Int) : wrapI64 z % two64 = z % two64 := by
  unfold wrapI64 toI64 ofI64 two64 two63; split <;> omega

/-- what `time.Unix` computes: floor division of the nanoseconds, seconds wrap -/
theorem timeUnix_spec (s n : Int) (h1 : -two63 ≤ s) (h2 : s < two63) :
    timeUnix s n = { sec := wrapI64 (s + n / 1000000000), nsec := (n % 1000000000).toNat } := by
  unfold timeUnix
  split
  · dsimp only
    split
    · rename_i hn hlt
      have hm := wrapI64_emod (s + goDiv n nsPerSec)
      unfold goDiv nsPerSec two64 at *
      refine GoTime.mk_congr ?_ ?_
      · apply wrapI64_congr
        unfold two64
        split at hlt <;> rename_i hs <;> simp only [hs, ↓reduceIte] at hm ⊢ <;> omega
      · split at hlt <;> omega
    · rename_i hn hge
      unfold goDiv nsPerSec at *
      refine GoTime.mk_congr ?_ ?_
      · apply wrapI64_congr
        split at hge <;> rename_i hs <;> simp only [hs, ↓reduceIte] <;> congr 1 <;> omega
      · split at hge <;> omega
  · rename_i hn
    unfold nsPerSec at hn
    have e : n / 1000000000 = 0 := by omega
    rw [e, Int.add_zero, wrapI64_id h1 h2]
    refine GoTime.mk_congr rfl ?_
    omega

theorem asTime_tsNew {t : GoTime} (h : t.WF) : (tsNew t).asTime = t := by
  obtain ⟨s, n⟩ := t
  exact timeUnix_id s n h.2.2

theorem asTime_wf {t : Timestamp} (h : t.WF) : t.asTime.WF := timeUnix_wf t.nanos h.1 h.2.1

theorem GoTime.zero_wf : GoTime.zero.WF := by decide

/-! ### State -/

def State.WF (s : State) : Prop :=
  s.version.WF ∧ s.chainId.length < 2 ^ 64 ∧ s.initialHeight < 2 ^ 64 ∧ s.lastBlockHeight < 2 ^ 64 ∧
  s.lastBlockTime.WF ∧ s.daHeight < 2 ^ 64 ∧ s.lastResultsHash.length < 2 ^ 64 ∧ s.appHash.length < 2 ^ 64
instance : DecidablePred State.WF := fun s => by unfold State.WF; infer_instance

theorem State.fields_wf {s : State} (hw : s.WF) : AllWF s.fields := by
  unfold State.fields
  obtain ⟨_, h2, h3, h4, _, h6, h7, h8⟩ := hw
  have hv : s.version.encode.length < 2 ^ 64 := by have := Version.encode_length s.version; omega
  have ht : (tsNew s.lastBlockTime).encode.length < 2 ^ 64 := by
    have := Timestamp.encode_length (tsNew s.lastBlockTime); omega
  simp only [allWF_append]
  refine ⟨⟨⟨⟨⟨⟨⟨?_, ?_⟩, ?_⟩, ?_⟩, ?_⟩, ?_⟩, ?_⟩, ?_⟩
  · exact allWF_single (by decide) (by decide) hv
  · exact allWF_optB (by decide) (by decide) h2
  · exact allWF_optV (by decide) (by decide) h3
  · exact allWF_optV (by decide) (by decide) h4
  · exact allWF_single (by decide) (by decide) ht
  · exact allWF_optV (by decide) (by decide) h6
  · exact allWF_optB (by decide) (by decide) h7
  · exact allWF_optB (by decide) (by decide) h8

theorem all_valid_opt {b : Bytes} (h : validUtf8 b = true) :
    (if b = [] then [] else [b] : List Bytes).all validUtf8 = true := by
  split <;> simp [h]

theorem State.decode_fields {s : State} (hw : s.WF) (hu : validUtf8 s.chainId = true) :
    State.decode (encFields s.fields) = some s := by
  unfold State.decode
  rw [decFields_encFields _ (State.fields_wf hw)]
  have hv := Version.decode_encode hw.1
  have ht := Timestamp.decode_encode (tsNew_wf hw.2.2.2.2.1)
  have ha := asTime_tsNew hw.2.2.2.2.1
  unfold getMsg State.fields
  sel_simp
  simp [hv, ht, ha, all_valid_opt hu]

/-- the round trip: a state whose chain id is valid UTF-8 is encoded, and the encoding decodes to it -/
theorem State.decode_encode {s : State} (hw : s.WF) (hu : validUtf8 s.chainId = true) :
    ∃ bs, s.encode? = some bs ∧ State.decode bs = some s :=
  ⟨encFields s.fields, by simp [State.encode?, hu], State.decode_fields hw hu⟩

/-- a chain id that is not UTF-8 is refused by the encoder (a clean error, nothing is written) -/
theorem State.encode?_none {s : State} (hu : validUtf8 s.chainId = false) : s.encode? = none := by
  simp [State.encode?, hu]

theorem getRep_all_getLen {k : Nat} {fs : List Field} {p : Bytes → Bool} (hp : p [] = true)
    (h : (getRep k fs).all p = true) : p (getLen k fs) = true := by
  unfold getLen
  cases hl : (fs.filterMap (pickLen k)).getLast? with
  | none => simpa using hp
  | some b =>
    simp only [Option.getD_some]
    exact List.all_eq_true.mp h b (List.mem_of_getLast? hl)

theorem validUtf8_nil : validUtf8 [] = true := by decide

theorem State.decode_wf {bs : Bytes} {s : State} (h : State.decode bs = some s) :
    s.WF ∧ validUtf8 s.chainId = true := by
  unfold State.decode at h
  split at h
  · simp at h
  · rename_i fs hdf
    have hw := decFields_wf hdf
    split at h
    · rename_i v ts hv hts
      split at h
      · rename_i hall
        simp only [Option.some.injEq] at h; subst h
        refine ⟨⟨?_, getLen_lt hw, getVarint_lt hw, getVarint_lt hw, ?_, getVarint_lt hw, getLen_lt hw, getLen_lt hw⟩, ?_⟩
        · cases v with
          | none => exact (by decide : ({} : Version).WF)
          | some v' => exact Version.decode_wf (getMsg_some hv)
        · cases ts with
          | none => exact GoTime.zero_wf
          | some t => exact asTime_wf (Timestamp.decode_wf (getMsg_some hts))
        · exact getRep_all_getLen validUtf8_nil hall
      · simp at h
    · simp at h

/-- whatever `State.decode` accepts re-encodes (no error) and decodes to itself — no hypothesis on the input -/
theorem State.decode_canon {bs : Bytes} {s : State} (h : State.decode bs = some s) :
    ∃ bs', s.encode? = some bs' ∧ State.decode bs' = some s :=
  State.decode_encode (State.decode_wf h).1 (State.decode_wf h).2

/-! ### Go strings that are not UTF-8 -/

theorem Header.marshalGo_utf8 (h : Header) (s : String) : h.marshalGo (utf8 s) = some (h.withCid s).encode := by
  simp [Header.marshalGo, ofUtf8?_utf8]

theorem Header.marshalGo_none {h : Header} {cid : Bytes} (hu : validUtf8 cid = false) :
    h.marshalGo cid = none ∧ h.hashGo cid = [] := by
  have : ofUtf8? cid = none := by simpa [validUtf8] using hu
  simp [Header.marshalGo, Header.hashGo, this]

theorem Header.marshalGo_self (h : Header) : h.marshalGo (utf8 h.chainId) = some h.encode ∧
    h.hashGo (utf8 h.chainId) = h.hash := by
  have e : h.withCid h.chainId = h := by cases h; rfl
  simp [Header.marshalGo, Header.hashGo, ofUtf8?_utf8, e, Header.hash]

theorem Data.marshalGo_utf8 (d : Data) (m : Metadata) (hm : d.metadata = some m) :
    d.marshalGo (utf8 m.chainId) = .ok d.encode ∧ d.hashGo (utf8 m.chainId) = d.hash := by
  obtain ⟨md, txs⟩ := d
  simp only at hm; subst hm
  have e : m.withCid m.chainId = m := by cases m; rfl
  simp [Data.marshalGo, Data.hashGo, Data.hashInputGo, ofUtf8?_utf8, e, Data.hash]

theorem Data.marshalGo_nometa (d : Data) (cid : Bytes) (hm : d.metadata = none) :
    d.marshalGo cid = .ok d.encode ∧ d.hashGo cid = d.hash := by
  simp [Data.marshalGo, Data.hashGo, Data.hashInputGo, hm, Data.hash]

/-- with a chain id that is not UTF-8 the bytes `Data.Hash` hashes do not depend on the transactions -/
theorem Data.hashInputGo_invalid (m : Metadata) (cid : Bytes) (hu : validUtf8 cid = false) (txs : List Bytes) :
    ({ metadata := some m, txs := txs } : Data).hashInputGo cid = Data.partialGo m cid := by
  have : ofUtf8? cid = none := by simpa [validUtf8] using hu
  simp [Data.hashInputGo, Data.marshalGo, this]

/-! ### nil vs empty -/

theorem GoSlice.rt_bytes (g : GoSlice) : g.rt.bytes = g.bytes := by
  unfold GoSlice.rt; split <;> simp_all [GoSlice.bytes]

theorem GoSlice.rt_eq_iff (g : GoSlice) : g.rt = g ↔ g ≠ some [] := by
  cases g with
  | none => simp [GoSlice.rt, GoSlice.bytes]
  | some b => by_cases hb : b = [] <;> simp [GoSlice.rt, GoSlice.bytes, hb]

theorem GoSlice.rt_rt (g : GoSlice) : g.rt.rt = g.rt := by
  rw [GoSlice.rt_eq_iff]; unfold GoSlice.rt; split <;> simp_all

theorem GoTxs.rt_bytes (t : GoTxs) : t.rt.list.map GoSlice.bytes = t.list.map GoSlice.bytes := by
  simp [GoTxs.rt, GoTxs.list, GoSlice.bytes, Function.comp_def]

theorem GoTxs.rt_eq_iff (t : GoTxs) : t.rt = t ↔ t ≠ none ∧ ∀ x ∈ t.list, x ≠ none := by
  cases t with
  | none => simp [GoTxs.rt]
  | some l =>
    simp only [GoTxs.rt, GoTxs.list, Option.some.injEq, ne_eq, reduceCtorEq, not_false_eq_true, true_and]
    induction l with
    | nil => simp
    | cons x l ih =>
      simp only [List.map_cons, List.cons.injEq, ih, List.mem_cons, forall_eq_or_imp]
      cases x <;> simp [GoSlice.bytes]

end Wire
