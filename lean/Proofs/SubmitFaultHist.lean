import Proofs.SubmitFaultTick

/-! Histories with failing watermark persists (C06): the actions of `Submit.ActR` (production, ticks, inclusion passes,
restarts, crashes at any write) plus **ticks during which any number of watermark writes fail** (`ActF.subHF nf script`,
`ActF.subDF nf script`).  The reachable-node invariant `R` asks of the image only `PLe` (persisted ≤ memory), so it
survives; every crash image of a faulty tick restarts into a reachable node. -/
namespace Submit
open Wire Chain Producer

/-! ### the image of a tick with any SUBSET of its watermark writes applied -/

/-- `cut_iter` generalised from prefixes `applyPrefix k ws` to any `applyAll l` with `l ⊆ ws`: what the image satisfies -/
theorem iter_sub_facts {c : Cfg} {d : Bool} {a a' : ANode} {items : List Item} {ws : List SW} (r : R c a) (rp : R c a')
    (hi : IterInv d a items a' ws) {l : List SW} (hl : ∀ w ∈ l, w ∈ ws) :
    Live c { a'.n with store := a.n.store.applyAll l } ∧ Synced c { a'.n with store := a.n.store.applyAll l } ∧
    (a.n.store.applyAll l).height = a'.n.store.height ∧
    (∀ j, (a.n.store.applyAll l).getBlock j = a'.n.store.getBlock j) ∧
    (∃ w, wmOf (a.n.store.applyAll l) (wmKey false) = some w ∧ w ≤ a'.n.hdrWm) ∧
    (∃ w, wmOf (a.n.store.applyAll l) (wmKey true) = some w ∧ w ≤ a'.n.dataWm) ∧
    loadInc c (a.n.store.applyAll l) ≤ a'.daInc ∧
    loadInc c (a.n.store.applyAll l) = loadInc c a.n.store := by
  have hwr : ∀ w ∈ l, ∃ v, w = SW.setMeta (wmKey d) (le64 v) ∧ wm d a < v ∧ v ≤ wm d a' :=
    fun w hw => hi.writes w (hl w hw)
  have hmo : MetaOnly l := fun w hw => by obtain ⟨v, hv, _⟩ := hwr w hw; exact ⟨_, _, hv⟩
  obtain ⟨m1, m2, m3⟩ := metaOnly_all hmo a.n.store
  have hd : (a.n.store.applyAll l).getMeta daIncKey = a.n.store.getMeta daIncKey := by
    apply getMeta_applyAll_other
    intro w hw k' v he
    obtain ⟨v', hv, _⟩ := hwr w hw
    rw [hv] at he
    injection he with h1 _
    rw [← h1]; cases d <;> decide
  have hli := loadInc_congr (c := c) hd
  have hown : ∃ w, wmOf (a.n.store.applyAll l) (wmKey d) = some w ∧ w ≤ wm d a' := by
    refine applyAll_pres (P := fun s => ∃ w, wmOf s (wmKey d) = some w ∧ w ≤ wm d a') ?_ ?_
    · intro s w hw _
      obtain ⟨v, hv, _, hle⟩ := hwr w hw
      rw [hv]
      obtain ⟨x, q1, q2⟩ := wmOf_setMeta_le64 s (wmKey d) v
      exact ⟨x, q1, Nat.le_trans q2 hle⟩
    · cases d with
      | false => obtain ⟨x, q1, q2⟩ := r.ph; exact ⟨x, q1, Nat.le_trans q2 hi.wmMono⟩
      | true => obtain ⟨x, q1, q2⟩ := r.pd; exact ⟨x, q1, Nat.le_trans q2 hi.wmMono⟩
  have hoth : ∃ w, wmOf (a.n.store.applyAll l) (wmKey (!d)) = some w ∧ w ≤ wm (!d) a' := by
    have hm : (a.n.store.applyAll l).getMeta (wmKey (!d)) = a.n.store.getMeta (wmKey (!d)) := by
      apply getMeta_applyAll_other
      intro w hw k' v he
      obtain ⟨v', hv, _⟩ := hwr w hw
      rw [hv] at he
      injection he with h1 _
      rw [← h1]; cases d <;> decide
    rw [wmOf_congr_meta hm, hi.frame.otherWm]
    cases d with
    | false => exact r.pd
    | true => exact r.ph
  have hh : (a.n.store.applyAll l).height = a'.n.store.height := by rw [m1, hi.frame.height]
  have hb : ∀ j, (a.n.store.applyAll l).getBlock j = a'.n.store.getBlock j := by
    intro j; rw [m2, hi.frame.getBlock]
  refine ⟨Live.of_same rp.live hh hb rfl,
    synced_of_same rp.synced (by show _ = a'.n.store.state; rw [m3, hi.frame.state]) rfl, hh, hb, ?_, ?_, ?_, hli⟩
  · cases d with
    | false => exact hown
    | true => exact hoth
  · cases d with
    | false => exact hoth
    | true => exact hown
  · rw [hli, hi.frame.daInc]; exact r.pdw.2

/-- **the node a tick leaves when any subset of its watermark writes did not reach the image is reachable** -/
theorem R.iter_sub {c : Cfg} {d : Bool} {a a' : ANode} {items : List Item} {ws : List SW} (r : R c a) (rp : R c a')
    (hi : IterInv d a items a' ws) {l : List SW} (hl : ∀ w ∈ l, w ∈ ws) :
    R c (a'.withStore (a.n.store.applyAll l)) := by
  obtain ⟨f1, f2, f3, f4, f5, f6, f7, _⟩ := iter_sub_facts r rp hi hl
  exact rp.withStore _ f1 f2 f3 (fun j _ => f4 j) f5 f6 f7

/-- **a crash on such an image**: the restart succeeds and yields a reachable node -/
theorem cut_iter_sub {c : Cfg} {d : Bool} {a a' : ANode} {items : List Item} {ws : List SW} (r : R c a) (rp : R c a')
    (hi : IterInv d a items a' ws) {l : List SW} (hl : ∀ w ∈ l, w ∈ ws) :
    ∃ ac, Submit.restart c a' (a.n.store.applyAll l) false = some ac ∧ R c ac ∧
      CutFacts c a' ac (a.n.store.applyAll l) := by
  obtain ⟨f1, f2, f3, f4, f5, f6, f7, _⟩ := iter_sub_facts r rp hi hl
  exact rp.crashOn _ f1 f2 f3 (fun j _ => f4 j) f5 f6 f7


/-! ### histories -/

/-- an action of `ActR` (production, fault-free ticks, inclusion pass, restart, crash after `k` durable writes of the last
action) or **a tick during which the next `nf` watermark writes fail** -/
inductive ActF
  | base (x : ActR)
  | subHF (nf : Nat) (script : List DAAns)
  | subDF (nf : Nat) (script : List DAAns)

/-- a faulty tick leaves the node `headersIterF` / `dataIterF` computes (what the driver executes); the durable writes a
crash can cut are the ones that were issued (the failed ones never reach the datastore) -/
def stepRF (c : Cfg) (σ : CSt) : ActF → CSt
  | .base x => stepR c σ x
  | .subHF nf s => ⟨(headersIterF nf σ.a s).1.1, σ.a.n.store, (headersIterF nf σ.a s).1.2.1⟩
  | .subDF nf s => ⟨(dataIterF nf σ.a s).1.1, σ.a.n.store, (dataIterF nf σ.a s).1.2.1⟩

def runRF (c : Cfg) (σ : CSt) (acts : List ActF) : CSt := acts.foldl (stepRF c) σ

theorem runRF_base (c : Cfg) (σ : CSt) (acts : List ActR) : runRF c σ (acts.map .base) = runR c σ acts := by
  induction acts generalizing σ with
  | nil => rfl
  | cons x acts ih => exact ih (stepR c σ x)

/-- a faulty tick from a reachable node: reachable, and every crash image restarts into a reachable node -/
theorem CI.faulty {c : Cfg} {σ : CSt} (ci : CI c σ) {d : Bool} {items : List Item}
    {r : ANode × List SW × List SubmitCall × IterOut} {rF : (ANode × List SW × List SubmitCall × IterOut) × Nat} {nf : Nat}
    (rp : R c r.1) (hi : IterInv d σ.a items r.1 r.2.1) (hs : TickSim σ.a nf r rF) :
    CI c ⟨rF.1.1, σ.a.n.store, rF.1.2.1⟩ := by
  obtain ⟨l, hsub, _, _, e⟩ := hs
  have e1 : rF.1.1 = r.1.withStore (σ.a.n.store.applyAll l) := by rw [e]
  have e2 : rF.1.2.1 = l := by rw [e]
  rw [e1, e2]
  refine ⟨ci.r.iter_sub rp hi (fun w hw => hsub.subset hw), fun k => ?_⟩
  show ∃ ac, Submit.restart c (r.1.withStore (σ.a.n.store.applyAll l)) (σ.a.n.store.applyPrefix k l) false = some ac ∧
    R c ac ∧ CutFacts c (r.1.withStore (σ.a.n.store.applyAll l)) ac (σ.a.n.store.applyPrefix k l)
  rw [restart_withStore]
  unfold Store.applyPrefix
  obtain ⟨ac, q1, q2, q3⟩ := cut_iter_sub ci.r rp hi (l := l.take k)
    (fun w hw => hsub.subset (List.mem_of_mem_take hw))
  exact ⟨ac, q1, q2, q3.congr rfl rfl rfl rfl rfl rfl⟩

theorem CI.stepRF {c : Cfg} {σ : CSt} (ci : CI c σ) (x : ActF) : CI c (stepRF c σ x) := by
  cases x with
  | base x => exact ci.step x
  | subHF nf s =>
    obtain ⟨_, hi, _⟩ := headersIter_iter σ.a s
    exact ci.faulty (ci.r.step (.subH s)) hi (headersIterF_sim nf σ.a s)
  | subDF nf s =>
    obtain ⟨_, hi, _⟩ := dataIter_iter σ.a s
    exact ci.faulty (ci.r.step (.subD s)) hi (dataIterF_sim nf σ.a s)

/-- **every history with failing persists**: no restart ever fails and the node is reachable (`R`) -/
theorem CI.runRF {c : Cfg} {σ : CSt} (ci : CI c σ) (acts : List ActF) : CI c (runRF c σ acts) := by
  induction acts generalizing σ with
  | nil => exact ci
  | cons x acts ih => exact ih (ci.stepRF x)

/-! ### what a restart reloads; what an action does to the watermarks in memory -/

/-- a (re)start resumes from the persisted watermarks (raised to `initialHeight − 1`) -/
theorem restart_resumes {c : Cfg} {a a' : ANode} {d : Store} {clean : Bool} (h : Submit.restart c a d clean = some a') :
    ∃ hw dw, wmOf d (wmKey false) = some hw ∧ wmOf d (wmKey true) = some dw ∧
      a'.n.hdrWm = wmRaise c hw ∧ a'.n.dataWm = wmRaise c dw := by
  unfold Submit.restart at h
  cases hs : start c d with
  | error e => rw [hs] at h; cases h
  | ok p =>
    obtain ⟨n, ws⟩ := p
    rw [hs] at h
    simp only [Option.some.injEq] at h
    subst h
    obtain ⟨hw, dw, e1, e2, e3, e4, _⟩ := start_facts hs
    exact ⟨hw, dw, e1, e2, e3, e4⟩

/-- no action of the running process lowers a watermark in memory -/
theorem stepA_wm_mono (c : Cfg) (a : ANode) (x : Act) :
    a.n.hdrWm ≤ (stepA c a x).n.hdrWm ∧ a.n.dataWm ≤ (stepA c a x).n.dataWm := by
  cases x with
  | produce rs e =>
    obtain ⟨w1, w2⟩ := publish_wm c a.n rs e
    exact ⟨Nat.le_of_eq w1.symm, Nat.le_of_eq w2.symm⟩
  | subH s =>
    obtain ⟨_, hi, _⟩ := headersIter_iter a s
    exact ⟨hi.wmMono, Nat.le_of_eq hi.frame.otherWm.symm⟩
  | subD s =>
    obtain ⟨_, hi, _⟩ := dataIter_iter a s
    exact ⟨Nat.le_of_eq hi.frame.otherWm.symm, hi.wmMono⟩
  | incl =>
    have hi : PassInv a (includerIter a).1 (includerIter a).2 :=
      includerPass_inv (a.n.store.height + 1) a a [] (PassInv.init a)
    exact ⟨Nat.le_of_eq hi.frame.hdrWm.symm, Nat.le_of_eq hi.frame.dataWm.symm⟩

/-- a faulty tick leaves in memory exactly what the fault-free tick leaves -/
theorem TickSim.mem {a : ANode} {nf : Nat} {r : ANode × List SW × List SubmitCall × IterOut}
    {rF : (ANode × List SW × List SubmitCall × IterOut) × Nat} (h : TickSim a nf r rF) :
    rF.1.1.n.hdrWm = r.1.n.hdrWm ∧ rF.1.1.n.dataWm = r.1.n.dataWm ∧ rF.1.1.hMarks = r.1.hMarks ∧
    rF.1.1.dMarks = r.1.dMarks ∧ rF.1.1.daBlobs = r.1.daBlobs ∧ rF.1.1.daBytes = r.1.daBytes ∧ rF.1.1.daH = r.1.daH ∧
    rF.1.1.daInc = r.1.daInc ∧ rF.1.1.finals = r.1.finals := by
  obtain ⟨l, _, _, _, e⟩ := h
  rw [e]; exact ⟨rfl, rfl, rfl, rfl, rfl, rfl, rfl, rfl, rfl⟩

end Submit
