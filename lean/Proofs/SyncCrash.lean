import Proofs.SyncRun

/-!
# Crash of the syncing node between two durable writes of a step, and restart on the image (`Spec/C05`)
-/
namespace Sync
open Wire Chain
variable {c : Cfg} {ch : PChain} {top h0 : Nat} {evs : List Ev} {n : FNode}

/-- the crash point right after a state write (`UpdateState`) and before the block save that follows it -/
def afterStateWrite (ws : List SW) (k : Nat) : Bool :=
  match (ws.take k).getLast? with
  | some (.updateState _) => true
  | _ => false

theorem afterStateWrite_shift (w1 w2 w3 : SW) (rest : List SW) (j : Nat)
    (h : afterStateWrite rest j = true) : afterStateWrite (w1 :: w2 :: w3 :: rest) (j + 3) = true := by
  unfold afterStateWrite at h ⊢
  simp only [List.take_succ_cons]
  cases ht : rest.take j with
  | nil => rw [ht] at h; simp at h
  | cons x xs => rw [ht] at h; simpa [List.getLast?_cons_cons] using h

theorem afterStateWrite_shift_eq (w1 w2 : SW) (h : Nat) (rest : List SW) (j : Nat) :
    afterStateWrite (w1 :: w2 :: .setHeight h :: rest) (j + 3) = afterStateWrite rest j := by
  unfold afterStateWrite
  simp only [List.take_succ_cons]
  cases ht : rest.take j with
  | nil => simp
  | cons x xs => simp [List.getLast?_cons_cons]

/-- the excluded crash points of a step are exactly those with `k ≡ 1 (mod 3)` inside the step's writes: one
block's state written, the block itself not yet -/
theorem AppliedWrites.afterStateWrite_iff {h h' : Nat} {ws : List SW} (a : AppliedWrites c ch h ws h') (k : Nat) :
    afterStateWrite ws k = true ↔ k % 3 = 1 ∧ k ≤ ws.length := by
  induction a generalizing k with
  | nil =>
    simp only [afterStateWrite, List.take_nil, List.getLast?_nil, List.length_nil]
    constructor
    · intro h; cases h
    · intro ⟨a, b⟩; omega
  | @cons h h' ws b sb _ _ a ih =>
    match k with
    | 0 => simp [afterStateWrite]
    | 1 => simp [afterStateWrite]
    | 2 => simp [afterStateWrite]
    | j + 3 =>
      rw [afterStateWrite_shift_eq, ih j]
      simp only [List.length_cons]
      omega

/-- a consistent image whose stored height is up to date and equals `h` -/
structure Settled (c : Cfg) (ch : PChain) (s : Store) (h : Nat) : Prop where
  ok : DiskOK c ch s
  height : s.height = h
  recH : recHeight c s = h

theorem Safe.settled (g : GoodChain c ch top) (hs : Safe c ch h0 evs n) : Settled c ch n.store n.store.height :=
  ⟨(hs.diskOK g).1, rfl, (hs.diskOK g).2⟩

/-- image after the state write and the block save of block `h+1`, and after all three writes -/
theorem settled_step (g : GoodChain c ch top) {s : Store} {h : Nat} (hs : Settled c ch s h) {b sb : Block}
    (hb : ch (h + 1) = some b) (hsb : SameBlock b sb) :
    DiskOK c ch ((s.apply (.updateState (stateAt c ch (h + 1)))).apply (.saveBlock (h + 1) sb)) ∧
    Settled c ch (((s.apply (.updateState (stateAt c ch (h + 1)))).apply (.saveBlock (h + 1) sb)).apply (.setHeight (h + 1)))
      (h + 1) := by
  have hlh : (stateAt c ch (h + 1)).lastHeight = h + 1 := stateAt_lastHeight g (Or.inr (by simp [hb]))
  have hih : c.initialHeight ≤ h + 1 := (g.dom _ b hb).1
  generalize hs2 : (s.apply (.updateState (stateAt c ch (h + 1)))).apply (.saveBlock (h + 1) sb) = s2
  have s2h : s2.height = h := by rw [← hs2]; exact hs.height
  have s2s : s2.state = some (stateAt c ch (h + 1)) := by rw [← hs2]; rfl
  have s2b : ∀ k, s2.getBlock k = if h + 1 = k then some sb else s.getBlock k := by
    intro k; rw [← hs2, getBlock_saveBlock]; rfl
  have s2r : recHeight c s2 = h + 1 := by unfold recHeight; rw [s2s]; exact hlh
  have blocks : ∀ k, c.initialHeight ≤ k → k ≤ h + 1 → ∃ b' sb', ch k = some b' ∧ s2.getBlock k = some sb' ∧ SameBlock b' sb' := by
    intro k h1 h2
    rw [s2b]
    by_cases hk : h + 1 = k
    · subst hk; exact ⟨b, sb, hb, by simp, hsb⟩
    · rw [if_neg hk]
      exact hs.ok.blocks k h1 (by rw [hs.recH]; omega)
  have ok2 : DiskOK c ch s2 := by
    refine ⟨by rw [s2h, s2r]; omega, ?_, by rw [s2r]; exact blocks⟩
    intro st hst
    rw [s2s] at hst; cases hst
    rw [s2r]; exact ⟨rfl, hih⟩
  refine ⟨ok2, ?_⟩
  have s3h : (s2.apply (.setHeight (h + 1))).height = h + 1 := by
    rw [height_setHeight, s2h]; simp
  have s3s : (s2.apply (.setHeight (h + 1))).state = s2.state := state_setHeight _ _
  have s3r : recHeight c (s2.apply (.setHeight (h + 1))) = h + 1 := by
    unfold recHeight; rw [s3s, s2s]; exact hlh
  refine ⟨⟨by rw [s3h, s3r]; exact Nat.le_refl _, ?_, ?_⟩, s3h, s3r⟩
  · intro st hst
    rw [s3s, s2s] at hst; cases hst
    rw [s3r]; exact ⟨rfl, hih⟩
  · intro k h1 h2
    rw [s3r] at h2
    rw [getBlock_setHeight]
    exact blocks k h1 h2

/-- **Every crash point of a step except the one right after a state write leaves a consistent image.** -/
theorem crash_ok (g : GoodChain c ch top) {h h' : Nat} {ws : List SW} (a : AppliedWrites c ch h ws h') :
    ∀ (s : Store), Settled c ch s h → ∀ k, afterStateWrite ws k = true ∨ DiskOK c ch (s.applyPrefix k ws) := by
  induction a with
  | nil => intro s hs k; right; simpa [Store.applyPrefix, Store.applyAll] using hs.ok
  | @cons h h' ws b sb hb hsb a ih =>
    intro s hs k
    obtain ⟨ok2, set3⟩ := settled_step g hs hb hsb
    match k with
    | 0 => right; simpa [Store.applyPrefix, Store.applyAll] using hs.ok
    | 1 => left; rfl
    | 2 => right; simpa [Store.applyPrefix, Store.applyAll] using ok2
    | j + 3 =>
      rcases ih _ set3 j with h1 | h1
      · left; exact afterStateWrite_shift _ _ _ _ _ h1
      · right; simpa [Store.applyPrefix, Store.applyAll] using h1

theorem crash_image_ok (g : GoodChain c ch top) (hs : Safe c ch h0 evs n) (e : Ev) (k : Nat) :
    afterStateWrite (deliver ch n e).2 k = true ∨ DiskOK c ch (n.store.applyPrefix k (deliver ch n e).2) :=
  crash_ok g (deliver_safe g hs e).2 _ (hs.settled g) k

/-- **Restart on a consistent image** (empty caches): the node reports the recorded height, its state is the
state after exactly that height, and it satisfies the full invariant of C02 again. -/
theorem diskOK_start (g : GoodChain c ch top) {d : Store} (hd : DiskOK c ch d) :
    ∃ n ws, start c d = some (n, ws) ∧ n.store.height = recHeight c d ∧
      n.lastState.lastHeight = n.store.height ∧ Inv c ch n.store.height [] n := by
  obtain ⟨n, ws, h1, h2⟩ := start_spec g hd {}
  have hs : Safe c ch n.store.height [] n :=
    started_safe hd h2 (cachesOK_empty ch) (by rw [h2.height]; exact Nat.le_refl _) (fun k a b => by rw [h2.height] at a; omega)
  obtain ⟨a, b⟩ := live_of_empty ch (n := n) h2.hc h2.dc h2.sH h2.sD
  exact ⟨n, ws, h1, h2.height, (hs.hs g).symm, hs, a, b⟩

/-! ## a crash during start-up itself -/

theorem diskOK_setHeight {d : Store} (hd : DiskOK c ch d) {h : Nat} (hh : h ≤ recHeight c d) :
    DiskOK c ch (d.apply (.setHeight h)) := by
  have hr : recHeight c (d.apply (.setHeight h)) = recHeight c d := by
    unfold recHeight; rw [state_setHeight]
  refine ⟨?_, ?_, ?_⟩
  · rw [hr, height_setHeight]; have := hd.hle; split <;> omega
  · intro s hs; rw [state_setHeight] at hs; rw [hr]; exact hd.state s hs
  · intro k h1 h2; rw [hr] at h2; rw [getBlock_setHeight]; exact hd.blocks k h1 h2

theorem diskOK_saveAbove {d : Store} (hd : DiskOK c ch d) {h : Nat} (hh : recHeight c d < h) (b : Block) :
    DiskOK c ch (d.apply (.saveBlock h b)) := by
  have hr : recHeight c (d.apply (.saveBlock h b)) = recHeight c d := rfl
  refine ⟨by rw [hr]; exact hd.hle, fun s hs => by rw [hr]; exact hd.state s hs, ?_⟩
  intro k h1 h2
  rw [hr] at h2
  rw [getBlock_saveBlock_other _ _ _ _ (by omega)]
  exact hd.blocks k h1 h2

theorem applyAll_take_setHeightW (d : Store) (h j : Nat) :
    d.applyAll ((setHeightW d h).take j) = d ∨ d.applyAll ((setHeightW d h).take j) = d.apply (.setHeight h) := by
  unfold setHeightW
  split
  · match j with
    | 0 => left; rfl
    | j + 1 => right; simp [Store.applyAll]
  · left; simp [Store.applyAll]

/-- **A crash during `Sync.start` itself** (between its own writes: local genesis block, raising the chain
height) leaves a consistent image again. -/
theorem start_crash_ok (g : GoodChain c ch top) {d : Store} (hd : DiskOK c ch d) (caches : FNode) :
    ∃ n ws, start c d caches = some (n, ws) ∧ ∀ j, DiskOK c ch (d.applyPrefix j ws) := by
  have hpos := g.ihPos
  cases hst : d.state with
  | none =>
    have hr : recHeight c d = c.initialHeight - 1 := by simp [recHeight, hst]
    have ok1 := diskOK_saveAbove hd (h := c.initialHeight) (by omega) (genesisBlock c)
    generalize hd1 : d.apply (.saveBlock c.initialHeight (genesisBlock c)) = d1 at ok1
    have hr1 : recHeight c d1 = c.initialHeight - 1 := by rw [← hd1]; exact hr
    refine ⟨{ caches with store := d1.applyAll (setHeightW d1 (c.initialHeight - 1)), lastState := genesisState c, alive := true },
            [.saveBlock c.initialHeight (genesisBlock c)] ++ setHeightW d1 (c.initialHeight - 1), ?_, ?_⟩
    · unfold start
      simp only [hst, hd1]
      rfl
    · intro j
      match j with
      | 0 => simpa [Store.applyPrefix, Store.applyAll] using hd
      | j + 1 =>
        have e : d.applyPrefix (j + 1) ([.saveBlock c.initialHeight (genesisBlock c)] ++ setHeightW d1 (c.initialHeight - 1))
            = d1.applyAll ((setHeightW d1 (c.initialHeight - 1)).take j) := by
          simp [Store.applyPrefix, Store.applyAll, hd1]
        rw [e]
        rcases applyAll_take_setHeightW d1 (c.initialHeight - 1) j with h | h
        · rw [h]; exact ok1
        · rw [h]; exact diskOK_setHeight ok1 (by omega)
  | some s =>
    have hr : recHeight c d = s.lastHeight := by simp [recHeight, hst]
    obtain ⟨_, hs2⟩ := hd.state s hst
    refine ⟨{ caches with store := d.applyAll (setHeightW d s.lastHeight), lastState := s, alive := true },
            [] ++ setHeightW d s.lastHeight, ?_, ?_⟩
    · unfold start
      simp only [hst]
      rw [if_neg (by omega)]
    · intro j
      simp only [List.nil_append, Store.applyPrefix]
      rcases applyAll_take_setHeightW d s.lastHeight j with h | h
      · rw [h]; exact hd
      · rw [h]; exact diskOK_setHeight hd (by omega)


/-! ## any number of crashes and restarts -/

/-- nodes reachable from a fresh start by genuine events, clean restarts, crashes at any write boundary of
any step other than the excluded one, each followed by a restart on the image with empty caches, and (`image`)
a start on any consistent image — in particular on the image left by a crash *during* an earlier start
(`start_crash_ok`) -/
inductive Reach (c : Cfg) (ch : PChain) : FNode → Prop
  | fresh : Reach c ch (fresh c)
  | ev {n : FNode} (e : Ev) : Reach c ch n → Reach c ch (deliver ch n e).1
  | restart {n : FNode} : Reach c ch n → Reach c ch (restart c n)
  | crash {n n' : FNode} {ws : List SW} (e : Ev) (k : Nat) : Reach c ch n →
      afterStateWrite (deliver ch n e).2 k = false →
      start c (n.store.applyPrefix k (deliver ch n e).2) = some (n', ws) → Reach c ch n'
  | image {n : FNode} {d : Store} {ws : List SW} : DiskOK c ch d → start c d = some (n, ws) → Reach c ch n

theorem Inv.rebase (hi : Inv c ch h0 evs n) : Inv c ch n.store.height evs n :=
  ⟨{ hi.safe with ge := Nat.le_refl _, sound := fun k a b => by omega }, hi.live, hi.quiet⟩

theorem Safe.rebase (hs : Safe c ch h0 evs n) : Safe c ch n.store.height evs n :=
  { hs with ge := Nat.le_refl _, sound := fun k a b => by omega }

/-- a crash never blocks the restart: `start` succeeds on every image covered by `crash_image_ok` -/
theorem crash_restarts (g : GoodChain c ch top) (hs : Safe c ch h0 evs n) (e : Ev) (k : Nat)
    (hk : afterStateWrite (deliver ch n e).2 k = false) :
    ∃ n' ws, start c (n.store.applyPrefix k (deliver ch n e).2) = some (n', ws) ∧
      DiskOK c ch (n.store.applyPrefix k (deliver ch n e).2) ∧
      n'.store.height = recHeight c (n.store.applyPrefix k (deliver ch n e).2) ∧
      n'.lastState.lastHeight = n'.store.height ∧ Inv c ch n'.store.height [] n' := by
  rcases crash_image_ok g hs e k with h | h
  · rw [hk] at h; cases h
  · obtain ⟨n', ws, a1, a2, a3, a4⟩ := diskOK_start g h
    exact ⟨n', ws, a1, h, a2, a3, a4⟩

theorem reach_safe (g : GoodChain c ch top) {n : FNode} (r : Reach c ch n) : ∃ evs, Safe c ch n.store.height evs n := by
  induction r with
  | fresh => exact ⟨[], (fresh_safe g).rebase⟩
  | ev e _ ih => obtain ⟨evs, hs⟩ := ih; exact ⟨_, (deliver_safe g hs e).1.rebase⟩
  | restart _ ih => obtain ⟨evs, hs⟩ := ih; exact ⟨evs, (restart_spec g hs).2.2.2.2.2.2.2.2.2.rebase⟩
  | crash e k _ hk hst ih =>
    obtain ⟨evs, hs⟩ := ih
    obtain ⟨n', ws, a1, _, _, _, a4⟩ := crash_restarts g hs e k hk
    rw [a1] at hst; cases hst
    exact ⟨[], a4.safe⟩
  | image hd hst =>
    obtain ⟨n', ws', a1, _, _, a4⟩ := diskOK_start g hd
    rw [a1] at hst; cases hst
    exact ⟨[], a4.safe⟩

theorem reach_inv (g : GoodChain c ch top) (dc : DistinctCommitments ch) {n : FNode} (r : Reach c ch n) :
    ∃ evs, Inv c ch n.store.height evs n := by
  induction r with
  | fresh => exact ⟨[], (fresh_inv g).rebase⟩
  | ev e _ ih => obtain ⟨evs, hi⟩ := ih; exact ⟨_, (deliver_inv g dc hi e).rebase⟩
  | restart _ ih => obtain ⟨evs, hi⟩ := ih; exact ⟨evs, (restart_inv g hi).rebase⟩
  | crash e k _ hk hst ih =>
    obtain ⟨evs, hi⟩ := ih
    obtain ⟨n', ws, a1, _, _, _, a4⟩ := crash_restarts g hi.safe e k hk
    rw [a1] at hst; cases hst
    exact ⟨[], a4⟩
  | image hd hst =>
    obtain ⟨n', ws', a1, _, _, a4⟩ := diskOK_start g hd
    rw [a1] at hst; cases hst
    exact ⟨[], a4⟩

/-- convergence from any node satisfying the invariant, for any further events and clean restarts -/
theorem converges_from (g : GoodChain c ch top) (dc : DistinctCommitments ch) (hi : Inv c ch h0 evs n)
    (ops : List Op) (h : Nat) (hready : ∀ k, n.store.height < k → k ≤ h → Delivered ch (evsOf ops) k) :
    h ≤ (runFrom c ch n ops).store.height := by
  have hi' := runFrom_inv g dc ops hi.rebase
  exact hi'.converges h (fun k a b => (hready k a b).mono (fun _ hx => List.mem_append_right _ hx))

end Sync
