import Proofs.SyncRun

/-!
# Crash of the syncing node between two durable writes of a step, and restart on the image (`Spec/C05`)
-/
namespace Sync
open Wire Chain
variable {c : Cfg} {ch : PChain} {top h0 : Nat} {evs : List Ev} {n : FNode}

/-- a consistent image whose stored height is up to date and equals `h` -/
structure Settled (c : Cfg) (ch : PChain) (s : Store) (h : Nat) : Prop where
  ok : DiskOK c ch s
  height : s.height = h
  recH : recHeight c s = h

theorem SafeJ.settled {jk : Bool} (g : GoodChain c ch top) (hs : SafeJ jk c ch h0 evs n) : Settled c ch n.store n.store.height :=
  ⟨(hs.diskOK g).1, rfl, (hs.diskOK g).2⟩

/-- a block saved **above** the recorded height (the block of the next height, saved before the state that says
it was applied; or the local genesis block of `start`) does not disturb a consistent image: the node restarts
below it and applies that height again -/
theorem diskOK_saveAbove {d : Store} (hd : DiskOK c ch d) {h : Nat} (hh : recHeight c d < h) (b : Block) :
    DiskOK c ch (d.apply (.saveBlock h b)) := by
  have hr : recHeight c (d.apply (.saveBlock h b)) = recHeight c d := rfl
  refine ⟨by rw [hr]; exact hd.hle, fun s hs => by rw [hr]; exact hd.state s hs, ?_, hd.wm.kv rfl⟩
  intro k h1 h2
  rw [hr] at h2
  rw [getBlock_saveBlock_other _ _ _ _ (by omega)]
  exact hd.blocks k h1 h2

/-- the three images inside the application of block `h+1`: after the block save (recorded height still `h`,
the new block sits above it), after the state write (recorded height `h+1`, block `h+1` is there, stored height
still `h`), and after all three writes -/
theorem settled_step (g : GoodChain c ch top) {s : Store} {h : Nat} (hs : Settled c ch s h) {b sb : Block}
    (hb : ch (h + 1) = some b) (hsb : SameBlock b sb) :
    (DiskOK c ch (s.apply (.saveBlock (h + 1) sb)) ∧ recHeight c (s.apply (.saveBlock (h + 1) sb)) = h) ∧
    (DiskOK c ch ((s.apply (.saveBlock (h + 1) sb)).apply (.updateState (stateAt c ch (h + 1)))) ∧
      recHeight c ((s.apply (.saveBlock (h + 1) sb)).apply (.updateState (stateAt c ch (h + 1)))) = h + 1) ∧
    Settled c ch (((s.apply (.saveBlock (h + 1) sb)).apply (.updateState (stateAt c ch (h + 1)))).apply (.setHeight (h + 1)))
      (h + 1) := by
  have hlh : (stateAt c ch (h + 1)).lastHeight = h + 1 := stateAt_lastHeight g (Or.inr (by simp [hb]))
  have hih : c.initialHeight ≤ h + 1 := (g.dom _ b hb).1
  have ok1 : DiskOK c ch (s.apply (.saveBlock (h + 1) sb)) := diskOK_saveAbove hs.ok (by rw [hs.recH]; omega) sb
  have r1 : recHeight c (s.apply (.saveBlock (h + 1) sb)) = h := hs.recH
  generalize hs2 : (s.apply (.saveBlock (h + 1) sb)).apply (.updateState (stateAt c ch (h + 1))) = s2
  have s2h : s2.height = h := by rw [← hs2]; exact hs.height
  have s2s : s2.state = some (stateAt c ch (h + 1)) := by rw [← hs2]; rfl
  have s2b : ∀ k, s2.getBlock k = if h + 1 = k then some sb else s.getBlock k := by
    intro k; rw [← hs2, getBlock_updateState, getBlock_saveBlock]
  have s2r : recHeight c s2 = h + 1 := by unfold recHeight; rw [s2s]; exact hlh
  have blocks : ∀ k, c.initialHeight ≤ k → k ≤ h + 1 → ∃ b' sb', ch k = some b' ∧ s2.getBlock k = some sb' ∧ SameBlock b' sb' := by
    intro k h1 h2
    rw [s2b]
    by_cases hk : h + 1 = k
    · subst hk; exact ⟨b, sb, hb, by simp, hsb⟩
    · rw [if_neg hk]
      exact hs.ok.blocks k h1 (by rw [hs.recH]; omega)
  have s2w : WmOK s2 := hs.ok.wm.kv (by rw [← hs2]; rfl)
  have ok2 : DiskOK c ch s2 := by
    refine ⟨by rw [s2h, s2r]; omega, ?_, by rw [s2r]; exact blocks, s2w⟩
    intro st hst
    rw [s2s] at hst; cases hst
    rw [s2r]; exact ⟨rfl, hih⟩
  refine ⟨⟨ok1, r1⟩, ⟨ok2, s2r⟩, ?_⟩
  have s3h : (s2.apply (.setHeight (h + 1))).height = h + 1 := by
    rw [height_setHeight, s2h]; simp
  have s3s : (s2.apply (.setHeight (h + 1))).state = s2.state := state_setHeight _ _
  have s3r : recHeight c (s2.apply (.setHeight (h + 1))) = h + 1 := by
    unfold recHeight; rw [s3s, s2s]; exact hlh
  refine ⟨⟨by rw [s3h, s3r]; exact Nat.le_refl _, ?_, ?_, s2w.kv (kv_setHeight _ _)⟩, s3h, s3r⟩
  · intro st hst
    rw [s3s, s2s] at hst; cases hst
    rw [s3r]; exact ⟨rfl, hih⟩
  · intro k h1 h2
    rw [s3r] at h2
    rw [getBlock_setHeight]
    exact blocks k h1 h2

/-- **Every crash point of a step leaves a consistent image**, and the height it records lies between the chain
height before the step and the chain height the step was going to reach. -/
theorem crash_ok (g : GoodChain c ch top) {h h' : Nat} {ws : List SW} (a : AppliedWrites c ch h ws h') :
    ∀ (s : Store), Settled c ch s h → ∀ k,
      DiskOK c ch (s.applyPrefix k ws) ∧ h ≤ recHeight c (s.applyPrefix k ws) ∧ recHeight c (s.applyPrefix k ws) ≤ h' := by
  induction a with
  | nil =>
    intro s hs k
    have e : s.applyPrefix k [] = s := by simp [Store.applyPrefix, Store.applyAll]
    rw [e, hs.recH]; exact ⟨hs.ok, Nat.le_refl _, Nat.le_refl _⟩
  | @cons h h' ws b sb hb hsb a ih =>
    intro s hs k
    obtain ⟨⟨ok1, r1⟩, ⟨ok2, r2⟩, set3⟩ := settled_step g hs hb hsb
    have hle := a.le
    match k with
    | 0 =>
      have e : s.applyPrefix 0 (.saveBlock (h + 1) sb :: .updateState (stateAt c ch (h + 1)) :: .setHeight (h + 1) :: ws) = s := by
        simp [Store.applyPrefix, Store.applyAll]
      rw [e, hs.recH]; exact ⟨hs.ok, Nat.le_refl _, by omega⟩
    | 1 =>
      have e : s.applyPrefix 1 (.saveBlock (h + 1) sb :: .updateState (stateAt c ch (h + 1)) :: .setHeight (h + 1) :: ws)
          = s.apply (.saveBlock (h + 1) sb) := by simp [Store.applyPrefix, Store.applyAll]
      rw [e, r1]; exact ⟨ok1, Nat.le_refl _, by omega⟩
    | 2 =>
      have e : s.applyPrefix 2 (.saveBlock (h + 1) sb :: .updateState (stateAt c ch (h + 1)) :: .setHeight (h + 1) :: ws)
          = (s.apply (.saveBlock (h + 1) sb)).apply (.updateState (stateAt c ch (h + 1))) := by
        simp [Store.applyPrefix, Store.applyAll]
      rw [e, r2]; exact ⟨ok2, by omega, hle⟩
    | j + 3 =>
      obtain ⟨i1, i2, i3⟩ := ih _ set3 j
      have e : s.applyPrefix (j + 3) (.saveBlock (h + 1) sb :: .updateState (stateAt c ch (h + 1)) :: .setHeight (h + 1) :: ws)
          = (((s.apply (.saveBlock (h + 1) sb)).apply (.updateState (stateAt c ch (h + 1)))).apply (.setHeight (h + 1))).applyPrefix j ws := by
        simp [Store.applyPrefix, Store.applyAll]
      rw [e]; exact ⟨i1, by omega, i3⟩

theorem crash_image_ok {jk : Bool} (g : GoodChain c ch top) (hs : SafeJ jk c ch h0 evs n) (e : Ev) (k : Nat) :
    DiskOK c ch (n.store.applyPrefix k (deliver ch n e).2) ∧
    n.store.height ≤ recHeight c (n.store.applyPrefix k (deliver ch n e).2) ∧
    recHeight c (n.store.applyPrefix k (deliver ch n e).2) ≤ (deliver ch n e).1.store.height :=
  crash_ok g (deliver_safe g hs e).2 _ (hs.settled g) k

/-- **Restart on a consistent image** (empty caches): the node reports the recorded height, its state is the
state after exactly that height, and it satisfies the full invariant of C02 again. -/
theorem diskOK_start (g : GoodChain c ch top) {d : Store} (hd : DiskOK c ch d) :
    ∃ n ws, start c d = some (n, ws) ∧ n.store.height = recHeight c d ∧
      n.lastState.lastHeight = n.store.height ∧ Inv c ch n.store.height [] n := by
  obtain ⟨n, ws, h1, h2⟩ := start_spec g hd {}
  have hs : Safe c ch n.store.height [] n :=
    started_safe hd h2 (cachesOK_empty false ch) (by rw [h2.height]; exact Nat.le_refl _) (fun k a b => by rw [h2.height] at a; omega)
  obtain ⟨a, b⟩ := live_of_empty ch (n := n) h2.hc h2.dc h2.sH h2.sD
  exact ⟨n, ws, h1, h2.height, (hs.hs g).symm, hs, a, b⟩

/-! ## a crash during start-up itself -/

theorem diskOK_setHeight {d : Store} (hd : DiskOK c ch d) {h : Nat} (hh : h ≤ recHeight c d) :
    DiskOK c ch (d.apply (.setHeight h)) := by
  have hr : recHeight c (d.apply (.setHeight h)) = recHeight c d := by
    unfold recHeight; rw [state_setHeight]
  refine ⟨?_, ?_, ?_, hd.wm.kv (kv_setHeight _ _)⟩
  · rw [hr, height_setHeight]; have := hd.hle; split <;> omega
  · intro s hs; rw [state_setHeight] at hs; rw [hr]; exact hd.state s hs
  · intro k h1 h2; rw [hr] at h2; rw [getBlock_setHeight]; exact hd.blocks k h1 h2

/-- raising a submission watermark (8 bytes under one of the two keys) touches only the metadata -/
theorem diskOK_setWm {d : Store} (hd : DiskOK c ch d) (key : String)
    (hkey : key = Producer.hdrWmKey ∨ key = Producer.dataWmKey) (x : Nat) :
    DiskOK c ch (d.apply (.setMeta key (le64 x))) :=
  ⟨hd.hle, hd.state, hd.blocks, wmOK_setWm hd.wm key hkey x⟩

/-- if every write of a list preserves `P`, every prefix of the list leads to a store satisfying `P` -/
theorem applyPrefix_preserves {P : Store → Prop} (ws : List SW) (hstep : ∀ d w, P d → w ∈ ws → P (d.apply w)) :
    ∀ (d : Store), P d → ∀ j, P (d.applyPrefix j ws) := by
  induction ws with
  | nil => intro d hd j; simpa [Store.applyPrefix, Store.applyAll] using hd
  | cons w ws ih =>
    intro d hd j
    match j with
    | 0 => simpa [Store.applyPrefix, Store.applyAll] using hd
    | j + 1 =>
      have := ih (fun d' w' h1 h2 => hstep d' w' h1 (List.mem_cons_of_mem _ h2)) (d.apply w)
        (hstep d w hd (List.mem_cons_self ..)) j
      simpa [Store.applyPrefix, Store.applyAll] using this

theorem mem_setHeightW {d : Store} {h : Nat} {w : SW} (hw : w ∈ setHeightW d h) : w = .setHeight h := by
  unfold setHeightW at hw
  split at hw
  · simpa using hw
  · simp at hw

theorem mem_wmW {key : String} {x : Nat} {w : SW} (hw : w ∈ wmW c key x) : w = .setMeta key (le64 (c.initialHeight - 1)) := by
  unfold wmW at hw
  split at hw
  · simpa using hw
  · simp at hw

/-- **A crash during `Sync.start` itself** (between its own writes: local genesis block, raising the chain
height, raising the two submission watermarks) leaves a consistent image again. -/
theorem start_crash_ok (g : GoodChain c ch top) {d : Store} (hd : DiskOK c ch d) (caches : FNode) :
    ∃ n ws, start c d caches = some (n, ws) ∧ ∀ j, DiskOK c ch (d.applyPrefix j ws) := by
  have hpos := g.ihPos
  obtain ⟨n, ws, hstart, _⟩ := start_spec g hd caches
  refine ⟨n, ws, hstart, ?_⟩
  cases hst : d.state with
  | none =>
    have hr : ∀ d' : Store, d'.state = none → recHeight c d' = c.initialHeight - 1 := by
      intro d' h; simp [recHeight, h]
    rw [start_none c d caches hst] at hstart
    obtain ⟨_, _, _, a4⟩ := applyAll_setHeightW (d.apply (.saveBlock c.initialHeight (genesisBlock c))) (c.initialHeight - 1)
    obtain ⟨hw, dw, d4, e, _⟩ := finishStart_spec c caches (genesisState c)
      ([.saveBlock c.initialHeight (genesisBlock c)] ++
        setHeightW (d.apply (.saveBlock c.initialHeight (genesisBlock c))) (c.initialHeight - 1))
      ((hd.wm.kv (d' := d.apply (.saveBlock c.initialHeight (genesisBlock c))) rfl).kv a4)
    rw [e] at hstart
    simp only [Option.some.injEq, Prod.mk.injEq] at hstart
    rw [← hstart.2]
    intro j
    refine (applyPrefix_preserves (P := fun d' => DiskOK c ch d' ∧ d'.state = none) _ ?_ d ⟨hd, hst⟩ j).1
    intro d' w ⟨hd', hs'⟩ hw
    simp only [List.mem_append, List.mem_singleton] at hw
    rcases hw with ((rfl | hw) | hw) | hw
    · exact ⟨diskOK_saveAbove hd' (by rw [hr d' hs']; omega) _, hs'⟩
    · rw [mem_setHeightW hw]
      exact ⟨diskOK_setHeight hd' (by rw [hr d' hs']; exact Nat.le_refl _), by rw [state_setHeight]; exact hs'⟩
    · rw [mem_wmW hw]; exact ⟨diskOK_setWm hd' _ (Or.inl rfl) _, hs'⟩
    · rw [mem_wmW hw]; exact ⟨diskOK_setWm hd' _ (Or.inr rfl) _, hs'⟩
  | some s =>
    obtain ⟨_, hs2⟩ := hd.state s hst
    have hr : ∀ d' : Store, d'.state = some s → recHeight c d' = s.lastHeight := by
      intro d' h; simp [recHeight, h]
    rw [hr d hst] at hs2
    rw [start_some c d caches hst hs2] at hstart
    obtain ⟨_, _, _, a4⟩ := applyAll_setHeightW d s.lastHeight
    obtain ⟨hw, dw, d4, e, _⟩ := finishStart_spec c caches s ([] ++ setHeightW d s.lastHeight) (hd.wm.kv a4)
    rw [e] at hstart
    simp only [Option.some.injEq, Prod.mk.injEq] at hstart
    rw [← hstart.2]
    intro j
    refine (applyPrefix_preserves (P := fun d' => DiskOK c ch d' ∧ d'.state = some s) _ ?_ d ⟨hd, hst⟩ j).1
    intro d' w ⟨hd', hs'⟩ hw
    simp only [List.nil_append, List.mem_append] at hw
    rcases hw with (hw | hw) | hw
    · rw [mem_setHeightW hw]
      exact ⟨diskOK_setHeight hd' (by rw [hr d' hs']; exact Nat.le_refl _), by rw [state_setHeight]; exact hs'⟩
    · rw [mem_wmW hw]; exact ⟨diskOK_setWm hd' _ (Or.inl rfl) _, hs'⟩
    · rw [mem_wmW hw]; exact ⟨diskOK_setWm hd' _ (Or.inr rfl) _, hs'⟩


/-- the store `start` hands to the node is the image after exactly the writes it reports -/
theorem start_store (g : GoodChain c ch top) {d : Store} (hd : DiskOK c ch d) {caches : FNode} {ws : List SW}
    (h : start c d caches = some (n, ws)) : n.store = d.applyAll ws := by
  cases hst : d.state with
  | none =>
    rw [start_none c d caches hst] at h
    unfold finishStart at h
    split at h
    · simp only [Option.some.injEq, Prod.mk.injEq] at h
      obtain ⟨rfl, rfl⟩ := h
      simp only [Store.applyAll, List.foldl_append]; rfl
    · cases h
  | some s =>
    have hle : c.initialHeight ≤ s.lastHeight := by
      have := (hd.state s hst).2
      simpa [recHeight, hst] using this
    rw [start_some c d caches hst hle] at h
    unfold finishStart at h
    split at h
    · simp only [Option.some.injEq, Prod.mk.injEq] at h
      obtain ⟨rfl, rfl⟩ := h
      simp only [Store.applyAll, List.foldl_append]; rfl
    · cases h

/-! ## restart on an image with the cache files of an earlier generation -/

/-- the liveness invariant survives a growth of the chain height with the caches unchanged: what an earlier
generation of the caches says about heights above its own height is still true above a larger height -/
theorem Live.raise {n' : FNode} (hl : Live ch evs n) (h1 : n.store.height ≤ n'.store.height)
    (h2 : n'.hdrCache = n.hdrCache) (h3 : n'.datCache = n.datCache) (h4 : n'.seenH = n.seenH)
    (h5 : n'.seenD = n.seenD) : Live ch evs n' := by
  have kH : keysH n' = keysH n := by unfold keysH; rw [h2]
  have kD : keysD n' = keysD n := by unfold keysD; rw [h3]
  refine ⟨?_, ?_, ?_, ?_, ?_, ?_⟩
  · intro k b hb hlt he; rw [kH]; exact hl.hdrDel k b hb (by omega) he
  · intro k b hb hlt hne he; rw [kD]; exact hl.datDel k b hb (by omega) hne he
  · intro k b hb hlt hem he; rw [kD]; exact hl.datEmp k b hb (by omega) hem he
  · intro x hx
    rw [h4] at hx
    obtain ⟨k, b, hb, e, h⟩ := hl.seenHs x hx
    exact ⟨k, b, hb, e, by rw [kH]; exact h.imp (fun h => by omega) id⟩
  · intro x hx
    rw [h5] at hx
    obtain ⟨k, b, hb, hne, e, h⟩ := hl.seenDs x hx
    exact ⟨k, b, hb, hne, e, by rw [kD]; exact h.imp (fun h => by omega) id⟩
  · rw [kH, kD]; exact hl.hdrEmp

variable {jk : Bool}

/-- **Restart on a consistent image with the caches of any sound generation** (`NewManager`, then the start of
`SyncLoop`): succeeds; the node is at least at the recorded height, its state is the state after exactly its
height, the safety invariant holds (relative to the events that generation had seen), nothing is applicable. -/
theorem diskOK_boot (g : GoodChain c ch top) {d : Store} (hd : DiskOK c ch d) {G : FNode}
    (hc : CachesOK jk ch evs G) :
    ∃ n ws, boot c d G = some (n, ws) ∧ recHeight c d ≤ n.store.height ∧
      n.lastState.lastHeight = n.store.height ∧ SafeJ jk c ch (recHeight c d) evs n ∧ Quiet n ∧
      ∀ j, DiskOK c ch (d.applyPrefix j ws) := by
  obtain ⟨n0, ws0, h1, hpre⟩ := start_crash_ok g hd G
  obtain ⟨n0', ws0', h1', h2⟩ := start_spec g hd G
  rw [h1] at h1'; cases h1'
  have hs0 : SafeJ jk c ch (recHeight c d) evs n0 :=
    started_safe hd h2 hc (Nat.le_refl _) (fun k a b => by omega)
  obtain ⟨a1, a2, a3⟩ := loopStart_safe g hs0
  refine ⟨_, _, boot_of_start h1, ?_, (a1.hs g).symm, a1, a3, ?_⟩
  · have := a2.le; rw [h2.height] at this; exact this
  · intro j
    by_cases hj : j ≤ ws0.length
    · have e : d.applyPrefix j (ws0 ++ (loopStart n0).2) = d.applyPrefix j ws0 := by
        simp [Store.applyPrefix, List.take_append_of_le_length hj]
      rw [e]; exact hpre j
    · have e : d.applyPrefix j (ws0 ++ (loopStart n0).2) = (d.applyAll ws0).applyPrefix (j - ws0.length) (loopStart n0).2 := by
        simp only [Store.applyPrefix, Store.applyAll]
        rw [List.take_append, List.foldl_append, List.take_of_length_le (by omega)]
      rw [e]
      have hst : n0.store = d.applyAll ws0 := start_store g hd h1
      rw [← hst]
      exact (crash_ok g a2 _ (hs0.settled g) _).1

/-- with the caches lost the start of the loop has nothing to do: the node is exactly at the recorded height -/
theorem diskOK_boot_empty (g : GoodChain c ch top) {d : Store} (hd : DiskOK c ch d) :
    ∃ n ws, boot c d = some (n, ws) ∧ start c d = some (n, ws) ∧ n.store.height = recHeight c d ∧
      n.lastState.lastHeight = n.store.height ∧ Inv c ch n.store.height [] n := by
  obtain ⟨n, ws, h1, h2, h3, h4⟩ := diskOK_start g hd
  obtain ⟨_, _, h1', hst⟩ := start_spec g hd {}
  rw [h1] at h1'; cases h1'
  have hb := boot_of_start h1
  rw [loopStart_noHeaders hst.hc, List.append_nil] at hb
  exact ⟨n, ws, hb, h1, h2, h3, h4⟩

/-- … and with the caches of a generation that satisfied C02's invariant at a height not above the recorded one
(the cache files of any earlier clean stop of the same node), C02's invariant holds again: the stale seen-sets and
items are consistent with the larger height, and what they already allow has been applied -/
theorem diskOK_boot_inv (g : GoodChain c ch top) {d : Store} (hd : DiskOK c ch d) {G : FNode} {hG : Nat}
    (hi : Inv c ch hG evs G) (hle : G.store.height ≤ recHeight c d) :
    ∃ n ws, boot c d G = some (n, ws) ∧ recHeight c d ≤ n.store.height ∧
      n.lastState.lastHeight = n.store.height ∧ Inv c ch (recHeight c d) evs n ∧
      ∀ j, DiskOK c ch (d.applyPrefix j ws) := by
  obtain ⟨n0, ws0, h1, h2⟩ := start_spec g hd G
  have hs0 : Safe c ch (recHeight c d) evs n0 :=
    started_safe hd h2 hi.safe.caches (Nat.le_refl _) (fun k a b => by omega)
  have hl0 : Live ch evs n0 := hi.live.raise (by rw [h2.height]; exact hle) h2.hc h2.dc h2.sH h2.sD
  obtain ⟨n, ws, b1, b2, b3, b4, b5, b6⟩ := diskOK_boot g hd hi.safe.caches
  have e := boot_of_start h1
  rw [b1] at e
  simp only [Option.some.injEq, Prod.mk.injEq] at e
  refine ⟨n, ws, b1, b2, b3, ⟨b4, ?_, b5⟩, b6⟩
  rw [e.1]
  exact (trySync_live g _ n0 hs0 hl0).1

/-! ## any number of crashes and restarts -/

/-- nodes reachable from a fresh start by genuine events, clean restarts, crashes at **any** write boundary of
any step, each followed by a restart (`boot`) on the image — with the caches lost (`crash`) or with the cache files
of an earlier generation (`crashStale`: the caches of any reachable node whose height is not above the recorded
height; in particular of any earlier clean stop of the same node) — and (`image`) a start on any consistent image,
in particular on the image left by a crash *during* an earlier start (`diskOK_boot`) -/
inductive Reach (c : Cfg) (ch : PChain) : FNode → Prop
  | fresh : Reach c ch (fresh c)
  | ev {n : FNode} (e : Ev) : Reach c ch n → Reach c ch (deliver ch n e).1
  | restart {n : FNode} : Reach c ch n → Reach c ch (reboot c n)
  | crash {n n' : FNode} {ws : List SW} (e : Ev) (k : Nat) : Reach c ch n →
      boot c (n.store.applyPrefix k (deliver ch n e).2) = some (n', ws) → Reach c ch n'
  | crashStale {n n₀ n' : FNode} {ws : List SW} (e : Ev) (k : Nat) : Reach c ch n → Reach c ch n₀ →
      n₀.store.height ≤ recHeight c (n.store.applyPrefix k (deliver ch n e).2) →
      boot c (n.store.applyPrefix k (deliver ch n e).2) n₀ = some (n', ws) → Reach c ch n'
  | image {n : FNode} {d : Store} {ws : List SW} : DiskOK c ch d → boot c d = some (n, ws) → Reach c ch n

theorem Inv.rebase (hi : Inv c ch h0 evs n) : Inv c ch n.store.height evs n :=
  ⟨{ hi.safe with ge := Nat.le_refl _, sound := fun k a b => by omega }, hi.live, hi.quiet⟩

theorem SafeJ.rebase (hs : SafeJ jk c ch h0 evs n) : SafeJ jk c ch n.store.height evs n :=
  { hs with ge := Nat.le_refl _, sound := fun k a b => by omega }

/-- a crash never blocks the restart: `boot` (with the caches lost) succeeds on the image of every crash point -/
theorem crash_restarts (g : GoodChain c ch top) (hs : SafeJ jk c ch h0 evs n) (e : Ev) (k : Nat) :
    ∃ n' ws, boot c (n.store.applyPrefix k (deliver ch n e).2) = some (n', ws) ∧
      DiskOK c ch (n.store.applyPrefix k (deliver ch n e).2) ∧
      n'.store.height = recHeight c (n.store.applyPrefix k (deliver ch n e).2) ∧
      n'.lastState.lastHeight = n'.store.height ∧ Inv c ch n'.store.height [] n' := by
  have h := (crash_image_ok g hs e k).1
  obtain ⟨n', ws, a1, _, a2, a3, a4⟩ := diskOK_boot_empty g h
  exact ⟨n', ws, a1, h, a2, a3, a4⟩

theorem reach_safe (g : GoodChain c ch top) {n : FNode} (r : Reach c ch n) :
    ∃ evs, Safe c ch n.store.height evs n ∧ Quiet n := by
  induction r with
  | fresh => exact ⟨[], (fresh_safe g).rebase, fresh_quiet g⟩
  | ev e _ ih => obtain ⟨evs, hs, hq⟩ := ih; exact ⟨_, (deliver_safe g hs e).1.rebase, deliver_quiet g hs hq e⟩
  | restart _ ih =>
    obtain ⟨evs, hs, hq⟩ := ih
    obtain ⟨a1, a2, _⟩ := stepOp_safe g hs hq .restart
    exact ⟨_, a1.rebase, a2⟩
  | crash e k _ hst ih =>
    obtain ⟨evs, hs, _⟩ := ih
    obtain ⟨n', ws, a1, _, _, _, a4⟩ := crash_restarts g hs e k
    rw [a1] at hst; cases hst
    exact ⟨[], a4.safe, a4.quiet⟩
  | crashStale e k _ _ _ hst ih ih₀ =>
    obtain ⟨evs, hs, _⟩ := ih
    obtain ⟨evs₀, hs₀, _⟩ := ih₀
    obtain ⟨n', ws, a1, _, _, a4, a5, _⟩ := diskOK_boot g (crash_image_ok g hs e k).1 hs₀.caches
    rw [a1] at hst; cases hst
    exact ⟨evs₀, a4.rebase, a5⟩
  | image hd hst =>
    obtain ⟨n', ws', a1, _, _, _, a4⟩ := diskOK_boot_empty g hd
    rw [a1] at hst; cases hst
    exact ⟨[], a4.safe, a4.quiet⟩

theorem reach_inv (g : GoodChain c ch top) (dc : DistinctCommitments ch) {n : FNode} (r : Reach c ch n) :
    ∃ evs, Inv c ch n.store.height evs n := by
  induction r with
  | fresh => exact ⟨[], (fresh_inv g).rebase⟩
  | ev e _ ih => obtain ⟨evs, hi⟩ := ih; exact ⟨_, (deliver_inv g dc hi e).rebase⟩
  | restart _ ih => obtain ⟨evs, hi⟩ := ih; exact ⟨_, (stepOp_inv g dc hi .restart).rebase⟩
  | crash e k _ hst ih =>
    obtain ⟨evs, hi⟩ := ih
    obtain ⟨n', ws, a1, _, _, _, a4⟩ := crash_restarts g hi.safe e k
    rw [a1] at hst; cases hst
    exact ⟨[], a4⟩
  | crashStale e k _ _ hle hst ih ih₀ =>
    obtain ⟨evs, hi⟩ := ih
    obtain ⟨evs₀, hi₀⟩ := ih₀
    obtain ⟨n', ws, a1, _, _, a4, _⟩ := diskOK_boot_inv g (crash_image_ok g hi.safe e k).1 hi₀ hle
    rw [a1] at hst; cases hst
    exact ⟨evs₀, a4.rebase⟩
  | image hd hst =>
    obtain ⟨n', ws', a1, _, _, _, a4⟩ := diskOK_boot_empty g hd
    rw [a1] at hst; cases hst
    exact ⟨[], a4⟩

/-- convergence from any node satisfying the invariant, for any further events and clean restarts -/
theorem converges_from (g : GoodChain c ch top) (dc : DistinctCommitments ch) (hi : Inv c ch h0 evs n)
    (ops : List Op) (h : Nat) (hready : ∀ k, n.store.height < k → k ≤ h → Delivered ch (evsOf ops) k) :
    h ≤ (runFrom c ch n ops).store.height := by
  have hi' := runFrom_inv g dc ops hi.rebase
  exact hi'.converges h (fun k a b => (hready k a b).mono (fun _ hx => List.mem_append_right _ hx))

end Sync
