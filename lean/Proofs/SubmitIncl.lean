import Proofs.SubmitRestart

/-! The inclusion loop `Submit.includerPass` (C07): one advance as a function, the pass invariant, fuel adequacy. -/
namespace Submit
open Wire Chain Producer

/-- the three durable writes of one advance to height `h` with the recorded DA heights `hd`, `dd` -/
def incWrites (h hd dd : Nat) : List SW :=
  [SW.setMeta (rhbKey h "h") (le64 hd), SW.setMeta (rhbKey h "d") (le64 dd), SW.setMeta daIncKey (le64 h)]

/-- the node after advancing to `h` -/
def advance (a : ANode) (h hd dd : Nat) : ANode :=
  { a with n := { a.n with store := a.n.store.applyAll (incWrites h hd dd) }, daInc := h, finals := h :: a.finals }

/-- the DA heights the inclusion loop records for the block at `h`, if both parts are marked -/
def recHeights (a : ANode) (h : Nat) : Option (Nat × Nat) :=
  match a.n.store.getBlock h with
  | none => none
  | some b =>
    match markOf a.hMarks b.sh.hdr.hash with
    | none => none
    | some hd =>
      if b.data.daCommitment = emptyDataHash then some (hd, hd)
      else match markOf a.dMarks b.data.daCommitment with
        | none => none
        | some dd => some (hd, dd)

/-- one advance of the DA-included height, if the next height is stored and marked -/
def incNext (a : ANode) : Option (ANode × List SW) :=
  if a.n.store.height < a.daInc + 1 then none
  else match recHeights a (a.daInc + 1) with
    | none => none
    | some (hd, dd) => some (advance a (a.daInc + 1) hd dd, incWrites (a.daInc + 1) hd dd)

theorem includerPass_zero (a : ANode) (ws : List SW) : includerPass 0 a ws = (a, ws) := rfl

theorem includerPass_succ (fuel : Nat) (a : ANode) (ws : List SW) :
    includerPass (fuel + 1) a ws =
      match incNext a with
      | none => (a, ws)
      | some (a', w) => includerPass fuel a' (ws ++ w) := by
  rw [includerPass]
  unfold incNext recHeights isDAIncluded
  by_cases hh : a.n.store.height < a.daInc + 1
  · simp [hh]
  · simp only [hh, ↓reduceIte]
    cases hb : a.n.store.getBlock (a.daInc + 1) with
    | none => simp
    | some b =>
      cases hm : markOf a.hMarks b.sh.hdr.hash with
      | none => simp [hm]
      | some hd =>
        by_cases he : b.data.daCommitment = emptyDataHash
        · simp [hm, he, advance, incWrites, Store.applyAll]
        · cases hdm : markOf a.dMarks b.data.daCommitment with
          | none => simp [hm, hdm, he]
          | some dd => simp [hm, hdm, he, advance, incWrites, Store.applyAll]

/-- what the inclusion loop never touches -/
structure IFrame (a a' : ANode) : Prop where
  hMarks : a'.hMarks = a.hMarks
  dMarks : a'.dMarks = a.dMarks
  daBlobs : a'.daBlobs = a.daBlobs
  daH : a'.daH = a.daH
  hdrWm : a'.n.hdrWm = a.n.hdrWm
  dataWm : a'.n.dataWm = a.n.dataWm
  lastState : a'.n.lastState = a.n.lastState
  blocks : a'.n.store.blocks = a.n.store.blocks
  height : a'.n.store.height = a.n.store.height
  state : a'.n.store.state = a.n.store.state

theorem IFrame.refl (a : ANode) : IFrame a a := ⟨rfl, rfl, rfl, rfl, rfl, rfl, rfl, rfl, rfl, rfl⟩

theorem IFrame.trans {a b c : ANode} (h1 : IFrame a b) (h2 : IFrame b c) : IFrame a c :=
  ⟨h2.hMarks.trans h1.hMarks, h2.dMarks.trans h1.dMarks, h2.daBlobs.trans h1.daBlobs, h2.daH.trans h1.daH,
   h2.hdrWm.trans h1.hdrWm, h2.dataWm.trans h1.dataWm, h2.lastState.trans h1.lastState, h2.blocks.trans h1.blocks,
   h2.height.trans h1.height, h2.state.trans h1.state⟩

theorem advance_frame (a : ANode) (h hd dd : Nat) : IFrame a (advance a h hd dd) :=
  ⟨rfl, rfl, rfl, rfl, rfl, rfl, rfl, rfl, rfl, rfl⟩

theorem IFrame.getBlock {a a' : ANode} (h : IFrame a a') (k : Nat) : a'.n.store.getBlock k = a.n.store.getBlock k := by
  simp [Store.getBlock, h.blocks]

theorem IFrame.recHeights {a a' : ANode} (h : IFrame a a') (k : Nat) : recHeights a' k = recHeights a k := by
  simp [Submit.recHeights, h.getBlock, h.hMarks, h.dMarks]

theorem incNext_some {a a' : ANode} {w : List SW} (h : incNext a = some (a', w)) :
    a.daInc + 1 ≤ a.n.store.height ∧ ∃ hd dd, recHeights a (a.daInc + 1) = some (hd, dd) ∧
      a' = advance a (a.daInc + 1) hd dd ∧ w = incWrites (a.daInc + 1) hd dd := by
  unfold incNext at h
  split at h
  · simp at h
  · split at h
    · simp at h
    · rename_i hd dd hr
      simp only [Option.some.injEq, Prod.mk.injEq] at h
      exact ⟨by omega, hd, dd, hr, h.1.symm, h.2.symm⟩

theorem flatMap_congr' {α β : Type} {l : List α} {f g : α → List β} (h : ∀ x ∈ l, f x = g x) :
    l.flatMap f = l.flatMap g := by
  induction l with
  | nil => rfl
  | cons x xs ih =>
    simp only [List.flatMap_cons]
    rw [h x (by simp), ih (fun y hy => h y (by simp [hy]))]

theorem includerPass_mono (fuel : Nat) (a : ANode) (ws : List SW) : a.daInc ≤ (includerPass fuel a ws).1.daInc := by
  induction fuel generalizing a ws with
  | zero => exact Nat.le_refl _
  | succ n ih =>
    rw [includerPass_succ]
    cases hn : incNext a with
    | none => exact Nat.le_refl _
    | some p =>
      obtain ⟨_, hd, dd, _, e, _⟩ := incNext_some hn
      refine Nat.le_trans ?_ (ih _ _)
      rw [e]; show a.daInc ≤ a.daInc + 1; omega

/-- the pass invariant relative to the node `a0` the pass started with -/
structure PassInv (a0 a : ANode) (ws : List SW) : Prop where
  mono : a0.daInc ≤ a.daInc
  frame : IFrame a0 a
  finals : a.finals = (List.range' (a0.daInc + 1) (a.daInc - a0.daInc)).reverse ++ a0.finals
  store : a.n.store = a0.n.store.applyAll ws
  /-- the writes are, for each new height in order, `rhb/<h>/h`, `rhb/<h>/d`, `d` with the DA heights of the marks -/
  writes : ∃ rec : Nat → Nat × Nat, (∀ h, a0.daInc < h → h ≤ a.daInc → recHeights a0 h = some (rec h)) ∧
    ws = (List.range' (a0.daInc + 1) (a.daInc - a0.daInc)).flatMap fun h => incWrites h (rec h).1 (rec h).2
  le : a0.daInc ≤ a0.n.store.height → a.daInc ≤ a.n.store.height
  persisted : a0.daInc < a.daInc →
    a.n.store.getMeta daIncKey = some (le64 a.daInc) ∧ a.finals.head? = some a.daInc

theorem PassInv.init (a0 : ANode) : PassInv a0 a0 [] :=
  { mono := Nat.le_refl _, frame := IFrame.refl _, finals := by simp, store := rfl,
    writes := ⟨fun _ => (0, 0), fun h h1 h2 => by omega, by simp⟩, le := id, persisted := fun h => by omega }

theorem PassInv.step {a0 a a' : ANode} {ws w : List SW} (h : PassInv a0 a ws) (hn : incNext a = some (a', w)) :
    PassInv a0 a' (ws ++ w) := by
  obtain ⟨hle, hd, dd, hr, rfl, rfl⟩ := incNext_some hn
  have hm := h.mono
  have hk : a.daInc + 1 - a0.daInc = (a.daInc - a0.daInc) + 1 := by omega
  refine { mono := ?_, frame := h.frame.trans (advance_frame ..), finals := ?_, store := ?_, writes := ?_, le := ?_,
           persisted := ?_ }
  · show a0.daInc ≤ a.daInc + 1; omega
  · show (a.daInc + 1) :: a.finals = (List.range' (a0.daInc + 1) (a.daInc + 1 - a0.daInc)).reverse ++ a0.finals
    rw [hk, List.range'_concat, h.finals]
    simp; omega
  · show a.n.store.applyAll _ = _
    rw [h.store]; simp [Store.applyAll]
  · obtain ⟨rec, hrec, hws⟩ := h.writes
    refine ⟨fun k => if k = a.daInc + 1 then (hd, dd) else rec k, ?_, ?_⟩
    · intro k k1 k2
      have k2' : k ≤ a.daInc + 1 := k2
      by_cases hk' : k = a.daInc + 1
      · simp only [hk', ↓reduceIte]
        rw [← h.frame.recHeights]; exact hr
      · simp only [hk', ↓reduceIte]
        exact hrec k k1 (by omega)
    · show ws ++ incWrites (a.daInc + 1) hd dd = (List.range' (a0.daInc + 1) (a.daInc + 1 - a0.daInc)).flatMap _
      rw [hk, List.range'_concat, List.flatMap_append, hws]
      have : a0.daInc + 1 + 1 * (a.daInc - a0.daInc) = a.daInc + 1 := by omega
      simp only [this, List.flatMap_singleton, ↓reduceIte]
      congr 1
      apply flatMap_congr'
      intro k hk'
      have : k ≠ a.daInc + 1 := by
        simp [List.mem_range'] at hk'; omega
      simp [this]
  · intro _
    show a.daInc + 1 ≤ (a.n.store.applyAll _).height
    exact hle
  · intro _
    exact ⟨by simp [advance, incWrites, Store.applyAll, Store.apply, Store.getMeta], rfl⟩

/-- **the pass invariant holds of the result of the pass**, for every fuel -/
theorem includerPass_inv (fuel : Nat) (a0 a : ANode) (ws : List SW) (h : PassInv a0 a ws) :
    PassInv a0 (includerPass fuel a ws).1 (includerPass fuel a ws).2 := by
  induction fuel generalizing a ws with
  | zero => exact h
  | succ n ih =>
    rw [includerPass_succ]
    cases hn : incNext a with
    | none => exact h
    | some p => exact ih _ _ (h.step hn)

/-- the height `k` is stored and both its parts are marked DA-included -/
def Ready (a : ANode) (k : Nat) : Prop := k ≤ a.n.store.height ∧ ∃ r, recHeights a k = some r

theorem incNext_of_ready {a : ANode} (h : Ready a (a.daInc + 1)) :
    ∃ hd dd, incNext a = some (advance a (a.daInc + 1) hd dd, incWrites (a.daInc + 1) hd dd) := by
  obtain ⟨h1, ⟨hd, dd⟩, hr⟩ := h
  exact ⟨hd, dd, by unfold incNext; rw [if_neg (by omega), hr]⟩

/-- **fuel adequacy / eventually**: if every height in `(daInc, h]` is stored with both marks present, a pass with at
least `h − daInc` units of fuel ends with `daInc ≥ h` -/
theorem includerPass_reaches (fuel : Nat) (a : ANode) (ws : List SW) (h : Nat)
    (hr : ∀ k, a.daInc < k → k ≤ h → Ready a k) (hf : h - a.daInc ≤ fuel) :
    h ≤ (includerPass fuel a ws).1.daInc := by
  induction fuel generalizing a ws with
  | zero => simp [includerPass_zero]; omega
  | succ n ih =>
    by_cases hge : h ≤ a.daInc
    · exact Nat.le_trans hge (includerPass_mono _ a ws)
    · obtain ⟨hd, dd, hn⟩ := incNext_of_ready (hr (a.daInc + 1) (by omega) (by omega))
      rw [includerPass_succ, hn]
      apply ih
      · intro k k1 k2
        have k1' : a.daInc + 1 < k := k1
        obtain ⟨r1, r, r2⟩ := hr k (by omega) k2
        exact ⟨r1, r, by rw [(advance_frame a _ hd dd).recHeights]; exact r2⟩
      · show h - (a.daInc + 1) ≤ n; omega

/-! ### unfolding `recHeights` / `Ready` into the property's vocabulary -/

theorem recHeights_some {a : ANode} {h hd dd : Nat} (hr : recHeights a h = some (hd, dd)) :
    ∃ b, a.n.store.getBlock h = some b ∧ markOf a.hMarks b.sh.hdr.hash = some hd ∧
      ((b.data.daCommitment = emptyDataHash ∧ dd = hd) ∨
       (b.data.daCommitment ≠ emptyDataHash ∧ markOf a.dMarks b.data.daCommitment = some dd)) := by
  unfold recHeights at hr
  split at hr
  · simp at hr
  · rename_i b hb
    split at hr
    · simp at hr
    · rename_i hd' hm
      split at hr
      · rename_i he
        simp only [Option.some.injEq, Prod.mk.injEq] at hr
        exact ⟨b, hb, by rw [hm, hr.1], Or.inl ⟨he, by rw [← hr.1, ← hr.2]⟩⟩
      · rename_i he
        split at hr
        · simp at hr
        · rename_i dd' hdm
          simp only [Option.some.injEq, Prod.mk.injEq] at hr
          exact ⟨b, hb, by rw [hm, hr.1], Or.inr ⟨he, by rw [hdm, hr.2]⟩⟩

theorem ready_of_marked {a : ANode} {k : Nat} {b : Block} (hk : k ≤ a.n.store.height)
    (hb : a.n.store.getBlock k = some b) (hm : (markOf a.hMarks b.sh.hdr.hash).isSome)
    (hd : b.data.daCommitment = emptyDataHash ∨ (markOf a.dMarks b.data.daCommitment).isSome) : Ready a k := by
  refine ⟨hk, ?_⟩
  unfold recHeights
  rw [hb]
  obtain ⟨hd', hm'⟩ := Option.isSome_iff_exists.mp hm
  simp only [hm']
  by_cases he : b.data.daCommitment = emptyDataHash
  · exact ⟨_, by rw [if_pos he]⟩
  · rcases hd with hd | hd
    · exact absurd hd he
    · obtain ⟨dd, hdm⟩ := Option.isSome_iff_exists.mp hd
      exact ⟨(hd', dd), by rw [if_neg he]; simp only [hdm]⟩

theorem mem_of_markOf {m : List (Bytes × Nat)} {k : Bytes} {v : Nat} (h : markOf m k = some v) : (k, v) ∈ m := by
  unfold markOf at h
  cases hf : m.find? (fun x => decide (x.1 = k)) with
  | none => rw [hf] at h; simp at h
  | some e =>
    rw [hf] at h
    have h1 := List.mem_of_find?_eq_some hf
    have h2 := List.find?_some hf
    simp only [Option.map_some, Option.some.injEq] at h
    have : e = (k, v) := by
      cases e; simp at h2 h; simp [h2, h]
    rw [← this]; exact h1

end Submit
