import Proofs.FNodeScan
import Proofs.SubmitReach

/-!
# The DA-includer of a full node: frame lemmas, sound marks, the persisted DA-included height

* the includer writes metadata only (`rhb/<h>/h`, `rhb/<h>/d`, `d`): chain height, state, blocks and the two
  submission watermarks are untouched, so the invariants of C02 / C05 survive (`metaWrites_*`);
* every DA-inclusion mark a scan sets comes from an accepted blob at a DA height the scan passed
  (`scan_hMarks_sound`, `scan_dMarks_sound`); every accepted blob at a passed height is marked (`scan_handoff`);
* `metaInc`: the DA-included height a store persists, along prefixes of the includer's writes.
-/
namespace FullNode
open Wire Chain Sync Retrieve Submit

/-! ## metadata writes -/

/-- a write of the includer: metadata under a key that is not one of the two submission watermarks -/
def IsIncMeta (w : SW) : Prop := ∃ k v, w = SW.setMeta k v ∧ k ≠ Producer.hdrWmKey ∧ k ≠ Producer.dataWmKey

theorem apply_incMeta {s : Store} {w : SW} (h : IsIncMeta w) :
    (s.apply w).height = s.height ∧ (s.apply w).state = s.state ∧ (s.apply w).blocks = s.blocks ∧
    (WmOK s → WmOK (s.apply w)) := by
  obtain ⟨k, v, rfl, h1, h2⟩ := h
  refine ⟨rfl, rfl, rfl, fun hw => ?_⟩
  unfold WmOK at hw ⊢
  rw [wmOf_setMeta_other s k Producer.hdrWmKey v (Ne.symm h1), wmOf_setMeta_other s k Producer.dataWmKey v (Ne.symm h2)]
  exact hw

theorem applyAll_incMeta : ∀ (ws : List SW) (s : Store), (∀ w ∈ ws, IsIncMeta w) →
    (s.applyAll ws).height = s.height ∧ (s.applyAll ws).state = s.state ∧ (s.applyAll ws).blocks = s.blocks ∧
    (WmOK s → WmOK (s.applyAll ws)) := by
  intro ws
  induction ws with
  | nil => intro s _; exact ⟨rfl, rfl, rfl, id⟩
  | cons w rest ih =>
    intro s h
    obtain ⟨a1, a2, a3, a4⟩ := apply_incMeta (s := s) (h w (by simp))
    obtain ⟨b1, b2, b3, b4⟩ := ih (s.apply w) (fun x hx => h x (by simp [hx]))
    simp only [Store.applyAll, List.foldl_cons] at b1 b2 b3 b4 ⊢
    exact ⟨by rw [b1, a1], by rw [b2, a2], by rw [b3, a3], fun hw => b4 (a4 hw)⟩

theorem incMeta_noState {ws : List SW} (h : ∀ w ∈ ws, IsIncMeta w) : ∀ st, SW.updateState st ∉ ws := by
  intro st hm
  obtain ⟨k, v, e, _⟩ := h _ hm
  cases e

theorem getBlock_of_blocks {s s' : Store} (h : s'.blocks = s.blocks) (k : Nat) : s'.getBlock k = s.getBlock k := by
  unfold Store.getBlock; rw [h]

/-- the safety invariant of C02 survives the includer's writes -/
theorem safe_incMeta {c : Sync.Cfg} {ch : PChain} {h0 : Nat} {evs : List Ev} {n : FNode} (hs : Safe c ch h0 evs n)
    {ws : List SW} (h : ∀ w ∈ ws, IsIncMeta w) : Safe c ch h0 evs { n with store := n.store.applyAll ws } := by
  obtain ⟨a1, a2, a3, a4⟩ := applyAll_incMeta ws n.store h
  have gb : ∀ k, (n.store.applyAll ws).getBlock k = n.store.getBlock k := getBlock_of_blocks a3
  exact
    { alive := hs.alive
      ge := by show h0 ≤ (n.store.applyAll ws).height; rw [a1]; exact hs.ge
      low := by show _ ≤ (n.store.applyAll ws).height + 1; rw [a1]; exact hs.low
      st := by show n.lastState = stateAt c ch (n.store.applyAll ws).height; rw [a1]; exact hs.st
      disk := by
        show ((n.store.applyAll ws).state = some n.lastState ∧ _ ≤ (n.store.applyAll ws).height) ∨
          ((n.store.applyAll ws).state = none ∧ (n.store.applyAll ws).height + 1 = _)
        rw [a1, a2]; exact hs.disk
      gen := by
        show (n.store.applyAll ws).height + 1 = _ → (n.store.applyAll ws).getBlock _ = _
        rw [a1, gb]; exact hs.gen
      chain := by
        intro k h1 h2
        have h2' : k ≤ (n.store.applyAll ws).height := h2
        rw [a1] at h2'
        obtain ⟨b, sb, x1, x2, x3⟩ := hs.chain k h1 h2'
        exact ⟨b, sb, x1, by show (n.store.applyAll ws).getBlock k = _; rw [gb]; exact x2, x3⟩
      hdrGen := hs.hdrGen
      dat := hs.dat
      hdrSrc := hs.hdrSrc
      sound := by
        intro k h1 h2
        have h2' : k ≤ (n.store.applyAll ws).height := h2
        rw [a1] at h2'
        exact hs.sound k h1 h2'
      wm := a4 hs.wm }

/-- a consistent image stays consistent under the includer's writes, with the same recorded height -/
theorem diskOK_incMeta {c : Sync.Cfg} {ch : PChain} {d : Store} (hd : DiskOK c ch d) {ws : List SW}
    (h : ∀ w ∈ ws, IsIncMeta w) : DiskOK c ch (d.applyAll ws) ∧ recHeight c (d.applyAll ws) = recHeight c d := by
  obtain ⟨a1, a2, a3, a4⟩ := applyAll_incMeta ws d h
  have hr : recHeight c (d.applyAll ws) = recHeight c d := by unfold recHeight; rw [a2]
  refine ⟨⟨by rw [a1, hr]; exact hd.hle, ?_, ?_, a4 hd.wm⟩, hr⟩
  · intro s hs; rw [a2] at hs; rw [hr]; exact hd.state s hs
  · intro k h1 h2
    rw [hr] at h2
    obtain ⟨b, sb, x1, x2, x3⟩ := hd.blocks k h1 h2
    exact ⟨b, sb, x1, by rw [getBlock_of_blocks a3]; exact x2, x3⟩

theorem take_incMeta {ws : List SW} (h : ∀ w ∈ ws, IsIncMeta w) (j : Nat) : ∀ w ∈ ws.take j, IsIncMeta w :=
  fun w hw => h w (List.mem_of_mem_take hw)

/-! ## the keys of the includer -/

theorem daIncKey_ne_hdrWm : daIncKey ≠ Producer.hdrWmKey := by decide
theorem daIncKey_ne_dataWm : daIncKey ≠ Producer.dataWmKey := by decide

theorem incWrites_incMeta (h hd dd : Nat) : ∀ w ∈ incWrites h hd dd, IsIncMeta w := by
  intro w hw
  simp only [incWrites, List.mem_cons, List.mem_singleton, List.not_mem_nil, or_false] at hw
  rcases hw with rfl | rfl | rfl
  · exact ⟨_, _, rfl, rhbKey_ne (by decide) _ _, rhbKey_ne (by decide) _ _⟩
  · exact ⟨_, _, rfl, rhbKey_ne (by decide) _ _, rhbKey_ne (by decide) _ _⟩
  · exact ⟨_, _, rfl, daIncKey_ne_hdrWm, daIncKey_ne_dataWm⟩

/-! ## what a store persists as DA-included height -/

/-- the value of the metadata key `d` (`0` if absent or not eight bytes) -/
def metaInc (st : Store) : Nat :=
  match st.getMeta daIncKey with
  | some b => if b.length = 8 then Bytes.unLe b else 0
  | none => 0

theorem daIncOf_eq (C : Cfg) (st : Store) :
    daIncOf C st = if C.sync.initialHeight > 1 ∧ metaInc st < C.sync.initialHeight - 1 then C.sync.initialHeight - 1
      else metaInc st := rfl

theorem daIncOf_le {C : Cfg} {st : Store} {N : Nat} (h1 : metaInc st ≤ N) (h2 : C.sync.initialHeight - 1 ≤ N) :
    daIncOf C st ≤ N := by
  rw [daIncOf_eq]; split <;> omega

theorem daIncOf_ge (C : Cfg) (st : Store) : C.sync.initialHeight - 1 ≤ daIncOf C st := by
  rw [daIncOf_eq]; split <;> omega

theorem metaInc_kv {s s' : Store} (h : s'.kv = s.kv) : metaInc s' = metaInc s := by
  unfold metaInc Store.getMeta; rw [h]

/-- one write keeps `metaInc ≤ N` if it is not a write of `d`, or writes `le64 m` with `m ≤ N` -/
theorem metaInc_apply_le {s : Store} {N : Nat} (hs : metaInc s ≤ N) (w : SW)
    (hw : ∀ v, w = SW.setMeta daIncKey v → ∃ m, v = le64 m ∧ m ≤ N) : metaInc (s.apply w) ≤ N := by
  cases w with
  | saveBlock k b => exact hs
  | updateState st => exact hs
  | setHeight k => rw [metaInc_kv (kv_setHeight s k)]; exact hs
  | setMeta k v =>
    by_cases hk : k = daIncKey
    · subst hk
      obtain ⟨m, rfl, hm⟩ := hw v rfl
      have : metaInc (s.apply (.setMeta daIncKey (le64 m))) = Bytes.unLe (le64 m) := by
        simp [metaInc, Store.apply, Store.getMeta, le64_len]
      rw [this]
      have := Submit.unLe_le 8 m
      have h2 : Bytes.unLe (le64 m) = m % 256 ^ 8 := this
      rw [h2]
      exact Nat.le_trans (Nat.mod_le _ _) hm
    · have : metaInc (s.apply (.setMeta k v)) = metaInc s := by
        simp [metaInc, Store.apply, Store.getMeta, hk]
      rw [this]; exact hs

theorem metaInc_applyAll_le : ∀ (ws : List SW) {s : Store} {N : Nat}, metaInc s ≤ N →
    (∀ w ∈ ws, ∀ v, w = SW.setMeta daIncKey v → ∃ m, v = le64 m ∧ m ≤ N) → metaInc (s.applyAll ws) ≤ N := by
  intro ws
  induction ws with
  | nil => intro s N h _; exact h
  | cons w rest ih =>
    intro s N h hw
    simp only [Store.applyAll, List.foldl_cons] at ih ⊢
    exact ih (metaInc_apply_le h w (hw w (by simp))) (fun x hx => hw x (by simp [hx]))

/-- writes of the sync loop and of start-up never touch `d` -/
theorem metaInc_applyAll_noMeta : ∀ (ws : List SW) (s : Store), (∀ w ∈ ws, ∀ v, w ≠ SW.setMeta daIncKey v) →
    metaInc (s.applyAll ws) = metaInc s := by
  intro ws
  induction ws with
  | nil => intro s _; rfl
  | cons w rest ih =>
    intro s h
    simp only [Store.applyAll, List.foldl_cons] at ih ⊢
    rw [ih _ (fun x hx => h x (by simp [hx]))]
    cases w with
    | saveBlock k b => rfl
    | updateState st => rfl
    | setHeight k => exact metaInc_kv (kv_setHeight s k)
    | setMeta k v =>
      have hk : k ≠ daIncKey := fun e => h (SW.setMeta k v) (by simp) v (by rw [e])
      simp [metaInc, Store.apply, Store.getMeta, hk]

/-! ## marks set by a scan are sound -/

theorem processNext_node_cases (p : Bytes) (n : RNode) (blobs : List (Bytes × Oracle)) (fuel : Nat)
    (outs : List Fetch) (used : Nat) :
    (processNext p n blobs fuel outs used).1 = n ∨
    ((processNext p n blobs fuel outs used).2.2.1 = true ∧
     (processNext p n blobs fuel outs used).1 = (handleBlobs p n n.daHeight blobs []).1) := by
  rcases retry_or_decisive blobs.length outs fuel with h | ⟨i, hi, h1, h2⟩
  · rw [processNext_all_retry p n blobs fuel outs used h]; exact Or.inl rfl
  · rw [processNext_decisive p n blobs fuel outs used i hi h1 h2]
    cases outcomeAt outs i <;> simp [decisive]

/-- every mark a scan adds is the mark some blob at a passed height owes -/
theorem scan_marks_sound (p : Bytes) :
    ∀ (fuel : Nat) (n : RNode) (v : DAView),
      (∀ m ∈ (scan p fuel n v [] []).1.hMarks, m ∈ n.hMarks ∨
        ∃ h k, (h, k, true) ∈ (scan p fuel n v [] []).2.2.2 ∧ m ∈ (v.blobsAt h).filterMap (hMarkOf p h)) ∧
      (∀ m ∈ (scan p fuel n v [] []).1.dMarks, m ∈ n.dMarks ∨
        ∃ h k, (h, k, true) ∈ (scan p fuel n v [] []).2.2.2 ∧ m ∈ (v.blobsAt h).filterMap (dMarkOf p h)) := by
  intro fuel
  induction fuel with
  | zero => intro n v; simp [scan]
  | succ f ih =>
    intro n v
    rw [scan]
    have hc := processNext_node_cases p n (v.blobsAt n.daHeight) dAFetcherRetries (v.effective n.daHeight) 0
    generalize processNext p n (v.blobsAt n.daHeight) dAFetcherRetries (v.effective n.daHeight) 0 = r at hc ⊢
    simp only
    split
    · rename_i hv
      obtain ⟨a1, _, a3, _⟩ := scan_trace_acc p f { r.1 with daHeight := n.daHeight + 1 }
        (v.setScript n.daHeight ((v.scriptAt n.daHeight).drop r.2.2.2)) ([] ++ r.2.1)
        ([] ++ [(n.daHeight, r.2.2.2, r.2.2.1)])
      rw [a1, a3]
      obtain ⟨i1, i2⟩ := ih { r.1 with daHeight := n.daHeight + 1 }
        (v.setScript n.daHeight ((v.scriptAt n.daHeight).drop r.2.2.2))
      have here : (n.daHeight, r.2.2.2, true) ∈ [] ++ [(n.daHeight, r.2.2.2, r.2.2.1)] ++
          (scan p f { r.1 with daHeight := n.daHeight + 1 }
            (v.setScript n.daHeight ((v.scriptAt n.daHeight).drop r.2.2.2)) [] []).2.2.2 := by
        rw [hv]; simp
      constructor
      · intro m hm
        rcases i1 m hm with hm' | ⟨h, k, ht, hin⟩
        · rcases hc with e | ⟨_, e⟩
          · left; simpa [e] using hm'
          · have hm'' : m ∈ (handleBlobs p n n.daHeight (v.blobsAt n.daHeight) []).1.hMarks := by simpa [e] using hm'
            rw [handleBlobs_eq] at hm''
            simp only [List.mem_append, List.mem_reverse] at hm''
            rcases hm'' with x | x
            · right; exact ⟨n.daHeight, r.2.2.2, here, x⟩
            · left; exact x
        · right
          rw [setScript_blobsAt] at hin
          exact ⟨h, k, List.mem_append_right _ ht, hin⟩
      · intro m hm
        rcases i2 m hm with hm' | ⟨h, k, ht, hin⟩
        · rcases hc with e | ⟨_, e⟩
          · left; simpa [e] using hm'
          · have hm'' : m ∈ (handleBlobs p n n.daHeight (v.blobsAt n.daHeight) []).1.dMarks := by simpa [e] using hm'
            rw [handleBlobs_eq] at hm''
            simp only [List.mem_append, List.mem_reverse] at hm''
            rcases hm'' with x | x
            · right; exact ⟨n.daHeight, r.2.2.2, here, x⟩
            · left; exact x
        · right
          rw [setScript_blobsAt] at hin
          exact ⟨h, k, List.mem_append_right _ ht, hin⟩
    · rename_i hv
      rcases hc with e | ⟨e, _⟩
      · rw [e]; exact ⟨fun m hm => Or.inl hm, fun m hm => Or.inl hm⟩
      · exact absurd e hv

end FullNode
