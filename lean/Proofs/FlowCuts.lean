import Proofs.FlowView

/-!
# C11 helpers (2): restart on an image, and the durable view at every crash point of a production step
-/
namespace Flow
open Wire Chain Producer

/-- all transactions a restart on the image will find in the chain or in the block waiting above it -/
def durAll (c : Producer.Cfg) (d : Store) : List Bytes := durChain c d ++ durPend c d

/-- every stored block is stamped at most `B` -/
def TimeBound (B : Nat) (s : Store) : Prop := ∀ j b, s.getBlock j = some b → b.sh.hdr.time ≤ B

theorem TimeBound.mono {B B' : Nat} {s : Store} (h : TimeBound B s) (hb : B ≤ B') : TimeBound B' s :=
  fun j b hj => Nat.le_trans (h j b hj) hb

/-- a write is harmless for the time bound: not a block, or a block stamped at most `B` -/
def WTime (B : Nat) : SW → Prop
  | .saveBlock _ b => b.sh.hdr.time ≤ B
  | _ => True

theorem timeBound_apply {B : Nat} {s : Store} (h : TimeBound B s) {w : SW} (hw : WTime B w) : TimeBound B (s.apply w) := by
  intro j b hj
  cases w with
  | saveBlock k fb =>
    rw [getBlock_saveBlock] at hj
    split at hj
    · simp only [Option.some.injEq] at hj; subst hj; exact hw
    · exact h j b hj
  | setHeight k => rw [getBlock_setHeight] at hj; exact h j b hj
  | updateState st => exact h j b hj
  | setMeta k v => exact h j b hj

theorem timeBound_applyAll {B : Nat} {s : Store} {ws : List SW} (h : TimeBound B s) (hw : ∀ w ∈ ws, WTime B w) :
    TimeBound B (s.applyAll ws) := by
  induction ws generalizing s with
  | nil => exact h
  | cons w ws ih =>
    exact ih (timeBound_apply h (hw w (by simp))) (fun x hx => hw x (by simp [hx]))

/-! ## `start` keeps every block (and re-saves the genesis block when no state was saved) -/

theorem getBlock_applyAll_meta (d : Store) (p : Prop) [Decidable p] (k : String) (v : Bytes) (j : Nat) :
    (d.applyAll (if p then [SW.setMeta k v] else [])).getBlock j = d.getBlock j := by
  split <;> rfl

theorem start_blocks {c : Producer.Cfg} {d : Store} {n : Producer.Node} {ws : List SW} (h : start c d = .ok (n, ws)) (j : Nat) :
    n.store.getBlock j = (match d.state with
      | none => if c.initialHeight = j then some (genesisBlock c) else d.getBlock j
      | some _ => d.getBlock j) := by
  unfold start at h
  cases hst : d.state with
  | none =>
    simp only [hst] at h
    split at h
    · injection h with h
      injection h with h1 _
      subst h1
      simp only [getBlock_applyAll_meta, (applyAll_setHeightW _ _).2.1, getBlock_saveBlock]
    · cases h
  | some s =>
    simp only [hst] at h
    by_cases hg : c.initialHeight > s.lastHeight
    · simp only [hg, ↓reduceIte] at h; cases h
    · simp only [hg, ↓reduceIte] at h
      split at h
      · injection h with h
        injection h with h1 _
        subst h1
        simp only [getBlock_applyAll_meta, (applyAll_setHeightW _ _).2.1]
      · cases h

theorem state_applyAll_meta (d : Store) (p : Prop) [Decidable p] (k : String) (v : Bytes) :
    (d.applyAll (if p then [SW.setMeta k v] else [])).state = d.state := by
  split <;> rfl

/-- `start` never writes the state -/
theorem start_state {c : Producer.Cfg} {d : Store} {n : Producer.Node} {ws : List SW} (h : start c d = .ok (n, ws)) :
    n.store.state = d.state := by
  unfold start at h
  cases hst : d.state with
  | none =>
    simp only [hst] at h
    split at h
    · injection h with h
      injection h with h1 _
      subst h1
      simp only [state_applyAll_meta, (applyAll_setHeightW _ _).2.2.1, state_saveBlock, hst]
    · cases h
  | some s =>
    simp only [hst] at h
    by_cases hg : c.initialHeight > s.lastHeight
    · simp only [hg, ↓reduceIte] at h; cases h
    · simp only [hg, ↓reduceIte] at h
      split at h
      · injection h with h
        injection h with h1 _
        subst h1
        simp only [state_applyAll_meta, (applyAll_setHeightW _ _).2.2.1, hst]
      · cases h

/-! ## the node's own view is the durable view of its store -/

theorem node_durH {c : Producer.Cfg} {n : Producer.Node} (hi : Inv c n) (hs : Synced c n) :
    durH c n.store = n.store.height := by
  unfold durH
  rcases hs with ⟨h1, _⟩ | ⟨h1, h2⟩
  · rw [h1]; exact hi.hs.symm
  · rw [h1]
    have := hi.hs
    rw [h2] at this
    simp only [genesisState] at this
    exact this.symm

theorem node_durAll {c : Producer.Cfg} {n : Producer.Node} (hi : Inv c n) (hs : Synced c n) :
    durAll c n.store = chainTxs n.store ++ pendingTxs n.store := by
  unfold durAll durChain durPend chainTxs pendingTxs
  rw [node_durH hi hs]

/-- **restart on an image that satisfies the disk invariant**: the node comes up, satisfies the production
invariant, and sees exactly the durable view of the image -/
theorem start_view {c : Producer.Cfg} {d : Store} (hd : DInv c d)
    (hfe : d.state = none → blockTxs d c.initialHeight = []) :
    ∃ n ws, start c d = .ok (n, ws) ∧ Live c n ∧ Synced c n ∧ WmOK n.store ∧
      chainTxs n.store = durChain c d ∧ pendingTxs n.store = durPend c d ∧
      n.store.state = d.state ∧
      (n.store.state = none → blockTxs n.store c.initialHeight = []) ∧
      (∀ B, c.genesisTime ≤ B → TimeBound B d → TimeBound B n.store) := by
  obtain ⟨n, ws, hst, hl, hs, hw, _, _, _, _⟩ := start_of_dinv hd
  have hstate := start_state hst
  have hb := start_blocks hst
  have hpos := hd.ihPos
  have hH : n.store.height = durH c d := by
    rw [← node_durH hl.toInv hs]; unfold durH; rw [hstate]
  have hgen : (genesisBlock c).data.txs = [] := rfl
  refine ⟨n, ws, hst, hl, hs, hw, ?_, ?_, hstate, ?_, ?_⟩
  · unfold chainTxs durChain
    rw [hH]
    refine chainUpTo_congr (fun k hk => ?_)
    rw [hb k]
    cases hds : d.state with
    | none =>
      simp only
      have : durH c d = c.initialHeight - 1 := by unfold durH; rw [hds]
      rw [if_neg (by omega)]
    | some s => rfl
  · unfold pendingTxs durPend
    rw [hH]
    cases hds : d.state with
    | none =>
      have hh : durH c d = c.initialHeight - 1 := by unfold durH; rw [hds]
      have e : durH c d + 1 = c.initialHeight := by omega
      rw [e, hfe hds]
      unfold blockTxs
      rw [hb c.initialHeight, hds]
      simp only [↓reduceIte]
      exact hgen
    | some s =>
      unfold blockTxs
      rw [hb, hds]
  · intro hn
    rw [hstate] at hn
    unfold blockTxs
    rw [hb c.initialHeight, hn]
    simp only [↓reduceIte]
    exact hgen
  · intro B hB htb j b hj
    rw [hb j] at hj
    cases hds : d.state with
    | none =>
      rw [hds] at hj
      simp only at hj
      split at hj
      · simp only [Option.some.injEq] at hj
        subst hj
        exact hB
      · exact htb j b hj
    | some s =>
      rw [hds] at hj
      exact htb j b hj

/-! ## crash points of the committing writes -/

theorem commit3_cuts {c : Producer.Cfg} {d : Store} {h : Nat} {fb : Block} {st : State} (hH : durH c d = h)
    (hT : durPend c d = fb.data.txs) (hab : blockTxs d (h + 2) = []) (hst : st.lastHeight = h + 1) (j : Nat) :
    durAll c (d.applyAll ((commit3 h fb st).take j)) = durAll c d ∧
    ((d.applyAll ((commit3 h fb st).take j)).state = none →
      d.state = none ∧ blockTxs (d.applyAll ((commit3 h fb st).take j)) c.initialHeight = blockTxs d c.initialHeight) := by
  subst hH
  obtain ⟨s1, s2, s3⟩ := dur_save (c := c) d fb
  have hblk : blockTxs (d.apply (.saveBlock (durH c d + 1) fb)) c.initialHeight = blockTxs d c.initialHeight := by
    by_cases he : durH c d + 1 = c.initialHeight
    · rw [← he]
      show durPend c (d.apply (.saveBlock (durH c d + 1) fb)) = durPend c d
      rw [s3, hT]
    · exact blockTxs_congr (getBlock_saveBlock_other _ _ _ _ he)
  have hab1 : blockTxs (d.apply (.saveBlock (durH c d + 1) fb)) (durH c d + 2) = [] := by
    rw [blockTxs_congr (getBlock_saveBlock_other _ _ _ _ (by omega))]; exact hab
  obtain ⟨u1, u2, u3⟩ := dur_update (c := c) (d.apply (.saveBlock (durH c d + 1) fb)) st (by rw [s1]; exact hst)
  have hall2 : durAll c ((d.apply (.saveBlock (durH c d + 1) fb)).apply (.updateState st)) = durAll c d := by
    unfold durAll
    rw [u2, u3, s1, s2, s3, hab1, hT, List.append_nil]
  match j with
  | 0 => exact ⟨rfl, fun hn => ⟨hn, rfl⟩⟩
  | 1 =>
    refine ⟨?_, fun hn => ⟨hn, hblk⟩⟩
    show durAll c (d.apply (.saveBlock (durH c d + 1) fb)) = _
    unfold durAll; rw [s2, s3, hT]
  | 2 =>
    refine ⟨hall2, fun hn => ?_⟩
    exact absurd hn (by simp [commit3, Store.applyAll])
  | j + 3 =>
    have e : (commit3 (durH c d) fb st).take (j + 3) = commit3 (durH c d) fb st := by simp [commit3]
    rw [e]
    refine ⟨?_, fun hn => ?_⟩
    · have hsame := dur_same (c := c) (d := (d.apply (.saveBlock (durH c d + 1) fb)).apply (.updateState st))
        (d' := ((d.apply (.saveBlock (durH c d + 1) fb)).apply (.updateState st)).apply (.setHeight (durH c d + 1)))
        (state_setHeight _ _) (fun k => getBlock_setHeight _ _ _)
      show durAll c (((d.apply (.saveBlock (durH c d + 1) fb)).apply (.updateState st)).apply (.setHeight (durH c d + 1))) = _
      unfold durAll
      rw [hsame.2.1, hsame.2.2]
      exact hall2
    · exact absurd hn (by simp [commit3, Store.applyAll])

/-- crash points of the writes of a step that built a fresh block from the batch `T`: before the early save
(`j ≤ 1`) the image shows nothing of `T`; from the early save on (`j ≥ 2`) it shows all of it -/
theorem fresh_cuts {c : Producer.Cfg} {d : Store} {h : Nat} {T : List Bytes} {v : Bytes} {eb : Block} (hH : durH c d = h)
    (hnone : durPend c d = []) (hab : blockTxs d (h + 2) = []) (he : eb.data.txs = T)
    (tail : List SW)
    (htail : tail = [] ∨ ∃ fb st, fb.data.txs = T ∧ st.lastHeight = h + 1 ∧ tail = commit3 h fb st) (j : Nat) :
    (j ≤ 1 → durAll c (d.applyAll (([SW.setMeta lastBatchDataKey v, SW.saveBlock (h + 1) eb] ++ tail).take j)) = durAll c d) ∧
    (2 ≤ j → durAll c (d.applyAll (([SW.setMeta lastBatchDataKey v, SW.saveBlock (h + 1) eb] ++ tail).take j)) = durAll c d ++ T) ∧
    ((d.applyAll (([SW.setMeta lastBatchDataKey v, SW.saveBlock (h + 1) eb] ++ tail).take j)).state = none → d.state = none) := by
  have hm := dur_same (c := c) (d := d) (d' := d.apply (.setMeta lastBatchDataKey v)) rfl (fun _ => rfl)
  match j with
  | 0 => exact ⟨fun _ => rfl, fun h2 => by omega, fun hn => hn⟩
  | 1 =>
    refine ⟨fun _ => ?_, fun h2 => by omega, fun hn => hn⟩
    show durAll c (d.apply (.setMeta lastBatchDataKey v)) = _
    unfold durAll; rw [hm.2.1, hm.2.2]
  | j + 2 =>
    have e : ([SW.setMeta lastBatchDataKey v, SW.saveBlock (h + 1) eb] ++ tail).take (j + 2) =
        [SW.setMeta lastBatchDataKey v, SW.saveBlock (h + 1) eb] ++ tail.take j := by simp
    rw [e, Producer.applyAll_append]
    generalize hd2 : d.applyAll [SW.setMeta lastBatchDataKey v, SW.saveBlock (h + 1) eb] = d2
    have hd2' : d2 = (d.apply (.setMeta lastBatchDataKey v)).apply (.saveBlock (durH c (d.apply (.setMeta lastBatchDataKey v)) + 1) eb) := by
      rw [← hd2, hm.1, hH]; rfl
    obtain ⟨s1, s2, s3⟩ := dur_save (c := c) (d.apply (.setMeta lastBatchDataKey v)) eb
    rw [← hd2'] at s1 s2 s3
    have hall : durAll c d2 = durAll c d ++ T := by
      unfold durAll
      rw [s2, s3, hm.2.1, hnone, he, List.append_nil]
    have hst2 : d2.state = d.state := by rw [← hd2]; rfl
    refine ⟨fun h1 => by omega, fun _ => ?_, fun hn => ?_⟩
    · rcases htail with rfl | ⟨fb, st, f1, f2, rfl⟩
      · simpa [Store.applyAll] using hall
      · have hH2 : durH c d2 = h := by rw [s1, hm.1, hH]
        have hab2 : blockTxs d2 (h + 2) = [] := by
          rw [← hab]
          refine blockTxs_congr ?_
          rw [← hd2]
          show ((d.apply (.setMeta lastBatchDataKey v)).apply (.saveBlock (h + 1) eb)).getBlock (h + 2) = _
          rw [getBlock_saveBlock_other _ _ _ _ (by omega)]; rfl
        rw [(commit3_cuts hH2 (by rw [s3, he, f1]) hab2 f2 j).1]
        exact hall
    · rcases htail with rfl | ⟨fb, st, f1, f2, rfl⟩
      · rw [← hst2]; simpa [Store.applyAll] using hn
      · have hH2 : durH c d2 = h := by rw [s1, hm.1, hH]
        have hab2 : blockTxs d2 (h + 2) = [] := by
          rw [← hab]
          refine blockTxs_congr ?_
          rw [← hd2]
          show ((d.apply (.setMeta lastBatchDataKey v)).apply (.saveBlock (h + 1) eb)).getBlock (h + 2) = _
          rw [getBlock_saveBlock_other _ _ _ _ (by omega)]; rfl
        rw [← hst2]
        exact ((commit3_cuts hH2 (by rw [s3, he, f1]) hab2 f2 j).2 hn).1

end Flow
