import Proofs.FNodeHist
import Proofs.RetrieveAdmit

/-!
# Convergence of a full node that syncs from the DA layer only

* `hinit_inv`, `hrun_inv`: the invariant holds after every history (from a first start on an empty store);
* `restart_cursor`, `crash_cursor`: every restart — clean or after a crash at any write — resumes the DA scan at the
  configured DA start height;
* `run_converges`: a run that starts at the DA start height and reaches the head of the DA layer leaves the node at
  the top of the longest prefix of the chain whose parts are all on the DA layer, holding the proposer's blocks.
-/
namespace FullNode
open Wire Chain Sync Retrieve Submit

variable {C : Cfg} {ch : PChain} {top h0 : Nat} {evs : List Ev} {lv gr : Bool}

theorem eraseStore_empty : eraseStore ({} : Store) = {} := rfl

/-- the invariant holds after the first start on an empty store, with nothing on the DA layer -/
theorem hinit_inv (g : GoodChain C.sync ch top) :
    HInv lv gr C ch (C.sync.initialHeight - 1) [] (hinit C) ∧ (hinit C).nd.cursor = C.daStart := by
  have hd : DiskOK C.sync ch (eraseStore ({} : Store)) := by rw [eraseStore_empty]; exact diskOK_empty g
  have hda : DAok C.daStart ({} : Store) := fun st h => by cases h
  obtain ⟨nd, ws, n, a1, a2, a3, a4, a5, a6, a8, a9, a7⟩ := start_step g hd hda {}
  obtain ⟨n', ws', d1, d2, d3, d4⟩ := diskOK_start g hd
  rw [a2] at d1
  simp only [Option.some.injEq, Prod.mk.injEq] at d1
  obtain ⟨rfl, rfl⟩ := d1
  have hr : recHeight C.sync (eraseStore ({} : Store)) = C.sync.initialHeight - 1 := rfl
  have hh : nd.full.store.height = C.sync.initialHeight - 1 := by rw [← hr, ← d2, ← a3]; rfl
  have hm0 : metaInc ({} : Store) = 0 := rfl
  have hinc : daIncOf C nd.full.store = C.sync.initialHeight - 1 := by
    rw [daIncOf_eq, a9, hm0]; split <;> omega
  unfold hinit
  rw [a1]
  simp only [started, Bool.false_eq_true, ↓reduceIte]
  refine ⟨⟨rfl, by rw [a3]; rw [d2] at d4; exact d4.safe, by rw [a3]; exact fun _ => ⟨d4.live, d4.quiet⟩, a4, a6,
    by rw [a5]; exact Nat.le_refl _,
    ⟨fun p hp => by simp [DAView.placed] at hp, fun p hp => by simp [DAView.placed] at hp⟩,
    fun _ e he => by simp at he, ?_, a8, fun m hm => by simp at hm, fun m hm => by simp at hm,
    by rw [hinc, hh]; exact Nat.le_refl _, by rw [hinc]; exact Nat.le_refl _, metaInc_le_daIncOf C _, ?_, ?_,
    P2PInv.fresh (fun wo hm => by simp at hm) (fun d hm => by simp at hm) rfl rfl (by show _ ≤ nd.full.store.height; rw [hh]; exact Nat.le_refl _) g.ihPos⟩, a5⟩
  · intro _ k h1 h2
    have := g.ihPos
    have h3 : k ≤ nd.full.store.height := h2
    omega
  · intro k h1 h2
    have h3 : k ≤ daIncOf C nd.full.store := h2
    have := g.ihPos
    omega
  · intro j
    obtain ⟨b1, b2, b3, b4⟩ := a7 j
    refine ⟨b1, by rw [b2, hh]; exact Nat.le_refl _, b3, ?_, ?_⟩
    · rw [b4, hm0]; exact Nat.zero_le _
    · rw [b4, hm0]; exact Nat.zero_le _

/-- **the invariant holds after every history** whose placed blobs are, when accepted, parts of the chain -/
theorem hrun_inv (g : GoodChain C.sync ch top) (dc : lv = true → DistinctCommitments ch) (ops : List HOp)
    (hops : ∀ op ∈ ops, OpOK C ch op) (hgr : gr = true → ∀ op ∈ ops, isP2P op = false) :
    ∃ h0 evs, HInv lv gr C ch h0 evs (hrun C ops) := by
  unfold hrun
  have h0 : ∃ h0 evs, HInv lv gr C ch h0 evs (hinit C) := ⟨_, _, (hinit_inv g).1⟩
  generalize hinit C = s at h0
  induction ops generalizing s with
  | nil => exact h0
  | cons op rest ih =>
    obtain ⟨a, b, hi⟩ := h0
    simp only [List.foldl_cons]
    exact ih (fun o ho => hops o (List.mem_cons_of_mem _ ho)) (fun hg o ho => hgr hg o (List.mem_cons_of_mem _ ho)) _
      (hstep_inv g dc hi op (hops op List.mem_cons_self) (fun hg => hgr hg op List.mem_cons_self))

/-- **a clean restart resumes the DA scan at the configured DA start height** -/
theorem restart_cursor (g : GoodChain C.sync ch top) {s : HSt} (hi : HInv lv gr C ch h0 evs s) :
    (hstep C s .restart).ok = true ∧ (hstep C s .restart).nd.cursor = C.daStart := by
  have hnok : (!s.ok) = false := by rw [hi.ok]; rfl
  obtain ⟨hd, _⟩ := hi.safe.diskOK g
  obtain ⟨nd, ws, n, a1, _, _, _, a5, _⟩ := start_step g (d := s.nd.full.store) hd hi.disk s.nd.full
  simp only [hstep, hnok, Bool.false_eq_true, ↓reduceIte]
  unfold restartClean
  rw [a1]
  exact ⟨rfl, a5⟩

/-- **a restart after a crash at any write boundary resumes the DA scan at the configured DA start height** -/
theorem crash_cursor (g : GoodChain C.sync ch top) {s : HSt} (hi : HInv lv gr C ch h0 evs s) (k : Nat) :
    (hstep C s (.crash k)).ok = true ∧ (hstep C s (.crash k)).nd.cursor = C.daStart := by
  have hnok : (!s.ok) = false := by rw [hi.ok]; rfl
  obtain ⟨c1, _, c3, _⟩ := hi.crash k
  obtain ⟨nd, ws, n, a1, _, _, _, a5, _⟩ := start_step g c1 c3 {}
  simp only [hstep, hnok, Bool.false_eq_true, ↓reduceIte]
  unfold restartCrash
  rw [a1]
  exact ⟨rfl, a5⟩

/-- a clean restart keeps the chain height -/
theorem restart_height (g : GoodChain C.sync ch top) {s : HSt} (hi : HInv lv gr C ch h0 evs s) :
    (hstep C s .restart).nd.full.store.height = s.nd.full.store.height := by
  have hnok : (!s.ok) = false := by rw [hi.ok]; rfl
  obtain ⟨hd, _⟩ := hi.safe.diskOK g
  obtain ⟨nd, ws, n, a1, a2, a3, _⟩ := start_step g (d := s.nd.full.store) hd hi.disk s.nd.full
  have hres : Sync.restart C.sync (eraseN s.nd.full) = n := by
    unfold Sync.restart
    rw [start_caches_erase]
    show (match Sync.start C.sync (eraseStore s.nd.full.store) s.nd.full with | some (n', _) => n' | none => _) = n
    rw [a2]
  have := (restart_spec g hi.safe).2.1
  rw [hres, ← a3] at this
  simp only [hstep, hnok, Bool.false_eq_true, ↓reduceIte]
  unfold restartClean
  rw [a1]
  exact this

/-- after a crash the node restarts at the height the image records: never above the height it had reached -/
theorem crash_height (g : GoodChain C.sync ch top) {s : HSt} (hi : HInv lv gr C ch h0 evs s) (k : Nat) :
    (hstep C s (.crash k)).nd.full.store.height = recHeight C.sync (eraseStore (s.before.applyPrefix k s.ws)) ∧
    (hstep C s (.crash k)).nd.full.store.height ≤ s.nd.full.store.height := by
  have hnok : (!s.ok) = false := by rw [hi.ok]; rfl
  obtain ⟨c1, c2, c3, _⟩ := hi.crash k
  obtain ⟨nd, ws, n, a1, a2, a3, _⟩ := start_step g c1 c3 {}
  obtain ⟨n', ws', d1, d2, _⟩ := diskOK_start g c1
  rw [a2] at d1
  simp only [Option.some.injEq, Prod.mk.injEq] at d1
  obtain ⟨rfl, rfl⟩ := d1
  have hh : nd.full.store.height = recHeight C.sync (eraseStore (s.before.applyPrefix k s.ws)) := by
    rw [← d2, ← a3]; rfl
  simp only [hstep, hnok, Bool.false_eq_true, ↓reduceIte]
  unfold restartCrash
  rw [a1]
  exact ⟨hh, by show nd.full.store.height ≤ _; omega⟩

/-- the DA-included height a restarted node reports is never above the one it reported before (it is the persisted
value, raised to `initialHeight - 1`) and never above its chain height -/
theorem restart_daInc (g : GoodChain C.sync ch top) {s : HSt} (hi : HInv lv gr C ch h0 evs s) :
    (hstep C s .restart).daInc ≤ s.daInc ∧ (hstep C s .restart).daInc ≤ (hstep C s .restart).nd.full.store.height ∧
    (hstep C s .restart).hMarks = s.hMarks ∧ (hstep C s .restart).dMarks = s.dMarks := by
  have hnok : (!s.ok) = false := by rw [hi.ok]; rfl
  obtain ⟨h1, e1, hi1⟩ := hstep_inv g (lv := false) (fun h => by cases h)
    (show HInv false gr C ch h0 evs s from { hi with live := fun h => by cases h }) .restart trivial (fun _ => rfl)
  obtain ⟨hd, _⟩ := hi.safe.diskOK g
  obtain ⟨nd, ws, n, a1, _, _, _, _, _, _, a9, _⟩ := start_step g (d := s.nd.full.store) hd hi.disk s.nd.full
  refine ⟨?_, hi1.incLe, ?_, ?_⟩
  · simp only [hstep, hnok, Bool.false_eq_true, ↓reduceIte]
    unfold restartClean
    rw [a1]
    exact daIncOf_le (by rw [a9]; exact hi.incMeta) hi.incGe
  · simp only [hstep, hnok, Bool.false_eq_true, ↓reduceIte]
    unfold restartClean
    rw [a1]; rfl
  · simp only [hstep, hnok, Bool.false_eq_true, ↓reduceIte]
    unfold restartClean
    rw [a1]; rfl

theorem crash_daInc (g : GoodChain C.sync ch top) {s : HSt} (hi : HInv lv gr C ch h0 evs s) (k : Nat) :
    (hstep C s (.crash k)).daInc ≤ s.daInc ∧
    (hstep C s (.crash k)).daInc ≤ (hstep C s (.crash k)).nd.full.store.height ∧
    (hstep C s (.crash k)).hMarks = [] ∧ (hstep C s (.crash k)).dMarks = [] := by
  have hnok : (!s.ok) = false := by rw [hi.ok]; rfl
  obtain ⟨h1, e1, hi1⟩ := hstep_inv g (lv := false) (fun h => by cases h)
    (show HInv false gr C ch h0 evs s from { hi with live := fun h => by cases h }) (.crash k) trivial (fun _ => rfl)
  obtain ⟨c1, _, c3, c4, _⟩ := hi.crash k
  obtain ⟨nd, ws, n, a1, _, _, _, _, _, _, a9, _⟩ := start_step g c1 c3 {}
  refine ⟨?_, hi1.incLe, ?_, ?_⟩
  · simp only [hstep, hnok, Bool.false_eq_true, ↓reduceIte]
    unfold restartCrash
    rw [a1]
    exact daIncOf_le (by rw [a9]; exact c4) hi.incGe
  · simp only [hstep, hnok, Bool.false_eq_true, ↓reduceIte]
    unfold restartCrash
    rw [a1]; rfl
  · simp only [hstep, hnok, Bool.false_eq_true, ↓reduceIte]
    unfold restartCrash
    rw [a1]; rfl

/-- the DA cursor a (re)started node begins with, as `NewManager` computes it: the larger of the persisted state's
DA height and the configured DA start height -/
theorem start_cursor_eq (C : Cfg) (d : Store) (caches : FNode) {nd : Node} {ws : List SW}
    (h : FullNode.start C d caches = some (nd, ws)) :
    nd.cursor = max ((d.state.map (·.daHeight)).getD 0) C.daStart ∧ nd.full.lastState.daHeight = nd.cursor := by
  unfold FullNode.start at h
  cases hs : Sync.start C.sync d caches with
  | none => rw [hs] at h; cases h
  | some r =>
    obtain ⟨n0, ws0⟩ := r
    rw [hs] at h
    simp only [Option.some.injEq, Prod.mk.injEq] at h
    obtain ⟨rfl, _⟩ := h
    obtain ⟨_, _, a3⟩ := start_shape C.sync d caches hs
    refine ⟨?_, rfl⟩
    show max n0.lastState.daHeight C.daStart = _
    rcases a3 with a3 | ⟨a3, a4⟩
    · rw [a3]; rfl
    · rw [a3, a4]; rfl

theorem toSH_hdr (k : KeyId) (w : SignedHeader) : (toSH k w).hdr = w.header := rfl

theorem accepted_data_nonempty {o : Oracle} {p bs : Bytes} {sd : SignedData}
    (h : classify o p bs = .dataAccepted sd) : sd.data.txs ≠ [] :=
  ((classifyData_accepted_iff o p bs sd).mp ((classify_dataAccepted_iff o p bs sd).mp h).2.2.2).2.1

/-- the state `hstep … .run` reaches, spelled out -/
theorem hstep_run_eq {s : HSt} (hok : s.ok = true) :
    hstep C s .run = includeSt
      { s with nd := { full := (feed C s.nd.full (scanOf C s.nd s.v).2.2.1).1, cursor := (scanOf C s.nd s.v).1.daHeight },
               v := (scanOf C s.nd s.v).2.1, before := s.nd.full.store,
               ws := (feed C s.nd.full (scanOf C s.nd s.v).2.2.1).2,
               hMarks := (marksOf C s.nd s.v).1 ++ s.hMarks, dMarks := (marksOf C s.nd s.v).2 ++ s.dMarks } := by
  have hnok : (!s.ok) = false := by rw [hok]; rfl
  simp only [hstep, hnok, Bool.false_eq_true, ↓reduceIte]
  rfl

/-- the includer leaves everything but the metadata and its own counters alone -/
theorem includeSt_frame (s : HSt) :
    (includeSt s).nd.cursor = s.nd.cursor ∧ (includeSt s).v = s.v ∧
    (includeSt s).nd.full.store.height = s.nd.full.store.height ∧
    (includeSt s).nd.full.store.blocks = s.nd.full.store.blocks ∧
    (includeSt s).nd.full.lastState = s.nd.full.lastState ∧ (includeSt s).nd.full.alive = s.nd.full.alive ∧
    (includeSt s).hMarks = s.hMarks ∧ (includeSt s).dMarks = s.dMarks := by
  have hp : PassInv (toA s.nd.full.store s.hMarks s.dMarks s.daInc s.finals)
      (includerIter (toA s.nd.full.store s.hMarks s.dMarks s.daInc s.finals)).1
      (includerIter (toA s.nd.full.store s.hMarks s.dMarks s.daInc s.finals)).2 :=
    includerPass_inv _ _ _ [] (PassInv.init _)
  exact ⟨rfl, rfl, hp.frame.height, hp.frame.blocks, rfl, rfl, rfl, rfl⟩

/-- a run leaves the contents of the DA layer alone -/
theorem hstep_run_placed (C : Cfg) (s : HSt) : (hstep C s .run).v.placed = s.v.placed := by
  cases hok : s.ok with
  | false => simp [hstep, hok]
  | true =>
    rw [hstep_run_eq hok, (includeSt_frame _).2.1]
    exact (scan_view C.sync.proposerAddr (scanFuel s.nd.cursor s.v.top) (rnodeOf s.nd) s.v [] []).1

/-- **convergence of one run**: the scan starts at the DA start height, no fetch is answered "not found", and the
scan reaches the head of the DA layer.  Then the node is alive, its state is the state after its height `H`, every
block up to `H` has both parts on the DA layer and is stored as the proposer's block, and block `H + 1` is NOT
completely on the DA layer: `H` is the top of the longest complete prefix of the chain on the DA layer. -/
theorem run_converges (g : GoodChain C.sync ch top) (dc : DistinctCommitments ch) {s : HSt}
    (hi : HInv true true C ch h0 evs s) (hcur : s.nd.cursor = C.daStart)
    (hnf : ∀ a, Fetch.notFound ∉ s.v.scriptAt a)
    (hreach : s.v.top ≤ (hstep C s .run).nd.cursor) :
    (hstep C s .run).nd.full.alive = true ∧
    eraseS (hstep C s .run).nd.full.lastState = stateAt C.sync ch (hstep C s .run).nd.full.store.height ∧
    (∀ k, C.sync.initialHeight ≤ k → k ≤ (hstep C s .run).nd.full.store.height →
      OnDA C ch s.v k ∧
      ∃ b sb, ch k = some b ∧ (hstep C s .run).nd.full.store.getBlock k = some sb ∧ SameBlock b sb) ∧
    ¬ OnDA C ch s.v ((hstep C s .run).nd.full.store.height + 1) := by
  have hs' := scan_step g (fun _ => dc) hi (scanOf C s.nd s.v).2.2.1 (fun e he => he)
  rw [hstep_run_eq hi.ok] at hreach ⊢
  obtain ⟨f1, _, f3, f4, f5, f6, _, _⟩ := includeSt_frame
    { s with nd := { full := (feed C s.nd.full (scanOf C s.nd s.v).2.2.1).1, cursor := (scanOf C s.nd s.v).1.daHeight },
             v := (scanOf C s.nd s.v).2.1, before := s.nd.full.store,
             ws := (feed C s.nd.full (scanOf C s.nd s.v).2.2.1).2,
             hMarks := (marksOf C s.nd s.v).1 ++ s.hMarks, dMarks := (marksOf C s.nd s.v).2 ++ s.dMarks }
  rw [f1] at hreach
  rw [f3, f5, f6]
  simp only [Store.getBlock, f4]
  simp only at hreach ⊢
  show (feed C s.nd.full (scanOf C s.nd s.v).2.2.1).1.alive = true ∧
    eraseS (feed C s.nd.full (scanOf C s.nd s.v).2.2.1).1.lastState
      = stateAt C.sync ch (feed C s.nd.full (scanOf C s.nd s.v).2.2.1).1.store.height ∧
    (∀ k, C.sync.initialHeight ≤ k → k ≤ (feed C s.nd.full (scanOf C s.nd s.v).2.2.1).1.store.height →
      OnDA C ch s.v k ∧ ∃ b sb, ch k = some b ∧
        (feed C s.nd.full (scanOf C s.nd s.v).2.2.1).1.store.getBlock k = some sb ∧ SameBlock b sb) ∧
    ¬ OnDA C ch s.v ((feed C s.nd.full (scanOf C s.nd s.v).2.2.1).1.store.height + 1)
  generalize hE : (scanOf C s.nd s.v).2.2.1 = E at hs' ⊢
  generalize hF : feed C s.nd.full E = F at hs' ⊢
  obtain ⟨vp, _⟩ := scan_view C.sync.proposerAddr (scanFuel s.nd.cursor s.v.top) (rnodeOf s.nd) s.v [] []
  have hback : ∀ p ∈ (scanOf C s.nd s.v).2.1.placed, p ∈ s.v.placed := by
    intro p hp; unfold scanOf at hp; rw [vp] at hp; exact hp
  have hinv : Inv C.sync ch h0 (evs ++ E.map absEv) (eraseN F.1) := ⟨hs'.safe, (hs'.live rfl).1, (hs'.live rfl).2⟩
  have hmono : s.nd.full.store.height ≤ F.1.store.height := by
    have h1 := (hs'.crash 0).2.1
    have h2 := (hi.safe.diskOK g).2
    simp only [Store.applyPrefix, List.take_zero, Store.applyAll, List.foldl_nil] at h1
    have h3 : recHeight C.sync (eraseStore s.nd.full.store) = s.nd.full.store.height := h2
    omega
  refine ⟨hinv.safe.alive, hinv.safe.st, ?_, ?_⟩
  · intro k h1 h2
    exact ⟨(hs'.lowDA rfl k h1 h2).mono hback, hinv.safe.chain k h1 h2⟩
  · intro hon
    obtain ⟨blk, hb, ⟨p, hp, hpd, w, hc, hwk⟩, hdat⟩ := hon
    have hbelow := hi.view.below p hp
    -- the header of block H+1 was handed over now, or earlier
    have hH : Ev.hdr (F.1.store.height + 1) ∈ evs ++ E.map absEv := by
      rcases scan_delivers_hdr (C := C) s.nd s.v (a := p.1) (by omega) (by omega) (hnf _) hp rfl hc with hseen | hev
      · obtain ⟨k', b', hb', hx, hk'⟩ := (hi.live rfl).1.seenHs _ hseen
        obtain ⟨blk', hbk', hsh⟩ := (hi.view.blobs p hp).1 w hc
        rw [hwk, hb] at hbk'
        cases hbk'
        have hhash : blk.sh.hdr.hash = b'.sh.hdr.hash := by rw [← hx, ← hsh, toSH_hdr]
        have hkk := dc.hashInj _ _ _ _ hb hb' hhash
        subst hkk
        rcases hk' with hk' | hk'
        · have : (eraseN s.nd.full).store.height = s.nd.full.store.height := rfl
          omega
        · exact List.mem_append_left _ (hi.safe.hdrSrc _ hk')
      · refine List.mem_append_right _ (List.mem_map.mpr ⟨_, by rw [← hE]; exact hev, ?_⟩)
        show Ev.hdr w.header.height = _
        rw [hwk]
    have hD : IsEmpty blk ∨ Ev.dat (F.1.store.height + 1) ∈ evs ++ E.map absEv := by
      rcases hdat with he | ⟨q, hq, hqd, sd, m, hcd, hm, hmk⟩
      · exact Or.inl he
      · right
        have hqb := hi.view.below q hq
        obtain ⟨m', blk', hm', hbk', hsd⟩ := (hi.view.blobs q hq).2 sd hcd
        rw [hm] at hm'; cases hm'
        rw [hmk, hb] at hbk'; cases hbk'
        have hne : ¬ IsEmpty blk := by
          intro he
          have := (g.empty_iff hb).mp he
          rw [← hsd] at this
          exact accepted_data_nonempty hcd this
        rcases scan_delivers_dat (C := C) s.nd s.v (a := q.1) (by omega) (by omega) (hnf _) hq rfl hcd with hseen | hev
        · obtain ⟨k', b', hb', hne', hx, hk'⟩ := (hi.live rfl).1.seenDs _ hseen
          have hcm : blk.data.daCommitment = b'.data.daCommitment := by rw [← hx, hsd]
          have hkk := dc.dcInj _ _ _ _ hb hb' hne hne' hcm
          subst hkk
          rcases hk' with hk' | hk'
          · have : (eraseN s.nd.full).store.height = s.nd.full.store.height := rfl
            omega
          · rcases hi.safe.datSrc _ hk' with hsrc | ⟨_, b2, hb2, he2⟩
            · exact List.mem_append_left _ hsrc
            · rw [hb] at hb2; cases hb2; exact absurd he2 hne
        · refine List.mem_append_right _ (List.mem_map.mpr ⟨_, by rw [← hE]; exact hev, ?_⟩)
          show Ev.dat ((sd.data.metadata.map (·.height)).getD 0) = _
          rw [hm]; show Ev.dat m.height = _; rw [hmk]
    have hconv := hinv.converges (F.1.store.height + 1) (fun k a b => by
      by_cases hk : k ≤ F.1.store.height
      · exact hinv.safe.sound k a hk
      · have : k = F.1.store.height + 1 := by
          have : (eraseN F.1).store.height = F.1.store.height := rfl
          omega
        subst this
        exact ⟨blk, hb, hH, hD⟩)
    have : (eraseN F.1).store.height = F.1.store.height := rfl
    omega

end FullNode
