import Model.Lazy

/-! Helper lemmas for `Spec/C17.lean`: the step function as a transition relation, the timer
invariant, the generic "a production is due by `D`" argument and the spacing argument. -/
namespace Lazy

/-- the transitions of `step`, one constructor per branch. -/
inductive Tr (c : Cfg) (s : St) : In → St → List Nat → Prop
  | notify : Tr c s .notify { s with chan := true } []
  | wait (p d : Nat) (f : Flight) : s.flight = some f → s.now < f.fin → Tr c s (.tick p d) (advance s) []
  | finish (p d : Nat) (f : Flight) : s.flight = some f → f.fin ≤ s.now → Tr c s (.tick p d) (finish c s f) []
  | idle (p d : Nat) : s.flight = none → (c.lazy = true → s.now < s.lazyT) → s.now < s.blockT → s.chan = false →
      Tr c s (.tick p d) (advance s) []
  | lazyFire (p d : Nat) : s.flight = none → c.lazy = true → s.lazyT ≤ s.now →
      Tr c s (.tick p d) (startFlight s d false) [s.now]
  | blockFire (p d : Nat) : s.flight = none → c.lazy = true → s.blockT ≤ s.now → s.txs = true →
      Tr c s (.tick p d) (startFlight s d true) [s.now]
  | blockSkip (p d : Nat) : s.flight = none → c.lazy = true → s.blockT ≤ s.now → s.txs = false →
      Tr c s (.tick p d) { s with blockT := s.now + c.block } []
  | normalFire (p d : Nat) : s.flight = none → c.lazy = false → s.blockT ≤ s.now →
      Tr c s (.tick p d) (startFlight s d false) [s.now]
  | recv (p d : Nat) : s.flight = none → s.chan = true →
      Tr c s (.tick p d) { s with chan := false, txs := true } []

theorem choose_none {p : Nat} {l : List Case} (h : choose p l = none) : l = [] := by
  cases l with
  | nil => rfl
  | cons e es => simp [choose] at h

theorem choose_mem {p : Nat} {l : List Case} {k : Case} (h : choose p l = some k) : k ∈ l := by
  cases l with
  | nil => simp [choose] at h
  | cons e es =>
    simp only [choose, Option.some.injEq] at h
    rw [← h, List.getD_eq_getElem?_getD]
    cases hg : (e :: es)[p % (es.length + 1)]? with
    | none => simp
    | some x => simpa using List.mem_of_getElem? hg

theorem mem_enabled {c : Cfg} {s : St} {k : Case} (h : k ∈ enabled c s) :
    (k = .lazyTimer ∧ c.lazy = true ∧ s.lazyT ≤ s.now) ∨ (k = .blockTimer ∧ s.blockT ≤ s.now) ∨
    (k = .notif ∧ s.chan = true) := by
  unfold enabled at h
  simp only [List.mem_append] at h
  rcases h with (h | h) | h
  · split at h
    · simp at h; exact Or.inl ⟨h, by assumption⟩
    · simp at h
  · split at h
    · simp at h; exact Or.inr (Or.inl ⟨h, by assumption⟩)
    · simp at h
  · split at h
    · simp at h; exact Or.inr (Or.inr ⟨h, by assumption⟩)
    · simp at h

theorem enabled_nil {c : Cfg} {s : St} (h : enabled c s = []) :
    (c.lazy = true → s.now < s.lazyT) ∧ s.now < s.blockT ∧ s.chan = false := by
  unfold enabled at h
  simp only [List.append_eq_nil_iff] at h
  obtain ⟨⟨h1, h2⟩, h3⟩ := h
  refine ⟨?_, ?_, ?_⟩
  · intro hl
    by_cases hc : s.lazyT ≤ s.now
    · simp [hl, hc] at h1
    · omega
  · by_cases hc : s.blockT ≤ s.now
    · simp [hc] at h2
    · omega
  · cases hch : s.chan with
    | false => rfl
    | true => simp [hch] at h3

theorem step_tr (c : Cfg) (s : St) (i : In) : Tr c s i (step c s i).1 (step c s i).2 := by
  cases i with
  | notify => exact Tr.notify
  | tick p d =>
    unfold step
    cases hf : s.flight with
    | some f =>
      simp only
      split
      · exact Tr.wait p d f hf (by assumption)
      · exact Tr.finish p d f hf (by omega)
    | none =>
      simp only
      cases hc : choose p (enabled c s) with
      | none =>
        obtain ⟨h1, h2, h3⟩ := enabled_nil (choose_none hc)
        exact Tr.idle p d hf h1 h2 h3
      | some k =>
        simp only
        rcases mem_enabled (choose_mem hc) with ⟨rfl, hl, ht⟩ | ⟨rfl, ht⟩ | ⟨rfl, hch⟩
        · exact Tr.lazyFire p d hf hl ht
        · unfold fire
          cases hl : c.lazy with
          | true =>
            cases htx : s.txs with
            | true => simpa [hl, htx] using Tr.blockFire (c := c) p d hf hl ht htx
            | false => simpa [hl, htx] using Tr.blockSkip (c := c) p d hf hl ht htx
          | false => simpa [hl] using Tr.normalFire (c := c) p d hf hl ht
        · exact Tr.recv p d hf hch

/-! ### time and outputs -/

theorem tr_now_le {c s i s' o} (t : Tr c s i s' o) : s.now ≤ s'.now := by
  cases t <;> simp [advance, finish, startFlight]

theorem tr_out {c s i s' o} (t : Tr c s i s' o) : o = [] ∨ o = [s.now] := by
  cases t <;> simp

theorem remaining_pos (e i : Nat) : 1 ≤ remaining e i := by
  unfold remaining; split <;> omega

theorem remaining_le (e i : Nat) (h : 1 ≤ i) : remaining e i ≤ i := by
  unfold remaining; split <;> omega

theorem remaining_ge (e i : Nat) : i ≤ e + remaining e i := by
  unfold remaining; split <;> omega

/-! ### the timer invariant -/

/-- at the `select` both timers are armed, not overdue, and at most one interval ahead; during a
production `start ≤ now ≤ fin`. -/
def Inv (c : Cfg) (s : St) : Prop :=
  match s.flight with
  | none => s.now ≤ s.blockT ∧ s.blockT ≤ s.now + c.block ∧
      (c.lazy = true → s.now ≤ s.lazyT ∧ s.lazyT ≤ s.now + c.idle)
  | some f => f.start ≤ s.now ∧ s.now ≤ f.fin

theorem inv_init (c : Cfg) : Inv c init := by simp [Inv, init]

theorem inv_tr {c s i s' o} (hB : 1 ≤ c.block) (hI : 1 ≤ c.idle) (h : Inv c s) (t : Tr c s i s' o) :
    Inv c s' := by
  have rp := remaining_pos; have rl := remaining_le
  cases t with
  | notify => simpa [Inv] using h
  | wait p d f hf hlt => simp only [Inv, hf, advance] at h ⊢; omega
  | finish p d f hf hle =>
    simp only [Inv, hf] at h
    simp only [Inv, finish]
    have h1 := rp (s.now - f.start) c.block; have h2 := rl (s.now - f.start) c.block hB
    have h3 := rp (s.now - f.start) c.idle; have h4 := rl (s.now - f.start) c.idle hI
    refine ⟨by omega, by omega, ?_⟩
    intro hl; simp only [hl, if_true]; omega
  | idle p d hf h1 h2 h3 =>
    simp only [Inv, hf, advance] at h ⊢
    refine ⟨by omega, by omega, ?_⟩
    intro hl; have := h.2.2 hl; have := h1 hl; omega
  | lazyFire p d hf hl ht => simp [Inv, startFlight]
  | blockFire p d hf hl ht htx => simp [Inv, startFlight]
  | normalFire p d hf hl ht => simp [Inv, startFlight]
  | blockSkip p d hf hl ht htx =>
    simp only [Inv, hf] at h ⊢
    exact ⟨by omega, by omega, h.2.2⟩
  | recv p d hf hch => simpa [Inv, hf] using h

theorem inv_step {c s} (hB : 1 ≤ c.block) (hI : 1 ≤ c.idle) (h : Inv c s) (i : In) : Inv c (step c s i).1 :=
  inv_tr hB hI h (step_tr c s i)

theorem inv_run {c} (hB : 1 ≤ c.block) (hI : 1 ≤ c.idle) : ∀ (ins : List In) (s : St), Inv c s → Inv c (run c s ins).1
  | [], _, h => h
  | i :: is, s, h => by
    simp only [run]
    exact inv_run hB hI is _ (inv_step hB hI h i)

theorem run_now_le (c : Cfg) : ∀ (ins : List In) (s : St), s.now ≤ (run c s ins).1.now
  | [], _ => Nat.le_refl _
  | i :: is, s => by
    simp only [run]
    exact Nat.le_trans (tr_now_le (step_tr c s i)) (run_now_le c is _)

theorem run_append (c : Cfg) : ∀ (a b : List In) (s : St),
    run c s (a ++ b) = ((run c (run c s a).1 b).1, (run c s a).2 ++ (run c (run c s a).1 b).2)
  | [], b, s => by simp [run]
  | i :: is, b, s => by
    simp only [List.cons_append, run, run_append c is b, List.append_assoc]

/-- every production start reported by a run is at or after the time the run began. -/
theorem run_out_ge (c : Cfg) : ∀ (ins : List In) (s : St) (q : Nat), q ∈ (run c s ins).2 → s.now ≤ q
  | [], _, q, h => by simp [run] at h
  | i :: is, s, q, h => by
    simp only [run, List.mem_append] at h
    rcases h with h | h
    · rcases tr_out (step_tr c s i) with e | e
      · rw [e] at h; simp at h
      · rw [e] at h; simp at h; omega
    · exact Nat.le_trans (tr_now_le (step_tr c s i)) (run_out_ge c is _ q h)

/-! ### "a production is due by `D`" -/

/-- If `O` holds of a state only while `now ≤ D` and survives every step that starts no production,
then every run that gets past `D` contains a production start in `[now, D]`. -/
theorem run_due (c : Cfg) (O : St → Prop) (D : Nat)
    (hnow : ∀ s, O s → s.now ≤ D)
    (hstep : ∀ s i, O s → (step c s i).2 = [] → O (step c s i).1) :
    ∀ (ins : List In) (s : St), O s → D < (run c s ins).1.now →
      ∃ q, q ∈ (run c s ins).2 ∧ s.now ≤ q ∧ q ≤ D
  | [], s, ho, hd => by
    have := hnow s ho
    simp only [run] at hd; omega
  | i :: is, s, ho, hd => by
    simp only [run] at hd ⊢
    rcases tr_out (step_tr c s i) with e | e
    · obtain ⟨q, hq, h1, h2⟩ := run_due c O D hnow hstep is _ (hstep s i ho e) hd
      exact ⟨q, List.mem_append_right _ hq, Nat.le_trans (tr_now_le (step_tr c s i)) h1, h2⟩
    · exact ⟨s.now, by rw [e]; simp, Nat.le_refl _, hnow s ho⟩

/-! ### spacing -/

/-- `SpacedFrom L m l`: the first element is `≥ L`, each next one `≥ previous + m`. -/
def SpacedFrom (m : Nat) : Nat → List Nat → Prop
  | _, [] => True
  | L, q :: r => L ≤ q ∧ SpacedFrom m (q + m) r

/-- consecutive elements are at least `m` apart. -/
def Spaced (m : Nat) : List Nat → Prop
  | [] => True
  | [_] => True
  | a :: b :: r => a + m ≤ b ∧ Spaced m (b :: r)

instance (m : Nat) : ∀ l, Decidable (Spaced m l)
  | [] => isTrue trivial
  | [_] => isTrue trivial
  | a :: b :: r =>
    have : Decidable (Spaced m (b :: r)) := instDecidableSpaced m (b :: r)
    if h : a + m ≤ b then
      if h2 : Spaced m (b :: r) then isTrue ⟨h, h2⟩ else isFalse (fun x => h2 x.2)
    else isFalse (fun x => h x.1)

theorem spaced_of_from (m : Nat) : ∀ (l : List Nat) (L : Nat), SpacedFrom m L l → Spaced m l
  | [], _, _ => trivial
  | [_], _, _ => trivial
  | a :: b :: r, L, h => by
    obtain ⟨_, h2⟩ := h
    exact ⟨h2.1, spaced_of_from m (b :: r) (a + m) h2⟩

/-- no production can start before `L`; `m` is the spacing enforced by the timer resets. -/
def LowerNext (c : Cfg) (m : Nat) (s : St) (L : Nat) : Prop :=
  match s.flight with
  | none => L ≤ s.blockT ∧ (c.lazy = true → L ≤ s.lazyT)
  | some f => f.start ≤ s.now ∧ L ≤ f.start + m

theorem lower_tr {c m s i s' o L} (hmB : m ≤ c.block) (hmI : c.lazy = true → m ≤ c.idle)
    (h : LowerNext c m s L) (t : Tr c s i s' o) :
    (o = [] ∧ LowerNext c m s' L) ∨ (o = [s.now] ∧ L ≤ s.now ∧ LowerNext c m s' (s.now + m)) := by
  cases t with
  | notify => exact Or.inl ⟨rfl, by simpa [LowerNext] using h⟩
  | wait p d f hf hlt =>
    refine Or.inl ⟨rfl, ?_⟩
    simp only [LowerNext, hf, advance] at h ⊢; omega
  | finish p d f hf hle =>
    refine Or.inl ⟨rfl, ?_⟩
    simp only [LowerNext, hf] at h
    simp only [LowerNext, finish]
    have h1 := remaining_ge (s.now - f.start) c.block
    have h2 := remaining_ge (s.now - f.start) c.idle
    refine ⟨by omega, ?_⟩
    intro hl; have := hmI hl; simp only [hl, if_true]; omega
  | idle p d hf h1 h2 h3 =>
    refine Or.inl ⟨rfl, ?_⟩
    simpa [LowerNext, hf, advance] using h
  | lazyFire p d hf hl ht =>
    refine Or.inr ⟨rfl, ?_, ?_⟩
    · simp only [LowerNext, hf] at h; have := h.2 hl; omega
    · simp [LowerNext, startFlight]
  | blockFire p d hf hl ht htx =>
    refine Or.inr ⟨rfl, ?_, ?_⟩
    · simp only [LowerNext, hf] at h; omega
    · simp [LowerNext, startFlight]
  | normalFire p d hf hl ht =>
    refine Or.inr ⟨rfl, ?_, ?_⟩
    · simp only [LowerNext, hf] at h; omega
    · simp [LowerNext, startFlight]
  | blockSkip p d hf hl ht htx =>
    refine Or.inl ⟨rfl, ?_⟩
    simp only [LowerNext, hf] at h ⊢
    exact ⟨by omega, h.2⟩
  | recv p d hf hch => exact Or.inl ⟨rfl, by simpa [LowerNext, hf] using h⟩

theorem lower_run {c m} (hmB : m ≤ c.block) (hmI : c.lazy = true → m ≤ c.idle) :
    ∀ (ins : List In) (s : St) (L : Nat), LowerNext c m s L → SpacedFrom m L (run c s ins).2
  | [], _, _, _ => trivial
  | i :: is, s, L, h => by
    simp only [run]
    rcases lower_tr hmB hmI h (step_tr c s i) with ⟨e, h'⟩ | ⟨e, hL, h'⟩
    · rw [e]; exact lower_run hmB hmI is _ L h'
    · rw [e]; exact ⟨hL, lower_run hmB hmI is _ _ h'⟩

/-! ### exact cadence (idle chain, normal mode) -/

/-- `l = [L, L+m, L+2m, …]` -/
def ExactFrom (m : Nat) : Nat → List Nat → Prop
  | _, [] => True
  | L, q :: r => q = L ∧ ExactFrom m (q + m) r

instance (m : Nat) : ∀ L l, Decidable (ExactFrom m L l)
  | _, [] => isTrue trivial
  | L, q :: r =>
    have : Decidable (ExactFrom m (q + m) r) := instDecidableExactFrom m (q + m) r
    if h : q = L then
      if h2 : ExactFrom m (q + m) r then isTrue ⟨h, h2⟩ else isFalse (fun x => h2 x.2)
    else isFalse (fun x => h x.1)

/-- every production of the input list is shorter than `m` -/
def ShortDurs (m : Nat) (ins : List In) : Prop :=
  ∀ p d, In.tick p d ∈ ins → d < m

def NoNotify (ins : List In) : Prop := In.notify ∉ ins

/-- idle chain: nothing pending, the lazy timer fires next at exactly `L`. -/
def IdleAt (c : Cfg) (s : St) (L : Nat) : Prop :=
  s.txs = false ∧ s.chan = false ∧
  match s.flight with
  | none => s.lazyT = L
  | some f => f.start + c.idle = L ∧ f.fin < L

theorem idle_tr {c s p d s' o L} (hl : c.lazy = true) (hd : d < c.idle) (hi : Inv c s) (h : IdleAt c s L)
    (t : Tr c s (.tick p d) s' o) :
    (o = [] ∧ IdleAt c s' L) ∨ (o = [L] ∧ IdleAt c s' (L + c.idle)) := by
  obtain ⟨htx, hch, h⟩ := h
  cases t with
  | wait p d f hf hlt =>
    refine Or.inl ⟨rfl, ?_⟩
    simpa [IdleAt, hf, advance, htx, hch] using h
  | finish p d f hf hle =>
    refine Or.inl ⟨rfl, ?_⟩
    simp only [Inv, hf] at hi
    simp only [hf] at h
    simp only [IdleAt, finish, hl, if_true, htx, hch, remaining]
    refine ⟨by simp, trivial, ?_⟩
    have : s.now - f.start < c.idle := by omega
    simp only [this, if_true]; omega
  | idle p d hf h1 h2 h3 =>
    refine Or.inl ⟨rfl, ?_⟩
    simpa [IdleAt, hf, advance, htx, hch] using h
  | lazyFire p d hf hl' ht =>
    simp only [Inv, hf] at hi
    simp only [hf] at h
    have hnow : s.now = L := by have := (hi.2.2 hl).1; omega
    refine Or.inr ⟨by rw [hnow], ?_⟩
    simp only [IdleAt, startFlight, htx, hch]
    exact ⟨trivial, trivial, by omega, by omega⟩
  | blockFire p d hf hl' ht htx' => rw [htx] at htx'; cases htx'
  | normalFire p d hf hl' ht => rw [hl] at hl'; cases hl'
  | blockSkip p d hf hl' ht htx' =>
    refine Or.inl ⟨rfl, ?_⟩
    simpa [IdleAt, hf, htx, hch] using h
  | recv p d hf hch' => rw [hch] at hch'; cases hch'

/-- normal mode: the block timer fires next at exactly `L` (whatever the notifications did). -/
def NormalAt (c : Cfg) (s : St) (L : Nat) : Prop :=
  match s.flight with
  | none => s.blockT = L
  | some f => f.start + c.block = L ∧ f.fin < L

theorem normal_tr {c s i s' o L} (hl : c.lazy = false) (hd : ∀ p d, i = .tick p d → d < c.block)
    (hi : Inv c s) (h : NormalAt c s L) (t : Tr c s i s' o) :
    (o = [] ∧ NormalAt c s' L) ∨ (o = [L] ∧ NormalAt c s' (L + c.block)) := by
  cases t with
  | notify => exact Or.inl ⟨rfl, by simpa [NormalAt] using h⟩
  | wait p d f hf hlt =>
    refine Or.inl ⟨rfl, ?_⟩
    simpa [NormalAt, hf, advance] using h
  | finish p d f hf hle =>
    refine Or.inl ⟨rfl, ?_⟩
    simp only [Inv, hf] at hi
    simp only [NormalAt, hf] at h
    simp only [NormalAt, finish, remaining]
    have : s.now - f.start < c.block := by omega
    simp only [this, if_true]; omega
  | idle p d hf h1 h2 h3 =>
    refine Or.inl ⟨rfl, ?_⟩
    simpa [NormalAt, hf, advance] using h
  | lazyFire p d hf hl' ht => rw [hl] at hl'; cases hl'
  | blockFire p d hf hl' ht htx' => rw [hl] at hl'; cases hl'
  | blockSkip p d hf hl' ht htx' => rw [hl] at hl'; cases hl'
  | normalFire p d hf hl' ht =>
    simp only [Inv, hf] at hi
    simp only [NormalAt, hf] at h
    have hnow : s.now = L := by omega
    have := hd p d rfl
    refine Or.inr ⟨by rw [hnow], ?_⟩
    simp only [NormalAt, startFlight]
    exact ⟨by omega, by omega⟩
  | recv p d hf hch => exact Or.inl ⟨rfl, by simpa [NormalAt, hf] using h⟩


theorem idle_run {c} (hl : c.lazy = true) (hB : 1 ≤ c.block) (hI : 1 ≤ c.idle) :
    ∀ (ins : List In) (s : St) (L : Nat), Inv c s → IdleAt c s L → NoNotify ins → ShortDurs c.idle ins →
      ExactFrom c.idle L (run c s ins).2
  | [], _, _, _, _, _, _ => trivial
  | i :: is, s, L, hi, h, hn, hd => by
    have hn' : NoNotify is := fun hm => hn (List.mem_cons_of_mem _ hm)
    have hd' : ShortDurs c.idle is := fun p d hm => hd p d (List.mem_cons_of_mem _ hm)
    cases i with
    | notify => exact absurd (List.mem_cons_self) hn
    | tick p d =>
      simp only [run]
      have hdd : d < c.idle := hd p d List.mem_cons_self
      have t := step_tr c s (.tick p d)
      have hi' := inv_tr hB hI hi t
      rcases idle_tr hl hdd hi h t with ⟨e, h'⟩ | ⟨e, h'⟩
      · rw [e]; exact idle_run hl hB hI is _ L hi' h' hn' hd'
      · rw [e]; exact ⟨rfl, idle_run hl hB hI is _ _ hi' h' hn' hd'⟩

theorem normal_run {c} (hl : c.lazy = false) (hB : 1 ≤ c.block) (hI : 1 ≤ c.idle) :
    ∀ (ins : List In) (s : St) (L : Nat), Inv c s → NormalAt c s L → ShortDurs c.block ins →
      ExactFrom c.block L (run c s ins).2
  | [], _, _, _, _, _ => trivial
  | i :: is, s, L, hi, h, hd => by
    have hd' : ShortDurs c.block is := fun p d hm => hd p d (List.mem_cons_of_mem _ hm)
    simp only [run]
    have t := step_tr c s i
    have hi' := inv_tr hB hI hi t
    have hdd : ∀ p d, i = .tick p d → d < c.block := fun p d e => hd p d (by rw [e]; exact List.mem_cons_self)
    rcases normal_tr hl hdd hi h t with ⟨e, h'⟩ | ⟨e, h'⟩
    · rw [e]; exact normal_run hl hB hI is _ L hi' h' hd'
    · rw [e]; exact ⟨rfl, normal_run hl hB hI is _ _ hi' h' hd'⟩

/-! ### wake-up obligations -/

/-- end of the production in flight (`now` when the loop is at the `select`). -/
def flightEnd (s : St) : Nat :=
  match s.flight with
  | some f => f.fin
  | none => s.now

/-- a notification is waiting in the channel, or has been consumed (`txsAvailable`) and is not
being served by the production in flight. -/
def Pending (s : St) : Prop :=
  s.chan = true ∨ (s.txs = true ∧ ∀ f, s.flight = some f → f.viaBlock = false)

/-- a production start is owed by `D` because of a pending notification.  In flight: the block timer
will be re-armed to at most `fin + block`, or — when the production in flight is shorter than the block
interval — to exactly `start + block`.  At the `select` with the notification still in the channel:
either a whole block interval is left (a block tick without transactions may come first and re-arm the
timer), or the block timer is not ready yet, so the channel is read before time passes. -/
def WakeDue (c : Cfg) (D : Nat) (s : St) : Prop :=
  Inv c s ∧
  match s.flight with
  | some f => (s.chan = true ∨ (s.txs = true ∧ f.viaBlock = false)) ∧
      (f.fin + c.block ≤ D ∨ (f.fin < f.start + c.block ∧ f.start + c.block ≤ D))
  | none => s.blockT ≤ D ∧ ((s.txs = true ∧ s.now ≤ D) ∨
      (s.chan = true ∧ (s.now + c.block ≤ D ∨ s.now < s.blockT)))

theorem wake_now {c D s} (h : WakeDue c D s) : s.now ≤ D := by
  obtain ⟨hi, h⟩ := h
  unfold Inv at hi
  cases hf : s.flight with
  | none => simp only [hf] at h hi; omega
  | some f => simp only [hf] at h hi; omega

theorem wake_of_pending {c s} (hi : Inv c s) (hp : Pending s) :
    WakeDue c (max s.now (flightEnd s) + c.block) s := by
  refine ⟨hi, ?_⟩
  unfold Inv at hi
  unfold flightEnd
  cases hf : s.flight with
  | none =>
    simp only [hf] at hi ⊢
    refine ⟨by omega, ?_⟩
    rcases hp with hp | ⟨hp, _⟩
    · exact Or.inr ⟨hp, Or.inl (by omega)⟩
    · exact Or.inl ⟨hp, by omega⟩
  | some f =>
    simp only
    refine ⟨?_, Or.inl (by omega)⟩
    rcases hp with hp | ⟨hp, hv⟩
    · exact Or.inl hp
    · exact Or.inr ⟨hp, hv f hf⟩

/-- the production in flight (if any) is shorter than the block interval: the owed production is
due one block interval after `now`. -/
theorem wake_of_pending_short {c s} (hi : Inv c s) (hp : Pending s)
    (hs : ∀ f, s.flight = some f → f.fin < f.start + c.block) :
    WakeDue c (s.now + c.block) s := by
  refine ⟨hi, ?_⟩
  unfold Inv at hi
  cases hf : s.flight with
  | none =>
    simp only [hf] at hi ⊢
    refine ⟨by omega, ?_⟩
    rcases hp with hp | ⟨hp, _⟩
    · exact Or.inr ⟨hp, Or.inl (Nat.le_refl _)⟩
    · exact Or.inl ⟨hp, by omega⟩
  | some f =>
    simp only [hf] at hi ⊢
    refine ⟨?_, Or.inr ⟨hs f hf, by omega⟩⟩
    rcases hp with hp | ⟨hp, hv⟩
    · exact Or.inl hp
    · exact Or.inr ⟨hp, hv f hf⟩

theorem remaining_lt {e i : Nat} (h : e < i) : remaining e i = i - e := by
  unfold remaining; split <;> omega

theorem wake_tr {c D s i s' o} (hB : 1 ≤ c.block) (hI : 1 ≤ c.idle)
    (h : WakeDue c D s) (t : Tr c s i s' o) (ho : o = []) : WakeDue c D s' := by
  refine ⟨inv_tr hB hI h.1 t, ?_⟩
  obtain ⟨hi, h⟩ := h
  unfold Inv at hi
  cases t with
  | notify =>
    cases hf : s.flight with
    | none =>
      simp only [hf] at h ⊢
      refine ⟨h.1, ?_⟩
      rcases h.2 with h2 | h2
      · exact Or.inl h2
      · exact Or.inr ⟨trivial, h2.2⟩
    | some f => simp only [hf] at h ⊢; exact ⟨Or.inl trivial, h.2⟩
  | wait p d f hf hlt => simpa [hf, advance] using h
  | finish p d f hf hle =>
    simp only [hf] at h hi
    simp only [finish]
    rcases h.2 with hD | ⟨hsh, hD⟩
    · have h2 := remaining_le (s.now - f.start) c.block hB
      refine ⟨by omega, ?_⟩
      rcases h.1 with hc | ⟨htx, hv⟩
      · exact Or.inr ⟨hc, Or.inl (by omega)⟩
      · refine Or.inl ⟨?_, by omega⟩
        simp [hv, htx]
    · have h2 : remaining (s.now - f.start) c.block = c.block - (s.now - f.start) :=
        remaining_lt (by omega)
      refine ⟨by omega, ?_⟩
      rcases h.1 with hc | ⟨htx, hv⟩
      · exact Or.inr ⟨hc, Or.inr (by omega)⟩
      · refine Or.inl ⟨?_, by omega⟩
        simp [hv, htx]
  | idle p d hf h1 h2 h3 =>
    simp only [hf] at h
    simp only [advance, hf]
    refine ⟨h.1, ?_⟩
    rcases h.2 with h4 | h4
    · exact Or.inl ⟨h4.1, by omega⟩
    · rw [h3] at h4; exact absurd h4.1 (by simp)
  | lazyFire p d hf hl' ht => cases ho
  | blockFire p d hf hl' ht htx => cases ho
  | normalFire p d hf hl' ht => cases ho
  | blockSkip p d hf hl' ht htx =>
    simp only [hf] at h ⊢
    rcases h.2 with h4 | h4
    · rw [htx] at h4; exact absurd h4.1 (by simp)
    · rcases h4.2 with h5 | h5
      · exact ⟨by omega, Or.inr ⟨h4.1, Or.inl (by omega)⟩⟩
      · omega
  | recv p d hf hch =>
    simp only [hf] at h ⊢
    refine ⟨h.1, Or.inl ⟨trivial, ?_⟩⟩
    have := h.1
    rcases h.2 with h4 | ⟨_, h4 | h4⟩ <;> omega

/-- while a production is in flight no other one starts before it has ended. -/
theorem run_out_ge_fin (c : Cfg) : ∀ (ins : List In) (s : St) (f : Flight) (q : Nat),
    s.flight = some f → q ∈ (run c s ins).2 → f.fin ≤ q
  | [], _, _, q, _, h => by simp [run] at h
  | i :: is, s, f, q, hf, h => by
    simp only [run, List.mem_append] at h
    have t := step_tr c s i
    revert h
    generalize (step c s i).1 = s' at t ⊢
    generalize (step c s i).2 = o at t ⊢
    intro h
    cases t with
    | notify =>
      rcases h with h | h
      · simp at h
      · exact run_out_ge_fin c is _ f q (by simpa using hf) h
    | wait p d f' hf' hlt =>
      rcases h with h | h
      · simp at h
      · exact run_out_ge_fin c is _ f q (by simpa [advance] using hf) h
    | finish p d f' hf' hle =>
      rw [hf] at hf'; cases hf'
      rcases h with h | h
      · simp at h
      · have := run_out_ge c is _ q h
        simp only [finish] at this; omega
    | idle p d hf' _ _ _ => rw [hf] at hf'; cases hf'
    | lazyFire p d hf' _ _ => rw [hf] at hf'; cases hf'
    | blockFire p d hf' _ _ _ => rw [hf] at hf'; cases hf'
    | normalFire p d hf' _ _ => rw [hf] at hf'; cases hf'
    | blockSkip p d hf' _ _ _ => rw [hf] at hf'; cases hf'
    | recv p d hf' _ => rw [hf] at hf'; cases hf'

theorem run_out_ge_flightEnd (c : Cfg) (ins : List In) (s : St) (q : Nat)
    (h : q ∈ (run c s ins).2) : flightEnd s ≤ q := by
  unfold flightEnd
  cases hf : s.flight with
  | none => exact run_out_ge c ins s q h
  | some f => exact run_out_ge_fin c ins s f q hf h

/-- a production start is owed by `D` by the timer of interval `iv` (lazy timer in lazy mode,
block timer in normal mode). -/
def TimerDue (c : Cfg) (D : Nat) (s : St) : Prop :=
  Inv c s ∧
  match s.flight with
  | some f => f.fin + (if c.lazy = true then c.idle else c.block) ≤ D
  | none => (if c.lazy = true then s.lazyT else s.blockT) ≤ D

theorem timer_now {c D s} (h : TimerDue c D s) : s.now ≤ D := by
  obtain ⟨hi, h⟩ := h
  unfold Inv at hi
  cases hf : s.flight with
  | none =>
    simp only [hf] at h hi
    cases hl : c.lazy with
    | true => simp only [hl, if_true] at h; have := hi.2.2 hl; omega
    | false => simp [hl] at h; omega
  | some f => simp only [hf] at h hi; omega

theorem timer_of_inv {c s} (hi : Inv c s) :
    TimerDue c (flightEnd s + (if c.lazy = true then c.idle else c.block)) s := by
  refine ⟨hi, ?_⟩
  unfold Inv at hi
  unfold flightEnd
  cases hf : s.flight with
  | none =>
    simp only [hf] at hi ⊢
    cases hl : c.lazy with
    | true => simp only [if_true]; have := hi.2.2 hl; omega
    | false => simp; omega
  | some f => simp

theorem timer_tr {c D s i s' o} (hB : 1 ≤ c.block) (hI : 1 ≤ c.idle)
    (h : TimerDue c D s) (t : Tr c s i s' o) (ho : o = []) : TimerDue c D s' := by
  refine ⟨inv_tr hB hI h.1 t, ?_⟩
  obtain ⟨hi, h⟩ := h
  unfold Inv at hi
  cases t with
  | notify => simpa using h
  | wait p d f hf hlt => simpa [hf, advance] using h
  | finish p d f hf hle =>
    simp only [hf] at h hi
    have h1 := remaining_le (s.now - f.start) c.block hB
    have h2 := remaining_le (s.now - f.start) c.idle hI
    simp only [finish]
    cases hl : c.lazy with
    | true => simp only [hl, if_true] at h ⊢; omega
    | false => simp [hl] at h ⊢; omega
  | idle p d hf h1 h2 h3 => simpa [hf, advance] using h
  | lazyFire p d hf hl' ht => cases ho
  | blockFire p d hf hl' ht htx => cases ho
  | normalFire p d hf hl' ht => cases ho
  | blockSkip p d hf hl' ht htx => simpa [hf, hl'] using h
  | recv p d hf hch => simpa [hf] using h

/-! ## The start of `AggregationLoop` (`Sys`, `sysStep`, `boot`) -/

theorem sysRun_running (c : Cfg) : ∀ (ins : List In) (s : St),
    sysRun c (.running s) ins = (.running (run c s ins).1, (run c s ins).2)
  | [], _ => rfl
  | i :: is, s => by
    simp only [sysRun, sysStep, run, sysRun_running c is]

theorem inv_enter (c : Cfg) (now : Nat) (chan : Bool) : Inv c (enter now chan) := by
  simp [Inv, enter]

theorem lower_enter (c : Cfg) (m now : Nat) (chan : Bool) : LowerNext c m (enter now chan) now := by
  simp [LowerNext, enter]

/-- a run that starts in the wait and is still in it: same deadline, nothing produced, the channel
holds a notification iff it did before or one was sent, and time has not passed the deadline. -/
theorem sysRun_still_waiting (c : Cfg) (wake : Nat) : ∀ (ins : List In) (now : Nat) (chan : Bool) (now' wake' : Nat) (chan' : Bool),
    (sysRun c (.waiting now wake chan) ins).1 = .waiting now' wake' chan' →
    wake' = wake ∧ (sysRun c (.waiting now wake chan) ins).2 = [] ∧ now ≤ now' ∧ (now ≤ wake → now' ≤ wake) ∧
      (chan = true ∨ In.notify ∈ ins → chan' = true)
  | [], now, chan, now', wake', chan', h => by
    simp only [sysRun, Sys.waiting.injEq] at h
    obtain ⟨h1, h2, h3⟩ := h
    subst h1 h2 h3
    simp [sysRun]
  | .notify :: is, now, chan, now', wake', chan', h => by
    simp only [sysRun, sysStep] at h ⊢
    obtain ⟨a, b, d, e, f⟩ := sysRun_still_waiting c wake is now true now' wake' chan' h
    exact ⟨a, by simpa using b, d, e, fun _ => f (Or.inl rfl)⟩
  | .tick p d :: is, now, chan, now', wake', chan', h => by
    simp only [sysRun, sysStep] at h ⊢
    by_cases hw : now < wake
    · simp only [hw, if_true] at h ⊢
      obtain ⟨a, b, d', e, f⟩ := sysRun_still_waiting c wake is (now + 1) chan now' wake' chan' h
      refine ⟨a, by simpa using b, by omega, fun _ => e (by omega), ?_⟩
      intro hc
      apply f
      rcases hc with hc | hc
      · exact Or.inl hc
      · simp at hc; exact Or.inr hc
    · simp only [hw, if_false] at h
      rw [sysRun_running] at h
      simp at h

/-- every production of a run that starts in the wait is at or after the deadline of the wait, and the
productions are spaced as in the loop proper. -/
theorem sys_lower_run {c : Cfg} {m : Nat} (hmB : m ≤ c.block) (hmI : c.lazy = true → m ≤ c.idle) (wake : Nat) :
    ∀ (ins : List In) (now : Nat) (chan : Bool), SpacedFrom m wake (sysRun c (.waiting now wake chan) ins).2
  | [], _, _ => trivial
  | .notify :: is, now, chan => by
    simp only [sysRun, sysStep, List.nil_append]
    exact sys_lower_run hmB hmI wake is now true
  | .tick p d :: is, now, chan => by
    simp only [sysRun, sysStep]
    by_cases hw : now < wake
    · simp only [hw, if_true, List.nil_append]
      exact sys_lower_run hmB hmI wake is (now + 1) chan
    · simp only [hw, if_false, List.nil_append]
      rw [sysRun_running]
      have h := lower_run hmB hmI is (enter now chan) now (lower_enter c m now chan)
      cases hl : (run c (enter now chan) is).2 with
      | nil => trivial
      | cons q r =>
        rw [hl] at h
        exact ⟨by have := h.1; omega, h.2⟩

theorem spacedFrom_ge (m : Nat) : ∀ (l : List Nat) (L : Nat), SpacedFrom m L l → ∀ q ∈ l, L ≤ q
  | [], _, _, q, hq => by simp at hq
  | a :: r, L, h, q, hq => by
    simp only [List.mem_cons] at hq
    rcases hq with e | hq
    · subst e; exact h.1
    · have := spacedFrom_ge m r (a + m) h.2 q hq
      have := h.1
      omega

theorem spacedFrom_mono (m : Nat) : ∀ (l : List Nat) (L L' : Nat), L' ≤ L → SpacedFrom m L l → SpacedFrom m L' l
  | [], _, _, _, _ => trivial
  | _ :: _, _, _, hle, h => ⟨Nat.le_trans hle h.1, h.2⟩

/-- spacing of a concatenation: the second list starts one spacing after the last element of the first. -/
theorem spaced_append (m : Nat) : ∀ (a b : List Nat) (last : Nat), a.getLast? = some last →
    Spaced m a → SpacedFrom m (last + m) b → Spaced m (a ++ b)
  | [], _, _, h, _, _ => by simp at h
  | [x], b, last, h, _, hb => by
    simp at h
    subst h
    exact spaced_of_from m (x :: b) 0 ⟨Nat.zero_le _, hb⟩
  | x :: y :: r, b, last, h, ha, hb => by
    have h' : (y :: r).getLast? = some last := by simpa [List.getLast?_cons_cons] using h
    exact ⟨ha.1, spaced_append m (y :: r) b last h' ha.2 hb⟩

/-- a notification is in the channel when the wait ends: a production is due one block interval after
the deadline of the wait. -/
theorem sys_wake_due {c : Cfg} (hB : 1 ≤ c.block) (hI : 1 ≤ c.idle) (wake : Nat) :
    ∀ (post : List In) (now : Nat), now ≤ wake →
      wake + c.block < (sysRun c (.waiting now wake true) post).1.now →
      ∃ q, q ∈ (sysRun c (.waiting now wake true) post).2 ∧ wake ≤ q ∧ q ≤ wake + c.block
  | [], now, hn, hd => by
    simp only [sysRun, Sys.now] at hd; omega
  | .notify :: is, now, hn, hd => by
    simp only [sysRun, sysStep, List.nil_append] at hd ⊢
    exact sys_wake_due hB hI wake is now hn hd
  | .tick p d :: is, now, hn, hd => by
    simp only [sysRun, sysStep] at hd ⊢
    by_cases hw : now < wake
    · simp only [hw, if_true, List.nil_append] at hd ⊢
      exact sys_wake_due hB hI wake is (now + 1) (by omega) hd
    · simp only [hw, if_false, List.nil_append] at hd ⊢
      have e : now = wake := by omega
      subst e
      rw [sysRun_running] at hd ⊢
      simp only [Sys.now] at hd
      have hwd : WakeDue c (now + c.block) (enter now true) :=
        wake_of_pending_short (inv_enter c now true) (Or.inl rfl) (by simp [enter])
      obtain ⟨q, hq, h1, h2⟩ := run_due c (WakeDue c (now + c.block)) _
        (fun _ h => wake_now h)
        (fun s i h ho => wake_tr hB hI h (step_tr c s i) ho)
        is (enter now true) hwd hd
      exact ⟨q, hq, h1, h2⟩

/-- states of `Sys` reachable from a start satisfy the timer invariant once the loop proper runs -/
def SysInv (c : Cfg) : Sys → Prop
  | .waiting _ _ _ => True
  | .running s => Inv c s

theorem sysInv_run {c : Cfg} (hB : 1 ≤ c.block) (hI : 1 ≤ c.idle) : ∀ (ins : List In) (s : Sys), SysInv c s → SysInv c (sysRun c s ins).1
  | [], _, h => h
  | i :: is, .running s, h => by
    simp only [sysRun, sysStep]
    exact sysInv_run hB hI is _ (inv_step hB hI h i)
  | .notify :: is, .waiting now wake chan, _ => by
    simp only [sysRun, sysStep]
    exact sysInv_run hB hI is _ trivial
  | .tick p d :: is, .waiting now wake chan, _ => by
    simp only [sysRun, sysStep]
    by_cases hw : now < wake
    · simp only [hw, if_true]; exact sysInv_run hB hI is _ trivial
    · simp only [hw, if_false]; exact sysInv_run hB hI is _ (inv_enter c now chan)

theorem boot_wake (c : Cfg) (ref t0 : Nat) : ∃ wake, boot c ref t0 = .waiting t0 wake false ∧ t0 ≤ wake ∧ ref + c.block ≤ wake :=
  ⟨t0 + startDelay c ref t0, rfl, by omega, by unfold startDelay; omega⟩

end Lazy
