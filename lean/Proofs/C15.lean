import Model.KVExec

/-! Helper lemmas for `Spec.C15`: the byte-string order, the sorted store, staging. -/
set_option linter.unusedSimpArgs false

namespace KVExec

/-! ## `blt` is a strict total order -/

theorem blt_irrefl (a : Bytes) : blt a a = false := by
  induction a with
  | nil => rfl
  | cons x xs ih => simp [blt, ih]

theorem blt_trans {a b c : Bytes} : blt a b = true → blt b c = true → blt a c = true := by
  induction a generalizing b c with
  | nil =>
    cases b <;> cases c <;> simp [blt]
  | cons x xs ih =>
    cases b with
    | nil => simp [blt]
    | cons y ys =>
      cases c with
      | nil => simp [blt]
      | cons z zs =>
        simp only [blt, Bool.or_eq_true, Bool.and_eq_true, decide_eq_true_eq]
        intro h1 h2
        rcases h1 with h1 | ⟨e1, h1⟩ <;> rcases h2 with h2 | ⟨e2, h2⟩
        · left; omega
        · left; omega
        · left; omega
        · right; exact ⟨by omega, ih h1 h2⟩

theorem blt_total {a b : Bytes} : a ≠ b → blt a b = false → blt b a = true := by
  induction a generalizing b with
  | nil => cases b <;> simp [blt]
  | cons x xs ih =>
    cases b with
    | nil => simp [blt]
    | cons y ys =>
      simp only [blt, Bool.or_eq_false_iff, Bool.and_eq_false_iff, decide_eq_false_iff_not,
        Bool.or_eq_true, Bool.and_eq_true, decide_eq_true_eq, ne_eq, List.cons.injEq, not_and]
      intro hne ⟨h1, h2⟩
      by_cases hxy : x.toNat = y.toNat
      · right
        have hx : x = y := UInt8.toNat_inj.mp hxy
        refine ⟨hxy.symm, ih (fun h => hne hx h) ?_⟩
        rcases h2 with h2 | h2
        · exact absurd hxy h2
        · exact h2
      · left; omega

theorem blt_asymm {a b : Bytes} (h : blt a b = true) : blt b a = false := by
  cases hb : blt b a with
  | false => rfl
  | true => have := blt_trans h hb; simp [blt_irrefl] at this

theorem blt_ne {a b : Bytes} (h : blt a b = true) : a ≠ b := by
  intro e; subst e; simp [blt_irrefl] at h

/-! ## the sorted store -/

def Sorted (s : Store) : Prop := s.Pairwise fun e f => blt e.1 f.1 = true

theorem sorted_nil : Sorted [] := List.Pairwise.nil

theorem mem_put {k : Key} {v : Bytes} {s : Store} {e : Key × Bytes} :
    e ∈ put k v s → e = (k, v) ∨ e ∈ s := by
  induction s with
  | nil => simp [put]
  | cons hd r ih =>
    obtain ⟨k', v'⟩ := hd
    simp only [put]
    split
    · simp only [List.mem_cons]; rintro (h | h) <;> simp [h]
    · split
      · simp only [List.mem_cons]; rintro (h | h | h) <;> simp [h]
      · simp only [List.mem_cons]
        rintro (h | h)
        · simp [h]
        · rcases ih h with h | h <;> simp [h]

theorem put_sorted {k : Key} {v : Bytes} {s : Store} (hs : Sorted s) : Sorted (put k v s) := by
  induction s with
  | nil => simp [put, Sorted]
  | cons hd r ih =>
    obtain ⟨k', v'⟩ := hd
    have hs' := List.pairwise_cons.mp hs
    simp only [put]
    split
    · next h => subst h; exact List.pairwise_cons.mpr ⟨hs'.1, hs'.2⟩
    · split
      · next hne hlt =>
        refine List.pairwise_cons.mpr ⟨?_, hs⟩
        intro e he
        rcases List.mem_cons.mp he with he | he
        · subst he; exact hlt
        · exact blt_trans hlt (hs'.1 e he)
      · next hne hlt =>
        refine List.pairwise_cons.mpr ⟨?_, ih hs'.2⟩
        intro e he
        rcases mem_put he with he | he
        · subst he; exact blt_total hne (by simpa using hlt)
        · exact hs'.1 e he

theorem applyWrites_sorted {ws : List (Key × Bytes)} {s : Store} (hs : Sorted s) :
    Sorted (applyWrites ws s) := by
  induction ws generalizing s with
  | nil => exact hs
  | cons w ws ih => exact ih (put_sorted hs)

theorem applyWrites_append (a b : List (Key × Bytes)) (s : Store) :
    applyWrites (a ++ b) s = applyWrites b (applyWrites a s) := by
  simp [applyWrites, List.foldl_append]

theorem get?_put_same (k : Key) (v : Bytes) (s : Store) : get? k (put k v s) = some v := by
  induction s with
  | nil => simp [put, get?]
  | cons hd r ih =>
    obtain ⟨k', v'⟩ := hd
    simp only [put]
    split
    · simp [get?]
    · split
      · simp [get?]
      · next hne _ => simp [get?, hne, ih]

theorem get?_put_other {k k' : Key} (v : Bytes) (s : Store) (h : k ≠ k') :
    get? k (put k' v s) = get? k s := by
  induction s with
  | nil => simp [put, get?, h]
  | cons hd r ih =>
    obtain ⟨a, w⟩ := hd
    simp only [put]
    split
    · next e => subst e; simp [get?, h]
    · split
      · simp [get?, h]
      · by_cases hka : k = a <;> simp [get?, hka, ih]

theorem put_put_same (k : Key) (v v' : Bytes) (s : Store) : put k v (put k v' s) = put k v s := by
  induction s with
  | nil => simp [put]
  | cons hd r ih =>
    obtain ⟨a, w⟩ := hd
    simp only [put]
    split
    · simp [put]
    · split
      · simp [put]
      · next hne hlt => simp [put, hne, hlt, ih]

theorem put_comm {k k' : Key} (v v' : Bytes) (s : Store) (h : k ≠ k') :
    put k v (put k' v' s) = put k' v' (put k v s) := by
  have h' : k' ≠ k := Ne.symm h
  induction s with
  | nil =>
    simp only [put, h, h', if_false]
    by_cases hlt : blt k k' = true
    · simp [hlt, blt_asymm hlt]
    · have := blt_total h (by simpa using hlt)
      simp [hlt, this]
  | cons hd r ih =>
    obtain ⟨a, w⟩ := hd
    by_cases e1 : k = a
    · subst e1
      by_cases l2 : blt k' k = true
      · simp [put, h, h', l2, blt_asymm l2]
      · simp [put, h, h', l2]
    · by_cases e2 : k' = a
      · subst e2
        by_cases l1 : blt k k' = true
        · simp [put, h, h', l1, blt_asymm l1]
        · simp [put, h, h', l1]
      · by_cases l1 : blt k a = true <;> by_cases l2 : blt k' a = true
        · by_cases l3 : blt k k' = true
          · simp [put, h, h', e1, e2, l1, l2, l3, blt_asymm l3]
          · have := blt_total h (by simpa using l3)
            simp [put, h, h', e1, e2, l1, l2, l3, this]
        · have l3 : blt k k' = true := blt_trans l1 (blt_total e2 (by simpa using l2))
          simp [put, h, h', e1, e2, l1, l2, l3, blt_asymm l3]
        · have l3 : blt k' k = true := blt_trans l2 (blt_total e1 (by simpa using l1))
          simp [put, h, h', e1, e2, l1, l2, l3, blt_asymm l3]
        · simp [put, h, h', e1, e2, l1, l2, ih]

/-! ## the part of the store the root looks at -/

theorem user_put_reserved {k : Key} (v : Bytes) (s : Store) (h : isReserved k = true) :
    user (put k v s) = user s := by
  induction s with
  | nil => simp [put, user, h]
  | cons hd r ih =>
    obtain ⟨a, w⟩ := hd
    simp only [put]
    split
    · next e => subst e; simp [user, List.filter_cons, h]
    · split
      · simp [user, List.filter_cons, h]
      · simp only [user, List.filter_cons] at ih ⊢
        rw [ih]

theorem put_lt_head {k : Key} (v : Bytes) {s : Store}
    (h : ∀ e ∈ s, blt k e.1 = true) : put k v s = (k, v) :: s := by
  cases s with
  | nil => rfl
  | cons hd r =>
    obtain ⟨a, w⟩ := hd
    have := h (a, w) (by simp)
    simp [put, blt_ne this, this]

theorem user_put_user {k : Key} (v : Bytes) {s : Store} (h : isReserved k = false) (hs : Sorted s) :
    user (put k v s) = put k v (user s) := by
  induction s with
  | nil => simp [put, user, h]
  | cons hd r ih =>
    obtain ⟨a, w⟩ := hd
    have hs' := List.pairwise_cons.mp hs
    simp only [put]
    split
    · next e => subst e; simp [user, List.filter_cons, h, put]
    · split
      · next hne hlt =>
        by_cases ha : isReserved a = true
        · have : user ((a, w) :: r) = user r := by simp [user, List.filter_cons, ha]
          rw [this]
          have hall : ∀ e ∈ user r, blt k e.1 = true := by
            intro e he
            have : e ∈ r := (List.mem_filter.mp he).1
            exact blt_trans hlt (hs'.1 e this)
          rw [put_lt_head v hall]
          simp [user, List.filter_cons, h, ha]
        · have ha' : isReserved a = false := by simpa using ha
          simp [user, List.filter_cons, h, ha', put, hne, hlt]
      · next hne hlt =>
        have ih' := ih hs'.2
        by_cases ha : isReserved a = true
        · simp only [user, List.filter_cons, ha] at ih' ⊢
          simpa using ih'
        · have ha' : isReserved a = false := by simpa using ha
          simp only [user, List.filter_cons, ha'] at ih' ⊢
          simp [put, hne, hlt, ih']

theorem user_sorted {s : Store} (hs : Sorted s) : Sorted (user s) :=
  List.Pairwise.filter _ hs

theorem user_user (s : Store) : user (user s) = user s := by
  simp [user, List.filter_filter]

theorem user_applyWrites {ws : List (Key × Bytes)} {s : Store}
    (hw : ∀ w ∈ ws, isReserved w.1 = false) (hs : Sorted s) :
    user (applyWrites ws s) = applyWrites ws (user s) := by
  induction ws generalizing s with
  | nil => rfl
  | cons w ws ih =>
    have h1 := hw w (by simp)
    have h2 : ∀ w' ∈ ws, isReserved w'.1 = false := fun w' hw' => hw w' (by simp [hw'])
    show user (applyWrites ws (put w.1 w.2 s)) = applyWrites ws (put w.1 w.2 (user s))
    rw [ih h2 (put_sorted hs), user_put_user _ h1 hs]

/-! ## staging -/

theorem parseTx_not_reserved {tx : Bytes} {w : Key × Bytes} (h : parseTx tx = .ok w) :
    isReserved w.1 = false := by
  unfold parseTx at h
  split at h
  · cases h
  · simp only at h
    split at h
    · cases h
    · split at h
      · cases h
      · next hr => cases h; simpa using hr

theorem stage_not_reserved {txs : List Bytes} {ws : List (Key × Bytes)} (h : stage txs = .ok ws) :
    ∀ w ∈ ws, isReserved w.1 = false := by
  induction txs generalizing ws with
  | nil => simp [stage] at h; subst h; simp
  | cons tx r ih =>
    simp only [stage] at h
    split at h
    · cases h
    · next w hw =>
      split at h
      · cases h
      · next ws' hws =>
        cases h
        intro w' hw'
        rcases List.mem_cons.mp hw' with e | e
        · subst e; exact parseTx_not_reserved hw
        · exact ih hws w' e

theorem stage_ok_all {txs : List Bytes} {ws : List (Key × Bytes)} (h : stage txs = .ok ws) :
    ∀ tx ∈ txs, ∃ w, parseTx tx = .ok w := by
  induction txs generalizing ws with
  | nil => simp
  | cons tx r ih =>
    simp only [stage] at h
    split at h
    · cases h
    · next w hw =>
      split at h
      · cases h
      · next ws' hws =>
        intro t ht
        rcases List.mem_cons.mp ht with e | e
        · subst e; exact ⟨w, hw⟩
        · exact ih hws t e

theorem stage_append {a b : List Bytes} {wa wb : List (Key × Bytes)}
    (ha : stage a = .ok wa) (hb : stage b = .ok wb) : stage (a ++ b) = .ok (wa ++ wb) := by
  induction a generalizing wa with
  | nil => simp [stage] at ha; subst ha; simpa using hb
  | cons tx r ih =>
    simp only [stage] at ha
    split at ha
    · cases ha
    · next w hw =>
      split at ha
      · cases ha
      · next ws' hws =>
        cases ha
        simp [stage, hw, ih hws]

/-- a committed batch leaves every key it does not name alone (in particular the reserved keys) -/
theorem get?_applyWrites_other {k : Key} {ws : List (Key × Bytes)} (s : Store)
    (h : ∀ w ∈ ws, w.1 ≠ k) : get? k (applyWrites ws s) = get? k s := by
  induction ws generalizing s with
  | nil => rfl
  | cons w ws ih =>
    show get? k (applyWrites ws (put w.1 w.2 s)) = get? k s
    rw [ih _ (fun w' hw' => h w' (by simp [hw'])), get?_put_other _ _ (Ne.symm (h w (by simp)))]

theorem get?_applyWrites_reserved {k : Key} {ws : List (Key × Bytes)} (s : Store)
    (hk : isReserved k = true) (h : ∀ w ∈ ws, isReserved w.1 = false) :
    get? k (applyWrites ws s) = get? k s :=
  get?_applyWrites_other s (fun w hw e => by have := h w hw; rw [e, hk] at this; cases this)

/-! ## re-execution -/

theorem put_applyWrites_absorb (k : Key) (v v' : Bytes) (ws : List (Key × Bytes)) (t : Store) :
    put k v (applyWrites ws (put k v' t)) = put k v (applyWrites ws t) := by
  induction ws generalizing t with
  | nil => exact put_put_same k v v' t
  | cons w ws ih =>
    show put k v (applyWrites ws (put w.1 w.2 (put k v' t))) = put k v (applyWrites ws (put w.1 w.2 t))
    by_cases e : w.1 = k
    · rw [e, put_put_same]
    · rw [put_comm _ _ _ e, ih]

theorem applyWrites_snoc (ws : List (Key × Bytes)) (w : Key × Bytes) (s : Store) :
    applyWrites (ws ++ [w]) s = put w.1 w.2 (applyWrites ws s) := by
  simp [applyWrites, List.foldl_append]

theorem applyWrites_idem_rev (rs : List (Key × Bytes)) (s : Store) :
    applyWrites rs.reverse (applyWrites rs.reverse s) = applyWrites rs.reverse s := by
  induction rs generalizing s with
  | nil => rfl
  | cons w rs ih =>
    rw [List.reverse_cons, applyWrites_snoc, applyWrites_snoc, put_applyWrites_absorb, ih]

/-- applying the same batch twice is the same as applying it once -/
theorem applyWrites_idem (ws : List (Key × Bytes)) (s : Store) :
    applyWrites ws (applyWrites ws s) = applyWrites ws s := by
  have := applyWrites_idem_rev ws.reverse s
  simpa using this

/-! ## histories: the writes that reach the hashed key space (vocabulary of `Spec.C15`) -/

/-- the key/value writes that reach the hashed key space: those of the executed blocks and nothing
else (`SetFinal` and `InitChain` write reserved keys only) -/
def writesOf : Op → List (Key × Bytes)
  | .exec txs => (match stage txs with | .ok ws => ws | .error _ => [])
  | _ => []

def writes (ops : List Op) : List (Key × Bytes) := ops.flatMap writesOf


theorem finalKey_reserved : isReserved finalKey = true := by decide

theorem writesOf_not_reserved (op : Op) : ∀ w ∈ writesOf op, isReserved w.1 = false := by
  cases op with
  | exec txs =>
    simp only [writesOf]
    split
    · next ws h => exact stage_not_reserved h
    · simp
  | _ => simp [writesOf]

theorem step_sorted {s : St} (op : Op) (hs : Sorted s.store) : Sorted (step s op).store := by
  cases op with
  | init =>
    simp only [step, initChain]
    split
    · split <;> exact hs
    · exact put_sorted (put_sorted hs)
  | exec txs =>
    simp only [step, executeTxs]
    split
    · exact hs
    · exact applyWrites_sorted hs
  | final h =>
    simp only [step, setFinal]
    split
    · exact hs
    · exact put_sorted hs
  | inject tx => simp only [step, injectTx]; split <;> exact hs
  | getTxs => exact hs
  | reopen => exact hs

/-- one step, seen through the hashed part of the store -/
theorem step_user {s : St} (op : Op) (hs : Sorted s.store) :
    user (step s op).store = applyWrites (writesOf op) (user s.store) := by
  cases op with
  | init =>
    simp only [step, initChain, writesOf, applyWrites, List.foldl_nil]
    split
    · split <;> rfl
    · rw [user_put_reserved _ _ (by decide), user_put_reserved _ _ (by decide)]
  | exec txs =>
    simp only [step, executeTxs, writesOf]
    split
    · next e h => simp [h, applyWrites]
    · next ws h => simp only [h]; exact user_applyWrites (stage_not_reserved h) hs
  | final h =>
    simp only [step, setFinal, writesOf, applyWrites, List.foldl_nil]
    split
    · rfl
    · exact user_put_reserved _ _ finalKey_reserved
  | inject tx => simp only [step, injectTx, writesOf]; split <;> rfl
  | getTxs => rfl
  | reopen => rfl

theorem foldl_sorted (ops : List Op) {s : St} (hs : Sorted s.store) : Sorted (ops.foldl step s).store := by
  induction ops generalizing s with
  | nil => exact hs
  | cons op r ih => exact ih (step_sorted op hs)

theorem foldl_user (ops : List Op) {s : St} (hs : Sorted s.store) :
    user (ops.foldl step s).store = applyWrites (writes ops) (user s.store) := by
  induction ops generalizing s with
  | nil => rfl
  | cons op r ih =>
    simp only [List.foldl_cons, writes, List.flatMap_cons]
    rw [ih (step_sorted op hs), step_user op hs, applyWrites_append]
    rfl

theorem run_sorted (ops : List Op) : Sorted (run ops).store := foldl_sorted ops sorted_nil

end KVExec
