import Model.KeyFile

/-! Helper lemmas for `Spec.C19` (key file model, any crypto bundle `C` satisfying `Laws C`). -/
namespace Proofs.C19
open KeyFile

variable {C : Crypto}

theorem length_eq_zero_iff' {l : Bytes} : l.length = 0 ↔ l = [] := List.length_eq_zero_iff

theorem deriveKey_salted (p salt : Bytes) (hs : salt ≠ []) : deriveKey C p salt = some (C.argon p salt) := by
  unfold deriveKey
  rw [if_neg]
  intro h; exact hs (List.length_eq_zero_iff.mp h)

theorem deriveKey_legacy (p : Bytes) : deriveKey C p [] = (legacyKey p).map C.raw := by
  unfold deriveKey; simp only [List.length_nil, if_true]

theorem mapM_legacyByte (p : Bytes) (h : p.length ≠ 0) (l : List Nat) :
    l.mapM (legacyByte p) = some (l.map fun i => p.getD (i % p.length) 0 ^^^ i.toUInt8) := by
  induction l with
  | nil => rfl
  | cons a t ih => simp [List.mapM_cons, legacyByte, h, ih]

/-- the legacy derivation is defined for every non-empty passphrase … -/
theorem legacyKey_isSome (p : Bytes) (h : p ≠ []) : (legacyKey p).isSome = true := by
  have hl : p.length ≠ 0 := fun e => h (List.length_eq_zero_iff.mp e)
  unfold legacyKey
  split
  · rfl
  · rw [mapM_legacyByte p hl]; rfl

/-- … and for no other: the empty passphrase reaches `i % 0`. -/
theorem legacyKey_nil : legacyKey [] = none := by decide

theorem deriveKey_isSome (p salt : Bytes) (h : p ≠ [] ∨ salt ≠ []) : (deriveKey C p salt).isSome = true := by
  unfold deriveKey
  split
  · next hz =>
    have hs : salt = [] := List.length_eq_zero_iff.mp hz
    have hp : p ≠ [] := by
      cases h with
      | inl h => exact h
      | inr h => exact absurd hs h
    have := legacyKey_isSome p hp
    cases hk : legacyKey p with
    | none => rw [hk] at this; cases this
    | some k => rfl
  · rfl

/-- AEAD: a sealed message opens only under the same key and nonce, to the same plaintext. -/
theorem dec_enc_inv (L : Laws C) {k k' : C.Key} {n n' m m' : Bytes}
    (h : C.dec k' n' (C.enc k n m) = some m') : k' = k ∧ n' = n ∧ m' = m := by
  by_cases hk : k = k'
  · by_cases hn : n = n'
    · subst hk; subst hn
      rw [L.dec_enc] at h
      exact ⟨rfl, rfl, (Option.some.inj h).symm⟩
    · rw [L.dec_nonce k k' n n' m hn] at h; cases h
  · rw [L.dec_key k k' n n' m hk] at h; cases h

theorem decrypt_ok_inv {p : Bytes} {f : File C} {m : Bytes} (h : decrypt C p f = .ok m) :
    ∃ k ct, deriveKey C p (fld f.salt) = some k ∧ (fld f.nonce).length = nonceSize ∧ f.ct = some ct ∧
      C.dec k (fld f.nonce) ct = some m := by
  unfold decrypt at h
  split at h
  · cases h
  · next k hk =>
    split at h
    · cases h
    · next hn =>
      split at h
      · cases h
      · next ct hct =>
        split at h
        · cases h
        · next m' hm =>
          cases h
          exact ⟨k, ct, hk, Decidable.not_not.mp hn, hct, hm⟩

theorem load_ok_inv {p : Bytes} {f : File C} {s : Signer C} (h : load C p f = .ok s) :
    ∃ m, decrypt C p f = .ok m ∧ C.parsePriv m = some s.sk ∧ C.parsePub (fld f.pub) = some s.pk := by
  unfold load at h
  split at h
  · cases h
  · cases h
  · next m hm =>
    split at h
    · cases h
    · next sk hsk =>
      split at h
      · cases h
      · next pk hpk =>
        cases h
        exact ⟨m, hm, hsk, hpk⟩

theorem decrypt_not_panic (p : Bytes) (f : File C) (hn : (fld f.nonce).length = nonceSize)
    (hp : p ≠ [] ∨ fld f.salt ≠ []) : (decrypt C p f).isPanic = false := by
  have hk := deriveKey_isSome (C := C) p (fld f.salt) hp
  unfold decrypt
  cases hd : deriveKey C p (fld f.salt) with
  | none => rw [hd] at hk; cases hk
  | some k =>
    simp only [hn, ne_eq, not_true_eq_false, if_false]
    cases f.ct with
    | none => rfl
    | some ct =>
      simp only
      cases hd2 : C.dec k (fld f.nonce) ct <;> rfl

theorem load_isPanic_eq (p : Bytes) (f : File C) : (load C p f).isPanic = (decrypt C p f).isPanic := by
  unfold load
  cases decrypt C p f with
  | panic q => rfl
  | err e => rfl
  | ok m =>
    simp only
    cases C.parsePriv m with
    | none => rfl
    | some sk => cases C.parsePub (fld f.pub) <;> rfl

theorem decrypt_save (L : Laws C) (p : Bytes) (sk : C.SK) (salt nonce : Bytes) (hs : salt ≠ [])
    (hn : nonce.length = nonceSize) : decrypt C p (save C p sk salt nonce) = .ok (C.privBytes sk) := by
  unfold decrypt save
  simp only [fld, Option.getD_some, deriveKey_salted p salt hs, hn, ne_eq, not_true_eq_false, if_false, L.dec_enc]

theorem consistent_iff (L : Laws C) (s : Signer C) : s.Consistent ↔ s.pk = C.pubOf s.sk := by
  constructor
  · intro h; exact L.verify_own _ _ [] (h [])
  · intro h m; rw [h]; exact L.verify_sign _ _

end Proofs.C19
