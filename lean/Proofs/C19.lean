import Model.KeyFile

/-! Helper lemmas for `Spec.C19` (key file model, any crypto bundle `C` satisfying `Laws C`). -/
namespace Proofs.C19
open KeyFile

variable {C : Crypto}

theorem length_eq_zero_iff' {l : Bytes} : l.length = 0 ↔ l = [] := List.length_eq_zero_iff

theorem deriveKey_salted (p salt : Bytes) (hs : salt ≠ []) : deriveKey C p salt = some (C.argon p salt) := by
  unfold deriveKey
  rw [if_neg]
  intro h; exact hs (List.length_eq_zero_iff.mp h)

theorem deriveKey_legacy (p : Bytes) : deriveKey C p [] = (legacyKey p).map C.raw := by
  unfold deriveKey; simp only [List.length_nil, if_true]

theorem mapM_legacyByte (p : Bytes) (h : p.length ≠ 0) (l : List Nat) :
    l.mapM (legacyByte p) = some (l.map fun i => p.getD (i % p.length) 0 ^^^ i.toUInt8) := by
  induction l with
  | nil => rfl
  | cons a t ih => simp [List.mapM_cons, legacyByte, h, ih]

/-- the legacy derivation is defined for every non-empty passphrase … -/
theorem legacyKey_isSome (p : Bytes) (h : p ≠ []) : (legacyKey p).isSome = true := by
  have hl : p.length ≠ 0 := fun e => h (List.length_eq_zero_iff.mp e)
  unfold legacyKey
  split
  · rfl
  · rw [mapM_legacyByte p hl]; rfl

/-- … and for no other: the empty passphrase reaches `i % 0`. -/
theorem legacyKey_nil : legacyKey [] = none := by decide

theorem deriveKey_isSome (p salt : Bytes) (h : p ≠ [] ∨ salt ≠ []) : (deriveKey C p salt).isSome = true := by
  unfold deriveKey
  split
  · next hz =>
    have hs : salt = [] := List.length_eq_zero_iff.mp hz
    have hp : p ≠ [] := by
      cases h with
      | inl h => exact h
      | inr h => exact absurd hs h
    have := legacyKey_isSome p hp
    cases hk : legacyKey p with
    | none => rw [hk] at this; cases this
    | some k => rfl
  · rfl

/-- AEAD: a sealed message opens only under the same key and nonce, to the same plaintext. -/
theorem dec_enc_inv (L : Laws C) {k k' : C.Key} {n n' m m' : Bytes}
    (h : C.dec k' n' (C.enc k n m) = some m') : k' = k ∧ n' = n ∧ m' = m := by
  by_cases hk : k = k'
  · by_cases hn : n = n'
    · subst hk; subst hn
      rw [L.dec_enc] at h
      exact ⟨rfl, rfl, (Option.some.inj h).symm⟩
    · rw [L.dec_nonce k k' n n' m hn] at h; cases h
  · rw [L.dec_key k k' n n' m hk] at h; cases h

theorem gcmOpen_ok_inv {k : C.Key} {n : Bytes} {c : Option C.Ct} {m : Bytes} (h : gcmOpen C k n c = .ok m) :
    n.length = nonceSize ∧ ∃ ct, c = some ct ∧ C.dec k n ct = some m := by
  unfold gcmOpen at h
  split at h
  · cases h
  · next hn =>
    split at h
    · cases h
    · next ct =>
      split at h
      · cases h
      · next m' hm => cases h; exact ⟨Decidable.not_not.mp hn, ct, rfl, hm⟩

/-- `gcm.Open` panics exactly on a nonce of the wrong length -/
theorem gcmOpen_isPanic (k : C.Key) (n : Bytes) (c : Option C.Ct) :
    (gcmOpen C k n c).isPanic = true ↔ n.length ≠ nonceSize := by
  unfold gcmOpen
  split
  · next h => exact ⟨fun _ => h, fun _ => rfl⟩
  · next h =>
    constructor
    · intro hp
      split at hp
      · cases hp
      · split at hp <;> cases hp
    · intro hn; exact absurd hn h

theorem gcmOpen_not_panic (k : C.Key) {n : Bytes} (c : Option C.Ct) (hn : n.length = nonceSize) :
    (gcmOpen C k n c).isPanic = false := by
  cases hp : (gcmOpen C k n c).isPanic with
  | false => rfl
  | true => exact absurd hn ((gcmOpen_isPanic k n c).mp hp)

theorem decrypt_ok_inv {p : Bytes} {f : File C} {m : Bytes} (h : decrypt C p f = .ok m) :
    ∃ k ct, deriveKey C p (fld f.salt) = some k ∧ (fld f.nonce).length = nonceSize ∧ f.ct = some ct ∧
      C.dec k (fld f.nonce) ct = some m := by
  unfold decrypt at h
  split at h
  · cases h
  · split at h
    · cases h
    · next k hk =>
      split at h
      · cases h
      · next hn =>
        obtain ⟨_, ct, hct, hm⟩ := gcmOpen_ok_inv h
        exact ⟨k, ct, hk, Decidable.not_not.mp hn, hct, hm⟩

theorem load_ok_inv {p : Bytes} {f : File C} {s : Signer C} (h : load C p f = .ok s) :
    ∃ m, decrypt C p f = .ok m ∧ C.parsePriv m = some s.sk ∧ C.parsePub (fld f.pub) = some s.pk ∧
      C.pubBytes (C.pubOf s.sk) = C.pubBytes s.pk := by
  unfold load at h
  split at h
  · cases h
  · cases h
  · next m hm =>
    split at h
    · cases h
    · next sk hsk =>
      split at h
      · cases h
      · next pk hpk =>
        split at h
        · next he => cases h; exact ⟨m, hm, hsk, hpk, he⟩
        · cases h

/-- the guards of `decrypt` make both panic branches unreachable: every passphrase, every file -/
theorem decrypt_not_panic (p : Bytes) (f : File C) : (decrypt C p f).isPanic = false := by
  unfold decrypt
  split
  · rfl
  · next h1 =>
    have hp : p ≠ [] ∨ fld f.salt ≠ [] := by
      by_cases hp : p = []
      · right; intro hs; exact h1 ⟨by rw [hs]; rfl, by rw [hp]; rfl⟩
      · exact Or.inl hp
    have hk := deriveKey_isSome (C := C) p (fld f.salt) hp
    cases hd : deriveKey C p (fld f.salt) with
    | none => rw [hd] at hk; cases hk
    | some k =>
      simp only
      split
      · rfl
      · next h2 => exact gcmOpen_not_panic k f.ct (Decidable.not_not.mp h2)

theorem load_isPanic_eq (p : Bytes) (f : File C) : (load C p f).isPanic = (decrypt C p f).isPanic := by
  unfold load
  cases decrypt C p f with
  | panic q => rfl
  | err e => rfl
  | ok m =>
    simp only
    cases C.parsePriv m with
    | none => rfl
    | some sk =>
      cases C.parsePub (fld f.pub) with
      | none => rfl
      | some pk => simp only; split <;> rfl

theorem gcmOpen_enc (L : Laws C) (k : C.Key) (n m : Bytes) (hn : n.length = nonceSize) :
    gcmOpen C k n (some (C.enc k n m)) = .ok m := by
  unfold gcmOpen
  simp only [hn, ne_eq, not_true_eq_false, if_false, L.dec_enc]

theorem decrypt_save (L : Laws C) (p : Bytes) (sk : C.SK) (salt nonce : Bytes) (hs : salt ≠ [])
    (hn : nonce.length = nonceSize) : decrypt C p (save C p sk salt nonce) = .ok (C.privBytes sk) := by
  have hs0 : ¬ (salt.length = 0 ∧ p.length = 0) := fun h => hs (List.length_eq_zero_iff.mp h.1)
  unfold decrypt save
  simp only [fld, Option.getD_some, if_neg hs0, deriveKey_salted p salt hs, hn, ne_eq, not_true_eq_false, if_false,
    gcmOpen_enc L _ _ _ hn]

/-! ### the behaviour before the repair (`decryptPre`/`loadPre`) -/

/-- the unguarded code panicked exactly on the two inputs the guards now reject -/
theorem decryptPre_isPanic (p : Bytes) (f : File C) :
    (decryptPre C p f).isPanic = true ↔ ((p = [] ∧ fld f.salt = []) ∨ (fld f.nonce).length ≠ nonceSize) := by
  unfold decryptPre
  by_cases hg : p = [] ∧ fld f.salt = []
  · rw [hg.1, hg.2, deriveKey_legacy, legacyKey_nil]
    exact ⟨fun _ => Or.inl ⟨rfl, rfl⟩, fun _ => rfl⟩
  · have hp : p ≠ [] ∨ fld f.salt ≠ [] := by
      by_cases hp : p = []
      · right; intro hs; exact hg ⟨hp, hs⟩
      · exact Or.inl hp
    have hk := deriveKey_isSome (C := C) p (fld f.salt) hp
    cases hd : deriveKey C p (fld f.salt) with
    | none => rw [hd] at hk; cases hk
    | some k =>
      simp only
      rw [gcmOpen_isPanic]
      exact ⟨fun h => Or.inr h, fun h => h.elim (fun h => absurd h hg) id⟩

/-- where the guards pass, the guarded and the unguarded code are the same function -/
theorem decrypt_eq_pre (p : Bytes) (f : File C) (h1 : ¬ ((fld f.salt).length = 0 ∧ p.length = 0))
    (h2 : (fld f.nonce).length = nonceSize) : decrypt C p f = decryptPre C p f := by
  unfold decrypt decryptPre
  rw [if_neg h1]
  cases deriveKey C p (fld f.salt) with
  | none => rfl
  | some k => simp only [h2, ne_eq, not_true_eq_false, if_false]

theorem decrypt_ok_pre {p : Bytes} {f : File C} {m : Bytes} (h : decrypt C p f = .ok m) : decryptPre C p f = .ok m := by
  have h1 : ¬ ((fld f.salt).length = 0 ∧ p.length = 0) := by
    intro hh; unfold decrypt at h; rw [if_pos hh] at h; cases h
  obtain ⟨_, _, _, h2, _, _⟩ := decrypt_ok_inv h
  rw [← decrypt_eq_pre p f h1 h2]; exact h

theorem consistent_iff (L : Laws C) (s : Signer C) : s.Consistent ↔ s.pk = C.pubOf s.sk := by
  constructor
  · intro h; exact L.verify_own _ _ [] (h [])
  · intro h m; rw [h]; exact L.verify_sign _ _

theorem pubBytes_inj (L : Laws C) {a b : C.PK} (h : C.pubBytes a = C.pubBytes b) : a = b := by
  have := L.parsePub_pubBytes a
  rw [h, L.parsePub_pubBytes] at this
  exact (Option.some.inj this).symm

theorem loadPre_ok_inv {p : Bytes} {f : File C} {s : Signer C} (h : loadPre C p f = .ok s) :
    ∃ m, decryptPre C p f = .ok m ∧ C.parsePriv m = some s.sk ∧ C.parsePub (fld f.pub) = some s.pk := by
  unfold loadPre at h
  split at h
  · cases h
  · cases h
  · next m hm =>
    split at h
    · cases h
    · next sk hsk =>
      split at h
      · cases h
      · next pk hpk => cases h; exact ⟨m, hm, hsk, hpk⟩

end Proofs.C19
