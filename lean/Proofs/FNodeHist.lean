import Proofs.FNodeScan

/-!
# Histories of a full node that syncs from the DA layer: the invariant

`HInv` holds after every operation of `FullNode.hstep` (blobs placed on the DA layer, fetch faults, runs of the two
loops in any admissible schedule, clean restarts, crashes after any number of the last durable writes, also during
a restart's own writes), provided every blob the classifier accepts is a part of the proposer's chain:

* with the DA height erased, the node satisfies the invariant `Sync.Inv` of C02 / C05;
* the DA height of its state — in memory and on disk, in every crash image — is the configured DA start height,
  hence **every (re)start puts the DA cursor on the configured DA start height**;
* every crash image is a consistent image (`DiskOK`);
* whatever the node has applied is on the DA layer at or above the DA start height.
-/
namespace FullNode
open Wire Chain Sync Retrieve

variable {C : Cfg} {ch : PChain} {top h0 : Nat} {evs : List Ev} {lv : Bool}

/-! ## parts on the DA layer: monotone in the contents -/

theorem HdrOnDA.mono {v v' : DAView} {k : Nat} (h : HdrOnDA C v k) (hsub : ∀ p ∈ v.placed, p ∈ v'.placed) :
    HdrOnDA C v' k := by
  obtain ⟨p, hp, r⟩ := h; exact ⟨p, hsub p hp, r⟩

theorem DatOnDA.mono {v v' : DAView} {k : Nat} (h : DatOnDA C v k) (hsub : ∀ p ∈ v.placed, p ∈ v'.placed) :
    DatOnDA C v' k := by
  obtain ⟨p, hp, r⟩ := h; exact ⟨p, hsub p hp, r⟩

theorem OnDA.mono {v v' : DAView} {k : Nat} (h : OnDA C ch v k) (hsub : ∀ p ∈ v.placed, p ∈ v'.placed) :
    OnDA C ch v' k := by
  obtain ⟨blk, hb, h1, h2⟩ := h
  exact ⟨blk, hb, h1.mono hsub, h2.imp id (fun x => x.mono hsub)⟩

theorem EvOnDA.mono {v v' : DAView} {e : Ev} (h : EvOnDA C v e) (hsub : ∀ p ∈ v.placed, p ∈ v'.placed) :
    EvOnDA C v' e := by
  cases e with
  | hdr k => exact HdrOnDA.mono h hsub
  | dat k => exact DatOnDA.mono h hsub

/-! ## the invariant -/

/-- `lv = true`: also the liveness half of C02's invariant (it needs `DistinctCommitments`, the hypothesis of C02's
recorded finding); `lv = false`: safety only, no assumption on commitments -/
structure HInv (lv : Bool) (C : Cfg) (ch : PChain) (h0 : Nat) (evs : List Ev) (s : HSt) : Prop where
  ok : s.ok = true
  safe : Safe C.sync ch h0 evs (eraseN s.nd.full)
  live : lv = true → Live ch evs (eraseN s.nd.full) ∧ Quiet (eraseN s.nd.full)
  da : s.nd.full.lastState.daHeight = C.daStart
  disk : DAok C.daStart s.nd.full.store
  cur : C.daStart ≤ s.nd.cursor
  view : ViewOK C ch s.v
  evsDA : ∀ e ∈ evs, EvOnDA C s.v e
  lowDA : ∀ k, C.sync.initialHeight ≤ k → k ≤ s.nd.full.store.height → OnDA C ch s.v k
  crash : ∀ k, DiskOK C.sync ch (eraseStore (s.before.applyPrefix k s.ws)) ∧
    recHeight C.sync (eraseStore (s.before.applyPrefix k s.ws)) ≤ s.nd.full.store.height ∧
    DAok C.daStart (s.before.applyPrefix k s.ws)

/-! ## start-up -/

theorem map_eraseW_noState : ∀ (ws : List SW), (∀ st, SW.updateState st ∉ ws) → ws.map eraseW = ws := by
  intro ws
  induction ws with
  | nil => intro _; rfl
  | cons w rest ih =>
    intro h
    rw [List.map_cons, ih (fun st hm => h st (List.mem_cons_of_mem _ hm))]
    cases w with
    | updateState st => exact absurd (List.mem_cons_self) (h st)
    | saveBlock _ _ => rfl
    | setHeight _ => rfl
    | setMeta _ _ => rfl

theorem state_apply_noState (d : Store) (w : SW) (hw : ∀ st, w ≠ .updateState st) : (d.apply w).state = d.state := by
  cases w with
  | updateState st => exact absurd rfl (hw st)
  | saveBlock _ _ => rfl
  | setHeight _ => exact state_setHeight _ _
  | setMeta _ _ => rfl

theorem state_applyAll_noState : ∀ (ws : List SW) (d : Store), (∀ st, SW.updateState st ∉ ws) →
    (d.applyAll ws).state = d.state := by
  intro ws
  induction ws with
  | nil => intro d _; rfl
  | cons w rest ih =>
    intro d h
    simp only [Store.applyAll, List.foldl_cons] at ih ⊢
    rw [ih _ (fun st hm => h st (List.mem_cons_of_mem _ hm)),
      state_apply_noState d w (fun st e => h st (by rw [e]; exact List.mem_cons_self))]

theorem raise_erase (D : Nat) (s : State) : eraseS (raise D s) = eraseS s := rfl

/-- the caches handed to `start` matter only through the four cache fields -/
theorem start_caches_erase (c : Sync.Cfg) (d : Store) (n : FNode) : Sync.start c d (eraseN n) = Sync.start c d n := rfl

/-- what `FullNode.start` builds when `Sync.start` succeeds on the erased image -/
theorem fstart_facts {d : Store} {caches n : FNode} {ws : List SW}
    (h : Sync.start C.sync (eraseStore d) caches = some (n, ws)) (hda : DAok C.daStart d) :
    ∃ nd, FullNode.start C d caches = some (nd, ws) ∧ eraseN nd.full = n ∧
      nd.full.lastState.daHeight = C.daStart ∧ nd.cursor = C.daStart ∧
      nd.full.store = d.applyAll ws ∧ (∀ st, SW.updateState st ∉ ws) := by
  rw [start_erase] at h
  cases hs : Sync.start C.sync d caches with
  | none => rw [hs] at h; cases h
  | some r =>
    obtain ⟨n0, ws0⟩ := r
    rw [hs] at h
    simp only [Option.map_some, Option.some.injEq, Prod.mk.injEq] at h
    obtain ⟨rfl, rfl⟩ := h
    obtain ⟨a1, a2, a3⟩ := start_shape C.sync d caches hs
    have hD : (raise C.daStart n0.lastState).daHeight = C.daStart := by
      show max n0.lastState.daHeight C.daStart = C.daStart
      rcases a3 with a3 | ⟨_, a3⟩
      · rw [hda _ a3]; exact Nat.max_self _
      · rw [a3]; show max 0 C.daStart = C.daStart; omega
    refine ⟨{ full := { n0 with lastState := raise C.daStart n0.lastState }, cursor := (raise C.daStart n0.lastState).daHeight },
      ?_, rfl, hD, hD, a1, a2⟩
    unfold FullNode.start
    rw [hs]

/-- a (re)start on a consistent image whose state carries the DA start height -/
theorem start_step (g : GoodChain C.sync ch top) {d : Store} (hd : DiskOK C.sync ch (eraseStore d))
    (hda : DAok C.daStart d) (caches : FNode) :
    ∃ nd ws n, FullNode.start C d caches = some (nd, ws) ∧
      Sync.start C.sync (eraseStore d) caches = some (n, ws) ∧ eraseN nd.full = n ∧
      nd.full.lastState.daHeight = C.daStart ∧ nd.cursor = C.daStart ∧ DAok C.daStart nd.full.store ∧
      ∀ k, DiskOK C.sync ch (eraseStore (d.applyPrefix k ws)) ∧
        recHeight C.sync (eraseStore (d.applyPrefix k ws)) = recHeight C.sync (eraseStore d) ∧
        DAok C.daStart (d.applyPrefix k ws) := by
  obtain ⟨n, ws, hst, hcr⟩ := start_crash_ok g hd caches
  obtain ⟨nd, a1, a2, a3, a4, a5, a6⟩ := fstart_facts hst hda
  refine ⟨nd, ws, n, a1, hst, a2, a3, a4, ?_, fun k => ?_⟩
  · rw [a5]; exact DAok.applyAll ws hda (fun st hm => absurd hm (a6 st))
  · have e : eraseStore (d.applyPrefix k ws) = (eraseStore d).applyPrefix k ws := by
      rw [← eraseStore_applyPrefix, map_eraseW_noState ws a6]
    refine ⟨by rw [e]; exact hcr k, ?_, DAok.applyPrefix ws hda (fun st hm => absurd hm (a6 st)) k⟩
    unfold recHeight
    rw [eraseStore_state, eraseStore_state]
    unfold Store.applyPrefix
    rw [state_applyAll_noState _ _ (fun st hm => a6 st (List.mem_of_mem_take hm))]

/-! ## the operations -/

/-- what is assumed of an operation: a placed blob that the classifier accepts is a part of the chain -/
def OpOK (C : Cfg) (ch : PChain) : HOp → Prop
  | .place _ b o => BlobOK C ch (b, o)
  | _ => True

theorem hinv_view {s : HSt} (hi : HInv lv C ch h0 evs s) (v' : DAView) (hp : ∀ p ∈ s.v.placed, p ∈ v'.placed)
    (hv : ViewOK C ch v') : HInv lv C ch h0 evs { s with v := v' } :=
  { hi with view := hv
            evsDA := fun e he => (hi.evsDA e he).mono hp
            lowDA := fun k a b => (hi.lowDA k a b).mono hp }

theorem mem_sched {hf : Bool} {hold : Nat} {evs : List Event} {e : Event} (h : e ∈ sched hf hold evs) : e ∈ evs := by
  unfold sched at h
  simp only at h
  split at h
  · rcases List.mem_append.mp h with h | h
    · exact (List.mem_filter.mp h).1
    · exact (List.mem_filter.mp (List.mem_of_mem_take h)).1
  · rcases List.mem_append.mp h with h | h
    · exact (List.mem_filter.mp h).1
    · exact (List.mem_filter.mp (List.mem_of_mem_take h)).1

/-- one scan whose events (any sub-multiset of them, in any order) are handled by the sync loop -/
theorem scan_step (g : GoodChain C.sync ch top) (dc : lv = true → DistinctCommitments ch) {s : HSt}
    (hi : HInv lv C ch h0 evs s) (es : List Event) (hsub : ∀ e ∈ es, e ∈ (scanOf C s.nd s.v).2.2.1) :
    HInv lv C ch h0 (evs ++ es.map absEv)
      { s with nd := { full := (feed C s.nd.full es).1, cursor := (scanOf C s.nd s.v).1.daHeight },
               v := (scanOf C s.nd s.v).2.1, before := s.nd.full.store, ws := (feed C s.nd.full es).2 } := by
  have hok : ∀ e ∈ es, EvOK C ch e := fun e he => (scan_events_ok hi.view s.nd e (hsub e he)).1
  have hon : ∀ e ∈ es, EvOnDA C s.v (absEv e) := fun e he => (scan_events_ok hi.view s.nd e (hsub e he)).2 hi.cur
  obtain ⟨vp, vt⟩ := scan_view C.sync.proposerAddr (scanFuel s.nd.cursor s.v.top) (rnodeOf s.nd) s.v [] []
  have hpl : ∀ p ∈ s.v.placed, p ∈ (scanOf C s.nd s.v).2.1.placed := by
    intro p hp; unfold scanOf; rw [vp]; exact hp
  obtain ⟨hsafe, haw⟩ := feed_safe (h0 := h0) g es evs _ hi.safe hok
  have hlive : lv = true → Live ch (evs ++ es.map absEv) (feed C (eraseN s.nd.full) es).1 ∧
      Quiet (feed C (eraseN s.nd.full) es).1 := fun hl => by
    have := feed_inv g (dc hl) es evs _ ⟨hi.safe, (hi.live hl).1, (hi.live hl).2⟩ hok
    exact ⟨this.live, this.quiet⟩
  rw [feed_erase] at hsafe haw hlive
  simp only at hsafe haw hlive
  have hda := feed_da C es s.nd.full
  have hst := feed_store C es s.nd.full
  have hevs : ∀ e ∈ evs ++ es.map absEv, EvOnDA C (scanOf C s.nd s.v).2.1 e := by
    intro e he
    rcases List.mem_append.mp he with he | he
    · exact (hi.evsDA e he).mono hpl
    · obtain ⟨x, hx, rfl⟩ := List.mem_map.mp he
      exact (hon x hx).mono hpl
  refine ⟨hi.ok, hsafe, hlive, by rw [hda.1, hi.da], ?_, ?_, ?_, hevs, ?_, ?_⟩
  · show DAok C.daStart (feed C s.nd.full es).1.store
    rw [hst]
    exact DAok.applyAll _ hi.disk (fun st hm => by rw [hda.2 st hm, hi.da])
  · exact Nat.le_trans hi.cur (trace_final_ge (scanOf_trace C s.nd s.v))
  · exact ⟨fun p hp => hi.view.blobs p (by unfold scanOf at hp; rw [vp] at hp; exact hp),
      fun p hp => by unfold scanOf at hp ⊢; rw [vp] at hp; rw [vt]; exact hi.view.below p hp⟩
  · intro k h1 h2
    by_cases hk : k ≤ s.nd.full.store.height
    · exact (hi.lowDA k h1 hk).mono hpl
    · have hge : h0 ≤ (eraseN s.nd.full).store.height := hi.safe.ge
      obtain ⟨b, hb, e1, e2⟩ := hsafe.sound k (by show h0 < k; have : (eraseN s.nd.full).store.height = s.nd.full.store.height := rfl; omega) h2
      exact ⟨b, hb, hevs _ e1, e2.imp id (hevs _)⟩
  · intro k
    have hset := hi.safe.settled g
    obtain ⟨c1, _, c3⟩ := crash_ok g haw _ hset k
    have e : eraseStore (s.nd.full.store.applyPrefix k (feed C s.nd.full es).2)
        = (eraseN s.nd.full).store.applyPrefix k ((feed C s.nd.full es).2.map eraseW) :=
      (eraseStore_applyPrefix _ _ _).symm
    refine ⟨by rw [e]; exact c1, by rw [e]; exact c3, ?_⟩
    exact DAok.applyPrefix _ hi.disk (fun st hm => by rw [hda.2 st hm, hi.da]) k

/-- **the invariant is preserved by every operation** -/
theorem hstep_inv (g : GoodChain C.sync ch top) (dc : lv = true → DistinctCommitments ch) {s : HSt}
    (hi : HInv lv C ch h0 evs s) (op : HOp) (hop : OpOK C ch op) :
    ∃ h0' evs', HInv lv C ch h0' evs' (hstep C s op) := by
  have hnok : (!s.ok) = false := by rw [hi.ok]; rfl
  cases op with
  | place da b o =>
    refine ⟨h0, evs, hinv_view hi _ (fun p hp => List.mem_append_left _ hp) ⟨?_, ?_⟩⟩
    · intro p hp
      rcases List.mem_append.mp hp with hp | hp
      · exact hi.view.blobs p hp
      · simp only [List.mem_singleton] at hp; subst hp; exact hop
    · intro p hp
      show p.1 < max s.v.top (da + 1)
      rcases List.mem_append.mp hp with hp | hp
      · have := hi.view.below p hp; omega
      · simp only [List.mem_singleton] at hp; subst hp; show da < _; omega
  | head n =>
    exact ⟨h0, evs, hinv_view hi _ (fun p hp => hp) ⟨hi.view.blobs, fun p hp => by
      have := hi.view.below p hp; show p.1 < max s.v.top n; omega⟩⟩
  | script da l =>
    simp only [hstep]
    split
    · exact ⟨h0, evs, hi⟩
    · exact ⟨h0, evs, hinv_view hi _ (fun p hp => hp) ⟨hi.view.blobs, hi.view.below⟩⟩
  | run =>
    simp only [hstep, hnok, Bool.false_eq_true, ↓reduceIte]
    exact ⟨h0, _, scan_step g dc hi _ (fun e he => he)⟩
  | runHeld hf hold =>
    simp only [hstep, hnok, Bool.false_eq_true, ↓reduceIte]
    exact ⟨h0, _, scan_step g dc hi _ (fun e he => mem_sched he)⟩
  | restart =>
    simp only [hstep, hnok, Bool.false_eq_true, ↓reduceIte]
    obtain ⟨hd, hr⟩ := hi.safe.diskOK g
    obtain ⟨nd, ws, n, a1, a2, a3, a4, a5, a6, a7⟩ := start_step g (d := s.nd.full.store) hd hi.disk s.nd.full
    have hres : restart C.sync (eraseN s.nd.full) = n := by
      unfold restart
      rw [start_caches_erase]
      show (match Sync.start C.sync (eraseStore s.nd.full.store) s.nd.full with | some (n', _) => n' | none => _) = n
      rw [a2]
    have hsafe := (restart_spec g hi.safe).2.2.2.2.2.2.2.2.2
    rw [hres] at hsafe
    have hlive : lv = true → Live ch evs n ∧ Quiet n := fun hl => by
      have := restart_inv g ⟨hi.safe, (hi.live hl).1, (hi.live hl).2⟩
      rw [hres] at this
      exact ⟨this.live, this.quiet⟩
    have hh : nd.full.store.height = s.nd.full.store.height := by
      have := (restart_spec g hi.safe).2.1
      rw [hres, ← a3] at this
      exact this
    unfold restartClean
    rw [a1]
    simp only [started]
    refine ⟨h0, evs, ⟨rfl, by rw [a3]; exact hsafe, by rw [a3]; exact hlive, a4, a6, by rw [a5]; exact Nat.le_refl _, hi.view, hi.evsDA, ?_, ?_⟩⟩
    · intro k h1 h2; exact hi.lowDA k h1 (by rw [← hh]; exact h2)
    · intro k
      obtain ⟨b1, b2, b3⟩ := a7 k
      refine ⟨b1, ?_, b3⟩
      show recHeight C.sync (eraseStore (s.nd.full.store.applyPrefix k ws)) ≤ nd.full.store.height
      rw [b2, hh]
      exact Nat.le_of_eq hr
  | crash k =>
    simp only [hstep, hnok, Bool.false_eq_true, ↓reduceIte]
    obtain ⟨c1, c2, c3⟩ := hi.crash k
    obtain ⟨nd, ws, n, a1, a2, a3, a4, a5, a6, a7⟩ := start_step g c1 c3 {}
    obtain ⟨n', ws', d1, d2, d3, d4⟩ := diskOK_start g c1
    rw [a2] at d1
    simp only [Option.some.injEq, Prod.mk.injEq] at d1
    obtain ⟨rfl, rfl⟩ := d1
    have hh : nd.full.store.height = recHeight C.sync (eraseStore (s.before.applyPrefix k s.ws)) := by
      rw [← d2, ← a3]; rfl
    unfold restartCrash
    rw [a1]
    simp only [started]
    refine ⟨_, [], ⟨rfl, by rw [a3]; exact d4.safe, by rw [a3]; exact fun _ => ⟨d4.live, d4.quiet⟩, a4, a6, by rw [a5]; exact Nat.le_refl _, hi.view, fun e he => by simp at he, ?_, ?_⟩⟩
    · intro j h1 h2
      exact hi.lowDA j h1 (by rw [hh] at h2; omega)
    · intro j
      obtain ⟨b1, b2, b3⟩ := a7 j
      exact ⟨b1, by rw [b2, hh]; exact Nat.le_refl _, b3⟩

end FullNode
