import Proofs.FNodeIncl

/-!
# Histories of a full node that syncs from the DA layer: the invariant

`HInv` holds after every operation of `FullNode.hstep` (blobs placed on the DA layer, fetch faults, runs of the two
loops in any admissible schedule, clean restarts, crashes after any number of the last durable writes, also during
a restart's own writes), provided every blob the classifier accepts is a part of the proposer's chain:

* with the DA height erased, the node satisfies the invariant `Sync.Inv` of C02 / C05;
* the DA height of its state — in memory and on disk, in every crash image — is the configured DA start height,
  hence **every (re)start puts the DA cursor on the configured DA start height**;
* every crash image is a consistent image (`DiskOK`);
* whatever the node has applied is on the DA layer at or above the DA start height.
-/
namespace FullNode
open Wire Chain Sync Retrieve Submit

variable {C : Cfg} {ch : PChain} {top h0 : Nat} {evs : List Ev} {lv gr : Bool}

/-! ## parts on the DA layer: monotone in the contents -/

theorem HdrOnDA.mono {v v' : DAView} {k : Nat} (h : HdrOnDA C v k) (hsub : ∀ p ∈ v.placed, p ∈ v'.placed) :
    HdrOnDA C v' k := by
  obtain ⟨p, hp, r⟩ := h; exact ⟨p, hsub p hp, r⟩

theorem DatOnDA.mono {v v' : DAView} {k : Nat} (h : DatOnDA C v k) (hsub : ∀ p ∈ v.placed, p ∈ v'.placed) :
    DatOnDA C v' k := by
  obtain ⟨p, hp, r⟩ := h; exact ⟨p, hsub p hp, r⟩

theorem OnDA.mono {v v' : DAView} {k : Nat} (h : OnDA C ch v k) (hsub : ∀ p ∈ v.placed, p ∈ v'.placed) :
    OnDA C ch v' k := by
  obtain ⟨blk, hb, h1, h2⟩ := h
  exact ⟨blk, hb, h1.mono hsub, h2.imp id (fun x => x.mono hsub)⟩

theorem EvOnDA.mono {v v' : DAView} {e : Ev} (h : EvOnDA C v e) (hsub : ∀ p ∈ v.placed, p ∈ v'.placed) :
    EvOnDA C v' e := by
  cases e with
  | hdr k => exact HdrOnDA.mono h hsub
  | dat k => exact DatOnDA.mono h hsub

/-! ## the invariant -/

/-- a header blob with hash `x` is on the DA layer at or above the DA start height -/
def HashOnDA (C : Cfg) (v : DAView) (x : Bytes) : Prop :=
  ∃ p ∈ v.placed, C.daStart ≤ p.1 ∧ ∃ w, classify p.2.2 C.sync.proposerAddr p.2.1 = .hdrAccepted w ∧ w.header.hash = x

/-- a signed-data blob with commitment `x` is on the DA layer at or above the DA start height -/
def CommitOnDA (C : Cfg) (v : DAView) (x : Bytes) : Prop :=
  ∃ p ∈ v.placed, C.daStart ≤ p.1 ∧ ∃ sd, classify p.2.2 C.sync.proposerAddr p.2.1 = .dataAccepted sd ∧ sd.data.daCommitment = x

/-- a header mark `hash ↦ DA height` stands for an accepted header blob with that hash at that DA height -/
def MarkH (C : Cfg) (v : DAView) (m : Bytes × Nat) : Prop :=
  ∃ p ∈ v.placed, C.daStart ≤ p.1 ∧ p.1 = m.2 ∧
    ∃ w, classify p.2.2 C.sync.proposerAddr p.2.1 = .hdrAccepted w ∧ w.header.hash = m.1

def MarkD (C : Cfg) (v : DAView) (m : Bytes × Nat) : Prop :=
  ∃ p ∈ v.placed, C.daStart ≤ p.1 ∧ p.1 = m.2 ∧
    ∃ sd, classify p.2.2 C.sync.proposerAddr p.2.1 = .dataAccepted sd ∧ sd.data.daCommitment = m.1

/-- block `k` was observable on the DA layer, by hash / commitment (marks are keyed that way) -/
def IncOnDA (C : Cfg) (ch : PChain) (v : DAView) (k : Nat) : Prop :=
  ∃ b, ch k = some b ∧ HashOnDA C v b.sh.hdr.hash ∧ (IsEmpty b ∨ CommitOnDA C v b.data.daCommitment)

theorem HashOnDA.mono {v v' : DAView} {x : Bytes} (h : HashOnDA C v x) (hsub : ∀ p ∈ v.placed, p ∈ v'.placed) :
    HashOnDA C v' x := by
  obtain ⟨p, hp, r⟩ := h; exact ⟨p, hsub p hp, r⟩
theorem CommitOnDA.mono {v v' : DAView} {x : Bytes} (h : CommitOnDA C v x) (hsub : ∀ p ∈ v.placed, p ∈ v'.placed) :
    CommitOnDA C v' x := by
  obtain ⟨p, hp, r⟩ := h; exact ⟨p, hsub p hp, r⟩
theorem MarkH.mono {v v' : DAView} {m : Bytes × Nat} (h : MarkH C v m) (hsub : ∀ p ∈ v.placed, p ∈ v'.placed) :
    MarkH C v' m := by
  obtain ⟨p, hp, r⟩ := h; exact ⟨p, hsub p hp, r⟩
theorem MarkD.mono {v v' : DAView} {m : Bytes × Nat} (h : MarkD C v m) (hsub : ∀ p ∈ v.placed, p ∈ v'.placed) :
    MarkD C v' m := by
  obtain ⟨p, hp, r⟩ := h; exact ⟨p, hsub p hp, r⟩
theorem IncOnDA.mono {v v' : DAView} {k : Nat} (h : IncOnDA C ch v k) (hsub : ∀ p ∈ v.placed, p ∈ v'.placed) :
    IncOnDA C ch v' k := by
  obtain ⟨b, hb, h1, h2⟩ := h
  exact ⟨b, hb, h1.mono hsub, h2.imp id (fun x => x.mono hsub)⟩

/-- the events the two P2P store loops would hand over for the items of the stores: an admitted header is a header of
the chain, a data item is the data of the block its metadata names ("P2P data genuine": junk data items are the
recorded finding `C02/stall/junk-p2p-data-replaced-cached-data` and are excluded here) -/
def HdrItemOK (C : Cfg) (ch : PChain) (wo : SignedHeader × Oracle) : Prop :=
  p2pAdmit wo.2 C.sync.proposerAddr wo.1 = true → ∃ blk, ch wo.1.header.height = some blk ∧ toSH C.key wo.1 = blk.sh

def DatItemOK (ch : PChain) (d : Data) : Prop := ∃ m blk, d.metadata = some m ∧ ch m.height = some blk ∧ d = blk.data

/-- the P2P store loops: cursors, and everything above the chain height that the cursors have passed was handed to the
sync loop (is among the delivered events) -/
structure P2PInv (C : Cfg) (ch : PChain) (evs : List Ev) (s : HSt) : Prop where
  hOK : ∀ wo ∈ s.hStore, HdrItemOK C ch wo
  dOK : ∀ d ∈ s.dStore, DatItemOK ch d
  pos : 1 ≤ C.sync.initialHeight
  low : C.sync.initialHeight - 1 ≤ s.nd.full.store.height
  hGe : C.sync.initialHeight - 1 ≤ s.hCur
  dGe : C.sync.initialHeight - 1 ≤ s.dCur
  hLe : s.hCur ≤ s.nd.full.store.height ∨ s.hCur ≤ C.sync.initialHeight - 1 + s.hStore.length
  dLe : s.dCur ≤ s.nd.full.store.height ∨ s.dCur ≤ C.sync.initialHeight - 1 + s.dStore.length
  hdr : ∀ k, s.nd.full.store.height < k → k ≤ s.hCur → ∀ w o, s.hStore[k - C.sync.initialHeight]? = some (w, o) →
    p2pAdmit o C.sync.proposerAddr w = true → Ev.hdr w.header.height ∈ evs
  dat : ∀ k, s.nd.full.store.height < k → k ≤ s.dCur → ∀ d, s.dStore[k - C.sync.initialHeight]? = some d →
    Ev.dat ((d.metadata.map (·.height)).getD 0) ∈ evs

/-- the node got further, more was delivered, stores and cursors are the same -/
theorem P2PInv.mono {C : Cfg} {ch : PChain} {evs evs' : List Ev} {s s' : HSt} (h : P2PInv C ch evs s)
    (hh : s.nd.full.store.height ≤ s'.nd.full.store.height) (he : ∀ e ∈ evs, e ∈ evs')
    (e1 : s'.hStore = s.hStore) (e2 : s'.dStore = s.dStore) (e3 : s'.hCur = s.hCur) (e4 : s'.dCur = s.dCur) :
    P2PInv C ch evs' s' := by
  refine ⟨by rw [e1]; exact h.hOK, by rw [e2]; exact h.dOK, h.pos, Nat.le_trans h.low hh, by rw [e3]; exact h.hGe, by rw [e4]; exact h.dGe, ?_, ?_, ?_, ?_⟩
  · rw [e3, e1]; rcases h.hLe with x | x
    · left; omega
    · right; exact x
  · rw [e4, e2]; rcases h.dLe with x | x
    · left; omega
    · right; exact x
  · intro k k1 k2 w o hk ha
    rw [e3] at k2; rw [e1] at hk
    exact he _ (h.hdr k (by omega) k2 w o hk ha)
  · intro k k1 k2 d hk
    rw [e4] at k2; rw [e2] at hk
    exact he _ (h.dat k (by omega) k2 d hk)

/-- right after a (re)start: both cursors are the chain height -/
theorem P2PInv.fresh {C : Cfg} {ch : PChain} {evs : List Ev} {s : HSt}
    (hO : ∀ wo ∈ s.hStore, HdrItemOK C ch wo) (dO : ∀ d ∈ s.dStore, DatItemOK ch d)
    (hc : s.hCur = s.nd.full.store.height) (dc : s.dCur = s.nd.full.store.height)
    (hl : C.sync.initialHeight - 1 ≤ s.nd.full.store.height) (hp : 1 ≤ C.sync.initialHeight) : P2PInv C ch evs s :=
  ⟨hO, dO, hp, hl, by rw [hc]; exact hl, by rw [dc]; exact hl, Or.inl (by rw [hc]; exact Nat.le_refl _), Or.inl (by rw [dc]; exact Nat.le_refl _),
    fun k k1 k2 => by rw [hc] at k2; omega, fun k k1 k2 => by rw [dc] at k2; omega⟩

/-- `lv = true`: also the liveness half of C02's invariant (it needs `DistinctCommitments`, the hypothesis of C02's
recorded finding); `lv = false`: safety only, no assumption on commitments.  `gr = true`: the DA layer is the node's
only source (no `p2p` operation so far): whatever it applied is on the DA layer. -/
structure HInv (lv gr : Bool) (C : Cfg) (ch : PChain) (h0 : Nat) (evs : List Ev) (s : HSt) : Prop where
  ok : s.ok = true
  safe : Safe C.sync ch h0 evs (eraseN s.nd.full)
  live : lv = true → Live ch evs (eraseN s.nd.full) ∧ Quiet (eraseN s.nd.full)
  da : s.nd.full.lastState.daHeight = C.daStart
  disk : DAok C.daStart s.nd.full.store
  cur : C.daStart ≤ s.nd.cursor
  view : ViewOK C ch s.v
  evsDA : gr = true → ∀ e ∈ evs, EvOnDA C s.v e
  lowDA : gr = true → ∀ k, C.sync.initialHeight ≤ k → k ≤ s.nd.full.store.height → OnDA C ch s.v k
  storeEq : s.nd.full.store = s.before.applyAll s.ws
  marksH : ∀ m ∈ s.hMarks, MarkH C s.v m
  marksD : ∀ m ∈ s.dMarks, MarkD C s.v m
  incLe : s.daInc ≤ s.nd.full.store.height
  incGe : C.sync.initialHeight - 1 ≤ s.daInc
  incMeta : metaInc s.nd.full.store ≤ s.daInc
  incDA : ∀ k, C.sync.initialHeight ≤ k → k ≤ s.daInc → IncOnDA C ch s.v k
  crash : ∀ k, DiskOK C.sync ch (eraseStore (s.before.applyPrefix k s.ws)) ∧
    recHeight C.sync (eraseStore (s.before.applyPrefix k s.ws)) ≤ s.nd.full.store.height ∧
    DAok C.daStart (s.before.applyPrefix k s.ws) ∧
    metaInc (s.before.applyPrefix k s.ws) ≤ s.daInc ∧
    metaInc (s.before.applyPrefix k s.ws) ≤ recHeight C.sync (eraseStore (s.before.applyPrefix k s.ws))
  p2p : P2PInv C ch evs s

/-! ## start-up -/

theorem map_eraseW_noState : ∀ (ws : List SW), (∀ st, SW.updateState st ∉ ws) → ws.map eraseW = ws := by
  intro ws
  induction ws with
  | nil => intro _; rfl
  | cons w rest ih =>
    intro h
    rw [List.map_cons, ih (fun st hm => h st (List.mem_cons_of_mem _ hm))]
    cases w with
    | updateState st => exact absurd (List.mem_cons_self) (h st)
    | saveBlock _ _ => rfl
    | setHeight _ => rfl
    | setMeta _ _ => rfl

theorem state_apply_noState (d : Store) (w : SW) (hw : ∀ st, w ≠ .updateState st) : (d.apply w).state = d.state := by
  cases w with
  | updateState st => exact absurd rfl (hw st)
  | saveBlock _ _ => rfl
  | setHeight _ => exact state_setHeight _ _
  | setMeta _ _ => rfl

theorem state_applyAll_noState : ∀ (ws : List SW) (d : Store), (∀ st, SW.updateState st ∉ ws) →
    (d.applyAll ws).state = d.state := by
  intro ws
  induction ws with
  | nil => intro d _; rfl
  | cons w rest ih =>
    intro d h
    simp only [Store.applyAll, List.foldl_cons] at ih ⊢
    rw [ih _ (fun st hm => h st (List.mem_cons_of_mem _ hm)),
      state_apply_noState d w (fun st e => h st (by rw [e]; exact List.mem_cons_self))]

theorem raise_erase (D : Nat) (s : State) : eraseS (raise D s) = eraseS s := rfl

/-- the caches handed to `start` matter only through the four cache fields -/
theorem start_caches_erase (c : Sync.Cfg) (d : Store) (n : FNode) : Sync.start c d (eraseN n) = Sync.start c d n := rfl

/-- what `FullNode.start` builds when `Sync.start` succeeds on the erased image -/
theorem fstart_facts {d : Store} {caches n : FNode} {ws : List SW}
    (h : Sync.start C.sync (eraseStore d) caches = some (n, ws)) (hda : DAok C.daStart d) :
    ∃ nd, FullNode.start C d caches = some (nd, ws) ∧ eraseN nd.full = n ∧
      nd.full.lastState.daHeight = C.daStart ∧ nd.cursor = C.daStart ∧
      nd.full.store = d.applyAll ws ∧ (∀ st, SW.updateState st ∉ ws) := by
  rw [start_erase] at h
  cases hs : Sync.start C.sync d caches with
  | none => rw [hs] at h; cases h
  | some r =>
    obtain ⟨n0, ws0⟩ := r
    rw [hs] at h
    simp only [Option.map_some, Option.some.injEq, Prod.mk.injEq] at h
    obtain ⟨rfl, rfl⟩ := h
    obtain ⟨a1, a2, a3⟩ := start_shape C.sync d caches hs
    have hD : (raise C.daStart n0.lastState).daHeight = C.daStart := by
      show max n0.lastState.daHeight C.daStart = C.daStart
      rcases a3 with a3 | ⟨_, a3⟩
      · rw [hda _ a3]; exact Nat.max_self _
      · rw [a3]; show max 0 C.daStart = C.daStart; omega
    refine ⟨{ full := { n0 with lastState := raise C.daStart n0.lastState }, cursor := (raise C.daStart n0.lastState).daHeight },
      ?_, rfl, hD, hD, a1, a2⟩
    unfold FullNode.start
    rw [hs]

/-- start-up writes no DA-included height -/
theorem start_noInc (c : Sync.Cfg) (d : Store) (caches : FNode) {n : FNode} {ws : List SW}
    (h : Sync.start c d caches = some (n, ws)) : ∀ w ∈ ws, ∀ v, w ≠ SW.setMeta daIncKey v := by
  have hwm : ∀ {key : String} {x : Nat} {w : SW}, (key = Producer.hdrWmKey ∨ key = Producer.dataWmKey) →
      w ∈ wmW c key x → ∀ v, w ≠ SW.setMeta daIncKey v := by
    intro key x w hk hw v e
    have := mem_wmW hw
    rw [e] at this
    simp only [SW.setMeta.injEq] at this
    rcases hk with hk | hk
    · exact daIncKey_ne_hdrWm (by rw [this.1, hk])
    · exact daIncKey_ne_dataWm (by rw [this.1, hk])
  cases hst : d.state with
  | none =>
    rw [start_none c d caches hst] at h
    unfold finishStart at h
    split at h
    · simp only [Option.some.injEq, Prod.mk.injEq] at h
      obtain ⟨_, rfl⟩ := h
      intro w hm v
      simp only [List.mem_append, List.mem_singleton] at hm
      rcases hm with ((rfl | hm) | hm) | hm
      · intro e; cases e
      · rw [mem_setHeightW hm]; intro e; cases e
      · exact hwm (Or.inl rfl) hm v
      · exact hwm (Or.inr rfl) hm v
    · cases h
  | some s =>
    by_cases hle : c.initialHeight ≤ s.lastHeight
    · rw [start_some c d caches hst hle] at h
      unfold finishStart at h
      split at h
      · simp only [Option.some.injEq, Prod.mk.injEq] at h
        obtain ⟨_, rfl⟩ := h
        intro w hm v
        simp only [List.nil_append, List.mem_append] at hm
        rcases hm with (hm | hm) | hm
        · rw [mem_setHeightW hm]; intro e; cases e
        · exact hwm (Or.inl rfl) hm v
        · exact hwm (Or.inr rfl) hm v
      · cases h
    · rw [start_fails c d caches hst (by omega)] at h; cases h

theorem metaInc_erase (d : Store) : metaInc (eraseStore d) = metaInc d := rfl

theorem metaInc_le_daIncOf (C : Cfg) (st : Store) : metaInc st ≤ daIncOf C st := by
  rw [daIncOf_eq]; split <;> omega

/-- a (re)start on a consistent image whose state carries the DA start height -/
theorem start_step (g : GoodChain C.sync ch top) {d : Store} (hd : DiskOK C.sync ch (eraseStore d))
    (hda : DAok C.daStart d) (caches : FNode) :
    ∃ nd ws n, FullNode.start C d caches = some (nd, ws) ∧
      Sync.start C.sync (eraseStore d) caches = some (n, ws) ∧ eraseN nd.full = n ∧
      nd.full.lastState.daHeight = C.daStart ∧ nd.cursor = C.daStart ∧ DAok C.daStart nd.full.store ∧
      nd.full.store = d.applyAll ws ∧ metaInc nd.full.store = metaInc d ∧
      ∀ k, DiskOK C.sync ch (eraseStore (d.applyPrefix k ws)) ∧
        recHeight C.sync (eraseStore (d.applyPrefix k ws)) = recHeight C.sync (eraseStore d) ∧
        DAok C.daStart (d.applyPrefix k ws) ∧ metaInc (d.applyPrefix k ws) = metaInc d := by
  obtain ⟨n, ws, hst, hcr⟩ := start_crash_ok g hd caches
  obtain ⟨nd, a1, a2, a3, a4, a5, a6⟩ := fstart_facts hst hda
  have hno := start_noInc C.sync (eraseStore d) caches hst
  refine ⟨nd, ws, n, a1, hst, a2, a3, a4, ?_, a5, ?_, fun k => ?_⟩
  · rw [a5]; exact DAok.applyAll ws hda (fun st hm => absurd hm (a6 st))
  · rw [a5]; exact metaInc_applyAll_noMeta ws d hno
  · have e : eraseStore (d.applyPrefix k ws) = (eraseStore d).applyPrefix k ws := by
      rw [← eraseStore_applyPrefix, map_eraseW_noState ws a6]
    refine ⟨by rw [e]; exact hcr k, ?_, DAok.applyPrefix ws hda (fun st hm => absurd hm (a6 st)) k,
      metaInc_applyAll_noMeta _ d (fun w hw => hno w (List.mem_of_mem_take hw))⟩
    unfold recHeight
    rw [eraseStore_state, eraseStore_state]
    unfold Store.applyPrefix
    rw [state_applyAll_noState _ _ (fun st hm => a6 st (List.mem_of_mem_take hm))]

/-! ## the operations -/

/-- what is assumed of an operation: a placed blob that the classifier accepts is a part of the chain; what the P2P
store loops hand over are parts of the chain.  **The second is a genuine restriction for data**: P2P headers are
signed, P2P `Data` is not, so a junk data item is excluded here by hypothesis, not by a check of the node
(`Spec.C02.C02_junk_data_harmless` / `C02_converges_junk_fails` say what such an item can and cannot do to the sync
loop; recorded finding `C02/stall/junk-p2p-data-replaced-cached-data`). -/
def OpOK (C : Cfg) (ch : PChain) : HOp → Prop
  | .place _ b o => BlobOK C ch (b, o)
  | .p2p es => ∀ e ∈ es, EvOK C ch e
  | .p2pstore hs ds _ => (∀ wo ∈ hs, HdrItemOK C ch wo) ∧ (∀ d ∈ ds, DatItemOK ch d)
  | .p2padd hs ds => (∀ wo ∈ hs, HdrItemOK C ch wo) ∧ (∀ d ∈ ds, DatItemOK ch d)
  | _ => True

def isP2P : HOp → Bool
  | .p2p _ => true
  | .p2pstore _ _ _ => true
  | _ => false

theorem hinv_view {s : HSt} (hi : HInv lv gr C ch h0 evs s) (v' : DAView) (hp : ∀ p ∈ s.v.placed, p ∈ v'.placed)
    (hv : ViewOK C ch v') : HInv lv gr C ch h0 evs { s with v := v' } :=
  { hi with view := hv
            evsDA := fun hg e he => (hi.evsDA hg e he).mono hp
            lowDA := fun hg k a b => (hi.lowDA hg k a b).mono hp
            marksH := fun m hm => (hi.marksH m hm).mono hp
            marksD := fun m hm => (hi.marksD m hm).mono hp
            incDA := fun k a b => (hi.incDA k a b).mono hp
            p2p := hi.p2p.mono (Nat.le_refl _) (fun e he => he) rfl rfl rfl rfl }

theorem mem_sched {hf : Bool} {hold : Nat} {evs : List Event} {e : Event} (h : e ∈ sched hf hold evs) : e ∈ evs := by
  unfold sched at h
  simp only at h
  split at h
  · rcases List.mem_append.mp h with h | h
    · exact (List.mem_filter.mp h).1
    · exact (List.mem_filter.mp (List.mem_of_mem_take h)).1
  · rcases List.mem_append.mp h with h | h
    · exact (List.mem_filter.mp h).1
    · exact (List.mem_filter.mp (List.mem_of_mem_take h)).1

theorem appliedWrites_noMeta {c : Sync.Cfg} {h h' : Nat} {ws : List SW} (a : AppliedWrites c ch h ws h') :
    ∀ w ∈ ws, ∀ k v, w ≠ SW.setMeta k v := by
  induction a with
  | nil => intro w hw; simp at hw
  | cons _ _ _ ih =>
    intro w hw k v
    simp only [List.mem_cons] at hw
    rcases hw with rfl | rfl | rfl | hw
    · intro e; cases e
    · intro e; cases e
    · intro e; cases e
    · exact ih w hw k v

theorem eraseW_setMeta_iff (w : SW) (k : String) (v : Bytes) : eraseW w = SW.setMeta k v ↔ w = SW.setMeta k v := by
  cases w <;> simp [eraseW]

theorem applyPrefix_append (s : Store) (a b : List SW) (k : Nat) :
    s.applyPrefix k (a ++ b) = if k ≤ a.length then s.applyPrefix k a else (s.applyAll a).applyPrefix (k - a.length) b := by
  unfold Store.applyPrefix
  split
  · rename_i h
    rw [List.take_append_of_le_length h]
  · rename_i h
    rw [List.take_append, applyAll_append, List.take_of_length_le (by omega)]

theorem markOf_mem {m : List (Bytes × Nat)} {k : Bytes} {a : Nat} (h : markOf m k = some a) : (k, a) ∈ m := by
  unfold markOf at h
  simp only [Option.map_eq_some_iff] at h
  obtain ⟨⟨k', a'⟩, hf, rfl⟩ := h
  have h1 := List.mem_of_find?_eq_some hf
  have h2 := List.find?_some hf
  simp at h2; subst h2; exact h1

theorem daCommitment_txs {d d' : Data} (h : d.txs = d'.txs) : d.daCommitment = d'.daCommitment := by
  unfold Data.daCommitment; rw [h]

/-- the events of one list of genuine events are handled by the sync loop (no scan): the sync half of `HInv` -/
theorem feed_step (g : GoodChain C.sync ch top) (dc : lv = true → DistinctCommitments ch) {s : HSt}
    (hi : HInv lv gr C ch h0 evs s) (es : List Event) (hok : ∀ e ∈ es, EvOK C ch e) (cur' : Nat) (v' : DAView)
    (hm dm : List (Bytes × Nat))
    (hcur : C.daStart ≤ cur') (hpl : ∀ p ∈ s.v.placed, p ∈ v'.placed) (hv : ViewOK C ch v')
    (hon : gr = true → ∀ e ∈ es, EvOnDA C v' (absEv e))
    (hmH : ∀ m ∈ hm, MarkH C v' m) (hmD : ∀ m ∈ dm, MarkD C v' m) :
    HInv lv gr C ch h0 (evs ++ es.map absEv)
      { s with nd := { full := (feed C s.nd.full es).1, cursor := cur' },
               v := v', before := s.nd.full.store, ws := (feed C s.nd.full es).2,
               hMarks := hm ++ s.hMarks, dMarks := dm ++ s.dMarks } := by
  obtain ⟨hsafe, haw⟩ := feed_safe (h0 := h0) g es evs _ hi.safe hok
  have hlive : lv = true → Live ch (evs ++ es.map absEv) (feed C (eraseN s.nd.full) es).1 ∧
      Quiet (feed C (eraseN s.nd.full) es).1 := fun hl => by
    have := feed_inv g (dc hl) es evs _ ⟨hi.safe, (hi.live hl).1, (hi.live hl).2⟩ hok
    exact ⟨this.live, this.quiet⟩
  rw [feed_erase] at hsafe haw hlive
  simp only at hsafe haw hlive
  have hda := feed_da C es s.nd.full
  have hst := feed_store C es s.nd.full
  have hno : ∀ w ∈ (feed C s.nd.full es).2, ∀ k v, w ≠ SW.setMeta k v := by
    intro w hw k v e
    exact appliedWrites_noMeta haw (eraseW w) (List.mem_map.mpr ⟨w, hw, rfl⟩) k v ((eraseW_setMeta_iff w k v).mpr e)
  have hle : s.nd.full.store.height ≤ (feed C s.nd.full es).1.store.height := haw.le
  have hevs : gr = true → ∀ e ∈ evs ++ es.map absEv, EvOnDA C v' e := by
    intro hg e he
    rcases List.mem_append.mp he with he | he
    · exact (hi.evsDA hg e he).mono hpl
    · obtain ⟨x, hx, rfl⟩ := List.mem_map.mp he
      exact hon hg x hx
  have hmeta : metaInc (feed C s.nd.full es).1.store = metaInc s.nd.full.store := by
    rw [hst]; exact metaInc_applyAll_noMeta _ _ (fun w hw v => hno w hw _ v)
  refine ⟨hi.ok, hsafe, hlive, by rw [hda.1, hi.da], ?_, hcur, hv, hevs, ?_, hst, ?_, ?_,
    Nat.le_trans hi.incLe hle, hi.incGe, by show metaInc (feed C s.nd.full es).1.store ≤ _; rw [hmeta]; exact hi.incMeta,
    fun k a b => (hi.incDA k a b).mono hpl, ?_,
    hi.p2p.mono hle (fun e he => List.mem_append_left _ he) rfl rfl rfl rfl⟩
  · show DAok C.daStart (feed C s.nd.full es).1.store
    rw [hst]
    exact DAok.applyAll _ hi.disk (fun st hm => by rw [hda.2 st hm, hi.da])
  · intro hg k h1 h2
    by_cases hk : k ≤ s.nd.full.store.height
    · exact (hi.lowDA hg k h1 hk).mono hpl
    · have hge : h0 ≤ (eraseN s.nd.full).store.height := hi.safe.ge
      obtain ⟨b, hb, e1, e2⟩ := hsafe.sound k (by show h0 < k; have : (eraseN s.nd.full).store.height = s.nd.full.store.height := rfl; omega) h2
      exact ⟨b, hb, hevs hg _ e1, e2.imp id (hevs hg _)⟩
  · intro m hm'
    rcases List.mem_append.mp hm' with x | x
    · exact hmH m x
    · exact (hi.marksH m x).mono hpl
  · intro m hm'
    rcases List.mem_append.mp hm' with x | x
    · exact hmD m x
    · exact (hi.marksD m x).mono hpl
  · intro k
    have hset := hi.safe.settled g
    obtain ⟨c1, c2, c3⟩ := crash_ok g haw _ hset k
    have e : eraseStore (s.nd.full.store.applyPrefix k (feed C s.nd.full es).2)
        = (eraseN s.nd.full).store.applyPrefix k ((feed C s.nd.full es).2.map eraseW) :=
      (eraseStore_applyPrefix _ _ _).symm
    have hmk : metaInc (s.nd.full.store.applyPrefix k (feed C s.nd.full es).2) = metaInc s.nd.full.store :=
      metaInc_applyAll_noMeta _ _ (fun w hw v => hno w (List.mem_of_mem_take hw) _ v)
    refine ⟨by rw [e]; exact c1, by rw [e]; exact c3, ?_, by rw [hmk]; exact hi.incMeta, ?_⟩
    · exact DAok.applyPrefix _ hi.disk (fun st hm => by rw [hda.2 st hm, hi.da]) k
    · rw [hmk, e]
      have : (eraseN s.nd.full).store.height = s.nd.full.store.height := rfl
      have := hi.incMeta; have := hi.incLe
      omega

/-- one scan whose events (any sub-multiset of them, in any order) are handled by the sync loop -/
theorem scan_step (g : GoodChain C.sync ch top) (dc : lv = true → DistinctCommitments ch) {s : HSt}
    (hi : HInv lv gr C ch h0 evs s) (es : List Event) (hsub : ∀ e ∈ es, e ∈ (scanOf C s.nd s.v).2.2.1) :
    HInv lv gr C ch h0 (evs ++ es.map absEv)
      { s with nd := { full := (feed C s.nd.full es).1, cursor := (scanOf C s.nd s.v).1.daHeight },
               v := (scanOf C s.nd s.v).2.1, before := s.nd.full.store, ws := (feed C s.nd.full es).2,
               hMarks := (marksOf C s.nd s.v).1 ++ s.hMarks, dMarks := (marksOf C s.nd s.v).2 ++ s.dMarks } := by
  have hok : ∀ e ∈ es, EvOK C ch e := fun e he => (scan_events_ok hi.view s.nd e (hsub e he)).1
  obtain ⟨vp, vt⟩ := scan_view C.sync.proposerAddr (scanFuel s.nd.cursor s.v.top) (rnodeOf s.nd) s.v [] []
  have hpl : ∀ p ∈ s.v.placed, p ∈ (scanOf C s.nd s.v).2.1.placed := by
    intro p hp; unfold scanOf; rw [vp]; exact hp
  have hon : gr = true → ∀ e ∈ es, EvOnDA C (scanOf C s.nd s.v).2.1 (absEv e) :=
    fun _ e he => ((scan_events_ok hi.view s.nd e (hsub e he)).2 hi.cur).mono hpl
  obtain ⟨sh, sd⟩ := scan_marks_sound C.sync.proposerAddr (scanFuel s.nd.cursor s.v.top) (rnodeOf s.nd) s.v
  have tr := scanOf_trace C s.nd s.v
  apply feed_step g dc hi es hok
  · exact Nat.le_trans hi.cur (trace_final_ge tr)
  · exact hpl
  · exact ⟨fun p hp => hi.view.blobs p (by unfold scanOf at hp; rw [vp] at hp; exact hp),
      fun p hp => by unfold scanOf at hp ⊢; rw [vp] at hp; rw [vt]; exact hi.view.below p hp⟩
  · exact hon
  · intro m hm
    rcases sh m hm with x | ⟨h, k, ht, hin⟩
    · simp [rnodeOf] at x
    · have hge : s.nd.cursor ≤ h := trace_ge tr ht
      obtain ⟨b, hb, he⟩ := List.mem_filterMap.mp hin
      obtain ⟨p, hp, hph, rfl⟩ := mem_blobsAt.mp hb
      unfold hMarkOf at he
      split at he
      · rename_i w hc
        simp only [Option.some.injEq] at he
        subst he
        exact ⟨p, hpl p hp, by have := hi.cur; omega, hph, w, hc, rfl⟩
      · cases he
  · intro m hm
    rcases sd m hm with x | ⟨h, k, ht, hin⟩
    · simp [rnodeOf] at x
    · have hge : s.nd.cursor ≤ h := trace_ge tr ht
      obtain ⟨b, hb, he⟩ := List.mem_filterMap.mp hin
      obtain ⟨p, hp, hph, rfl⟩ := mem_blobsAt.mp hb
      unfold dMarkOf at he
      split at he
      · rename_i w hc
        simp only [Option.some.injEq] at he
        subst he
        exact ⟨p, hpl p hp, by have := hi.cur; omega, hph, w, hc, rfl⟩
      · cases he

/-- **`DAIncluderLoop` running until it cannot advance** preserves the invariant: it writes metadata only, reports
only heights whose header hash and data commitment are marked, hence observable on the DA layer -/
theorem include_step (g : GoodChain C.sync ch top) {s : HSt} (hi : HInv lv gr C ch h0 evs s) :
    HInv lv gr C ch h0 evs (includeSt s) := by
  have hp : PassInv (toA s.nd.full.store s.hMarks s.dMarks s.daInc s.finals)
      (includerIter (toA s.nd.full.store s.hMarks s.dMarks s.daInc s.finals)).1
      (includerIter (toA s.nd.full.store s.hMarks s.dMarks s.daInc s.finals)).2 :=
    includerPass_inv _ _ _ [] (PassInv.init _)
  unfold includeSt
  generalize hr : includerIter (toA s.nd.full.store s.hMarks s.dMarks s.daInc s.finals) = r at hp ⊢
  obtain ⟨rec, hrec, hws⟩ := hp.writes
  have hmono : s.daInc ≤ r.1.daInc := hp.mono
  have hst : r.1.n.store = s.nd.full.store.applyAll r.2 := hp.store
  have hinc : ∀ w ∈ r.2, IsIncMeta w := by
    intro w hw
    rw [hws] at hw
    obtain ⟨k, _, hk⟩ := List.mem_flatMap.mp hw
    exact incWrites_incMeta _ _ _ w hk
  have hd : ∀ w ∈ r.2, ∀ v, w = SW.setMeta daIncKey v → ∃ m, v = le64 m ∧ m ≤ r.1.daInc := by
    intro w hw v e
    rw [hws] at hw
    obtain ⟨k, hk, hk'⟩ := List.mem_flatMap.mp hw
    have hkr : k ≤ r.1.daInc := by
      have := List.mem_range'.mp hk
      obtain ⟨i, hi1, hi2⟩ := this
      have : (toA s.nd.full.store s.hMarks s.dMarks s.daInc s.finals).daInc = s.daInc := rfl
      omega
    simp only [incWrites, List.mem_cons, List.mem_singleton, List.not_mem_nil, or_false] at hk'
    rcases hk' with rfl | rfl | rfl
    · simp only [SW.setMeta.injEq] at e
      exact absurd e.1 (rhbKey_ne (by decide) _ _)
    · simp only [SW.setMeta.injEq] at e
      exact absurd e.1 (rhbKey_ne (by decide) _ _)
    · simp only [SW.setMeta.injEq] at e
      exact ⟨k, e.2.symm, hkr⟩
  obtain ⟨a1, a2, a3, a4⟩ := applyAll_incMeta r.2 s.nd.full.store hinc
  have hnoS := incMeta_noState hinc
  have hle : r.1.daInc ≤ s.nd.full.store.height := by
    have := hp.le hi.incLe
    rw [hst, a1] at this
    exact this
  have he : eraseN { s.nd.full with store := r.1.n.store } = { eraseN s.nd.full with store := (eraseN s.nd.full).store.applyAll r.2 } := by
    show ({ s.nd.full with store := eraseStore r.1.n.store, lastState := eraseS s.nd.full.lastState } : FNode) = _
    rw [hst, ← eraseStore_applyAll, map_eraseW_noState r.2 hnoS]
    rfl
  have hsafe : Safe C.sync ch h0 evs (eraseN { s.nd.full with store := r.1.n.store }) := by
    rw [he]; exact safe_incMeta hi.safe hinc
  refine ⟨hi.ok, hsafe, ?_, hi.da, ?_, hi.cur, hi.view, hi.evsDA, ?_, ?_, hi.marksH, hi.marksD, ?_, ?_, ?_, ?_, ?_, ?_⟩
  · intro hl
    obtain ⟨l1, l2⟩ := hi.live hl
    have hh : (eraseN { s.nd.full with store := r.1.n.store }).store.height = (eraseN s.nd.full).store.height := by
      show r.1.n.store.height = s.nd.full.store.height
      rw [hst, a1]
    refine ⟨l1.congr hh rfl rfl rfl rfl, ?_⟩
    unfold Quiet keysH keysD at l2 ⊢
    rw [hh]; exact l2
  · show DAok C.daStart r.1.n.store
    rw [hst]; exact DAok.applyAll _ hi.disk (fun st hm => absurd hm (hnoS st))
  · intro hg k h1 h2
    have h2' : k ≤ r.1.n.store.height := h2
    rw [hst, a1] at h2'
    exact hi.lowDA hg k h1 h2'
  · show r.1.n.store = s.before.applyAll (s.ws ++ r.2)
    rw [applyAll_append, ← hi.storeEq, hst]
  · show r.1.daInc ≤ r.1.n.store.height
    rw [hst, a1]; exact hle
  · exact Nat.le_trans hi.incGe hmono
  · show metaInc r.1.n.store ≤ r.1.daInc
    rw [hst]
    exact metaInc_applyAll_le r.2 (Nat.le_trans hi.incMeta hmono) hd
  · intro k h1 h2
    have h2' : k ≤ r.1.daInc := h2
    by_cases hk : k ≤ s.daInc
    · exact hi.incDA k h1 hk
    · have hrk := hrec k (by show s.daInc < k; omega) h2'
      obtain ⟨b', hb', hmk, hdat⟩ := recHeights_some (hd := (rec k).1) (dd := (rec k).2) (by rw [hrk])
      have hb'' : s.nd.full.store.getBlock k = some b' := hb'
      obtain ⟨b, sb, x1, x2, x3⟩ := hi.safe.chain k h1 (by show k ≤ s.nd.full.store.height; omega)
      have x2' : s.nd.full.store.getBlock k = some sb := x2
      rw [hb''] at x2'
      cases x2'
      obtain ⟨s1, _, s3, _⟩ := x3
      have hcm : b'.data.daCommitment = b.data.daCommitment := daCommitment_txs s3
      refine ⟨b, x1, ?_, ?_⟩
      · obtain ⟨p, hp', hpd, _, w, hc, hw⟩ := hi.marksH _ (markOf_mem hmk)
        exact ⟨p, hp', hpd, w, hc, by rw [hw, s1]⟩
      · rcases hdat with ⟨he', _⟩ | ⟨_, hm'⟩
        · left
          unfold IsEmpty
          rw [← (g.facts x1).dataHash, ← hcm]; exact he'
        · right
          obtain ⟨p, hp', hpd, _, sd, hc, hw⟩ := hi.marksD _ (markOf_mem hm')
          exact ⟨p, hp', hpd, sd, hc, by rw [hw, hcm]⟩
  · intro k
    show DiskOK C.sync ch (eraseStore (s.before.applyPrefix k (s.ws ++ r.2))) ∧
      recHeight C.sync (eraseStore (s.before.applyPrefix k (s.ws ++ r.2))) ≤ r.1.n.store.height ∧
      DAok C.daStart (s.before.applyPrefix k (s.ws ++ r.2)) ∧
      metaInc (s.before.applyPrefix k (s.ws ++ r.2)) ≤ r.1.daInc ∧
      metaInc (s.before.applyPrefix k (s.ws ++ r.2)) ≤ recHeight C.sync (eraseStore (s.before.applyPrefix k (s.ws ++ r.2)))
    rw [applyPrefix_append]
    have hheight : r.1.n.store.height = s.nd.full.store.height := by rw [hst, a1]
    split
    · obtain ⟨c1, c2, c3, c4, c5⟩ := hi.crash k
      exact ⟨c1, by rw [hheight]; exact c2, c3, Nat.le_trans c4 hmono, c5⟩
    · rw [← hi.storeEq]
      have hinc' := take_incMeta hinc (k - s.ws.length)
      have hnoS' := incMeta_noState hinc'
      have hdk : DiskOK C.sync ch (eraseStore s.nd.full.store) := (hi.safe.diskOK g).1
      have hrk : recHeight C.sync (eraseStore s.nd.full.store) = s.nd.full.store.height := (hi.safe.diskOK g).2
      have e : eraseStore (s.nd.full.store.applyPrefix (k - s.ws.length) r.2)
          = (eraseStore s.nd.full.store).applyAll (r.2.take (k - s.ws.length)) := by
        unfold Store.applyPrefix
        rw [← eraseStore_applyAll, map_eraseW_noState _ hnoS']
      obtain ⟨d1, d2⟩ := diskOK_incMeta hdk hinc'
      have hrec' : recHeight C.sync (eraseStore (s.nd.full.store.applyPrefix (k - s.ws.length) r.2)) = s.nd.full.store.height := by
        rw [e, d2]; exact hrk
      have hmi : metaInc (s.nd.full.store.applyPrefix (k - s.ws.length) r.2) ≤ r.1.daInc :=
        metaInc_applyAll_le _ (Nat.le_trans hi.incMeta hmono) (fun w hw => hd w (List.mem_of_mem_take hw))
      refine ⟨by rw [e]; exact d1, by rw [hrec', hheight]; exact Nat.le_refl _, ?_, hmi, by rw [hrec']; omega⟩
      exact DAok.applyAll _ hi.disk (fun st hm => absurd hm (hnoS' st))

  · exact hi.p2p.mono (by show s.nd.full.store.height ≤ r.1.n.store.height; rw [hst, a1]; exact Nat.le_refl _)
      (fun e he => he) rfl rfl rfl rfl

theorem getElem?_append_of_some {α : Type} {l l' : List α} {i : Nat} {x : α} (h : (l ++ l')[i]? = some x)
    (hi : i < l.length) : l[i]? = some x := by
  rw [List.getElem?_append_left hi] at h; exact h

/-- the store loops poll: cursors move to the store heights, what lies between is handed over -/
theorem p2p_poll (hi : P2PInv C ch evs s) (es : List Event) (height' : Nat) (s' : HSt)
    (hh : s.nd.full.store.height ≤ height') (eh : s'.nd.full.store.height = height')
    (e1 : s'.hStore = s.hStore) (e2 : s'.dStore = s.dStore)
    (e3 : s'.hCur = (pollH C s).2) (e4 : s'.dCur = (pollD C s).2)
    (hes : ∀ e, e ∈ (pollH C s).1 ∨ e ∈ (pollD C s).1 → e ∈ es) :
    P2PInv C ch (evs ++ es.map absEv) s' := by
  refine ⟨by rw [e1]; exact hi.hOK, by rw [e2]; exact hi.dOK, hi.pos, by rw [eh]; exact Nat.le_trans hi.low hh, ?_, ?_, ?_, ?_, ?_, ?_⟩
  · rw [e3]; show _ ≤ C.sync.initialHeight - 1 + s.hStore.length; omega
  · rw [e4]; show _ ≤ C.sync.initialHeight - 1 + s.dStore.length; omega
  · right; rw [e3, e1]; exact Nat.le_refl _
  · right; rw [e4, e2]; exact Nat.le_refl _
  · intro k k1 k2 w o hk ha
    rw [eh] at k1; rw [e3] at k2; rw [e1] at hk
    have k2' : k ≤ C.sync.initialHeight - 1 + s.hStore.length := k2
    by_cases hc : k ≤ s.hCur
    · exact List.mem_append_left _ (hi.hdr k (by omega) hc w o hk ha)
    · apply List.mem_append_right
      have hge := hi.hGe
      have hev : Event.hdr w s.nd.cursor ∈ (pollH C s).1 := by
        unfold pollH
        simp only
        rw [if_pos (by omega)]
        refine List.mem_filterMap.mpr ⟨(w, o), ?_, by simp [ha]⟩
        have : (s.hStore.drop (s.hCur - (C.sync.initialHeight - 1)))[k - C.sync.initialHeight - (s.hCur - (C.sync.initialHeight - 1))]? = some (w, o) := by
          rw [List.getElem?_drop]
          have : s.hCur - (C.sync.initialHeight - 1) + (k - C.sync.initialHeight - (s.hCur - (C.sync.initialHeight - 1))) = k - C.sync.initialHeight := by omega
          rw [this]; exact hk
        exact List.mem_of_getElem? this
      exact List.mem_map.mpr ⟨_, hes _ (Or.inl hev), rfl⟩
  · intro k k1 k2 d hk
    rw [eh] at k1; rw [e4] at k2; rw [e2] at hk
    have k2' : k ≤ C.sync.initialHeight - 1 + s.dStore.length := k2
    by_cases hc : k ≤ s.dCur
    · exact List.mem_append_left _ (hi.dat k (by omega) hc d hk)
    · apply List.mem_append_right
      have hge := hi.dGe
      have hev : Event.dat { data := d } s.nd.cursor ∈ (pollD C s).1 := by
        unfold pollD
        simp only
        rw [if_pos (by omega)]
        refine List.mem_map.mpr ⟨d, ?_, rfl⟩
        have : (s.dStore.drop (s.dCur - (C.sync.initialHeight - 1)))[k - C.sync.initialHeight - (s.dCur - (C.sync.initialHeight - 1))]? = some d := by
          rw [List.getElem?_drop]
          have : s.dCur - (C.sync.initialHeight - 1) + (k - C.sync.initialHeight - (s.dCur - (C.sync.initialHeight - 1))) = k - C.sync.initialHeight := by omega
          rw [this]; exact hk
        exact List.mem_of_getElem? this
      exact List.mem_map.mpr ⟨_, hes _ (Or.inr hev), rfl⟩

/-- items arriving in the stores change nothing the cursors have passed -/
theorem p2p_append (hi : P2PInv C ch evs s) (hs : List (SignedHeader × Oracle)) (ds : List Data)
    (hO : ∀ wo ∈ hs, HdrItemOK C ch wo) (dO : ∀ d ∈ ds, DatItemOK ch d) :
    P2PInv C ch evs { s with hStore := s.hStore ++ hs, dStore := s.dStore ++ ds } := by
  refine ⟨?_, ?_, hi.pos, hi.low, hi.hGe, hi.dGe, ?_, ?_, ?_, ?_⟩
  · intro wo hm; rcases List.mem_append.mp hm with x | x
    · exact hi.hOK wo x
    · exact hO wo x
  · intro d hm; rcases List.mem_append.mp hm with x | x
    · exact hi.dOK d x
    · exact dO d x
  · rcases hi.hLe with x | x
    · exact Or.inl x
    · right; show s.hCur ≤ _ + (s.hStore ++ hs).length; rw [List.length_append]; omega
  · rcases hi.dLe with x | x
    · exact Or.inl x
    · right; show s.dCur ≤ _ + (s.dStore ++ ds).length; rw [List.length_append]; omega
  · intro k k1 k2 w o hk ha
    have k1' : s.nd.full.store.height < k := k1
    have k2' : k ≤ s.hCur := k2
    rcases hi.hLe with x | x
    · omega
    · have hlow := hi.low
      have hpos := hi.pos
      exact hi.hdr k k1' k2' w o (getElem?_append_of_some hk (by clear k1 k2 hk; omega)) ha
  · intro k k1 k2 d hk
    have k1' : s.nd.full.store.height < k := k1
    have k2' : k ≤ s.dCur := k2
    rcases hi.dLe with x | x
    · omega
    · have hlow := hi.low
      have hpos := hi.pos
      exact hi.dat k k1' k2' d (getElem?_append_of_some hk (by clear k1 k2 hk; omega))

/-- **the invariant is preserved by every operation** (`gr = true`: no `p2p` operation) -/
theorem hstep_inv (g : GoodChain C.sync ch top) (dc : lv = true → DistinctCommitments ch) {s : HSt}
    (hi : HInv lv gr C ch h0 evs s) (op : HOp) (hop : OpOK C ch op) (hgr : gr = true → isP2P op = false) :
    ∃ h0' evs', HInv lv gr C ch h0' evs' (hstep C s op) := by
  have hnok : (!s.ok) = false := by rw [hi.ok]; rfl
  cases op with
  | place da b o =>
    refine ⟨h0, evs, hinv_view hi _ (fun p hp => List.mem_append_left _ hp) ⟨?_, ?_⟩⟩
    · intro p hp
      rcases List.mem_append.mp hp with hp | hp
      · exact hi.view.blobs p hp
      · simp only [List.mem_singleton] at hp; subst hp; exact hop
    · intro p hp
      show p.1 < max s.v.top (da + 1)
      rcases List.mem_append.mp hp with hp | hp
      · have := hi.view.below p hp; omega
      · simp only [List.mem_singleton] at hp; subst hp; show da < _; omega
  | head n =>
    exact ⟨h0, evs, hinv_view hi _ (fun p hp => hp) ⟨hi.view.blobs, fun p hp => by
      have := hi.view.below p hp; show p.1 < max s.v.top n; omega⟩⟩
  | script da l =>
    simp only [hstep]
    split
    · exact ⟨h0, evs, hi⟩
    · exact ⟨h0, evs, hinv_view hi _ (fun p hp => hp) ⟨hi.view.blobs, hi.view.below⟩⟩
  | run =>
    simp only [hstep, hnok, Bool.false_eq_true, ↓reduceIte]
    exact ⟨h0, _, include_step g (scan_step g dc hi _ (fun e he => he))⟩
  | runHeld hf hold =>
    simp only [hstep, hnok, Bool.false_eq_true, ↓reduceIte]
    exact ⟨h0, _, include_step g (scan_step g dc hi _ (fun e he => mem_sched he))⟩
  | p2p es =>
    simp only [hstep, hnok, Bool.false_eq_true, ↓reduceIte]
    have hg : gr = false := by
      cases gr with
      | false => rfl
      | true => have := hgr rfl; simp [isP2P] at this
    have h1 := feed_step g dc hi es hop s.nd.cursor s.v [] [] hi.cur (fun p hp => hp) hi.view
      (fun h => by rw [hg] at h; cases h) (fun m hm => by simp at hm) (fun m hm => by simp at hm)
    exact ⟨h0, _, include_step g h1⟩
  | p2padd hs ds =>
    exact ⟨h0, evs, { hi with p2p := p2p_append hi.p2p hs ds hop.1 hop.2 }⟩
  | p2pstore hs ds hf =>
    simp only [hstep, hnok, Bool.false_eq_true, ↓reduceIte]
    have hg : gr = false := by
      cases gr with
      | false => rfl
      | true => have := hgr rfl; simp [isP2P] at this
    have hi1 : HInv lv gr C ch h0 evs { s with hStore := s.hStore ++ hs, dStore := s.dStore ++ ds } :=
      { hi with p2p := p2p_append hi.p2p hs ds hop.1 hop.2 }
    generalize hs1 : ({ s with hStore := s.hStore ++ hs, dStore := s.dStore ++ ds } : HSt) = s1 at hi1
    have hnd : s1.nd = s.nd := by rw [← hs1]
    have hv1 : s1.v = s.v := by rw [← hs1]
    -- the events of the two polls are genuine
    have hokH : ∀ e ∈ (pollH C s1).1, EvOK C ch e := by
      intro e he
      unfold pollH at he
      simp only at he
      split at he
      · obtain ⟨wo, hwo, hx⟩ := List.mem_filterMap.mp he
        split at hx
        · rename_i ha
          simp only [Option.some.injEq] at hx
          subst hx
          exact hi1.p2p.hOK wo (List.mem_of_mem_drop hwo) ha
        · cases hx
      · simp at he
    have hokD : ∀ e ∈ (pollD C s1).1, EvOK C ch e := by
      intro e he
      unfold pollD at he
      simp only at he
      split at he
      · obtain ⟨d, hd, rfl⟩ := List.mem_map.mp he
        exact hi1.p2p.dOK d (List.mem_of_mem_drop hd)
      · simp at he
    generalize hes : (if hf = true then (pollH C s1).1 ++ (pollD C s1).1 else (pollD C s1).1 ++ (pollH C s1).1) = es
    have hok : ∀ e ∈ es, EvOK C ch e := by
      intro e he
      rw [← hes] at he
      split at he <;> rcases List.mem_append.mp he with x | x
      · exact hokH e x
      · exact hokD e x
      · exact hokD e x
      · exact hokH e x
    have hin : ∀ e, e ∈ (pollH C s1).1 ∨ e ∈ (pollD C s1).1 → e ∈ es := by
      intro e he
      rw [← hes]
      split <;> rcases he with x | x
      · exact List.mem_append_left _ x
      · exact List.mem_append_right _ x
      · exact List.mem_append_right _ x
      · exact List.mem_append_left _ x
    have h1 := feed_step g dc hi1 es hok s1.nd.cursor s1.v [] [] hi1.cur (fun p hp => hp) hi1.view
      (fun h => by rw [hg] at h; cases h) (fun m hm => by simp at hm) (fun m hm => by simp at hm)
    have hle : s1.nd.full.store.height ≤ (feed C s1.nd.full es).1.store.height := by
      have h := (feed_safe (h0 := h0) g es evs _ hi1.safe hok).2.le
      rw [feed_erase] at h
      exact h
    have h2 : HInv lv gr C ch h0 (evs ++ es.map absEv)
        { s1 with nd := { s1.nd with full := (feed C s1.nd.full es).1 }, before := s1.nd.full.store,
                  ws := (feed C s1.nd.full es).2, hCur := (pollH C s1).2, dCur := (pollD C s1).2 } :=
      { h1 with p2p := p2p_poll hi1.p2p es _ _ hle rfl rfl rfl rfl rfl hin }
    have h3 := include_step g h2
    subst hs1
    exact ⟨h0, _, h3⟩
  | restart =>
    simp only [hstep, hnok, Bool.false_eq_true, ↓reduceIte]
    obtain ⟨hd, hr⟩ := hi.safe.diskOK g
    obtain ⟨nd, ws, n, a1, a2, a3, a4, a5, a6, a8, a9, a7⟩ := start_step g (d := s.nd.full.store) hd hi.disk s.nd.full
    have hres : Sync.restart C.sync (eraseN s.nd.full) = n := by
      unfold Sync.restart
      rw [start_caches_erase]
      show (match Sync.start C.sync (eraseStore s.nd.full.store) s.nd.full with | some (n', _) => n' | none => _) = n
      rw [a2]
    have hsafe := (restart_spec g hi.safe).2.2.2.2.2.2.2.2.2
    rw [hres] at hsafe
    have hlive : lv = true → Live ch evs n ∧ Quiet n := fun hl => by
      have := restart_inv g ⟨hi.safe, (hi.live hl).1, (hi.live hl).2⟩
      rw [hres] at this
      exact ⟨this.live, this.quiet⟩
    have hh : nd.full.store.height = s.nd.full.store.height := by
      have := (restart_spec g hi.safe).2.1
      rw [hres, ← a3] at this
      exact this
    have hrE : recHeight C.sync (eraseStore s.nd.full.store) = s.nd.full.store.height := hr
    have hnew : daIncOf C nd.full.store ≤ s.daInc := daIncOf_le (by rw [a9]; exact hi.incMeta) hi.incGe
    unfold restartClean
    rw [a1]
    simp only [started, ↓reduceIte]
    refine ⟨h0, evs, ⟨rfl, by rw [a3]; exact hsafe, by rw [a3]; exact hlive, a4, a6, by rw [a5]; exact Nat.le_refl _,
      hi.view, hi.evsDA, ?_, a8, hi.marksH, hi.marksD, ?_, daIncOf_ge C _, metaInc_le_daIncOf C _, ?_, ?_,
      P2PInv.fresh hi.p2p.hOK hi.p2p.dOK rfl rfl (by show _ ≤ nd.full.store.height; have := hi.safe.low; have e : (eraseN s.nd.full).store.height = s.nd.full.store.height := rfl; omega) g.ihPos⟩⟩
    · intro hg k h1 h2; exact hi.lowDA hg k h1 (by rw [← hh]; exact h2)
    · show daIncOf C nd.full.store ≤ nd.full.store.height
      rw [hh]; exact Nat.le_trans hnew hi.incLe
    · intro k h1 h2; exact hi.incDA k h1 (Nat.le_trans h2 hnew)
    · intro k
      obtain ⟨b1, b2, b3, b4⟩ := a7 k
      refine ⟨b1, ?_, b3, ?_, ?_⟩
      · show recHeight C.sync (eraseStore (s.nd.full.store.applyPrefix k ws)) ≤ nd.full.store.height
        rw [b2, hh]; exact Nat.le_of_eq hrE
      · rw [b4, ← a9]; exact metaInc_le_daIncOf C _
      · rw [b4, b2, hrE]; exact Nat.le_trans hi.incMeta hi.incLe
  | crash k =>
    simp only [hstep, hnok, Bool.false_eq_true, ↓reduceIte]
    obtain ⟨c1, c2, c3, c4, c5⟩ := hi.crash k
    obtain ⟨nd, ws, n, a1, a2, a3, a4, a5, a6, a8, a9, a7⟩ := start_step g c1 c3 {}
    obtain ⟨n', ws', d1, d2, d3, d4⟩ := diskOK_start g c1
    rw [a2] at d1
    simp only [Option.some.injEq, Prod.mk.injEq] at d1
    obtain ⟨rfl, rfl⟩ := d1
    have hh : nd.full.store.height = recHeight C.sync (eraseStore (s.before.applyPrefix k s.ws)) := by
      rw [← d2, ← a3]; rfl
    have hrge : C.sync.initialHeight - 1 ≤ recHeight C.sync (eraseStore (s.before.applyPrefix k s.ws)) := by
      have hl := d4.safe.low
      rw [d2] at hl
      omega
    have hnew : daIncOf C nd.full.store ≤ s.daInc := daIncOf_le (by rw [a9]; exact c4) hi.incGe
    unfold restartCrash
    rw [a1]
    simp only [started, Bool.false_eq_true, ↓reduceIte]
    refine ⟨_, [], ⟨rfl, by rw [a3]; exact d4.safe, by rw [a3]; exact fun _ => ⟨d4.live, d4.quiet⟩, a4, a6,
      by rw [a5]; exact Nat.le_refl _, hi.view, fun _ e he => by simp at he, ?_, a8,
      fun m hm => by simp at hm, fun m hm => by simp at hm, ?_, daIncOf_ge C _, metaInc_le_daIncOf C _, ?_, ?_,
      P2PInv.fresh hi.p2p.hOK hi.p2p.dOK rfl rfl (by show _ ≤ nd.full.store.height; rw [hh]; exact hrge) g.ihPos⟩⟩
    · intro hg j h1 h2
      exact hi.lowDA hg j h1 (by rw [hh] at h2; omega)
    · show daIncOf C nd.full.store ≤ nd.full.store.height
      rw [hh]; exact daIncOf_le (by rw [a9]; exact c5) hrge
    · intro j h1 h2; exact hi.incDA j h1 (Nat.le_trans h2 hnew)
    · intro j
      obtain ⟨b1, b2, b3, b4⟩ := a7 j
      refine ⟨b1, by rw [b2, hh]; exact Nat.le_refl _, b3, ?_, ?_⟩
      · rw [b4, ← a9]; exact metaInc_le_daIncOf C _
      · rw [b4, b2]; exact c5

end FullNode
