import Proofs.SyncSafe

/-!
# Start-up of the syncing node on a durable image: fresh start, clean restart, restart after a crash
-/
namespace Sync
open Wire Chain
variable {c : Cfg} {ch : PChain} {top h0 : Nat} {evs : List Ev} {n : FNode}

/-- the chain height a node reports after starting on image `d`: `NewManager` raises the stored height to the
height of the stored state -/
def recHeight (c : Cfg) (d : Store) : Nat :=
  match d.state with
  | none => c.initialHeight - 1
  | some s => s.lastHeight

/-- **The durable image is consistent with the proposer's chain**: the stored height does not exceed the
state's height, the stored state is the state after the recorded height, and every height up to the recorded
height has a retrievable block that is the proposer's.  Nothing is said about blocks *above* the recorded
height: the image may hold there the block of the next height, saved before the state that says it was applied
(or the genesis block written locally at start-up) — the node restarts below it and applies that height again.
`wm`: the two DA-submission watermarks in the metadata parse (absent or 8 bytes; the sync loop never writes
them, `Sync.start` writes 8 bytes). -/
structure DiskOK (c : Cfg) (ch : PChain) (d : Store) : Prop where
  hle : d.height ≤ recHeight c d
  state : ∀ s, d.state = some s → s = stateAt c ch (recHeight c d) ∧ c.initialHeight ≤ recHeight c d
  blocks : ∀ k, c.initialHeight ≤ k → k ≤ recHeight c d →
    ∃ b sb, ch k = some b ∧ d.getBlock k = some sb ∧ SameBlock b sb
  wm : WmOK d

/-- what `start` produces from image `d` and the cache files `caches` -/
structure Started (c : Cfg) (ch : PChain) (d : Store) (caches n : FNode) : Prop where
  height : n.store.height = recHeight c d
  st : n.lastState = stateAt c ch (recHeight c d)
  alive : n.alive = true
  hc : n.hdrCache = caches.hdrCache
  dc : n.datCache = caches.datCache
  sH : n.seenH = caches.seenH
  sD : n.seenD = caches.seenD
  disk : (n.store.state = some n.lastState ∧ c.initialHeight ≤ n.store.height) ∨
         (n.store.state = none ∧ n.store.height + 1 = c.initialHeight)
  gen : n.store.height + 1 = c.initialHeight → n.store.getBlock c.initialHeight = some (genesisBlock c)
  blocks : ∀ k, k ≤ recHeight c d → n.store.getBlock k = d.getBlock k
  wm : WmOK n.store

/-! ## the tail of `start`: raising the two DA-submission watermarks to `initialHeight - 1` -/

/-- the write by which `start` raises a submission watermark that reads `w` -/
def wmW (c : Cfg) (key : String) (w : Nat) : List SW :=
  if c.initialHeight > 1 ∧ c.initialHeight - 1 > w then [.setMeta key (le64 (c.initialHeight - 1))] else []

theorem le64_len (x : Nat) : (le64 x).length = 8 := by
  have : ∀ n x, (Bytes.le n x).length = n := by
    intro n
    induction n with
    | zero => intro x; rfl
    | succ n ih => intro x; simp [Bytes.le, ih]
  exact this 8 x

theorem wmOf_setMeta_same (d : Store) (key : String) (x : Nat) :
    ∃ w, Producer.wmOf (d.apply (.setMeta key (le64 x))) key = some w := by
  refine ⟨Bytes.unLe (le64 x), ?_⟩
  simp [Producer.wmOf, Store.getMeta, Store.apply, le64_len]

theorem wmOf_setMeta_other (d : Store) (key k : String) (v : Bytes) (hk : k ≠ key) :
    Producer.wmOf (d.apply (.setMeta key v)) k = Producer.wmOf d k := by
  have hne : ¬ key = k := fun h => hk h.symm
  simp [Producer.wmOf, Store.getMeta, Store.apply, hne]

/-- writing 8 bytes under one of the two watermark keys keeps both readable -/
theorem wmOK_setWm {d : Store} (hw : WmOK d) (key : String) (hkey : key = Producer.hdrWmKey ∨ key = Producer.dataWmKey)
    (x : Nat) : WmOK (d.apply (.setMeta key (le64 x))) := by
  have hne : Producer.hdrWmKey ≠ Producer.dataWmKey := by decide
  rcases hkey with rfl | rfl
  · exact ⟨wmOf_setMeta_same _ _ _, by rw [wmOf_setMeta_other _ _ _ _ hne.symm]; exact hw.2⟩
  · exact ⟨by rw [wmOf_setMeta_other _ _ _ _ hne]; exact hw.1, wmOf_setMeta_same _ _ _⟩

/-- a watermark write changes nothing but the metadata -/
theorem wmW_facts (c : Cfg) (d : Store) (key : String) (hkey : key = Producer.hdrWmKey ∨ key = Producer.dataWmKey)
    (w : Nat) :
    (d.applyAll (wmW c key w)).height = d.height ∧
    (∀ k, (d.applyAll (wmW c key w)).getBlock k = d.getBlock k) ∧
    (d.applyAll (wmW c key w)).state = d.state ∧
    (WmOK d → WmOK (d.applyAll (wmW c key w))) := by
  unfold wmW
  split
  · exact ⟨rfl, fun _ => rfl, rfl, fun hw => wmOK_setWm hw key hkey _⟩
  · exact ⟨rfl, fun _ => rfl, rfl, id⟩

/-- `start` after the state has been read / initialised and the chain height raised (`d2`) -/
def finishStart (c : Cfg) (caches : FNode) (s : State) (d2 : Store) (ws : List SW) : Option (FNode × List SW) :=
  match Producer.wmOf d2 Producer.hdrWmKey, Producer.wmOf d2 Producer.dataWmKey with
  | some hw, some dw =>
    some ({ caches with store := (d2.applyAll (wmW c Producer.hdrWmKey hw)).applyAll (wmW c Producer.dataWmKey dw),
                        lastState := s, alive := true },
          ws ++ wmW c Producer.hdrWmKey hw ++ wmW c Producer.dataWmKey dw)
  | _, _ => none

theorem start_none (c : Cfg) (d : Store) (caches : FNode) (hst : d.state = none) :
    start c d caches = finishStart c caches (genesisState c)
      ((d.apply (.saveBlock c.initialHeight (genesisBlock c))).applyAll
        (setHeightW (d.apply (.saveBlock c.initialHeight (genesisBlock c))) (c.initialHeight - 1)))
      ([.saveBlock c.initialHeight (genesisBlock c)] ++
        setHeightW (d.apply (.saveBlock c.initialHeight (genesisBlock c))) (c.initialHeight - 1)) := by
  unfold start finishStart
  simp only [hst]
  rfl

theorem start_some (c : Cfg) (d : Store) (caches : FNode) {s : State} (hst : d.state = some s)
    (hle : c.initialHeight ≤ s.lastHeight) :
    start c d caches = finishStart c caches s (d.applyAll (setHeightW d s.lastHeight)) ([] ++ setHeightW d s.lastHeight) := by
  unfold start finishStart
  simp only [hst]
  rw [if_neg (by omega)]
  rfl

/-- with readable watermarks the tail of `start` succeeds and touches only the metadata -/
theorem finishStart_spec (c : Cfg) (caches : FNode) (s : State) {d2 : Store} (ws : List SW) (hw : WmOK d2) :
    ∃ hw dw d4, finishStart c caches s d2 ws =
        some ({ caches with store := d4, lastState := s, alive := true },
              ws ++ wmW c Producer.hdrWmKey hw ++ wmW c Producer.dataWmKey dw) ∧
      d4.height = d2.height ∧ (∀ k, d4.getBlock k = d2.getBlock k) ∧ d4.state = d2.state ∧ WmOK d4 := by
  obtain ⟨⟨w1, h1⟩, ⟨w2, h2⟩⟩ := hw
  obtain ⟨a1, a2, a3, a4⟩ := wmW_facts c d2 Producer.hdrWmKey (Or.inl rfl) w1
  obtain ⟨b1, b2, b3, b4⟩ := wmW_facts c (d2.applyAll (wmW c Producer.hdrWmKey w1)) Producer.dataWmKey (Or.inr rfl) w2
  refine ⟨w1, w2, _, ?_, by rw [b1, a1], fun k => by rw [b2, a2], by rw [b3, a3], b4 (a4 ⟨⟨w1, h1⟩, ⟨w2, h2⟩⟩)⟩
  unfold finishStart
  rw [h1, h2]

theorem start_spec (g : GoodChain c ch top) {d : Store} (hd : DiskOK c ch d) (caches : FNode) :
    ∃ n ws, start c d caches = some (n, ws) ∧ Started c ch d caches n := by
  have hpos := g.ihPos
  cases hst : d.state with
  | none =>
    have hr : recHeight c d = c.initialHeight - 1 := by simp [recHeight, hst]
    have hle := hd.hle
    rw [hr] at hle
    rw [start_none c d caches hst]
    generalize hd1 : d.apply (.saveBlock c.initialHeight (genesisBlock c)) = d1
    have h1h : d1.height = d.height := by rw [← hd1]; rfl
    have h1s : d1.state = none := by rw [← hd1]; exact hst
    have h1b : ∀ k, d1.getBlock k = if c.initialHeight = k then some (genesisBlock c) else d.getBlock k := by
      intro k; rw [← hd1, getBlock_saveBlock]
    have h1w : WmOK d1 := hd.wm.kv (by rw [← hd1]; rfl)
    obtain ⟨a1, a2, a3, a4⟩ := applyAll_setHeightW d1 (c.initialHeight - 1)
    obtain ⟨hw, dw, d4, e, f1, f2, f3, f4⟩ := finishStart_spec c caches (genesisState c)
      ([.saveBlock c.initialHeight (genesisBlock c)] ++ setHeightW d1 (c.initialHeight - 1)) (h1w.kv a4)
    refine ⟨_, _, e, ?_⟩
    have hh : d4.height = c.initialHeight - 1 := by
      rw [f1, a1, h1h]; split <;> omega
    refine ⟨by rw [hr]; exact hh, by rw [hr]; exact (stateAt_genesis g (by omega)).symm, rfl, rfl, rfl, rfl, rfl, ?_, ?_, ?_, f4⟩
    · right; exact ⟨by show d4.state = none; rw [f3, a3, h1s], by show d4.height + 1 = _; rw [hh]; omega⟩
    · intro _; show d4.getBlock _ = _; rw [f2, a2, h1b]; simp
    · intro k hk; show d4.getBlock _ = _; rw [f2, a2, h1b, if_neg (by omega)]
  | some s =>
    have hr : recHeight c d = s.lastHeight := by simp [recHeight, hst]
    obtain ⟨hs1, hs2⟩ := hd.state s hst
    have hle := hd.hle
    rw [hr] at hle hs2
    rw [start_some c d caches hst hs2]
    obtain ⟨a1, a2, a3, a4⟩ := applyAll_setHeightW d s.lastHeight
    obtain ⟨hw, dw, d4, e, f1, f2, f3, f4⟩ := finishStart_spec c caches s ([] ++ setHeightW d s.lastHeight) (hd.wm.kv a4)
    refine ⟨_, _, e, ?_⟩
    have hh : d4.height = s.lastHeight := by
      rw [f1, a1]; split <;> omega
    refine ⟨by rw [hr]; exact hh, hs1, rfl, rfl, rfl, rfl, rfl, ?_, ?_, ?_, f4⟩
    · left; exact ⟨by show d4.state = some s; rw [f3, a3, hst], by show _ ≤ d4.height; rw [hh]; exact hs2⟩
    · intro h; have : d4.height + 1 = c.initialHeight := h; omega
    · intro k _; show d4.getBlock k = _; rw [f2]; exact a2 k

/-- the part of the invariant that concerns the caches -/
structure CachesOK (jk : Bool) (ch : PChain) (evs : List Ev) (n : FNode) : Prop where
  hdrGen : ∀ k sh, (k, sh) ∈ n.hdrCache → ∃ b, ch k = some b ∧ sh = b.sh
  dat : ∀ k d, (k, d) ∈ n.datCache → (jk = true ∧ Junk ch k d) ∨ DatOK ch evs k d
  hdrSrc : ∀ k, k ∈ keysH n → Ev.hdr k ∈ evs

variable {jk : Bool}

theorem SafeJ.caches (hs : SafeJ jk c ch h0 evs n) : CachesOK jk ch evs n := ⟨hs.hdrGen, hs.dat, hs.hdrSrc⟩

theorem cachesOK_empty (jk : Bool) (ch : PChain) : CachesOK jk ch [] ({} : FNode) := by
  refine ⟨?_, ?_, ?_⟩ <;> intros <;> simp_all [keysH, keys]

/-- a node started on a consistent image with good caches satisfies the safety invariant -/
theorem started_safe {d : Store} {caches : FNode} (hd : DiskOK c ch d) (hst : Started c ch d caches n)
    (hc : CachesOK jk ch evs caches) (hge : h0 ≤ recHeight c d)
    (hsound : ∀ k, h0 < k → k ≤ recHeight c d → Delivered ch evs k) : SafeJ jk c ch h0 evs n := by
  have hh := hst.height
  refine ⟨hst.alive, by rw [hh]; exact hge, ?_, by rw [hh]; exact hst.st, hst.disk, hst.gen, ?_, ?_, ?_, ?_, ?_, ?_⟩
  · rcases hst.disk with ⟨_, h⟩ | ⟨_, h⟩ <;> omega
  · intro k h1 h2
    rw [hh] at h2
    rw [hst.blocks k h2]
    exact hd.blocks k h1 h2
  · rw [hst.hc]; exact hc.hdrGen
  · rw [hst.dc]; exact hc.dat
  · unfold keysH; rw [hst.hc]; exact hc.hdrSrc
  · rw [hh]; exact hsound
  · exact hst.wm

/-- the store of a node satisfying the invariant is a consistent image whose stored height is up to date -/
theorem SafeJ.diskOK (g : GoodChain c ch top) (hs : SafeJ jk c ch h0 evs n) :
    DiskOK c ch n.store ∧ recHeight c n.store = n.store.height := by
  have hr : recHeight c n.store = n.store.height := by
    unfold recHeight
    rcases hs.disk with ⟨h, _⟩ | ⟨h, h'⟩
    · rw [h]; exact (hs.hs g).symm
    · rw [h]; simp only; omega
  refine ⟨⟨by omega, ?_, ?_, hs.wm⟩, hr⟩
  · intro s hst
    rcases hs.disk with ⟨h, h'⟩ | ⟨h, _⟩
    · rw [h] at hst; cases hst
      exact ⟨by rw [hr]; exact hs.st, by rw [hr]; exact h'⟩
    · rw [h] at hst; cases hst
  · intro k h1 h2
    rw [hr] at h2
    exact hs.chain k h1 h2

/-! ## fresh start -/

theorem diskOK_empty (g : GoodChain c ch top) : DiskOK c ch ({} : Store) := by
  have := g.ihPos
  refine ⟨by show 0 ≤ _; omega, ?_, ?_, wmOK_empty⟩
  · intro s hs; cases hs
  · intro k h1 h2
    have : recHeight c ({} : Store) = c.initialHeight - 1 := rfl
    omega

/-- the node `NewManager` builds on an empty store -/
def fresh (c : Cfg) : FNode :=
  match start c {} with
  | some (n, _) => n
  | none => {}

theorem start_fresh (c : Cfg) : ∃ ws, start c {} = some (fresh c, ws) := by
  have h := start_none c {} {} rfl
  obtain ⟨_, _, _, a4⟩ := applyAll_setHeightW (({} : Store).apply (.saveBlock c.initialHeight (genesisBlock c))) (c.initialHeight - 1)
  obtain ⟨hw, dw, d4, e, _⟩ := finishStart_spec c {} (genesisState c)
    ([.saveBlock c.initialHeight (genesisBlock c)] ++
      setHeightW (({} : Store).apply (.saveBlock c.initialHeight (genesisBlock c))) (c.initialHeight - 1))
    (wmOK_empty.kv (d' := (({} : Store).apply (.saveBlock c.initialHeight (genesisBlock c))).applyAll
      (setHeightW (({} : Store).apply (.saveBlock c.initialHeight (genesisBlock c))) (c.initialHeight - 1))) (by rw [a4]; rfl))
  rw [e] at h
  unfold fresh
  rw [h]
  exact ⟨_, rfl⟩

theorem fresh_safe (g : GoodChain c ch top) : Safe c ch (c.initialHeight - 1) [] (fresh c) := by
  obtain ⟨n, ws, h1, h2⟩ := start_spec g (diskOK_empty g) {}
  obtain ⟨ws', h3⟩ := start_fresh c
  rw [h3] at h1
  simp only [Option.some.injEq, Prod.mk.injEq] at h1
  rw [h1.1]
  exact started_safe (diskOK_empty g) h2 (cachesOK_empty false ch) (Nat.le_refl _) (fun k a b => by
    have : recHeight c ({} : Store) = c.initialHeight - 1 := rfl
    omega)

/-! ## clean restart: the caches are written to and re-read from the cache files -/

/-- clean stop and restart of the node -/
def restart (c : Cfg) (n : FNode) : FNode :=
  match start c n.store n with
  | some (n', _) => n'
  | none => n

/-- **A clean restart changes nothing the loop reads**: height, state, caches, seen-sets and every stored
block up to the chain height are the same, the invariant holds again (for the same delivered events). -/
theorem restart_spec (g : GoodChain c ch top) (hs : SafeJ jk c ch h0 evs n) :
    (∃ ws, start c n.store n = some (restart c n, ws)) ∧
    (restart c n).store.height = n.store.height ∧ (restart c n).lastState = n.lastState ∧
    (restart c n).hdrCache = n.hdrCache ∧ (restart c n).datCache = n.datCache ∧
    (restart c n).seenH = n.seenH ∧ (restart c n).seenD = n.seenD ∧ (restart c n).alive = true ∧
    (∀ k, k ≤ n.store.height → (restart c n).store.getBlock k = n.store.getBlock k) ∧
    SafeJ jk c ch h0 evs (restart c n) := by
  obtain ⟨hd, hr⟩ := hs.diskOK g
  obtain ⟨n', ws, h1, h2⟩ := start_spec g hd n
  have e : restart c n = n' := by simp [restart, h1]
  rw [e]
  refine ⟨⟨ws, h1⟩, by rw [h2.height, hr], by rw [h2.st, hr, hs.st], h2.hc, h2.dc, h2.sH, h2.sD, h2.alive, ?_, ?_⟩
  · intro k hk; exact h2.blocks k (by omega)
  · exact started_safe hd h2 hs.caches (by rw [hr]; exact hs.ge) (fun k a b => hs.sound k a (by omega))

/-! ## the start of the sync loop (/repo 1fa5e4f): `boot` = `start`, then `loopStart` applies what the loaded caches
already allow -/

theorem loopStart_quiet (hq : Quiet n) : loopStart n = (n, []) := by
  unfold loopStart; exact trySync_step_none (applyNext_quiet hq)

theorem boot_of_start {d : Store} {caches : FNode} {ws : List SW} (h : start c d caches = some (n, ws)) :
    boot c d caches = some ((loopStart n).1, ws ++ (loopStart n).2) := by
  unfold boot; rw [h]

/-- the start of the loop keeps the invariant, applies consecutive blocks of the chain, and leaves nothing applicable -/
theorem loopStart_safe (g : GoodChain c ch top) (hs : SafeJ jk c ch h0 evs n) :
    SafeJ jk c ch h0 evs (loopStart n).1 ∧
    AppliedWrites c ch n.store.height (loopStart n).2 (loopStart n).1.store.height ∧ Quiet (loopStart n).1 :=
  ⟨(trySync_safe g _ n hs).1, (trySync_safe g _ n hs).2, trySync_quiet g _ n hs (Nat.lt_succ_self _)⟩

/-- with no cached header the start of the loop does nothing (restart after a crash that lost the caches) -/
theorem loopStart_noHeaders (h : n.hdrCache = []) : loopStart n = (n, []) := by
  apply loopStart_quiet
  intro ⟨hk, _⟩
  simp [keysH, keys, h] at hk

/-- clean stop and restart of the node, including the start of the loop -/
def reboot (c : Cfg) (n : FNode) : FNode :=
  match boot c n.store n with
  | some (n', _) => n'
  | none => n

/-- a clean restart finds nothing applicable (the node was quiet when it stopped): it is `restart` -/
theorem reboot_spec (g : GoodChain c ch top) (hs : SafeJ jk c ch h0 evs n) (hq : Quiet n) :
    (∃ ws, boot c n.store n = some (reboot c n, ws)) ∧ reboot c n = restart c n := by
  obtain ⟨⟨ws, h1⟩, e1, _, e2, e3, _⟩ := restart_spec g hs
  have hq' : Quiet (restart c n) := by
    unfold Quiet keysH keysD at hq ⊢
    rw [e1, e2, e3]; exact hq
  have hb := boot_of_start h1
  rw [loopStart_quiet hq'] at hb
  have e : reboot c n = restart c n := by simp [reboot, hb]
  exact ⟨⟨_, by rw [e]; exact hb⟩, e⟩

end Sync
