import Proofs.SyncSafe

/-!
# Start-up of the syncing node on a durable image: fresh start, clean restart, restart after a crash
-/
namespace Sync
open Wire Chain
variable {c : Cfg} {ch : PChain} {top h0 : Nat} {evs : List Ev} {n : FNode}

/-- the chain height a node reports after starting on image `d`: `NewManager` raises the stored height to the
height of the stored state -/
def recHeight (c : Cfg) (d : Store) : Nat :=
  match d.state with
  | none => c.initialHeight - 1
  | some s => s.lastHeight

/-- **The durable image is consistent with the proposer's chain**: the stored height does not exceed the
state's height, the stored state is the state after the recorded height, and every height up to the recorded
height has a retrievable block that is the proposer's. -/
structure DiskOK (c : Cfg) (ch : PChain) (d : Store) : Prop where
  hle : d.height ≤ recHeight c d
  state : ∀ s, d.state = some s → s = stateAt c ch (recHeight c d) ∧ c.initialHeight ≤ recHeight c d
  blocks : ∀ k, c.initialHeight ≤ k → k ≤ recHeight c d →
    ∃ b sb, ch k = some b ∧ d.getBlock k = some sb ∧ SameBlock b sb

/-- what `start` produces from image `d` and the cache files `caches` -/
structure Started (c : Cfg) (ch : PChain) (d : Store) (caches n : FNode) : Prop where
  height : n.store.height = recHeight c d
  st : n.lastState = stateAt c ch (recHeight c d)
  alive : n.alive = true
  hc : n.hdrCache = caches.hdrCache
  dc : n.datCache = caches.datCache
  sH : n.seenH = caches.seenH
  sD : n.seenD = caches.seenD
  disk : (n.store.state = some n.lastState ∧ c.initialHeight ≤ n.store.height) ∨
         (n.store.state = none ∧ n.store.height + 1 = c.initialHeight)
  gen : n.store.height + 1 = c.initialHeight → n.store.getBlock c.initialHeight = some (genesisBlock c)
  blocks : ∀ k, k ≤ recHeight c d → n.store.getBlock k = d.getBlock k

theorem start_spec (g : GoodChain c ch top) {d : Store} (hd : DiskOK c ch d) (caches : FNode) :
    ∃ n ws, start c d caches = some (n, ws) ∧ Started c ch d caches n := by
  have hpos := g.ihPos
  cases hst : d.state with
  | none =>
    have hr : recHeight c d = c.initialHeight - 1 := by simp [recHeight, hst]
    have hle := hd.hle
    rw [hr] at hle
    generalize hd1 : d.apply (.saveBlock c.initialHeight (genesisBlock c)) = d1
    have h1h : d1.height = d.height := by rw [← hd1]; rfl
    have h1s : d1.state = none := by rw [← hd1]; exact hst
    have h1b : ∀ k, d1.getBlock k = if c.initialHeight = k then some (genesisBlock c) else d.getBlock k := by
      intro k; rw [← hd1, getBlock_saveBlock]
    obtain ⟨a1, a2, a3, _⟩ := applyAll_setHeightW d1 (c.initialHeight - 1)
    refine ⟨{ caches with store := d1.applyAll (setHeightW d1 (c.initialHeight - 1)), lastState := genesisState c, alive := true },
            [.saveBlock c.initialHeight (genesisBlock c)] ++ setHeightW d1 (c.initialHeight - 1), ?_, ?_⟩
    · unfold start
      simp only [hst, hd1]
      rfl
    · have hh : (d1.applyAll (setHeightW d1 (c.initialHeight - 1))).height = c.initialHeight - 1 := by
        rw [a1, h1h]; split <;> omega
      refine ⟨by rw [hr]; exact hh, by rw [hr]; exact (stateAt_genesis g (by omega)).symm, rfl, rfl, rfl, rfl, rfl, ?_, ?_, ?_⟩
      · right; exact ⟨by show (d1.applyAll _).state = none; rw [a3, h1s], by show (d1.applyAll _).height + 1 = _; rw [hh]; omega⟩
      · intro _; show (d1.applyAll _).getBlock _ = _; rw [a2, h1b]; simp
      · intro k hk; show (d1.applyAll _).getBlock _ = _; rw [a2, h1b, if_neg (by omega)]
  | some s =>
    have hr : recHeight c d = s.lastHeight := by simp [recHeight, hst]
    obtain ⟨hs1, hs2⟩ := hd.state s hst
    have hle := hd.hle
    rw [hr] at hle hs2
    obtain ⟨a1, a2, a3, _⟩ := applyAll_setHeightW d s.lastHeight
    refine ⟨{ caches with store := d.applyAll (setHeightW d s.lastHeight), lastState := s, alive := true },
            [] ++ setHeightW d s.lastHeight, ?_, ?_⟩
    · unfold start
      simp only [hst]
      rw [if_neg (by omega)]
    · have hh : (d.applyAll (setHeightW d s.lastHeight)).height = s.lastHeight := by
        rw [a1]; split <;> omega
      refine ⟨by rw [hr]; exact hh, hs1, rfl, rfl, rfl, rfl, rfl, ?_, ?_, ?_⟩
      · left; exact ⟨by show (d.applyAll _).state = some s; rw [a3, hst], by show _ ≤ (d.applyAll _).height; rw [hh]; exact hs2⟩
      · intro h; have : (d.applyAll (setHeightW d s.lastHeight)).height + 1 = c.initialHeight := h; omega
      · intro k _; exact a2 k

/-- the part of the invariant that concerns the caches -/
structure CachesOK (ch : PChain) (evs : List Ev) (n : FNode) : Prop where
  hdrGen : ∀ k sh, (k, sh) ∈ n.hdrCache → ∃ b, ch k = some b ∧ sh = b.sh
  datGen : ∀ k d, (k, d) ∈ n.datCache → ∃ b, ch k = some b ∧ GoodData b d
  hdrSrc : ∀ k, k ∈ keysH n → Ev.hdr k ∈ evs
  datSrc : ∀ k, k ∈ keysD n → Ev.dat k ∈ evs ∨ (Ev.hdr k ∈ evs ∧ ∃ b, ch k = some b ∧ IsEmpty b)

theorem Safe.caches (hs : Safe c ch h0 evs n) : CachesOK ch evs n := ⟨hs.hdrGen, hs.datGen, hs.hdrSrc, hs.datSrc⟩

theorem cachesOK_empty (ch : PChain) : CachesOK ch [] ({} : FNode) := by
  refine ⟨?_, ?_, ?_, ?_⟩ <;> intros <;> simp_all [keysH, keysD, keys]

/-- a node started on a consistent image with good caches satisfies the safety invariant -/
theorem started_safe {d : Store} {caches : FNode} (hd : DiskOK c ch d) (hst : Started c ch d caches n)
    (hc : CachesOK ch evs caches) (hge : h0 ≤ recHeight c d)
    (hsound : ∀ k, h0 < k → k ≤ recHeight c d → Delivered ch evs k) : Safe c ch h0 evs n := by
  have hh := hst.height
  refine ⟨hst.alive, by rw [hh]; exact hge, ?_, by rw [hh]; exact hst.st, hst.disk, hst.gen, ?_, ?_, ?_, ?_, ?_, ?_⟩
  · rcases hst.disk with ⟨_, h⟩ | ⟨_, h⟩ <;> omega
  · intro k h1 h2
    rw [hh] at h2
    rw [hst.blocks k h2]
    exact hd.blocks k h1 h2
  · rw [hst.hc]; exact hc.hdrGen
  · rw [hst.dc]; exact hc.datGen
  · unfold keysH; rw [hst.hc]; exact hc.hdrSrc
  · unfold keysD; rw [hst.dc]; exact hc.datSrc
  · rw [hh]; exact hsound

/-- the store of a node satisfying the invariant is a consistent image whose stored height is up to date -/
theorem Safe.diskOK (g : GoodChain c ch top) (hs : Safe c ch h0 evs n) :
    DiskOK c ch n.store ∧ recHeight c n.store = n.store.height := by
  have hr : recHeight c n.store = n.store.height := by
    unfold recHeight
    rcases hs.disk with ⟨h, _⟩ | ⟨h, h'⟩
    · rw [h]; exact (hs.hs g).symm
    · rw [h]; simp only; omega
  refine ⟨⟨by omega, ?_, ?_⟩, hr⟩
  · intro s hst
    rcases hs.disk with ⟨h, h'⟩ | ⟨h, _⟩
    · rw [h] at hst; cases hst
      exact ⟨by rw [hr]; exact hs.st, by rw [hr]; exact h'⟩
    · rw [h] at hst; cases hst
  · intro k h1 h2
    rw [hr] at h2
    exact hs.chain k h1 h2

/-! ## fresh start -/

theorem diskOK_empty (g : GoodChain c ch top) : DiskOK c ch ({} : Store) := by
  have := g.ihPos
  refine ⟨by show 0 ≤ _; omega, ?_, ?_⟩
  · intro s hs; cases hs
  · intro k h1 h2
    have : recHeight c ({} : Store) = c.initialHeight - 1 := rfl
    omega

/-- the node `NewManager` builds on an empty store -/
def fresh (c : Cfg) : FNode :=
  match start c {} with
  | some (n, _) => n
  | none => {}

theorem start_fresh (c : Cfg) : ∃ ws, start c {} = some (fresh c, ws) := ⟨_, rfl⟩

theorem fresh_safe (g : GoodChain c ch top) : Safe c ch (c.initialHeight - 1) [] (fresh c) := by
  obtain ⟨n, ws, h1, h2⟩ := start_spec g (diskOK_empty g) {}
  obtain ⟨ws', h3⟩ := start_fresh c
  rw [h3] at h1
  simp only [Option.some.injEq, Prod.mk.injEq] at h1
  rw [h1.1]
  exact started_safe (diskOK_empty g) h2 (cachesOK_empty ch) (Nat.le_refl _) (fun k a b => by
    have : recHeight c ({} : Store) = c.initialHeight - 1 := rfl
    omega)

/-! ## clean restart: the caches are written to and re-read from the cache files -/

/-- clean stop and restart of the node -/
def restart (c : Cfg) (n : FNode) : FNode :=
  match start c n.store n with
  | some (n', _) => n'
  | none => n

/-- **A clean restart changes nothing the loop reads**: height, state, caches, seen-sets and every stored
block up to the chain height are the same, the invariant holds again (for the same delivered events). -/
theorem restart_spec (g : GoodChain c ch top) (hs : Safe c ch h0 evs n) :
    (∃ ws, start c n.store n = some (restart c n, ws)) ∧
    (restart c n).store.height = n.store.height ∧ (restart c n).lastState = n.lastState ∧
    (restart c n).hdrCache = n.hdrCache ∧ (restart c n).datCache = n.datCache ∧
    (restart c n).seenH = n.seenH ∧ (restart c n).seenD = n.seenD ∧ (restart c n).alive = true ∧
    (∀ k, k ≤ n.store.height → (restart c n).store.getBlock k = n.store.getBlock k) ∧
    Safe c ch h0 evs (restart c n) := by
  obtain ⟨hd, hr⟩ := hs.diskOK g
  obtain ⟨n', ws, h1, h2⟩ := start_spec g hd n
  have e : restart c n = n' := by simp [restart, h1]
  rw [e]
  refine ⟨⟨ws, h1⟩, by rw [h2.height, hr], by rw [h2.st, hr, hs.st], h2.hc, h2.dc, h2.sH, h2.sD, h2.alive, ?_, ?_⟩
  · intro k hk; exact h2.blocks k (by omega)
  · exact started_safe hd h2 hs.caches (by rw [hr]; exact hs.ge) (fun k a b => hs.sound k a (by omega))

end Sync
