import Proofs.SubmitReach

/-! Crashes at write granularity (C06, C07, C08): a crash cuts the durable writes of the last action after any number
`k` of them (`Store.applyPrefix`), the process restarts on that image.  Every such image of every action of a reachable
node restarts into a reachable node. -/
namespace Submit
open Wire Chain Producer

/-! ### generalities -/

theorem applyAll_pres {P : Store → Prop} {l : List SW} (hstep : ∀ s w, w ∈ l → P s → P (s.apply w)) {s : Store}
    (h : P s) : P (s.applyAll l) := by
  induction l generalizing s with
  | nil => exact h
  | cons w l ih =>
    show P ((s.apply w).applyAll l)
    exact ih (fun s' w' hw' => hstep s' w' (List.mem_cons_of_mem _ hw')) (hstep s w (List.mem_cons_self ..) h)

theorem applyPrefix_pres {P : Store → Prop} {l : List SW} (hstep : ∀ s w, w ∈ l → P s → P (s.apply w)) {s : Store}
    (h : P s) (k : Nat) : P (s.applyPrefix k l) := by
  unfold Store.applyPrefix
  exact applyAll_pres (fun s' w hw => hstep s' w (List.mem_of_mem_take hw)) h

/-- metadata writes leave height, blocks and saved state alone -/
theorem setMeta_frame (s : Store) (k : String) (v : Bytes) :
    (s.apply (.setMeta k v)).height = s.height ∧ (∀ h, (s.apply (.setMeta k v)).getBlock h = s.getBlock h) ∧
    (s.apply (.setMeta k v)).state = s.state := ⟨rfl, fun _ => rfl, rfl⟩

def MetaOnly (l : List SW) : Prop := ∀ w ∈ l, ∃ k v, w = SW.setMeta k v

theorem metaOnly_prefix {l : List SW} (hl : MetaOnly l) (s : Store) (k : Nat) :
    (s.applyPrefix k l).height = s.height ∧ (∀ h, (s.applyPrefix k l).getBlock h = s.getBlock h) ∧
    (s.applyPrefix k l).state = s.state := by
  refine applyPrefix_pres (P := fun s' => s'.height = s.height ∧ (∀ h, s'.getBlock h = s.getBlock h) ∧ s'.state = s.state)
    ?_ ⟨rfl, fun _ => rfl, rfl⟩ k
  intro s' w hw ⟨h1, h2, h3⟩
  obtain ⟨key, v, rfl⟩ := hl w hw
  exact ⟨h1, h2, h3⟩

theorem metaOnly_all {l : List SW} (hl : MetaOnly l) (s : Store) :
    (s.applyAll l).height = s.height ∧ (∀ h, (s.applyAll l).getBlock h = s.getBlock h) ∧ (s.applyAll l).state = s.state := by
  have := metaOnly_prefix hl s l.length
  unfold Store.applyPrefix at this
  rwa [List.take_length] at this

theorem getMeta_prefix_other (s : Store) (l : List SW) (key : String) (k : Nat)
    (h : ∀ w ∈ l, ∀ k' v, w = SW.setMeta k' v → k' ≠ key) : (s.applyPrefix k l).getMeta key = s.getMeta key := by
  unfold Store.applyPrefix
  exact getMeta_applyAll_other _ _ _ (fun w hw => h w (List.mem_of_mem_take hw))

/-! ### a node on a different image of the same chain -/

def ANode.withStore (a : ANode) (s : Store) : ANode := { a with n := { a.n with store := s } }

/-- `restart` looks at the node only for its marks, the `SetFinal` log and the DA double -/
theorem restart_withStore (c : Cfg) (a : ANode) (s d : Store) (clean : Bool) :
    restart c (a.withStore s) d clean = restart c a d clean := rfl

/-- the reachable-node invariant only needs: the same committed chain, watermarks and DA-included height persisted in
the image at most the ones in memory -/
theorem R.withStore {c : Cfg} {a : ANode} (r : R c a) (s' : Store)
    (hl : Live c { a.n with store := s' }) (hsy : Synced c { a.n with store := s' })
    (hh : s'.height = a.n.store.height) (hb : ∀ k, k ≤ a.n.store.height → s'.getBlock k = a.n.store.getBlock k)
    (ph : ∃ w, wmOf s' (wmKey false) = some w ∧ w ≤ a.n.hdrWm)
    (pd : ∃ w, wmOf s' (wmKey true) = some w ∧ w ≤ a.n.dataWm)
    (pi : loadInc c s' ≤ a.daInc) : R c (a.withStore s') := by
  have tH : ∀ k dh, HdrOnDA a k dh → HdrOnDA (a.withStore s') k dh := fun k dh h =>
    h.mono (by show a.n.store.height ≤ s'.height; rw [hh]; exact Nat.le_refl _) hb (fun e he => he)
  have tD : ∀ k dh, DataOnDA a k dh → DataOnDA (a.withStore s') k dh := fun k dh h =>
    h.mono (by show a.n.store.height ≤ s'.height; rw [hh]; exact Nat.le_refl _) hb (fun e he => he)
  refine { pinv := hl.toInv, low := r.low, le := ?_, dlow := r.dlow, dle := ?_, acc := ?_, mh := ?_, dacc := ?_,
           live := hl, synced := hsy, ph := ph, pd := pd, g := ?_, pdw := ⟨r.pdw.1, pi⟩ }
  · show a.n.hdrWm ≤ s'.height; rw [hh]; exact r.le
  · show a.n.dataWm ≤ s'.height; rw [hh]; exact r.dle
  · intro h ha hb'
    obtain ⟨b, dh, r1, r2, r3⟩ := r.acc h ha hb'
    exact ⟨b, dh, by show s'.getBlock h = _; rw [hb h (Nat.le_trans hb' r.le)]; exact r1, r2, r3⟩
  · intro h ha hb'
    have hb'' : h ≤ a.n.store.height := by rw [← hh]; exact hb'
    show ∃ b, s'.getBlock h = some b ∧ _
    rw [hb h hb'']; exact r.mh h ha hb''
  · intro h ha hb'
    obtain ⟨b, r1, r2⟩ := r.dacc h ha hb'
    exact ⟨b, by show s'.getBlock h = _; rw [hb h (Nat.le_trans hb' r.dle)]; exact r1, r2⟩
  · refine ⟨hl.toInv, ?_, fun e he => tH _ _ (r.g.hM e he), fun e he => tD _ _ (r.g.dM e he), ?_⟩
    · show a.daInc ≤ s'.height; rw [hh]; exact r.g.incLe
    · intro h h1 h2
      obtain ⟨b, r1, ⟨dh, r2⟩, r3⟩ := r.g.incSound h h1 h2
      refine ⟨b, by show s'.getBlock h = _; rw [hb h (Nat.le_trans h2 r.g.incLe)]; exact r1, ⟨dh, tH _ _ r2⟩, ?_⟩
      rcases r3 with r3 | ⟨dd, r3⟩
      · exact Or.inl r3
      · exact Or.inr ⟨dd, tD _ _ r3⟩

/-- what a crash restart yields, relative to the node `a` whose DA double, marks and `SetFinal` log it keeps and the image
`s'` it restarts on -/
structure CutFacts (c : Cfg) (a a' : ANode) (s' : Store) : Prop where
  hdrWm : a'.n.hdrWm ≤ wmRaise c a.n.hdrWm
  dataWm : a'.n.dataWm ≤ wmRaise c a.n.dataWm
  height : a'.n.store.height = s'.height
  daBlobs : a'.daBlobs = a.daBlobs
  daH : a'.daH = a.daH
  finals : a'.finals = a.finals
  hMarks : a'.hMarks = []
  dMarks : a'.dMarks = []
  daInc : a'.daInc = loadInc c s'
  incLe : a'.daInc ≤ a.daInc

/-- **a crash restart on such an image succeeds and yields a reachable node** -/
theorem R.crashOn {c : Cfg} {a : ANode} (r : R c a) (s' : Store)
    (hl : Live c { a.n with store := s' }) (hsy : Synced c { a.n with store := s' })
    (hh : s'.height = a.n.store.height) (hb : ∀ k, k ≤ a.n.store.height → s'.getBlock k = a.n.store.getBlock k)
    (ph : ∃ w, wmOf s' (wmKey false) = some w ∧ w ≤ a.n.hdrWm)
    (pd : ∃ w, wmOf s' (wmKey true) = some w ∧ w ≤ a.n.dataWm)
    (pi : loadInc c s' ≤ a.daInc) :
    ∃ a', restart c a s' false = some a' ∧ R c a' ∧ CutFacts c a a' s' := by
  obtain ⟨a', h, r', f⟩ := (r.withStore s' hl hsy hh hb ph pd pi).restart false
  rw [show (a.withStore s').n.store = s' from rfl, restart_withStore] at h
  exact ⟨a', h, r', ⟨f.hdrWm, f.dataWm, f.height, f.daBlobs, f.daH, f.finals, f.hMarks, f.dMarks, f.daInc,
    by rw [f.daInc]; exact pi⟩⟩

/-- on the node's own image -/
theorem R.crashOwn {c : Cfg} {a : ANode} (r : R c a) :
    ∃ a', restart c a a.n.store false = some a' ∧ R c a' ∧ CutFacts c a a' a.n.store := by
  obtain ⟨a', h, r', f⟩ := r.restart false
  exact ⟨a', h, r', ⟨f.hdrWm, f.dataWm, f.height, f.daBlobs, f.daH, f.finals, f.hMarks, f.dMarks, f.daInc,
    by rw [f.daInc]; exact r.pdw.2⟩⟩

end Submit
