import Proofs.SubmitReach

/-! Crashes at write granularity (C06, C07, C08): a crash cuts the durable writes of the last action after any number
`k` of them (`Store.applyPrefix`), the process restarts on that image.  Every such image of every action of a reachable
node restarts into a reachable node. -/
namespace Submit
open Wire Chain Producer

/-! ### generalities -/

theorem applyAll_pres {P : Store → Prop} {l : List SW} (hstep : ∀ s w, w ∈ l → P s → P (s.apply w)) {s : Store}
    (h : P s) : P (s.applyAll l) := by
  induction l generalizing s with
  | nil => exact h
  | cons w l ih =>
    show P ((s.apply w).applyAll l)
    exact ih (fun s' w' hw' => hstep s' w' (List.mem_cons_of_mem _ hw')) (hstep s w (List.mem_cons_self ..) h)

theorem applyPrefix_pres {P : Store → Prop} {l : List SW} (hstep : ∀ s w, w ∈ l → P s → P (s.apply w)) {s : Store}
    (h : P s) (k : Nat) : P (s.applyPrefix k l) := by
  unfold Store.applyPrefix
  exact applyAll_pres (fun s' w hw => hstep s' w (List.mem_of_mem_take hw)) h

/-- metadata writes leave height, blocks and saved state alone -/
theorem setMeta_frame (s : Store) (k : String) (v : Bytes) :
    (s.apply (.setMeta k v)).height = s.height ∧ (∀ h, (s.apply (.setMeta k v)).getBlock h = s.getBlock h) ∧
    (s.apply (.setMeta k v)).state = s.state := ⟨rfl, fun _ => rfl, rfl⟩

def MetaOnly (l : List SW) : Prop := ∀ w ∈ l, ∃ k v, w = SW.setMeta k v

theorem metaOnly_prefix {l : List SW} (hl : MetaOnly l) (s : Store) (k : Nat) :
    (s.applyPrefix k l).height = s.height ∧ (∀ h, (s.applyPrefix k l).getBlock h = s.getBlock h) ∧
    (s.applyPrefix k l).state = s.state := by
  refine applyPrefix_pres (P := fun s' => s'.height = s.height ∧ (∀ h, s'.getBlock h = s.getBlock h) ∧ s'.state = s.state)
    ?_ ⟨rfl, fun _ => rfl, rfl⟩ k
  intro s' w hw ⟨h1, h2, h3⟩
  obtain ⟨key, v, rfl⟩ := hl w hw
  exact ⟨h1, h2, h3⟩

theorem metaOnly_all {l : List SW} (hl : MetaOnly l) (s : Store) :
    (s.applyAll l).height = s.height ∧ (∀ h, (s.applyAll l).getBlock h = s.getBlock h) ∧ (s.applyAll l).state = s.state := by
  have := metaOnly_prefix hl s l.length
  unfold Store.applyPrefix at this
  rwa [List.take_length] at this

theorem getMeta_prefix_other (s : Store) (l : List SW) (key : String) (k : Nat)
    (h : ∀ w ∈ l, ∀ k' v, w = SW.setMeta k' v → k' ≠ key) : (s.applyPrefix k l).getMeta key = s.getMeta key := by
  unfold Store.applyPrefix
  exact getMeta_applyAll_other _ _ _ (fun w hw => h w (List.mem_of_mem_take hw))

/-! ### a node on a different image of the same chain -/

def ANode.withStore (a : ANode) (s : Store) : ANode := { a with n := { a.n with store := s } }

/-- `restart` looks at the node only for its marks, the `SetFinal` log and the DA double -/
theorem restart_withStore (c : Cfg) (a : ANode) (s d : Store) (clean : Bool) :
    restart c (a.withStore s) d clean = restart c a d clean := rfl

/-- the reachable-node invariant only needs: the same committed chain, watermarks and DA-included height persisted in
the image at most the ones in memory -/
theorem R.withStore {c : Cfg} {a : ANode} (r : R c a) (s' : Store)
    (hl : Live c { a.n with store := s' }) (hsy : Synced c { a.n with store := s' })
    (hh : s'.height = a.n.store.height) (hb : ∀ k, k ≤ a.n.store.height → s'.getBlock k = a.n.store.getBlock k)
    (ph : ∃ w, wmOf s' (wmKey false) = some w ∧ w ≤ a.n.hdrWm)
    (pd : ∃ w, wmOf s' (wmKey true) = some w ∧ w ≤ a.n.dataWm)
    (pi : loadInc c s' ≤ a.daInc) : R c (a.withStore s') := by
  have tH : ∀ k dh, HdrOnDA a k dh → HdrOnDA (a.withStore s') k dh := fun k dh h =>
    h.mono (by show a.n.store.height ≤ s'.height; rw [hh]; exact Nat.le_refl _) hb (fun e he => he)
  have tD : ∀ k dh, DataOnDA a k dh → DataOnDA (a.withStore s') k dh := fun k dh h =>
    h.mono (by show a.n.store.height ≤ s'.height; rw [hh]; exact Nat.le_refl _) hb (fun e he => he)
  refine { pinv := hl.toInv, low := r.low, le := ?_, dlow := r.dlow, dle := ?_, acc := ?_, mh := ?_, dacc := ?_,
           live := hl, synced := hsy, ph := ph, pd := pd, g := ?_, pdw := ⟨r.pdw.1, pi⟩,
           bytes := ⟨r.bytes.aligned, fun e he => (r.bytes.entries e he).mono (Nat.le_refl _)
             (by show a.n.store.height ≤ s'.height; rw [hh]; exact Nat.le_refl _) hb⟩ }
  · show a.n.hdrWm ≤ s'.height; rw [hh]; exact r.le
  · show a.n.dataWm ≤ s'.height; rw [hh]; exact r.dle
  · intro h ha hb'
    obtain ⟨b, dh, r1, r2, r3⟩ := r.acc h ha hb'
    exact ⟨b, dh, by show s'.getBlock h = _; rw [hb h (Nat.le_trans hb' r.le)]; exact r1, r2, r3⟩
  · intro h ha hb'
    have hb'' : h ≤ a.n.store.height := by rw [← hh]; exact hb'
    show ∃ b, s'.getBlock h = some b ∧ _
    rw [hb h hb'']; exact r.mh h ha hb''
  · intro h ha hb'
    obtain ⟨b, r1, r2⟩ := r.dacc h ha hb'
    exact ⟨b, by show s'.getBlock h = _; rw [hb h (Nat.le_trans hb' r.dle)]; exact r1, r2⟩
  · refine ⟨hl.toInv, ?_, fun e he => tH _ _ (r.g.hM e he), fun e he => tD _ _ (r.g.dM e he), ?_⟩
    · show a.daInc ≤ s'.height; rw [hh]; exact r.g.incLe
    · intro h h1 h2
      obtain ⟨b, r1, ⟨dh, r2⟩, r3⟩ := r.g.incSound h h1 h2
      refine ⟨b, by show s'.getBlock h = _; rw [hb h (Nat.le_trans h2 r.g.incLe)]; exact r1, ⟨dh, tH _ _ r2⟩, ?_⟩
      rcases r3 with r3 | ⟨dd, r3⟩
      · exact Or.inl r3
      · exact Or.inr ⟨dd, tD _ _ r3⟩

/-- what a crash restart yields, relative to the node `a` whose DA double, marks and `SetFinal` log it keeps and the image
`s'` it restarts on -/
structure CutFacts (c : Cfg) (a a' : ANode) (s' : Store) : Prop where
  daBlobs : a'.daBlobs = a.daBlobs
  daBytes : a'.daBytes = a.daBytes
  daH : a'.daH = a.daH
  finals : a'.finals = a.finals
  hMarks : a'.hMarks = []
  dMarks : a'.dMarks = []
  daInc : a'.daInc = loadInc c s'
  incLe : a'.daInc ≤ a.daInc
  incMeta : a'.n.store.getMeta daIncKey = s'.getMeta daIncKey

/-- **a crash restart on such an image succeeds and yields a reachable node** -/
theorem R.crashOn {c : Cfg} {a : ANode} (r : R c a) (s' : Store)
    (hl : Live c { a.n with store := s' }) (hsy : Synced c { a.n with store := s' })
    (hh : s'.height = a.n.store.height) (hb : ∀ k, k ≤ a.n.store.height → s'.getBlock k = a.n.store.getBlock k)
    (ph : ∃ w, wmOf s' (wmKey false) = some w ∧ w ≤ a.n.hdrWm)
    (pd : ∃ w, wmOf s' (wmKey true) = some w ∧ w ≤ a.n.dataWm)
    (pi : loadInc c s' ≤ a.daInc) :
    ∃ a', Submit.restart c a s' false = some a' ∧ R c a' ∧ CutFacts c a a' s' := by
  obtain ⟨a', h, r', f⟩ := (r.withStore s' hl hsy hh hb ph pd pi).restart false
  rw [show (a.withStore s').n.store = s' from rfl, restart_withStore] at h
  exact ⟨a', h, r', ⟨f.daBlobs, f.daBytes, f.daH, f.finals, f.hMarks, f.dMarks, f.daInc,
    by rw [f.daInc]; exact pi, f.incMeta⟩⟩

/-- on the node's own image -/
theorem R.crashOwn {c : Cfg} {a : ANode} (r : R c a) :
    ∃ a', Submit.restart c a a.n.store false = some a' ∧ R c a' ∧ CutFacts c a a' a.n.store := by
  obtain ⟨a', h, r', f⟩ := r.restart false
  exact ⟨a', h, r', ⟨f.daBlobs, f.daBytes, f.daH, f.finals, f.hMarks, f.dMarks, f.daInc,
    by rw [f.daInc]; exact r.pdw.2, f.incMeta⟩⟩

/-! ### crash inside a submission tick -/

theorem synced_of_same {c : Cfg} {n n' : Node} (h : Synced c n) (hs : n'.store.state = n.store.state)
    (hl : n'.lastState = n.lastState) : Synced c n' := by
  unfold Synced at h ⊢; rw [hs, hl]; exact h

theorem wmOf_setMeta_le64 (s : Store) (key : String) (v : Nat) :
    ∃ w, wmOf (s.apply (.setMeta key (le64 v))) key = some w ∧ w ≤ v :=
  wmOf_le64 (by simp [Store.apply, Store.getMeta])

/-- **a crash after any number of the durable writes of a submission tick** (the watermark writes, one per acknowledged
chunk): the restart succeeds and yields a reachable node; the DA double keeps what was submitted, the reloaded watermark
is one of the values written (or the old one), never above what the DA layer acknowledged -/
theorem cut_iter {c : Cfg} {d : Bool} {a a' : ANode} {items : List Item} {ws : List SW} (r : R c a) (rp : R c a')
    (hi : IterInv d a items a' ws) (k : Nat) :
    ∃ ac, Submit.restart c a' (a.n.store.applyPrefix k ws) false = some ac ∧ R c ac ∧
      CutFacts c a' ac (a.n.store.applyPrefix k ws) ∧
      loadInc c (a.n.store.applyPrefix k ws) = loadInc c a.n.store := by
  have hmo : MetaOnly ws := fun w hw => by obtain ⟨v, hv, _⟩ := hi.writes w hw; exact ⟨_, _, hv⟩
  obtain ⟨m1, m2, m3⟩ := metaOnly_prefix hmo a.n.store k
  have hd : (a.n.store.applyPrefix k ws).getMeta daIncKey = a.n.store.getMeta daIncKey := by
    apply getMeta_prefix_other
    intro w hw k' v he
    obtain ⟨v', hv, _⟩ := hi.writes w hw
    rw [hv] at he
    injection he with h1 _
    rw [← h1]; cases d <;> decide
  have hli := loadInc_congr (c := c) hd
  have hown : ∃ w, wmOf (a.n.store.applyPrefix k ws) (wmKey d) = some w ∧ w ≤ wm d a' := by
    refine applyPrefix_pres (P := fun s => ∃ w, wmOf s (wmKey d) = some w ∧ w ≤ wm d a') ?_ ?_ k
    · intro s w hw _
      obtain ⟨v, hv, _, hle⟩ := hi.writes w hw
      rw [hv]
      obtain ⟨x, q1, q2⟩ := wmOf_setMeta_le64 s (wmKey d) v
      exact ⟨x, q1, Nat.le_trans q2 hle⟩
    · cases d with
      | false => obtain ⟨x, q1, q2⟩ := r.ph; exact ⟨x, q1, Nat.le_trans q2 hi.wmMono⟩
      | true => obtain ⟨x, q1, q2⟩ := r.pd; exact ⟨x, q1, Nat.le_trans q2 hi.wmMono⟩
  have hoth : ∃ w, wmOf (a.n.store.applyPrefix k ws) (wmKey (!d)) = some w ∧ w ≤ wm (!d) a' := by
    have hm : (a.n.store.applyPrefix k ws).getMeta (wmKey (!d)) = a.n.store.getMeta (wmKey (!d)) := by
      apply getMeta_prefix_other
      intro w hw k' v he
      obtain ⟨v', hv, _⟩ := hi.writes w hw
      rw [hv] at he
      injection he with h1 _
      rw [← h1]; cases d <;> decide
    rw [wmOf_congr_meta hm, hi.frame.otherWm]
    cases d with
    | false => exact r.pd
    | true => exact r.ph
  have hh : (a.n.store.applyPrefix k ws).height = a'.n.store.height := by rw [m1, hi.frame.height]
  have hb : ∀ j, (a.n.store.applyPrefix k ws).getBlock j = a'.n.store.getBlock j := by
    intro j; rw [m2, hi.frame.getBlock]
  obtain ⟨ac, h1, h2, h3⟩ := rp.crashOn (a.n.store.applyPrefix k ws)
    (Live.of_same rp.live hh hb rfl) (synced_of_same rp.synced (by show _ = a'.n.store.state; rw [m3, hi.frame.state]) rfl)
    hh (fun j _ => hb j)
    (by cases d with
        | false => exact hown
        | true => exact hoth)
    (by cases d with
        | false => exact hoth
        | true => exact hown)
    (by rw [hli, hi.frame.daInc]; exact r.pdw.2)
  exact ⟨ac, h1, h2, h3, hli⟩

/-! ### crash inside an inclusion pass -/

/-- the durable writes of an inclusion pass: `rhb/<h>/…` and `d ↦ h` for the heights `h` it advanced to -/
theorem incl_writes_mem (a : ANode) {w : SW} (hw : w ∈ (includerIter a).2) :
    (∃ h p v, w = SW.setMeta (rhbKey h p) v) ∨
    (∃ h, w = SW.setMeta daIncKey (le64 h) ∧ a.daInc < h ∧ h ≤ (includerIter a).1.daInc) := by
  have hi : PassInv a (includerIter a).1 (includerIter a).2 :=
    includerPass_inv (a.n.store.height + 1) a a [] (PassInv.init a)
  obtain ⟨rec, _, hws⟩ := hi.writes
  rw [hws] at hw
  obtain ⟨h, hh, hw⟩ := List.mem_flatMap.mp hw
  rw [List.mem_range'_1] at hh
  simp only [incWrites, List.mem_cons, List.mem_nil_iff, or_false] at hw
  rcases hw with rfl | rfl | rfl
  · exact Or.inl ⟨_, _, _, rfl⟩
  · exact Or.inl ⟨_, _, _, rfl⟩
  · exact Or.inr ⟨h, rfl, by omega, by have := hi.mono; omega⟩

/-- **a crash after any number of the durable writes of an inclusion pass** (three per height: the two recorded DA heights,
then `d`): the restart succeeds and yields a reachable node whose DA-included height is what the image holds under `d`
(raised to `initialHeight − 1`) — at most what the pass reported -/
theorem cut_incl {c : Cfg} {a : ANode} (r : R c a) (rp : R c (includerIter a).1) (k : Nat) :
    ∃ ac, Submit.restart c (includerIter a).1 (a.n.store.applyPrefix k (includerIter a).2) false = some ac ∧ R c ac ∧
      CutFacts c (includerIter a).1 ac (a.n.store.applyPrefix k (includerIter a).2) := by
  have hi : PassInv a (includerIter a).1 (includerIter a).2 :=
    includerPass_inv (a.n.store.height + 1) a a [] (PassInv.init a)
  have hmo : MetaOnly (includerIter a).2 := fun w hw => by
    rcases incl_writes_mem a hw with ⟨h, p, v, rfl⟩ | ⟨h, rfl, _⟩ <;> exact ⟨_, _, rfl⟩
  obtain ⟨m1, m2, m3⟩ := metaOnly_prefix hmo a.n.store k
  have hkey : ∀ key, key ≠ daIncKey → key.toList.head? ≠ some 'r' →
      (a.n.store.applyPrefix k (includerIter a).2).getMeta key = a.n.store.getMeta key := by
    intro key k1 k2
    apply getMeta_prefix_other
    intro w hw k' v he
    rcases incl_writes_mem a hw with ⟨h, p, v', rfl⟩ | ⟨h, rfl, _⟩ <;> injection he with h1 _ <;> rw [← h1]
    · exact rhbKey_ne k2 h p
    · exact Ne.symm k1
  have hmono := hi.mono
  have hinc : loadInc c (a.n.store.applyPrefix k (includerIter a).2) ≤ (includerIter a).1.daInc := by
    refine applyPrefix_pres (P := fun s => loadInc c s ≤ (includerIter a).1.daInc) ?_ (Nat.le_trans r.pdw.2 hmono) k
    intro s w hw q2
    rcases incl_writes_mem a hw with ⟨h, p, v, rfl⟩ | ⟨h, rfl, h1, h2⟩
    · have : (s.apply (SW.setMeta (rhbKey h p) v)).getMeta daIncKey = s.getMeta daIncKey := by
        have hne : ¬ rhbKey h p = daIncKey := rhbKey_ne (by decide) h p
        simp [Store.apply, Store.getMeta, hne]
      rw [loadInc_congr this]; exact q2
    · have hm : (s.apply (SW.setMeta daIncKey (le64 h))).getMeta daIncKey = some (le64 h) := by
        simp [Store.apply, Store.getMeta]
      have hlow : c.initialHeight - 1 ≤ h := by have := r.pdw.1; omega
      exact Nat.le_trans (loadInc_le64 hm hlow) h2
  have hh : (a.n.store.applyPrefix k (includerIter a).2).height = (includerIter a).1.n.store.height := by
    rw [m1]; exact hi.frame.height.symm
  have hb : ∀ j, (a.n.store.applyPrefix k (includerIter a).2).getBlock j = (includerIter a).1.n.store.getBlock j := by
    intro j; rw [m2, hi.frame.getBlock]
  refine rp.crashOn _ (Live.of_same rp.live hh hb rfl)
    (synced_of_same rp.synced (by show _ = (includerIter a).1.n.store.state; rw [m3]; exact hi.frame.state.symm) rfl)
    hh (fun j _ => hb j) ?_ ?_ hinc
  · rw [wmOf_congr_meta (hkey _ (by decide) (by decide))]
    obtain ⟨x, q1, q2⟩ := r.ph
    exact ⟨x, q1, by rw [show (includerIter a).1.n.hdrWm = a.n.hdrWm from hi.frame.hdrWm]; exact q2⟩
  · rw [wmOf_congr_meta (hkey _ (by decide) (by decide))]
    obtain ⟨x, q1, q2⟩ := r.pd
    exact ⟨x, q1, by rw [show (includerIter a).1.n.dataWm = a.n.dataWm from hi.frame.dataWm]; exact q2⟩

/-! ### crash inside a production step -/

theorem startTail_window (c : Cfg) (s : State) (d : Store) (hgt : s.lastHeight > d.height) (ws1 ws2 : List SW) :
    (startTail c s d ws1).map Prod.fst = (startTail c s (d.apply (.setHeight s.lastHeight)) ws2).map Prod.fst := by
  have h1 : d.applyAll (setHeightW d s.lastHeight) = d.apply (.setHeight s.lastHeight) := by
    simp [setHeightW, hgt, Store.applyAll]
  have hh : (d.apply (.setHeight s.lastHeight)).height = s.lastHeight := by simp [Store.apply, hgt]
  have h2 : (d.apply (.setHeight s.lastHeight)).applyAll (setHeightW (d.apply (.setHeight s.lastHeight)) s.lastHeight) =
      d.apply (.setHeight s.lastHeight) := by
    simp [setHeightW, hh, Store.applyAll]
  unfold startTail
  simp only [h1, h2]
  split <;> rfl

theorem restart_of_start_fst {c : Cfg} {d d' : Store} (h : (start c d).map Prod.fst = (start c d').map Prod.fst)
    (a : ANode) (clean : Bool) : restart c a d clean = restart c a d' clean := by
  unfold restart
  cases h1 : start c d with
  | error e1 =>
    cases h2 : start c d' with
    | error e2 => rfl
    | ok p2 => rw [h1, h2] at h; cases h
  | ok p1 =>
    cases h2 : start c d' with
    | error e2 => rw [h1, h2] at h; cases h
    | ok p2 =>
      rw [h1, h2] at h
      simp only [Except.map] at h
      obtain ⟨n1, w1⟩ := p1
      obtain ⟨n2, w2⟩ := p2
      have : n1 = n2 := by simpa using h
      subst this; rfl

/-- the window between `updateState` and `setHeight` of a committing step: a restart raises the chain height to the
state's height, which gives the node a restart on the completed image gives -/
theorem restart_window {c : Cfg} {d : Store} {s : State} (hs : d.state = some s) (hgt : s.lastHeight > d.height)
    (a : ANode) (clean : Bool) :
    restart c a d clean = restart c a (d.apply (.setHeight s.lastHeight)) clean := by
  apply restart_of_start_fst
  have hs' : (d.apply (.setHeight s.lastHeight)).state = some s := by rw [state_setHeight]; exact hs
  rw [start_eq, start_eq, hs, hs']
  simp only
  by_cases hg : c.initialHeight > s.lastHeight
  · simp [hg]
  · rw [if_neg hg, if_neg hg]
    exact startTail_window c s d hgt [] []

theorem harmless_meta {c : Cfg} {n : Node} {w : SW} (hw : Harmless c n w) {k' : String} {v : Bytes}
    (he : w = SW.setMeta k' v) : k' = lastBatchDataKey := by
  cases hw with
  | cursor v' => injection he with h1 _; exact h1.symm
  | pending b _ _ => cases he

/-- a crash inside the harmless part of a production step (batch cursor, early save, final save: before `updateState`) -/
theorem cut_harmless {c : Cfg} {a : ANode} (r : R c a) {l : List SW} (hl : ∀ w ∈ l, Harmless c a.n w) :
    ∃ ac, Submit.restart c a (a.n.store.applyAll l) false = some ac ∧ R c ac ∧ CutFacts c a ac (a.n.store.applyAll l) := by
  obtain ⟨f1, f2, f3, f4⟩ := harmless_applyAll r.live hl
  have hkey : ∀ key, key ≠ lastBatchDataKey → (a.n.store.applyAll l).getMeta key = a.n.store.getMeta key := by
    intro key hk
    apply getMeta_applyAll_other
    intro w hw k' v he
    rw [harmless_meta (hl w hw) he]; exact Ne.symm hk
  refine r.crashOn _ f1 ?_ f2 (fun k hk => f3 k (by omega)) ?_ ?_ ?_
  · exact synced_of_same (n := a.n) r.synced f4 rfl
  · rw [wmOf_congr_meta (hkey _ (by decide))]; exact r.ph
  · rw [wmOf_congr_meta (hkey _ (by decide))]; exact r.pd
  · rw [loadInc_congr (hkey _ (by decide))]; exact r.pdw.2

theorem CutFacts.congr {c : Cfg} {a b ac : ANode} {s s' : Store} (f : CutFacts c a ac s)
    (h3 : b.daBlobs = a.daBlobs) (h3' : b.daBytes = a.daBytes) (h4 : b.daH = a.daH)
    (h5 : b.finals = a.finals) (h6 : b.daInc = a.daInc) (h7 : s'.getMeta daIncKey = s.getMeta daIncKey) :
    CutFacts c b ac s' :=
  ⟨by rw [h3]; exact f.daBlobs, by rw [h3']; exact f.daBytes, by rw [h4]; exact f.daH,
   by rw [h5]; exact f.finals, f.hMarks, f.dMarks, by rw [loadInc_congr h7]; exact f.daInc, by rw [h6]; exact f.incLe,
   by rw [h7]; exact f.incMeta⟩

/-- **a crash after any number of the durable writes of a production step** — batch cursor, early save, final save,
`updateState`, `setHeight` —: the restart succeeds and yields a reachable node (in the window between `updateState` and
`setHeight` the restart completes the commit) -/
theorem cut_produce {c : Cfg} {a : ANode} (r : R c a) (rs : SeqResp) (e : ExecResp)
    (rp : R c { a with n := (publish c a.n rs e).1 }) (k : Nat) :
    ∃ ac, Submit.restart c { a with n := (publish c a.n rs e).1 } (a.n.store.applyPrefix k (publish c a.n rs e).2.1) false
        = some ac ∧ R c ac ∧
      CutFacts c { a with n := (publish c a.n rs e).1 } ac (a.n.store.applyPrefix k (publish c a.n rs e).2.1) := by
  obtain ⟨w1, w2⟩ := publish_wm c a.n rs e
  obtain ⟨pre, hpre, hsh⟩ := publish_shape r.live rs e
  -- a cut inside the harmless writes
  have hcase : ∀ j, ∃ ac, Submit.restart c { a with n := (publish c a.n rs e).1 } (a.n.store.applyAll (pre.take j)) false
      = some ac ∧ R c ac ∧ CutFacts c { a with n := (publish c a.n rs e).1 } ac (a.n.store.applyAll (pre.take j)) := by
    intro j
    obtain ⟨ac, q1, q2, q3⟩ := cut_harmless r (l := pre.take j) (fun w hw => hpre w (List.mem_of_mem_take hw))
    exact ⟨ac, q1, q2, q3.congr rfl rfl rfl rfl rfl rfl⟩
  unfold Store.applyPrefix
  rcases hsh with ⟨b1, b2, _, _⟩ | ⟨st', b1, b2, b3, b4, _⟩
  · rw [b1]; exact hcase k
  · rw [b2]
    by_cases hk : k ≤ pre.length
    · rw [List.take_append_of_le_length hk]; exact hcase k
    · obtain ⟨j, hj⟩ : ∃ j, k - pre.length = j + 1 := ⟨k - pre.length - 1, by omega⟩
      rw [List.take_append, List.take_of_length_le (by omega : pre.length ≤ k), hj]
      obtain ⟨ac, q1, q2, q3⟩ := rp.crashOwn
      have hpost : (publish c a.n rs e).1.store =
          a.n.store.applyAll (pre ++ [SW.updateState st', SW.setHeight (a.n.store.height + 1)]) := b3
      cases j with
      | succ j =>
        -- both writes of the commit are durable: the image is the node's store
        have : List.take (j + 1 + 1) (commitTail a.n.store.height st') =
            [SW.updateState st', SW.setHeight (a.n.store.height + 1)] := by simp [commitTail]
        rw [this, ← hpost]
        exact ⟨ac, q1, q2, q3⟩
      | zero =>
        -- the window: `updateState` is durable, `setHeight` is not
        have : List.take (0 + 1) (commitTail a.n.store.height st') = [SW.updateState st'] := by simp [commitTail]
        rw [this]
        obtain ⟨_, f2, _, _⟩ := harmless_applyAll r.live hpre
        have hd : a.n.store.applyAll (pre ++ [SW.updateState st']) = (a.n.store.applyAll pre).apply (.updateState st') := by
          simp [Store.applyAll]
        have hst : (a.n.store.applyAll (pre ++ [SW.updateState st'])).state = some st' := by rw [hd]; rfl
        have hht : (a.n.store.applyAll (pre ++ [SW.updateState st'])).height = a.n.store.height := by rw [hd]; exact f2
        have hnext : (a.n.store.applyAll (pre ++ [SW.updateState st'])).apply (.setHeight st'.lastHeight) =
            (publish c a.n rs e).1.store := by
          rw [hpost, b1]; simp [Store.applyAll]
        have hwin := restart_window (c := c) hst (by rw [hht, b1]; omega) { a with n := (publish c a.n rs e).1 } false
        rw [hnext] at hwin
        refine ⟨ac, by rw [hwin]; exact q1, q2, q3.congr rfl rfl rfl rfl rfl ?_⟩
        rw [← hnext]
        simp only [Store.apply]
        split <;> rfl

/-! ### histories with restarts and crashes at write granularity -/

/-- one action of the node with the durable writes it issued, in order -/
def stepAW (c : Cfg) (a : ANode) : Act → ANode × List SW
  | .produce r e => ({ a with n := (publish c a.n r e).1 }, (publish c a.n r e).2.1)
  | .subH s => ((headersIter a s).1, (headersIter a s).2.1)
  | .subD s => ((dataIter a s).1, (dataIter a s).2.1)
  | .incl => includerIter a

theorem stepAW_fst (c : Cfg) (a : ANode) (x : Act) : (stepAW c a x).1 = stepA c a x := by
  cases x <;> rfl

/-- a history state: the node, the durable image before its last action and the durable writes of that action (what a
crash can cut); after a (re)start the writes are taken as complete (a restart issues only idempotent writes) -/
structure CSt where
  a : ANode
  base : Store
  ws : List SW

/-- an action, a restart on the current image after a clean stop (`clean`) or a crash between two actions, or **a crash
after the first `k` durable writes of the last action** -/
inductive ActR
  | act (x : Act)
  | restart (clean : Bool)
  | crash (k : Nat)

def stepR (c : Cfg) (σ : CSt) : ActR → CSt
  | .act x => ⟨(stepAW c σ.a x).1, σ.a.n.store, (stepAW c σ.a x).2⟩
  | .restart clean =>
    match Submit.restart c σ.a σ.a.n.store clean with
    | some a' => ⟨a', σ.a.n.store, []⟩
    | none => σ
  | .crash k =>
    match Submit.restart c σ.a (σ.base.applyPrefix k σ.ws) false with
    | some a' => ⟨a', σ.base.applyPrefix k σ.ws, []⟩
    | none => σ

def runR (c : Cfg) (σ : CSt) (acts : List ActR) : CSt := acts.foldl (stepR c) σ

/-- the first start, on an empty disk -/
def freshC (c : Cfg) : CSt := ⟨freshA c, {}, []⟩

theorem runR_act (c : Cfg) (σ : CSt) (acts : List Act) : (runR c σ (acts.map .act)).a = runA c σ.a acts := by
  induction acts generalizing σ with
  | nil => rfl
  | cons x acts ih =>
    show (runR c (stepR c σ (.act x)) (acts.map .act)).a = runA c (stepA c σ.a x) acts
    rw [ih]; show runA c (stepAW c σ.a x).1 acts = _; rw [stepAW_fst]

theorem restart_congr_fields (c : Cfg) {a b : ANode} (d : Store) (h1 : b.finals = a.finals) (h2 : b.daH = a.daH)
    (h3 : b.daBlobs = a.daBlobs) (h4 : b.daBytes = a.daBytes) :
    Submit.restart c b d false = Submit.restart c a d false := by
  unfold Submit.restart
  cases start c d with
  | error e => rfl
  | ok p => simp [h1, h2, h3, h4]

/-- the invariant of histories: the node is reachable, and **every crash image of its last action restarts into a
reachable node** -/
structure CI (c : Cfg) (σ : CSt) : Prop where
  r : R c σ.a
  cuts : ∀ k, ∃ ac, Submit.restart c σ.a (σ.base.applyPrefix k σ.ws) false = some ac ∧ R c ac ∧
    CutFacts c σ.a ac (σ.base.applyPrefix k σ.ws)

theorem applyPrefix_nil (s : Store) (k : Nat) : s.applyPrefix k [] = s := by
  unfold Store.applyPrefix; simp [Store.applyAll]

theorem CI.ofOwn {c : Cfg} {a : ANode} (r : R c a) : CI c ⟨a, a.n.store, []⟩ :=
  ⟨r, fun k => by
    have hp : (⟨a, a.n.store, []⟩ : CSt).base.applyPrefix k (⟨a, a.n.store, []⟩ : CSt).ws = a.n.store := applyPrefix_nil _ _
    rw [hp]; exact r.crashOwn⟩

theorem CI_fresh (c : Cfg) (h1 : 1 ≤ c.initialHeight) : CI c (freshC c) := by
  refine ⟨R_fresh c h1, fun k => ?_⟩
  have hp : (freshC c).base.applyPrefix k (freshC c).ws = {} := applyPrefix_nil _ _
  rw [hp]
  have he : Submit.restart c (freshA c) {} false = some (freshA c) := restart_empty c false
  obtain ⟨_, _, hkv, _⟩ := freshDisk_facts c
  refine ⟨freshA c, he, R_fresh c h1, ⟨rfl, rfl, rfl, rfl, rfl, rfl, ?_, Nat.le_refl _, ?_⟩⟩
  · show c.initialHeight - 1 = loadInc c {}
    rw [loadInc_none rfl]
  · show (freshNode c).store.getMeta daIncKey = none
    exact hkv _ (by decide) (by decide)

theorem CI.step {c : Cfg} {σ : CSt} (ci : CI c σ) (x : ActR) : CI c (stepR c σ x) := by
  cases x with
  | act x =>
    have rp : R c (stepAW c σ.a x).1 := by rw [stepAW_fst]; exact ci.r.step x
    refine ⟨rp, fun k => ?_⟩
    cases x with
    | produce rs e => exact cut_produce ci.r rs e rp k
    | subH s =>
      obtain ⟨_, hi, _⟩ := headersIter_iter σ.a s
      obtain ⟨ac, q1, q2, q3, _⟩ := cut_iter ci.r rp hi k
      exact ⟨ac, q1, q2, q3⟩
    | subD s =>
      obtain ⟨_, hi, _⟩ := dataIter_iter σ.a s
      obtain ⟨ac, q1, q2, q3, _⟩ := cut_iter ci.r rp hi k
      exact ⟨ac, q1, q2, q3⟩
    | incl => exact cut_incl ci.r rp k
  | restart clean =>
    obtain ⟨a', h, r', f⟩ := ci.r.restart clean
    show CI c (match Submit.restart c σ.a σ.a.n.store clean with
      | some a' => ⟨a', σ.a.n.store, []⟩
      | none => σ)
    rw [h]
    refine ⟨r', fun k => ?_⟩
    have hp : (⟨a', σ.a.n.store, []⟩ : CSt).base.applyPrefix k (⟨a', σ.a.n.store, []⟩ : CSt).ws = σ.a.n.store :=
      applyPrefix_nil _ _
    rw [hp]
    show ∃ ac, Submit.restart c a' σ.a.n.store false = some ac ∧ R c ac ∧ CutFacts c a' ac σ.a.n.store
    rw [restart_congr_fields c _ f.finals f.daH f.daBlobs f.daBytes]
    obtain ⟨ac, q1, q2, q3⟩ := ci.r.crashOwn
    exact ⟨ac, q1, q2, ⟨by rw [q3.daBlobs, f.daBlobs], by rw [q3.daBytes, f.daBytes], by rw [q3.daH, f.daH], by rw [q3.finals, f.finals], q3.hMarks,
      q3.dMarks, q3.daInc, by rw [q3.daInc, f.daInc]; exact Nat.le_refl _, q3.incMeta⟩⟩
  | crash k =>
    obtain ⟨ac, h, r', f⟩ := ci.cuts k
    show CI c (match Submit.restart c σ.a (σ.base.applyPrefix k σ.ws) false with
      | some a' => ⟨a', σ.base.applyPrefix k σ.ws, []⟩
      | none => σ)
    rw [h]
    refine ⟨r', fun j => ?_⟩
    have hp : (⟨ac, σ.base.applyPrefix k σ.ws, []⟩ : CSt).base.applyPrefix j (⟨ac, σ.base.applyPrefix k σ.ws, []⟩ : CSt).ws =
        σ.base.applyPrefix k σ.ws := applyPrefix_nil _ _
    rw [hp]
    show ∃ ac', Submit.restart c ac (σ.base.applyPrefix k σ.ws) false = some ac' ∧ R c ac' ∧
      CutFacts c ac ac' (σ.base.applyPrefix k σ.ws)
    rw [restart_congr_fields c _ f.finals f.daH f.daBlobs f.daBytes]
    exact ⟨ac, h, r', ⟨rfl, rfl, rfl, rfl, f.hMarks, f.dMarks, f.daInc, Nat.le_refl _, f.incMeta⟩⟩

/-- **every history** — actions, clean restarts, crashes between two actions, crashes after any number of the durable
writes of the last action (also repeatedly): no restart ever fails and the node is reachable (`R`) -/
theorem CI.run {c : Cfg} {σ : CSt} (ci : CI c σ) (acts : List ActR) : CI c (runR c σ acts) := by
  induction acts generalizing σ with
  | nil => exact ci
  | cons x acts ih => exact ih (ci.step x)

/-! ### the durable DA-included height, exactly (chain heights below 2^64) -/

/-- the image holds nothing under `d`, or `le64 v` for a height `v` in `[initialHeight − 1, B]` -/
def DForm (c : Cfg) (B : Nat) (s : Store) : Prop :=
  s.getMeta daIncKey = none ∨ ∃ v, s.getMeta daIncKey = some (le64 v) ∧ c.initialHeight - 1 ≤ v ∧ v ≤ B

theorem DForm.mono {c : Cfg} {B B' : Nat} {s : Store} (h : DForm c B s) (hB : B ≤ B') : DForm c B' s := by
  rcases h with h | ⟨v, h1, h2, h3⟩
  · exact Or.inl h
  · exact Or.inr ⟨v, h1, h2, by omega⟩

theorem PDI.dform {c : Cfg} {a : ANode} (p : PDI c a) : DForm c a.daInc a.n.store := by
  rcases p.2 with h | ⟨h, _⟩
  · exact Or.inr ⟨_, h, p.1, Nat.le_refl _⟩
  · exact Or.inl h

theorem PDI.loadInc {c : Cfg} {a : ANode} (p : PDI c a) (hb : a.daInc < 2 ^ 64) : loadInc c a.n.store = a.daInc := by
  rcases p.2 with h | ⟨h, h'⟩
  · exact loadInc_some h hb p.1
  · rw [loadInc_none h, h']

/-- a node whose `d` and DA-included height were loaded from such an image -/
theorem DForm.pdi {c : Cfg} {B : Nat} {s : Store} {a : ANode} (h : DForm c B s) (hb : B < 2 ^ 64)
    (hm : a.n.store.getMeta daIncKey = s.getMeta daIncKey) (hd : a.daInc = Submit.loadInc c s) :
    PDI c a ∧ DForm c a.daInc s := by
  rcases h with h | ⟨v, h1, h2, h3⟩
  · have : a.daInc = c.initialHeight - 1 := by rw [hd, loadInc_none h]
    exact ⟨⟨by omega, Or.inr ⟨by rw [hm]; exact h, this⟩⟩, Or.inl h⟩
  · have : a.daInc = v := by rw [hd, loadInc_some h1 (by omega) h2]
    exact ⟨⟨by omega, Or.inl (by rw [hm, this]; exact h1)⟩, Or.inr ⟨v, h1, h2, by omega⟩⟩

/-- a durable write that leaves `d` alone, or writes a height in `(lo, B]` under it -/
def DOk (lo B : Nat) (w : SW) : Prop :=
  (∀ k v, w = SW.setMeta k v → k ≠ daIncKey) ∨ ∃ h, w = SW.setMeta daIncKey (le64 h) ∧ lo < h ∧ h ≤ B

theorem getMeta_apply_other (s : Store) (w : SW) (key : String) (h : ∀ k v, w = SW.setMeta k v → k ≠ key) :
    (s.apply w).getMeta key = s.getMeta key := by
  have := getMeta_applyAll_other s [w] key (fun w' hw' k v he => by
    have : w' = w := by simpa using hw'
    subst this; exact h k v he)
  simpa [Store.applyAll] using this

theorem dform_prefix {c : Cfg} {lo B : Nat} {l : List SW} (hl : ∀ w ∈ l, DOk lo B w) (hlo : c.initialHeight - 1 ≤ lo)
    {s : Store} (h0 : DForm c B s) (k : Nat) : DForm c B (s.applyPrefix k l) := by
  refine applyPrefix_pres (P := DForm c B) ?_ h0 k
  intro s' w hw hs'
  rcases hl w hw with h | ⟨h, rfl, h1, h2⟩
  · unfold DForm; rw [getMeta_apply_other s' w _ h]; exact hs'
  · exact Or.inr ⟨h, by simp [Store.apply, Store.getMeta], by omega, h2⟩

/-- … and what a restart would report only grows, write by write -/
theorem loadInc_prefix_ge {c : Cfg} {lo B : Nat} {l : List SW} (hl : ∀ w ∈ l, DOk lo B w) (hlo : c.initialHeight - 1 ≤ lo)
    (hb : B < 2 ^ 64) {s : Store} (h0 : lo ≤ Submit.loadInc c s) (k : Nat) : lo ≤ Submit.loadInc c (s.applyPrefix k l) := by
  refine applyPrefix_pres (P := fun s' => lo ≤ Submit.loadInc c s') ?_ h0 k
  intro s' w hw hs'
  rcases hl w hw with h | ⟨h, rfl, h1, h2⟩
  · rw [loadInc_congr (getMeta_apply_other s' w _ h)]; exact hs'
  · rw [loadInc_some (v := h) (by simp [Store.apply, Store.getMeta]) (by omega) (by omega)]; omega

/-- the durable writes of every action leave `d` alone or write a height above the node's DA-included height and at most
the one it reports afterwards -/
theorem stepAW_dok {c : Cfg} {a : ANode} (hl : Live c a.n) (x : Act) :
    ∀ w ∈ (stepAW c a x).2, DOk a.daInc (stepAW c a x).1.daInc w := by
  cases x with
  | produce rs e =>
    intro w hw
    left
    intro k v he
    obtain ⟨pre, hpre, hsh⟩ := publish_shape hl rs e
    have hw' : w ∈ (publish c a.n rs e).2.1 := hw
    have hmem : w ∈ pre ∨ w ∈ commitTail a.n.store.height (publish c a.n rs e).1.lastState ∨ True := Or.inr (Or.inr trivial)
    rcases hsh with ⟨b1, _⟩ | ⟨st', _, b2, _⟩
    · rw [b1] at hw'
      rw [harmless_meta (hpre w hw') he]; decide
    · rw [b2] at hw'
      rcases List.mem_append.mp hw' with h | h
      · rw [harmless_meta (hpre w h) he]; decide
      · simp only [commitTail, List.mem_cons, List.mem_nil_iff, or_false] at h
        rcases h with rfl | rfl <;> cases he
  | subH s =>
    intro w hw
    obtain ⟨_, hi, _⟩ := headersIter_iter a s
    obtain ⟨v, hv, _⟩ := hi.writes w hw
    exact Or.inl (fun k v' he => by rw [hv] at he; injection he with h1 _; rw [← h1]; decide)
  | subD s =>
    intro w hw
    obtain ⟨_, hi, _⟩ := dataIter_iter a s
    obtain ⟨v, hv, _⟩ := hi.writes w hw
    exact Or.inl (fun k v' he => by rw [hv] at he; injection he with h1 _; rw [← h1]; decide)
  | incl =>
    intro w hw
    rcases incl_writes_mem a hw with ⟨h, p, v, rfl⟩ | ⟨h, rfl, h1, h2⟩
    · exact Or.inl (fun k v' he => by injection he with h1 _; rw [← h1]; exact rhbKey_ne (by decide) h p)
    · exact Or.inr ⟨h, rfl, h1, h2⟩

/-- the strong invariant of histories: `CI`, the persisted DA-included height is the one in memory, and every crash image
of the last action holds a well-formed `d` -/
structure CS (c : Cfg) (σ : CSt) : Prop extends CI c σ where
  pdi : PDI c σ.a
  form : ∀ k, DForm c σ.a.daInc (σ.base.applyPrefix k σ.ws)

theorem CS_fresh (c : Cfg) (h1 : 1 ≤ c.initialHeight) : CS c (freshC c) :=
  { CI_fresh c h1 with
    pdi := PDI_fresh c
    form := fun k => by
      have hp : (freshC c).base.applyPrefix k (freshC c).ws = {} := applyPrefix_nil _ _
      rw [hp]; exact Or.inl rfl }

/-- one step of a history whose DA-included height is below 2^64 (it is at most the chain height, a `uint64`) -/
theorem CS.step {c : Cfg} {σ : CSt} (cs : CS c σ) (hb : σ.a.daInc < 2 ^ 64) (x : ActR) : CS c (stepR c σ x) := by
  have ci' := cs.toCI.step x
  cases x with
  | act x =>
    have hp : PDI c (stepAW c σ.a x).1 := by rw [stepAW_fst]; exact cs.pdi.step cs.r x
    refine { ci' with pdi := hp, form := fun k => ?_ }
    have hmono : σ.a.daInc ≤ (stepAW c σ.a x).1.daInc := by rw [stepAW_fst]; exact stepA_mono c σ.a x
    exact dform_prefix (stepAW_dok cs.r.live x) cs.pdi.1 (cs.pdi.dform.mono hmono) k
  | restart clean =>
    obtain ⟨a', h, r', f⟩ := cs.r.restart clean
    obtain ⟨e, p'⟩ := cs.pdi.restart h hb
    have hst : stepR c σ (.restart clean) = ⟨a', σ.a.n.store, []⟩ := by
      show (match Submit.restart c σ.a σ.a.n.store clean with
        | some a' => (⟨a', σ.a.n.store, []⟩ : CSt)
        | none => σ) = _
      rw [h]
    rw [hst] at ci' ⊢
    refine { ci' with pdi := p', form := fun k => ?_ }
    have hp : (⟨a', σ.a.n.store, []⟩ : CSt).base.applyPrefix k (⟨a', σ.a.n.store, []⟩ : CSt).ws = σ.a.n.store :=
      applyPrefix_nil _ _
    rw [hp]
    show DForm c a'.daInc σ.a.n.store
    rw [e]; exact cs.pdi.dform
  | crash k =>
    obtain ⟨ac, h, r', f⟩ := cs.cuts k
    have hst : stepR c σ (.crash k) = ⟨ac, σ.base.applyPrefix k σ.ws, []⟩ := by
      show (match Submit.restart c σ.a (σ.base.applyPrefix k σ.ws) false with
        | some a' => (⟨a', σ.base.applyPrefix k σ.ws, []⟩ : CSt)
        | none => σ) = _
      rw [h]
    rw [hst] at ci' ⊢
    obtain ⟨p', fm⟩ := (cs.form k).pdi hb f.incMeta f.daInc
    refine { ci' with pdi := p', form := fun j => ?_ }
    have hp : (⟨ac, σ.base.applyPrefix k σ.ws, []⟩ : CSt).base.applyPrefix j (⟨ac, σ.base.applyPrefix k σ.ws, []⟩ : CSt).ws =
        σ.base.applyPrefix k σ.ws := applyPrefix_nil _ _
    rw [hp]; exact fm

/-- **never decreases, step by step**: an action never lowers the DA-included height; a restart (clean, or after a crash
between two actions) reports exactly the same height; a crash after `k` durable writes of the last action reports what
the image holds — at most what the node reported -/
theorem CS.mono_step {c : Cfg} {σ : CSt} (cs : CS c σ) (hb : σ.a.daInc < 2 ^ 64) :
    (∀ x, σ.a.daInc ≤ (stepR c σ (.act x)).a.daInc) ∧
    (∀ clean, (stepR c σ (.restart clean)).a.daInc = σ.a.daInc) ∧
    (∀ k, (stepR c σ (.crash k)).a.daInc = Submit.loadInc c (σ.base.applyPrefix k σ.ws) ∧
      (stepR c σ (.crash k)).a.daInc ≤ σ.a.daInc) := by
  refine ⟨fun x => ?_, fun clean => ?_, fun k => ?_⟩
  · show σ.a.daInc ≤ (stepAW c σ.a x).1.daInc
    rw [stepAW_fst]; exact stepA_mono c σ.a x
  · obtain ⟨a', h, _, _⟩ := cs.r.restart clean
    obtain ⟨e, _⟩ := cs.pdi.restart h hb
    show (match Submit.restart c σ.a σ.a.n.store clean with
      | some a' => (⟨a', σ.a.n.store, []⟩ : CSt)
      | none => σ).a.daInc = _
    rw [h]; exact e
  · obtain ⟨ac, h, _, f⟩ := cs.cuts k
    show (match Submit.restart c σ.a (σ.base.applyPrefix k σ.ws) false with
      | some a' => (⟨a', σ.base.applyPrefix k σ.ws, []⟩ : CSt)
      | none => σ).a.daInc = _ ∧ (match Submit.restart c σ.a (σ.base.applyPrefix k σ.ws) false with
      | some a' => (⟨a', σ.base.applyPrefix k σ.ws, []⟩ : CSt)
      | none => σ).a.daInc ≤ _
    rw [h]; exact ⟨f.daInc, f.incLe⟩

/-- **a crash inside an action**: the node restarted on the image cut after `k` durable writes of the action reports a
DA-included height between the one before the action and the one the action reported — never less than before -/
theorem CS.crash_inside {c : Cfg} {σ : CSt} (cs : CS c σ) (x : Act) (k : Nat) (hb : (stepA c σ.a x).daInc < 2 ^ 64) :
    σ.a.daInc ≤ (stepR c (stepR c σ (.act x)) (.crash k)).a.daInc ∧
    (stepR c (stepR c σ (.act x)) (.crash k)).a.daInc ≤ (stepA c σ.a x).daInc ∧
    (stepR c (stepR c σ (.act x)) (.crash k)).a.daInc = Submit.loadInc c (σ.a.n.store.applyPrefix k (stepAW c σ.a x).2) := by
  have hmono := stepA_mono c σ.a x
  have hb0 : σ.a.daInc < 2 ^ 64 := by omega
  have cs1 := cs.step hb0 (.act x)
  have hb1 : (stepR c σ (.act x)).a.daInc < 2 ^ 64 := by
    show (stepAW c σ.a x).1.daInc < _; rw [stepAW_fst]; exact hb
  obtain ⟨e, hle⟩ := (cs1.mono_step hb1).2.2 k
  have hle' : (stepR c (stepR c σ (.act x)) (.crash k)).a.daInc ≤ (stepA c σ.a x).daInc := by
    have : (stepR c σ (.act x)).a.daInc = (stepA c σ.a x).daInc := by
      show (stepAW c σ.a x).1.daInc = _; rw [stepAW_fst]
    rw [← this]; exact hle
  refine ⟨?_, hle', e⟩
  rw [e]
  show σ.a.daInc ≤ Submit.loadInc c (σ.a.n.store.applyPrefix k (stepAW c σ.a x).2)
  refine loadInc_prefix_ge (B := (stepAW c σ.a x).1.daInc) (stepAW_dok cs.r.live x) cs.pdi.1 ?_ ?_ k
  · rw [stepAW_fst]; exact hb
  · rw [cs.pdi.loadInc hb0]; exact Nat.le_refl _

/-! ### the inclusion pass at write granularity: reported only after durable -/

theorem includerPass_fuel_daInc : ∀ (j f : Nat) (a : ANode) (ws : List SW), j ≤ f →
    (includerPass j a ws).1.daInc = min (a.daInc + j) (includerPass f a ws).1.daInc := by
  intro j
  induction j with
  | zero =>
    intro f a ws _
    have := includerPass_mono f a ws
    rw [includerPass_zero]; show a.daInc = _; omega
  | succ j ih =>
    intro f a ws hjf
    obtain ⟨f', rfl⟩ : ∃ f', f = f' + 1 := ⟨f - 1, by omega⟩
    rw [includerPass_succ, includerPass_succ]
    cases h : incNext a with
    | none => show a.daInc = min (a.daInc + (j + 1)) a.daInc; omega
    | some p =>
      obtain ⟨a', w⟩ := p
      obtain ⟨_, hd, dd, _, rfl, _⟩ := incNext_some h
      have := ih f' (advance a (a.daInc + 1) hd dd) (ws ++ w) (by omega)
      simp only
      rw [this]
      show min (a.daInc + 1 + j) _ = min (a.daInc + (j + 1)) _
      rw [Nat.add_assoc, Nat.add_comm 1 j]

theorem tri (c : Cfg) (rec : Nat → Nat × Nat) : ∀ (m p k : Nat) (s : Store), c.initialHeight - 1 ≤ p → p + m < 2 ^ 64 →
    Submit.loadInc c s = p →
    Submit.loadInc c (s.applyPrefix k ((List.range' (p + 1) m).flatMap fun h => incWrites h (rec h).1 (rec h).2)) =
      p + min (k / 3) m := by
  intro m
  induction m with
  | zero => intro p k s _ _ hs; simp [applyPrefix_nil, hs]
  | succ m ih =>
    intro p k s hlo hb hs
    rw [List.range'_succ]
    simp only [List.flatMap_cons]
    rw [show incWrites (p + 1) (rec (p + 1)).1 (rec (p + 1)).2 =
      [SW.setMeta (rhbKey (p + 1) "h") (le64 (rec (p + 1)).1), SW.setMeta (rhbKey (p + 1) "d") (le64 (rec (p + 1)).2),
       SW.setMeta daIncKey (le64 (p + 1))] from rfl]
    have hr : ∀ (s' : Store) (q : String) (v : Bytes),
        Submit.loadInc c (s'.apply (SW.setMeta (rhbKey (p + 1) q) v)) = Submit.loadInc c s' := by
      intro s' q v
      apply loadInc_congr
      have hne : ¬ rhbKey (p + 1) q = daIncKey := rhbKey_ne (by decide) _ _
      simp [Store.apply, Store.getMeta, hne]
    unfold Store.applyPrefix
    match k with
    | 0 => simp [Store.applyAll, hs]
    | 1 =>
      simp only [List.cons_append, List.take_succ_cons, List.take_zero, Store.applyAll, List.foldl]
      rw [hr, hs]; simp
    | 2 =>
      simp only [List.cons_append, List.take_succ_cons, List.take_zero, Store.applyAll, List.foldl]
      rw [hr, hr, hs]; simp
    | j + 3 =>
      simp only [List.cons_append, List.take_succ_cons, List.nil_append]
      have h3 : Submit.loadInc c (((s.apply (SW.setMeta (rhbKey (p + 1) "h") (le64 (rec (p + 1)).1))).apply
          (SW.setMeta (rhbKey (p + 1) "d") (le64 (rec (p + 1)).2))).apply (SW.setMeta daIncKey (le64 (p + 1)))) = p + 1 :=
        loadInc_some (v := p + 1) (by simp [Store.apply, Store.getMeta]) (by omega) (by omega)
      have := ih (p + 1) j _ (by omega) (by omega) h3
      unfold Store.applyPrefix at this
      show Submit.loadInc c ((((s.apply _).apply _).apply _).applyAll _) = _
      rw [this]
      omega

/-- **reported only after durable, at write granularity.**  An inclusion pass issues, per height, the writes `rhb/<h>/h`,
`rhb/<h>/d`, `d ↦ h` and changes the value it reports only after them (`includerPass` with fuel `j` is the pass stopped
after `j` advances).  If the process dies after `k` durable writes of the pass, the restarted node reports **exactly the
height the pass reported at that instant** — the pass stopped after `k / 3` advances —: never a height whose `d` write was
not durable, never less than what had been reported. -/
theorem incl_cut_exact {c : Cfg} {a : ANode} (p : PDI c a) (hle : a.daInc ≤ a.n.store.height)
    (hb : (includerIter a).1.daInc < 2 ^ 64) (k : Nat) (hk : k ≤ (includerIter a).2.length) :
    Submit.loadInc c (a.n.store.applyPrefix k (includerIter a).2) = (includerPass (k / 3) a []).1.daInc := by
  have hi : PassInv a (includerIter a).1 (includerIter a).2 :=
    includerPass_inv (a.n.store.height + 1) a a [] (PassInv.init a)
  obtain ⟨rec, _, hws⟩ := hi.writes
  have hmono := hi.mono
  have hq := hi.le hle
  have hht : (includerIter a).1.n.store.height = a.n.store.height := hi.frame.height
  have hlen : (includerIter a).2.length = 3 * ((includerIter a).1.daInc - a.daInc) := by
    rw [hws]
    generalize (includerIter a).1.daInc - a.daInc = m
    generalize a.daInc + 1 = s
    induction m generalizing s with
    | zero => simp
    | succ m ih => rw [List.range'_succ, List.flatMap_cons, List.length_append, ih]; simp [incWrites]; omega
  have h1 := tri c rec ((includerIter a).1.daInc - a.daInc) a.daInc k a.n.store p.1 (by omega)
    (p.loadInc (by omega))
  rw [← hws] at h1
  rw [h1]
  have h2 := includerPass_fuel_daInc (k / 3) (a.n.store.height + 1) a [] (by omega)
  rw [h2]
  show _ = min (a.daInc + k / 3) (includerIter a).1.daInc
  omega
/-- along the history the DA-included height stays below 2^64 (it is at most the chain height, a `uint64` in the code) -/
def Bounded (c : Cfg) (σ : CSt) (acts : List ActR) : Prop := ∀ n, (runR c σ (acts.take n)).a.daInc < 2 ^ 64

theorem CS.run {c : Cfg} {σ : CSt} (cs : CS c σ) (acts : List ActR) (hb : Bounded c σ acts) : CS c (runR c σ acts) := by
  induction acts generalizing σ with
  | nil => exact cs
  | cons x acts ih =>
    have h0 : σ.a.daInc < 2 ^ 64 := hb 0
    exact ih (cs.step h0 x) (fun n => hb (n + 1))

end Submit
