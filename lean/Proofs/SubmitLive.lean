import Proofs.SubmitCrash

/-! End-to-end "eventually" (C07): in histories without a crash (clean restarts allowed) every height at or below a
watermark has its mark, so once the DA layer accepts, four ticks bring the DA-included height to the chain height. -/
namespace Submit
open Wire Chain Producer

theorem markOf_isSome_of_mem {m : List (Bytes × Nat)} {k : Bytes} {v : Nat} (h : (k, v) ∈ m) : (markOf m k).isSome := by
  unfold markOf
  cases hf : m.find? (fun x => decide (x.1 = k)) with
  | none =>
    have := List.find?_eq_none.mp hf (k, v) h
    simp at this
  | some e => simp

theorem markOf_isSome_append {m nm : List (Bytes × Nat)} {k : Bytes} (h : (markOf m k).isSome) :
    (markOf (nm ++ m) k).isSome := by
  cases hm : markOf m k with
  | none => rw [hm] at h; cases h
  | some v => exact markOf_isSome_of_mem (List.mem_append_right _ (mem_of_markOf hm))

theorem daCommitment_of_empty {d : Data} (h : d.txs = []) : d.daCommitment = emptyDataHash := by
  have := daCommitment_txs d.txs d.metadata
  rw [h] at this
  cases d
  simp only at h this
  subst h
  exact this

/-- if every height in `(daInc, h]` is stored (within the chain height) with its header hash marked and its data commitment
empty or marked, one iteration of the inclusion loop ends with `daInc ≥ h` -/
theorem includerIter_eventually (a : ANode) (h : Nat)
    (hr : ∀ k, a.daInc < k → k ≤ h → k ≤ a.n.store.height ∧ ∃ b, a.n.store.getBlock k = some b ∧
      (markOf a.hMarks b.sh.hdr.hash).isSome ∧
      (b.data.daCommitment = emptyDataHash ∨ (markOf a.dMarks b.data.daCommitment).isSome)) :
    h ≤ (includerIter a).1.daInc := by
  by_cases hle : h ≤ a.daInc
  · exact Nat.le_trans hle (includerPass_mono _ a [])
  · have hh : h ≤ a.n.store.height := (hr h (by omega) (Nat.le_refl _)).1
    apply includerPass_reaches
    · intro k k1 k2
      obtain ⟨r1, b, r2, r3, r4⟩ := hr k k1 k2
      exact ready_of_marked r1 r2 r3 r4
    · omega

/-- **the marks are complete**: every committed height at or below the header watermark has its header hash marked, every
committed height at or below the data watermark is empty or has its data commitment marked (the marks live in memory and
in the cache files written by a clean stop: a crash loses them — finding `C07/eventually/marks-lost-in-crash-restart`) -/
structure MK (c : Cfg) (a : ANode) : Prop where
  hdr : ∀ h, c.initialHeight ≤ h → h ≤ a.n.hdrWm → ∃ b, a.n.store.getBlock h = some b ∧
    (markOf a.hMarks b.sh.hdr.hash).isSome
  data : ∀ h, c.initialHeight ≤ h → h ≤ a.n.dataWm → ∃ b, a.n.store.getBlock h = some b ∧
    (b.data.txs = [] ∨ (markOf a.dMarks b.data.daCommitment).isSome)

theorem MK_fresh (c : Cfg) (h1 : 1 ≤ c.initialHeight) : MK c (freshA c) := by
  have w := W_fresh c h1
  obtain ⟨hh, _, _, _⟩ := freshDisk_facts c
  have hht : (freshNode c).store.height = c.initialHeight - 1 := hh
  refine ⟨fun h ha hb => ?_, fun h ha hb => ?_⟩
  · have q1 : h ≤ (freshNode c).hdrWm := hb
    have q2 : (freshNode c).hdrWm ≤ (freshNode c).store.height := w.le
    omega
  · have q1 : h ≤ (freshNode c).dataWm := hb
    have q2 : (freshNode c).dataWm ≤ (freshNode c).store.height := w.dle
    omega

theorem MK.step {c : Cfg} {a : ANode} (r : R c a) (m : MK c a) (act : Act) : MK c (stepA c a act) := by
  cases act with
  | produce rs e =>
    have hs := publish_store r.pinv rs e
    obtain ⟨w1, w2⟩ := publish_wm c a.n rs e
    refine ⟨fun h ha hb => ?_, fun h ha hb => ?_⟩
    · have hb' : h ≤ a.n.hdrWm := by rw [← w1]; exact hb
      show ∃ b, (publish c a.n rs e).1.store.getBlock h = some b ∧ _
      rw [hs.2 h (Nat.le_trans hb' r.le)]; exact m.hdr h ha hb'
    · have hb' : h ≤ a.n.dataWm := by rw [← w2]; exact hb
      show ∃ b, (publish c a.n rs e).1.store.getBlock h = some b ∧ _
      rw [hs.2 h (Nat.le_trans hb' r.dle)]; exact m.data h ha hb'
  | subH s =>
    obtain ⟨items, hi, _⟩ := headersIter_iter a s
    obtain ⟨nm, hnm, _⟩ := hi.marksNew
    have hnm' : (headersIter a s).1.hMarks = nm ++ a.hMarks := hnm
    have hdm : (headersIter a s).1.dMarks = a.dMarks := hi.frame.otherMarks
    have hdw : (headersIter a s).1.n.dataWm = a.n.dataWm := hi.frame.otherWm
    have hok := hdrOK_of_inv r.pinv r.low
    refine ⟨fun h ha hb => ?_, fun h ha hb => ?_⟩
    · show ∃ b, (headersIter a s).1.n.store.getBlock h = some b ∧ (markOf (headersIter a s).1.hMarks b.sh.hdr.hash).isSome
      rw [hi.frame.getBlock]
      by_cases hold : h ≤ a.n.hdrWm
      · obtain ⟨b, r1, r2⟩ := m.hdr h ha hold
        exact ⟨b, r1, by rw [hnm']; exact markOf_isSome_append r2⟩
      · obtain ⟨b, dh, r1, _, _, _, _, r6⟩ := headersIter_sound a s hok h (by omega) hb
        exact ⟨b, r1, markOf_isSome_of_mem r6⟩
    · show ∃ b, (headersIter a s).1.n.store.getBlock h = some b ∧
        (b.data.txs = [] ∨ (markOf (headersIter a s).1.dMarks b.data.daCommitment).isSome)
      rw [hi.frame.getBlock, hdm]
      exact m.data h ha (by rw [← hdw]; exact hb)
  | subD s =>
    obtain ⟨items, hi, _⟩ := dataIter_iter a s
    obtain ⟨nm, hnm, _⟩ := hi.marksNew
    have hnm' : (dataIter a s).1.dMarks = nm ++ a.dMarks := hnm
    have hhm : (dataIter a s).1.hMarks = a.hMarks := hi.frame.otherMarks
    have hhw : (dataIter a s).1.n.hdrWm = a.n.hdrWm := hi.frame.otherWm
    have hok := r.toD.dataOK r.dlow
    refine ⟨fun h ha hb => ?_, fun h ha hb => ?_⟩
    · show ∃ b, (dataIter a s).1.n.store.getBlock h = some b ∧ (markOf (dataIter a s).1.hMarks b.sh.hdr.hash).isSome
      rw [hi.frame.getBlock, hhm]
      exact m.hdr h ha (by rw [← hhw]; exact hb)
    · show ∃ b, (dataIter a s).1.n.store.getBlock h = some b ∧
        (b.data.txs = [] ∨ (markOf (dataIter a s).1.dMarks b.data.daCommitment).isSome)
      rw [hi.frame.getBlock]
      by_cases hold : h ≤ a.n.dataWm
      · obtain ⟨b, r1, r2⟩ := m.data h ha hold
        refine ⟨b, r1, ?_⟩
        rcases r2 with r2 | r2
        · exact Or.inl r2
        · exact Or.inr (by rw [hnm']; exact markOf_isSome_append r2)
      · obtain ⟨b, r1, _, r3⟩ := dataIter_sound a s hok r.dle h (by omega) hb
        refine ⟨b, r1, ?_⟩
        rcases r3 with r3 | ⟨dh, _, _, _, r4⟩
        · exact Or.inl r3
        · exact Or.inr (markOf_isSome_of_mem r4)
  | incl =>
    have hi : PassInv a (includerIter a).1 (includerIter a).2 :=
      includerPass_inv (a.n.store.height + 1) a a [] (PassInv.init a)
    refine ⟨fun h ha hb => ?_, fun h ha hb => ?_⟩
    · show ∃ b, (includerIter a).1.n.store.getBlock h = some b ∧ (markOf (includerIter a).1.hMarks b.sh.hdr.hash).isSome
      rw [hi.frame.getBlock, show (includerIter a).1.hMarks = a.hMarks from hi.frame.hMarks]
      exact m.hdr h ha (by rw [← show (includerIter a).1.n.hdrWm = a.n.hdrWm from hi.frame.hdrWm]; exact hb)
    · show ∃ b, (includerIter a).1.n.store.getBlock h = some b ∧
        (b.data.txs = [] ∨ (markOf (includerIter a).1.dMarks b.data.daCommitment).isSome)
      rw [hi.frame.getBlock, show (includerIter a).1.dMarks = a.dMarks from hi.frame.dMarks]
      exact m.data h ha (by rw [← show (includerIter a).1.n.dataWm = a.n.dataWm from hi.frame.dataWm]; exact hb)

/-- a clean restart keeps the marks (`SaveCache` / `LoadCache`) -/
theorem MK.restartClean {c : Cfg} {a a' : ANode} (r : R c a) (m : MK c a) (f : RestartFacts c a a' true) : MK c a' := by
  have hm : a'.hMarks = a.hMarks := by rw [f.hMarks]; rfl
  have dm : a'.dMarks = a.dMarks := by rw [f.dMarks]; rfl
  have h1 := f.hdrWm
  have h2 := f.dataWm
  rw [wmRaise_eq r.low] at h1
  rw [wmRaise_eq r.dlow] at h2
  refine ⟨fun h ha hb => ?_, fun h ha hb => ?_⟩
  · have hb' : h ≤ a.n.hdrWm := Nat.le_trans hb h1
    rw [f.blocks h (Nat.le_trans hb' r.le), hm]; exact m.hdr h ha hb'
  · have hb' : h ≤ a.n.dataWm := Nat.le_trans hb h2
    rw [f.blocks h (Nat.le_trans hb' r.dle), dm]; exact m.data h ha hb'

/-- histories without a crash: actions and clean restarts -/
def CrashFree (acts : List ActR) : Prop := ∀ x ∈ acts, (∃ y, x = .act y) ∨ x = .restart true

theorem MK.run {c : Cfg} {σ : CSt} (ci : CI c σ) (m : MK c σ.a) (acts : List ActR) (hcf : CrashFree acts) :
    MK c (runR c σ acts).a := by
  induction acts generalizing σ with
  | nil => exact m
  | cons x acts ih =>
    have hx := hcf x (List.mem_cons_self ..)
    have hrest : CrashFree acts := fun y hy => hcf y (List.mem_cons_of_mem _ hy)
    refine ih (ci.step x) ?_ hrest
    rcases hx with ⟨y, rfl⟩ | rfl
    · show MK c (stepAW c σ.a y).1
      rw [stepAW_fst]; exact m.step ci.r y
    · obtain ⟨a', h, _, f⟩ := ci.r.restart true
      show MK c (match Submit.restart c σ.a σ.a.n.store true with
        | some a' => (⟨a', σ.a.n.store, []⟩ : CSt)
        | none => σ).a
      rw [h]; exact m.restartClean ci.r f

/-- **end to end**: on a reachable node whose marks are complete, one accepting header tick, one accepting data tick, one
more data tick and one inclusion pass bring the DA-included height to the chain height -/
theorem eventually_four_ticks {c : Cfg} {a : ANode} (r : R c a) (m : MK c a)
    (fh th fd td s2 : List DAAns)
    (hth : th.headD (.ok none) = .ok none) (hnh : DAAns.canceled ∉ fh) (hfh : fh.length < maxSubmitAttempts)
    (htd : td.headD (.ok none) = .ok none) (hnd : DAAns.canceled ∉ fd) (hfd : fd.length < maxSubmitAttempts) :
    (runOps a [.subH (fh ++ th), .subD (fd ++ td), .subD s2, .incl]).daInc = a.n.store.height ∧
    (runOps a [.subH (fh ++ th), .subD (fd ++ td), .subD s2, .incl]).n.store.height = a.n.store.height := by
  -- the three submission ticks
  have r1 : R c (headersIter a (fh ++ th)).1 := r.step (.subH (fh ++ th))
  have m1 : MK c (headersIter a (fh ++ th)).1 := m.step r (.subH (fh ++ th))
  have r2 : R c (dataIter (headersIter a (fh ++ th)).1 (fd ++ td)).1 := r1.step (.subD (fd ++ td))
  have m2 : MK c (dataIter (headersIter a (fh ++ th)).1 (fd ++ td)).1 := m1.step r1 (.subD (fd ++ td))
  have r3 : R c (dataIter (dataIter (headersIter a (fh ++ th)).1 (fd ++ td)).1 s2).1 := r2.step (.subD s2)
  have m3 : MK c (dataIter (dataIter (headersIter a (fh ++ th)).1 (fd ++ td)).1 s2).1 := m2.step r2 (.subD s2)
  have hh := (headersIter_reaches a fh th hth hnh hfh (hdrOK_of_inv r.pinv r.low) r.le).1
  obtain ⟨_, i1, _⟩ := headersIter_iter a (fh ++ th)
  obtain ⟨_, i2, _⟩ := dataIter_iter (headersIter a (fh ++ th)).1 (fd ++ td)
  obtain ⟨_, i3, _⟩ := dataIter_iter (dataIter (headersIter a (fh ++ th)).1 (fd ++ td)).1 s2
  have hd := data_two_ticks (headersIter a (fh ++ th)).1 fd td s2 htd hnd hfd (r1.toD.dataOK r1.dlow) r1.dle
  generalize ha3 : (dataIter (dataIter (headersIter a (fh ++ th)).1 (fd ++ td)).1 s2).1 = a3 at r3 m3 hd i3
  have hht : a3.n.store.height = a.n.store.height := by
    rw [i3.frame.height, i2.frame.height, i1.frame.height]
  have hhw : a3.n.hdrWm = a3.n.store.height := by
    have q3 : a3.n.hdrWm = (dataIter (headersIter a (fh ++ th)).1 (fd ++ td)).1.n.hdrWm := i3.frame.otherWm
    have q2 : (dataIter (headersIter a (fh ++ th)).1 (fd ++ td)).1.n.hdrWm = (headersIter a (fh ++ th)).1.n.hdrWm :=
      i2.frame.otherWm
    rw [q3, q2, hh, hht, i1.frame.height]
  have hdw : a3.n.dataWm = a3.n.store.height := hd
  -- the inclusion pass
  have e4 : runOps a [.subH (fh ++ th), .subD (fd ++ td), .subD s2, .incl] = (includerIter a3).1 := by rw [← ha3]; rfl
  have hi : PassInv a3 (includerIter a3).1 (includerIter a3).2 :=
    includerPass_inv (a3.n.store.height + 1) a3 a3 [] (PassInv.init a3)
  have hge : a3.n.store.height ≤ (includerIter a3).1.daInc := by
    have hlow := r3.pdw.1
    apply includerIter_eventually
    intro k k1 k2
    have hk : c.initialHeight ≤ k := by omega
    obtain ⟨b, q1, q2⟩ := m3.hdr k hk (by rw [hhw]; exact k2)
    obtain ⟨b', q1', q3⟩ := m3.data k hk (by rw [hdw]; exact k2)
    rw [q1] at q1'
    have : b = b' := by simpa using q1'
    subst this
    refine ⟨k2, b, q1, q2, ?_⟩
    rcases q3 with q3 | q3
    · exact Or.inl (daCommitment_of_empty q3)
    · exact Or.inr q3
  have hle := hi.le r3.g.incLe
  have hht4 : (includerIter a3).1.n.store.height = a3.n.store.height := hi.frame.height
  rw [e4]
  exact ⟨by omega, by rw [hht4, hht]⟩

end Submit
