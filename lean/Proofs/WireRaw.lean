import Proofs.WireVarint

/-! # C12 helpers: raw field layer — `decFields (encFields fs) = some fs` for well-formed fields,
and every decoded field list is well formed and re-encodes to at most the input length -/
namespace Wire

/-- value fits its wire type -/
def WVal.WF : WVal → Prop
  | .varint n => n < 2 ^ 64
  | .i64 b => b.length = 8
  | .len b => b.length < 2 ^ 64
  | .i32 b => b.length = 4

instance : DecidablePred WVal.WF := fun v => by cases v <;> unfold WVal.WF <;> infer_instance

/-- a field as protobuf-go can emit it: number in `[1, 2^29-1]`, value fits its wire type -/
def WF (f : Field) : Prop := 1 ≤ f.1 ∧ f.1 ≤ maxFieldNum ∧ f.2.WF

instance : DecidablePred WF := fun f => by unfold WF; infer_instance

def WVal.wt : WVal → Nat
  | .varint _ => 0 | .i64 _ => 1 | .len _ => 2 | .i32 _ => 5

def WVal.enc : WVal → Bytes
  | .varint n => encVarint n
  | .i64 b => b
  | .len b => encVarint b.length ++ b
  | .i32 b => b

theorem encField_eq (k : Nat) (v : WVal) : encField (k, v) = encVarint (k * 8 + v.wt) ++ v.enc := by
  cases v <;> simp [encField, WVal.wt, WVal.enc]

theorem encFields_nil : encFields [] = [] := rfl
theorem encFields_cons (f : Field) (fs : List Field) : encFields (f :: fs) = encField f ++ encFields fs := by
  simp [encFields]
theorem encFields_append (a b : List Field) : encFields (a ++ b) = encFields a ++ encFields b := by
  simp [encFields]

theorem consumeValue_enc (fuel k : Nat) (v : WVal) (rest : Bytes) (h : v.WF) :
    consumeValue (fuel + 1) k v.wt (v.enc ++ rest) = some (some v, rest) := by
  cases v with
  | varint n =>
    simp only [WVal.WF] at h
    simp [consumeValue, WVal.wt, WVal.enc, decVarint_encVarint n rest h]
  | i64 b =>
    simp only [WVal.WF] at h
    simp [consumeValue, WVal.wt, WVal.enc, h]
  | len b =>
    simp only [WVal.WF] at h
    have := decVarint_encVarint b.length (b ++ rest) h
    simp [consumeValue, WVal.wt, WVal.enc, this]
  | i32 b =>
    simp only [WVal.WF] at h
    simp [consumeValue, WVal.wt, WVal.enc, h]

theorem encField_length_pos (f : Field) : 1 ≤ (encField f).length := by
  obtain ⟨k, v⟩ := f
  rw [encField_eq]
  have := encVarint_length_pos (k * 8 + v.wt)
  simp; omega

theorem encFields_length_ge (fs : List Field) : fs.length ≤ (encFields fs).length := by
  induction fs with
  | nil => simp [encFields]
  | cons f fs ih =>
    rw [encFields_cons]
    have := encField_length_pos f
    simp; omega

theorem wt_lt (v : WVal) : v.wt < 8 := by cases v <;> simp [WVal.wt]

theorem decFieldsAux_enc (fs : List Field) (hwf : ∀ f ∈ fs, WF f) (fuel : Nat) (hf : fs.length ≤ fuel) :
    decFieldsAux fuel (encFields fs) = some fs := by
  induction fs generalizing fuel with
  | nil => cases fuel <;> simp [decFieldsAux, encFields]
  | cons f fs ih =>
    obtain ⟨k, v⟩ := f
    cases fuel with
    | zero => simp at hf
    | succ fuel =>
      have ⟨h1, h2, h3⟩ := hwf (k, v) (by simp)
      simp only at h1 h2
      have hw := wt_lt v
      have hmax : maxFieldNum = 536870911 := rfl
      have htag : k * 8 + v.wt < 2 ^ 64 := by omega
      have hne : (encFields ((k, v) :: fs)).isEmpty = false := by
        have := encFields_length_ge ((k, v) :: fs)
        cases hh : encFields ((k, v) :: fs) with
        | nil => rw [hh] at this; simp at this
        | cons _ _ => rfl
      rw [decFieldsAux, hne]
      rw [encFields_cons, encField_eq, List.append_assoc,
        decVarint_encVarint _ _ htag]
      have e1 : (k * 8 + v.wt) / 8 = k := by omega
      have e2 : (k * 8 + v.wt) % 8 = v.wt := by omega
      have hk : ¬ (k = 0 ∨ maxFieldNum < k) := by omega
      simp only [Bool.false_eq_true, ↓reduceIte, e1, e2, hk]
      rw [consumeValue_enc _ k v _ h3]
      simp only
      rw [ih (fun f hf => hwf f (by simp [hf])) fuel (by simpa using hf)]

/-- **raw round trip** -/
theorem decFields_encFields (fs : List Field) (hwf : ∀ f ∈ fs, WF f) :
    decFields (encFields fs) = some fs :=
  decFieldsAux_enc fs hwf _ (encFields_length_ge fs)

/-! ### decoded fields are well formed -/

theorem consumeValue_wf (fuel k wt : Nat) (bs : Bytes) (v : WVal) (r : Bytes)
    (h : consumeValue fuel k wt bs = some (some v, r)) :
    v.WF ∧ v.wt = wt ∧ v.enc.length + r.length ≤ bs.length := by
  cases fuel with
  | zero => simp [consumeValue] at h
  | succ fuel =>
    simp only [consumeValue] at h
    split at h
    · rename_i hwt
      split at h
      · rename_i n r' heq
        simp only [Option.some.injEq, Prod.mk.injEq] at h
        obtain ⟨h1, h2⟩ := h
        subst h1 h2
        have := decVarint_bound heq
        have := decVarint_enc_length heq
        simp [WVal.WF, WVal.wt, WVal.enc, hwt]; omega
      · simp at h
    · split at h
      · rename_i hwt
        split at h
        · rename_i hl
          simp only [Option.some.injEq, Prod.mk.injEq] at h
          obtain ⟨h1, h2⟩ := h
          subst h1 h2
          simp [WVal.WF, WVal.wt, WVal.enc, hwt]; omega
        · simp at h
      · split at h
        · rename_i hwt
          split at h
          · rename_i l r' heq
            split at h
            · rename_i hl
              simp only [Option.some.injEq, Prod.mk.injEq] at h
              obtain ⟨h1, h2⟩ := h
              subst h1 h2
              have := decVarint_bound heq
              have := decVarint_enc_length heq
              have e : min l r'.length = l := by omega
              simp [WVal.WF, WVal.wt, WVal.enc, hwt, e]; omega
            · simp at h
          · simp at h
        · split at h
          · rename_i hwt
            split at h
            · rename_i hl
              simp only [Option.some.injEq, Prod.mk.injEq] at h
              obtain ⟨h1, h2⟩ := h
              subst h1 h2
              simp [WVal.WF, WVal.wt, WVal.enc, hwt]; omega
            · simp at h
          · split at h
            · split at h <;> simp at h
            · simp at h

theorem consume_rest_le (fuel : Nat) :
    (∀ k wt bs v r, consumeValue fuel k wt bs = some (v, r) → r.length ≤ bs.length) ∧
    (∀ k bs r, consumeValue.consumeGroup fuel k bs = some r → r.length ≤ bs.length) := by
  induction fuel with
  | zero =>
    constructor
    · intro k wt bs v r h; simp [consumeValue] at h
    · intro k bs r h; simp [consumeValue.consumeGroup] at h
  | succ fuel ih =>
    constructor
    · intro k wt bs v r h
      cases v with
      | some v => have := consumeValue_wf _ _ _ _ _ _ h; omega
      | none =>
        simp only [consumeValue] at h
        split at h
        · split at h <;> simp at h
        · split at h
          · split at h <;> simp at h
          · split at h
            · split at h
              · split at h <;> simp at h
              · simp at h
            · split at h
              · split at h <;> simp at h
              · split at h
                · split at h
                  · rename_i r' heq
                    simp only [Option.some.injEq, Prod.mk.injEq, true_and] at h
                    subst h
                    exact ih.2 _ _ _ heq
                  · simp at h
                · simp at h
    · intro k bs r h
      simp only [consumeValue.consumeGroup] at h
      split at h
      · simp at h
      · rename_i tag r1 heq
        have := (decVarint_bound heq).2
        split at h
        · simp at h
        · split at h
          · split at h
            · simp only [Option.some.injEq] at h; subst h; omega
            · simp at h
          · split at h
            · rename_i v r2 heq2
              have := ih.1 _ _ _ _ _ heq2
              have := ih.2 _ _ _ h
              omega
            · simp at h

theorem decFieldsAux_wf (fuel : Nat) (bs : Bytes) (fs : List Field)
    (h : decFieldsAux fuel bs = some fs) :
    (∀ f ∈ fs, WF f) ∧ (encFields fs).length ≤ bs.length := by
  induction fuel generalizing bs fs with
  | zero =>
    simp only [decFieldsAux] at h
    split at h
    · simp only [Option.some.injEq] at h; subst h; simp [encFields]
    · simp at h
  | succ fuel ih =>
    simp only [decFieldsAux] at h
    split at h
    · simp only [Option.some.injEq] at h; subst h; simp [encFields]
    · split at h
      · simp at h
      · rename_i tag r heq
        have hb := decVarint_bound heq
        have hl := decVarint_enc_length heq
        split at h
        · simp at h
        · rename_i hk
          split at h
          · simp at h
          · rename_i v r' heq2
            split at h
            · simp at h
            · rename_i fs' heq3
              simp only [Option.some.injEq] at h
              have ⟨i1, i2⟩ := ih _ _ heq3
              cases v with
              | none =>
                simp only at h; subst h
                have := (consume_rest_le _).1 _ _ _ _ _ heq2
                exact ⟨i1, by omega⟩
              | some v =>
                simp only at h; subst h
                have ⟨w1, w2, w3⟩ := consumeValue_wf _ _ _ _ _ _ heq2
                have et : tag / 8 * 8 + v.wt = tag := by omega
                constructor
                · intro f hf
                  simp only [List.mem_cons] at hf
                  rcases hf with rfl | hf
                  · exact ⟨by simp only; omega, by simp only; omega, w1⟩
                  · exact i1 f hf
                · rw [encFields_cons, encField_eq, et]
                  simp only [List.length_append]
                  omega

theorem decFields_wf {bs : Bytes} {fs : List Field} (h : decFields bs = some fs) :
    ∀ f ∈ fs, WF f := (decFieldsAux_wf _ _ _ h).1

theorem decFields_length {bs : Bytes} {fs : List Field} (h : decFields bs = some fs) :
    (encFields fs).length ≤ bs.length := (decFieldsAux_wf _ _ _ h).2

/-- decoded field lists are fixed points of decode ∘ encode -/
theorem decFields_canon {bs : Bytes} {fs : List Field} (h : decFields bs = some fs) :
    decFields (encFields fs) = some fs := decFields_encFields fs (decFields_wf h)

end Wire
