import Proofs.SyncLive

/-!
# Runs of the syncing node: any list of genuine events with clean restarts anywhere;
monotonicity / no-skip from the shape of the writes; the function `ready`.
-/
namespace Sync
open Wire Chain
variable {c : Cfg} {ch : PChain} {top h0 : Nat} {evs : List Ev} {n : FNode}

/-! ## consequences of the shape of the writes -/

def heightWrites (ws : List SW) : List Nat := ws.filterMap fun w => match w with | .setHeight h => some h | _ => none
def savedHeights (ws : List SW) : List Nat := ws.filterMap fun w => match w with | .saveBlock h _ => some h | _ => none
def stateWrites (ws : List SW) : List State := ws.filterMap fun w => match w with | .updateState s => some s | _ => none

/-- the chain-height writes and the block saves of a step go through consecutive heights, one each -/
theorem AppliedWrites.consecutive {h h' : Nat} {ws : List SW} (a : AppliedWrites c ch h ws h') :
    heightWrites ws = List.range' (h + 1) (h' - h) ∧ savedHeights ws = List.range' (h + 1) (h' - h) ∧
    stateWrites ws = (List.range' (h + 1) (h' - h)).map (stateAt c ch) ∧ ws.length = 3 * (h' - h) := by
  induction a with
  | nil => simp [heightWrites, savedHeights, stateWrites]
  | @cons h h' ws b sb _ _ a ih =>
    have hle := a.le
    obtain ⟨i1, i2, i3, i4⟩ := ih
    have e : h' - h = (h' - (h + 1)) + 1 := by omega
    rw [e, List.range'_succ]
    simp only [heightWrites, savedHeights, stateWrites] at i1 i2 i3 ⊢
    simp only [List.filterMap_cons, i1, i2, i3, List.map_cons, List.length_cons, i4]
    refine ⟨trivial, trivial, trivial, by omega⟩

/-- the order of the writes of a step: the `i`-th applied block contributes, at positions `3i, 3i+1, 3i+2`, the
save of the proposer's block of height `h+1+i`, then the state after that height, then the chain height -/
theorem AppliedWrites.order {h h' : Nat} {ws : List SW} (a : AppliedWrites c ch h ws h') (i : Nat) (hi : i < h' - h) :
    ∃ b sb, ch (h + 1 + i) = some b ∧ SameBlock b sb ∧
      ws[3 * i]? = some (.saveBlock (h + 1 + i) sb) ∧
      ws[3 * i + 1]? = some (.updateState (stateAt c ch (h + 1 + i))) ∧
      ws[3 * i + 2]? = some (.setHeight (h + 1 + i)) := by
  induction a generalizing i with
  | nil => omega
  | @cons h h' ws b sb hb hsb a ih =>
    match i with
    | 0 => exact ⟨b, sb, hb, hsb, rfl, rfl, rfl⟩
    | j + 1 =>
      obtain ⟨b', sb', x1, x2, x3, x4, x5⟩ := ih j (by omega)
      have e : h + 1 + (j + 1) = h + 1 + 1 + j := by omega
      have sh : ∀ (w1 w2 w3 : SW) (l : List SW) (m : Nat), (w1 :: w2 :: w3 :: l)[m + 3]? = l[m]? := by
        intros; rfl
      rw [e, show 3 * (j + 1) = 3 * j + 3 by omega, show 3 * j + 3 + 1 = (3 * j + 1) + 3 by omega,
        show 3 * j + 3 + 2 = (3 * j + 2) + 3 by omega, sh, sh, sh]
      exact ⟨b', sb', x1, x2, x3, x4, x5⟩

/-- a step leaves every block at or below the old chain height untouched -/
theorem AppliedWrites.keeps {h h' : Nat} {ws : List SW} (a : AppliedWrites c ch h ws h') (s : Store)
    (k : Nat) (hk : k ≤ h) : (s.applyAll ws).getBlock k = s.getBlock k := by
  induction a generalizing s with
  | nil => rfl
  | @cons h h' ws b sb _ _ a ih =>
    simp only [Store.applyAll, List.foldl_cons] at ih ⊢
    rw [ih _ (by omega), getBlock_setHeight, getBlock_updateState, getBlock_saveBlock_other _ _ _ _ (by omega)]

/-! ## runs -/

inductive Op
  | ev (e : Ev)
  | restart
  deriving DecidableEq, Repr

/-- `restart` = clean stop, `NewManager` on the node's own store with the caches kept, start of `SyncLoop` (`reboot`) -/
def stepOp (c : Cfg) (ch : PChain) (n : FNode) : Op → FNode
  | .ev e => (deliver ch n e).1
  | .restart => reboot c n

def runFrom (c : Cfg) (ch : PChain) (n : FNode) (ops : List Op) : FNode := ops.foldl (stepOp c ch) n

def evsOf (ops : List Op) : List Ev := ops.filterMap fun o => match o with | .ev e => some e | .restart => none

/-- a run from a fresh start: the events in the given order -/
def run (c : Cfg) (ch : PChain) (evs : List Ev) : FNode := evs.foldl (fun n e => (deliver ch n e).1) (fresh c)

/-- a run from a fresh start with clean restarts at arbitrary positions -/
def runOps (c : Cfg) (ch : PChain) (ops : List Op) : FNode := runFrom c ch (fresh c) ops

theorem run_eq_runOps (c : Cfg) (ch : PChain) (evs : List Ev) : run c ch evs = runOps c ch (evs.map .ev) := by
  unfold run runOps runFrom
  generalize fresh c = n
  induction evs generalizing n with
  | nil => rfl
  | cons e evs ih => simp only [List.foldl_cons, List.map_cons]; exact ih _

theorem evsOf_map (evs : List Ev) : evsOf (evs.map .ev) = evs := by
  induction evs with
  | nil => rfl
  | cons e evs ih => simp only [List.map_cons, evsOf, List.filterMap_cons] at ih ⊢; rw [ih]

theorem Live.congr {n' : FNode} (hl : Live ch evs n) (h1 : n'.store.height = n.store.height)
    (h2 : n'.hdrCache = n.hdrCache) (h3 : n'.datCache = n.datCache) (h4 : n'.seenH = n.seenH)
    (h5 : n'.seenD = n.seenD) : Live ch evs n' := by
  have kH : keysH n' = keysH n := by unfold keysH; rw [h2]
  have kD : keysD n' = keysD n := by unfold keysD; rw [h3]
  refine ⟨?_, ?_, ?_, ?_, ?_, ?_⟩
  · rw [h1, kH]; exact hl.hdrDel
  · rw [h1, kD]; exact hl.datDel
  · rw [h1, kD]; exact hl.datEmp
  · rw [h1, kH, h4]; exact hl.seenHs
  · rw [h1, kD, h5]; exact hl.seenDs
  · rw [kH, kD]; exact hl.hdrEmp

theorem restart_inv (g : GoodChain c ch top) (hi : Inv c ch h0 evs n) : Inv c ch h0 evs (restart c n) := by
  obtain ⟨_, e1, _, e2, e3, e4, e5, _, _, hs⟩ := restart_spec g hi.safe
  refine ⟨hs, hi.live.congr e1 e2 e3 e4 e5, ?_⟩
  have := hi.quiet
  unfold Quiet keysH keysD at this ⊢
  rw [e1, e2, e3]; exact this

variable {jk : Bool}

theorem stepOp_safe (g : GoodChain c ch top) (hs : SafeJ jk c ch h0 evs n) (hq : Quiet n) (o : Op) :
    SafeJ jk c ch h0 (evs ++ evsOf [o]) (stepOp c ch n o) ∧ Quiet (stepOp c ch n o) ∧
    n.store.height ≤ (stepOp c ch n o).store.height := by
  cases o with
  | ev e => exact ⟨(deliver_safe g hs e).1, deliver_quiet g hs hq e, (deliver_safe g hs e).2.le⟩
  | restart =>
    obtain ⟨_, e1, _, e2, e3, _, _, _, _, hs'⟩ := restart_spec g hs
    simp only [evsOf, List.filterMap_cons, List.filterMap_nil, List.append_nil, stepOp]
    rw [(reboot_spec g hs hq).2]
    refine ⟨hs', ?_, by omega⟩
    unfold Quiet keysH keysD at hq ⊢
    rw [e1, e2, e3]; exact hq

theorem stepOp_inv (g : GoodChain c ch top) (dc : DistinctCommitments ch) (hi : Inv c ch h0 evs n) (o : Op) :
    Inv c ch h0 (evs ++ evsOf [o]) (stepOp c ch n o) := by
  cases o with
  | ev e => exact deliver_inv g dc hi e
  | restart =>
    simp only [evsOf, List.filterMap_cons, List.filterMap_nil, List.append_nil, stepOp]
    rw [(reboot_spec g hi.safe hi.quiet).2]
    exact restart_inv g hi

theorem evsOf_cons (o : Op) (ops : List Op) : evsOf (o :: ops) = evsOf [o] ++ evsOf ops := by
  cases o <;> simp [evsOf]

theorem runFrom_safe (g : GoodChain c ch top) (ops : List Op) : ∀ {evs : List Ev} {n : FNode},
    SafeJ jk c ch h0 evs n → Quiet n →
    SafeJ jk c ch h0 (evs ++ evsOf ops) (runFrom c ch n ops) ∧ Quiet (runFrom c ch n ops) ∧
    n.store.height ≤ (runFrom c ch n ops).store.height := by
  induction ops with
  | nil => intro evs n hs hq; simpa [runFrom, evsOf] using ⟨hs, hq⟩
  | cons o ops ih =>
    intro evs n hs hq
    obtain ⟨a1, a2, a3⟩ := stepOp_safe g hs hq o
    obtain ⟨b1, b2, b3⟩ := ih a1 a2
    rw [evsOf_cons, ← List.append_assoc]
    exact ⟨b1, b2, Nat.le_trans a3 b3⟩

theorem runFrom_inv (g : GoodChain c ch top) (dc : DistinctCommitments ch) (ops : List Op) :
    ∀ {evs : List Ev} {n : FNode}, Inv c ch h0 evs n → Inv c ch h0 (evs ++ evsOf ops) (runFrom c ch n ops) := by
  induction ops with
  | nil => intro evs n hi; simpa [runFrom, evsOf] using hi
  | cons o ops ih =>
    intro evs n hi
    have := ih (stepOp_inv g dc hi o)
    rw [evsOf_cons, ← List.append_assoc]
    exact this

theorem runFrom_append (c : Cfg) (ch : PChain) (n : FNode) (o1 o2 : List Op) :
    runFrom c ch n (o1 ++ o2) = runFrom c ch (runFrom c ch n o1) o2 := by
  simp [runFrom, List.foldl_append]

theorem fresh_inv (g : GoodChain c ch top) : Inv c ch (c.initialHeight - 1) [] (fresh c) := by
  obtain ⟨n, ws, h1, h2⟩ := start_spec g (diskOK_empty g) {}
  obtain ⟨ws', h3⟩ := start_fresh c
  rw [h3] at h1
  simp only [Option.some.injEq, Prod.mk.injEq] at h1
  obtain ⟨a, b⟩ := live_of_empty ch (n := n) h2.hc h2.dc h2.sH h2.sD
  rw [← h1.1] at a b
  exact ⟨fresh_safe g, a, b⟩

theorem fresh_noHeaders (g : GoodChain c ch top) : (fresh c).hdrCache = [] := by
  obtain ⟨n, ws, h1, h2⟩ := start_spec g (diskOK_empty g) {}
  obtain ⟨ws', h3⟩ := start_fresh c
  rw [h3] at h1
  simp only [Option.some.injEq, Prod.mk.injEq] at h1
  rw [h1.1]; exact h2.hc

theorem fresh_quiet (g : GoodChain c ch top) : Quiet (fresh c) := by
  intro ⟨hk, _⟩
  simp [keysH, keys, fresh_noHeaders g] at hk

/-- `run` / `runOps` start from what `NewManager` **and the start of `SyncLoop`** build on an empty store -/
theorem boot_fresh (g : GoodChain c ch top) : ∃ ws, boot c {} = some (fresh c, ws) := by
  obtain ⟨ws, h⟩ := start_fresh c
  have := boot_of_start h
  rw [loopStart_quiet (fresh_quiet g)] at this
  exact ⟨_, this⟩

theorem runOps_safe (g : GoodChain c ch top) (ops : List Op) :
    Safe c ch (c.initialHeight - 1) (evsOf ops) (runOps c ch ops) := by
  simpa [runOps] using (runFrom_safe g ops (fresh_safe g) (fresh_quiet g)).1

theorem runOps_quiet (g : GoodChain c ch top) (ops : List Op) : Quiet (runOps c ch ops) :=
  (runFrom_safe g ops (fresh_safe g) (fresh_quiet g)).2.1

theorem runOps_inv (g : GoodChain c ch top) (dc : DistinctCommitments ch) (ops : List Op) :
    Inv c ch (c.initialHeight - 1) (evsOf ops) (runOps c ch ops) := by
  simpa [runOps] using runFrom_inv g dc ops (fresh_inv g)

/-! ## runs with junk data events (unauthenticated P2P data) anywhere -/

/-- an operation of a run in which third parties take part: a genuine event / clean restart, or the delivery of an
arbitrary `Data` item as a data event -/
inductive JOp
  | op (o : Op)
  | junk (d : Data)

def stepJ (c : Cfg) (ch : PChain) (n : FNode) : JOp → FNode
  | .op o => stepOp c ch n o
  | .junk d => (onData n d).1

def runJFrom (c : Cfg) (ch : PChain) (n : FNode) (js : List JOp) : FNode := js.foldl (stepJ c ch) n

/-- a run from a fresh start with genuine events, clean restarts and junk data events in any order -/
def runJ (c : Cfg) (ch : PChain) (js : List JOp) : FNode := runJFrom c ch (fresh c) js

/-- the genuine operations of such a run -/
def opsOf (js : List JOp) : List Op := js.filterMap fun j => match j with | .op o => some o | .junk _ => none

/-- every junk item of the run is junk: it does not validate against the proposer's header of the height it claims -/
def JunkOK (ch : PChain) (js : List JOp) : Prop := ∀ d, JOp.junk d ∈ js → JunkData ch d

theorem opsOf_cons (j : JOp) (js : List JOp) : opsOf (j :: js) = opsOf [j] ++ opsOf js := by
  cases j <;> simp [opsOf]

theorem evsOf_append (o1 o2 : List Op) : evsOf (o1 ++ o2) = evsOf o1 ++ evsOf o2 := by
  simp [evsOf, List.filterMap_append]

theorem stepJ_safe (g : GoodChain c ch top) (hs : SafeJ true c ch h0 evs n) (hq : Quiet n) (j : JOp)
    (hj : ∀ d, j = .junk d → JunkData ch d) :
    SafeJ true c ch h0 (evs ++ evsOf (opsOf [j])) (stepJ c ch n j) ∧ Quiet (stepJ c ch n j) ∧
    n.store.height ≤ (stepJ c ch n j).store.height := by
  cases j with
  | op o =>
    have : opsOf [JOp.op o] = [o] := rfl
    rw [this]; exact stepOp_safe g hs hq o
  | junk d =>
    have : evsOf (opsOf [JOp.junk d]) = [] := rfl
    rw [this, List.append_nil]
    obtain ⟨a1, a2⟩ := junk_safe g hs (hj d rfl)
    exact ⟨a1, junk_quiet g hs hq (hj d rfl), a2.le⟩

theorem runJFrom_safe (g : GoodChain c ch top) (js : List JOp) (hj : JunkOK ch js) : ∀ {evs : List Ev} {n : FNode},
    SafeJ true c ch h0 evs n → Quiet n →
    SafeJ true c ch h0 (evs ++ evsOf (opsOf js)) (runJFrom c ch n js) ∧ Quiet (runJFrom c ch n js) ∧
    n.store.height ≤ (runJFrom c ch n js).store.height := by
  induction js with
  | nil => intro evs n hs hq; simpa [runJFrom, opsOf, evsOf] using ⟨hs, hq⟩
  | cons j js ih =>
    intro evs n hs hq
    obtain ⟨a1, a2, a3⟩ := stepJ_safe g hs hq j (fun d e => hj d (by rw [e]; exact List.mem_cons_self ..))
    obtain ⟨b1, b2, b3⟩ := ih (fun d hd => hj d (List.mem_cons_of_mem _ hd)) a1 a2
    rw [opsOf_cons, evsOf_append, ← List.append_assoc]
    exact ⟨b1, b2, Nat.le_trans a3 b3⟩

theorem runJFrom_append (c : Cfg) (ch : PChain) (n : FNode) (j1 j2 : List JOp) :
    runJFrom c ch n (j1 ++ j2) = runJFrom c ch (runJFrom c ch n j1) j2 := by
  simp [runJFrom, List.foldl_append]

theorem runJ_safe (g : GoodChain c ch top) (js : List JOp) (hj : JunkOK ch js) :
    SafeJ true c ch (c.initialHeight - 1) (evsOf (opsOf js)) (runJ c ch js) := by
  simpa [runJ] using (runJFrom_safe g js hj (fresh_safe g).weaken (fresh_quiet g)).1

/-! ### the data seen-set along runs with junk -/

theorem reboot_seen (g : GoodChain c ch top) (hs : SafeJ jk c ch h0 evs n) (hq : Quiet n) (h : SeenApplied ch n) :
    SeenApplied ch (reboot c n) := by
  rw [(reboot_spec g hs hq).2]
  obtain ⟨_, e1, _, _, _, _, e5, _⟩ := restart_spec g hs
  exact h.congr e5 (by omega)

theorem stepJ_seen (g : GoodChain c ch top) (hs : SafeJ true c ch h0 evs n) (hq : Quiet n) (h : SeenApplied ch n)
    (j : JOp) (hj : ∀ d, j = .junk d → JunkData ch d) : SeenApplied ch (stepJ c ch n j) := by
  cases j with
  | op o =>
    cases o with
    | ev e => exact deliver_seen g hs h e
    | restart => exact reboot_seen g hs hq h
  | junk d => exact junk_seen g hs h (hj d rfl)

theorem runJFrom_seen (g : GoodChain c ch top) (js : List JOp) (hj : JunkOK ch js) : ∀ {evs : List Ev} {n : FNode},
    SafeJ true c ch h0 evs n → Quiet n → SeenApplied ch n → SeenApplied ch (runJFrom c ch n js) := by
  induction js with
  | nil => intro evs n _ _ h; exact h
  | cons j js ih =>
    intro evs n hs hq h
    have hj1 : ∀ d, j = .junk d → JunkData ch d := fun d e => hj d (by rw [e]; exact List.mem_cons_self ..)
    obtain ⟨a1, a2, _⟩ := stepJ_safe g hs hq j hj1
    exact ih (fun d hd => hj d (List.mem_cons_of_mem _ hd)) a1 a2 (stepJ_seen g hs hq h j hj1)

theorem fresh_seenD (g : GoodChain c ch top) : (fresh c).seenD = [] := by
  obtain ⟨n, ws, h1, h2⟩ := start_spec g (diskOK_empty g) {}
  obtain ⟨ws', h3⟩ := start_fresh c
  rw [h3] at h1
  simp only [Option.some.injEq, Prod.mk.injEq] at h1
  rw [h1.1]; exact h2.sD

theorem runJ_seen (g : GoodChain c ch top) (js : List JOp) (hj : JunkOK ch js) : SeenApplied ch (runJ c ch js) := by
  apply runJFrom_seen g js hj (fresh_safe g).weaken (fresh_quiet g)
  intro x hx
  rw [fresh_seenD g] at hx
  cases hx

/-- **a genuine data event above the chain height is never refused after junk**: under `DistinctCommitments` its
commitment is not in the seen-set (which names applied blocks only), so it is cached — in front of whatever junk sits
at that height — and stays there until its block is applied; if its header is already cached and it is the next
height, the block is applied at once -/
theorem junk_never_blocks (g : GoodChain c ch top) (dc : DistinctCommitments ch) (hs : SafeJ true c ch h0 evs n)
    (hsa : SeenApplied ch n) {k : Nat} {b : Block} (hb : ch k = some b) (hne : ¬ IsEmpty b) (hk : n.store.height < k) :
    (k ≤ (deliver ch n (.dat k)).1.store.height ∨ getD (deliver ch n (.dat k)).1 k = some b.data) ∧
    (k = n.store.height + 1 → k ∈ keysH n → k ≤ (deliver ch n (.dat k)).1.store.height) := by
  have hnot : ¬ (b.data.daCommitment ∈ n.seenD ∨ k ≤ n.store.height) := by
    intro h
    rcases h with h | h
    · obtain ⟨j, bj, a1, a2, a3, a4⟩ := hsa _ h
      have := dc.dcInj _ _ _ _ hb a1 hne a2 a3
      omega
    · omega
  have e : deliver ch n (.dat k) = syncAfter (cacheD n k b.data) := by
    simp only [deliver, hb]
    rcases onData_cases g hs hb hne with ⟨h, _⟩ | ⟨_, e⟩
    · exact absurd h hnot
    · exact e
  rw [e]
  have hs1 := cacheD_safe g hs hb
  have hg : getD (cacheD n k b.data) k = some b.data := by simp [getD, cacheD]
  obtain ⟨m1, m2⟩ := trySync_keeps g ((cacheD n k b.data).hdrCache.length + 1) _ hs1 k b b.data hb
    (goodData_self g hb) hg hk
  refine ⟨m2.imp id (fun x => x.1), fun hk1 hkH => ?_⟩
  rcases m2 with m2 | ⟨m2, m3⟩
  · exact m2
  · have hq := syncAfter_quiet g hs1
    have hh : (syncAfter (cacheD n k b.data)).1.store.height = n.store.height ∨
        k ≤ (syncAfter (cacheD n k b.data)).1.store.height := by
      have : n.store.height ≤ (syncAfter (cacheD n k b.data)).1.store.height := m1
      omega
    rcases hh with hh | hh
    · exfalso
      apply hq
      rw [hh, ← hk1]
      exact ⟨m3 hkH, mem_keys.mpr ⟨_, getD_some m2⟩⟩
    · exact hh

/-- a run without junk items is a `runOps` run -/
theorem runJ_ops (c : Cfg) (ch : PChain) (ops : List Op) : runJ c ch (ops.map .op) = runOps c ch ops := by
  unfold runJ runOps runJFrom runFrom
  generalize fresh c = n
  induction ops generalizing n with
  | nil => rfl
  | cons o ops ih => simp only [List.map_cons, List.foldl_cons]; exact ih _

/-! ## `ready`: the largest height up to which everything has been delivered -/

def deliveredB (ch : PChain) (evs : List Ev) (k : Nat) : Bool :=
  match ch k with
  | some b => decide (Ev.hdr k ∈ evs) && (decide (IsEmpty b) || decide (Ev.dat k ∈ evs))
  | none => false

theorem deliveredB_iff {k : Nat} : deliveredB ch evs k = true ↔ Delivered ch evs k := by
  unfold deliveredB Delivered
  cases h : ch k with
  | none => simp
  | some b => simp

def readyFrom (ch : PChain) (evs : List Ev) : Nat → Nat → Nat
  | 0, h => h
  | f + 1, h => if deliveredB ch evs (h + 1) then readyFrom ch evs f (h + 1) else h

/-- the largest `h` such that for all `k ≤ h` (from the initial height on) the header of `k` occurs in `evs`
and block `k` is empty or its data occurs -/
def ready (c : Cfg) (ch : PChain) (top : Nat) (evs : List Ev) : Nat :=
  readyFrom ch evs (top + 1 - c.initialHeight) (c.initialHeight - 1)

theorem readyFrom_spec : ∀ (f h : Nat), h ≤ readyFrom ch evs f h ∧ readyFrom ch evs f h ≤ h + f ∧
    (∀ k, h < k → k ≤ readyFrom ch evs f h → Delivered ch evs k) ∧
    (readyFrom ch evs f h < h + f → ¬ Delivered ch evs (readyFrom ch evs f h + 1)) := by
  intro f
  induction f with
  | zero => intro h; simp only [readyFrom]; exact ⟨Nat.le_refl _, Nat.le_refl _, fun k a b => by omega, fun a => by omega⟩
  | succ f ih =>
    intro h
    simp only [readyFrom]
    split
    · rename_i hd
      obtain ⟨a1, a2, a3, a4⟩ := ih (h + 1)
      refine ⟨by omega, by omega, ?_, fun hlt => a4 (by omega)⟩
      intro k h1 h2
      by_cases hk : k = h + 1
      · subst hk; exact deliveredB_iff.mp hd
      · exact a3 k (by omega) h2
    · rename_i hd
      exact ⟨Nat.le_refl _, by omega, fun k a b => by omega, fun _ hdel => hd (deliveredB_iff.mpr hdel)⟩

/-- `ready` is what its description says -/
theorem ready_spec (g : GoodChain c ch top) (evs : List Ev) :
    c.initialHeight - 1 ≤ ready c ch top evs ∧
    (∀ k, c.initialHeight ≤ k → k ≤ ready c ch top evs → Delivered ch evs k) ∧
    ¬ Delivered ch evs (ready c ch top evs + 1) := by
  have hpos := g.ihPos
  obtain ⟨a1, a2, a3, a4⟩ := readyFrom_spec (ch := ch) (evs := evs) (top + 1 - c.initialHeight) (c.initialHeight - 1)
  refine ⟨a1, fun k h1 h2 => a3 k (by omega) h2, ?_⟩
  by_cases hlt : ready c ch top evs < c.initialHeight - 1 + (top + 1 - c.initialHeight)
  · exact a4 hlt
  · intro ⟨b, hb, _⟩
    have := (g.dom _ b hb).2
    unfold ready at hlt this
    omega

end Sync
