import Proofs.FlowInv

/-!
# C11 helpers (5): histories with their ghost, the invariant for every history from the first start
-/
namespace Flow
open Wire Chain Producer

/-- the transactions waiting in the sequencer's queue, in order -/
def queued (n : Node) : List Bytes := n.q.mem.flatten

/-- a history with its ghost; the first component is exactly `Flow.runOps` (`runG_fst`) -/
def runG (c : Cfg) : RunSt → Ghost → List Op → Option (RunSt × Ghost)
  | σ, g, [] => some (σ, g)
  | σ, g, op :: rest =>
    match opStep c σ op with
    | none => none
    | some σ' => runG c σ' (gstep c σ g op) rest

theorem runG_fst (c : Cfg) (σ : RunSt) (g : Ghost) (ops : List Op) :
    (runG c σ g ops).map (·.1) = runOps c σ ops := by
  induction ops generalizing σ g with
  | nil => rfl
  | cons op rest ih =>
    simp only [runG, runOps]
    cases opStep c σ op with
    | none => rfl
    | some σ' => exact ih σ' _

/-- a history from the first start on an empty disk -/
def history (c : Cfg) (ops : List Op) : Option (RunSt × Ghost) :=
  match initSt c with
  | none => none
  | some σ0 => runG c σ0 {} ops

/-- **one operation — any operation, a crash after any number of writes included — preserves the invariant, and
the node always comes up again** -/
theorem step_inv {c : Cfg} {σ : RunSt} {g : Ghost} (hc : CfgOK c) (h : FInv c σ g) (op : Op) :
    ∃ σ', opStep c σ op = some σ' ∧ FInv c σ' (gstep c σ g op) := by
  cases op with
  | mempool txs => exact ⟨_, rfl, step_mempool h txs false⟩
  | mempoolDrain txs => exact ⟨_, rfl, step_mempool h txs true⟩
  | reap => exact ⟨_, rfl, step_mempool (step_reap h) _ σ.drain⟩
  | reapPutFails => exact ⟨_, rfl, step_mempool (step_idle h) _ σ.drain⟩
  | produceSame => exact ⟨_, rfl, step_mempool (step_produce hc h .ok .same) σ.mempool σ.drain⟩
  | produceCancelled aware => exact ⟨_, rfl, step_mempool (step_produce hc h (cancelEx c σ.n aware)) σ.mempool σ.drain⟩
  | produce => exact ⟨_, rfl, step_mempool (step_produce hc h .ok) σ.mempool σ.drain⟩
  | produceFail => exact ⟨_, rfl, step_mempool (step_produce hc h .fail) σ.mempool σ.drain⟩
  | restart => exact step_recover h _
  | crash k => exact step_recover h k

theorem run_inv {c : Cfg} {σ : RunSt} {g : Ghost} (hc : CfgOK c) (h : FInv c σ g) (ops : List Op) :
    ∃ σ' g', runG c σ g ops = some (σ', g') ∧ FInv c σ' g' := by
  induction ops generalizing σ g with
  | nil => exact ⟨σ, g, rfl, h⟩
  | cons op rest ih =>
    obtain ⟨σ1, h1, h2⟩ := step_inv hc h op
    obtain ⟨σ', g', h3, h4⟩ := ih h2
    exact ⟨σ', g', by simp only [runG, h1]; exact h3, h4⟩

theorem chainUpTo_nil {s : Store} {h : Nat} (hn : ∀ k, k ≤ h → blockTxs s k = []) : chainUpTo s h = [] := by
  induction h with
  | zero => rfl
  | succ h ih =>
    simp only [chainUpTo]
    rw [ih (fun k hk => hn k (by omega)), hn (h + 1) (Nat.le_refl _)]; rfl

theorem init_inv {c : Cfg} (hc : CfgOK c) : ∃ σ0, initSt c = some σ0 ∧ FInv c σ0 {} := by
  have hg := good_init c.p hc.ihPos
  obtain ⟨hh, hb, _, hst⟩ := freshDisk_facts c.p
  have hinit : initSt c = some { n := { prod := freshNode c.p }, before := diskOf { prod := freshNode c.p } } := by
    unfold initSt; rw [start_empty]
  refine ⟨_, hinit, ?_⟩
  have hl : Live c.p (freshNode c.p) := hg.live
  have hs : Synced c.p (freshNode c.p) := hg.synced
  have hw : WmOK (freshNode c.p).store := hg.wm
  have hgen : (genesisBlock c.p).data.txs = [] := rfl
  have hblk : ∀ k, blockTxs (freshDisk c.p) k = [] := by
    intro k
    unfold blockTxs
    rw [hb k]
    split
    · rename_i b hbk
      split at hbk
      · simp only [Option.some.injEq] at hbk; subst hbk; exact hgen
      · cases hbk
    · rfl
  have hfirst : (freshNode c.p).store.state = none → blockTxs (freshNode c.p).store c.p.initialHeight = [] :=
    fun _ => hblk _
  have htb : TimeBound (bound c 0) (freshNode c.p).store := by
    intro j b hj
    have hj' : (freshDisk c.p).getBlock j = some b := hj
    rw [hb j] at hj'
    split at hj'
    · simp only [Option.some.injEq] at hj'; subst hj'
      show c.p.genesisTime ≤ _
      unfold bound; omega
    · cases hj'
  have hchain : chainTxs (freshNode c.p).store = [] := chainUpTo_nil (fun k _ => hblk k)
  have hpend : pendingTxs (freshNode c.p).store = [] := hblk _
  have himg : ∀ j, image ({ n := { prod := freshNode c.p }, before := diskOf { prod := freshNode c.p } } : RunSt) j =
      diskOf { prod := freshNode c.p } := fun j => image_nil rfl j
  refine ⟨fun j => (by rw [himg]; exact ⟨dinv_of_node hl hs hw, hfirst, htb, (fun e he => by cases he)⟩),
    hl, hs, hw, hfirst, htb, ?_, (by rw [himg]; rfl), (by rw [himg]; rfl), (fun e he => by cases he),
    (fun b hb' => by cases hb'), (fun b hb' => by cases hb'), ?_, ⟨rfl, rfl⟩, ?_, ?_⟩
  · rw [himg]; exact node_durAll hl.toInv hs
  · intro j e he; rw [himg] at he; cases he
  · intro _ j b hb'; cases hb'
  · intro _
    refine ⟨rfl, ?_, (fun b hb' => by cases hb'), rfl⟩
    show ([] : List Queue.Batch).flatten = chainTxs (freshNode c.p).store ++ pendingTxs (freshNode c.p).store
    rw [hchain, hpend]; rfl

/-- **every history from the first start**: no restart ever fails, and the invariant holds at the end -/
theorem history_inv {c : Cfg} (hc : CfgOK c) (ops : List Op) :
    ∃ σ g, history c ops = some (σ, g) ∧ FInv c σ g := by
  obtain ⟨σ0, h0, hi⟩ := init_inv hc
  obtain ⟨σ, g, hr, hf⟩ := run_inv hc hi ops
  exact ⟨σ, g, by unfold history; rw [h0]; exact hr, hf⟩

/-! ## histories without crash / without restart -/

def Op.isCrash : Op → Bool
  | .crash _ => true
  | _ => false

def Op.isRestart : Op → Bool
  | .restart => true
  | .crash _ => true
  | _ => false

theorem gstep_crashed {c : Cfg} {σ : RunSt} {g : Ghost} {op : Op} (h : op.isRestart = false) :
    (gstep c σ g op).crashed = g.crashed := by
  cases op with
  | mempool _ => rfl
  | mempoolDrain _ => rfl
  | reap => simp only [gstep]; split <;> rfl
  | produce => simp only [gstep]; split <;> rfl
  | produceFail => simp only [gstep]; split <;> rfl
  | produceSame => simp only [gstep]; split <;> rfl
  | produceCancelled _ => simp only [gstep]; split <;> rfl
  | reapPutFails => rfl
  | restart => cases h
  | crash _ => cases h

theorem run_crashed {c : Cfg} {σ σ' : RunSt} {g g' : Ghost} {ops : List Op} (hn : ∀ op ∈ ops, op.isRestart = false)
    (h : runG c σ g ops = some (σ', g')) : g'.crashed = g.crashed := by
  induction ops generalizing σ g with
  | nil => simp only [runG, Option.some.injEq, Prod.mk.injEq] at h; rw [← h.2]
  | cons op rest ih =>
    simp only [runG] at h
    split at h
    · cases h
    · rw [ih (fun o ho => hn o (by simp [ho])) h]
      exact gstep_crashed (hn op (by simp))

/-- the ghost `lost` grows only by a crash: a clean restart of a node satisfying the invariant loses nothing -/
theorem gstep_lost {c : Cfg} {σ : RunSt} {g : Ghost} {op : Op} (hi : FInv c σ g) (h : op.isCrash = false) :
    (gstep c σ g op).lost = g.lost := by
  cases op with
  | mempool _ => rfl
  | mempoolDrain _ => rfl
  | reap => simp only [gstep]; split <;> rfl
  | produce => simp only [gstep]; split <;> rfl
  | produceFail => simp only [gstep]; split <;> rfl
  | produceSame => simp only [gstep]; split <;> rfl
  | produceCancelled _ => simp only [gstep]; split <;> rfl
  | reapPutFails => rfl
  | restart => exact hi.cutFull.2
  | crash _ => cases h

theorem run_lost {c : Cfg} {σ σ' : RunSt} {g g' : Ghost} {ops : List Op} (hc : CfgOK c) (hi : FInv c σ g)
    (hn : ∀ op ∈ ops, op.isCrash = false) (h : runG c σ g ops = some (σ', g')) : g'.lost = g.lost := by
  induction ops generalizing σ g with
  | nil => simp only [runG, Option.some.injEq, Prod.mk.injEq] at h; rw [← h.2]
  | cons op rest ih =>
    simp only [runG] at h
    obtain ⟨σ1, h1, h2⟩ := step_inv hc hi op
    rw [h1] at h
    rw [ih h2 (fun o ho => hn o (by simp [ho])) h]
    exact gstep_lost hi (hn op (by simp))

end Flow
