import Model.Sync
import Proofs.Producer

/-!
# Vocabulary and basic lemmas for the sync-loop proofs (`Spec/C02`, `Spec/C05`)

* association-list lemmas for the caches (`getH`, `getD`, `filter`),
* the proposer chain `ch : Nat → Option Block`, `GoodChain`, `stateAt`, events,
* characterisation of one loop iteration `applyNext` (`advance`, `blockWrites`).
-/
namespace Sync
open Wire Chain

section Assoc
variable {α : Type}

def keys (l : List (Nat × α)) : List Nat := l.map (·.1)

theorem mem_keys {l : List (Nat × α)} {k : Nat} : k ∈ keys l ↔ ∃ v, (k, v) ∈ l := by
  simp [keys]

theorem lookup_none {l : List (Nat × α)} {k : Nat} :
    (l.find? (·.1 = k)).map (·.2) = none ↔ k ∉ keys l := by
  simp [keys, List.find?_eq_none]
  constructor
  · intro h x hx; exact h k x hx rfl
  · intro h a b hab e; subst e; exact h b hab

theorem lookup_some {l : List (Nat × α)} {k : Nat} {v : α}
    (h : (l.find? (·.1 = k)).map (·.2) = some v) : (k, v) ∈ l := by
  simp only [Option.map_eq_some_iff] at h
  obtain ⟨⟨k', v'⟩, hf, rfl⟩ := h
  have h1 := List.mem_of_find?_eq_some hf
  have h2 := List.find?_some hf
  simp at h2; subst h2; exact h1

theorem mem_filter_ne {l : List (Nat × α)} {k j : Nat} {v : α} :
    (j, v) ∈ l.filter (·.1 ≠ k) ↔ (j, v) ∈ l ∧ j ≠ k := by
  simp [List.mem_filter]

theorem keys_filter_ne {l : List (Nat × α)} {k j : Nat} :
    j ∈ keys (l.filter (·.1 ≠ k)) ↔ j ∈ keys l ∧ j ≠ k := by
  simp only [mem_keys, mem_filter_ne]
  constructor
  · rintro ⟨v, a, b⟩; exact ⟨⟨v, a⟩, b⟩
  · rintro ⟨⟨v, a⟩, b⟩; exact ⟨v, a, b⟩

theorem keys_cons (l : List (Nat × α)) (k : Nat) (v : α) : keys ((k, v) :: l) = k :: keys l := rfl

theorem length_filter_ne_lt {l : List (Nat × α)} {k : Nat} (h : k ∈ keys l) :
    (l.filter (·.1 ≠ k)).length < l.length := by
  obtain ⟨v, hv⟩ := mem_keys.mp h
  apply List.length_filter_lt_length_iff_exists.mpr
  exact ⟨(k, v), hv, by simp⟩
end Assoc

/-! ## the proposer's chain -/

abbrev PChain := Nat → Option Block

def genesisState (c : Cfg) : State :=
  { chainId := c.chainId, initialHeight := c.initialHeight, lastHeight := c.initialHeight - 1,
    lastTime := c.genesisTime, appHash := c.genesisRoot, daHeight := 0 }

/-- the state of a node that has applied the chain up to and including height `k`
(`k = initialHeight - 1`: nothing applied yet) -/
def stateAt (c : Cfg) (ch : PChain) (k : Nat) : State :=
  match ch k with
  | some b => { genesisState c with lastHeight := k, lastTime := b.sh.hdr.time,
                                    appHash := execRoot b.sh.hdr.appHash b.data.txs }
  | none => genesisState c

/-- a block without transactions, as the syncer recognises it (`bytes.Equal(DataHash, dataHashForEmptyTxs)`) -/
def IsEmpty (b : Block) : Prop := b.sh.hdr.dataHash = emptyDataHash
instance (b : Block) : Decidable (IsEmpty b) := by unfold IsEmpty; infer_instance

/-- A chain on heights `[initialHeight, top]` that a full node accepts block by block: every block passes
`execValidate` (the syncer's own validation function) against the state derived from its predecessor.
`Spec.C01` proves this of every chain the sequencer node commits.  `emptyTxs` (a header carrying the
empty-data hash has no transactions) holds for producer chains up to a SHA-256 collision; `hasMeta` holds
because the producer attaches metadata to every block before saving it. -/
structure GoodChain (c : Cfg) (ch : PChain) (top : Nat) : Prop where
  ihPos : 1 ≤ c.initialHeight
  dom : ∀ k b, ch k = some b → c.initialHeight ≤ k ∧ k ≤ top
  total : ∀ k, c.initialHeight ≤ k → k ≤ top → ∃ b, ch k = some b
  valid : ∀ k b, ch k = some b → execValidate (stateAt c ch (k - 1)) b.sh b.data = none
  emptyTxs : ∀ k b, ch k = some b → IsEmpty b → b.data.txs = []
  hasMeta : ∀ k b, ch k = some b → b.data.txs ≠ [] → b.data.metadata ≠ none

/-- non-empty blocks carry pairwise different data commitments, different heights different header hashes -/
structure DistinctCommitments (ch : PChain) : Prop where
  hashInj : ∀ j k bj bk, ch j = some bj → ch k = some bk → bj.sh.hdr.hash = bk.sh.hdr.hash → j = k
  dcInj : ∀ j k bj bk, ch j = some bj → ch k = some bk → ¬ IsEmpty bj → ¬ IsEmpty bk →
    bj.data.daCommitment = bk.data.daCommitment → j = k

inductive Ev
  | hdr (k : Nat)
  | dat (k : Nat)
  deriving DecidableEq, Repr

/-- delivery of a genuine item of the chain to the node -/
def deliver (ch : PChain) (n : FNode) : Ev → FNode × List SW
  | .hdr k => match ch k with
    | some b => onHeader n b.sh
    | none => (n, [])
  | .dat k => match ch k with
    | some b => onData n b.data
    | none => (n, [])

def keysH (n : FNode) : List Nat := keys n.hdrCache
def keysD (n : FNode) : List Nat := keys n.datCache

theorem getH_none {n : FNode} {k : Nat} : getH n k = none ↔ k ∉ keysH n := lookup_none
theorem getD_none {n : FNode} {k : Nat} : getD n k = none ↔ k ∉ keysD n := lookup_none
theorem getH_some {n : FNode} {k : Nat} {sh : SHeader} (h : getH n k = some sh) : (k, sh) ∈ n.hdrCache := lookup_some h
theorem getD_some {n : FNode} {k : Nat} {d : Data} (h : getD n k = some d) : (k, d) ∈ n.datCache := lookup_some h

/-! ## facts about a good chain -/

theorem GoodChain.below {c : Cfg} {ch : PChain} {top : Nat} (g : GoodChain c ch top) {k : Nat}
    (hk : k < c.initialHeight) : ch k = none := by
  cases h : ch k with
  | none => rfl
  | some b => have := (g.dom k b h).1; omega

theorem stateAt_genesis {c : Cfg} {ch : PChain} {top : Nat} (g : GoodChain c ch top) {k : Nat}
    (hk : k < c.initialHeight) : stateAt c ch k = genesisState c := by
  simp [stateAt, g.below hk]

theorem stateAt_lastHeight {c : Cfg} {ch : PChain} {top : Nat} (_g : GoodChain c ch top) {k : Nat}
    (hk : k + 1 = c.initialHeight ∨ ch k ≠ none) : (stateAt c ch k).lastHeight = k := by
  unfold stateAt
  cases h : ch k with
  | some b => rfl
  | none =>
    rcases hk with hk | hk
    · simp [genesisState]; omega
    · exact absurd h hk

theorem stateAt_chainId (c : Cfg) (ch : PChain) (k : Nat) : (stateAt c ch k).chainId = c.chainId := by
  unfold stateAt; split <;> rfl

/-- the predecessor height of a block of the chain is either the genesis position or a block of the chain -/
theorem GoodChain.pred {c : Cfg} {ch : PChain} {top : Nat} (g : GoodChain c ch top) {k : Nat} {b : Block}
    (hb : ch k = some b) : (k - 1) + 1 = c.initialHeight ∨ ch (k - 1) ≠ none := by
  obtain ⟨h1, h2⟩ := g.dom k b hb
  have := g.ihPos
  by_cases hk : k = c.initialHeight
  · left; omega
  · right
    obtain ⟨p, hp⟩ := g.total (k - 1) (by omega) (by omega)
    simp [hp]

structure BlockFacts (c : Cfg) (ch : PChain) (k : Nat) (b : Block) : Prop where
  height : b.sh.hdr.height = k
  chainId : b.sh.hdr.chainId = c.chainId
  appHash : b.sh.hdr.appHash = (stateAt c ch (k - 1)).appHash
  dataHash : b.data.daCommitment = b.sh.hdr.dataHash
  vdata : validateData b.sh b.data = none
  metaH : ∀ m, b.data.metadata = some m → m.height = k

theorem GoodChain.facts {c : Cfg} {ch : PChain} {top : Nat} (g : GoodChain c ch top) {k : Nat} {b : Block}
    (hb : ch k = some b) : BlockFacts c ch k b := by
  have hv := g.valid k b hb
  obtain ⟨_, _, _, hmeta, hdh, hcid, hht, _, hah⟩ := Producer.execValidate_none hv
  have hk : 1 ≤ k := Nat.le_trans g.ihPos (g.dom k b hb).1
  rw [stateAt_lastHeight g (g.pred hb)] at hht
  have hht' : b.sh.hdr.height = k := by omega
  refine ⟨hht', by rw [hcid, stateAt_chainId], hah, hdh, ?_, fun m hm => by rw [(hmeta m hm).2.1, hht']⟩
  unfold execValidate at hv
  split at hv
  · simp at hv
  · split at hv
    · simp at hv
    · assumption

/-- validation depends on the data only through `validateData` -/
theorem execValidate_swap {st : State} {sh : SHeader} {d d' : Data}
    (h : execValidate st sh d = none) (h' : validateData sh d' = none) : execValidate st sh d' = none := by
  unfold execValidate at h ⊢
  split at h
  · simp at h
  · rename_i hvb
    split at h
    · simp at h
    · simp only [h']
      exact h

theorem daCommitment_empty (d : Data) (h : d.txs = []) : d.daCommitment = emptyDataHash := by
  unfold Data.daCommitment emptyDataHash Data.daCommitment
  rw [h]

/-- a block is recognised as empty exactly when it has no transactions -/
theorem GoodChain.empty_iff {c : Cfg} {ch : PChain} {top : Nat} (g : GoodChain c ch top) {k : Nat} {b : Block}
    (hb : ch k = some b) : IsEmpty b ↔ b.data.txs = [] :=
  ⟨g.emptyTxs k b hb, fun h => by unfold IsEmpty; rw [← (g.facts hb).dataHash]; exact daCommitment_empty _ h⟩

/-- applying block `k+1` to the state at `k` gives the state at `k+1` -/
theorem stateAt_succ {c : Cfg} {ch : PChain} {top : Nat} (g : GoodChain c ch top) {k : Nat} {b : Block}
    (hb : ch (k + 1) = some b) (txs : List Bytes) (ht : txs = b.data.txs) :
    nextState (stateAt c ch k) b.sh.hdr (execRoot (stateAt c ch k).appHash txs) = stateAt c ch (k + 1) := by
  have f := g.facts hb
  have ha := f.appHash
  simp only [Nat.add_sub_cancel] at ha
  subst ht
  rw [← ha]
  conv => rhs; unfold stateAt
  rw [hb]
  simp only [nextState, f.height]
  unfold stateAt
  split <;> rfl


/-! ## one iteration of `trySyncNextBlock` -/

def blockOf (sh : SHeader) (d : Data) : Block := { sh := sh, data := d, savedSig := sh.sig }

def stateAfter (n : FNode) (sh : SHeader) (d : Data) : State :=
  nextState n.lastState sh.hdr (execRoot n.lastState.appHash d.txs)

/-- the three durable writes of one applied block, in the order the code issues them: the block, then the
state that says it was applied, then the chain height -/
def blockWrites (n : FNode) (sh : SHeader) (d : Data) : List SW :=
  [.saveBlock (n.store.height + 1) (blockOf sh d), .updateState (stateAfter n sh d), .setHeight (n.store.height + 1)]

/-- the node after one successful iteration of `trySyncNextBlock` -/
def advance (n : FNode) (sh : SHeader) (d : Data) : FNode :=
  { n with store := n.store.applyAll (blockWrites n sh d), lastState := stateAfter n sh d,
           hdrCache := n.hdrCache.filter (·.1 ≠ n.store.height + 1),
           datCache := n.datCache.filter (·.1 ≠ n.store.height + 1),
           seenD := if sh.hdr.dataHash = emptyDataHash then n.seenD else sh.hdr.dataHash :: n.seenD,
           seenH := sh.hdr.hash :: n.seenH }

theorem applyBlock_ok (n : FNode) (sh : SHeader) (d : Data) (hh : sh.hdr.height = n.store.height + 1) :
    applyBlock n sh d .ok = (advance n sh d, blockWrites n sh d, true) := by
  unfold applyBlock
  simp only [hh]
  simp [setHeightW, Store.apply, advance, blockWrites, Store.applyAll, stateAfter, blockOf]

theorem applyNext_ok {n : FNode} {sh : SHeader} {d : Data}
    (hH : getH n (n.store.height + 1) = some sh) (hD : getD n (n.store.height + 1) = some d)
    (hv : execValidate n.lastState sh d = none) (hh : sh.hdr.height = n.store.height + 1) :
    applyNext n .ok = some (advance n sh d, blockWrites n sh d, true) := by
  unfold applyNext
  simp only [hH, hD, hv]
  rw [applyBlock_ok n sh d hh]

/-! ### cached data that does not belong to the (signed) header: dropped, not fatal (/repo 4bb2ed2) -/

/-- the node after the cached data of the next height has been dropped -/
def dropData (n : FNode) : FNode := { n with datCache := n.datCache.filter (·.1 ≠ n.store.height + 1) }

/-- … and, for an empty block, rebuilt locally (`handleEmptyDataHash` again) -/
def rebuilt (n : FNode) (sh : SHeader) (d' : Data) : FNode :=
  { dropData n with datCache := (sh.hdr.height, d') :: (dropData n).datCache }

/-- a well-formed header and data that does not match it: `execValidate` fails, whatever the state -/
theorem execValidate_mismatch {st : State} {sh : SHeader} {d : Data} (hb : validateBasic sh = none)
    (hd : validateData sh d ≠ none) : ∃ e, execValidate st sh d = some e := by
  unfold execValidate
  rw [hb]
  cases h : validateData sh d with
  | none => exact absurd h hd
  | some e => exact ⟨e, rfl⟩

theorem applyNext_mismatch {n : FNode} {sh : SHeader} {d : Data}
    (hH : getH n (n.store.height + 1) = some sh) (hD : getD n (n.store.height + 1) = some d)
    (hb : validateBasic sh = none) (hd : validateData sh d ≠ none) :
    applyNext n .ok = some (dropMismatch n sh .ok) := by
  obtain ⟨e, hv⟩ := execValidate_mismatch (st := n.lastState) hb hd
  unfold applyNext
  simp only [hH, hD, hv, hb, hd, ne_eq, not_false_eq_true, and_self, ↓reduceIte]

/-- non-empty block: the mismatching data is dropped, the iteration ends without a write, the loop stays alive -/
theorem applyNext_drop {n : FNode} {sh : SHeader} {d : Data}
    (hH : getH n (n.store.height + 1) = some sh) (hD : getD n (n.store.height + 1) = some d)
    (hb : validateBasic sh = none) (hd : validateData sh d ≠ none) (hne : sh.hdr.dataHash ≠ emptyDataHash) :
    applyNext n .ok = some (dropData n, [], false) := by
  have he : emptyDataFor { n with datCache := n.datCache.filter (·.1 ≠ n.store.height + 1) } sh.hdr = none := by
    unfold emptyDataFor; rw [if_neg hne]
  rw [applyNext_mismatch hH hD hb hd]
  unfold dropMismatch
  simp only [he]
  rfl

theorem getD_rebuilt (n : FNode) (sh : SHeader) (d' : Data) (hh : sh.hdr.height = n.store.height + 1) :
    getD (rebuilt n sh d') (n.store.height + 1) = some d' := by
  simp [getD, rebuilt, hh]

theorem filter_ne_idem {α : Type} (l : List (Nat × α)) (k : Nat) :
    (l.filter (·.1 ≠ k)).filter (·.1 ≠ k) = l.filter (·.1 ≠ k) := by
  rw [List.filter_filter]; simp

theorem advance_rebuilt (n : FNode) (sh : SHeader) (d' : Data) (hh : sh.hdr.height = n.store.height + 1) :
    advance (rebuilt n sh d') sh d' = advance n sh d' := by
  simp only [advance, rebuilt, dropData, blockWrites, stateAfter]
  congr 1
  rw [List.filter_cons, hh]
  simp only [ne_eq, not_true_eq_false, decide_false, Bool.false_eq_true, ↓reduceIte]
  exact filter_ne_idem _ _

/-- empty block: the mismatching data is dropped, the local data rebuilt, and the block applied with it -/
theorem applyNext_rebuild {n : FNode} {sh : SHeader} {d d' : Data}
    (hH : getH n (n.store.height + 1) = some sh) (hD : getD n (n.store.height + 1) = some d)
    (hb : validateBasic sh = none) (hd : validateData sh d ≠ none)
    (he : emptyDataFor (dropData n) sh.hdr = some d') (hh : sh.hdr.height = n.store.height + 1)
    (hv' : execValidate n.lastState sh d' = none) :
    applyNext n .ok = some (advance n sh d', blockWrites n sh d', true) := by
  have he' : emptyDataFor { n with datCache := n.datCache.filter (·.1 ≠ n.store.height + 1) } sh.hdr = some d' := he
  have hg := getD_rebuilt n sh d' hh
  have hab := applyBlock_ok (rebuilt n sh d') sh d' hh
  rw [advance_rebuilt n sh d' hh] at hab
  rw [applyNext_mismatch hH hD hb hd]
  unfold dropMismatch
  simp only [he']
  show some (match getD (rebuilt n sh d') (n.store.height + 1) with
        | none => _ | some d2 => _) = _
  rw [hg]
  simp only [hv']
  exact congrArg some hab

theorem applyNext_none {n : FNode}
    (h : getH n (n.store.height + 1) = none ∨ getD n (n.store.height + 1) = none) : applyNext n .ok = none := by
  unfold applyNext
  rcases h with h | h
  · simp only [h]
  · simp only [h]; split <;> simp_all

theorem advance_height (n : FNode) (sh : SHeader) (d : Data) : (advance n sh d).store.height = n.store.height + 1 := by
  simp [advance, blockWrites, Store.applyAll, Store.apply]

theorem advance_getBlock (n : FNode) (sh : SHeader) (d : Data) (k : Nat) :
    (advance n sh d).store.getBlock k = if n.store.height + 1 = k then some (blockOf sh d) else n.store.getBlock k := by
  simp only [advance, blockWrites, Store.applyAll, List.foldl]
  rw [getBlock_setHeight, getBlock_updateState, getBlock_saveBlock]

theorem advance_state (n : FNode) (sh : SHeader) (d : Data) :
    (advance n sh d).store.state = some (stateAfter n sh d) := by
  simp only [advance, blockWrites, Store.applyAll, List.foldl]
  rw [state_setHeight]; rfl

/-! ## the DA-submission watermarks in the metadata (`Sync.start` reads them and raises them to
`initialHeight - 1`; the sync loop itself never writes metadata) -/

/-- both submission watermarks parse — true of every image the node wrote itself (absent, or 8 bytes);
`NewManager` fails on an image where one of them does not -/
def WmOK (d : Store) : Prop :=
  (∃ w, Producer.wmOf d Producer.hdrWmKey = some w) ∧ (∃ w, Producer.wmOf d Producer.dataWmKey = some w)

theorem wmOf_kv {d d' : Store} (h : d'.kv = d.kv) (k : String) : Producer.wmOf d' k = Producer.wmOf d k := by
  simp [Producer.wmOf, Store.getMeta, h]

theorem WmOK.kv {d d' : Store} (hw : WmOK d) (h : d'.kv = d.kv) : WmOK d' := by
  unfold WmOK; rw [wmOf_kv h, wmOf_kv h]; exact hw

theorem kv_setHeight (s : Store) (h : Nat) : (s.apply (.setHeight h)).kv = s.kv := by
  simp only [Store.apply]; split <;> rfl

theorem wmOK_empty : WmOK ({} : Store) := ⟨⟨0, rfl⟩, ⟨0, rfl⟩⟩

theorem advance_kv (n : FNode) (sh : SHeader) (d : Data) : (advance n sh d).store.kv = n.store.kv := by
  simp only [advance, blockWrites, Store.applyAll, List.foldl]
  rw [kv_setHeight]; rfl


end Sync
