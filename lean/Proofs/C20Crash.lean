import Model.Based
import Proofs.C20
import Proofs.C20Hist

/-! Crashes INSIDE a `GetNextBatch` call, at the granularity of its durable writes
(`Out.writes`: the pop's `Save`, the push-back's `Save` when a height did not fit, the `Put` of the
scan position): histories `CStep`/`playC` in which a call may die after any number `k` of its
writes — its answer is not delivered, the caller keeps its `LastBatchData`, a new sequencer starts
on the image (`crashAt`).  The invariant of `Proofs/C20Hist.lean` is carried through every crash
point except the one between the push-back's `Save` and the scan position's `Put`, with the
transactions the crash lost accounted for (`lostAt`).  Crash points `k ≥ 1` are BEYOND property
C20's quantifier (restarts between two calls = `k = 0`); they are modelled so that the
correspondence covers every crash point.  Helper file of `Spec.C20`. -/
namespace Based

inductive CStep
  | call (da : Nat → Fetch) (max : Nat)
  | restart
  | crash (da : Nat → Fetch) (max : Nat) (k : Nat)

/-- what a history leaves behind, call by call -/
inductive Chunk
  | delivered (items : List Item)
  | crashed (undelivered lost : List Item)
  deriving DecidableEq

/-- what a crash after `k` durable writes of the call loses: nothing before the first write; what
the call popped from the persisted carry-over once the pop is saved; the whole undelivered answer
once all writes (the scan position last) are on disk -/
def lostAt (cfg : Cfg) (da : Nat → Fetch) (s : St) (last : List Bytes) (m k : Nat) : List Item :=
  if k = 0 then []
  else if (getNextBatch cfg da s { max := m, last := last }).writes.length ≤ k then
    (getNextBatch cfg da s { max := m, last := last }).resp.items
  else (popQueue (effMax m) s.queue 0 0).taken

structure CPlayed where
  st : St
  last : List Bytes
  log : List Chunk

def playC (cfg : Cfg) : St → List Bytes → List CStep → CPlayed
  | s, last, [] => ⟨s, last, []⟩
  | s, last, .restart :: es => playC cfg (restart s) last es
  | s, last, .call da m :: es =>
    let r := playC cfg (getNextBatch cfg da s { max := m, last := last }).st
        (nextLast last (getNextBatch cfg da s { max := m, last := last }).resp) es
    ⟨r.st, r.last, .delivered (getNextBatch cfg da s { max := m, last := last }).resp.items :: r.log⟩
  | s, last, .crash da m k :: es =>
    let r := playC cfg (crashAt s (getNextBatch cfg da s { max := m, last := last }).writes k) last es
    ⟨r.st, r.last, .crashed (getNextBatch cfg da s { max := m, last := last }).resp.items
        (lostAt cfg da s last m k) :: r.log⟩

/-- every crash point of the history is a safe one: before the first write (`k = 0`), right after
the pop's save (`k = 1`), or after the last write; the point excluded is the one between the
push-back's save and the scan position's save (`k = 2` of three writes) -/
def SafeCrashes (cfg : Cfg) : St → List Bytes → List CStep → Prop
  | _, _, [] => True
  | s, last, .restart :: es => SafeCrashes cfg (restart s) last es
  | s, last, .call da m :: es =>
    SafeCrashes cfg (getNextBatch cfg da s { max := m, last := last }).st
      (nextLast last (getNextBatch cfg da s { max := m, last := last }).resp) es
  | s, last, .crash da m k :: es =>
    (k ≤ 1 ∨ (getNextBatch cfg da s { max := m, last := last }).writes.length ≤ k) ∧
    SafeCrashes cfg (crashAt s (getNextBatch cfg da s { max := m, last := last }).writes k) last es

def SafeCrashes.dec (cfg : Cfg) : (s : St) → (last : List Bytes) → (evs : List CStep) →
    Decidable (SafeCrashes cfg s last evs)
  | _, _, [] => isTrue trivial
  | s, last, .restart :: es => SafeCrashes.dec cfg (restart s) last es
  | s, last, .call da m :: es =>
    SafeCrashes.dec cfg (getNextBatch cfg da s { max := m, last := last }).st
      (nextLast last (getNextBatch cfg da s { max := m, last := last }).resp) es
  | s, last, .crash da m k :: es =>
    have := SafeCrashes.dec cfg (crashAt s (getNextBatch cfg da s { max := m, last := last }).writes k) last es
    inferInstanceAs (Decidable ((k ≤ 1 ∨ (getNextBatch cfg da s { max := m, last := last }).writes.length ≤ k) ∧
      SafeCrashes cfg (crashAt s (getNextBatch cfg da s { max := m, last := last }).writes k) last es))

instance (cfg : Cfg) (s : St) (last : List Bytes) (evs : List CStep) : Decidable (SafeCrashes cfg s last evs) :=
  SafeCrashes.dec cfg s last evs

def AllAnswerC (c : Content) : List CStep → Prop
  | [] => True
  | .restart :: es => AllAnswerC c es
  | .call da _ :: es => Answers c da ∧ AllAnswerC c es
  | .crash da _ _ :: es => Answers c da ∧ AllAnswerC c es

/-- the txs handed to the caller -/
def deliveredOf : List Chunk → List Item
  | [] => []
  | .delivered items :: r => items ++ deliveredOf r
  | .crashed _ _ :: r => deliveredOf r

/-- handed to the caller or lost by a crash, in the order of the calls -/
def accountOf : List Chunk → List Item
  | [] => []
  | .delivered items :: r => items ++ accountOf r
  | .crashed _ lost :: r => lost ++ accountOf r

/-- every loss is a prefix of the undelivered answer of the call that died -/
def LossesBounded : List Chunk → Prop
  | [] => True
  | .delivered _ :: r => LossesBounded r
  | .crashed und lost :: r => lost <+: und ∧ LossesBounded r

theorem delivered_sublist_account (l : List Chunk) : (deliveredOf l).Sublist (accountOf l) := by
  induction l with
  | nil => exact List.Sublist.refl _
  | cons ch r ih =>
    cases ch with
    | delivered items => exact List.Sublist.append (List.Sublist.refl _) ih
    | crashed u lo => exact List.Sublist.trans ih (List.sublist_append_right _ _)

theorem mem_account (l : List Chunk) (it : Item) (h : it ∈ accountOf l) :
    it ∈ deliveredOf l ∨ ∃ u lo, Chunk.crashed u lo ∈ l ∧ it ∈ lo := by
  induction l with
  | nil => simp [accountOf] at h
  | cons ch r ih =>
    cases ch with
    | delivered items =>
      simp only [accountOf, List.mem_append] at h
      rcases h with h | h
      · left; simp [deliveredOf, h]
      · rcases ih h with h' | ⟨u, lo, h1, h2⟩
        · left; simp [deliveredOf, h']
        · right; exact ⟨u, lo, by simp [h1], h2⟩
    | crashed u lo =>
      simp only [accountOf, List.mem_append] at h
      rcases h with h | h
      · right; exact ⟨u, lo, by simp, h⟩
      · rcases ih h with h' | ⟨u', lo', h1, h2⟩
        · left; simpa [deliveredOf] using h'
        · right; exact ⟨u', lo', by simp [h1], h2⟩

theorem lossesBounded_mem (l : List Chunk) (h : LossesBounded l) (u lo : List Item)
    (hm : Chunk.crashed u lo ∈ l) : lo <+: u := by
  induction l with
  | nil => simp at hm
  | cons ch r ih =>
    cases ch with
    | delivered items =>
      simp only [List.mem_cons, reduceCtorEq, false_or] at hm
      exact ih h hm
    | crashed u' lo' =>
      simp only [List.mem_cons, Chunk.crashed.injEq] at hm
      rcases hm with ⟨rfl, rfl⟩ | hm
      · exact h.1
      · exact ih h.2 hm

/-! ## The durable writes of a call -/

theorem gnb_writes (cfg : Cfg) (da : Nat → Fetch) (s : St) (m : Nat) :
    (getNextBatch cfg da s { max := m }).writes =
      [Wr.pending (popQueue (effMax m) s.queue 0 0).queue] ++
        (if (callScan cfg da s m).pushed.isSome then
          [Wr.pending (pushQ (popQueue (effMax m) s.queue 0 0).queue (callScan cfg da s m).pushed)] else []) ++
        [Wr.scan (callScan cfg da s m).next] := by
  simp only [getNextBatch, Bool.not_true, Bool.false_eq_true, if_false, List.getLast?_nil, callScan]
  first | rfl | (congr 2; split <;> simp_all)

theorem gnb_pendP (cfg : Cfg) (da : Nat → Fetch) (s : St) (m : Nat) :
    (getNextBatch cfg da s { max := m }).st.pendP =
      some (pushQ (popQueue (effMax m) s.queue 0 0).queue (callScan cfg da s m).pushed) := by
  simp [getNextBatch, callScan]

theorem st_ext (a b : St) (h1 : a.queue = b.queue) (h2 : a.pendP = b.pendP) (h3 : a.scanP = b.scanP) : a = b := by
  cases a; cases b; simp_all

/-- the writes, replayed on the image the call started from, give the image the call leaves: a
crash after the last write restarts in the state the completed call leaves -/
theorem crashAt_all (cfg : Cfg) (da : Nat → Fetch) (s : St) (m k : Nat)
    (hk : (getNextBatch cfg da s { max := m }).writes.length ≤ k) :
    crashAt s (getNextBatch cfg da s { max := m }).writes k = (getNextBatch cfg da s { max := m }).st := by
  unfold crashAt
  rw [List.take_of_length_le hk, gnb_writes]
  apply st_ext
  · rw [gnb_queue]
    cases hp : (callScan cfg da s m).pushed <;> simp [restart, applyWr, pushQ]
  · rw [gnb_pendP]
    cases hp : (callScan cfg da s m).pushed <;> simp [restart, applyWr, pushQ]
  · rw [gnb_scanP]
    cases hp : (callScan cfg da s m).pushed <;> simp [restart, applyWr]

theorem gnb_writes_len (cfg : Cfg) (da : Nat → Fetch) (s : St) (m : Nat) :
    2 ≤ (getNextBatch cfg da s { max := m }).writes.length := by
  rw [gnb_writes]; simp

/-- a crash right after the pop's save: the popped txs are gone from the persisted queue, the scan
position is the old one -/
theorem crashAt_one (cfg : Cfg) (da : Nat → Fetch) (s : St) (m : Nat) :
    crashAt s (getNextBatch cfg da s { max := m }).writes 1 =
      { queue := (popQueue (effMax m) s.queue 0 0).queue,
        pendP := some (popQueue (effMax m) s.queue 0 0).queue, scanP := s.scanP } := by
  unfold crashAt
  rw [gnb_writes]
  simp [restart, applyWr]

theorem crashAt_zero (s : St) (ws : List Wr) : crashAt s ws 0 = restart s := by
  simp [crashAt]

/-! ## The invariant through a crash -/

theorem inv_crash {c : Content} {cfg : Cfg} {s : St} {last : List Bytes} {R : List Item}
    (hc : IdsNotAhead c) (h : Inv c cfg s last R) (da : Nat → Fetch) (hA : Answers c da) (m k : Nat)
    (hk : k ≤ 1 ∨ (getNextBatch cfg da s { max := m, last := last }).writes.length ≤ k) :
    Inv c cfg (crashAt s (getNextBatch cfg da s { max := m, last := last }).writes k) last
      (R ++ lostAt cfg da s last m k) ∧
    lostAt cfg da s last m k <+: (getNextBatch cfg da s { max := m, last := last }).resp.items := by
  have hcall := inv_call hc h da hA m
  unfold lostAt
  rw [inv_norm h] at hk hcall ⊢
  have hlen := gnb_writes_len cfg da s m
  by_cases h0 : k = 0
  · subst h0
    rw [crashAt_zero, h.dur]
    simp only [if_true, List.append_nil]
    exact ⟨h, List.nil_prefix⟩
  · by_cases hall : (getNextBatch cfg da s { max := m }).writes.length ≤ k
    · simp only [h0, if_false, hall, if_true]
      rw [crashAt_all cfg da s m k hall]
      refine ⟨⟨hcall.dur, hcall.str, ?_⟩, List.prefix_refl _⟩
      intro id hid
      obtain ⟨e, e1, e2⟩ := h.echo id hid
      have := callScan_next_ge cfg da s m
      rw [gnb_pos]
      exact ⟨e, e1, by omega⟩
    · have hk1 : k = 1 := by omega
      subst hk1
      simp only [h0, if_false, hall]
      rw [crashAt_one]
      have hp := popQueue_flat (effMax m) s.queue 0 0
      obtain ⟨N, h1, h2⟩ := h.str
      refine ⟨⟨by simp [restart], ⟨N, ?_, ?_⟩, ?_⟩, ?_⟩
      · rw [List.append_assoc]
        show R ++ ((popQueue (effMax m) s.queue 0 0).taken ++ flat (popQueue (effMax m) s.queue 0 0).queue) = _
        rw [hp]; exact h1
      · simpa [persistedPos] using h2
      · intro id hid
        obtain ⟨e, e1, e2⟩ := h.echo id hid
        exact ⟨e, e1, by simpa [persistedPos] using e2⟩
      · rw [gnb_items]; exact List.prefix_append _ _

/-- the invariant along every history with crashes at safe points, with the losses accounted for -/
theorem playC_inv (c : Content) (cfg : Cfg) (hc : IdsNotAhead c) (evs : List CStep) (hA : AllAnswerC c evs)
    (s : St) (last : List Bytes) (R : List Item) (h : Inv c cfg s last R) (hs : SafeCrashes cfg s last evs) :
    Inv c cfg (playC cfg s last evs).st (playC cfg s last evs).last (R ++ accountOf (playC cfg s last evs).log) ∧
    LossesBounded (playC cfg s last evs).log := by
  induction evs generalizing s last R with
  | nil => simpa [playC, accountOf, LossesBounded] using h
  | cons e es ih =>
    cases e with
    | restart => exact ih hA _ _ _ (inv_restart h) hs
    | call da m =>
      have h' := ih hA.2 _ _ _ (inv_call hc h da hA.1 m) hs
      simpa [playC, accountOf, LossesBounded, List.append_assoc] using h'
    | crash da m k =>
      have hcr := inv_crash hc h da hA.1 m k hs.1
      have h' := ih hA.2 _ _ _ hcr.1 hs.2
      refine ⟨?_, ?_⟩
      · simpa [playC, accountOf, List.append_assoc] using h'.1
      · simpa [playC, LossesBounded] using ⟨hcr.2, h'.2⟩

end Based
