import Proofs.SubmitIdle

/-! Interleavings of production, submission and inclusion (C07): the global soundness invariant and its preservation
by every action. -/
namespace Submit
open Wire Chain Producer

inductive Act
  | produce (resp : SeqResp) (ex : ExecResp)
  | subH (script : List DAAns)
  | subD (script : List DAAns)
  | incl

def stepA (c : Cfg) (a : ANode) : Act → ANode
  | .produce r e => { a with n := (publish c a.n r e).1 }
  | .subH s => (headersIter a s).1
  | .subD s => (dataIter a s).1
  | .incl => (includerIter a).1

def runA (c : Cfg) (a : ANode) (acts : List Act) : ANode := acts.foldl (stepA c) a

/-- the DA double holds the header blob of a stored block with the header hash `k` -/
def HdrOnDA (a : ANode) (k : Bytes) (dh : Nat) : Prop :=
  ∃ h b, h ≤ a.n.store.height ∧ a.n.store.getBlock h = some b ∧ b.sh.hdr.hash = k ∧
    (dh, false, b.sh.hdr.height) ∈ a.daBlobs

/-- the DA double holds the signed-data blob of a stored non-empty block with the data commitment `k` -/
def DataOnDA (a : ANode) (k : Bytes) (dh : Nat) : Prop :=
  ∃ h b, h ≤ a.n.store.height ∧ a.n.store.getBlock h = some b ∧ b.data.daCommitment = k ∧ b.data.txs ≠ [] ∧
    (dh, true, dataHeight b) ∈ a.daBlobs

/-- the global invariant -/
structure G (c : Cfg) (a : ANode) : Prop where
  pinv : Inv c a.n
  incLe : a.daInc ≤ a.n.store.height
  hM : ∀ e ∈ a.hMarks, HdrOnDA a e.1 e.2
  dM : ∀ e ∈ a.dMarks, DataOnDA a e.1 e.2
  incSound : ∀ h, c.initialHeight ≤ h → h ≤ a.daInc → ∃ b, a.n.store.getBlock h = some b ∧
    (∃ dh, HdrOnDA a b.sh.hdr.hash dh) ∧
    (b.data.daCommitment = emptyDataHash ∨ ∃ dh, DataOnDA a b.data.daCommitment dh)

/-- the aggregator after `NewManager` on an empty disk: the node `freshNode c`, no marks, and the DA-included height at
`initialHeight − 1` (heights below the initial height do not exist and need no inclusion) -/
def freshA (c : Cfg) : ANode := { n := freshNode c, daInc := c.initialHeight - 1 }

/-- `freshA` is what the model's start-up computes on an empty disk -/
theorem restart_empty (c : Cfg) (clean : Bool) : restart c {} {} clean = some (freshA c) := by
  obtain ⟨_, _, hkv, _⟩ := freshDisk_facts c
  have hm : (freshNode c).store.getMeta daIncKey = none := hkv _ (by decide) (by decide)
  unfold restart
  rw [start_empty]
  simp only [hm, freshA]
  cases clean <;> simp <;> omega

theorem G_fresh (c : Cfg) (hpos : 1 ≤ c.initialHeight) : G c (freshA c) := by
  obtain ⟨hh, _, _, _⟩ := freshDisk_facts c
  have hht : (freshNode c).store.height = c.initialHeight - 1 := hh
  refine { pinv := freshNode_inv c hpos, incLe := ?_, hM := (by intro e he; cases he),
           dM := (by intro e he; cases he), incSound := fun h h1 h2 => ?_ }
  · show c.initialHeight - 1 ≤ (freshNode c).store.height; rw [hht]; exact Nat.le_refl _
  · have : h ≤ c.initialHeight - 1 := h2
    omega

/-- the facts transfer to a node whose committed blocks are the same, whose chain is at least as high and whose DA
double holds at least as much -/
theorem HdrOnDA.mono {a a' : ANode} {k : Bytes} {dh : Nat} (h : HdrOnDA a k dh)
    (hh : a.n.store.height ≤ a'.n.store.height)
    (hb : ∀ k, k ≤ a.n.store.height → a'.n.store.getBlock k = a.n.store.getBlock k)
    (hd : ∀ e ∈ a.daBlobs, e ∈ a'.daBlobs) : HdrOnDA a' k dh := by
  obtain ⟨x, b, h1, h2, h3, h4⟩ := h
  exact ⟨x, b, by omega, by rw [hb x h1]; exact h2, h3, hd _ h4⟩

theorem DataOnDA.mono {a a' : ANode} {k : Bytes} {dh : Nat} (h : DataOnDA a k dh)
    (hh : a.n.store.height ≤ a'.n.store.height)
    (hb : ∀ k, k ≤ a.n.store.height → a'.n.store.getBlock k = a.n.store.getBlock k)
    (hd : ∀ e ∈ a.daBlobs, e ∈ a'.daBlobs) : DataOnDA a' k dh := by
  obtain ⟨x, b, h1, h2, h3, h4, h5⟩ := h
  exact ⟨x, b, by omega, by rw [hb x h1]; exact h2, h3, h4, hd _ h5⟩

theorem inv_of_same_blocks {c : Cfg} {n n' : Node} (hi : Inv c n) (hb : n'.store.blocks = n.store.blocks)
    (hh : n'.store.height = n.store.height) (hs : n'.lastState = n.lastState) : Inv c n' := by
  have hg : ∀ k, n'.store.getBlock k = n.store.getBlock k := fun k => by simp [Store.getBlock, hb]
  refine Inv.of_agree hi hh hs (fun k _ => hg k) ?_ (fun k hk => by rw [hg]; exact hi.above k hk)
  intro pb hpb
  rw [hg] at hpb
  have := hi.pend pb hpb
  refine ⟨by rw [hh]; exact this.height, this.signer, ?_⟩
  intro hgt
  rw [hh] at hgt
  obtain ⟨p, hp, r⟩ := this.link hgt
  exact ⟨p, by rw [hh, hg]; exact hp, r⟩

/-- the part of `G` that only needs: same committed blocks, chain at least as high, DA double at least as large,
same DA-included height and marks that are sound -/
theorem G.transfer {c : Cfg} {a a' : ANode} (g : G c a) (hinv : Inv c a'.n)
    (hh : a.n.store.height ≤ a'.n.store.height)
    (hb : ∀ k, k ≤ a.n.store.height → a'.n.store.getBlock k = a.n.store.getBlock k)
    (hd : ∀ e ∈ a.daBlobs, e ∈ a'.daBlobs) (hinc : a'.daInc = a.daInc)
    (hM : ∀ e ∈ a'.hMarks, e ∈ a.hMarks ∨ HdrOnDA a' e.1 e.2)
    (dM : ∀ e ∈ a'.dMarks, e ∈ a.dMarks ∨ DataOnDA a' e.1 e.2) : G c a' := by
  refine ⟨hinv, by rw [hinc]; exact Nat.le_trans g.incLe hh, ?_, ?_, ?_⟩
  · intro e he
    rcases hM e he with h | h
    · exact (g.hM e h).mono hh hb hd
    · exact h
  · intro e he
    rcases dM e he with h | h
    · exact (g.dM e h).mono hh hb hd
    · exact h
  · intro h h1 h2
    rw [hinc] at h2
    obtain ⟨b, r1, ⟨dh, r2⟩, r3⟩ := g.incSound h h1 h2
    refine ⟨b, by rw [hb h (Nat.le_trans h2 g.incLe)]; exact r1, ⟨dh, r2.mono hh hb hd⟩, ?_⟩
    rcases r3 with r3 | ⟨dd, r3⟩
    · exact Or.inl r3
    · exact Or.inr ⟨dd, r3.mono hh hb hd⟩

theorem G.produce {c : Cfg} {a : ANode} (g : G c a) (r : SeqResp) (e : ExecResp) :
    G c { a with n := (publish c a.n r e).1 } := by
  have hs := publish_store g.pinv r e
  refine g.transfer (publish_inv g.pinv r e) ?_ hs.2 (fun _ h => h) rfl (fun _ h => Or.inl h) (fun _ h => Or.inl h)
  show a.n.store.height ≤ (publish c a.n r e).1.store.height
  rcases hs.1 with h | h <;> omega

theorem G.subH {c : Cfg} {a : ANode} (g : G c a) (s : List DAAns) : G c (headersIter a s).1 := by
  obtain ⟨items, rem, pre, hi, hmem⟩ := headersIter_inv a s
  have hblk : ∀ k, (headersIter a s).1.n.store.getBlock k = a.n.store.getBlock k := hi.frame.getBlock
  obtain ⟨new, hnew, _⟩ := hi.blobs
  have hd : ∀ e ∈ a.daBlobs, e ∈ (headersIter a s).1.daBlobs := fun e he => by rw [hnew]; exact List.mem_append_right _ he
  refine g.transfer (inv_of_same_blocks g.pinv hi.frame.blocks hi.frame.height hi.frame.lastState)
    (by rw [hi.frame.height]; exact Nat.le_refl _) (fun k _ => hblk k) hd hi.frame.daInc ?_ ?_
  · intro e he
    obtain ⟨nm, hnm, hall⟩ := hi.marksNew
    have he' : e ∈ marks false (headersIter a s).1 := he
    rw [hnm] at he'
    rcases List.mem_append.mp he' with h | h
    · right
      obtain ⟨it, hit, e1, _, _, e4⟩ := hall e h
      obtain ⟨k, b, _, k2, hb, rfl⟩ := hmem it (by rw [hi.split]; exact List.mem_append_left _ hit)
      exact ⟨k, b, by rw [hi.frame.height]; exact k2, by rw [hblk]; exact hb, e1.symm, e4⟩
    · exact Or.inl h
  · intro e he
    left
    have : marks true (headersIter a s).1 = marks true a := hi.frame.otherMarks
    have he' : e ∈ marks true (headersIter a s).1 := he
    rw [this] at he'; exact he'

theorem G.subD {c : Cfg} {a : ANode} (g : G c a) (s : List DAAns) : G c (dataIter a s).1 := by
  obtain ⟨items, hi, hmem⟩ := dataIter_iter a s
  have hblk : ∀ k, (dataIter a s).1.n.store.getBlock k = a.n.store.getBlock k := hi.frame.getBlock
  obtain ⟨new, hnew, _⟩ := hi.blobs
  have hd : ∀ e ∈ a.daBlobs, e ∈ (dataIter a s).1.daBlobs := fun e he => by rw [hnew]; exact List.mem_append_right _ he
  refine g.transfer (inv_of_same_blocks g.pinv hi.frame.blocks hi.frame.height hi.frame.lastState)
    (by rw [hi.frame.height]; exact Nat.le_refl _) (fun k _ => hblk k) hd hi.frame.daInc ?_ ?_
  · intro e he
    left
    have : marks false (dataIter a s).1 = marks false a := hi.frame.otherMarks
    have he' : e ∈ marks false (dataIter a s).1 := he
    rw [this] at he'; exact he'
  · intro e he
    obtain ⟨nm, hnm, hall⟩ := hi.marksNew
    have he' : e ∈ marks true (dataIter a s).1 := he
    rw [hnm] at he'
    rcases List.mem_append.mp he' with h | h
    · right
      obtain ⟨it, hit, e1, _, _, e4⟩ := hall e h
      obtain ⟨k, b, _, k2, hb, hne, rfl⟩ := hmem it hit
      exact ⟨k, b, by rw [hi.frame.height]; exact k2, by rw [hblk]; exact hb, e1.symm, hne, e4⟩
    · exact Or.inl h

theorem G.incl {c : Cfg} {a : ANode} (g : G c a) : G c (includerIter a).1 := by
  have hi := includerPass_inv (a.n.store.height + 1) a a [] (PassInv.init a)
  have hblk : ∀ k, (includerIter a).1.n.store.getBlock k = a.n.store.getBlock k := hi.frame.getBlock
  have hht : (includerIter a).1.n.store.height = a.n.store.height := hi.frame.height
  have hdb : (includerIter a).1.daBlobs = a.daBlobs := hi.frame.daBlobs
  have tH : ∀ k dh, HdrOnDA a k dh → HdrOnDA (includerIter a).1 k dh := fun k dh h =>
    h.mono (by rw [hht]; exact Nat.le_refl _) (fun k _ => hblk k) (fun e he => by rw [hdb]; exact he)
  have tD : ∀ k dh, DataOnDA a k dh → DataOnDA (includerIter a).1 k dh := fun k dh h =>
    h.mono (by rw [hht]; exact Nat.le_refl _) (fun k _ => hblk k) (fun e he => by rw [hdb]; exact he)
  refine ⟨inv_of_same_blocks g.pinv hi.frame.blocks hi.frame.height hi.frame.lastState, hi.le g.incLe, ?_, ?_, ?_⟩
  · intro e he
    have he' : e ∈ (includerIter a).1.hMarks := he
    rw [show (includerIter a).1.hMarks = a.hMarks from hi.frame.hMarks] at he'
    exact tH _ _ (g.hM e he')
  · intro e he
    have he' : e ∈ (includerIter a).1.dMarks := he
    rw [show (includerIter a).1.dMarks = a.dMarks from hi.frame.dMarks] at he'
    exact tD _ _ (g.dM e he')
  · intro h h1 h2
    by_cases hold : h ≤ a.daInc
    · obtain ⟨b, r1, ⟨dh, r2⟩, r3⟩ := g.incSound h h1 hold
      refine ⟨b, by rw [hblk]; exact r1, ⟨dh, tH _ _ r2⟩, ?_⟩
      rcases r3 with r3 | ⟨dd, r3⟩
      · exact Or.inl r3
      · exact Or.inr ⟨dd, tD _ _ r3⟩
    · obtain ⟨rec, hrec, _⟩ := hi.writes
      obtain ⟨b, hb, hm, hdd⟩ := recHeights_some (hd := (rec h).1) (dd := (rec h).2) (hrec h (by omega) h2)
      refine ⟨b, by rw [hblk]; exact hb, ⟨_, tH _ _ (g.hM _ (mem_of_markOf hm))⟩, ?_⟩
      rcases hdd with ⟨he, _⟩ | ⟨_, hdm⟩
      · exact Or.inl he
      · exact Or.inr ⟨_, tD _ _ (g.dM _ (mem_of_markOf hdm))⟩

theorem stepA_G {c : Cfg} {a : ANode} (g : G c a) (act : Act) : G c (stepA c a act) := by
  cases act with
  | produce r e => exact g.produce r e
  | subH s => exact g.subH s
  | subD s => exact g.subD s
  | incl => exact g.incl

/-- **the invariant is preserved by every action, hence by every interleaving** -/
theorem runA_G {c : Cfg} {a : ANode} (g : G c a) (acts : List Act) : G c (runA c a acts) := by
  induction acts generalizing a with
  | nil => exact g
  | cons act acts ih => exact ih (stepA_G g act)

theorem stepA_mono (c : Cfg) (a : ANode) (act : Act) : a.daInc ≤ (stepA c a act).daInc := by
  cases act with
  | produce r e => exact Nat.le_refl _
  | subH s =>
    obtain ⟨_, _, _, hi, _⟩ := headersIter_inv a s
    show a.daInc ≤ (headersIter a s).1.daInc
    rw [hi.frame.daInc]; exact Nat.le_refl _
  | subD s =>
    obtain ⟨_, hi, _⟩ := dataIter_iter a s
    show a.daInc ≤ (dataIter a s).1.daInc
    rw [hi.frame.daInc]; exact Nat.le_refl _
  | incl => exact includerPass_mono _ a []

theorem runA_mono (c : Cfg) (a : ANode) (acts : List Act) : a.daInc ≤ (runA c a acts).daInc := by
  induction acts generalizing a with
  | nil => exact Nat.le_refl _
  | cons act acts ih => exact Nat.le_trans (stepA_mono c a act) (ih _)

/-! ### clean restart -/

theorem restart_clean_keeps {c : Cfg} {a a' : ANode} (h : restart c a a.n.store true = some a')
    (hst : a.n.store.state ≠ none) :
    a'.hMarks = a.hMarks ∧ a'.dMarks = a.dMarks ∧ (∀ k, a'.n.store.getBlock k = a.n.store.getBlock k) ∧
    a.n.store.height ≤ a'.n.store.height := by
  unfold restart at h
  split at h
  · simp at h
  · rename_i n ws hs
    obtain ⟨_, _, _, _, _, _, _, _, _, hb, hh, _⟩ := start_facts hs
    simp only [Option.some.injEq] at h
    subst h
    exact ⟨rfl, rfl, fun k => hb k (fun hn => absurd hn hst), hh⟩

end Submit
