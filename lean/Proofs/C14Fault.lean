import Proofs.C14

/-! Transient read faults of the datastore (`Store.Faults`, the `…F` methods of `Model/Store.lean`):
* without faults the `…F` methods ARE the methods the refinement theorems speak about;
* a call that fails wrote nothing; a call whose first read is faulted fails with `io` — every method, also
  `SaveBlockData` since /repo 3ba0234 (before, it swallowed the error, skipped the delete of the replaced header's
  index entry and committed its four puts: `saveBlobsWSFOld`, kept for the witness);
* a history in which any reads of any calls are faulted IS the fault-free history of the calls that did not fail
  (`runF_eq_run`), so every theorem about histories carries over; in particular the recorded height only grows. -/
namespace Store

/-! ### no faults -/

@[simp] theorem heightF_noFaults (kv : KV) : heightF noFaults kv = height kv := by simp [heightF, noFaults]

@[simp] theorem setHeightF_noFaults (kv : KV) (h : Nat) : setHeightF noFaults kv h = setHeight kv h := by
  simp [setHeightF, setHeight]

@[simp] theorem setHeightWF_noFaults (kv : KV) (h : Nat) : setHeightWF noFaults kv h = setHeightW kv h := by
  simp [setHeightWF, setHeightW]

@[simp] theorem getHeightByHashF_noFaults (i : Nat) (kv : KV) (x : Bytes) :
    getHeightByHashF noFaults i kv x = getHeightByHash kv x := by simp [getHeightByHashF, noFaults]

@[simp] theorem indexPointsAtF_noFaults (i : Nat) (kv : KV) (x : Bytes) (h : Nat) :
    indexPointsAtF noFaults i kv x h = indexPointsAt kv x h := by simp [indexPointsAtF, indexPointsAt]

@[simp] theorem saveFaulted_noFaults (H : Bytes → Option Bytes) (kv : KV) (h : Nat) (x : Bytes) :
    saveFaulted H noFaults kv h x = false := by simp [saveFaulted, noFaults]

@[simp] theorem saveBlobsF_noFaults (H : Bytes → Option Bytes) (kv : KV) (h : Nat) (x : Bytes) (b : Block) :
    saveBlobsF H noFaults kv h x b = .ok (saveBlobsWS H kv h x b) := by simp [saveBlobsF]

theorem saveBlockDataF_noFaults (keyOk : Bytes → Bool) (kv : KV) (sh : Wire.SignedHeader) (d : Wire.Data)
    (sig : Bytes) : saveBlockDataF keyOk noFaults kv sh d sig = .ok (saveBlockData keyOk kv sh d sig) := by
  simp [saveBlockDataF, saveBlockData, saveBlockDataWS]

@[simp] theorem getSignatureF_noFaults (i : Nat) (kv : KV) (h : Nat) :
    getSignatureF noFaults i kv h = getSignature kv h := by simp [getSignatureF, noFaults]

@[simp] theorem getHeaderF_noFaults (keyOk : Bytes → Bool) (i : Nat) (kv : KV) (h : Nat) :
    getHeaderF keyOk noFaults i kv h = getHeader keyOk kv h := by simp [getHeaderF, noFaults]

@[simp] theorem getBlockDataF_noFaults (keyOk : Bytes → Bool) (i : Nat) (kv : KV) (h : Nat) :
    getBlockDataF keyOk noFaults i kv h = getBlockData keyOk kv h := by
  simp only [getBlockDataF, getBlockData, getHeaderF_noFaults]; simp [noFaults]

theorem getBlockByHashF_noFaults (keyOk : Bytes → Bool) (kv : KV) (x : Bytes) :
    getBlockByHashF keyOk noFaults kv x = getBlockByHash keyOk kv x := by
  simp [getBlockByHashF, getBlockByHash]

theorem getSignatureByHashF_noFaults (kv : KV) (x : Bytes) :
    getSignatureByHashF noFaults kv x = getSignatureByHash kv x := by
  simp [getSignatureByHashF, getSignatureByHash]

theorem getStateF_noFaults (kv : KV) : getStateF noFaults kv = getState kv := by simp [getStateF, noFaults]

theorem getMetadataF_noFaults (kv : KV) (k : String) : getMetadataF noFaults kv k = getMetadata kv k := by
  simp [getMetadataF, noFaults]

/-! ### one call of a store method under read faults -/

/-- the atomic writes a mutating call issues when its reads are faulted as `f` says -/
def writesF (H : Bytes → Option Bytes) (kv : KV) (f : Faults) : Op → List WriteSet
  | .setHeight h => setHeightWF f kv h
  | .save h x b =>
    match saveBlobsF H f kv h x b with
    | .ok ws => [ws]
    | .error _ => []
  | .updateState s => [updateStateWS s]
  | .setMetadata k v => [setMetadataWS k v]

theorem writesF_noFaults (H : Bytes → Option Bytes) (kv : KV) (op : Op) :
    writesF H kv noFaults op = writes H kv op := by
  cases op <;> simp [writesF, writes]

def errOf {α : Type} : Except Err α → Option Err
  | .ok _ => none
  | .error e => some e

/-- the error a mutating call answers (`none` = `nil`) -/
def mutErr (H : Bytes → Option Bytes) (f : Faults) (kv : KV) : Op → Option Err
  | .setHeight h => errOf (setHeightF f kv h)
  | .save h x b => errOf (saveBlobsF H f kv h x b)
  | _ => none

/-- every method of `DefaultStore` (mutating ones on the stored bytes, as in `Op`) -/
inductive Call
  | write (op : Op)
  | height
  | header (h : Nat)
  | block (h : Nat)
  | blockByHash (x : Bytes)
  | signature (h : Nat)
  | signatureByHash (x : Bytes)
  | state
  | metadata (k : String)

/-- does the call begin with a read of the datastore?  (`UpdateState`, `SetMetadata`: no reads at all) -/
def Call.reads : Call → Bool
  | .write (.updateState _) => false
  | .write (.setMetadata _ _) => false
  | _ => true

/-- outcome of a call: the error it answers (`none` = no error) and the atomic writes it issued -/
def Call.runF (keyOk : Bytes → Bool) (H : Bytes → Option Bytes) (f : Faults) (kv : KV) : Call → Option Err × List WriteSet
  | .write op => (mutErr H f kv op, writesF H kv f op)
  | .height => (errOf (heightF f kv), [])
  | .header h => (errOf (getHeaderF keyOk f 0 kv h), [])
  | .block h => (errOf (getBlockDataF keyOk f 0 kv h), [])
  | .blockByHash x => (errOf (getBlockByHashF keyOk f kv x), [])
  | .signature h => (errOf (getSignatureF f 0 kv h), [])
  | .signatureByHash x => (errOf (getSignatureByHashF f kv x), [])
  | .state => (errOf (getStateF f kv), [])
  | .metadata k => (errOf (getMetadataF f kv k), [])

theorem setHeightWF_eq (f : Faults) (kv : KV) (h : Nat) :
    setHeightWF f kv h = if f 0 = true then [] else setHeightW kv h := by
  unfold setHeightWF setHeightF heightF setHeightW setHeight
  by_cases hf : f 0 = true <;> simp [hf]

/-- a call that answers an error issued no write at all (every method, every fault pattern) -/
theorem failed_call_writes_nothing (keyOk : Bytes → Bool) (H : Bytes → Option Bytes) (f : Faults) (kv : KV)
    (c : Call) (e : Err) (he : (c.runF keyOk H f kv).1 = some e) : (c.runF keyOk H f kv).2 = [] := by
  cases c with
  | write op =>
    cases op with
    | setHeight h =>
      simp only [Call.runF, mutErr, writesF, setHeightWF] at he ⊢
      cases hs : setHeightF f kv h with
      | ok w => simp [hs, errOf] at he
      | error e' => rfl
    | save h x b =>
      simp only [Call.runF, mutErr, writesF] at he ⊢
      cases hs : saveBlobsF H f kv h x b with
      | ok w => simp [hs, errOf] at he
      | error e' => rfl
    | updateState s => simp [Call.runF, mutErr] at he
    | setMetadata k v => simp [Call.runF, mutErr] at he
  | _ => rfl

/-- first read faulted: every method that reads answers `io` and writes nothing -/
theorem first_read_fault (keyOk : Bytes → Bool) (H : Bytes → Option Bytes) (f : Faults) (kv : KV) (c : Call)
    (hr : c.reads = true) (hf : f 0 = true) :
    c.runF keyOk H f kv = (some .io, []) := by
  cases c with
  | write op =>
    cases op with
    | setHeight h => simp [Call.runF, mutErr, writesF, setHeightWF, setHeightF, heightF, hf, errOf]
    | save h x b => simp [Call.runF, mutErr, writesF, saveBlobsF, saveFaulted, hf, errOf]
    | updateState s => simp [Call.reads] at hr
    | setMetadata k v => simp [Call.reads] at hr
  | height => simp [Call.runF, heightF, hf, errOf]
  | header h => simp [Call.runF, getHeaderF, hf, errOf]
  | block h => simp [Call.runF, getBlockDataF, getHeaderF, hf, errOf]
  | blockByHash x => simp [Call.runF, getBlockByHashF, getHeightByHashF, hf, errOf]
  | signature h => simp [Call.runF, getSignatureF, hf, errOf]
  | signatureByHash x => simp [Call.runF, getSignatureByHashF, getHeightByHashF, hf, errOf]
  | state => simp [Call.runF, getStateF, hf, errOf]
  | metadata k => simp [Call.runF, getMetadataF, hf, errOf]

/-! ### `SaveBlockData` under read faults BEFORE /repo 3ba0234: the fault-free write-set, or the pre-34bccfd one -/

theorem staleHashFOld_cases (H : Bytes → Option Bytes) (f : Faults) (kv : KV) (h : Nat) (x : Bytes) :
    staleHashFOld H f kv h x = staleHash H kv h x ∨ staleHashFOld H f kv h x = none := by
  unfold staleHashFOld staleHash
  by_cases h0 : f 0 = true
  · simp [h0]
  · simp only [h0]
    by_cases h1 : f 1 = true
    · have e : ∀ oh, indexPointsAtF f 1 kv oh h = false := by
        intro oh; simp [indexPointsAtF, getHeightByHashF, h1]
      right
      cases kv.get (headerKey h) with
      | none => simp
      | some ob => simp only [e]; cases H ob <;> simp
    · have e : ∀ oh, indexPointsAtF f 1 kv oh h = indexPointsAt kv oh h := by
        intro oh; simp [indexPointsAtF, indexPointsAt, getHeightByHashF, h1]
      left
      simp only [e]; simp

theorem saveBlobsWSFOld_cases (H : Bytes → Option Bytes) (f : Faults) (kv : KV) (h : Nat) (x : Bytes) (b : Block) :
    saveBlobsWSFOld H f kv h x b = saveBlobsWS H kv h x b ∨ saveBlobsWSFOld H f kv h x b = saveBlobsWSOld h x b := by
  unfold saveBlobsWSFOld saveBlobsWS saveBlobsWSOld staleIndexWSFOld staleIndexWS
  rcases staleHashFOld_cases H f kv h x with e | e <;> rw [e]
  · left; rfl
  · right; rfl

/-- the look-up of the replaced header is faulted: exactly the four puts, as before /repo 34bccfd -/
theorem saveBlobsWSFOld_first_read_fault (H : Bytes → Option Bytes) (f : Faults) (kv : KV) (h : Nat) (x : Bytes)
    (b : Block) (hf : f 0 = true) : saveBlobsWSFOld H f kv h x b = saveBlobsWSOld h x b := by
  simp [saveBlobsWSFOld, saveBlobsWSOld, staleIndexWSFOld, staleHashFOld, hf]

/-! ### histories with read faults = the fault-free history of the calls that did not fail -/

def stepF (H : Bytes → Option Bytes) (kv : KV) (c : Faults × Op) : KV := applyAll kv (writesF H kv c.1 c.2)
def runF (H : Bytes → Option Bytes) (kv : KV) (cs : List (Faults × Op)) : KV := cs.foldl (stepF H) kv

/-- does the mutating call meet a faulted read (and hence fail)? -/
def faulted (H : Bytes → Option Bytes) (f : Faults) (kv : KV) : Op → Bool
  | .setHeight _ => f 0
  | .save h x _ => saveFaulted H f kv h x
  | _ => false

theorem writesF_eq (H : Bytes → Option Bytes) (kv : KV) (f : Faults) (op : Op) :
    writesF H kv f op = if faulted H f kv op = true then [] else writes H kv op := by
  cases op with
  | setHeight h => by_cases hf : f 0 = true <;> simp [writesF, writes, faulted, setHeightWF_eq, hf]
  | save h x b =>
    simp only [writesF, writes, faulted, saveBlobsF]
    by_cases hf : saveFaulted H f kv h x = true <;> simp [hf]
  | updateState s => simp [writesF, writes, faulted]
  | setMetadata k v => simp [writesF, writes, faulted]

theorem stepF_eq (H : Bytes → Option Bytes) (kv : KV) (f : Faults) (op : Op) :
    stepF H kv (f, op) = if faulted H f kv op = true then kv else step H kv op := by
  simp only [stepF, step, writesF_eq]
  by_cases hf : faulted H f kv op = true <;> simp [hf]

/-- a faulted call answers `io` -/
theorem faulted_err (H : Bytes → Option Bytes) (f : Faults) (kv : KV) (op : Op) (hf : faulted H f kv op = true) :
    mutErr H f kv op = some .io := by
  cases op with
  | setHeight h => simp [faulted] at hf; simp [mutErr, setHeightF, heightF, hf, errOf]
  | save h x b => simp [faulted] at hf; simp [mutErr, saveBlobsF, hf, errOf]
  | updateState s => simp [faulted] at hf
  | setMetadata k v => simp [faulted] at hf

theorem stepF_noFaults (H : Bytes → Option Bytes) (kv : KV) (op : Op) : stepF H kv (noFaults, op) = step H kv op := by
  simp [stepF, step, writesF_noFaults]

theorem runF_noFaults (H : Bytes → Option Bytes) (kv : KV) (ops : List Op) :
    runF H kv (ops.map fun op => (noFaults, op)) = run H kv ops := by
  induction ops generalizing kv with
  | nil => rfl
  | cons op ops ih => simp only [List.map_cons, runF, run, List.foldl_cons, stepF_noFaults]; exact ih _

/-- the calls of a history with read faults that did not fail -/
def effective (H : Bytes → Option Bytes) : KV → List (Faults × Op) → List Op
  | _, [] => []
  | kv, c :: cs =>
    if faulted H c.1 kv c.2 = true then effective H kv cs else c.2 :: effective H (step H kv c.2) cs

theorem runF_eq_run (H : Bytes → Option Bytes) (kv : KV) (cs : List (Faults × Op)) :
    runF H kv cs = run H kv (effective H kv cs) := by
  induction cs generalizing kv with
  | nil => rfl
  | cons c cs ih =>
    obtain ⟨f, op⟩ := c
    simp only [runF, List.foldl_cons, effective, stepF_eq]
    by_cases hf : faulted H f kv op = true
    · simp only [hf, if_true]; exact ih kv
    · simp only [hf]; exact ih (step H kv op)

theorem effective_mem (H : Bytes → Option Bytes) (kv : KV) (cs : List (Faults × Op)) (op : Op)
    (h : op ∈ effective H kv cs) : ∃ c ∈ cs, c.2 = op := by
  induction cs generalizing kv with
  | nil => simp [effective] at h
  | cons c cs ih =>
    simp only [effective] at h
    by_cases hf : faulted H c.1 kv c.2 = true
    · simp only [hf, if_true] at h
      obtain ⟨c', hc', e⟩ := ih kv h
      exact ⟨c', List.mem_cons_of_mem _ hc', e⟩
    · simp only [hf] at h
      rcases List.mem_cons.mp h with e | h'
      · exact ⟨c, List.mem_cons_self .., e.symm⟩
      · obtain ⟨c', hc', e⟩ := ih _ h'
        exact ⟨c', List.mem_cons_of_mem _ hc', e⟩

theorem effective_ok {H : Bytes → Option Bytes} (kv : KV) (cs : List (Faults × Op)) (hcs : ∀ c ∈ cs, c.2.OK H) :
    ∀ op ∈ effective H kv cs, op.OK H := by
  intro op h
  obtain ⟨c, hc, e⟩ := effective_mem H kv cs op h
  exact e ▸ hcs c hc

theorem runF_append (H : Bytes → Option Bytes) (kv : KV) (a b : List (Faults × Op)) :
    runF H kv (a ++ b) = runF H (runF H kv a) b := by simp [runF, List.foldl_append]

end Store
