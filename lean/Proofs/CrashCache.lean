import Model.CacheDir
import Proofs.CrashStart

/-! C04, cache clause: what a crash during `SaveCache` can leave at a cache file's path, and when `LoadCache`
accepts it (helpers for `Spec/C04.lean` §4). -/
namespace CacheDir
open Chain Producer

/-- a crash point that leaves a cut-off encoding **at the target path** exists only when files are rewritten in
place, and then only inside the write (`during false`) -/
theorem crashImage_target {f : Facts} {old : OldFile} {p : SavePoint}
    (hp : f.saveAtomic = false → p ≠ .during false) : (crashImage f old p).target ≠ .truncated := by
  cases p with
  | before => cases old <;> simp [crashImage, OldFile.file]
  | after => simp [crashImage]
  | during done =>
    cases hs : f.saveAtomic with
    | true => cases old <;> simp [crashImage, hs, OldFile.file]
    | false =>
      cases done with
      | true => simp [crashImage, hs]
      | false => exact absurd rfl (hp hs)

/-- with atomic replacement the target path never holds a cut-off encoding, wherever the crash fell -/
theorem crashImage_atomic {f : Facts} (ha : f.saveAtomic = true) (old : OldFile) (p : SavePoint) :
    (crashImage f old p).target ≠ .truncated :=
  crashImage_target (fun h => by rw [ha] at h; cases h)

/-- … it holds the old version or the new one -/
theorem crashImage_atomic_old_or_new {f : Facts} (ha : f.saveAtomic = true) (old : OldFile) (p : SavePoint) :
    (crashImage f old p).target = old.file ∨ (crashImage f old p).target = .ok := by
  cases p <;> simp [crashImage, ha]

/-- `LoadCache` accepts every crash image whose points avoid the inside of an in-place write -/
theorem loadOK_crashImages {f : Facts} (ht : f.loadIgnoresTmp = true) (olds : List OldFile) (pts : List SavePoint)
    (hp : f.saveAtomic = false → ∀ p ∈ pts, p ≠ .during false) : loadOK f (crashImages f olds pts) = true := by
  induction olds generalizing pts with
  | nil => simp [crashImages, loadOK]
  | cons o os ih =>
    cases pts with
    | nil => simp [crashImages, loadOK]
    | cons p ps =>
      have h1 : (crashImage f o p).target ≠ .truncated :=
        crashImage_target fun hs => hp hs p (List.mem_cons_self ..)
      have h2 := ih ps fun hs q hq => hp hs q (List.mem_cons_of_mem _ hq)
      simp only [crashImages, loadOK, List.zipWith_cons_cons, List.all_cons, ht, Bool.true_or, Bool.and_true,
        Bool.and_eq_true, bne_iff_ne, ne_eq] at h2 ⊢
      exact ⟨h1, h2⟩

/-- when `LoadCache` accepts the directory, `NewManager` is `start` on the store image -/
theorem startWithCaches_of_loadOK {f : Facts} {c : Cfg} {d : Store} {files : List FileImage} {r : Node × List SW}
    (hl : loadOK f files = true) (hs : start c d = .ok r) : startWithCaches f c d files = .ok r := by
  simp [startWithCaches, hs, hl]

end CacheDir
