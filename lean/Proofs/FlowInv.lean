import Proofs.FlowStep

/-!
# C11 helpers (4): ghost history, the invariant of all histories (crashes included), and its preservation
-/
namespace Flow
open Wire Chain Producer

/-- the datastore key (SHA-256 of the contents) does not collide on these batches -/
def KeyInjOn (H : List Queue.Batch) : Prop := ∀ a ∈ H, ∀ b ∈ H, key a = key b → a = b

/-- ghost history of a run -/
structure Ghost where
  /-- batches the queue accepted from the reaper, in order (a hand-off whose queue write had not become durable
  when the process died is taken back: it was never acknowledged and is offered again) -/
  handed : List Queue.Batch := []
  /-- batches the queue released to the producer, in order -/
  released : List Queue.Batch := []
  /-- batches taken by a production step that crashed after the queue delete and before the early block save -/
  lost : List Queue.Batch := []
  /-- every batch ever accepted -/
  ever : List Queue.Batch := []
  /-- a restart or crash happened -/
  crashed : Bool := false

/-- the ghost history after a restart that found only the first `k` writes `ws` of the last operation -/
def Ghost.cut (g : Ghost) (ws : List FW) (k : Nat) : Ghost :=
  match ws with
  | .qput _ :: _ =>
    if k = 0 then { g with handed := g.handed.dropLast, crashed := true } else { g with crashed := true }
  | .qdel b :: _ =>
    if k = 0 then { g with released := g.released.dropLast, crashed := true }
    else if k ≤ 2 then { g with lost := g.lost ++ [b], crashed := true }     -- THE LOSS WINDOW
    else { g with crashed := true }
  | _ => { g with crashed := true }

def gstep (c : Cfg) (σ : RunSt) (g : Ghost) : Op → Ghost
  | .mempool _ => g
  | .mempoolDrain _ => g
  | .reap =>
    match (reap c σ.n σ.mempool).2 with
    | .qput b :: _ => { g with handed := g.handed ++ [b], ever := g.ever ++ [b] }
    | _ => g
  | .produce =>
    match (produce c σ.n).2.1 with
    | .qdel b :: _ => { g with released := g.released ++ [b] }
    | _ => g
  | .produceFail =>
    match (produce c σ.n .fail).2.1 with
    | .qdel b :: _ => { g with released := g.released ++ [b] }
    | _ => g
  | .produceCancelled aware =>
    match (produce c σ.n (cancelEx c σ.n aware)).2.1 with
    | .qdel b :: _ => { g with released := g.released ++ [b] }
    | _ => g
  | .produceSame =>
    match (produce c σ.n .ok .same).2.1 with
    | .qdel b :: _ => { g with released := g.released ++ [b] }
    | _ => g
  | .reapPutFails => g
  | .restart => g.cut σ.ws σ.ws.length
  | .crash k => g.cut σ.ws k

structure CfgOK (c : Cfg) : Prop where
  ihPos : 1 ≤ c.p.initialHeight
  signer : c.p.signerAddr = c.p.proposerAddr

/-- what every durable image of a run satisfies -/
structure DGood (c : Cfg) (B : Nat) (d : Disk) : Prop where
  dinv : DInv c.p d.store
  first : d.store.state = none → blockTxs d.store c.p.initialHeight = []
  tb : TimeBound B d.store
  keyed : Queue.Keyed key d.qdisk

/-- on the image `d`, every batch of `H` is in `L`, or all its transactions are in the chain / the waiting block a
restart will see, or it is in the queue's datastore -/
def DSafe (c : Cfg) (d : Disk) (H L : List Queue.Batch) : Prop :=
  ∀ b ∈ H, b ∈ L ∨ (∀ t ∈ b, t ∈ durAll c.p d.store) ∨ (key b, b) ∈ d.qdisk

structure FInv (c : Cfg) (σ : RunSt) (g : Ghost) : Prop where
  cuts : ∀ k, DGood c (bound c σ.n.tick) (image σ k)
  live : Live c.p σ.n.prod
  synced : Synced c.p σ.n.prod
  wm : WmOK σ.n.prod.store
  first : σ.n.prod.store.state = none → blockTxs σ.n.prod.store c.p.initialHeight = []
  tb : TimeBound (bound c σ.n.tick) σ.n.prod.store
  all : durAll c.p (image σ σ.ws.length).store = chainTxs σ.n.prod.store ++ pendingTxs σ.n.prod.store
  qdisk : (image σ σ.ws.length).qdisk = σ.n.q.disk
  seen : (image σ σ.ws.length).seen = σ.n.seen
  sub : ∀ e ∈ σ.n.q.disk, e.2 ∈ σ.n.q.mem
  everH : ∀ b ∈ g.handed, b ∈ g.ever
  everM : ∀ b ∈ σ.n.q.mem, b ∈ g.ever
  cutEver : ∀ k, ∀ e ∈ (image σ k).qdisk, e.2 ∈ g.ever
  cutFull : (g.cut σ.ws σ.ws.length).handed = g.handed ∧ (g.cut σ.ws σ.ws.length).lost = g.lost
  safe : KeyInjOn g.ever → ∀ k, DSafe c (image σ k) (g.cut σ.ws k).handed (g.cut σ.ws k).lost
  exact : g.crashed = false → g.handed = g.released ++ σ.n.q.mem ∧
    g.released.flatten = chainTxs σ.n.prod.store ++ pendingTxs σ.n.prod.store ∧
    (∀ b ∈ g.handed, ∀ t ∈ b, t ∈ σ.n.seen) ∧ g.lost = []

theorem image_nil {σ : RunSt} (h : σ.ws = []) (k : Nat) : image σ k = σ.before := by
  simp [image, h]

theorem cut_st (g : Ghost) (sws : List SW) (k : Nat) : g.cut (sws.map FW.st) k = { g with crashed := true } := by
  cases sws <;> rfl

theorem FInv.keyedQ {c : Cfg} {σ : RunSt} {g : Ghost} (h : FInv c σ g) : Queue.Keyed key σ.n.q.disk := by
  rw [← h.qdisk]; exact (h.cuts _).keyed

theorem FInv.dgood_node {c : Cfg} {σ : RunSt} {g : Ghost} (h : FInv c σ g) : DGood c (bound c σ.n.tick) (diskOf σ.n) :=
  ⟨dinv_of_node h.live h.synced h.wm, h.first, h.tb, h.keyedQ⟩

theorem FInv.dsafe_node {c : Cfg} {σ : RunSt} {g : Ghost} (h : FInv c σ g) (hK : KeyInjOn g.ever) :
    DSafe c (diskOf σ.n) g.handed g.lost := by
  have := h.safe hK σ.ws.length
  rw [h.cutFull.1, h.cutFull.2] at this
  intro b hb
  rcases this b hb with h1 | h1 | h1
  · exact Or.inl h1
  · refine Or.inr (Or.inl ?_)
    intro t ht
    have := h1 t ht
    rw [h.all] at this
    show t ∈ durAll c.p σ.n.prod.store
    rw [node_durAll h.live.toInv h.synced]; exact this
  · refine Or.inr (Or.inr ?_)
    rw [h.qdisk] at h1; exact h1

theorem bound_mono (c : Cfg) (t : Nat) : bound c t ≤ bound c (t + 1) := by unfold bound; omega

/-! ## the operations -/

theorem step_mempool {c : Cfg} {σ : RunSt} {g : Ghost} (h : FInv c σ g) (txs : List Bytes) (d : Bool) :
    FInv c { σ with mempool := txs, drain := d } g :=
  ⟨h.cuts, h.live, h.synced, h.wm, h.first, h.tb, h.all, h.qdisk, h.seen, h.sub, h.everH, h.everM, h.cutEver, h.cutFull,
   h.safe, h.exact⟩

/-- the state after a restart on the image after `k` writes that built the producer node `P` -/
def recSt (σ : RunSt) (P : Producer.Node) (k : Nat) : RunSt :=
  { n := { prod := P, q := Queue.reload { mem := [], disk := (image σ k).qdisk }, seen := (image σ k).seen, tick := σ.n.tick }, before := image σ k, ws := [], mempool := σ.mempool, drain := σ.drain }

/-- **restart on the image after the first `k` writes of the last operation — for every `k`**: the node comes up
again and the invariant holds for the ghost history cut at `k` -/
theorem step_recover {c : Cfg} {σ : RunSt} {g : Ghost} (h : FInv c σ g) (k : Nat) :
    ∃ σ', recover c σ k = some σ' ∧ FInv c σ' (g.cut σ.ws k) := by
  have hd := h.cuts k
  obtain ⟨P, ws, hst, hl, hs, hw, v1, v2, v3, v4, v5⟩ := start_view hd.dinv hd.first
  have hrec : recover c σ k = some (recSt σ P k) := by
    unfold recover restart
    rw [hst]; rfl
  refine ⟨_, hrec, ?_⟩
  have himg : ∀ j, image (recSt σ P k) j = image σ k := fun j => image_nil rfl j
  have hcut0 : ∀ j, (g.cut σ.ws k).cut [] j = { g.cut σ.ws k with crashed := true } := fun _ => rfl
  have hcr : (g.cut σ.ws k).crashed = true := by
    unfold Ghost.cut
    split
    · split <;> rfl
    · split
      · rfl
      · split <;> rfl
    · rfl
  have hH : ∀ b ∈ (g.cut σ.ws k).handed, b ∈ g.handed := by
    intro b hb
    unfold Ghost.cut at hb
    split at hb
    · split at hb
      · exact (List.dropLast_sublist _).subset hb
      · exact hb
    · split at hb
      · exact hb
      · split at hb <;> exact hb
    · exact hb
  have hE : (g.cut σ.ws k).ever = g.ever := by
    unfold Ghost.cut
    split
    · split <;> rfl
    · split
      · rfl
      · split <;> rfl
    · rfl
  refine ⟨fun j => by rw [himg]; exact hd, hl, hs, hw, v4, v5 _ (by unfold bound; omega) hd.tb, ?_, rfl, rfl, ?_, ?_, ?_, ?_,
    ⟨rfl, rfl⟩, ?_, ?_⟩
  · rw [himg]
    show durAll c.p (image σ k).store = chainTxs P.store ++ pendingTxs P.store
    rw [v1, v2]; rfl
  · intro e he
    show e.2 ∈ ((image σ k).qdisk.map (·.2))
    exact List.mem_map_of_mem he
  · intro b hb; rw [hE]; exact h.everH b (hH b hb)
  · intro b hb
    rw [hE]
    have hb' : b ∈ ((image σ k).qdisk.map (·.2)) := hb
    obtain ⟨e, he, rfl⟩ := List.mem_map.1 hb'
    exact h.cutEver k e he
  · intro j e he
    rw [himg] at he
    rw [hE]; exact h.cutEver k e he
  · intro hK j
    rw [himg]
    show DSafe c (image σ k) ((g.cut σ.ws k).cut [] j).handed ((g.cut σ.ws k).cut [] j).lost
    rw [hcut0]
    rw [hE] at hK
    exact h.safe hK k
  · intro hf; rw [hcr] at hf; cases hf

/-! ### an operation that writes nothing -/

def idleSt (σ : RunSt) : RunSt := { n := σ.n, before := diskOf σ.n, ws := [], mempool := σ.mempool }

theorem step_idle {c : Cfg} {σ : RunSt} {g : Ghost} (h : FInv c σ g) : FInv c (idleSt σ) g := by
  have himg : ∀ j, image (idleSt σ) j = diskOf σ.n := fun j => image_nil rfl j
  refine ⟨fun j => by rw [himg]; exact h.dgood_node, h.live, h.synced, h.wm, h.first, h.tb, ?_, by rw [himg]; rfl,
    by rw [himg]; rfl, h.sub, h.everH, h.everM, ?_, ⟨rfl, rfl⟩, ?_, h.exact⟩
  · rw [himg]; exact node_durAll h.live.toInv h.synced
  · intro j e he
    rw [himg] at he
    exact h.everM _ (h.sub e he)
  · intro hK j
    rw [himg]
    exact h.dsafe_node hK

/-! ### an accepted hand-off -/

def accSt (σ : RunSt) (b : Queue.Batch) : RunSt :=
  { n := { σ.n with q := Queue.accept key σ.n.q b, seen := b.foldl addSeen σ.n.seen }, before := diskOf σ.n, ws := FW.qput b :: b.map FW.seen, mempool := σ.mempool }

def accG (g : Ghost) (b : Queue.Batch) : Ghost := { g with handed := g.handed ++ [b], ever := g.ever ++ [b] }

theorem img_acc (σ : RunSt) (b : Queue.Batch) (k : Nat) :
    image (accSt σ b) (k + 1) = { (diskOf σ.n).apply (.qput b) with seen := (b.take k).foldl addSeen σ.n.seen } := by
  unfold image accSt
  simp only [List.take_succ_cons, List.foldl_cons]
  rw [← List.map_take, fold_seen]; rfl

theorem keyInj_prefix {l t : List Queue.Batch} (h : KeyInjOn (l ++ t)) : KeyInjOn l :=
  fun a ha b hb => h a (List.mem_append_left _ ha) b (List.mem_append_left _ hb)

theorem step_accept {c : Cfg} {σ : RunSt} {g : Ghost} (h : FInv c σ g) (b : Queue.Batch) :
    FInv c (accSt σ b) (accG g b) := by
  have hD := h.dgood_node
  have hst : ∀ j, (image (accSt σ b) j).store = σ.n.prod.store := by
    intro j; cases j with
    | zero => rfl
    | succ j => rw [img_acc]; rfl
  have hq : ∀ j, (image (accSt σ b) (j + 1)).qdisk = σ.n.q.disk.put (key b) b := by
    intro j; rw [img_acc]; rfl
  have hlen : (accSt σ b).ws.length = b.length + 1 := by simp [accSt]
  refine ⟨?_, h.live, h.synced, h.wm, h.first, h.tb, ?_, ?_, ?_, ?_, ?_, ?_, ?_, ?_, ?_, ?_⟩
  · intro j
    refine ⟨by rw [hst]; exact hD.dinv, by rw [hst]; exact hD.first, by rw [hst]; exact hD.tb, ?_⟩
    cases j with
    | zero => exact hD.keyed
    | succ j => rw [hq]; exact Queue.keyed_put h.keyedQ b
  · rw [hst]; exact node_durAll h.live.toInv h.synced
  · rw [hlen, hq]; rfl
  · rw [hlen, img_acc, List.take_of_length_le (Nat.le_refl _)]; rfl
  · intro e he
    have he' : e ∈ Queue.Disk.put (key b) b σ.n.q.disk := he
    show e.2 ∈ σ.n.q.mem ++ [b]
    rcases Queue.Disk.mem_ins.1 he' with rfl | he'
    · simp
    · exact List.mem_append_left _ (h.sub e (Queue.Disk.mem_del.1 he').1)
  · intro x hx
    show x ∈ g.ever ++ [b]
    rcases List.mem_append.1 hx with hx | hx
    · exact List.mem_append_left _ (h.everH x hx)
    · exact List.mem_append_right _ hx
  · intro x hx
    show x ∈ g.ever ++ [b]
    have hx' : x ∈ σ.n.q.mem ++ [b] := hx
    rcases List.mem_append.1 hx' with hx' | hx'
    · exact List.mem_append_left _ (h.everM x hx')
    · exact List.mem_append_right _ hx'
  · intro j e he
    show e.2 ∈ g.ever ++ [b]
    cases j with
    | zero => exact List.mem_append_left _ (h.everM _ (h.sub e he))
    | succ j =>
      rw [hq] at he
      rcases Queue.Disk.mem_ins.1 he with rfl | he
      · simp
      · exact List.mem_append_left _ (h.everM _ (h.sub e (Queue.Disk.mem_del.1 he).1))
  · rw [hlen]
    exact ⟨rfl, rfl⟩
  · intro hK j
    have hK0 : KeyInjOn g.ever := keyInj_prefix hK
    have hn := h.dsafe_node hK0
    cases j with
    | zero =>
      show DSafe c (diskOf σ.n) (g.handed ++ [b]).dropLast g.lost
      rw [List.dropLast_concat]
      exact hn
    | succ j =>
      show DSafe c (image (accSt σ b) (j + 1)) (g.handed ++ [b]) g.lost
      intro x hx
      rcases List.mem_append.1 hx with hx | hx
      · rcases hn x hx with h1 | h1 | h1
        · exact Or.inl h1
        · exact Or.inr (Or.inl (by rw [hst]; exact h1))
        · refine Or.inr (Or.inr ?_)
          rw [hq]
          by_cases hxb : x = b
          · subst hxb; exact Queue.Disk.mem_ins.2 (Or.inl rfl)
          · refine Queue.Disk.mem_ins.2 (Or.inr (Queue.Disk.mem_del.2 ⟨h1, ?_⟩))
            intro hk
            exact hxb (hK x (List.mem_append_left _ (h.everH x hx)) b (List.mem_append_right g.ever (List.mem_singleton.2 rfl)) hk)
      · simp only [List.mem_singleton] at hx
        subst hx
        refine Or.inr (Or.inr ?_)
        rw [hq]; exact Queue.Disk.mem_ins.2 (Or.inl rfl)
  · intro hf
    obtain ⟨e1, e2, e3, e4⟩ := h.exact hf
    refine ⟨?_, e2, ?_, e4⟩
    · show g.handed ++ [b] = g.released ++ (σ.n.q.mem ++ [b])
      rw [e1, List.append_assoc]
    · intro x hx t ht
      show t ∈ b.foldl addSeen σ.n.seen
      rw [mem_foldl_addSeen]
      rcases List.mem_append.1 hx with hx | hx
      · exact Or.inl (e3 x hx t ht)
      · simp only [List.mem_singleton] at hx
        subst hx; exact Or.inr ht

def reapSt (c : Cfg) (σ : RunSt) : RunSt :=
  { n := (reap c σ.n σ.mempool).1, before := diskOf σ.n, ws := (reap c σ.n σ.mempool).2, mempool := σ.mempool }

theorem step_reap {c : Cfg} {σ : RunSt} {g : Ghost} (h : FInv c σ g) : FInv c (reapSt c σ) (gstep c σ g .reap) := by
  rcases reap_cases c σ.n σ.mempool with h0 | ⟨_, _, h1⟩
  · have e1 : reapSt c σ = idleSt σ := by unfold reapSt idleSt; rw [h0]
    have e2 : gstep c σ g .reap = g := by unfold gstep; rw [h0]
    rw [e1, e2]; exact step_idle h
  · have e1 : reapSt c σ = accSt σ (newTxs σ.n σ.mempool) := by unfold reapSt accSt; rw [h1]
    have e2 : gstep c σ g .reap = accG g (newTxs σ.n σ.mempool) := by unfold gstep; rw [h1]; rfl
    rw [e1, e2]; exact step_accept h _

/-! ### a production step -/

/-- what `produce_cases` says about the store writes `sws` of a step that put the transactions `T` into a block -/
structure ProdFacts (c : Cfg) (σ : RunSt) (P' : Producer.Node) (sws : List SW) (T : List Bytes) : Prop where
  store : P'.store = σ.n.prod.store.applyAll sws
  live : Live c.p P'
  synced : Synced c.p P'
  wm : WmOK P'.store
  dinv : ∀ j, DInv c.p (σ.n.prod.store.applyAll (sws.take j))
  wt : ∀ w ∈ sws, WTime (bound c (σ.n.tick + 1)) w
  a1 : ∀ j, j ≤ 1 → durAll c.p (σ.n.prod.store.applyAll (sws.take j)) = durAll c.p σ.n.prod.store
  a2 : ∀ j, 2 ≤ j → durAll c.p (σ.n.prod.store.applyAll (sws.take j)) = durAll c.p σ.n.prod.store ++ T
  fe : ∀ j, (σ.n.prod.store.applyAll (sws.take j)).state = none →
        blockTxs (σ.n.prod.store.applyAll (sws.take j)) c.p.initialHeight = []

def prodSt (σ : RunSt) (P' : Producer.Node) (q' : Queue.St) (pre : List FW) (sws : List SW) : RunSt :=
  { n := { σ.n with prod := P', q := q', tick := σ.n.tick + 1 }, before := diskOf σ.n, ws := pre ++ sws.map FW.st, mempool := σ.mempool }

section
variable {c : Cfg} {σ : RunSt} {g : Ghost} {P' : Producer.Node} {sws : List SW} {T : List Bytes}

theorem ProdFacts.full (f : ProdFacts c σ P' sws T) : σ.n.prod.store.applyAll (sws.take sws.length) = P'.store := by
  rw [List.take_length, f.store]

theorem ProdFacts.first' (f : ProdFacts c σ P' sws T) : P'.store.state = none → blockTxs P'.store c.p.initialHeight = [] := by
  have := f.fe sws.length
  rw [f.full] at this; exact this

theorem ProdFacts.cutTb (h : FInv c σ g) (f : ProdFacts c σ P' sws T) (j : Nat) :
    TimeBound (bound c (σ.n.tick + 1)) (σ.n.prod.store.applyAll (sws.take j)) :=
  timeBound_applyAll (h.tb.mono (bound_mono c _)) (fun w hw => f.wt w (List.mem_of_mem_take hw))

theorem ProdFacts.tb' (h : FInv c σ g) (f : ProdFacts c σ P' sws T) : TimeBound (bound c (σ.n.tick + 1)) P'.store := by
  have := f.cutTb h sws.length
  rw [f.full] at this; exact this

theorem ProdFacts.all' (f : ProdFacts c σ P' sws T) : durAll c.p P'.store = chainTxs P'.store ++ pendingTxs P'.store :=
  node_durAll f.live.toInv f.synced

/-- all transactions the old image showed are still shown at every crash point -/
theorem ProdFacts.mono (f : ProdFacts c σ P' sws T) (j : Nat) {t : Bytes} (ht : t ∈ durAll c.p σ.n.prod.store) :
    t ∈ durAll c.p (σ.n.prod.store.applyAll (sws.take j)) := by
  by_cases hj : j ≤ 1
  · rw [f.a1 j hj]; exact ht
  · rw [f.a2 j (by omega)]; exact List.mem_append_left _ ht

theorem img_prod0 (σ : RunSt) (P' : Producer.Node) (q' : Queue.St) (sws : List SW) (j : Nat) :
    image (prodSt σ P' q' [] sws) j = { diskOf σ.n with store := σ.n.prod.store.applyAll (sws.take j) } := by
  unfold image prodSt
  simp only [List.nil_append]
  rw [← List.map_take, fold_st]; rfl

theorem img_prodDel (σ : RunSt) (P' : Producer.Node) (q' : Queue.St) (b : Queue.Batch) (sws : List SW) (j : Nat) :
    image (prodSt σ P' q' [FW.qdel b] sws) (j + 1) =
      { (diskOf σ.n).apply (.qdel b) with store := σ.n.prod.store.applyAll (sws.take j) } := by
  unfold image prodSt
  simp only [List.cons_append, List.nil_append, List.take_succ_cons, List.foldl_cons]
  rw [← List.map_take, fold_st]; rfl

/-- a step that took nothing from the queue -/
theorem step_prod0 (h : FInv c σ g) (f : ProdFacts c σ P' sws []) : FInv c (prodSt σ P' σ.n.q [] sws) g := by
  have hD := h.dgood_node
  have hlen : (prodSt σ P' σ.n.q [] sws).ws.length = sws.length := by simp [prodSt]
  have hcut : ∀ j, g.cut (prodSt σ P' σ.n.q [] sws).ws j = { g with crashed := true } := by
    intro j
    show g.cut ([] ++ sws.map FW.st) j = _
    rw [List.nil_append]; exact cut_st g sws j
  refine ⟨?_, f.live, f.synced, f.wm, f.first', f.tb' h, ?_, ?_, ?_, h.sub, h.everH, h.everM, ?_, ?_, ?_, ?_⟩
  · intro j
    rw [img_prod0]
    exact ⟨f.dinv j, f.fe j, f.cutTb h j, hD.keyed⟩
  · rw [hlen, img_prod0]
    show durAll c.p (σ.n.prod.store.applyAll (sws.take sws.length)) = _
    rw [f.full]; exact f.all'
  · rw [hlen, img_prod0]; rfl
  · rw [hlen, img_prod0]; rfl
  · intro j e he
    rw [img_prod0] at he
    exact h.everM _ (h.sub e he)
  · rw [hcut]; exact ⟨rfl, rfl⟩
  · intro hK j
    rw [hcut, img_prod0]
    intro x hx
    rcases h.dsafe_node hK x hx with h1 | h1 | h1
    · exact Or.inl h1
    · exact Or.inr (Or.inl (fun t ht => f.mono j (h1 t ht)))
    · exact Or.inr (Or.inr h1)
  · intro hf
    obtain ⟨e1, e2, e3, e4⟩ := h.exact hf
    refine ⟨e1, ?_, e3, e4⟩
    show g.released.flatten = chainTxs P'.store ++ pendingTxs P'.store
    rw [e2, ← f.all', ← f.full, ← node_durAll h.live.toInv h.synced]
    by_cases hj : sws.length ≤ 1
    · rw [f.a1 _ hj]
    · rw [f.a2 _ (by omega), List.append_nil]

/-- a step that took the batch `b` from the queue -/
theorem step_prodDel (h : FInv c σ g) {b : Queue.Batch} {rest : List Queue.Batch} (f : ProdFacts c σ P' sws b)
    (hm : σ.n.q.mem = b :: rest) (h2 : 2 ≤ sws.length) :
    FInv c (prodSt σ P' (Queue.pop key σ.n.q b rest) [FW.qdel b] sws) { g with released := g.released ++ [b] } := by
  have hD := h.dgood_node
  have hlen : (prodSt σ P' (Queue.pop key σ.n.q b rest) [FW.qdel b] sws).ws.length = sws.length + 1 := by
    simp [prodSt]
  have hbm : b ∈ σ.n.q.mem := by rw [hm]; simp
  refine ⟨?_, f.live, f.synced, f.wm, f.first', f.tb' h, ?_, ?_, ?_, ?_, h.everH, ?_, ?_, ?_, ?_, ?_⟩
  · intro j
    cases j with
    | zero => exact ⟨hD.dinv, hD.first, hD.tb.mono (bound_mono c _), hD.keyed⟩
    | succ j =>
      rw [img_prodDel]
      exact ⟨f.dinv j, f.fe j, f.cutTb h j, Queue.keyed_del h.keyedQ _⟩
  · rw [hlen, img_prodDel]
    show durAll c.p (σ.n.prod.store.applyAll (sws.take sws.length)) = _
    rw [f.full]; exact f.all'
  · rw [hlen, img_prodDel]; rfl
  · rw [hlen, img_prodDel]; rfl
  · intro e he
    have he' : e ∈ Queue.Disk.del (key b) σ.n.q.disk := he
    obtain ⟨h1, h2'⟩ := Queue.Disk.mem_del.1 he'
    have hmem := h.sub e h1
    rw [hm] at hmem
    show e.2 ∈ rest
    rcases List.mem_cons.1 hmem with heq | hr
    · exact absurd (by rw [h.keyedQ e h1, heq]) h2'
    · exact hr
  · intro x hx
    have hx' : x ∈ rest := hx
    exact h.everM x (by rw [hm]; exact List.mem_cons_of_mem _ hx')
  · intro j e he
    cases j with
    | zero => exact h.everM _ (h.sub e he)
    | succ j =>
      rw [img_prodDel] at he
      have he' : e ∈ Queue.Disk.del (key b) σ.n.q.disk := he
      exact h.everM _ (h.sub e (Queue.Disk.mem_del.1 he').1)
  · rw [hlen]
    have h0 : sws.length + 1 ≠ 0 := by omega
    have h3 : ¬ sws.length + 1 ≤ 2 := by omega
    have hws : (prodSt σ P' (Queue.pop key σ.n.q b rest) [FW.qdel b] sws).ws = FW.qdel b :: sws.map FW.st := rfl
    rw [hws]
    simp only [Ghost.cut, h0, h3, ↓reduceIte, and_self]
  · intro hK j
    have hn := h.dsafe_node hK
    cases j with
    | zero =>
      show DSafe c (diskOf σ.n) g.handed g.lost
      exact hn
    | succ j =>
      rw [img_prodDel]
      have hj0 : j + 1 ≠ 0 := by omega
      intro x hx
      have hxH : x ∈ g.handed := by
        have : (Ghost.cut { g with released := g.released ++ [b] } (FW.qdel b :: ([] ++ sws.map FW.st)) (j + 1)).handed = g.handed := by
          simp only [Ghost.cut, hj0, ↓reduceIte]; split <;> rfl
        rw [← this]; exact hx
      -- the taken batch itself
      have hb : x = b → (x ∈ (Ghost.cut { g with released := g.released ++ [b] } (FW.qdel b :: ([] ++ sws.map FW.st)) (j + 1)).lost ∨
          ∀ t ∈ x, t ∈ durAll c.p (σ.n.prod.store.applyAll (sws.take j))) := by
        intro hxb
        subst hxb
        by_cases hj : j + 1 ≤ 2
        · left
          simp only [Ghost.cut, hj0, hj, ↓reduceIte]
          simp
        · right
          intro t ht
          rw [f.a2 j (by omega)]
          exact List.mem_append_right _ ht
      have hlost : x ∈ g.lost → x ∈ (Ghost.cut { g with released := g.released ++ [b] } (FW.qdel b :: ([] ++ sws.map FW.st)) (j + 1)).lost := by
        intro hxl
        simp only [Ghost.cut, hj0, ↓reduceIte]
        split
        · exact List.mem_append_left _ hxl
        · exact hxl
      rcases hn x hxH with h1 | h1 | h1
      · exact Or.inl (hlost h1)
      · exact Or.inr (Or.inl (fun t ht => f.mono j (h1 t ht)))
      · by_cases hxb : x = b
        · rcases hb hxb with h4 | h4
          · exact Or.inl h4
          · exact Or.inr (Or.inl h4)
        · refine Or.inr (Or.inr ?_)
          show (key x, x) ∈ Queue.Disk.del (key b) σ.n.q.disk
          refine Queue.Disk.mem_del.2 ⟨h1, ?_⟩
          intro hk
          exact hxb (hK x (h.everH x hxH) b (h.everM b hbm) hk)
  · intro hf
    obtain ⟨e1, e2, e3, e4⟩ := h.exact hf
    refine ⟨?_, ?_, e3, e4⟩
    · show g.handed = (g.released ++ [b]) ++ rest
      rw [e1, hm, List.append_assoc]; rfl
    · show (g.released ++ [b]).flatten = chainTxs P'.store ++ pendingTxs P'.store
      rw [List.flatten_append, e2, ← f.all', ← f.full, f.a2 _ h2, ← node_durAll h.live.toInv h.synced]
      simp

end

def produceSt (c : Cfg) (σ : RunSt) (ex : ExecResp) (clk : Clock := .real) : RunSt :=
  { n := (produce c σ.n ex clk).1, before := diskOf σ.n, ws := (produce c σ.n ex clk).2.1, mempool := σ.mempool }

/-- the ghost after a production step with the execution answer `ex` and the sequencing layer's clock `clk` -/
def prodG (c : Cfg) (σ : RunSt) (g : Ghost) (ex : ExecResp) (clk : Clock := .real) : Ghost :=
  match (produce c σ.n ex clk).2.1 with
  | .qdel b :: _ => { g with released := g.released ++ [b] }
  | _ => g

theorem step_produce {c : Cfg} {σ : RunSt} {g : Ghost} (hc : CfgOK c) (h : FInv c σ g) (ex : ExecResp)
    (clk : Clock := .real) (hclk : clk ≠ .back := by decide) :
    FInv c (produceSt c σ ex clk) (prodG c σ g ex clk) := by
  obtain ⟨P', sws, pre, q', T, e1, e2, f1, f2, f3, f4, f5, f6, hcase, f7, f8, f9⟩ :=
    produce_cases hc.signer h.live h.synced h.wm h.first h.tb ex clk hclk
  rcases hcase with ⟨rfl, rfl, rfl⟩ | ⟨b, rest, rfl, hm, rfl, rfl, h2⟩
  · have e3 : produceSt c σ ex clk = prodSt σ P' σ.n.q [] sws := by unfold produceSt prodSt; rw [e1, e2]
    have e4 : prodG c σ g ex clk = g := by
      unfold prodG; rw [e2]; cases sws <;> rfl
    rw [e3, e4]
    exact step_prod0 h ⟨f1, f2, f3, f4, f5, f6, f7, f8, f9⟩
  · have e3 : produceSt c σ ex clk = prodSt σ P' (Queue.pop key σ.n.q T rest) [FW.qdel T] sws := by
      unfold produceSt prodSt; rw [e1, e2]
    have e4 : prodG c σ g ex clk = { g with released := g.released ++ [T] } := by
      unfold prodG; rw [e2]; rfl
    rw [e3, e4]
    exact step_prodDel h ⟨f1, f2, f3, f4, f5, f6, f7, f8, f9⟩ hm h2

end Flow
