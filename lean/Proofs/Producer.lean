import Model.Producer
import Proofs.ChainLemmas

/-! Invariant of the production step and its preservation (`Spec/C01`, `Spec/C04` build on this). -/
namespace Producer
open Wire Chain

/-- what is required of the block stored at `h` in a committed chain -/
structure Linked (c : Cfg) (s : Store) (h : Nat) (b : Block) : Prop where
  height : b.sh.hdr.height = h
  sig : b.sh.sig = .by c.key (payload b.sh.hdr)
  saved : b.savedSig = b.sh.sig
  signer : b.sh.signer = mySigner c
  proposer : b.sh.hdr.proposerAddress = c.proposerAddr
  chainId : b.sh.hdr.chainId = c.chainId
  dataHash : b.data.daCommitment = b.sh.hdr.dataHash
  proposerNonEmpty : b.sh.hdr.proposerAddress ≠ []
  metaOK : ∀ m, b.data.metadata = some m → m.chainId = b.sh.hdr.chainId ∧ m.height = b.sh.hdr.height ∧ m.time = b.sh.hdr.time
  first : h = c.initialHeight → b.sh.hdr.appHash = c.genesisRoot ∧ (h > 1 → c.genesisTime ≤ b.sh.hdr.time)
  link : h > c.initialHeight → ∃ p, s.getBlock (h - 1) = some p ∧
    b.sh.hdr.lastHeaderHash = p.sh.hdr.hash ∧ p.sh.hdr.time ≤ b.sh.hdr.time ∧
    b.sh.hdr.appHash = execRoot p.sh.hdr.appHash p.data.txs

/-- shape of a block waiting at `height + 1` (early-saved, or the genesis block) -/
structure PendingOK (c : Cfg) (s : Store) (pb : Block) : Prop where
  height : pb.sh.hdr.height = s.height + 1
  signer : pb.sh.signer = mySigner c
  link : s.height + 1 > c.initialHeight → ∃ p, s.getBlock s.height = some p ∧
    pb.sh.hdr.lastHeaderHash = p.sh.hdr.hash

structure Inv (c : Cfg) (n : Node) : Prop where
  ihPos : 1 ≤ c.initialHeight
  hs : n.store.height = n.lastState.lastHeight
  low : c.initialHeight ≤ n.store.height + 1
  cid : n.lastState.chainId = c.chainId
  chain : ∀ h, c.initialHeight ≤ h → h ≤ n.store.height → ∃ b, n.store.getBlock h = some b ∧ Linked c n.store h b
  tipGen : n.store.height + 1 = c.initialHeight → n.lastState.appHash = c.genesisRoot ∧ n.lastState.lastTime = c.genesisTime
  tip : c.initialHeight ≤ n.store.height → ∃ b, n.store.getBlock n.store.height = some b ∧
    n.lastState.lastTime = b.sh.hdr.time ∧ n.lastState.appHash = execRoot b.sh.hdr.appHash b.data.txs
  pend : ∀ pb, n.store.getBlock (n.store.height + 1) = some pb → PendingOK c n.store pb
  above : ∀ h, h > n.store.height + 1 → n.store.getBlock h = none

theorem Linked.mono {c : Cfg} {s s' : Store} {h : Nat} {b : Block} (hl : Linked c s h b)
    (hag : ∀ k, k < h → s'.getBlock k = s.getBlock k) : Linked c s' h b := by
  refine { hl with link := ?_ }
  intro hgt
  obtain ⟨p, hp, r⟩ := hl.link hgt
  exact ⟨p, by rw [hag (h - 1) (by omega)]; exact hp, r⟩

/-- a store that differs only in metadata / blocks above `height` -/
theorem Inv.of_agree {c : Cfg} {n n' : Node}
    (hi : Inv c n) (hh : n'.store.height = n.store.height) (hst : n'.lastState = n.lastState)
    (hlow : ∀ k, k ≤ n.store.height → n'.store.getBlock k = n.store.getBlock k)
    (hpend : ∀ pb, n'.store.getBlock (n.store.height + 1) = some pb → PendingOK c n'.store pb)
    (habove : ∀ k, k > n.store.height + 1 → n'.store.getBlock k = none) : Inv c n' := by
  refine ⟨hi.ihPos, by rw [hh, hst]; exact hi.hs, by rw [hh]; exact hi.low, by rw [hst]; exact hi.cid, ?_, ?_, ?_, ?_, ?_⟩
  · intro h h1 h2
    rw [hh] at h2
    obtain ⟨b, hb, hl⟩ := hi.chain h h1 h2
    exact ⟨b, by rw [hlow h h2]; exact hb, hl.mono (fun k hk => hlow k (by omega))⟩
  · rw [hh, hst]; exact hi.tipGen
  · rw [hh, hst]; intro h1
    obtain ⟨b, hb, r⟩ := hi.tip h1
    exact ⟨b, by rw [hlow _ (Nat.le_refl _)]; exact hb, r⟩
  · rw [hh]; exact hpend
  · rw [hh]; exact habove

theorem inv_setMeta {c : Cfg} {n : Node} (hi : Inv c n) (k : String) (v : Bytes) (bd : List Bytes) :
    Inv c { n with store := n.store.apply (.setMeta k v), lastBatchData := bd } := by
  refine Inv.of_agree (n := n) (n' := _) hi rfl rfl ?_ ?_ ?_
  · intro k _; rfl
  · intro pb hpb
    have := hi.pend pb hpb
    exact ⟨this.height, this.signer, this.link⟩
  · intro k hk; exact hi.above k hk

/-- what `createBlock` guarantees about the fresh header -/
theorem createBlock_facts (c : Cfg) (st : State) (h : Nat) (ls : Sig) (lhh : Bytes) (txs : List Bytes) (ts : Nat) :
    (createBlock c st h ls lhh txs ts).1.hdr.height = h ∧
    (createBlock c st h ls lhh txs ts).1.signer = mySigner c ∧
    (createBlock c st h ls lhh txs ts).1.hdr.lastHeaderHash = lhh ∧
    (createBlock c st h ls lhh txs ts).1.hdr.time = ts ∧
    (createBlock c st h ls lhh txs ts).1.hdr.appHash = st.appHash ∧
    (createBlock c st h ls lhh txs ts).1.hdr.chainId = st.chainId ∧
    (createBlock c st h ls lhh txs ts).1.hdr.proposerAddress = c.proposerAddr ∧
    (createBlock c st h ls lhh txs ts).2.txs = txs ∧
    (createBlock c st h ls lhh txs ts).2.metadata = none := by
  simp [createBlock]

theorem inv_early {c : Cfg} {n : Node} (hi : Inv c n) (sh : SHeader) (d : Data)
    (hh : sh.hdr.height = n.store.height + 1) (hs : sh.signer = mySigner c)
    (hl : n.store.height + 1 > c.initialHeight → ∃ p, n.store.getBlock n.store.height = some p ∧
      sh.hdr.lastHeaderHash = p.sh.hdr.hash) (sv : Sig) :
    Inv c { n with store := n.store.apply (.saveBlock (n.store.height + 1) { sh := sh, data := d, savedSig := sv }) } := by
  refine Inv.of_agree (n := n) (n' := _) hi rfl rfl ?_ ?_ ?_
  · intro k hk
    exact getBlock_saveBlock_other _ _ _ _ (by omega)
  · intro pb hpb
    simp only [getBlock_saveBlock_same, Option.some.injEq] at hpb
    subst hpb
    refine ⟨hh, hs, ?_⟩
    intro hgt
    obtain ⟨p, hp, r⟩ := hl hgt
    refine ⟨p, ?_, r⟩
    show (n.store.apply _).getBlock n.store.height = some p
    rw [getBlock_saveBlock_other _ _ _ _ (by omega)]; exact hp
  · intro k hk
    rw [getBlock_saveBlock_other _ _ _ _ (by omega)]
    exact hi.above k hk

/-- facts extracted from a successful `execValidate` -/
theorem execValidate_none {st : State} {sh : SHeader} {d : Data} (h : execValidate st sh d = none) :
    sh.hdr.proposerAddress = sh.signer.addr ∧
    (∃ k, sh.signer.key = some k ∧ sh.sig = .by k (payload sh.hdr)) ∧
    sh.hdr.proposerAddress ≠ [] ∧
    (∀ m, d.metadata = some m → m.chainId = sh.hdr.chainId ∧ m.height = sh.hdr.height ∧ m.time = sh.hdr.time) ∧
    d.daCommitment = sh.hdr.dataHash ∧
    sh.hdr.chainId = st.chainId ∧ sh.hdr.height = st.lastHeight + 1 ∧
    (sh.hdr.height > 1 → st.lastTime ≤ sh.hdr.time) ∧ sh.hdr.appHash = st.appHash := by
  unfold execValidate at h
  split at h
  · simp at h
  · rename_i hvb
    split at h
    · simp at h
    · rename_i hvd
      split at h; · simp at h
      split at h; · simp at h
      split at h; · simp at h
      split at h; · simp at h
      rename_i h1 h2 h3 h4
      have hb : sh.hdr.proposerAddress = sh.signer.addr ∧ (∃ k, sh.signer.key = some k ∧ sh.sig = .by k (payload sh.hdr)) ∧ sh.hdr.proposerAddress ≠ [] := by
        unfold validateBasic at hvb
        split at hvb; · simp at hvb
        rename_i hne
        split at hvb; · simp at hvb
        split at hvb; · simp at hvb
        rename_i ha
        split at hvb
        · simp at hvb
        · rename_i k hk
          split at hvb
          · rename_i hv
            exact ⟨by simpa using ha, ⟨k, hk, verify_eq_true hv⟩, hne⟩
          · simp at hvb
      have hd : d.daCommitment = sh.hdr.dataHash ∧
          (∀ m, d.metadata = some m → m.chainId = sh.hdr.chainId ∧ m.height = sh.hdr.height ∧ m.time = sh.hdr.time) := by
        unfold validateData at hvd
        split at hvd
        · rename_i m hm
          split at hvd; · simp at hvd
          rename_i hmm
          split at hvd
          · simp at hvd
          · rename_i hne
            refine ⟨by simpa using hne, ?_⟩
            intro m' hm'
            rw [hm] at hm'
            have : m = m' := by simpa using hm'
            subst this
            simp only [not_or, Decidable.not_not] at hmm
            exact ⟨hmm.1.symm, hmm.2.1.symm, hmm.2.2.symm⟩
        · rename_i hm
          split at hvd
          · simp at hvd
          · rename_i hne
            exact ⟨by simpa using hne, fun m hm' => by rw [hm] at hm'; simp at hm'⟩
      refine ⟨hb.1, hb.2.1, hb.2.2, hd.2, hd.1, by simpa using h1, by simpa using h2, ?_, by simpa using h4⟩
      intro hgt
      have : ¬ (sh.hdr.height > 1 ∧ sh.hdr.time < st.lastTime) := h3
      omega

theorem daCommitment_meta (d : Data) (m : Option Metadata) :
    ({ d with metadata := m } : Data).daCommitment = d.daCommitment := rfl

/-- the finishing part of a step preserves the invariant -/
theorem finish_inv {c : Cfg} {n : Node} (hi : Inv c n) {pb : Block}
    (hpb : n.store.getBlock (n.store.height + 1) = some pb) (ws : List SW) (ldh : Bytes) (ex : ExecResp) :
    Inv c (finish c n ws pb.sh pb.data ldh ex).1 := by
  unfold finish
  cases ex with
  | fail => exact hi
  | ok =>
    simp only [signed, withMeta]
    split
    · exact hi
    · rename_i hv
      have hpo := hi.pend pb hpb
      obtain ⟨hpa, ⟨k, hk, hsig⟩, hpne, hmeta, hdh, hcid, hht, htime, hah⟩ := execValidate_none hv
      simp only at hpa hk hsig hdh hcid hht htime hah hpne hmeta
      have hkey : k = c.key := by
        have := hpo.signer
        rw [this] at hk
        simpa [mySigner] using hk.symm
      have hH : pb.sh.hdr.height = n.store.height + 1 := hpo.height
      -- the committed store
      generalize hnb : ({ sh := { pb.sh with sig := Sig.by c.key (payload pb.sh.hdr) },
                          data := { pb.data with metadata := some { chainId := pb.sh.hdr.chainId, height := pb.sh.hdr.height, time := pb.sh.hdr.time, lastDataHash := ldh } },
                          savedSig := Sig.by c.key (payload pb.sh.hdr) } : Block) = nb
      generalize hs1 : (n.store.apply (.saveBlock pb.sh.hdr.height nb)).apply (.updateState _) = s1
      have hsh := applyAll_setHeightW s1 pb.sh.hdr.height
      generalize hs2 : s1.applyAll (setHeightW s1 pb.sh.hdr.height) = s2 at hsh
      obtain ⟨h2h, h2b, h2s, _⟩ := hsh
      have h1h : s1.height = n.store.height := by rw [← hs1]; rfl
      have h2h' : s2.height = n.store.height + 1 := by
        rw [h2h, h1h, hH]; simp
      have hget : ∀ k, s2.getBlock k = if n.store.height + 1 = k then some nb else n.store.getBlock k := by
        intro k; rw [h2b, ← hs1, getBlock_updateState, getBlock_saveBlock, hH]
      have hnbL : Linked c s2 (n.store.height + 1) nb := by
        subst hnb
        refine ⟨hH, rfl, rfl, hpo.signer, ?_, ?_, ?_, hpne, hmeta, ?_, ?_⟩
        · show pb.sh.hdr.proposerAddress = c.proposerAddr
          rw [hpa, hpo.signer]; rfl
        · show pb.sh.hdr.chainId = c.chainId
          rw [hcid, hi.cid]
        · exact hdh
        · intro heq
          refine ⟨?_, ?_⟩
          · show pb.sh.hdr.appHash = c.genesisRoot
            rw [hah]; exact (hi.tipGen heq).1
          · intro hgt1
            show c.genesisTime ≤ pb.sh.hdr.time
            rw [← (hi.tipGen heq).2]; apply htime; omega
        · intro hgt
          obtain ⟨p, hp, hlk⟩ := hpo.link hgt
          obtain ⟨p', hp', ht, ha⟩ := hi.tip (by omega)
          rw [hp] at hp'
          have : p = p' := by simpa using hp'
          subst this
          refine ⟨p, ?_, hlk, ?_, ?_⟩
          · rw [hget]; simp; exact hp
          · show p.sh.hdr.time ≤ pb.sh.hdr.time
            rw [← ht]; apply htime; have := hi.ihPos; omega
          · show pb.sh.hdr.appHash = _
            rw [hah, ha]
      refine ⟨hi.ihPos, ?_, ?_, ?_, ?_, ?_, ?_, ?_, ?_⟩
      · show s2.height = _
        simp [nextState, h2h', hH]
      · show c.initialHeight ≤ s2.height + 1
        simp [h2h']; have := hi.low; omega
      · simp [nextState, hi.cid]
      · intro h h1 h2
        have h2' : h ≤ n.store.height + 1 := by simpa [h2h'] using h2
        by_cases heq : h = n.store.height + 1
        · subst heq
          refine ⟨nb, ?_, ?_⟩
          · show s2.getBlock _ = _
            simp [hget]
          · exact hnbL.mono (fun k _ => by simp)
        · obtain ⟨b, hb, hl⟩ := hi.chain h h1 (by omega)
          refine ⟨b, ?_, ?_⟩
          · show s2.getBlock _ = _
            have hne : ¬ n.store.height + 1 = h := by omega
            simp [hget, hne, hb]
          · apply hl.mono
            intro k hk
            show s2.getBlock _ = _
            have hne : ¬ n.store.height + 1 = k := by omega
            simp [hget, hne]
      · intro heq
        exfalso
        simp [h2h'] at heq
        have := hi.low
        omega
      · intro _
        refine ⟨nb, ?_, ?_, ?_⟩
        · show s2.getBlock s2.height = _
          simp [hget, h2h']
        · subst hnb; simp [nextState]
        · subst hnb; simp [nextState, hah]
      · intro pb' hpb'
        exfalso
        have hx : s2.getBlock (n.store.height + 1 + 1) = some pb' := by
          simpa [h2h'] using hpb'
        simp [hget] at hx
        rw [hi.above _ (by omega)] at hx
        simp at hx
      · intro h hgt
        have hgt' : h > n.store.height + 1 + 1 := by simpa [h2h'] using hgt
        show s2.getBlock h = none
        have hne : ¬ n.store.height + 1 = h := by omega
        simp [hget, hne]
        exact hi.above h (by omega)


theorem prevInfo_link {c : Cfg} {s : Store} {ls : Sig} {lhh ldh : Bytes} {lht : Option Nat}
    (h : prevInfo c s = some (ls, lhh, ldh, lht)) :
    s.height + 1 > c.initialHeight → ∃ p, s.getBlock s.height = some p ∧ lhh = p.sh.hdr.hash := by
  intro hgt
  unfold prevInfo at h
  have : ¬ s.height + 1 ≤ c.initialHeight := by omega
  simp only [this, ↓reduceIte] at h
  split at h
  · rename_i b hb
    simp only [Option.some.injEq, Prod.mk.injEq] at h
    exact ⟨b, hb, h.2.1.symm⟩
  · simp at h

theorem buildAndFinish_inv {c : Cfg} {n0 : Node} (h0 : Inv c n0) (w0 : SW) (ls : Sig) (lhh ldh : Bytes)
    (hl : n0.store.height + 1 > c.initialHeight → ∃ p, n0.store.getBlock n0.store.height = some p ∧ lhh = p.sh.hdr.hash)
    (txs : List Bytes) (ts : Nat) (ex : ExecResp) : Inv c (buildAndFinish c n0 w0 ls lhh ldh txs ts ex).1 := by
  unfold buildAndFinish
  obtain ⟨f1, f2, f3, _⟩ := createBlock_facts c n0.lastState (n0.store.height + 1) ls lhh txs ts
  generalize createBlock c n0.lastState (n0.store.height + 1) ls lhh txs ts = blk at f1 f2 f3
  have h1 := inv_early h0 blk.1 blk.2 f1 f2
    (by intro hgt; obtain ⟨p, hp, hq⟩ := hl hgt; exact ⟨p, hp, by rw [f3]; exact hq⟩) .none
  exact finish_inv h1 (pb := Block.mk blk.1 blk.2 .none)
    (by show (n0.store.apply _).getBlock ((n0.store.apply _).height + 1) = _
        simp) _ ldh ex

theorem fresh_inv {c : Cfg} {n : Node} (hi : Inv c n)
    (ls : Sig) (lhh ldh : Bytes) (lht : Option Nat)
    (hl : n.store.height + 1 > c.initialHeight → ∃ p, n.store.getBlock n.store.height = some p ∧ lhh = p.sh.hdr.hash)
    (resp : SeqResp) (ex : ExecResp) : Inv c (fresh c n ls lhh ldh lht resp ex).1 := by
  unfold fresh
  cases resp with
  | err => exact hi
  | absent => exact hi
  | batch txs ts bd =>
    have h0 := inv_setMeta hi lastBatchDataKey (batchDataToBytes bd) bd
    simp only
    split
    · exact h0
    · split
      · exact h0
      · exact buildAndFinish_inv h0 _ ls lhh ldh hl txs ts ex

/-- **One production step preserves the invariant**, whatever the sequencing and execution layers answer. -/
theorem publish_inv {c : Cfg} {n : Node} (hi : Inv c n) (resp : SeqResp) (ex : ExecResp) :
    Inv c (publish c n resp ex).1 := by
  unfold publish
  split
  · exact hi
  · split
    · exact hi
    · rename_i ls lhh ldh lht hprev
      split
      · rename_i pb hpb
        exact finish_inv hi hpb [] ldh ex
      · rename_i hnone
        exact fresh_inv hi ls lhh ldh lht (prevInfo_link hprev) resp ex

/-- a run of the producer: any list of (sequencing response, execution outcome) -/
def run (c : Cfg) (n : Node) (rs : List (SeqResp × ExecResp)) : Node :=
  rs.foldl (fun n r => (publish c n r.1 r.2).1) n

theorem run_inv {c : Cfg} {n : Node} (hi : Inv c n) (rs : List (SeqResp × ExecResp)) : Inv c (run c n rs) := by
  induction rs generalizing n with
  | nil => exact hi
  | cons r rs ih => exact ih (publish_inv hi r.1 r.2)


/-! ### heights and stability of committed blocks -/

theorem finish_store {c : Cfg} {n : Node} (ws : List SW) (sh : SHeader) (d : Data) (ldh : Bytes) (ex : ExecResp)
    (hh : sh.hdr.height = n.store.height + 1) :
    ((finish c n ws sh d ldh ex).1.store.height = n.store.height ∨
     (finish c n ws sh d ldh ex).1.store.height = n.store.height + 1) ∧
    (∀ k, k ≤ n.store.height → (finish c n ws sh d ldh ex).1.store.getBlock k = n.store.getBlock k) := by
  unfold finish
  cases ex with
  | fail => exact ⟨Or.inl rfl, fun _ _ => rfl⟩
  | ok =>
    simp only [signed, withMeta]
    split
    · exact ⟨Or.inl rfl, fun _ _ => rfl⟩
    · simp only [hh]
      generalize hs1 : (n.store.apply (.saveBlock (n.store.height + 1) _)).apply (.updateState _) = s1
      have h1h : s1.height = n.store.height := by rw [← hs1]; rfl
      obtain ⟨a1, a2, _, _⟩ := applyAll_setHeightW s1 (n.store.height + 1)
      constructor
      · right
        show (Store.applyAll _ _).height = _
        simp [a1, h1h]
      · intro k hk
        show (Store.applyAll _ _).getBlock k = _
        rw [a2, ← hs1, getBlock_updateState]
        exact getBlock_saveBlock_other _ _ _ _ (by omega)

theorem buildAndFinish_store {c : Cfg} {n0 : Node} (w0 : SW) (ls : Sig) (lhh ldh : Bytes)
    (txs : List Bytes) (ts : Nat) (ex : ExecResp) :
    ((buildAndFinish c n0 w0 ls lhh ldh txs ts ex).1.store.height = n0.store.height ∨
     (buildAndFinish c n0 w0 ls lhh ldh txs ts ex).1.store.height = n0.store.height + 1) ∧
    (∀ k, k ≤ n0.store.height → (buildAndFinish c n0 w0 ls lhh ldh txs ts ex).1.store.getBlock k = n0.store.getBlock k) := by
  unfold buildAndFinish
  obtain ⟨f1, _⟩ := createBlock_facts c n0.lastState (n0.store.height + 1) ls lhh txs ts
  generalize createBlock c n0.lastState (n0.store.height + 1) ls lhh txs ts = blk at f1
  have := finish_store (c := c)
    (n := { n0 with store := n0.store.apply (.saveBlock (n0.store.height + 1) (Block.mk blk.1 blk.2 .none)) })
    [w0, .saveBlock (n0.store.height + 1) (Block.mk blk.1 blk.2 .none)] blk.1 blk.2 ldh ex f1
  refine ⟨this.1, fun k hk => ?_⟩
  rw [this.2 k hk]
  exact getBlock_saveBlock_other _ _ _ _ (by omega)

theorem publish_store {c : Cfg} {n : Node} (hi : Inv c n) (resp : SeqResp) (ex : ExecResp) :
    ((publish c n resp ex).1.store.height = n.store.height ∨
     (publish c n resp ex).1.store.height = n.store.height + 1) ∧
    (∀ k, k ≤ n.store.height → (publish c n resp ex).1.store.getBlock k = n.store.getBlock k) := by
  unfold publish
  split
  · exact ⟨Or.inl rfl, fun _ _ => rfl⟩
  · split
    · exact ⟨Or.inl rfl, fun _ _ => rfl⟩
    · split
      · rename_i pb hpb
        exact finish_store [] pb.sh pb.data _ ex (hi.pend pb hpb).height
      · unfold fresh
        cases resp with
        | err => exact ⟨Or.inl rfl, fun _ _ => rfl⟩
        | absent => exact ⟨Or.inl rfl, fun _ _ => rfl⟩
        | batch txs ts bd =>
          simp only
          split
          · exact ⟨Or.inl rfl, fun _ _ => rfl⟩
          · split
            · exact ⟨Or.inl rfl, fun _ _ => rfl⟩
            · exact buildAndFinish_store (n0 := { n with store := n.store.apply (.setMeta lastBatchDataKey (batchDataToBytes bd)), lastBatchData := bd }) _ _ _ _ txs ts ex


/-! ### start-up on an empty disk -/

def genesisState (c : Cfg) : State :=
  { chainId := c.chainId, initialHeight := c.initialHeight, lastHeight := c.initialHeight - 1,
    lastTime := c.genesisTime, appHash := c.genesisRoot, daHeight := 0 }

/-- the write by which `start` raises a submission watermark that reads `w` to `initialHeight - 1` -/
def wmWrite (c : Cfg) (key : String) (w : Nat) : List SW :=
  if c.initialHeight > 1 ∧ c.initialHeight - 1 > w then [.setMeta key (le64 (c.initialHeight - 1))] else []

/-- … and the watermark the node then holds in memory -/
def wmRaise (c : Cfg) (w : Nat) : Nat :=
  if c.initialHeight > 1 ∧ c.initialHeight - 1 > w then c.initialHeight - 1 else w

theorem le64_length (x : Nat) : (le64 x).length = 8 := by
  have : ∀ n x, (Bytes.le n x).length = n := by
    intro n
    induction n with
    | zero => intro x; rfl
    | succ n ih => intro x; simp [Bytes.le, ih]
  exact this 8 x

/-- a watermark write changes nothing but the metadata under its key -/
theorem wmWrite_facts (c : Cfg) (d : Store) (key : String) (w : Nat) :
    (d.applyAll (wmWrite c key w)).height = d.height ∧
    (∀ k, (d.applyAll (wmWrite c key w)).getBlock k = d.getBlock k) ∧
    (d.applyAll (wmWrite c key w)).state = d.state ∧
    (∀ k, k ≠ key → (d.applyAll (wmWrite c key w)).getMeta k = d.getMeta k) ∧
    (d.applyAll (wmWrite c key w)).getMeta key = (if c.initialHeight > 1 ∧ c.initialHeight - 1 > w
      then some (le64 (c.initialHeight - 1)) else d.getMeta key) := by
  unfold wmWrite
  split
  · refine ⟨rfl, fun _ => rfl, rfl, fun k hk => ?_, ?_⟩
    · have hne : ¬ key = k := fun h => hk h.symm
      simp [Store.applyAll, Store.apply, Store.getMeta, hne]
    · simp [Store.applyAll, Store.apply, Store.getMeta]
  · exact ⟨rfl, fun _ => rfl, rfl, fun _ _ => rfl, rfl⟩

def freshDisk (c : Cfg) : Store :=
  let d1 := ({} : Store).apply (.saveBlock c.initialHeight (genesisBlock c))
  ((d1.applyAll (setHeightW d1 (c.initialHeight - 1))).applyAll (wmWrite c hdrWmKey 0)).applyAll (wmWrite c dataWmKey 0)

/-- the node `NewManager` builds on an empty disk -/
def freshNode (c : Cfg) : Node :=
  { store := freshDisk c, lastState := genesisState c, lastBatchData := [], hdrWm := wmRaise c 0, dataWm := wmRaise c 0,
    daHeight := 0 }

theorem freshDisk_facts (c : Cfg) :
    (freshDisk c).height = c.initialHeight - 1 ∧
    (∀ k, (freshDisk c).getBlock k = if c.initialHeight = k then some (genesisBlock c) else none) ∧
    (∀ k, k ≠ hdrWmKey → k ≠ dataWmKey → (freshDisk c).getMeta k = none) ∧ (freshDisk c).state = none := by
  unfold freshDisk
  simp only
  generalize hd1' : (({} : Store).apply (.saveBlock c.initialHeight (genesisBlock c))) = d1
  have hd1 : ∀ k, d1.getBlock k = if c.initialHeight = k then some (genesisBlock c) else none := by
    intro k; rw [← hd1', getBlock_saveBlock]; rfl
  have hd1h : d1.height = 0 := by rw [← hd1']; rfl
  have hd1kv : d1.kv = [] := by rw [← hd1']; rfl
  have hd1s : d1.state = none := by rw [← hd1']; rfl
  obtain ⟨a1, a2, a3, a4⟩ := applyAll_setHeightW d1 (c.initialHeight - 1)
  generalize d1.applyAll (setHeightW d1 (c.initialHeight - 1)) = d2 at a1 a2 a3 a4
  obtain ⟨b1, b2, b3, b4, _⟩ := wmWrite_facts c d2 hdrWmKey 0
  generalize d2.applyAll (wmWrite c hdrWmKey 0) = d3 at b1 b2 b3 b4
  obtain ⟨e1, e2, e3, e4, _⟩ := wmWrite_facts c d3 dataWmKey 0
  refine ⟨?_, fun k => by rw [e2, b2, a2, hd1], fun k h1 h2 => ?_, by rw [e3, b3, a3, hd1s]⟩
  · rw [e1, b1, a1, hd1h]; split <;> omega
  · rw [e4 k h2, b4 k h1]; simp [Store.getMeta, a4, hd1kv]

theorem wmRaise_zero (c : Cfg) : wmRaise c 0 = c.initialHeight - 1 := by
  unfold wmRaise; split <;> omega

/-- both submission watermarks of a fresh node stand at `initialHeight - 1` -/
theorem freshNode_wm (c : Cfg) : (freshNode c).hdrWm = c.initialHeight - 1 ∧ (freshNode c).dataWm = c.initialHeight - 1 :=
  ⟨wmRaise_zero c, wmRaise_zero c⟩

def freshWrites (c : Cfg) : List SW :=
  [SW.saveBlock c.initialHeight (genesisBlock c)] ++
    setHeightW (({} : Store).apply (.saveBlock c.initialHeight (genesisBlock c))) (c.initialHeight - 1) ++
    wmWrite c hdrWmKey 0 ++ wmWrite c dataWmKey 0

theorem start_empty (c : Cfg) : start c {} = .ok (freshNode c, freshWrites c) := by
  obtain ⟨_, _, hkv, _⟩ := freshDisk_facts c
  have hm : (freshDisk c).getMeta lastBatchDataKey = none := hkv _ (by decide) (by decide)
  generalize hd2 : (({} : Store).apply (.saveBlock c.initialHeight (genesisBlock c))).applyAll
      (setHeightW (({} : Store).apply (.saveBlock c.initialHeight (genesisBlock c))) (c.initialHeight - 1)) = d2
  have hd2kv : d2.kv = [] := by
    rw [← hd2, (applyAll_setHeightW _ _).2.2.2]; rfl
  have hwm : ∀ k, wmOf d2 k = some 0 := by
    intro k; simp [wmOf, Store.getMeta, hd2kv]
  have hfd : freshDisk c = (d2.applyAll (wmWrite c hdrWmKey 0)).applyAll (wmWrite c dataWmKey 0) := by
    rw [← hd2]; rfl
  unfold start
  simp only []
  rw [hd2]
  show (match wmOf d2 hdrWmKey, wmOf d2 dataWmKey with
        | some hw, some dw => _ | _, _ => _) = _
  rw [hwm, hwm]
  simp only
  have hm' : ((d2.applyAll (wmWrite c hdrWmKey 0)).applyAll (wmWrite c dataWmKey 0)).getMeta lastBatchDataKey = none := by
    rw [← hfd]; exact hm
  have hm'' := hm'
  unfold wmWrite at hm''
  rw [hm'']
  simp only [freshNode, hfd, genesisState, freshWrites, wmWrite, wmRaise, hd2]
  simp

theorem freshNode_inv (c : Cfg) (hpos : 1 ≤ c.initialHeight) : Inv c (freshNode c) := by
  obtain ⟨hh, hg, hkv, hst⟩ := freshDisk_facts c
  refine ⟨hpos, ?_, ?_, rfl, ?_, ?_, ?_, ?_, ?_⟩
  · show (freshDisk c).height = _; rw [hh]; rfl
  · show c.initialHeight ≤ (freshDisk c).height + 1; rw [hh]; omega
  · intro h h1 h2
    have : h ≤ (freshDisk c).height := h2
    rw [hh] at this; omega
  · intro _; exact ⟨rfl, rfl⟩
  · intro h1
    have : c.initialHeight ≤ (freshDisk c).height := h1
    rw [hh] at this; omega
  · intro pb hpb
    have hpb' : (freshDisk c).getBlock ((freshDisk c).height + 1) = some pb := hpb
    rw [hh, hg, if_pos (by omega)] at hpb'
    simp only [Option.some.injEq] at hpb'
    subst hpb'
    refine ⟨?_, rfl, ?_⟩
    · show (genesisBlock c).sh.hdr.height = (freshDisk c).height + 1
      rw [hh]; simp [genesisBlock]; omega
    · intro hgt
      have : (freshDisk c).height + 1 > c.initialHeight := hgt
      rw [hh] at this; omega
  · intro h hgt
    have : h > (freshDisk c).height + 1 := hgt
    rw [hh] at this
    show (freshDisk c).getBlock h = none
    rw [hg, if_neg (by omega)]


/-! ### liveness when no invalid block is waiting at `height + 1` -/

theorem daCommitment_txs (txs : List Bytes) (m : Option Metadata) :
    ({ metadata := m, txs := txs } : Data).daCommitment =
      (if txs.isEmpty then emptyDataHash else ({ txs := txs } : Data).daCommitment) := by
  cases txs with
  | nil => rfl
  | cons t ts => rfl

theorem createBlock_validates {c : Cfg} {st : State} (h : Nat) (ls : Sig) (lhh ldh : Bytes) (txs : List Bytes) (ts : Nat)
    (hne : c.proposerAddr ≠ []) (hh : h = st.lastHeight + 1) (hts : h > 1 → st.lastTime ≤ ts) :
    execValidate st (signed c (createBlock c st h ls lhh txs ts).1)
      (withMeta (createBlock c st h ls lhh txs ts).2 (createBlock c st h ls lhh txs ts).1.hdr ldh) = none := by
  unfold execValidate
  have hvb : validateBasic (signed c (createBlock c st h ls lhh txs ts).1) = none := by
    unfold validateBasic
    simp [signed, createBlock, hne, Sig.isEmpty, mySigner, verify_by]
  rw [hvb]
  have hvd : validateData (signed c (createBlock c st h ls lhh txs ts).1)
      (withMeta (createBlock c st h ls lhh txs ts).2 (createBlock c st h ls lhh txs ts).1.hdr ldh) = none := by
    unfold validateData
    simp only [signed, withMeta, createBlock, ne_eq, not_true_eq_false, or_self, ↓reduceIte]
    cases txs with
    | nil => simp [Data.daCommitment, emptyDataHash]
    | cons t ts => simp [Data.daCommitment]
  rw [hvd]
  simp only [signed, createBlock, ne_eq, not_true_eq_false, ↓reduceIte]
  rw [if_neg (by omega)]
  rw [if_neg]
  intro ⟨h1, h2⟩
  have := hts h1
  omega

/-- with nothing stored at `height + 1`, one well-formed answer produces the next block -/
theorem fresh_commits {c : Cfg} {n : Node} (hi : Inv c n) (hnone : n.store.getBlock (n.store.height + 1) = none)
    (hmax : c.maxPending = 0) (hsg : c.signerAddr = c.proposerAddr) (hne : c.proposerAddr ≠ [])
    (txs : List Bytes) (ts : Nat) (bd : List Bytes) (hts : n.lastState.lastTime ≤ ts) :
    (publish c n (.batch txs ts bd) .ok).2.2 = .ok ∧
    (publish c n (.batch txs ts bd) .ok).1.store.height = n.store.height + 1 := by
  have hnr : pendingRefuses c n = false := by simp [pendingRefuses, hmax]
  unfold publish
  simp only [hnr, Bool.false_eq_true, ↓reduceIte]
  -- the predecessor is readable
  have hprev : ∃ ls lhh ldh lht, prevInfo c n.store = some (ls, lhh, ldh, lht) ∧ regressed lht ts = false := by
    unfold prevInfo
    by_cases hfirst : n.store.height + 1 ≤ c.initialHeight
    · exact ⟨_, _, _, _, by rw [if_pos hfirst], rfl⟩
    · obtain ⟨b, hb, ht, _⟩ := hi.tip (by omega)
      refine ⟨_, _, _, _, by rw [if_neg hfirst, hb], ?_⟩
      simp only [regressed, decide_eq_false_iff_not]
      omega
  obtain ⟨ls, lhh, ldh, lht, hp, hreg⟩ := hprev
  rw [hp]
  simp only [hnone]
  unfold fresh
  simp only [hreg, Bool.and_false, Bool.false_eq_true, ↓reduceIte, hsg, ne_eq, not_true_eq_false]
  unfold buildAndFinish
  simp only
  unfold finish
  simp only
  have hval := createBlock_validates (c := c) (st := n.lastState) (n.store.height + 1) ls lhh ldh txs ts hne
    (by rw [hi.hs]) (fun _ => hts)
  have hheight : (n.store.apply (.setMeta lastBatchDataKey (batchDataToBytes bd))).height = n.store.height := rfl
  simp only [hheight]
  rw [hval]
  refine ⟨rfl, ?_⟩
  simp only
  show (Store.applyAll _ _).height = _
  generalize hs1 : Store.apply (Store.apply _ (.saveBlock (signed c (createBlock c n.lastState (n.store.height + 1) ls lhh txs ts).1).hdr.height _)) (.updateState _) = s1
  have h1h : s1.height = n.store.height := by rw [← hs1]; rfl
  obtain ⟨a1, _⟩ := applyAll_setHeightW s1 (signed c (createBlock c n.lastState (n.store.height + 1) ls lhh txs ts).1).hdr.height
  rw [a1, h1h]
  simp [signed, createBlock]


/-! ### liveness for every reachable node: a block waiting at `height + 1` is always committable

`Live` strengthens `Inv` by what `execValidate` will ask of the block stored at `height + 1` once it is signed and
given its metadata.  Every block the node saves there has these properties: the genesis block written at start-up,
and a block built by `fresh` — for the timestamp this is what the monotonicity guard (now applied to empty batches
too) guarantees.  Hence "using pending block" can never fail validation, and one well-formed answer commits. -/

/-- what `execValidate` will ask of a block waiting at `height + 1` (early-saved with `metadata = none`, final-saved,
or the genesis block), beyond its shape `PendingOK` -/
structure PendValid (c : Cfg) (st : State) (pb : Block) : Prop where
  chainId : pb.sh.hdr.chainId = c.chainId
  appHash : pb.sh.hdr.appHash = st.appHash
  proposer : pb.sh.hdr.proposerAddress = c.proposerAddr
  dataHash : pb.data.daCommitment = pb.sh.hdr.dataHash
  time : pb.sh.hdr.height > 1 → st.lastTime ≤ pb.sh.hdr.time

/-- the reachable-state invariant: `Inv`, the block waiting at `height + 1` (if any) will validate, and before
the first commit a block *is* stored at the initial height (the genesis block or a re-save of it) -/
structure Live (c : Cfg) (n : Node) : Prop extends Inv c n where
  pendValid : ∀ pb, n.store.getBlock (n.store.height + 1) = some pb → PendValid c n.lastState pb
  firstStored : n.store.height + 1 = c.initialHeight → ∃ pb, n.store.getBlock c.initialHeight = some pb

/-- `Live` only looks at the store and the last state -/
theorem Live.congr {c : Cfg} {n n' : Node} (hl : Live c n) (hs : n'.store = n.store) (hst : n'.lastState = n.lastState) :
    Live c n' := by
  obtain ⟨⟨a1, a2, a3, a4, a5, a6, a7, a8, a9⟩, b1, b2⟩ := hl
  refine ⟨⟨a1, ?_, ?_, ?_, ?_, ?_, ?_, ?_, ?_⟩, ?_, ?_⟩
  all_goals (try rw [hs]); (try rw [hst]); assumption

theorem live_setMeta {c : Cfg} {n : Node} (hl : Live c n) (k : String) (v : Bytes) (bd : List Bytes) :
    Live c { n with store := n.store.apply (.setMeta k v), lastBatchData := bd } :=
  ⟨inv_setMeta hl.toInv k v bd, hl.pendValid, hl.firstStored⟩

theorem live_early {c : Cfg} {n : Node} (hl : Live c n) (sh : SHeader) (d : Data)
    (hh : sh.hdr.height = n.store.height + 1) (hs : sh.signer = mySigner c)
    (hlk : n.store.height + 1 > c.initialHeight → ∃ p, n.store.getBlock n.store.height = some p ∧
      sh.hdr.lastHeaderHash = p.sh.hdr.hash) (sv : Sig)
    (hv : PendValid c n.lastState { sh := sh, data := d, savedSig := sv }) :
    Live c { n with store := n.store.apply (.saveBlock (n.store.height + 1) { sh := sh, data := d, savedSig := sv }) } := by
  refine ⟨inv_early hl.toInv sh d hh hs hlk sv, ?_, ?_⟩
  · intro pb hpb
    have hpb' : (n.store.apply (.saveBlock (n.store.height + 1) { sh := sh, data := d, savedSig := sv })).getBlock
        (n.store.height + 1) = some pb := hpb
    rw [getBlock_saveBlock_same] at hpb'
    simp only [Option.some.injEq] at hpb'
    subst hpb'
    exact hv
  · intro heq
    have heq' : n.store.height + 1 = c.initialHeight := heq
    refine ⟨{ sh := sh, data := d, savedSig := sv }, ?_⟩
    show (n.store.apply _).getBlock c.initialHeight = _
    rw [← heq']
    exact getBlock_saveBlock_same _ _ _

/-- the finishing part of a step either changes nothing (outcome ≠ ok) or raises the height by one and touches
no block except the one at `height + 1` -/
theorem finish_frame {c : Cfg} {n : Node} (ws : List SW) (sh : SHeader) (d : Data) (ldh : Bytes) (ex : ExecResp)
    (hh : sh.hdr.height = n.store.height + 1) :
    ((finish c n ws sh d ldh ex).1 = n ∧ (finish c n ws sh d ldh ex).2.2 ≠ .ok) ∨
    ((finish c n ws sh d ldh ex).1.store.height = n.store.height + 1 ∧
     (∀ k, k ≠ n.store.height + 1 → (finish c n ws sh d ldh ex).1.store.getBlock k = n.store.getBlock k) ∧
     (finish c n ws sh d ldh ex).2.2 = .ok) := by
  unfold finish
  cases ex with
  | fail => exact Or.inl ⟨rfl, by simp⟩
  | ok =>
    simp only [signed, withMeta]
    split
    · exact Or.inl ⟨rfl, by simp⟩
    · simp only [hh]
      generalize hs1 : (n.store.apply (.saveBlock (n.store.height + 1) _)).apply (.updateState _) = s1
      have h1h : s1.height = n.store.height := by rw [← hs1]; rfl
      obtain ⟨a1, a2, _, _⟩ := applyAll_setHeightW s1 (n.store.height + 1)
      refine Or.inr ⟨?_, ?_, by simp⟩
      · show (Store.applyAll _ _).height = _
        simp [a1, h1h]
      · intro k hk
        show (Store.applyAll _ _).getBlock k = _
        rw [a2, ← hs1, getBlock_updateState]
        exact getBlock_saveBlock_other _ _ _ _ (Ne.symm hk)

theorem finish_live {c : Cfg} {n : Node} (hl : Live c n) {pb : Block}
    (hpb : n.store.getBlock (n.store.height + 1) = some pb) (ws : List SW) (ldh : Bytes) (ex : ExecResp) :
    Live c (finish c n ws pb.sh pb.data ldh ex).1 := by
  have hi' := finish_inv hl.toInv hpb ws ldh ex
  rcases finish_frame (c := c) ws pb.sh pb.data ldh ex (hl.pend pb hpb).height with ⟨h1, _⟩ | ⟨h1, h2, _⟩
  · rw [h1]; exact hl
  · refine ⟨hi', ?_, ?_⟩
    · intro pb' hpb'
      exfalso
      rw [h1, h2 _ (by omega), hl.above _ (by omega)] at hpb'
      cases hpb'
    · intro heq
      exfalso
      rw [h1] at heq
      have := hl.low
      omega

theorem validateData_withMeta (sh : SHeader) (d : Data) (ldh : Bytes) (h : d.daCommitment = sh.hdr.dataHash) :
    validateData sh (withMeta d sh.hdr ldh) = none := by
  have hm : ∀ m, ({ d with metadata := m } : Data).daCommitment = d.daCommitment := fun _ => rfl
  simp [validateData, withMeta, hm, h]

/-- a block waiting at `height + 1` that satisfies `PendValid` passes `execValidate` once signed and given its
metadata -/
theorem pending_validates {c : Cfg} {st : State} {pb : Block} (hs : pb.sh.signer = mySigner c)
    (hh : pb.sh.hdr.height = st.lastHeight + 1) (hc : st.chainId = c.chainId) (hv : PendValid c st pb)
    (hne : c.proposerAddr ≠ []) (ldh : Bytes) :
    execValidate st (signed c pb.sh) (withMeta pb.data pb.sh.hdr ldh) = none := by
  unfold execValidate
  have hvb : validateBasic (signed c pb.sh) = none := by
    unfold validateBasic
    simp [signed, hv.proposer, hne, Sig.isEmpty, hs, mySigner, verify_by]
  rw [hvb]
  have hvd : validateData (signed c pb.sh) (withMeta pb.data pb.sh.hdr ldh) = none :=
    validateData_withMeta (signed c pb.sh) pb.data ldh hv.dataHash
  rw [hvd]
  have e1 : pb.sh.hdr.chainId = st.chainId := by rw [hv.chainId, hc]
  have e3 : ¬ (pb.sh.hdr.height > 1 ∧ pb.sh.hdr.time < st.lastTime) := by
    intro ⟨h1, h2⟩
    have := hv.time h1
    omega
  rw [hh] at e3
  simp only [signed, e1, hh, hv.appHash, e3, ne_eq, not_true_eq_false, ↓reduceIte]

/-- "using pending block": with a valid block waiting at `height + 1`, successful execution commits it -/
theorem finish_commits {c : Cfg} {n : Node} (hi : Inv c n) {pb : Block} (hpo : PendingOK c n.store pb)
    (hv : PendValid c n.lastState pb) (hne : c.proposerAddr ≠ []) (ws : List SW) (ldh : Bytes) :
    (finish c n ws pb.sh pb.data ldh .ok).2.2 = .ok ∧
    (finish c n ws pb.sh pb.data ldh .ok).1.store.height = n.store.height + 1 := by
  have hval := pending_validates hpo.signer (by rw [hpo.height, hi.hs]) hi.cid hv hne ldh
  rcases finish_frame (c := c) ws pb.sh pb.data ldh .ok hpo.height with ⟨_, h2⟩ | ⟨h1, _, h3⟩
  · exfalso
    apply h2
    unfold finish
    simp only [hval]
  · exact ⟨h3, h1⟩

/-- above the first height the step knows the time of the last header, and the guard compares with it -/
theorem prevInfo_time {c : Cfg} {n : Node} (hi : Inv c n) (hgt : n.store.height + 1 > c.initialHeight)
    {ls : Sig} {lhh ldh : Bytes} {lht : Option Nat} (h : prevInfo c n.store = some (ls, lhh, ldh, lht))
    (ts : Nat) (hreg : regressed lht ts = false) : n.lastState.lastTime ≤ ts := by
  unfold prevInfo at h
  have : ¬ n.store.height + 1 ≤ c.initialHeight := by omega
  simp only [this, ↓reduceIte] at h
  obtain ⟨b, hb, ht, _⟩ := hi.tip (by omega)
  rw [hb] at h
  simp only [Option.some.injEq, Prod.mk.injEq] at h
  obtain ⟨_, _, _, h4⟩ := h
  subst h4
  simp only [regressed, decide_eq_false_iff_not] at hreg
  omega

theorem buildAndFinish_live {c : Cfg} {n0 : Node} (h0 : Live c n0) (w0 : SW) (ls : Sig) (lhh ldh : Bytes)
    (hl : n0.store.height + 1 > c.initialHeight → ∃ p, n0.store.getBlock n0.store.height = some p ∧ lhh = p.sh.hdr.hash)
    (txs : List Bytes) (ts : Nat) (hts : n0.store.height + 1 > 1 → n0.lastState.lastTime ≤ ts) (ex : ExecResp) :
    Live c (buildAndFinish c n0 w0 ls lhh ldh txs ts ex).1 := by
  unfold buildAndFinish
  obtain ⟨f1, f2, f3, f4, f5, f6, f7, f8, f9⟩ := createBlock_facts c n0.lastState (n0.store.height + 1) ls lhh txs ts
  have f10 : (createBlock c n0.lastState (n0.store.height + 1) ls lhh txs ts).2.daCommitment =
      (createBlock c n0.lastState (n0.store.height + 1) ls lhh txs ts).1.hdr.dataHash := by
    simp only [createBlock]; exact daCommitment_txs txs none
  generalize createBlock c n0.lastState (n0.store.height + 1) ls lhh txs ts = blk at f1 f2 f3 f4 f5 f6 f7 f8 f9 f10
  have h1 := live_early h0 blk.1 blk.2 f1 f2
    (by intro hgt; obtain ⟨p, hp, hq⟩ := hl hgt; exact ⟨p, hp, by rw [f3]; exact hq⟩) .none
    ⟨by show blk.1.hdr.chainId = _; rw [f6, h0.cid], f5, f7, f10,
     by intro hgt; show _ ≤ blk.1.hdr.time; rw [f4]; apply hts; rw [← f1]; exact hgt⟩
  exact finish_live h1 (pb := Block.mk blk.1 blk.2 .none)
    (by show (n0.store.apply _).getBlock ((n0.store.apply _).height + 1) = _
        simp) _ ldh ex

theorem fresh_live {c : Cfg} {n : Node} (hl : Live c n)
    (ls : Sig) (lhh ldh : Bytes) (lht : Option Nat)
    (hlk : n.store.height + 1 > c.initialHeight → ∃ p, n.store.getBlock n.store.height = some p ∧ lhh = p.sh.hdr.hash)
    (htime : ∀ ts, regressed lht ts = false → n.lastState.lastTime ≤ ts)
    (resp : SeqResp) (ex : ExecResp) : Live c (fresh c n ls lhh ldh lht resp ex).1 := by
  unfold fresh
  cases resp with
  | err => exact hl
  | absent => exact hl
  | batch txs ts bd =>
    have h0 := live_setMeta hl lastBatchDataKey (batchDataToBytes bd) bd
    simp only
    split
    · exact h0
    · rename_i hreg
      split
      · exact h0
      · exact buildAndFinish_live h0 _ ls lhh ldh hlk txs ts (fun _ => htime ts (by simpa using hreg)) ex

/-- **One production step preserves `Live`**, whatever the sequencing and execution layers answer. -/
theorem publish_live {c : Cfg} {n : Node} (hl : Live c n) (resp : SeqResp) (ex : ExecResp) :
    Live c (publish c n resp ex).1 := by
  unfold publish
  split
  · exact hl
  · split
    · exact hl
    · rename_i ls lhh ldh lht hprev
      split
      · rename_i pb hpb
        exact finish_live hl hpb [] ldh ex
      · rename_i hnone
        have hgt : n.store.height + 1 > c.initialHeight := by
          have := hl.low
          by_cases heq : n.store.height + 1 = c.initialHeight
          · obtain ⟨pb, hpb⟩ := hl.firstStored heq
            rw [← heq, hnone] at hpb; cases hpb
          · omega
        exact fresh_live hl ls lhh ldh lht (prevInfo_link hprev) (prevInfo_time hl.toInv hgt hprev) resp ex

theorem run_live {c : Cfg} {n : Node} (hl : Live c n) (rs : List (SeqResp × ExecResp)) : Live c (run c n rs) := by
  induction rs generalizing n with
  | nil => exact hl
  | cons r rs ih => exact ih (publish_live hl r.1 r.2)

/-- the genesis block will validate against the genesis state -/
theorem genesis_pendValid (c : Cfg) : PendValid c (genesisState c) (genesisBlock c) :=
  ⟨rfl, rfl, rfl, rfl, fun _ => Nat.le_refl _⟩

theorem freshNode_live (c : Cfg) (hpos : 1 ≤ c.initialHeight) : Live c (freshNode c) := by
  obtain ⟨hh, hg, _, _⟩ := freshDisk_facts c
  refine ⟨freshNode_inv c hpos, ?_, ?_⟩
  · intro pb hpb
    have hpb' : (freshDisk c).getBlock ((freshDisk c).height + 1) = some pb := hpb
    rw [hh, hg, if_pos (by omega)] at hpb'
    simp only [Option.some.injEq] at hpb'
    subst hpb'
    exact genesis_pendValid c
  · intro _
    exact ⟨genesisBlock c, by show (freshDisk c).getBlock _ = _; rw [hg, if_pos rfl]⟩

/-- **Liveness from every `Live` node**: one well-formed answer (a batch not timestamped before the last block,
executed successfully) commits a block — the block waiting at `height + 1` if there is one, a fresh one otherwise. -/
theorem live_commits {c : Cfg} {n : Node} (hl : Live c n)
    (hmax : c.maxPending = 0) (hsg : c.signerAddr = c.proposerAddr) (hne : c.proposerAddr ≠ [])
    (txs : List Bytes) (ts : Nat) (bd : List Bytes) (hts : n.lastState.lastTime ≤ ts) :
    (publish c n (.batch txs ts bd) .ok).2.2 = .ok ∧
    (publish c n (.batch txs ts bd) .ok).1.store.height = n.store.height + 1 := by
  cases hpend : n.store.getBlock (n.store.height + 1) with
  | none => exact fresh_commits hl.toInv hpend hmax hsg hne txs ts bd hts
  | some pb =>
    have hnr : pendingRefuses c n = false := by simp [pendingRefuses, hmax]
    have hprev : ∃ x, prevInfo c n.store = some x := by
      unfold prevInfo
      by_cases hfirst : n.store.height + 1 ≤ c.initialHeight
      · exact ⟨_, by rw [if_pos hfirst]⟩
      · obtain ⟨b, hb, _⟩ := hl.tip (by omega)
        exact ⟨_, by rw [if_neg hfirst, hb]⟩
    obtain ⟨⟨ls, lhh, ldh, lht⟩, hp⟩ := hprev
    unfold publish
    simp only [hnr, Bool.false_eq_true, ↓reduceIte, hp, hpend]
    exact finish_commits hl.toInv (hl.pend pb hpend) (hl.pendValid pb hpend) hne [] ldh

/-- `Live` only looks at the chain height, the stored blocks and the last state -/
theorem Live.of_same {c : Cfg} {n n' : Node} (hl : Live c n) (hh : n'.store.height = n.store.height)
    (hb : ∀ k, n'.store.getBlock k = n.store.getBlock k) (hst : n'.lastState = n.lastState) : Live c n' := by
  refine ⟨Inv.of_agree hl.toInv hh hst (fun k _ => hb k) ?_ (fun k hk => by rw [hb]; exact hl.above k hk), ?_, ?_⟩
  · intro pb hpb
    rw [hb] at hpb
    have := hl.pend pb hpb
    refine ⟨by rw [hh]; exact this.height, this.signer, ?_⟩
    intro hgt
    rw [hh] at hgt
    obtain ⟨p, hp, r⟩ := this.link hgt
    exact ⟨p, by rw [hh, hb]; exact hp, r⟩
  · intro pb hpb
    rw [hh, hb] at hpb
    rw [hst]; exact hl.pendValid pb hpb
  · intro heq
    rw [hh] at heq
    obtain ⟨pb, hpb⟩ := hl.firstStored heq
    exact ⟨pb, by rw [hb]; exact hpb⟩

/-- the block `fresh` saves early will validate: this is where the timestamp guard is used -/
theorem createBlock_pendValid {c : Cfg} {st : State} (hc : st.chainId = c.chainId) (h : Nat) (ls : Sig) (lhh : Bytes)
    (txs : List Bytes) (ts : Nat) (hts : h > 1 → st.lastTime ≤ ts) (sv : Sig) :
    PendValid c st { sh := (createBlock c st h ls lhh txs ts).1, data := (createBlock c st h ls lhh txs ts).2, savedSig := sv } := by
  refine ⟨?_, rfl, rfl, ?_, hts⟩
  · show st.chainId = c.chainId; exact hc
  · simp only [createBlock]; exact daCommitment_txs txs none

/-- when nothing is stored at `height + 1` the node is past its first block, so the step knows the time of the last
header and the guard `regressed` compares the batch time with the state's time -/
theorem fresh_branch {c : Cfg} {n : Node} (hl : Live c n) (hnone : n.store.getBlock (n.store.height + 1) = none)
    {ls : Sig} {lhh ldh : Bytes} {lht : Option Nat} (hprev : prevInfo c n.store = some (ls, lhh, ldh, lht)) :
    n.store.height + 1 > c.initialHeight ∧ ∀ ts, regressed lht ts = false → n.lastState.lastTime ≤ ts := by
  have hgt : n.store.height + 1 > c.initialHeight := by
    have := hl.low
    by_cases heq : n.store.height + 1 = c.initialHeight
    · obtain ⟨pb, hpb⟩ := hl.firstStored heq
      rw [← heq, hnone] at hpb; cases hpb
    · omega
  exact ⟨hgt, prevInfo_time hl.toInv hgt hprev⟩

end Producer
