import Proofs.SyncStart

/-!
# Liveness invariant of the sync loop (under `DistinctCommitments`): everything delivered above the current
height is cached, the seen-sets only name applied or cached items, and after every step no block is
applicable (`Quiet`).  Convergence follows.
-/
namespace Sync
open Wire Chain
variable {c : Cfg} {ch : PChain} {top h0 : Nat} {evs : List Ev} {n : FNode}

structure Live (ch : PChain) (evs : List Ev) (n : FNode) : Prop where
  hdrDel : ∀ k b, ch k = some b → n.store.height < k → Ev.hdr k ∈ evs → k ∈ keysH n
  datDel : ∀ k b, ch k = some b → n.store.height < k → ¬ IsEmpty b → Ev.dat k ∈ evs → k ∈ keysD n
  datEmp : ∀ k b, ch k = some b → n.store.height < k → IsEmpty b → Ev.hdr k ∈ evs → k ∈ keysD n
  seenHs : ∀ x, x ∈ n.seenH → ∃ k b, ch k = some b ∧ x = b.sh.hdr.hash ∧ (k ≤ n.store.height ∨ k ∈ keysH n)
  seenDs : ∀ x, x ∈ n.seenD → ∃ k b, ch k = some b ∧ ¬ IsEmpty b ∧ x = b.data.daCommitment ∧
    (k ≤ n.store.height ∨ k ∈ keysD n)
  hdrEmp : ∀ k b, ch k = some b → k ∈ keysH n → IsEmpty b → k ∈ keysD n

theorem advance_live (g : GoodChain c ch top) (hl : Live ch evs n) {b : Block} (d : Data)
    (hb : ch (n.store.height + 1) = some b) : Live ch evs (advance n b.sh d) := by
  have hh := advance_height n b.sh d
  have kH : ∀ j, j ∈ keysH (advance n b.sh d) ↔ j ∈ keysH n ∧ j ≠ n.store.height + 1 := fun j => keys_filter_ne
  have kD : ∀ j, j ∈ keysD (advance n b.sh d) ↔ j ∈ keysD n ∧ j ≠ n.store.height + 1 := fun j => keys_filter_ne
  refine ⟨?_, ?_, ?_, ?_, ?_, ?_⟩
  · intro k bk hk hlt he
    rw [hh] at hlt
    exact (kH k).mpr ⟨hl.hdrDel k bk hk (by omega) he, by omega⟩
  · intro k bk hk hlt hne he
    rw [hh] at hlt
    exact (kD k).mpr ⟨hl.datDel k bk hk (by omega) hne he, by omega⟩
  · intro k bk hk hlt hne he
    rw [hh] at hlt
    exact (kD k).mpr ⟨hl.datEmp k bk hk (by omega) hne he, by omega⟩
  · intro x hx
    rw [hh]
    have hx' : x = b.sh.hdr.hash ∨ x ∈ n.seenH := by simpa [advance] using hx
    rcases hx' with rfl | hx'
    · exact ⟨_, b, hb, rfl, Or.inl (Nat.le_refl _)⟩
    · obtain ⟨k, bk, hk, e, h⟩ := hl.seenHs x hx'
      refine ⟨k, bk, hk, e, ?_⟩
      by_cases hkk : k = n.store.height + 1
      · left; omega
      · rcases h with h | h
        · left; omega
        · right; exact (kH k).mpr ⟨h, hkk⟩
  · intro x hx
    rw [hh]
    have hx' : (¬ IsEmpty b ∧ x = b.data.daCommitment) ∨ x ∈ n.seenD := by
      have hdh := (g.facts hb).dataHash
      simp only [advance] at hx
      split at hx
      · exact Or.inr hx
      · rename_i hne
        simp only [List.mem_cons] at hx
        rcases hx with rfl | hx
        · exact Or.inl ⟨hne, hdh.symm⟩
        · exact Or.inr hx
    rcases hx' with ⟨hne, rfl⟩ | hx'
    · exact ⟨_, b, hb, hne, rfl, Or.inl (Nat.le_refl _)⟩
    · obtain ⟨k, bk, hk, hne, e, h⟩ := hl.seenDs x hx'
      refine ⟨k, bk, hk, hne, e, ?_⟩
      by_cases hkk : k = n.store.height + 1
      · left; omega
      · rcases h with h | h
        · left; omega
        · right; exact (kD k).mpr ⟨h, hkk⟩
  · intro k bk hk hm he
    obtain ⟨h1, h2⟩ := (kH k).mp hm
    exact (kD k).mpr ⟨hl.hdrEmp k bk hk h1 he, h2⟩

/-- `trySync` preserves the liveness invariant and, given enough fuel, runs until no block is applicable -/
theorem trySync_live (g : GoodChain c ch top) : ∀ (fuel : Nat) (n : FNode), Safe c ch h0 evs n → Live ch evs n →
    Live ch evs (trySync fuel n []).1 ∧ (n.hdrCache.length < fuel → Quiet (trySync fuel n []).1) := by
  intro fuel
  induction fuel with
  | zero => intro n _ hl; exact ⟨hl, fun h => by omega⟩
  | succ f ih =>
    intro n hs hl
    rcases applyNext_cases g hs with ⟨hn, hq⟩ | ⟨b, d, hb, hd, hsrc, hkH, hkD, he⟩
    · rw [trySync_step_none hn]; exact ⟨hl, fun _ => hq⟩
    · rw [trySync_step_some he]
      obtain ⟨a1, a2⟩ := ih _ (advance_safe g hs hb hd hkH hsrc) (advance_live g hl d hb)
      refine ⟨a1, fun hlen => a2 ?_⟩
      have : (advance n b.sh d).hdrCache.length < n.hdrCache.length := length_filter_ne_lt hkH
      omega

theorem syncAfter_live (g : GoodChain c ch top) (hs : Safe c ch h0 evs n) (hl : Live ch evs n) :
    Live ch evs (syncAfter n).1 ∧ Quiet (syncAfter n).1 := by
  obtain ⟨a, b⟩ := trySync_live g (n.hdrCache.length + 1) n hs hl
  exact ⟨a, b (Nat.lt_succ_self _)⟩

/-- an event that adds nothing new keeps the invariant for the longer event list -/
theorem Live.weaken (hl : Live ch evs n) (e : Ev)
    (hH : ∀ k b, e = Ev.hdr k → ch k = some b → n.store.height < k → k ∈ keysH n ∧ (IsEmpty b → k ∈ keysD n))
    (hD : ∀ k b, e = Ev.dat k → ch k = some b → n.store.height < k → ¬ IsEmpty b → k ∈ keysD n) :
    Live ch (evs ++ [e]) n := by
  refine ⟨?_, ?_, ?_, hl.seenHs, hl.seenDs, hl.hdrEmp⟩
  · intro k b hk hlt he
    simp only [List.mem_append, List.mem_singleton] at he
    rcases he with he | he
    · exact hl.hdrDel k b hk hlt he
    · exact (hH k b he.symm hk hlt).1
  · intro k b hk hlt hne he
    simp only [List.mem_append, List.mem_singleton] at he
    rcases he with he | he
    · exact hl.datDel k b hk hlt hne he
    · exact hD k b he.symm hk hlt hne
  · intro k b hk hlt hem he
    simp only [List.mem_append, List.mem_singleton] at he
    rcases he with he | he
    · exact hl.datEmp k b hk hlt hem he
    · exact (hH k b he.symm hk hlt).2 hem

theorem cacheH_live (g : GoodChain c ch top) (hl : Live ch evs n) {k : Nat} {b : Block} (hb : ch k = some b) :
    Live ch (evs ++ [Ev.hdr k]) (cacheH n b.sh) := by
  have hst := cacheH_store n b.sh
  have key : (keysH (cacheH n b.sh) = k :: keysH n) ∧
      ((IsEmpty b ∧ keysD (cacheH n b.sh) = k :: keysD n) ∨ (¬ IsEmpty b ∧ keysD (cacheH n b.sh) = keysD n)) ∧
      (cacheH n b.sh).seenH = n.seenH ∧ (cacheH n b.sh).seenD = n.seenD := by
    rcases cacheH_cases g hb n with ⟨he, d, _, e⟩ | ⟨he, e⟩
    · rw [e]; exact ⟨rfl, Or.inl ⟨he, rfl⟩, rfl, rfl⟩
    · rw [e]; exact ⟨rfl, Or.inr ⟨he, rfl⟩, rfl, rfl⟩
  obtain ⟨kH, kD, sH, sD⟩ := key
  have subD : ∀ j, j ∈ keysD n → j ∈ keysD (cacheH n b.sh) := by
    intro j hj
    rcases kD with ⟨_, e⟩ | ⟨_, e⟩ <;> rw [e] <;> simp [hj]
  have subH : ∀ j, j ∈ keysH n → j ∈ keysH (cacheH n b.sh) := by
    intro j hj; rw [kH]; simp [hj]
  refine ⟨?_, ?_, ?_, ?_, ?_, ?_⟩
  · intro j bj hj hlt he
    rw [hst] at hlt
    simp only [List.mem_append, List.mem_singleton, Ev.hdr.injEq] at he
    rcases he with he | he
    · exact subH j (hl.hdrDel j bj hj hlt he)
    · rw [kH, he]; simp
  · intro j bj hj hlt hne he
    rw [hst] at hlt
    simp only [List.mem_append, List.mem_singleton, reduceCtorEq, or_false] at he
    exact subD j (hl.datDel j bj hj hlt hne he)
  · intro j bj hj hlt hem he
    rw [hst] at hlt
    simp only [List.mem_append, List.mem_singleton, Ev.hdr.injEq] at he
    rcases he with he | he
    · exact subD j (hl.datEmp j bj hj hlt hem he)
    · subst he
      rw [hb] at hj; cases hj
      rcases kD with ⟨_, e⟩ | ⟨hne, _⟩
      · rw [e]; simp
      · exact absurd hem hne
  · intro x hx
    rw [sH] at hx
    obtain ⟨j, bj, hj, e, h⟩ := hl.seenHs x hx
    exact ⟨j, bj, hj, e, by rw [hst]; exact h.imp id (subH j)⟩
  · intro x hx
    rw [sD] at hx
    obtain ⟨j, bj, hj, hne, e, h⟩ := hl.seenDs x hx
    exact ⟨j, bj, hj, hne, e, by rw [hst]; exact h.imp id (subD j)⟩
  · intro j bj hj hm hem
    rw [kH] at hm
    simp only [List.mem_cons] at hm
    rcases hm with rfl | hm
    · rw [hb] at hj; cases hj
      rcases kD with ⟨_, e⟩ | ⟨hne, _⟩
      · rw [e]; simp
      · exact absurd hem hne
    · exact subD j (hl.hdrEmp j bj hj hm hem)

theorem cacheD_live (hl : Live ch evs n) (k : Nat) (d : Data) :
    Live ch (evs ++ [Ev.dat k]) (cacheD n k d) := by
  have subD : ∀ j, j ∈ keysD n → j ∈ keysD (cacheD n k d) := by
    intro j hj; simp only [keysD, cacheD, keys_cons, List.mem_cons]; exact Or.inr hj
  refine ⟨?_, ?_, ?_, ?_, ?_, ?_⟩
  · intro j bj hj hlt he
    simp only [List.mem_append, List.mem_singleton, reduceCtorEq, or_false] at he
    exact hl.hdrDel j bj hj hlt he
  · intro j bj hj hlt hne he
    simp only [List.mem_append, List.mem_singleton, Ev.dat.injEq] at he
    rcases he with he | he
    · exact subD j (hl.datDel j bj hj hlt hne he)
    · subst he; simp [keysD, cacheD, keys_cons]
  · intro j bj hj hlt hem he
    simp only [List.mem_append, List.mem_singleton, reduceCtorEq, or_false] at he
    exact subD j (hl.datEmp j bj hj hlt hem he)
  · exact hl.seenHs
  · intro x hx
    obtain ⟨j, bj, hj, hne, e, h⟩ := hl.seenDs x hx
    exact ⟨j, bj, hj, hne, e, h.imp id (subD j)⟩
  · intro j bj hj hm hem
    exact subD j (hl.hdrEmp j bj hj hm hem)

/-- the between-steps invariant -/
structure Inv (c : Cfg) (ch : PChain) (h0 : Nat) (evs : List Ev) (n : FNode) : Prop where
  safe : Safe c ch h0 evs n
  live : Live ch evs n
  quiet : Quiet n

/-- **every genuine event preserves the full invariant** when commitments are distinct -/
theorem deliver_inv (g : GoodChain c ch top) (dc : DistinctCommitments ch) (hi : Inv c ch h0 evs n) (e : Ev) :
    Inv c ch h0 (evs ++ [e]) (deliver ch n e).1 := by
  obtain ⟨hs, hl, hq⟩ := hi
  have hsafe := (deliver_safe g hs e).1
  cases e with
  | hdr k =>
    simp only [deliver] at hsafe ⊢
    cases hb : ch k with
    | none =>
      refine ⟨hs.mono (fun _ => mem_append_single), hl.weaken _ ?_ ?_, hq⟩
      · intro j bj he hj; cases he; rw [hb] at hj; cases hj
      · intro j bj he; cases he
    | some b =>
      rw [hb] at hsafe
      simp only at hsafe ⊢
      rcases onHeader_cases g hs hb with ⟨hskip, e⟩ | ⟨hskip, e⟩
      · rw [e] at hsafe ⊢
        refine ⟨hsafe, hl.weaken _ ?_ ?_, hq⟩
        · intro j bj he hj hlt
          cases he
          rw [hb] at hj; cases hj
          have hm : k ∈ keysH n := by
            rcases hskip with h | h
            · omega
            · obtain ⟨k', b', hk', ehash, h'⟩ := hl.seenHs _ h
              have := dc.hashInj _ _ _ _ hb hk' ehash
              subst this
              rcases h' with h' | h'
              · omega
              · exact h'
          exact ⟨hm, hl.hdrEmp k b hb hm⟩
        · intro j bj he; cases he
      · rw [e] at hsafe ⊢
        obtain ⟨a1, a2⟩ := syncAfter_live g (cacheH_safe g hs hb) (cacheH_live g hl hb)
        refine ⟨hsafe, ?_, a2⟩
        refine ⟨a1.hdrDel, a1.datDel, a1.datEmp, ?_, a1.seenDs, a1.hdrEmp⟩
        intro x hx
        have hx' : x = b.sh.hdr.hash ∨ x ∈ (syncAfter (cacheH n b.sh)).1.seenH := by simpa [markH] using hx
        rcases hx' with rfl | hx'
        · refine ⟨k, b, hb, rfl, ?_⟩
          by_cases hle : k ≤ (syncAfter (cacheH n b.sh)).1.store.height
          · exact Or.inl hle
          · exact Or.inr (a1.hdrDel k b hb (by omega) (by simp))
        · exact a1.seenHs x hx'
  | dat k =>
    simp only [deliver] at hsafe ⊢
    cases hb : ch k with
    | none =>
      refine ⟨hs.mono (fun _ => mem_append_single), hl.weaken _ ?_ ?_, hq⟩
      · intro j bj he; cases he
      · intro j bj he hj; cases he; rw [hb] at hj; cases hj
    | some b =>
      rw [hb] at hsafe
      simp only at hsafe ⊢
      by_cases hem : IsEmpty b
      · rw [onData_empty g hb hem] at hsafe ⊢
        refine ⟨hsafe, hl.weaken _ ?_ ?_, hq⟩
        · intro j bj he; cases he
        · intro j bj he hj _ hne; cases he; rw [hb] at hj; cases hj; exact absurd hem hne
      · rcases onData_cases g hs hb hem with ⟨hskip, e⟩ | ⟨hskip, e⟩
        · rw [e] at hsafe ⊢
          refine ⟨hsafe, hl.weaken _ ?_ ?_, hq⟩
          · intro j bj he; cases he
          · intro j bj he hj hlt hne
            cases he
            rw [hb] at hj; cases hj
            rcases hskip with h | h
            · obtain ⟨k', b', hk', hne', ecm, h'⟩ := hl.seenDs _ h
              have := dc.dcInj _ _ _ _ hb hk' hne hne' ecm
              subst this
              rcases h' with h' | h'
              · omega
              · exact h'
            · omega
        · rw [e] at hsafe ⊢
          obtain ⟨a1, a2⟩ := syncAfter_live g (cacheD_safe g hs hb) (cacheD_live hl k b.data)
          exact ⟨hsafe, a1, a2⟩

/-- **Convergence**: a node satisfying the invariant has applied every block up to any height `h` such that
both parts of all blocks in `(h0, h]` were delivered. -/
theorem Inv.converges (hi : Inv c ch h0 evs n) (h : Nat)
    (hready : ∀ k, h0 < k → k ≤ h → Delivered ch evs k) : h ≤ n.store.height := by
  by_cases hc : h ≤ n.store.height
  · exact hc
  · exfalso
    have hge := hi.safe.ge
    obtain ⟨b, hb, h1, h2⟩ := hready (n.store.height + 1) (by omega) (by omega)
    have x := hi.live.hdrDel _ b hb (Nat.lt_succ_self _) h1
    have y : n.store.height + 1 ∈ keysD n := by
      by_cases he : IsEmpty b
      · exact hi.live.datEmp _ b hb (Nat.lt_succ_self _) he h1
      · rcases h2 with h2 | h2
        · exact absurd h2 he
        · exact hi.live.datDel _ b hb (Nat.lt_succ_self _) he h2
    exact hi.quiet ⟨x, y⟩

theorem live_of_empty (ch : PChain) {n : FNode} (h1 : n.hdrCache = []) (h2 : n.datCache = []) (h3 : n.seenH = [])
    (h4 : n.seenD = []) : Live ch [] n ∧ Quiet n := by
  refine ⟨⟨?_, ?_, ?_, ?_, ?_, ?_⟩, ?_⟩ <;> simp_all [keysH, keysD, keys, Quiet]

end Sync
