import Proofs.SubmitIncl

/-! Situations in which the submission / inclusion loops can do nothing, for ever (witnesses of C07 and C08). -/
namespace Submit
open Wire Chain Producer

/-- all blocks above the data watermark are empty -/
def DataIdle (a : ANode) : Prop :=
  ∀ h, a.n.dataWm < h → h ≤ a.n.store.height → ∃ b, a.n.store.getBlock h = some b ∧ b.data.txs = []

/-- **when all blocks above the data watermark are empty, a data iteration submits nothing and moves the watermark to the
height the last block carries in its data metadata** (before /repo 5533199 it changed nothing, and the empty blocks
stayed in the pending count for ever) -/
theorem dataIter_idle {a : ANode} (h : DataIdle a) (hlt : a.n.dataWm < a.n.store.height) (script : List DAAns) :
    ∃ b, a.n.store.getBlock a.n.store.height = some b ∧
      dataIter a script = ((raiseWm a true (dataHeight b)).1, (raiseWm a true (dataHeight b)).2, [], .skipped) := by
  rcases dataIter_cases a script with ⟨_, he⟩ | ⟨_, he⟩ | ⟨bs, _, hbs, _, he⟩ | ⟨bs, _, hbs, hne, _⟩
  · omega
  · exfalso
    rcases he with he | he
    · omega
    · obtain ⟨bs, hbs⟩ := pendingBlocks_exists (s := a.n.store) (w := a.n.dataWm)
        (fun k k1 k2 => by obtain ⟨b, hb, _⟩ := h k k1 k2; exact ⟨b, hb⟩)
      rw [hbs] at he; simp at he
  · obtain ⟨b, _, hb, hd⟩ := pendingBlocks_last hbs hlt
    exact ⟨b, hb, by rw [he, advOf, hd]⟩
  · exfalso
    apply hne
    obtain ⟨hl, hget⟩ := pendingBlocks_some hbs
    unfold dataItems
    have : (bs.filter fun b => !b.data.txs.isEmpty) = [] := by
      rw [List.filter_eq_nil_iff]
      intro b hb
      obtain ⟨i, hi, rfl⟩ := List.getElem_of_mem hb
      obtain ⟨b', hb', he⟩ := h (a.n.dataWm + 1 + i) (by omega) (by omega)
      rw [hget i hi] at hb'
      have : bs[i] = b' := by simpa using hb'
      simp [this, he]
    rw [this]; rfl

theorem dataIter_skip {a : ANode} (h : a.n.store.height = a.n.dataWm) (script : List DAAns) :
    dataIter a script = (a, [], [], .skipped) := by
  unfold dataIter; rw [if_pos h]

theorem headersIter_idle {a : ANode} (h : a.n.store.height = a.n.hdrWm) (script : List DAAns) :
    headersIter a script = (a, [], [], .skipped) := by
  unfold headersIter; rw [if_pos h]

theorem includerIter_idle {a : ANode} (h : incNext a = none) : includerIter a = (a, []) := by
  unfold includerIter
  rw [includerPass_succ, h]

theorem markOf_nil (k : Bytes) : markOf [] k = none := rfl

/-- without a mark for the header of the next block the DA-included height cannot advance -/
theorem incNext_none_of_no_marks {a : ANode} (h : a.hMarks = []) : incNext a = none := by
  unfold incNext recHeights
  split
  · rfl
  · rw [h]
    cases a.n.store.getBlock (a.daInc + 1) <;> simp [markOf_nil]

/-- the operations of the node that concern submission and inclusion -/
inductive Op
  | subH (script : List DAAns)
  | subD (script : List DAAns)
  | incl

def stepOp (a : ANode) : Op → ANode
  | .subH s => (headersIter a s).1
  | .subD s => (dataIter a s).1
  | .incl => (includerIter a).1

def runOps (a : ANode) (ops : List Op) : ANode := ops.foldl stepOp a

/-- nothing is pending for submission and the next height is not marked -/
structure Idle (a : ANode) : Prop where
  hdr : a.n.store.height = a.n.hdrWm
  data : a.n.store.height = a.n.dataWm
  incl : incNext a = none

/-- **an idle node stays as it is for ever**: for every sequence of header iterations, data iterations and inclusion
passes, whatever the DA layer answers -/
theorem idle_forever {a : ANode} (h : Idle a) (ops : List Op) : runOps a ops = a := by
  induction ops with
  | nil => rfl
  | cons op ops ih =>
    have : stepOp a op = a := by
      cases op with
      | subH s => show (headersIter a s).1 = a; rw [headersIter_idle h.hdr]
      | subD s => show (dataIter a s).1 = a; rw [dataIter_skip h.data]
      | incl => show (includerIter a).1 = a; rw [includerIter_idle h.incl]
    show runOps (stepOp a op) ops = a
    rw [this]; exact ih

end Submit
