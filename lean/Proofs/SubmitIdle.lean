import Proofs.SubmitIncl

/-! Situations in which the submission / inclusion loops can do nothing, for ever (witnesses of C07 and C08). -/
namespace Submit
open Wire Chain Producer

/-- all blocks above the data watermark are empty -/
def DataIdle (a : ANode) : Prop :=
  ∀ h, a.n.dataWm < h → h ≤ a.n.store.height → ∃ b, a.n.store.getBlock h = some b ∧ b.data.txs = []

/-- **when all blocks above the data watermark are empty, a data iteration is skipped and changes nothing**
(`createSignedDataToSubmit` drops empty data; the watermark only moves when a blob was accepted) -/
theorem dataIter_idle {a : ANode} (h : DataIdle a) (script : List DAAns) :
    (dataIter a script).1 = a ∧ (dataIter a script).2.1 = [] ∧ (dataIter a script).2.2.1 = [] := by
  rcases dataIter_cases a script with ⟨he, _⟩ | ⟨he, _⟩ | ⟨bs, hlt, hbs, hne, _⟩
  · rw [he]; exact ⟨rfl, rfl, rfl⟩
  · rw [he]; exact ⟨rfl, rfl, rfl⟩
  · exfalso
    apply hne
    obtain ⟨hl, hget⟩ := pendingBlocks_some hbs
    unfold dataItems
    have : (bs.filter fun b => !b.data.txs.isEmpty) = [] := by
      rw [List.filter_eq_nil_iff]
      intro b hb
      obtain ⟨i, hi, rfl⟩ := List.getElem_of_mem hb
      obtain ⟨b', hb', he⟩ := h (a.n.dataWm + 1 + i) (by omega) (by omega)
      rw [hget i hi] at hb'
      have : bs[i] = b' := by simpa using hb'
      simp [this, he]
    rw [this]; rfl

theorem headersIter_idle {a : ANode} (h : a.n.store.height = a.n.hdrWm) (script : List DAAns) :
    headersIter a script = (a, [], [], .skipped) := by
  unfold headersIter; rw [if_pos h]

theorem includerIter_idle {a : ANode} (h : incNext a = none) : includerIter a = (a, []) := by
  unfold includerIter
  rw [includerPass_succ, h]

theorem markOf_nil (k : Bytes) : markOf [] k = none := rfl

/-- without a mark for the header of the next block the DA-included height cannot advance -/
theorem incNext_none_of_no_marks {a : ANode} (h : a.hMarks = []) : incNext a = none := by
  unfold incNext recHeights
  split
  · rfl
  · rw [h]
    cases a.n.store.getBlock (a.daInc + 1) <;> simp [markOf_nil]

/-- the operations of the node that concern submission and inclusion -/
inductive Op
  | subH (script : List DAAns)
  | subD (script : List DAAns)
  | incl

def stepOp (a : ANode) : Op → ANode
  | .subH s => (headersIter a s).1
  | .subD s => (dataIter a s).1
  | .incl => (includerIter a).1

def runOps (a : ANode) (ops : List Op) : ANode := ops.foldl stepOp a

/-- nothing is pending for submission and the next height is not marked -/
structure Idle (a : ANode) : Prop where
  hdr : a.n.store.height = a.n.hdrWm
  data : DataIdle a
  incl : incNext a = none

/-- **an idle node stays as it is for ever**: for every sequence of header iterations, data iterations and inclusion
passes, whatever the DA layer answers -/
theorem idle_forever {a : ANode} (h : Idle a) (ops : List Op) : runOps a ops = a := by
  induction ops with
  | nil => rfl
  | cons op ops ih =>
    have : stepOp a op = a := by
      cases op with
      | subH s => show (headersIter a s).1 = a; rw [headersIter_idle h.hdr]
      | subD s => exact (dataIter_idle h.data s).1
      | incl => show (includerIter a).1 = a; rw [includerIter_idle h.incl]
    show runOps (stepOp a op) ops = a
    rw [this]; exact ih

end Submit
