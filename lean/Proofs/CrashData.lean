import Proofs.CrashBatch

/-!
# The data chain: every committed block's data names the hash of the previous block's data
(`Data.Metadata.LastDataHash`; `types.Data.Verify`, the adjacency rule go-header applies to the data P2P store)

`execValidate` does not look at this field, so it is not part of `Inv`.  It is proved here as a separate invariant of
the store — the model is untouched: `finish` attaches `withMeta d hdr lastDataHash` with the `lastDataHash` that
`prevInfo` read (the hash of the data stored at the chain height; nothing at the first height), on the fresh path
**and on the "using pending block" path**, and committed blocks never change afterwards.  `CrashData` carries it
through crash images and restarts (the window image between `updateState` and `setHeight` holds the final-saved block).
-/
namespace Producer
open Wire Chain

/-- metadata `m` of the data stored at `h` links to the data stored at `h - 1` (nothing before the initial height) -/
def LinkOK (c : Cfg) (s : Store) (h : Nat) (m : Metadata) : Prop :=
  (h = c.initialHeight → m.lastDataHash = []) ∧
  (h > c.initialHeight → ∃ p, s.getBlock (h - 1) = some p ∧ m.lastDataHash = p.data.hash)

/-- every block from the initial height up to `top` carries metadata, the metadata repeats chain id, height and
time of its header, and names the hash of the previous block's data -/
def DataLinkedUpTo (c : Cfg) (s : Store) (top : Nat) : Prop :=
  ∀ h, c.initialHeight ≤ h → h ≤ top → ∃ b m, s.getBlock h = some b ∧ b.data.metadata = some m ∧
    m.chainId = b.sh.hdr.chainId ∧ m.height = b.sh.hdr.height ∧ m.time = b.sh.hdr.time ∧ LinkOK c s h m

theorem DataLinkedUpTo.congr {c : Cfg} {s s' : Store} {top top' : Nat} (h : DataLinkedUpTo c s top)
    (htop : top' ≤ top) (hb : ∀ k, k ≤ top → s'.getBlock k = s.getBlock k) : DataLinkedUpTo c s' top' := by
  intro k h1 h2
  obtain ⟨b, m, g1, g2, g3, g4, g5, g6, g7⟩ := h k h1 (by omega)
  refine ⟨b, m, by rw [hb k (by omega)]; exact g1, g2, g3, g4, g5, g6, ?_⟩
  intro hgt
  obtain ⟨p, hp, r⟩ := g7 hgt
  exact ⟨p, by rw [hb _ (by omega)]; exact hp, r⟩

/-- what the finishing part of a step stores when it commits: the block's data with metadata naming `ldh` -/
theorem finish_ldh {c : Cfg} {n : Node} (ws : List SW) (sh : SHeader) (d : Data) (ldh : Bytes) (ex : ExecResp)
    (hh : sh.hdr.height = n.store.height + 1) :
    (finish c n ws sh d ldh ex).1.store.height = n.store.height ∨
    ∃ b m, (finish c n ws sh d ldh ex).1.store.getBlock (n.store.height + 1) = some b ∧ b.data.metadata = some m ∧
      m.chainId = b.sh.hdr.chainId ∧ m.height = b.sh.hdr.height ∧ m.time = b.sh.hdr.time ∧ m.lastDataHash = ldh := by
  unfold finish
  cases ex with
  | fail => exact Or.inl rfl
  | ok =>
    simp only [signed, withMeta]
    split
    · exact Or.inl rfl
    · simp only [hh]
      right
      generalize hb : (Block.mk _ _ _ : Block) = nb
      generalize hs1 : n.store.apply (.saveBlock (n.store.height + 1) nb) = s1
      generalize hs2 : s1.apply (.updateState _) = s2
      obtain ⟨_, a2, _, _⟩ := applyAll_setHeightW s2 (n.store.height + 1)
      refine ⟨nb, { chainId := sh.hdr.chainId, height := n.store.height + 1, time := sh.hdr.time, lastDataHash := ldh }, ?_, ?_, ?_⟩
      · show (Store.applyAll _ _).getBlock _ = _
        rw [a2, ← hs2, getBlock_updateState, ← hs1]
        exact getBlock_saveBlock_same _ _ _
      · rw [← hb]
      · rw [← hb]; exact ⟨rfl, hh.symm, rfl, rfl⟩

theorem buildAndFinish_ldh {c : Cfg} {n0 : Node} (w0 : SW) (ls : Sig) (lhh ldh : Bytes)
    (txs : List Bytes) (ts : Nat) (ex : ExecResp) :
    (buildAndFinish c n0 w0 ls lhh ldh txs ts ex).1.store.height = n0.store.height ∨
    ∃ b m, (buildAndFinish c n0 w0 ls lhh ldh txs ts ex).1.store.getBlock (n0.store.height + 1) = some b ∧
      b.data.metadata = some m ∧
      m.chainId = b.sh.hdr.chainId ∧ m.height = b.sh.hdr.height ∧ m.time = b.sh.hdr.time ∧ m.lastDataHash = ldh := by
  unfold buildAndFinish
  obtain ⟨f1, _⟩ := createBlock_facts c n0.lastState (n0.store.height + 1) ls lhh txs ts
  generalize createBlock c n0.lastState (n0.store.height + 1) ls lhh txs ts = blk at f1
  exact finish_ldh (c := c)
    (n := { n0 with store := n0.store.apply (.saveBlock (n0.store.height + 1) (Block.mk blk.1 blk.2 .none)) })
    [w0, .saveBlock (n0.store.height + 1) (Block.mk blk.1 blk.2 .none)] blk.1 blk.2 ldh ex f1

/-- `lastDataHash` as `prevInfo` reads it -/
theorem prevInfo_ldh {c : Cfg} {s : Store} {ls : Sig} {lhh ldh : Bytes} {lht : Option Nat}
    (h : prevInfo c s = some (ls, lhh, ldh, lht)) :
    (s.height + 1 ≤ c.initialHeight → ldh = []) ∧
    (s.height + 1 > c.initialHeight → ∃ p, s.getBlock s.height = some p ∧ ldh = p.data.hash) := by
  unfold prevInfo at h
  split at h
  · rename_i hle
    simp only [Option.some.injEq, Prod.mk.injEq] at h
    exact ⟨fun _ => h.2.2.1.symm, fun hgt => by omega⟩
  · rename_i hgt
    split at h
    · rename_i b hb
      simp only [Option.some.injEq, Prod.mk.injEq] at h
      exact ⟨fun hle => absurd hle hgt, fun _ => ⟨b, hb, h.2.2.1.symm⟩⟩
    · cases h

/-- a committing step stores at `height + 1` data whose metadata names the hash of the data at `height` -/
theorem publish_ldh {c : Cfg} {n : Node} (hi : Inv c n) (resp : SeqResp) (ex : ExecResp) :
    (publish c n resp ex).1.store.height = n.store.height ∨
    ∃ b m ls lhh ldh lht, prevInfo c n.store = some (ls, lhh, ldh, lht) ∧
      (publish c n resp ex).1.store.getBlock (n.store.height + 1) = some b ∧ b.data.metadata = some m ∧
      m.chainId = b.sh.hdr.chainId ∧ m.height = b.sh.hdr.height ∧ m.time = b.sh.hdr.time ∧ m.lastDataHash = ldh := by
  unfold publish
  split
  · exact Or.inl rfl
  · split
    · exact Or.inl rfl
    · rename_i ls lhh ldh lht hprev
      split
      · rename_i pb hpb
        rcases finish_ldh (c := c) [] pb.sh pb.data ldh ex (hi.pend pb hpb).height with h | ⟨b, m, h⟩
        · exact Or.inl h
        · exact Or.inr ⟨b, m, ls, lhh, ldh, lht, hprev, h⟩
      · unfold fresh
        cases resp with
        | err => exact Or.inl rfl
        | absent => exact Or.inl rfl
        | batch txs ts bd =>
          simp only
          split
          · exact Or.inl rfl
          · split
            · exact Or.inl rfl
            · rcases buildAndFinish_ldh (c := c) (n0 := { n with store := n.store.apply (.setMeta lastBatchDataKey (batchDataToBytes bd)), lastBatchData := bd }) (.setMeta lastBatchDataKey (batchDataToBytes bd)) ls lhh ldh txs ts ex with h | ⟨b, m, h⟩
              · exact Or.inl h
              · exact Or.inr ⟨b, m, ls, lhh, ldh, lht, hprev, h⟩

/-- **one step keeps the data chain** -/
theorem publish_dataLinked {c : Cfg} {n : Node} (hi : Inv c n) (hd : DataLinkedUpTo c n.store n.store.height)
    (resp : SeqResp) (ex : ExecResp) :
    DataLinkedUpTo c (publish c n resp ex).1.store (publish c n resp ex).1.store.height := by
  obtain ⟨hh, hk⟩ := publish_store hi resp ex
  rcases publish_ldh hi resp ex with h | ⟨b, m, ls, lhh, ldh, lht, hprev, hb, hm, m1, m2, m3, hl⟩
  · exact hd.congr (by omega) (fun k hk' => hk k hk')
  · rcases hh with h | h
    · exact hd.congr (by omega) (fun k hk' => hk k hk')
    · intro k h1 h2
      by_cases hlt : k ≤ n.store.height
      · exact (hd.congr (Nat.le_refl _) (fun k hk' => hk k hk')) k h1 hlt
      · have hk1 : k = n.store.height + 1 := by omega
        subst hk1
        obtain ⟨p1, p2⟩ := prevInfo_ldh hprev
        refine ⟨b, m, hb, hm, m1, m2, m3, fun heq => ?_, fun hgt => ?_⟩
        · rw [hl]; exact p1 (by omega)
        · obtain ⟨p, hp, r⟩ := p2 hgt
          refine ⟨p, ?_, by rw [hl]; exact r⟩
          show (publish c n resp ex).1.store.getBlock (n.store.height + 1 - 1) = some p
          rw [Nat.add_sub_cancel, hk _ (Nat.le_refl _)]; exact hp

theorem run_dataLinked {c : Cfg} {n : Node} (hi : Inv c n) (hd : DataLinkedUpTo c n.store n.store.height)
    (rs : List (SeqResp × ExecResp)) : DataLinkedUpTo c (run c n rs).store (run c n rs).store.height := by
  induction rs generalizing n with
  | nil => exact hd
  | cons r rs ih => exact ih (publish_inv hi r.1 r.2) (publish_dataLinked hi hd r.1 r.2)

theorem freshNode_dataLinked (c : Cfg) (hpos : 1 ≤ c.initialHeight) :
    DataLinkedUpTo c (freshNode c).store (freshNode c).store.height := by
  intro h h1 h2
  have : (freshNode c).store.height = c.initialHeight - 1 := (freshDisk_facts c).1
  omega

/-! ## across crashes -/

/-- writes other than `updateState` leave the saved state alone -/
theorem state_applyAll_of_no_update (l : List SW) (d0 : Store) (hl : ∀ st, SW.updateState st ∉ l) :
    (d0.applyAll l).state = d0.state := by
  induction l generalizing d0 with
  | nil => rfl
  | cons w l ih =>
    rw [applyAll_cons, ih _ (fun st hm => hl st (List.mem_cons_of_mem _ hm))]
    cases w with
    | updateState st => exact absurd (List.mem_cons_self ..) (hl st)
    | saveBlock _ _ => rfl
    | setHeight _ => exact state_setHeight _ _
    | setMeta _ _ => rfl

theorem state_prefix_of_no_update (l : List SW) (d0 : Store) (j : Nat) (hl : ∀ st, SW.updateState st ∉ l) :
    (d0.applyPrefix j l).state = d0.state :=
  state_applyAll_of_no_update _ _ (fun st hm => hl st (List.mem_of_mem_take hm))

/-- up to where a durable image counts as committed: its chain height, or the height of the saved state when that is
ahead (the window between `updateState` and `setHeight`; `start` raises the height) -/
def topOf (d : Store) : Nat :=
  match d.state with
  | some s => max d.height s.lastHeight
  | none => d.height

/-- the data-chain invariant of histories: every crash image of the last operation has a linked data chain up to
where it counts as committed -/
def DataCuts (c : Cfg) (σ : RunSt) : Prop :=
  ∀ k, DataLinkedUpTo c (σ.base.applyPrefix k σ.ws) (topOf (σ.base.applyPrefix k σ.ws))

theorem topOf_node {c : Cfg} {n : Node} (hi : Inv c n) (hs : Synced c n) : topOf n.store = n.store.height := by
  unfold topOf
  rcases hs with ⟨h1, _⟩ | ⟨h1, _⟩
  · rw [h1]; simp only; rw [← hi.hs]; omega
  · rw [h1]

theorem DataCuts.node {c : Cfg} {σ : RunSt} (hc : DataCuts c σ) (hg : Good c σ) :
    DataLinkedUpTo c σ.node.store σ.node.store.height := by
  have := hc σ.ws.length
  rw [applyPrefix_all _ _ _ (Nat.le_refl _), ← hg.store, topOf_node hg.inv hg.synced] at this
  exact this

/-- writes that save no block and keep the saved state: the data chain of the image is untouched, as long as the
top does not move -/
theorem dataLinked_of_same {c : Cfg} {d d' : Store} (h : DataLinkedUpTo c d (topOf d))
    (hb : ∀ k, d'.getBlock k = d.getBlock k) (ht : topOf d' ≤ topOf d) : DataLinkedUpTo c d' (topOf d') :=
  h.congr ht (fun k _ => hb k)

theorem dataCuts_init (c : Cfg) (hpos : 1 ≤ c.initialHeight) : DataCuts c (initSt c) := by
  intro k
  show DataLinkedUpTo c (({} : Store).applyPrefix k (freshWrites c)) (topOf (({} : Store).applyPrefix k (freshWrites c)))
  intro h h1 h2
  exfalso
  obtain ⟨n, ws, hst, _, _, _, _, hcuts, _, _, _, hnou⟩ := start_of_dinv' (dinv_empty c hpos)
  rw [start_empty] at hst
  simp only [Except.ok.injEq, Prod.mk.injEq] at hst
  obtain ⟨_, rfl⟩ := hst
  have hd := hcuts k
  have hnone : (({} : Store).applyPrefix k (freshWrites c)).state = none :=
    state_prefix_of_no_update (freshWrites c) {} k hnou
  have hlow := (hd.noState hnone).1
  have : topOf (({} : Store).applyPrefix k (freshWrites c)) = (({} : Store).applyPrefix k (freshWrites c)).height := by
    unfold topOf; rw [hnone]
  omega

/-- **one operation keeps the data-chain invariant** -/
theorem opStep_dataCuts {c : Cfg} {σ σ' : RunSt} (hg : Good c σ) (hc : DataCuts c σ) (op : Op)
    (hop : opStep c σ op = .ok σ') : DataCuts c σ' := by
  cases op with
  | step r e =>
    simp only [opStep, Except.ok.injEq] at hop
    subst hop
    have hnode := hc.node hg
    have hi := hg.inv
    have hpost := publish_dataLinked hi hnode r e
    obtain ⟨hsy', _, hstore'⟩ := publish_synced hg.live hg.synced hg.wm r e
    have hinv' := publish_inv hi r e
    obtain ⟨pre, hpre, hsh⟩ := publish_shape hg.live r e
    intro k
    show DataLinkedUpTo c (σ.node.store.applyPrefix k (publish c σ.node r e).2.1)
      (topOf (σ.node.store.applyPrefix k (publish c σ.node r e).2.1))
    have htk : ∀ w ∈ pre.take k, Harmless c σ.node w := fun w hw' => hpre w (List.mem_of_mem_take hw')
    obtain ⟨_, a2, a3, a4⟩ := harmless_applyAll hg.live htk
    have htopn := topOf_node hi hg.synced
    -- an image made of harmless writes only: height and state of the node, blocks ≤ height unchanged
    have hharm : DataLinkedUpTo c (σ.node.store.applyAll (pre.take k)) (topOf (σ.node.store.applyAll (pre.take k))) := by
      have ht : topOf (σ.node.store.applyAll (pre.take k)) = σ.node.store.height := by
        rw [← htopn]; unfold topOf; rw [a4, a2]
      rw [ht]
      exact hnode.congr (Nat.le_refl _) (fun j hj => a3 j (by omega))
    rcases hsh with ⟨b1, _, _, _⟩ | ⟨st', bh, b2, b3, b4, _⟩
    · rw [b1]; exact hharm
    · rw [b2]
      unfold Store.applyPrefix
      rw [List.take_append, applyAll_append]
      by_cases h1 : k ≤ pre.length
      · have : k - pre.length = 0 := by omega
        rw [this]; exact hharm
      · have e1 : pre.take k = pre := List.take_of_length_le (by omega)
        rw [e1] at a2 ⊢
        -- the new state is saved: the image counts as committed up to `height + 1`, and holds the blocks of the
        -- node after the step
        have hblocks : ∀ j, ((σ.node.store.applyAll pre).applyAll ((commitTail σ.node.store.height st').take (k - pre.length))).getBlock j =
            (publish c σ.node r e).1.store.getBlock j := by
          intro j
          rw [(commitTail_take (σ.node.store.applyAll pre) σ.node.store.height st' a2 (k - pre.length)).2.2 j, b3,
            applyAll_append]
          have := (commitTail_take (σ.node.store.applyAll pre) σ.node.store.height st' a2 2).2.2 j
          simp only [commitTail, List.take_succ_cons, List.take_zero] at this
          exact this.symm
        have hpostH : (publish c σ.node r e).1.store.height = σ.node.store.height + 1 := by
          rw [hinv'.hs, b4, bh]
        have htop : topOf ((σ.node.store.applyAll pre).applyAll ((commitTail σ.node.store.height st').take (k - pre.length))) ≤
            σ.node.store.height + 1 := by
          obtain ⟨t1, t2, _⟩ := commitTail_take (σ.node.store.applyAll pre) σ.node.store.height st' a2 (k - pre.length)
          have hst : ((σ.node.store.applyAll pre).applyAll ((commitTail σ.node.store.height st').take (k - pre.length))).state = some st' := by
            have : k - pre.length = 1 ∨ 2 ≤ k - pre.length := by omega
            rcases this with h | h
            · rw [h]; rfl
            · have e2 : (commitTail σ.node.store.height st').take (k - pre.length) = commitTail σ.node.store.height st' :=
                List.take_of_length_le (by simp [commitTail]; omega)
              rw [e2]; exact commitTail_state _ _ _
          unfold topOf
          rw [hst]
          simp only
          omega
        rw [hpostH] at hpost
        exact hpost.congr htop (fun j _ => hblocks j)
  | crash k =>
    obtain ⟨n, ws, hst, _, _, _, _, hcuts, _, hres, hblk, hnou⟩ := start_of_dinv' (hg.cuts k)
    simp only [opStep, hst, Except.ok.injEq] at hop
    subst hop
    have himg := hc k
    have hd := hg.cuts k
    intro j
    show DataLinkedUpTo c ((σ.base.applyPrefix k σ.ws).applyPrefix j ws) (topOf ((σ.base.applyPrefix k σ.ws).applyPrefix j ws))
    generalize σ.base.applyPrefix k σ.ws = d at himg hd hcuts hres ⊢
    have hstj : (d.applyPrefix j ws).state = d.state := state_prefix_of_no_update ws d j hnou
    have hdj := hcuts j
    cases hs : d.state with
    | none =>
      -- nothing is committed below the initial height
      rw [hs] at hstj
      intro h h1 h2
      exfalso
      have hlow := (hdj.noState hstj).1
      have : topOf (d.applyPrefix j ws) = (d.applyPrefix j ws).height := by unfold topOf; rw [hstj]
      omega
    | some s =>
      rw [hs] at hstj
      -- the restart saves no block (a state is saved: no genesis re-save) and no state; it may only raise the height
      obtain ⟨_, _, w1, w2, hws⟩ := hres s hs
      have hnoblk : ∀ i b, SW.saveBlock i b ∉ ws := by
        intro i b h1
        rw [hws] at h1
        simp only [resumeWrites, List.mem_append] at h1
        rcases h1 with (h1 | h1) | h1
        · unfold setHeightW at h1; split at h1 <;> simp at h1
        · unfold wmWrite at h1; split at h1 <;> simp at h1
        · unfold wmWrite at h1; split at h1 <;> simp at h1
      have hb : ∀ i, (d.applyPrefix j ws).getBlock i = d.getBlock i := by
        intro i
        cases hgi : (d.applyPrefix j ws).getBlock i with
        | none =>
          cases hdi : d.getBlock i with
          | none => rfl
          | some b => exact absurd hgi (stored_applyAll d (ws.take j) i (by rw [hdi]; simp))
        | some b =>
          rcases getBlock_applyAll_cases d (ws.take j) i b hgi with h1 | h1
          · exact h1.symm
          · exact absurd (List.mem_of_mem_take h1) (hnoblk i b)
      have hle := hdj.height_le hstj
      have hle0 := hd.height_le hs
      have ht' : topOf (d.applyPrefix j ws) = s.lastHeight := by
        unfold topOf; rw [hstj]; simp only; omega
      have ht : topOf d = s.lastHeight := by
        unfold topOf; rw [hs]; simp only; omega
      rw [ht] at himg
      rw [ht']
      exact himg.congr (Nat.le_refl _) (fun i _ => hb i)

/-- **every history keeps the data chain** -/
theorem runOps_dataCuts {c : Cfg} {σ : RunSt} (hg : Good c σ) (hc : DataCuts c σ) (ops : List Op) :
    ∃ σ', runOps c σ ops = .ok σ' ∧ Good c σ' ∧ DataCuts c σ' := by
  induction ops generalizing σ with
  | nil => exact ⟨σ, rfl, hg, hc⟩
  | cons op ops ih =>
    obtain ⟨σ1, hop, hg1, _⟩ := opStep_good hg op
    obtain ⟨σ2, hr, hg2, hc2⟩ := ih hg1 (opStep_dataCuts hg hc op hop)
    exact ⟨σ2, by simp only [runOps, hop]; exact hr, hg2, hc2⟩

end Producer
