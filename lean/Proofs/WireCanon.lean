import Proofs.WireTyped

/-! # C12 helpers: every value a decoder returns is in range, hence a fixed point of
decode ∘ encode (canonicity for arbitrary input bytes) -/
namespace Wire

/-! ### selectors on well-formed field lists -/

theorem pickVarint_some {k : Nat} {f : Field} {v : Nat} (h : pickVarint k f = some v) : f = (k, .varint v) := by
  obtain ⟨k', w⟩ := f
  cases w <;> simp [pickVarint] at h
  obtain ⟨rfl, rfl⟩ := h; rfl

theorem pickLen_some {k : Nat} {f : Field} {b : Bytes} (h : pickLen k f = some b) : f = (k, .len b) := by
  obtain ⟨k', w⟩ := f
  cases w <;> simp [pickLen] at h
  obtain ⟨rfl, rfl⟩ := h; rfl

theorem getRep_lt {k : Nat} {fs : List Field} (hw : AllWF fs) : ∀ b ∈ getRep k fs, b.length < 2 ^ 64 := by
  intro b hb
  simp only [getRep, List.mem_filterMap] at hb
  obtain ⟨f, hf, hp⟩ := hb
  have := hw f hf
  rw [pickLen_some hp] at this
  exact this.2.2

theorem getLen_lt {k : Nat} {fs : List Field} (hw : AllWF fs) : (getLen k fs).length < 2 ^ 64 := by
  unfold getLen
  cases h : (fs.filterMap (pickLen k)).getLast? with
  | none => simp
  | some b => exact getRep_lt hw b (List.mem_of_getLast? h)

theorem getVarint_lt {k : Nat} {fs : List Field} (hw : AllWF fs) : getVarint k fs < 2 ^ 64 := by
  unfold getVarint
  cases h : (fs.filterMap (pickVarint k)).getLast? with
  | none => simp
  | some v =>
    have hm := List.mem_of_getLast? h
    simp only [List.mem_filterMap] at hm
    obtain ⟨f, hf, hp⟩ := hm
    have := hw f hf
    rw [pickVarint_some hp] at this
    exact this.2.2

theorem getMsg_some {α : Type} {k : Nat} {dec : Bytes → Option α} {fs : List Field} {a : α}
    (h : getMsg k dec fs = some (some a)) : dec (getRep k fs).flatten = some a := by
  unfold getMsg at h
  simp only at h
  split at h
  · simp at h
  · split at h
    · cases hd : dec (getRep k fs).flatten with
      | none => simp [hd] at h
      | some a' => simp [hd] at h; rw [h]
    · simp at h

/-! ### decoded values are in range -/

theorem Version.decode_wf {bs : Bytes} {v : Version} (h : Version.decode bs = some v) : v.WF := by
  unfold Version.decode at h
  cases hd : decFields bs with
  | none => simp [hd] at h
  | some fs =>
    simp [hd] at h; subst h
    exact ⟨getVarint_lt (decFields_wf hd), getVarint_lt (decFields_wf hd)⟩

theorem Metadata.decode_wf {bs : Bytes} {m : Metadata} (h : Metadata.decode bs = some m) : m.WF := by
  unfold Metadata.decode at h
  split at h
  · simp at h
  · rename_i fs hd
    have hw := decFields_wf hd
    split at h
    · rename_i cid hc
      split at h
      · simp only [Option.some.injEq] at h; subst h
        refine ⟨?_, getVarint_lt hw, getVarint_lt hw, getLen_lt hw⟩
        simp only; rw [utf8_of_ofUtf8? hc]; exact getLen_lt hw
      · simp at h
    · simp at h

theorem Header.decode_wf {bs : Bytes} {hd : Header} (h : Header.decode bs = some hd) : hd.WF := by
  unfold Header.decode at h
  split at h
  · simp at h
  · rename_i fs hdf
    have hw := decFields_wf hdf
    split at h
    · rename_i v cid hv hc
      split at h
      · simp only [Option.some.injEq] at h; subst h
        refine ⟨?_, getVarint_lt hw, getVarint_lt hw, getLen_lt hw, getLen_lt hw, getLen_lt hw, getLen_lt hw,
          getLen_lt hw, getLen_lt hw, getLen_lt hw, getLen_lt hw, ?_⟩
        · cases v with
          | none => exact (by decide : ({} : Version).WF)
          | some v' => exact Version.decode_wf (getMsg_some hv)
        · simp only; rw [utf8_of_ofUtf8? hc]; exact getLen_lt hw
      · simp at h
    · simp at h

/-! ### canonicity: Version, Metadata, Header need no hypothesis at all -/

theorem Version.decode_canon {bs : Bytes} {v : Version} (h : Version.decode bs = some v) :
    Version.decode v.encode = some v := Version.decode_encode (Version.decode_wf h)

theorem Metadata.decode_canon {bs : Bytes} {m : Metadata} (h : Metadata.decode bs = some m) :
    Metadata.decode m.encode = some m := Metadata.decode_encode (Metadata.decode_wf h)

theorem Header.decode_canon {bs : Bytes} {hd : Header} (h : Header.decode bs = some hd) :
    Header.decode hd.encode = some hd := Header.decode_encode (Header.decode_wf h)

/-! ### size accounting: payloads of distinct field numbers fit into the input

Needed for the nested messages: the re-encoded inner message must again be shorter than `2^64`
to be a legal `len` payload.  Go byte slices are shorter than `2^63` (`len` is an `int`), the
re-encoding of an inner message is at most a constant longer than the payload bytes it came from. -/

def payLen (k : Nat) (f : Field) : Nat := match pickLen k f with | some b => b.length | none => 0
def occSum (k : Nat) (fs : List Field) : Nat := (fs.map (payLen k)).sum

theorem occSum_cons (k : Nat) (f : Field) (fs : List Field) : occSum k (f :: fs) = payLen k f + occSum k fs := by
  simp [occSum]

theorem flatten_getRep_length (k : Nat) (fs : List Field) : ((getRep k fs).flatten).length = occSum k fs := by
  induction fs with
  | nil => simp [getRep, occSum]
  | cons f fs ih =>
    rw [occSum_cons, ← ih]
    unfold getRep payLen
    rw [List.filterMap_cons]
    cases pickLen k f <;> simp

theorem mem_length_le_flatten {b : Bytes} {L : List Bytes} (h : b ∈ L) : b.length ≤ L.flatten.length := by
  induction L with
  | nil => simp at h
  | cons a L ih =>
    simp only [List.mem_cons] at h
    rcases h with rfl | h
    · simp
    · have := ih h; simp only [List.flatten_cons, List.length_append]; omega

theorem getLen_le_occSum (k : Nat) (fs : List Field) : (getLen k fs).length ≤ occSum k fs := by
  rw [← flatten_getRep_length]
  unfold getLen
  cases h : (fs.filterMap (pickLen k)).getLast? with
  | none => simp
  | some b => exact mem_length_le_flatten (List.mem_of_getLast? h)

theorem payLen_le (k : Nat) (f : Field) : payLen k f ≤ (encField f).length := by
  unfold payLen
  cases h : pickLen k f with
  | none => simp
  | some b => rw [pickLen_some h]; simp [encField]; omega

theorem sum_map_zero {ks : List Nat} {g : Nat → Nat} (h : ∀ k ∈ ks, g k = 0) : (ks.map g).sum = 0 := by
  induction ks with
  | nil => simp
  | cons k ks ih =>
    simp only [List.map_cons, List.sum_cons, h k (by simp), Nat.zero_add]
    exact ih (fun k' hk' => h k' (by simp [hk']))

theorem sum_map_add (ks : List Nat) (g1 g2 : Nat → Nat) :
    (ks.map (fun k => g1 k + g2 k)).sum = (ks.map g1).sum + (ks.map g2).sum := by
  induction ks with
  | nil => simp
  | cons k ks ih => simp only [List.map_cons, List.sum_cons, ih]; omega

theorem payLen_sum_le (ks : List Nat) (hn : ks.Nodup) (f : Field) :
    (ks.map (fun k => payLen k f)).sum ≤ (encField f).length := by
  induction ks with
  | nil => simp
  | cons k ks ih =>
    rw [List.nodup_cons] at hn
    simp only [List.map_cons, List.sum_cons]
    cases h : pickLen k f with
    | none =>
      have : payLen k f = 0 := by simp [payLen, h]
      have := ih hn.2; omega
    | some b =>
      have hf := pickLen_some h
      have hz : (ks.map (fun k => payLen k f)).sum = 0 := by
        apply sum_map_zero
        intro k' hk'
        have hne : k ≠ k' := fun e => hn.1 (e ▸ hk')
        subst hf
        simp [payLen, pickLen, hne]
      have := payLen_le k f; omega

theorem occSum_sum_le (ks : List Nat) (hn : ks.Nodup) (fs : List Field) :
    (ks.map (fun k => occSum k fs)).sum ≤ (encFields fs).length := by
  induction fs with
  | nil => simp [occSum, encFields, sum_map_zero]
  | cons f fs ih =>
    have e : (fun k => occSum k (f :: fs)) = (fun k => payLen k f + occSum k fs) := by
      funext k; exact occSum_cons k f fs
    rw [e, sum_map_add, encFields_cons, List.length_append]
    have := payLen_sum_le ks hn f
    omega

/-- the re-encoding of a decoded `Metadata` is at most 80 bytes longer than the input -/
theorem Metadata.decode_length {bs : Bytes} {m : Metadata} (h : Metadata.decode bs = some m) :
    m.encode.length ≤ bs.length + 80 := by
  unfold Metadata.decode at h
  split at h
  · simp at h
  · rename_i fs hd
    have hl := decFields_length hd
    split at h
    · rename_i cid hc
      split at h
      · simp only [Option.some.injEq] at h; subst h
        have hs := occSum_sum_le [1, 4] (by decide) fs
        simp only [List.map_cons, List.map_nil, List.sum_cons, List.sum_nil] at hs
        have h1 := getLen_le_occSum 1 fs
        have h4 := getLen_le_occSum 4 fs
        unfold Metadata.encode Metadata.fields
        simp only [encFields_append, List.length_append, utf8_of_ofUtf8? hc]
        have a1 := encFields_optB_length 1 (getLen 1 fs)
        have a2 := encFields_optV_length 2 (getVarint 2 fs)
        have a3 := encFields_optV_length 3 (getVarint 3 fs)
        have a4 := encFields_optB_length 4 (getLen 4 fs)
        omega
      · simp at h
    · simp at h

/-- … of a decoded `Header` at most 300 bytes longer -/
theorem Header.decode_length {bs : Bytes} {hd : Header} (h : Header.decode bs = some hd) :
    hd.encode.length ≤ bs.length + 300 := by
  unfold Header.decode at h
  split at h
  · simp at h
  · rename_i fs hdf
    have hl := decFields_length hdf
    split at h
    · rename_i v cid hv hc
      split at h
      · simp only [Option.some.injEq] at h; subst h
        have hs := occSum_sum_le [4, 5, 6, 7, 8, 9, 10, 11, 12] (by decide) fs
        simp only [List.map_cons, List.map_nil, List.sum_cons, List.sum_nil] at hs
        have h4 := getLen_le_occSum 4 fs
        have h5 := getLen_le_occSum 5 fs
        have h6 := getLen_le_occSum 6 fs
        have h7 := getLen_le_occSum 7 fs
        have h8 := getLen_le_occSum 8 fs
        have h9 := getLen_le_occSum 9 fs
        have h10 := getLen_le_occSum 10 fs
        have h11 := getLen_le_occSum 11 fs
        have h12 := getLen_le_occSum 12 fs
        unfold Header.encode Header.fields
        simp only [encFields_append, List.length_append, utf8_of_ofUtf8? hc]
        have a1 := encFields_single_length 1 (v.getD {}).encode
        have av := Version.encode_length (v.getD {})
        have a2 := encFields_optV_length 2 (getVarint 2 fs)
        have a3 := encFields_optV_length 3 (getVarint 3 fs)
        have a4 := encFields_optB_length 4 (getLen 4 fs)
        have a5 := encFields_optB_length 5 (getLen 5 fs)
        have a6 := encFields_optB_length 6 (getLen 6 fs)
        have a7 := encFields_optB_length 7 (getLen 7 fs)
        have a8 := encFields_optB_length 8 (getLen 8 fs)
        have a9 := encFields_optB_length 9 (getLen 9 fs)
        have a10 := encFields_optB_length 10 (getLen 10 fs)
        have a11 := encFields_optB_length 11 (getLen 11 fs)
        have a12 := encFields_optB_length 12 (getLen 12 fs)
        omega
      · simp at h
    · simp at h

/-! ### Data -/

theorem Data.decode_wf {bs : Bytes} {d : Data} (hb : bs.length < 2 ^ 63) (h : Data.decode bs = some d) : d.WF := by
  unfold Data.decode at h
  split at h
  · simp at h
  · rename_i fs hd
    have hw := decFields_wf hd
    have hl := decFields_length hd
    split at h
    · rename_i m hm
      simp only [Option.some.injEq] at h; subst h
      refine ⟨?_, getRep_lt hw⟩
      intro m' hm'
      simp only [Option.mem_def] at hm'
      subst hm'
      have hdm := getMsg_some hm
      refine ⟨Metadata.decode_wf hdm, ?_⟩
      have := Metadata.decode_length hdm
      rw [flatten_getRep_length] at this
      have hs := occSum_sum_le [1] (by decide) fs
      simp only [List.map_cons, List.map_nil, List.sum_cons, List.sum_nil] at hs
      omega
    · simp at h

/-- a decoded `Data` re-encodes and decodes to itself (for every input a Go slice can hold) -/
theorem Data.decode_canon {bs : Bytes} {d : Data} (hb : bs.length < 2 ^ 63) (h : Data.decode bs = some d) :
    Data.decode d.encode = some d := Data.decode_encode (Data.decode_wf hb h)

/-- encoded size of the transaction fields of a decoded `Data` -/
def txLen (f : Field) : Nat := match pickLen 2 f with | some b => (encField (2, .len b)).length | none => 0

theorem encFields_txs_length (fs : List Field) :
    (encFields ((getRep 2 fs).map (fun t => ((2, WVal.len t) : Field)))).length = (fs.map txLen).sum := by
  induction fs with
  | nil => simp [getRep, encFields]
  | cons f fs ih =>
    unfold getRep at ih ⊢
    rw [List.filterMap_cons, List.map_cons, List.sum_cons, ← ih]
    unfold txLen
    cases pickLen 2 f with
    | none => simp
    | some b => simp only [List.map_cons, encFields_cons, List.length_append]

theorem pay1_tx_le (f : Field) : payLen 1 f + txLen f ≤ (encField f).length := by
  unfold txLen
  cases h : pickLen 2 f with
  | none => have := payLen_le 1 f; simp; omega
  | some b =>
    have hf := pickLen_some h
    subst hf
    simp [payLen, pickLen]

theorem occ1_txs_le (fs : List Field) : occSum 1 fs + (fs.map txLen).sum ≤ (encFields fs).length := by
  induction fs with
  | nil => simp [occSum, encFields]
  | cons f fs ih =>
    rw [occSum_cons, List.map_cons, List.sum_cons, encFields_cons, List.length_append]
    have := pay1_tx_le f
    omega

/-- the re-encoding of a decoded `Data` is at most 100 bytes longer than the input -/
theorem Data.decode_length {bs : Bytes} {d : Data} (h : Data.decode bs = some d) :
    d.encode.length ≤ bs.length + 100 := by
  unfold Data.decode at h
  split at h
  · simp at h
  · rename_i fs hd
    have hl := decFields_length hd
    split at h
    · rename_i m hm
      simp only [Option.some.injEq] at h; subst h
      unfold Data.encode Data.fields
      simp only [encFields_append, List.length_append, encFields_txs_length]
      have hs := occ1_txs_le fs
      cases m with
      | none => simp [encFields]; omega
      | some m' =>
        have hdm := getMsg_some hm
        have := Metadata.decode_length hdm
        rw [flatten_getRep_length] at this
        have := encFields_single_length 1 m'.encode
        simp only
        omega
    · simp at h

/-! ### Signer, SignedHeader, SignedData -/

theorem Signer.canon_wf {s : Signer} (h : s.WF) : s.canon.WF := by
  unfold Signer.canon; split
  · exact (by decide : ({} : Signer).WF)
  · exact h

theorem Signer.decodeRaw_wf {bs : Bytes} {s : Signer} (h : Signer.decodeRaw bs = some s) :
    s.WF ∧ s.canon.encode.length ≤ bs.length + 40 := by
  unfold Signer.decodeRaw at h
  cases hd : decFields bs with
  | none => simp [hd] at h
  | some fs =>
    simp [hd] at h; subst h
    have hw := decFields_wf hd
    have hl := decFields_length hd
    refine ⟨⟨getLen_lt hw, getLen_lt hw⟩, ?_⟩
    unfold Signer.canon
    split
    · simp [Signer.encode, Signer.fields, encFields]
    · rename_i hk
      simp only at hk
      unfold Signer.encode Signer.fields
      simp only [hk, ↓reduceIte, encFields_append, List.length_append]
      have hs := occSum_sum_le [1, 2] (by decide) fs
      simp only [List.map_cons, List.map_nil, List.sum_cons, List.sum_nil] at hs
      have h1 := getLen_le_occSum 1 fs
      have h2 := getLen_le_occSum 2 fs
      have a1 := encFields_optB_length 1 (getLen 1 fs)
      have a2 := encFields_optB_length 2 (getLen 2 fs)
      omega

theorem getMsg_signer {fs : List Field} {sg : Option Signer} (h : getMsg 3 Signer.decodeRaw fs = some sg) :
    (sg.getD {}).WF ∧ (sg.getD {}).canon.encode.length ≤ occSum 3 fs + 40 := by
  cases sg with
  | none => exact ⟨by decide, by simp [Signer.canon, Signer.encode, Signer.fields, encFields]⟩
  | some s =>
    have := Signer.decodeRaw_wf (getMsg_some h)
    rw [flatten_getRep_length] at this
    exact this

theorem SignedHeader.decode_wf (keyOk : Bytes → Bool) {bs : Bytes} {sh : SignedHeader}
    (hb : bs.length < 2 ^ 63) (h : SignedHeader.decode keyOk bs = some sh) :
    sh.WF ∧ (sh.signer.pubKey ≠ [] → keyOk sh.signer.pubKey = true) ∧ sh.canon' = sh := by
  unfold SignedHeader.decode at h
  split at h
  · simp at h
  · rename_i fs hd
    have hw := decFields_wf hd
    have hl := decFields_length hd
    split at h
    · rename_i hdr sg hh hs
      simp only at h
      split at h
      · simp at h
      · rename_i hk
        simp only [Option.some.injEq] at h; subst h
        have hdh := getMsg_some hh
        have hlen := Header.decode_length hdh
        rw [flatten_getRep_length] at hlen
        have ⟨sw, sl⟩ := getMsg_signer hs
        have hsum := occSum_sum_le [1, 3] (by decide) fs
        simp only [List.map_cons, List.map_nil, List.sum_cons, List.sum_nil] at hsum
        refine ⟨⟨Header.decode_wf hdh, by simp only; omega, getLen_lt hw, Signer.canon_wf sw, by simp only; omega⟩, ?_, ?_⟩
        · simp only [Signer.canon_pubKey]
          intro hne
          cases hkk : keyOk (sg.getD {}).pubKey with
          | true => rfl
          | false => exact absurd ⟨hne, by simp [hkk]⟩ hk
        · simp [SignedHeader.canon', Signer.canon_canon]
    · simp at h

/-- a decoded `SignedHeader` re-encodes and decodes to itself -/
theorem SignedHeader.decode_canon (keyOk : Bytes → Bool) {bs : Bytes} {sh : SignedHeader}
    (hb : bs.length < 2 ^ 63) (h : SignedHeader.decode keyOk bs = some sh) :
    SignedHeader.decode keyOk sh.encode = some sh := by
  have ⟨hw, hk, hc⟩ := SignedHeader.decode_wf keyOk hb h
  have := SignedHeader.decode_encode keyOk hw hk
  rwa [hc] at this

theorem SignedData.decode_wf (keyOk : Bytes → Bool) {bs : Bytes} {sd : SignedData}
    (hb : bs.length < 2 ^ 63) (h : SignedData.decode keyOk bs = some sd) :
    sd.WF ∧ (sd.signer.pubKey ≠ [] → keyOk sd.signer.pubKey = true) ∧ sd.canon' = sd := by
  unfold SignedData.decode at h
  split at h
  · simp at h
  · rename_i fs hd
    have hw := decFields_wf hd
    have hl := decFields_length hd
    split at h
    · rename_i d sg hh hs
      simp only at h
      split at h
      · simp at h
      · rename_i hk
        simp only [Option.some.injEq] at h; subst h
        have ⟨sw, sl⟩ := getMsg_signer hs
        have hsum := occSum_sum_le [1, 3] (by decide) fs
        simp only [List.map_cons, List.map_nil, List.sum_cons, List.sum_nil] at hsum
        have hdata : (d.getD {}).WF ∧ (d.getD {}).encode.length ≤ occSum 1 fs + 100 := by
          cases d with
          | none => exact ⟨by decide, by simp [Data.encode, Data.fields, encFields]⟩
          | some d' =>
            have hdd := getMsg_some hh
            have hlen := Data.decode_length hdd
            rw [flatten_getRep_length] at hlen
            refine ⟨Data.decode_wf ?_ hdd, hlen⟩
            rw [flatten_getRep_length]; omega
        refine ⟨⟨hdata.1, by simp only; omega, getLen_lt hw, Signer.canon_wf sw, by simp only; omega⟩, ?_, ?_⟩
        · simp only [Signer.canon_pubKey]
          intro hne
          cases hkk : keyOk (sg.getD {}).pubKey with
          | true => rfl
          | false => exact absurd ⟨hne, by simp [hkk]⟩ hk
        · simp [SignedData.canon', Signer.canon_canon]
    · simp at h

/-- a decoded `SignedData` re-encodes and decodes to itself -/
theorem SignedData.decode_canon (keyOk : Bytes → Bool) {bs : Bytes} {sd : SignedData}
    (hb : bs.length < 2 ^ 63) (h : SignedData.decode keyOk bs = some sd) :
    SignedData.decode keyOk sd.encode = some sd := by
  have ⟨hw, hk, hc⟩ := SignedData.decode_wf keyOk hb h
  have := SignedData.decode_encode keyOk hw hk
  rwa [hc] at this

end Wire
