import Proofs.WireTyped

/-! # C12 helpers: every value a decoder returns is in range, hence a fixed point of
decode ∘ encode (canonicity for arbitrary input bytes) -/
namespace Wire

/-! ### selectors on well-formed field lists -/

theorem pickVarint_some {k : Nat} {f : Field} {v : Nat} (h : pickVarint k f = some v) : f = (k, .varint v) := by
  obtain ⟨k', w⟩ := f
  cases w <;> simp [pickVarint] at h
  obtain ⟨rfl, rfl⟩ := h; rfl

theorem pickLen_some {k : Nat} {f : Field} {b : Bytes} (h : pickLen k f = some b) : f = (k, .len b) := by
  obtain ⟨k', w⟩ := f
  cases w <;> simp [pickLen] at h
  obtain ⟨rfl, rfl⟩ := h; rfl

theorem getRep_lt {k : Nat} {fs : List Field} (hw : AllWF fs) : ∀ b ∈ getRep k fs, b.length < 2 ^ 64 := by
  intro b hb
  simp only [getRep, List.mem_filterMap] at hb
  obtain ⟨f, hf, hp⟩ := hb
  have := hw f hf
  rw [pickLen_some hp] at this
  exact this.2.2

theorem getLen_lt {k : Nat} {fs : List Field} (hw : AllWF fs) : (getLen k fs).length < 2 ^ 64 := by
  unfold getLen
  cases h : (fs.filterMap (pickLen k)).getLast? with
  | none => simp
  | some b => exact getRep_lt hw b (List.mem_of_getLast? h)

theorem getVarint_lt {k : Nat} {fs : List Field} (hw : AllWF fs) : getVarint k fs < 2 ^ 64 := by
  unfold getVarint
  cases h : (fs.filterMap (pickVarint k)).getLast? with
  | none => simp
  | some v =>
    have hm := List.mem_of_getLast? h
    simp only [List.mem_filterMap] at hm
    obtain ⟨f, hf, hp⟩ := hm
    have := hw f hf
    rw [pickVarint_some hp] at this
    exact this.2.2

theorem getMsg_some {α : Type} {k : Nat} {dec : Bytes → Option α} {fs : List Field} {a : α}
    (h : getMsg k dec fs = some (some a)) : dec (getRep k fs).flatten = some a := by
  unfold getMsg at h
  simp only at h
  split at h
  · simp at h
  · split at h
    · cases hd : dec (getRep k fs).flatten with
      | none => simp [hd] at h
      | some a' => simp [hd] at h; rw [h]
    · simp at h

/-! ### decoded values are in range -/

theorem Version.decode_wf {bs : Bytes} {v : Version} (h : Version.decode bs = some v) : v.WF := by
  unfold Version.decode at h
  cases hd : decFields bs with
  | none => simp [hd] at h
  | some fs =>
    simp [hd] at h; subst h
    exact ⟨getVarint_lt (decFields_wf hd), getVarint_lt (decFields_wf hd)⟩

theorem Metadata.decode_wf {bs : Bytes} {m : Metadata} (h : Metadata.decode bs = some m) : m.WF := by
  unfold Metadata.decode at h
  split at h
  · simp at h
  · rename_i fs hd
    have hw := decFields_wf hd
    split at h
    · rename_i cid hc
      split at h
      · simp only [Option.some.injEq] at h; subst h
        refine ⟨?_, getVarint_lt hw, getVarint_lt hw, getLen_lt hw⟩
        simp only; rw [utf8_of_ofUtf8? hc]; exact getLen_lt hw
      · simp at h
    · simp at h

theorem Header.decode_wf {bs : Bytes} {hd : Header} (h : Header.decode bs = some hd) : hd.WF := by
  unfold Header.decode at h
  split at h
  · simp at h
  · rename_i fs hdf
    have hw := decFields_wf hdf
    split at h
    · rename_i v cid hv hc
      split at h
      · simp only [Option.some.injEq] at h; subst h
        refine ⟨?_, getVarint_lt hw, getVarint_lt hw, getLen_lt hw, getLen_lt hw, getLen_lt hw, getLen_lt hw,
          getLen_lt hw, getLen_lt hw, getLen_lt hw, getLen_lt hw, ?_⟩
        · cases v with
          | none => exact (by decide : ({} : Version).WF)
          | some v' => exact Version.decode_wf (getMsg_some hv)
        · simp only; rw [utf8_of_ofUtf8? hc]; exact getLen_lt hw
      · simp at h
    · simp at h

/-! ### canonicity: Version, Metadata, Header need no hypothesis at all -/

theorem Version.decode_canon {bs : Bytes} {v : Version} (h : Version.decode bs = some v) :
    Version.decode v.encode = some v := Version.decode_encode (Version.decode_wf h)

theorem Metadata.decode_canon {bs : Bytes} {m : Metadata} (h : Metadata.decode bs = some m) :
    Metadata.decode m.encode = some m := Metadata.decode_encode (Metadata.decode_wf h)

theorem Header.decode_canon {bs : Bytes} {hd : Header} (h : Header.decode bs = some hd) :
    Header.decode hd.encode = some hd := Header.decode_encode (Header.decode_wf h)

end Wire
