import Proofs.SubmitLoop

/-! One tick of the header / data submission loops (`Submit.headersIter`, `Submit.dataIter`): the pending range, what
the iteration reduces to, and the consequences of the loop invariant. -/
namespace Submit
open Wire Chain Producer

/-! ### the pending range -/

theorem mapM_option_eq_some {α β : Type} (f : α → Option β) (l : List α) (bs : List β) :
    l.mapM f = some bs ↔ l.map f = bs.map some := by
  induction l generalizing bs with
  | nil => cases bs <;> simp
  | cons x xs ih =>
    rw [List.mapM_cons]
    cases bs with
    | nil => cases f x <;> cases xs.mapM f <;> simp
    | cons c cs =>
      simp only [List.map_cons, List.cons.injEq]
      rw [← ih cs]
      cases f x <;> cases xs.mapM f <;> simp

theorem mapM_option_none {α β : Type} (f : α → Option β) (l : List α) (x : α) (hx : x ∈ l) (hf : f x = none) :
    l.mapM f = none := by
  cases h : l.mapM f with
  | none => rfl
  | some bs =>
    exfalso
    have := (mapM_option_eq_some f l bs).mp h
    have hm : f x ∈ l.map f := List.mem_map_of_mem hx
    rw [this, hf] at hm
    simp at hm

/-- what `getPending` returns: exactly the stored blocks of the heights `(wm, height]`, in order -/
theorem pendingBlocks_some {s : Store} {w : Nat} {bs : List Block} (h : pendingBlocks s w = some bs) :
    bs.length = s.height - w ∧ ∀ i (hi : i < bs.length), s.getBlock (w + 1 + i) = some bs[i] := by
  have hm := (mapM_option_eq_some _ _ _).mp h
  have hl : bs.length = s.height - w := by
    have := congrArg List.length hm
    simpa using this.symm
  refine ⟨hl, fun i hi => ?_⟩
  have := congrArg (·[i]?) hm
  simp only [List.getElem?_map] at this
  rw [List.getElem?_range (by omega), List.getElem?_eq_getElem hi] at this
  simpa using this

/-- a missing block in the pending range makes `getPending` fail -/
theorem pendingBlocks_none {s : Store} {w h : Nat} (h1 : w < h) (h2 : h ≤ s.height) (hb : s.getBlock h = none) :
    pendingBlocks s w = none := by
  apply mapM_option_none _ _ (h - w - 1)
  · simp; omega
  · have : w + 1 + (h - w - 1) = h := by omega
    simp only [this, hb]

theorem mapM_option_exists {α β : Type} (f : α → Option β) (l : List α) (h : ∀ x ∈ l, ∃ b, f x = some b) :
    ∃ bs, l.mapM f = some bs := by
  induction l with
  | nil => exact ⟨[], rfl⟩
  | cons x xs ih =>
    obtain ⟨b, hb⟩ := h x (by simp)
    obtain ⟨bs, hbs⟩ := ih (fun y hy => h y (by simp [hy]))
    exact ⟨b :: bs, by rw [List.mapM_cons, hb, hbs]; rfl⟩

theorem pendingBlocks_exists {s : Store} {w : Nat} (h : ∀ k, w < k → k ≤ s.height → ∃ b, s.getBlock k = some b) :
    ∃ bs, pendingBlocks s w = some bs := by
  apply mapM_option_exists
  intro i hi
  simp at hi
  exact h _ (by omega) (by omega)

/-! ### what an iteration reduces to -/

def hdrItems (bs : List Block) : List Item :=
  bs.map fun b => ({ height := b.sh.hdr.height, key := b.sh.hdr.hash, blob := hdrBlob b } : Item)

/-- the height a signed-data blob carries -/
def dataHeight (b : Block) : Nat := (b.data.metadata.map (·.height)).getD 0

def dataItems (bs : List Block) : List Item :=
  (bs.filter fun b => !b.data.txs.isEmpty).map fun b =>
    ({ height := dataHeight b, key := b.data.daCommitment, blob := dataBlob b } : Item)

/-- the retry loop with the attempt bound of the two submission loops -/
def iterOf (d : Bool) (a : ANode) (items : List Item) (script : List DAAns) : ANode × List SW × List SubmitCall × IterOut :=
  ((submitLoop d maxSubmitAttempts a items script [] []).1, (submitLoop d maxSubmitAttempts a items script [] []).2.1,
   (submitLoop d maxSubmitAttempts a items script [] []).2.2.1,
   if (submitLoop d maxSubmitAttempts a items script [] []).2.2.2 then .done else .incomplete)

theorem headersIter_cases (a : ANode) (script : List DAAns) :
    (headersIter a script = (a, [], [], .skipped) ∧ a.n.store.height = a.n.hdrWm) ∨
    (headersIter a script = (a, [], [], .fetchErr) ∧
      (a.n.hdrWm > a.n.store.height ∨ pendingBlocks a.n.store a.n.hdrWm = none)) ∨
    (∃ bs, a.n.hdrWm < a.n.store.height ∧ pendingBlocks a.n.store a.n.hdrWm = some bs ∧
      headersIter a script = iterOf false a (hdrItems bs) script) := by
  unfold headersIter
  split
  · exact Or.inl ⟨rfl, by assumption⟩
  · split
    · exact Or.inr (Or.inl ⟨rfl, Or.inl (by assumption)⟩)
    · split
      · rename_i hn; exact Or.inr (Or.inl ⟨rfl, Or.inr hn⟩)
      · rename_i bs hbs
        exact Or.inr (Or.inr ⟨bs, by omega, hbs, rfl⟩)

/-- the height the last pending block carries in its data metadata -/
def lastDH (bs : List Block) : Nat := (bs.getLast?.map dataHeight).getD 0

/-- what a data iteration does when every pending block is empty: it moves the watermark past them -/
def advOf (a : ANode) (bs : List Block) : ANode × List SW × List SubmitCall × IterOut :=
  ((raiseWm a true (lastDH bs)).1, (raiseWm a true (lastDH bs)).2, [], .skipped)

theorem dataIter_cases (a : ANode) (script : List DAAns) :
    (dataIter a script = (a, [], [], .skipped) ∧ a.n.store.height = a.n.dataWm) ∨
    (dataIter a script = (a, [], [], .fetchErr) ∧
      (a.n.dataWm > a.n.store.height ∨ pendingBlocks a.n.store a.n.dataWm = none)) ∨
    (∃ bs, a.n.dataWm < a.n.store.height ∧ pendingBlocks a.n.store a.n.dataWm = some bs ∧ dataItems bs = [] ∧
      dataIter a script = advOf a bs) ∨
    (∃ bs, a.n.dataWm < a.n.store.height ∧ pendingBlocks a.n.store a.n.dataWm = some bs ∧ dataItems bs ≠ [] ∧
      dataIter a script = iterOf true a (dataItems bs) script) := by
  unfold dataIter
  split
  · exact Or.inl ⟨rfl, by assumption⟩
  · split
    · exact Or.inr (Or.inl ⟨rfl, Or.inl (by assumption)⟩)
    · split
      · rename_i hn; exact Or.inr (Or.inl ⟨rfl, Or.inr hn⟩)
      · rename_i bs hbs
        simp only
        split
        · rename_i he
          exact Or.inr (Or.inr (Or.inl ⟨bs, by omega, hbs, by simpa [dataItems, dataHeight] using he, rfl⟩))
        · rename_i he
          exact Or.inr (Or.inr (Or.inr ⟨bs, by omega, hbs, by simpa [dataItems, dataHeight] using he, rfl⟩))

/-- the items of a header iteration are the headers of stored blocks of the pending range -/
theorem hdrItems_mem {s : Store} {w : Nat} {bs : List Block} (h : pendingBlocks s w = some bs) :
    ∀ it ∈ hdrItems bs, ∃ k b, w < k ∧ k ≤ s.height ∧ s.getBlock k = some b ∧
      it = { height := b.sh.hdr.height, key := b.sh.hdr.hash, blob := hdrBlob b } := by
  obtain ⟨hl, hget⟩ := pendingBlocks_some h
  intro it hit
  simp only [hdrItems, List.mem_map] at hit
  obtain ⟨b, hb, rfl⟩ := hit
  obtain ⟨i, hi, rfl⟩ := List.getElem_of_mem hb
  exact ⟨w + 1 + i, bs[i], by omega, by omega, hget i hi, rfl⟩

theorem dataItems_mem {s : Store} {w : Nat} {bs : List Block} (h : pendingBlocks s w = some bs) :
    ∀ it ∈ dataItems bs, ∃ k b, w < k ∧ k ≤ s.height ∧ s.getBlock k = some b ∧ b.data.txs ≠ [] ∧
      it = { height := dataHeight b, key := b.data.daCommitment, blob := dataBlob b } := by
  obtain ⟨hl, hget⟩ := pendingBlocks_some h
  intro it hit
  simp only [dataItems, List.mem_map, List.mem_filter] at hit
  obtain ⟨b, ⟨hb, hne⟩, rfl⟩ := hit
  obtain ⟨i, hi, rfl⟩ := List.getElem_of_mem hb
  exact ⟨w + 1 + i, bs[i], by omega, by omega, hget i hi, by simpa using hne, rfl⟩

/-- the blocks of the pending range carry their own height in the header (what `Producer.Inv.chain` gives) -/
def HdrOK (s : Store) (w : Nat) : Prop :=
  ∀ h, w < h → h ≤ s.height → ∃ b, s.getBlock h = some b ∧ b.sh.hdr.height = h

/-- the blocks of the pending range carry their own height in the data metadata (the producer appends the metadata
to the data of every block it commits, empty or not) -/
def DataOK (s : Store) (w : Nat) : Prop :=
  ∀ h, w < h → h ≤ s.height → ∃ b, s.getBlock h = some b ∧ dataHeight b = h

/-- the last pending block is the block at the chain height -/
theorem pendingBlocks_last {s : Store} {w : Nat} {bs : List Block} (h : pendingBlocks s w = some bs) (hlt : w < s.height) :
    ∃ b, bs.getLast? = some b ∧ s.getBlock s.height = some b ∧ lastDH bs = dataHeight b := by
  obtain ⟨hl, hget⟩ := pendingBlocks_some h
  have hi : bs.length - 1 < bs.length := by omega
  have hg := hget (bs.length - 1) hi
  have hidx : w + 1 + (bs.length - 1) = s.height := by omega
  rw [hidx] at hg
  have hlast : bs.getLast? = some bs[bs.length - 1] := by
    rw [List.getLast?_eq_getElem?, List.getElem?_eq_getElem hi]
  exact ⟨_, hlast, hg, by simp [lastDH, hlast]⟩

theorem hdrItems_heights {s : Store} {w : Nat} {bs : List Block} (h : pendingBlocks s w = some bs) (hok : HdrOK s w) :
    (hdrItems bs).map (·.height) = List.range' (w + 1) (s.height - w) := by
  obtain ⟨hl, hget⟩ := pendingBlocks_some h
  apply List.ext_getElem
  · simp [hdrItems, hl]
  · intro i h1 h2
    have hi : i < bs.length := by simpa [hdrItems] using h1
    obtain ⟨b, hb, hh⟩ := hok (w + 1 + i) (by omega) (by omega)
    rw [hget i hi] at hb
    have : bs[i] = b := by simpa using hb
    simp [hdrItems, this, hh]

theorem lastH_of_heights {items : List Item} {s n : Nat} (h : items.map (·.height) = List.range' s n) (hn : 0 < n) :
    lastH items = s + n - 1 := by
  unfold lastH
  rw [← List.getLast?_map, h, List.getLast?_range']
  rw [if_neg (by omega)]; rfl

theorem sorted_of_heights {items : List Item} {s n : Nat} (h : items.map (·.height) = List.range' s n) :
    items.Pairwise (fun x y => x.height < y.height) := by
  have : (items.map (·.height)).Pairwise (· < ·) := by rw [h]; exact List.pairwise_lt_range'
  exact List.pairwise_map.mp this

/-! ### consequences for one header iteration -/

/-- the loop invariant transfers to the iteration (for the unchanged outcomes: the empty item list) -/
theorem headersIter_inv (a : ANode) (script : List DAAns) :
    ∃ items rem pre, LoopInv false a items (headersIter a script).1 rem (headersIter a script).2.1 pre ∧
      (∀ it ∈ items, ∃ k b, a.n.hdrWm < k ∧ k ≤ a.n.store.height ∧ a.n.store.getBlock k = some b ∧
        it = { height := b.sh.hdr.height, key := b.sh.hdr.hash, blob := hdrBlob b }) := by
  rcases headersIter_cases a script with ⟨h, _⟩ | ⟨h, _⟩ | ⟨bs, _, hbs, h⟩
  · rw [h]; exact ⟨[], [], [], LoopInv.init false a [], by simp⟩
  · rw [h]; exact ⟨[], [], [], LoopInv.init false a [], by simp⟩
  · rw [h]
    obtain ⟨rem, pre, hi, _⟩ := submitLoop_loopInv false maxSubmitAttempts a (hdrItems bs) script []
    exact ⟨hdrItems bs, rem, pre, hi, hdrItems_mem hbs⟩

/-- what every submission iteration guarantees, whether it ran the retry loop or (data, all pending blocks empty) only
moved the watermark: the part of `LoopInv` that does not speak about the acknowledged prefix -/
structure IterInv (d : Bool) (a0 : ANode) (items : List Item) (a : ANode) (ws : List SW) : Prop where
  frame : Frame d a0 a
  store : a.n.store = a0.n.store.applyAll ws
  writes : ∀ w ∈ ws, ∃ v, w = SW.setMeta (wmKey d) (le64 v) ∧ wm d a0 < v ∧ v ≤ wm d a
  lastWrite : (ws = [] ∧ wm d a = wm d a0) ∨ ws.getLast? = some (SW.setMeta (wmKey d) (le64 (wm d a)))
  wmMono : wm d a0 ≤ wm d a
  daH : a0.daH ≤ a.daH
  blobs : ∃ new, a.daBlobs = new ++ a0.daBlobs ∧
    ∀ e ∈ new, a0.daH ≤ e.1 ∧ e.1 < a.daH ∧ e.2.1 = d ∧ ∃ it ∈ items, it.height = e.2.2
  marksNew : ∃ nm, marks d a = nm ++ marks d a0 ∧
    ∀ e ∈ nm, ∃ it ∈ items, e.1 = it.key ∧ a0.daH ≤ e.2 ∧ e.2 < a.daH ∧ (e.2, d, it.height) ∈ a.daBlobs

theorem LoopInv.toIter {d : Bool} {a0 : ANode} {items0 : List Item} {a : ANode} {rem : List Item} {ws : List SW}
    {pre : List Item} (h : LoopInv d a0 items0 a rem ws pre) : IterInv d a0 items0 a ws := by
  refine ⟨h.frame, h.store, h.writes, h.lastWrite, h.wmMono, h.daH, h.blobs, ?_⟩
  obtain ⟨nm, h1, h2⟩ := h.marksNew
  refine ⟨nm, h1, fun e he => ?_⟩
  obtain ⟨it, hit, r⟩ := h2 e he
  exact ⟨it, by rw [h.split]; exact List.mem_append_left _ hit, r⟩

theorem raiseWm_frame (a : ANode) (d : Bool) (h : Nat) : Frame d a (raiseWm a d h).1 := by
  obtain ⟨r1, r2, r3, r4, r5, r6, r7, r8, r9, r10, r11, r12, r13⟩ := raiseWm_spec a d h
  refine ⟨r3, r4, by cases d <;> simp [marks, r1, r2], r8, r11, r12, r13, ?_, ?_, ?_⟩
  · rw [r9, r10]; split <;> rfl
  · rw [r9, r10]; split <;> rfl
  · rw [r9, r10]; split <;> rfl

/-- moving the watermark alone -/
theorem raiseWm_iter (a : ANode) (d : Bool) (h : Nat) (items : List Item) :
    IterInv d a items (raiseWm a d h).1 (raiseWm a d h).2 := by
  obtain ⟨r1, r2, r3, r4, r5, r6, r7, r8, r9, r10, r11, r12, r13⟩ := raiseWm_spec a d h
  refine ⟨raiseWm_frame a d h, r9, ?_, ?_, by rw [r7]; exact Nat.le_max_left _ _, by rw [r5]; exact Nat.le_refl _,
    ⟨[], by rw [r6]; rfl, by simp⟩, ⟨[], by cases d <;> simp [marks, r1, r2], by simp⟩⟩
  · intro w hw
    rw [r10] at hw
    split at hw
    · rename_i hgt
      simp only [List.mem_cons, List.mem_nil_iff, or_false] at hw
      exact ⟨h, hw, hgt, by rw [r7]; exact Nat.le_max_right _ _⟩
    · cases hw
  · rw [r10, r7]
    split
    · rename_i hgt
      right
      have : max (wm d a) h = h := Nat.max_eq_right (Nat.le_of_lt hgt)
      rw [this]; rfl
    · rename_i hgt
      left
      exact ⟨rfl, Nat.max_eq_left (by omega)⟩

theorem headersIter_iter (a : ANode) (script : List DAAns) :
    ∃ items, IterInv false a items (headersIter a script).1 (headersIter a script).2.1 ∧
      (∀ it ∈ items, ∃ k b, a.n.hdrWm < k ∧ k ≤ a.n.store.height ∧ a.n.store.getBlock k = some b ∧
        it = { height := b.sh.hdr.height, key := b.sh.hdr.hash, blob := hdrBlob b }) := by
  obtain ⟨items, rem, pre, hi, hmem⟩ := headersIter_inv a script
  exact ⟨items, hi.toIter, hmem⟩

/-- every data iteration (skipped, failed to fetch, watermark moved past empty blocks, or the retry loop) -/
theorem dataIter_iter (a : ANode) (script : List DAAns) :
    ∃ items, IterInv true a items (dataIter a script).1 (dataIter a script).2.1 ∧
      (∀ it ∈ items, ∃ k b, a.n.dataWm < k ∧ k ≤ a.n.store.height ∧ a.n.store.getBlock k = some b ∧ b.data.txs ≠ [] ∧
        it = { height := dataHeight b, key := b.data.daCommitment, blob := dataBlob b }) := by
  rcases dataIter_cases a script with ⟨h, _⟩ | ⟨h, _⟩ | ⟨bs, _, _, _, h⟩ | ⟨bs, _, hbs, _, h⟩
  · rw [h]; exact ⟨[], (LoopInv.init true a []).toIter, by simp⟩
  · rw [h]; exact ⟨[], (LoopInv.init true a []).toIter, by simp⟩
  · rw [h]; exact ⟨[], raiseWm_iter a true (lastDH bs) [], by simp⟩
  · rw [h]
    obtain ⟨rem, pre, hi, _⟩ := submitLoop_loopInv true maxSubmitAttempts a (dataItems bs) script []
    exact ⟨dataItems bs, hi.toIter, dataItems_mem hbs⟩

/-- the header watermark stays at or below the chain height -/
theorem headersIter_wm_le (a : ANode) (script : List DAAns) (hok : HdrOK a.n.store a.n.hdrWm)
    (hle : a.n.hdrWm ≤ a.n.store.height) :
    (headersIter a script).1.n.hdrWm ≤ (headersIter a script).1.n.store.height := by
  obtain ⟨items, rem, pre, hi, hmem⟩ := headersIter_inv a script
  rw [hi.frame.height]
  rcases hi.wmFrom with e | ⟨l, hl, e⟩
  · have e' : (headersIter a script).1.n.hdrWm = a.n.hdrWm := e
    omega
  · have e' : (headersIter a script).1.n.hdrWm = l.height := e
    obtain ⟨k, b, k1, k2, hb, rfl⟩ := hmem l (by rw [hi.split]; exact List.mem_append_left _ hl)
    obtain ⟨b', hb', hh⟩ := hok k k1 k2
    rw [hb] at hb'
    have : b = b' := by simpa using hb'
    subst this
    rw [e']; show b.sh.hdr.height ≤ _; omega

/-- **retry until accepted**: if, after fewer failing answers than the attempt bound (none a cancellation), the DA layer
accepts everything, the header watermark reaches the chain height in this very iteration -/
theorem headersIter_reaches (a : ANode) (fails tail : List DAAns) (htail : tail.headD (.ok none) = .ok none)
    (hnc : DAAns.canceled ∉ fails) (hf : fails.length < maxSubmitAttempts)
    (hok : HdrOK a.n.store a.n.hdrWm) (hle : a.n.hdrWm ≤ a.n.store.height) :
    (headersIter a (fails ++ tail)).1.n.hdrWm = (headersIter a (fails ++ tail)).1.n.store.height ∧
    (a.n.hdrWm < a.n.store.height → (headersIter a (fails ++ tail)).2.2.2 = .done) := by
  have hle' := headersIter_wm_le a (fails ++ tail) hok hle
  rcases headersIter_cases a (fails ++ tail) with ⟨h, he⟩ | ⟨h, he⟩ | ⟨bs, hlt, hbs, h⟩
  · rw [h]; exact ⟨he.symm, fun hh => by omega⟩
  · exfalso
    rcases he with he | he
    · omega
    · obtain ⟨bs, hbs⟩ := pendingBlocks_exists (s := a.n.store) (w := a.n.hdrWm)
        (fun k k1 k2 => by obtain ⟨b, hb, _⟩ := hok k k1 k2; exact ⟨b, hb⟩)
      rw [hbs] at he; simp at he
  · rw [h] at hle' ⊢
    have hall := submitLoop_retry false fails tail htail hnc maxSubmitAttempts hf a (hdrItems bs) [] []
    have hwm := (submitLoop_wm_all false maxSubmitAttempts a (hdrItems bs) (fails ++ tail) []).1 hall
    rw [lastH_of_heights (hdrItems_heights hbs hok) (by omega)] at hwm
    obtain ⟨_, _, hi, _⟩ := submitLoop_loopInv false maxSubmitAttempts a (hdrItems bs) (fails ++ tail) []
    have hh := hi.frame.height
    simp only [iterOf] at hle' ⊢
    have hwm' : a.n.hdrWm + 1 + (a.n.store.height - a.n.hdrWm) - 1 ≤
        (submitLoop false maxSubmitAttempts a (hdrItems bs) (fails ++ tail) [] []).1.n.hdrWm := hwm
    refine ⟨by omega, fun _ => by rw [hall]; rfl⟩

/-- **soundness of the header watermark**: every height the iteration moved the watermark past is a stored block whose
header blob the DA double stored during this iteration, and the block's hash is marked with that DA height -/
theorem headersIter_sound (a : ANode) (script : List DAAns) (hok : HdrOK a.n.store a.n.hdrWm) :
    ∀ h, a.n.hdrWm < h → h ≤ (headersIter a script).1.n.hdrWm →
      ∃ b dh, a.n.store.getBlock h = some b ∧ b.sh.hdr.height = h ∧ a.daH ≤ dh ∧ dh < (headersIter a script).1.daH ∧
        (dh, false, h) ∈ (headersIter a script).1.daBlobs ∧ (b.sh.hdr.hash, dh) ∈ (headersIter a script).1.hMarks := by
  intro h h1 h2
  rcases headersIter_cases a script with ⟨he, _⟩ | ⟨he, _⟩ | ⟨bs, hlt, hbs, he⟩
  · rw [he] at h2; exact absurd h2 (by show ¬ h ≤ a.n.hdrWm; omega)
  · rw [he] at h2; exact absurd h2 (by show ¬ h ≤ a.n.hdrWm; omega)
  · rw [he] at h2 ⊢
    simp only [iterOf] at h2 ⊢
    have hhs := hdrItems_heights hbs hok
    -- the watermark never exceeds the chain height, so `h` is in the pending range
    have hle : (submitLoop false maxSubmitAttempts a (hdrItems bs) script [] []).1.n.hdrWm ≤ a.n.store.height := by
      have := headersIter_wm_le a script hok (by omega)
      rw [he] at this
      obtain ⟨_, _, hi, _⟩ := submitLoop_loopInv false maxSubmitAttempts a (hdrItems bs) script []
      have hh := hi.frame.height
      simp only [iterOf] at this; omega
    have hmem : h ∈ (hdrItems bs).map (·.height) := by
      rw [hhs]; simp [List.mem_range']; exact ⟨h - (a.n.hdrWm + 1), by omega, by omega⟩
    obtain ⟨it, hit, hith⟩ := List.mem_map.mp hmem
    obtain ⟨dh, d1, d2, d3, d4⟩ := submitLoop_sound false maxSubmitAttempts a (hdrItems bs) script []
      (sorted_of_heights hhs) it hit (by show a.n.hdrWm < it.height; omega)
      (by show it.height ≤ (submitLoop false maxSubmitAttempts a (hdrItems bs) script [] []).1.n.hdrWm; omega)
    obtain ⟨k, b, k1, k2, hb, rfl⟩ := hdrItems_mem hbs it hit
    obtain ⟨b', hb', hh⟩ := hok k k1 k2
    rw [hb] at hb'
    have : b = b' := by simpa using hb'
    subst this
    have hk : k = h := by rw [← hh]; exact hith
    subst hk
    exact ⟨b, dh, hb, hh, d1, d2, by simpa [hh] using d3, d4⟩

end Submit
