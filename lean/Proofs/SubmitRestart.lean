import Proofs.SubmitIter
import Proofs.Producer

/-! Watermarks versus production, persistence and restart (C06.3, C06.4, C08). -/
namespace Submit
open Wire Chain Producer

/-! ### production never touches the watermarks -/

theorem finish_wm (c : Cfg) (n : Node) (ws : List SW) (sh : SHeader) (d : Data) (ldh : Bytes) (ex : ExecResp) :
    (finish c n ws sh d ldh ex).1.hdrWm = n.hdrWm ∧ (finish c n ws sh d ldh ex).1.dataWm = n.dataWm := by
  unfold finish
  cases ex with
  | fail => exact ⟨rfl, rfl⟩
  | ok =>
    simp only
    split <;> exact ⟨rfl, rfl⟩

theorem publish_wm (c : Cfg) (n : Node) (resp : SeqResp) (ex : ExecResp) :
    (publish c n resp ex).1.hdrWm = n.hdrWm ∧ (publish c n resp ex).1.dataWm = n.dataWm := by
  unfold publish
  split
  · exact ⟨rfl, rfl⟩
  · split
    · exact ⟨rfl, rfl⟩
    · split
      · exact finish_wm ..
      · unfold fresh
        cases resp with
        | err => exact ⟨rfl, rfl⟩
        | absent => exact ⟨rfl, rfl⟩
        | batch txs ts bd =>
          simp only
          split
          · exact ⟨rfl, rfl⟩
          · split
            · exact ⟨rfl, rfl⟩
            · unfold buildAndFinish
              exact finish_wm ..

theorem run_wm (c : Cfg) (n : Node) (rs : List (SeqResp × ExecResp)) :
    (run c n rs).hdrWm = n.hdrWm ∧ (run c n rs).dataWm = n.dataWm := by
  induction rs generalizing n with
  | nil => exact ⟨rfl, rfl⟩
  | cons r rs ih =>
    obtain ⟨a, b⟩ := ih (publish c n r.1 r.2).1
    obtain ⟨a', b'⟩ := publish_wm c n r.1 r.2
    exact ⟨a.trans a', b.trans b'⟩

/-! ### a hole in the pending range blocks submission for ever -/

theorem headersIter_stuck (a : ANode) (script : List DAAns) (h : Nat) (h1 : a.n.hdrWm < h) (h2 : h ≤ a.n.store.height)
    (hb : a.n.store.getBlock h = none) : headersIter a script = (a, [], [], .fetchErr) := by
  unfold headersIter
  rw [if_neg (by omega), if_neg (by omega), pendingBlocks_none h1 h2 hb]

theorem dataIter_stuck (a : ANode) (script : List DAAns) (h : Nat) (h1 : a.n.dataWm < h) (h2 : h ≤ a.n.store.height)
    (hb : a.n.store.getBlock h = none) : dataIter a script = (a, [], [], .fetchErr) := by
  unfold dataIter
  rw [if_neg (by omega), if_neg (by omega), pendingBlocks_none h1 h2 hb]

/-- on a chain whose initial height is above 1 the pending range `(0, height]` always contains height 1, which is
never stored -/
theorem run_block_one_missing (c : Cfg) (hih : 2 ≤ c.initialHeight) (rs : List (SeqResp × ExecResp)) :
    1 ≤ (run c (freshNode c) rs).store.height ∧ (run c (freshNode c) rs).store.getBlock 1 = none := by
  obtain ⟨hh, hg, _, _⟩ := freshDisk_facts c
  have hi := freshNode_inv c (by omega)
  have h0 : 1 ≤ (freshNode c).store.height := by
    show 1 ≤ (freshDisk c).height; rw [hh]; omega
  -- stability of committed heights along a run
  have hst : ∀ (n : Node), Inv c n → (freshNode c).store.height ≤ n.store.height →
      n.store.getBlock 1 = none →
      (freshNode c).store.height ≤ (run c n rs).store.height ∧ (run c n rs).store.getBlock 1 = none := by
    induction rs with
    | nil => intro n _ h1 h2; exact ⟨h1, h2⟩
    | cons r rs ih =>
      intro n hn h1 h2
      have hs := publish_store hn r.1 r.2
      refine ih (publish c n r.1 r.2).1 (publish_inv hn r.1 r.2) ?_ ?_
      · rcases hs.1 with h | h <;> omega
      · rw [hs.2 1 (by omega)]; exact h2
  have := hst (freshNode c) hi (Nat.le_refl _) (by
    show (freshDisk c).getBlock 1 = none
    rw [hg, if_neg (by omega)])
  exact ⟨by omega, this.2⟩

/-! ### `Producer.Inv` supplies the hypothesis of the iteration theorems -/

theorem hdrOK_of_inv {c : Cfg} {n : Node} (hi : Inv c n) (hw : c.initialHeight ≤ n.hdrWm + 1) : HdrOK n.store n.hdrWm := by
  intro h h1 h2
  obtain ⟨b, hb, hl⟩ := hi.chain h (by omega) h2
  exact ⟨b, hb, hl.height⟩

/-! ### the watermark in memory is the watermark on disk -/

theorem length_le (n x : Nat) : (Bytes.le n x).length = n := by
  induction n generalizing x with
  | zero => rfl
  | succ n ih => simp [Bytes.le, ih]

theorem unLe_le (n x : Nat) : Bytes.unLe (Bytes.le n x) = x % 256 ^ n := by
  induction n generalizing x with
  | zero => simp [Bytes.le, Bytes.unLe, Nat.mod_one]
  | succ n ih =>
    simp only [Bytes.le, Bytes.unLe, ih, Nat.toUInt8]
    rw [Nat.pow_succ, Nat.mul_comm (256 ^ n) 256, Nat.mod_mul (a := 256) (b := 256 ^ n)]
    simp

theorem unLe_le64 {x : Nat} (hx : x < 2 ^ 64) : Bytes.unLe (le64 x) = x := by
  have : (256 : Nat) ^ 8 = 2 ^ 64 := by decide
  rw [le64, unLe_le, this, Nat.mod_eq_of_lt hx]

/-- the persisted watermark of kind `d` is the one held in memory (nothing persisted yet: both are 0) -/
def Persisted (d : Bool) (a : ANode) : Prop :=
  a.n.store.getMeta (wmKey d) = some (le64 (wm d a)) ∨ (a.n.store.getMeta (wmKey d) = none ∧ wm d a = 0)

theorem wmOf_of_persisted {d : Bool} {a : ANode} (h : Persisted d a) (hb : wm d a < 2 ^ 64) :
    wmOf a.n.store (wmKey d) = some (wm d a) := by
  unfold wmOf
  rcases h with h | ⟨h, h0⟩
  · rw [h]; simp [le64, length_le]; exact unLe_le64 hb
  · rw [h, h0]

theorem getMeta_applyAll_other (s : Store) (ws : List SW) (k : String)
    (h : ∀ w ∈ ws, ∀ k' v, w = SW.setMeta k' v → k' ≠ k) : (s.applyAll ws).getMeta k = s.getMeta k := by
  induction ws generalizing s with
  | nil => rfl
  | cons w ws ih =>
    show ((s.apply w).applyAll ws).getMeta k = _
    rw [ih _ (fun w' hw' => h w' (by simp [hw']))]
    cases w with
    | setMeta k' v =>
      have := h _ (by simp) k' v rfl
      simp [Store.apply, Store.getMeta, this]
    | saveBlock _ _ => rfl
    | updateState _ => rfl
    | setHeight _ => simp only [Store.apply]; split <;> rfl

theorem applyAll_snoc (s : Store) (ws : List SW) (w : SW) : s.applyAll (ws ++ [w]) = (s.applyAll ws).apply w := by
  simp [Store.applyAll]

theorem LoopInv.persisted {d : Bool} {a0 : ANode} {items0 : List Item} {a : ANode} {rem : List Item} {ws : List SW}
    {pre : List Item} (h : LoopInv d a0 items0 a rem ws pre) (hp : Persisted d a0) : Persisted d a := by
  rcases h.lastWrite with ⟨h1, h2⟩ | h1
  · have hs := h.store
    rw [h1] at hs
    unfold Persisted
    rw [hs, h2]; exact hp
  · left
    obtain ⟨ws', rfl⟩ : ∃ ws', ws = ws' ++ [SW.setMeta (wmKey d) (le64 (wm d a))] := by
      cases hws : ws.getLast? with
      | none => rw [hws] at h1; simp at h1
      | some x =>
        have hne : ws ≠ [] := by intro e; rw [e] at hws; simp at hws
        refine ⟨ws.dropLast, ?_⟩
        have := List.dropLast_concat_getLast hne
        rw [hws] at h1
        have hx : ws.getLast hne = x := by
          have := List.getLast?_eq_some_getLast hne
          rw [hws] at this; simpa using this.symm
        rw [← this, hx]; simp at h1; rw [h1]; simp
    rw [h.store, applyAll_snoc]
    simp [Store.apply, Store.getMeta]

/-- the writes of a submission loop of one kind never touch the other kind's key -/
theorem LoopInv.persisted_other {d : Bool} {a0 : ANode} {items0 : List Item} {a : ANode} {rem : List Item} {ws : List SW}
    {pre : List Item} (h : LoopInv d a0 items0 a rem ws pre) (hp : Persisted (!d) a0) : Persisted (!d) a := by
  have hk : wmKey d ≠ wmKey (!d) := by cases d <;> decide
  have : a.n.store.getMeta (wmKey (!d)) = a0.n.store.getMeta (wmKey (!d)) := by
    rw [h.store]
    apply getMeta_applyAll_other
    intro w hw k' v he
    obtain ⟨v', hv, _⟩ := h.writes w hw
    rw [hv] at he
    have : wmKey d = k' := by
      injection he
    rw [← this]; exact hk
  unfold Persisted
  rw [this, h.frame.otherWm]; exact hp

/-! ### restart -/

theorem wmOf_kv {d d' : Store} (h : d'.kv = d.kv) (k : String) : wmOf d' k = wmOf d k := by
  simp [wmOf, Store.getMeta, h]

/-- what `NewManager` reloads: exactly the persisted watermarks; blocks and metadata of the image are kept -/
theorem start_facts {c : Cfg} {disk : Store} {n : Node} {ws : List SW} (h : start c disk = .ok (n, ws)) :
    wmOf disk Producer.hdrWmKey = some n.hdrWm ∧ wmOf disk Producer.dataWmKey = some n.dataWm ∧
    n.store.kv = disk.kv ∧
    (disk.state ≠ none → (∀ k, n.store.getBlock k = disk.getBlock k) ∧ disk.height ≤ n.store.height) := by
  unfold start at h
  cases hs : disk.state with
  | none =>
    simp only [hs] at h
    generalize hd1 : disk.apply (SW.saveBlock c.initialHeight (genesisBlock c)) = d1 at h
    obtain ⟨_, _, _, a4⟩ := applyAll_setHeightW d1 (c.initialHeight - 1)
    have hkv : (d1.applyAll (setHeightW d1 (c.initialHeight - 1))).kv = disk.kv := by rw [a4, ← hd1]; rfl
    rw [wmOf_kv hkv, wmOf_kv hkv] at h
    split at h
    · rename_i hw dw e1 e2
      simp only [Except.ok.injEq, Prod.mk.injEq] at h
      obtain ⟨rfl, _⟩ := h
      exact ⟨e1, e2, hkv, fun hne => absurd rfl hne⟩
    · simp at h
  | some st =>
    by_cases hgt : c.initialHeight > st.lastHeight
    · simp [hs, hgt] at h
    · simp only [hs, hgt, ↓reduceIte] at h
      obtain ⟨a1, a2, _, a4⟩ := applyAll_setHeightW disk st.lastHeight
      rw [wmOf_kv a4, wmOf_kv a4] at h
      split at h
      · rename_i hw dw e1 e2
        simp only [Except.ok.injEq, Prod.mk.injEq] at h
        obtain ⟨rfl, _⟩ := h
        refine ⟨e1, e2, a4, fun _ => ⟨a2, ?_⟩⟩
        show disk.height ≤ (disk.applyAll (setHeightW disk st.lastHeight)).height
        rw [a1]; split <;> omega
      · simp at h

/-- **restart reloads exactly the persisted watermarks** (which the submission loops keep equal to the ones in memory),
so watermarks never decrease across a restart; a clean stop keeps the marks, the DA-included height is re-read -/
theorem restart_wm {c : Cfg} {a a' : ANode} {clean : Bool} (h : restart c a a.n.store clean = some a')
    (hp1 : Persisted false a) (hp2 : Persisted true a) (hb1 : a.n.hdrWm < 2 ^ 64) (hb2 : a.n.dataWm < 2 ^ 64) :
    a'.n.hdrWm = a.n.hdrWm ∧ a'.n.dataWm = a.n.dataWm ∧ a'.daBlobs = a.daBlobs ∧ a'.daH = a.daH ∧
    a'.finals = a.finals ∧ (clean = true → a'.hMarks = a.hMarks ∧ a'.dMarks = a.dMarks) := by
  unfold restart at h
  split at h
  · simp at h
  · rename_i n ws hst
    obtain ⟨e1, e2, _, _⟩ := start_facts hst
    have w1 := wmOf_of_persisted hp1 hb1
    have w2 := wmOf_of_persisted hp2 hb2
    simp only [Option.some.injEq] at h
    subst h
    have w1' : wmOf a.n.store Producer.hdrWmKey = some a.n.hdrWm := w1
    have w2' : wmOf a.n.store Producer.dataWmKey = some a.n.dataWm := w2
    rw [w1'] at e1; rw [w2'] at e2
    refine ⟨by simpa using e1.symm, by simpa using e2.symm, rfl, rfl, rfl, fun hc => by simp [hc]⟩

/-- the data watermark stays at or below the chain height -/
theorem dataIter_wm_le (a : ANode) (script : List DAAns) (hok : DataOK a.n.store a.n.dataWm)
    (hle : a.n.dataWm ≤ a.n.store.height) :
    (dataIter a script).1.n.dataWm ≤ (dataIter a script).1.n.store.height := by
  obtain ⟨items, rem, pre, hi, hmem⟩ := dataIter_inv a script
  rw [hi.frame.height]
  rcases hi.wmFrom with e | ⟨l, hl, e⟩
  · have e' : (dataIter a script).1.n.dataWm = a.n.dataWm := e
    omega
  · have e' : (dataIter a script).1.n.dataWm = l.height := e
    obtain ⟨k, b, k1, k2, hb, hne, rfl⟩ := hmem l (by rw [hi.split]; exact List.mem_append_left _ hl)
    obtain ⟨b', hb', hh⟩ := hok k k1 k2
    rw [hb] at hb'
    have : b = b' := by simpa using hb'
    subst this
    have : dataHeight b = k := hh hne
    rw [e']; show dataHeight b ≤ _; omega

end Submit
