import Proofs.SubmitIter
import Proofs.Producer

/-! Watermarks versus production, persistence and restart (C06.3, C06.4, C08). -/
namespace Submit
open Wire Chain Producer

/-! ### production never touches the watermarks -/

theorem finish_wm (c : Cfg) (n : Node) (ws : List SW) (sh : SHeader) (d : Data) (ldh : Bytes) (ex : ExecResp) :
    (finish c n ws sh d ldh ex).1.hdrWm = n.hdrWm ∧ (finish c n ws sh d ldh ex).1.dataWm = n.dataWm := by
  unfold finish
  cases ex with
  | fail => exact ⟨rfl, rfl⟩
  | ok =>
    simp only
    split <;> exact ⟨rfl, rfl⟩

theorem publish_wm (c : Cfg) (n : Node) (resp : SeqResp) (ex : ExecResp) :
    (publish c n resp ex).1.hdrWm = n.hdrWm ∧ (publish c n resp ex).1.dataWm = n.dataWm := by
  unfold publish
  split
  · exact ⟨rfl, rfl⟩
  · split
    · exact ⟨rfl, rfl⟩
    · split
      · exact finish_wm ..
      · unfold fresh
        cases resp with
        | err => exact ⟨rfl, rfl⟩
        | absent => exact ⟨rfl, rfl⟩
        | batch txs ts bd =>
          simp only
          split
          · exact ⟨rfl, rfl⟩
          · split
            · exact ⟨rfl, rfl⟩
            · unfold buildAndFinish
              exact finish_wm ..

theorem run_wm (c : Cfg) (n : Node) (rs : List (SeqResp × ExecResp)) :
    (run c n rs).hdrWm = n.hdrWm ∧ (run c n rs).dataWm = n.dataWm := by
  induction rs generalizing n with
  | nil => exact ⟨rfl, rfl⟩
  | cons r rs ih =>
    obtain ⟨a, b⟩ := ih (publish c n r.1 r.2).1
    obtain ⟨a', b'⟩ := publish_wm c n r.1 r.2
    exact ⟨a.trans a', b.trans b'⟩

/-! ### a hole in the pending range blocks submission for ever -/

theorem headersIter_stuck (a : ANode) (script : List DAAns) (h : Nat) (h1 : a.n.hdrWm < h) (h2 : h ≤ a.n.store.height)
    (hb : a.n.store.getBlock h = none) : headersIter a script = (a, [], [], .fetchErr) := by
  unfold headersIter
  rw [if_neg (by omega), if_neg (by omega), pendingBlocks_none h1 h2 hb]

theorem dataIter_stuck (a : ANode) (script : List DAAns) (h : Nat) (h1 : a.n.dataWm < h) (h2 : h ≤ a.n.store.height)
    (hb : a.n.store.getBlock h = none) : dataIter a script = (a, [], [], .fetchErr) := by
  unfold dataIter
  rw [if_neg (by omega), if_neg (by omega), pendingBlocks_none h1 h2 hb]

/-! ### `Producer.Inv` supplies the hypothesis of the iteration theorems -/

theorem hdrOK_of_inv {c : Cfg} {n : Node} (hi : Inv c n) (hw : c.initialHeight ≤ n.hdrWm + 1) : HdrOK n.store n.hdrWm := by
  intro h h1 h2
  obtain ⟨b, hb, hl⟩ := hi.chain h (by omega) h2
  exact ⟨b, hb, hl.height⟩

/-! ### the watermark in memory is the watermark on disk -/

theorem length_le (n x : Nat) : (Bytes.le n x).length = n := by
  induction n generalizing x with
  | zero => rfl
  | succ n ih => simp [Bytes.le, ih]

theorem unLe_le (n x : Nat) : Bytes.unLe (Bytes.le n x) = x % 256 ^ n := by
  induction n generalizing x with
  | zero => simp [Bytes.le, Bytes.unLe, Nat.mod_one]
  | succ n ih =>
    simp only [Bytes.le, Bytes.unLe, ih, Nat.toUInt8]
    rw [Nat.pow_succ, Nat.mul_comm (256 ^ n) 256, Nat.mod_mul (a := 256) (b := 256 ^ n)]
    simp

theorem unLe_le64 {x : Nat} (hx : x < 2 ^ 64) : Bytes.unLe (le64 x) = x := by
  have : (256 : Nat) ^ 8 = 2 ^ 64 := by decide
  rw [le64, unLe_le, this, Nat.mod_eq_of_lt hx]

/-- the persisted watermark of kind `d` is the one held in memory (nothing persisted yet: both are 0) -/
def Persisted (d : Bool) (a : ANode) : Prop :=
  a.n.store.getMeta (wmKey d) = some (le64 (wm d a)) ∨ (a.n.store.getMeta (wmKey d) = none ∧ wm d a = 0)

theorem wmOf_of_persisted {d : Bool} {a : ANode} (h : Persisted d a) (hb : wm d a < 2 ^ 64) :
    wmOf a.n.store (wmKey d) = some (wm d a) := by
  unfold wmOf
  rcases h with h | ⟨h, h0⟩
  · rw [h]; simp [le64, length_le]; exact unLe_le64 hb
  · rw [h, h0]

theorem getMeta_applyAll_other (s : Store) (ws : List SW) (k : String)
    (h : ∀ w ∈ ws, ∀ k' v, w = SW.setMeta k' v → k' ≠ k) : (s.applyAll ws).getMeta k = s.getMeta k := by
  induction ws generalizing s with
  | nil => rfl
  | cons w ws ih =>
    show ((s.apply w).applyAll ws).getMeta k = _
    rw [ih _ (fun w' hw' => h w' (by simp [hw']))]
    cases w with
    | setMeta k' v =>
      have := h _ (by simp) k' v rfl
      simp [Store.apply, Store.getMeta, this]
    | saveBlock _ _ => rfl
    | updateState _ => rfl
    | setHeight _ => simp only [Store.apply]; split <;> rfl

theorem applyAll_snoc (s : Store) (ws : List SW) (w : SW) : s.applyAll (ws ++ [w]) = (s.applyAll ws).apply w := by
  simp [Store.applyAll]

/-- after a loop that wrote at all, the persisted watermark is the one in memory -/
theorem IterInv.getMeta_last {d : Bool} {a0 : ANode} {items0 : List Item} {a : ANode} {ws : List SW}
    (h : IterInv d a0 items0 a ws)
    (h1 : ws.getLast? = some (SW.setMeta (wmKey d) (le64 (wm d a)))) :
    a.n.store.getMeta (wmKey d) = some (le64 (wm d a)) := by
  obtain ⟨ws', rfl⟩ : ∃ ws', ws = ws' ++ [SW.setMeta (wmKey d) (le64 (wm d a))] := by
    cases hws : ws.getLast? with
    | none => rw [hws] at h1; simp at h1
    | some x =>
      have hne : ws ≠ [] := by intro e; rw [e] at hws; simp at hws
      refine ⟨ws.dropLast, ?_⟩
      have := List.dropLast_concat_getLast hne
      rw [hws] at h1
      have hx : ws.getLast hne = x := by
        have := List.getLast?_eq_some_getLast hne
        rw [hws] at this; simpa using this.symm
      rw [← this, hx]; simp at h1; rw [h1]; simp
  rw [h.store, applyAll_snoc]
  simp [Store.apply, Store.getMeta]

/-- the writes of a submission loop touch no other metadata key -/
theorem IterInv.getMeta_other {d : Bool} {a0 : ANode} {items0 : List Item} {a : ANode} {ws : List SW}
    (h : IterInv d a0 items0 a ws) (k : String) (hk : wmKey d ≠ k) :
    a.n.store.getMeta k = a0.n.store.getMeta k := by
  rw [h.store]
  apply getMeta_applyAll_other
  intro w hw k' v he
  obtain ⟨v', hv, _⟩ := h.writes w hw
  rw [hv] at he
  have : wmKey d = k' := by
    injection he
  rw [← this]; exact hk

theorem IterInv.persisted {d : Bool} {a0 : ANode} {items0 : List Item} {a : ANode} {ws : List SW}
    (h : IterInv d a0 items0 a ws) (hp : Persisted d a0) : Persisted d a := by
  rcases h.lastWrite with ⟨h1, h2⟩ | h1
  · have hs := h.store
    rw [h1] at hs
    unfold Persisted
    rw [hs, h2]; exact hp
  · exact Or.inl (h.getMeta_last h1)

/-- the writes of a submission loop of one kind never touch the other kind's key -/
theorem IterInv.persisted_other {d : Bool} {a0 : ANode} {items0 : List Item} {a : ANode} {ws : List SW}
    (h : IterInv d a0 items0 a ws) (hp : Persisted (!d) a0) : Persisted (!d) a := by
  have hk : wmKey d ≠ wmKey (!d) := by cases d <;> decide
  unfold Persisted
  rw [h.getMeta_other _ hk, h.frame.otherWm]; exact hp

/-! ### restart -/

theorem wmOf_kv {d d' : Store} (h : d'.kv = d.kv) (k : String) : wmOf d' k = wmOf d k := by
  simp [wmOf, Store.getMeta, h]

theorem getMeta_kv {d d' : Store} (h : d'.kv = d.kv) (k : String) : d'.getMeta k = d.getMeta k := by
  simp [Store.getMeta, h]

/-- `NewManager` never lowers a watermark and starts it at `initialHeight - 1` at least -/
theorem wmRaise_ge (c : Cfg) (w : Nat) : w ≤ wmRaise c w ∧ c.initialHeight ≤ wmRaise c w + 1 := by
  unfold wmRaise; split <;> omega

theorem wmRaise_eq {c : Cfg} {w : Nat} (h : c.initialHeight ≤ w + 1) : wmRaise c w = w := by
  unfold wmRaise; rw [if_neg (by omega)]

theorem wmRaise_cases (c : Cfg) (w : Nat) :
    wmRaise c w = w ∨ (wmRaise c w = c.initialHeight - 1 ∧ w < c.initialHeight - 1) := by
  unfold wmRaise; split
  · right; omega
  · left; rfl

/-- the part of `start` after the state has been determined (loaded, or the genesis state with the genesis block
saved): raise the chain height to the state's, load the two watermarks and raise them to `initialHeight - 1` -/
def startTail (c : Cfg) (s : State) (d1 : Store) (ws1 : List SW) : Except StartErr (Node × List SW) :=
  let d2 := d1.applyAll (setHeightW d1 s.lastHeight)
  match wmOf d2 Producer.hdrWmKey, wmOf d2 Producer.dataWmKey with
  | some hw, some dw =>
    let d4 := (d2.applyAll (wmWrite c Producer.hdrWmKey hw)).applyAll (wmWrite c Producer.dataWmKey dw)
    .ok ({ store := d4, lastState := s, lastBatchData := ((d4.getMeta lastBatchDataKey).bind bytesToBatchData).getD [],
           hdrWm := wmRaise c hw, dataWm := wmRaise c dw, daHeight := s.daHeight },
         ws1 ++ setHeightW d1 s.lastHeight ++ wmWrite c Producer.hdrWmKey hw ++ wmWrite c Producer.dataWmKey dw)
  | _, _ => .error .badWatermark

theorem start_eq (c : Cfg) (disk : Store) : start c disk =
    match disk.state with
    | none => startTail c (genesisState c) (disk.apply (.saveBlock c.initialHeight (genesisBlock c)))
        [.saveBlock c.initialHeight (genesisBlock c)]
    | some s => if c.initialHeight > s.lastHeight then .error .genesisAboveState else startTail c s disk [] := by
  unfold start startTail
  cases hs : disk.state with
  | none =>
    simp only [genesisState, wmWrite, wmRaise, Nat.not_lt_zero, ↓reduceIte]
    split <;> simp_all
  | some s =>
    by_cases hgt : c.initialHeight > s.lastHeight
    · simp only [hgt, ↓reduceIte]
    · simp only [hgt, ↓reduceIte, wmWrite, wmRaise, Nat.not_lt_zero, List.nil_append]
      split <;> simp_all

theorem startTail_facts {c : Cfg} {s : State} {d1 : Store} {ws1 : List SW} {n : Node} {ws : List SW}
    (h : startTail c s d1 ws1 = .ok (n, ws)) :
    ∃ hw dw, wmOf d1 Producer.hdrWmKey = some hw ∧ wmOf d1 Producer.dataWmKey = some dw ∧
      n.hdrWm = wmRaise c hw ∧ n.dataWm = wmRaise c dw ∧ n.lastState = s ∧
      n.store.getMeta Producer.hdrWmKey = (if c.initialHeight > 1 ∧ c.initialHeight - 1 > hw
        then some (le64 (c.initialHeight - 1)) else d1.getMeta Producer.hdrWmKey) ∧
      n.store.getMeta Producer.dataWmKey = (if c.initialHeight > 1 ∧ c.initialHeight - 1 > dw
        then some (le64 (c.initialHeight - 1)) else d1.getMeta Producer.dataWmKey) ∧
      (∀ k, k ≠ Producer.hdrWmKey → k ≠ Producer.dataWmKey → n.store.getMeta k = d1.getMeta k) ∧
      (∀ k, n.store.getBlock k = d1.getBlock k) ∧
      n.store.height = (if s.lastHeight > d1.height then s.lastHeight else d1.height) ∧
      n.store.state = d1.state := by
  unfold startTail at h
  simp only at h
  obtain ⟨a1, a2, a3, a4⟩ := applyAll_setHeightW d1 s.lastHeight
  generalize d1.applyAll (setHeightW d1 s.lastHeight) = d2 at h a1 a2 a3 a4
  split at h
  · rename_i hw dw e1 e2
    simp only [Except.ok.injEq, Prod.mk.injEq] at h
    obtain ⟨rfl, _⟩ := h
    obtain ⟨b1, b2, b3, b4, b5⟩ := wmWrite_facts c d2 Producer.hdrWmKey hw
    generalize d2.applyAll (wmWrite c Producer.hdrWmKey hw) = d3 at b1 b2 b3 b4 b5
    obtain ⟨e1', e2', e3', e4', e5'⟩ := wmWrite_facts c d3 Producer.dataWmKey dw
    have hne : Producer.hdrWmKey ≠ Producer.dataWmKey := by decide
    refine ⟨hw, dw, by rw [← wmOf_kv a4]; exact e1, by rw [← wmOf_kv a4]; exact e2, rfl, rfl, rfl, ?_, ?_, ?_, ?_, ?_, ?_⟩
    · show (d3.applyAll _).getMeta _ = _
      rw [e4' _ hne, b5, getMeta_kv a4]
    · show (d3.applyAll _).getMeta _ = _
      rw [e5', b4 _ hne.symm, getMeta_kv a4]
    · intro k k1 k2
      show (d3.applyAll _).getMeta _ = _
      rw [e4' k k2, b4 k k1, getMeta_kv a4]
    · intro k
      show (d3.applyAll _).getBlock _ = _
      rw [e2', b2, a2]
    · show (d3.applyAll _).height = _
      rw [e1', b1, a1]
    · show (d3.applyAll _).state = _
      rw [e3', b3, a3]
  · simp at h

/-- what `NewManager` reloads: the persisted watermarks, each **raised to `initialHeight - 1`** (and persisted when
raised); blocks (except a re-save of the genesis block when no state was saved), all other metadata, the saved state and
the chain height (raised to the state's height at most) of the image are kept -/
theorem start_facts {c : Cfg} {disk : Store} {n : Node} {ws : List SW} (h : start c disk = .ok (n, ws)) :
    ∃ hw dw, wmOf disk Producer.hdrWmKey = some hw ∧ wmOf disk Producer.dataWmKey = some dw ∧
      n.hdrWm = wmRaise c hw ∧ n.dataWm = wmRaise c dw ∧
      n.store.getMeta Producer.hdrWmKey = (if c.initialHeight > 1 ∧ c.initialHeight - 1 > hw
        then some (le64 (c.initialHeight - 1)) else disk.getMeta Producer.hdrWmKey) ∧
      n.store.getMeta Producer.dataWmKey = (if c.initialHeight > 1 ∧ c.initialHeight - 1 > dw
        then some (le64 (c.initialHeight - 1)) else disk.getMeta Producer.dataWmKey) ∧
      (∀ k, k ≠ Producer.hdrWmKey → k ≠ Producer.dataWmKey → n.store.getMeta k = disk.getMeta k) ∧
      (∀ k, (disk.state = none → k ≠ c.initialHeight) → n.store.getBlock k = disk.getBlock k) ∧
      disk.height ≤ n.store.height ∧ n.store.state = disk.state ∧
      (∀ s, disk.state = some s → n.lastState = s) ∧ (disk.state = none → n.lastState = genesisState c) := by
  rw [start_eq] at h
  cases hs : disk.state with
  | none =>
    simp only [hs] at h
    obtain ⟨hw, dw, f1, f2, f3, f4, f5, f6, f7, f8, f9, f10, f11⟩ := startTail_facts h
    refine ⟨hw, dw, f1, f2, f3, f4, f6, f7, f8, fun k hk => ?_, ?_, ?_, fun s hs' => (by cases hs'), fun _ => f5⟩
    · rw [f9]; exact getBlock_saveBlock_other _ _ _ _ (Ne.symm (hk rfl))
    · rw [f10]
      have : (disk.apply (SW.saveBlock c.initialHeight (genesisBlock c))).height = disk.height := rfl
      rw [this]; split <;> omega
    · rw [f11]; exact hs
  | some s =>
    simp only [hs] at h
    by_cases hgt : c.initialHeight > s.lastHeight
    · simp [hgt] at h
    · rw [if_neg hgt] at h
      obtain ⟨hw, dw, f1, f2, f3, f4, f5, f6, f7, f8, f9, f10, f11⟩ := startTail_facts h
      refine ⟨hw, dw, f1, f2, f3, f4, f6, f7, f8, fun k _ => f9 k, ?_, by rw [f11]; exact hs,
        fun s' hs' => (by cases hs'; exact f5), fun hn => (by cases hn)⟩
      rw [f10]; split <;> omega

/-- **restart reloads the persisted watermarks** (which the submission loops keep equal to the ones in memory) **raised
to `initialHeight - 1`**: watermarks never decrease across a restart, and a node whose watermarks are at or above
`initialHeight - 1` (every reachable node) gets exactly its watermarks back; a clean stop keeps the marks, the
DA-included height is re-read -/
theorem restart_wm {c : Cfg} {a a' : ANode} {clean : Bool} (h : restart c a a.n.store clean = some a')
    (hp1 : Persisted false a) (hp2 : Persisted true a) (hb1 : a.n.hdrWm < 2 ^ 64) (hb2 : a.n.dataWm < 2 ^ 64) :
    a'.n.hdrWm = wmRaise c a.n.hdrWm ∧ a'.n.dataWm = wmRaise c a.n.dataWm ∧ a'.daBlobs = a.daBlobs ∧ a'.daH = a.daH ∧
    a'.finals = a.finals ∧ (clean = true → a'.hMarks = a.hMarks ∧ a'.dMarks = a.dMarks) := by
  unfold restart at h
  split at h
  · simp at h
  · rename_i n ws hst
    obtain ⟨hw, dw, e1, e2, e3, e4, _⟩ := start_facts hst
    have w1 := wmOf_of_persisted hp1 hb1
    have w2 := wmOf_of_persisted hp2 hb2
    simp only [Option.some.injEq] at h
    subst h
    have w1' : wmOf a.n.store Producer.hdrWmKey = some a.n.hdrWm := w1
    have w2' : wmOf a.n.store Producer.dataWmKey = some a.n.dataWm := w2
    rw [w1'] at e1; rw [w2'] at e2
    simp only [Option.some.injEq] at e1 e2
    subst e1; subst e2
    exact ⟨e3, e4, rfl, rfl, rfl, fun hc => by simp [hc]⟩

/-- the data watermark stays at or below the chain height -/
theorem dataIter_wm_le (a : ANode) (script : List DAAns) (hok : DataOK a.n.store a.n.dataWm)
    (hle : a.n.dataWm ≤ a.n.store.height) :
    (dataIter a script).1.n.dataWm ≤ (dataIter a script).1.n.store.height := by
  rcases dataIter_cases a script with ⟨h, _⟩ | ⟨h, _⟩ | ⟨bs, hlt, hbs, _, h⟩ | ⟨bs, hlt, hbs, _, h⟩
  · rw [h]; exact hle
  · rw [h]; exact hle
  · rw [h]
    obtain ⟨b, _, hb, hd⟩ := pendingBlocks_last hbs hlt
    obtain ⟨b', hb', hh⟩ := hok _ hlt (Nat.le_refl _)
    rw [hb] at hb'
    have : b = b' := by simpa using hb'
    subst this
    have h7 := (raiseWm_spec a true (lastDH bs)).2.2.2.2.2.2.1
    have hf := (raiseWm_frame a true (lastDH bs)).height
    show (raiseWm a true (lastDH bs)).1.n.dataWm ≤ (raiseWm a true (lastDH bs)).1.n.store.height
    have h7' : (raiseWm a true (lastDH bs)).1.n.dataWm = max a.n.dataWm (lastDH bs) := h7
    rw [h7', hf, hd, hh]; omega
  · rw [h]
    obtain ⟨rem, pre, hi, _⟩ := submitLoop_loopInv true maxSubmitAttempts a (dataItems bs) script []
    simp only [iterOf]
    rw [hi.frame.height]
    rcases hi.wmFrom with e | ⟨l, hl, e⟩
    · have e' : (submitLoop true maxSubmitAttempts a (dataItems bs) script [] []).1.n.dataWm = a.n.dataWm := e
      omega
    · have e' : (submitLoop true maxSubmitAttempts a (dataItems bs) script [] []).1.n.dataWm = l.height := e
      obtain ⟨k, b, k1, k2, hb, hne, rfl⟩ := dataItems_mem hbs l (by rw [hi.split]; exact List.mem_append_left _ hl)
      obtain ⟨b', hb', hh⟩ := hok k k1 k2
      rw [hb] at hb'
      have : b = b' := by simpa using hb'
      subst this
      rw [e']; show dataHeight b ≤ _; omega

/-- a committed block's data metadata, when present, carries the block's height (`Linked.metaOK`); without metadata the
height it reports is 0 -/
theorem dataHeight_le_of_inv {c : Cfg} {n : Node} (hinv : Inv c n) {k : Nat} {b : Block} (k1 : c.initialHeight ≤ k)
    (k2 : k ≤ n.store.height) (hb : n.store.getBlock k = some b) : dataHeight b ≤ k := by
  obtain ⟨b', hb', hl'⟩ := hinv.chain k k1 k2
  rw [hb] at hb'
  have : b = b' := by simpa using hb'
  subst this
  unfold dataHeight
  cases hm : b.data.metadata with
  | none => simp
  | some m =>
    have h1 := (hl'.metaOK m hm).2.1
    have h2 := hl'.height
    simp only [Option.map_some, Option.getD_some]
    omega

/-- … for every node satisfying the producer's invariant, without a hypothesis on the data metadata -/
theorem dataIter_wm_le_inv {c : Cfg} (a : ANode) (script : List DAAns) (hinv : Inv c a.n)
    (hlow : c.initialHeight ≤ a.n.dataWm + 1) (hle : a.n.dataWm ≤ a.n.store.height) :
    (dataIter a script).1.n.dataWm ≤ (dataIter a script).1.n.store.height := by
  rcases dataIter_cases a script with ⟨h, _⟩ | ⟨h, _⟩ | ⟨bs, hlt, hbs, _, h⟩ | ⟨bs, hlt, hbs, _, h⟩
  · rw [h]; exact hle
  · rw [h]; exact hle
  · rw [h]
    obtain ⟨b, _, hb, hd⟩ := pendingBlocks_last hbs hlt
    have hdl := dataHeight_le_of_inv hinv (by omega) (Nat.le_refl _) hb
    have h7 := (raiseWm_spec a true (lastDH bs)).2.2.2.2.2.2.1
    have hf := (raiseWm_frame a true (lastDH bs)).height
    show (raiseWm a true (lastDH bs)).1.n.dataWm ≤ (raiseWm a true (lastDH bs)).1.n.store.height
    have h7' : (raiseWm a true (lastDH bs)).1.n.dataWm = max a.n.dataWm (lastDH bs) := h7
    rw [h7', hf, hd]; omega
  · rw [h]
    obtain ⟨rem, pre, hi, _⟩ := submitLoop_loopInv true maxSubmitAttempts a (dataItems bs) script []
    simp only [iterOf]
    rw [hi.frame.height]
    rcases hi.wmFrom with e | ⟨l, hl, e⟩
    · have e' : (submitLoop true maxSubmitAttempts a (dataItems bs) script [] []).1.n.dataWm = a.n.dataWm := e
      omega
    · have e' : (submitLoop true maxSubmitAttempts a (dataItems bs) script [] []).1.n.dataWm = l.height := e
      obtain ⟨k, b, k1, k2, hb, hne, rfl⟩ := dataItems_mem hbs l (by rw [hi.split]; exact List.mem_append_left _ hl)
      have := dataHeight_le_of_inv hinv (by omega) k2 hb
      rw [e']; show dataHeight b ≤ _; omega

end Submit
