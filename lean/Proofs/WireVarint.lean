import Model.Wire

/-! # C12 helpers: varint round trip, bounds of decoded varints, UTF-8 strings -/
namespace Wire

theorem toUInt8_toNat {n : Nat} (h : n < 256) : (n.toUInt8).toNat = n := by
  simp [Nat.toUInt8, UInt8.toNat_ofNat']; omega

/-! ### encoder length -/

theorem encVarintF_length_le (f n : Nat) : (encVarintF f n).length ≤ f + 1 := by
  induction f generalizing n with
  | zero => simp [encVarintF]
  | succ f ih =>
    unfold encVarintF
    split
    · simp
    · have := ih (n / 128); simp; omega

theorem encVarintF_length_pos (f n : Nat) : 1 ≤ (encVarintF f n).length := by
  cases f with
  | zero => simp [encVarintF]
  | succ f => unfold encVarintF; split <;> simp

theorem encVarint_length_le (n : Nat) : (encVarint n).length ≤ 10 := encVarintF_length_le 9 n
theorem encVarint_length_pos (n : Nat) : 1 ≤ (encVarint n).length := encVarintF_length_pos 9 n

theorem encVarint_ne_nil (n : Nat) : encVarint n ≠ [] := by
  intro h; have := encVarint_length_pos n; rw [h] at this; simp at this

/-! ### round trip -/

theorem decVarintAux_encVarintF (f n : Nat) (rest : Bytes) (h : n < 2 * 128 ^ f) :
    decVarintAux (f + 1) (encVarintF f n ++ rest) = some (n, rest) := by
  induction f generalizing n with
  | zero =>
    have hb : (n.toUInt8).toNat = n := toUInt8_toNat (by omega)
    have h2 : n < 128 := by omega
    have h3 : ¬ 1 < n := by omega
    simp [encVarintF, decVarintAux, hb, h2, h3]
  | succ f ih =>
    unfold encVarintF
    split
    · rename_i h1
      have hb : (n.toUInt8).toNat = n := toUInt8_toNat (by omega)
      simp [decVarintAux, hb, h1]
    · rename_i h1
      have hb : ((n % 128 + 128).toUInt8).toNat = n % 128 + 128 := toUInt8_toNat (by omega)
      have hi := ih (n / 128) (by rw [Nat.pow_succ] at h; omega)
      have hlt : ¬ (n % 128 + 128 < 128) := by omega
      simp only [List.cons_append, decVarintAux, hb, hi, hlt, ↓reduceIte]
      congr 2
      omega

theorem decVarint_encVarint (n : Nat) (rest : Bytes) (h : n < 2 ^ 64) :
    decVarint (encVarint n ++ rest) = some (n, rest) :=
  decVarintAux_encVarintF 9 n rest (by
    have : (2:Nat) * 128 ^ 9 = 2 ^ 64 := by decide
    omega)

/-! ### every decoded varint is a `uint64`, consumes at least one byte, and its canonical
encoding is not longer than what was consumed -/

theorem decVarintAux_bound (f : Nat) (bs : Bytes) (n : Nat) (r : Bytes)
    (h : decVarintAux f bs = some (n, r)) :
    n < 2 * 128 ^ (f - 1) ∧ r.length < bs.length := by
  induction f generalizing bs n r with
  | zero => simp [decVarintAux] at h
  | succ f ih =>
    cases bs with
    | nil => simp [decVarintAux] at h
    | cons b rest =>
      simp only [decVarintAux] at h
      split at h
      · rename_i hb
        split at h
        · simp at h
        · rename_i hc
          simp only [Option.some.injEq, Prod.mk.injEq] at h
          obtain ⟨h1, h2⟩ := h
          subst h1 h2
          refine ⟨?_, by simp⟩
          cases f with
          | zero => simp at hc ⊢; omega
          | succ f =>
            have : 1 ≤ 128 ^ f := Nat.pow_pos (by omega)
            simp only [Nat.add_sub_cancel, Nat.pow_succ]; omega
      · rename_i hb
        split at h
        · rename_i hi r' heq
          simp only [Option.some.injEq, Prod.mk.injEq] at h
          obtain ⟨h1, h2⟩ := h
          subst h1 h2
          have ⟨i1, i2⟩ := ih rest hi r' heq
          cases f with
          | zero => simp [decVarintAux] at heq
          | succ f =>
            simp only [Nat.add_sub_cancel] at i1 ⊢
            have hb2 : b.toNat < 256 := b.toNat_lt
            refine ⟨?_, by simp; omega⟩
            rw [Nat.pow_succ]; omega
        · simp at h

theorem decVarint_bound {bs : Bytes} {n : Nat} {r : Bytes} (h : decVarint bs = some (n, r)) :
    n < 2 ^ 64 ∧ r.length < bs.length := by
  have := decVarintAux_bound 10 bs n r h
  have e : (2:Nat) * 128 ^ (10 - 1) = 2 ^ 64 := by decide
  omega

theorem encVarintF_small (g n : Nat) (h : n < 128) : encVarintF g n = [n.toUInt8] := by
  cases g <;> simp [encVarintF, h]

theorem decVarintAux_enc_length (f : Nat) (bs : Bytes) (n : Nat) (r : Bytes) (g : Nat)
    (h : decVarintAux f bs = some (n, r)) :
    (encVarintF g n).length + r.length ≤ bs.length := by
  induction f generalizing bs n r g with
  | zero => simp [decVarintAux] at h
  | succ f ih =>
    cases bs with
    | nil => simp [decVarintAux] at h
    | cons b rest =>
      simp only [decVarintAux] at h
      split at h
      · rename_i hb
        split at h
        · simp at h
        · simp only [Option.some.injEq, Prod.mk.injEq] at h
          obtain ⟨h1, h2⟩ := h
          subst h1 h2
          rw [encVarintF_small g _ hb]; simp; omega
      · rename_i hb
        split at h
        · rename_i hi r' heq
          simp only [Option.some.injEq, Prod.mk.injEq] at h
          obtain ⟨h1, h2⟩ := h
          subst h1 h2
          have hb2 : b.toNat < 256 := b.toNat_lt
          cases g with
          | zero =>
            have := (decVarintAux_bound f rest hi r' heq).2
            simp [encVarintF]; omega
          | succ g =>
            unfold encVarintF
            split
            · have := (decVarintAux_bound f rest hi r' heq).2
              simp; omega
            · have e : (b.toNat - 128 + 128 * hi) / 128 = hi := by omega
              rw [e]
              have := ih rest hi r' g heq
              simp; omega
        · simp at h

theorem decVarint_enc_length {bs : Bytes} {n : Nat} {r : Bytes} (h : decVarint bs = some (n, r)) :
    (encVarint n).length + r.length ≤ bs.length :=
  decVarintAux_enc_length 10 bs n r 9 h

/-! ### strings -/

theorem ofUtf8?_utf8 (s : String) : ofUtf8? (utf8 s) = some s := by
  unfold ofUtf8? utf8 String.fromUTF8? String.toUTF8
  have : (⟨s.toByteArray.data.toList.toArray⟩ : ByteArray) = s.toByteArray := by
    cases s.toByteArray; simp
  rw [this]
  simp [s.isValidUTF8, String.fromUTF8]

theorem utf8_of_ofUtf8? {b : Bytes} {s : String} (h : ofUtf8? b = some s) : utf8 s = b := by
  unfold ofUtf8? String.fromUTF8? at h
  split at h
  · simp only [Option.some.injEq] at h
    subst h
    simp [utf8, String.fromUTF8, String.toUTF8]
  · simp at h

end Wire
