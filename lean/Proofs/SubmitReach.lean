import Proofs.SubmitBytes
import Proofs.CrashStart

/-! Every node reachable from a fresh start — production, submission ticks, inclusion passes **and restarts** (clean
stops and crashes between two actions): both watermarks stay in `[initialHeight − 1, chain height]` (C06, C08). -/
namespace Submit
open Wire Chain Producer

/-! ### the metadata keys of the inclusion loop are not the watermark keys -/

theorem rhbKey_toList (h : Nat) (p : String) : ∃ t, (rhbKey h p).toList = 'r' :: t := by
  have : rhbKey h p = "rhb/" ++ (toString h ++ "/" ++ p) := by
    unfold rhbKey
    simp [toString, String.append_assoc]
  rw [this, String.toList_append]
  exact ⟨_, rfl⟩

/-- `rhb/<h>/<part>` is none of the keys that do not start with `r` -/
theorem rhbKey_ne {k : String} (hk : k.toList.head? ≠ some 'r') (h : Nat) (p : String) : rhbKey h p ≠ k := by
  intro e
  obtain ⟨t, ht⟩ := rhbKey_toList h p
  rw [e] at ht
  rw [ht] at hk
  exact hk rfl

/-- the inclusion loop writes only `rhb/…` and `d` -/
theorem includer_getMeta (a : ANode) (k : String) (hk1 : k ≠ daIncKey) (hk2 : k.toList.head? ≠ some 'r') :
    (includerIter a).1.n.store.getMeta k = a.n.store.getMeta k := by
  have hi : PassInv a (includerIter a).1 (includerIter a).2 :=
    includerPass_inv (a.n.store.height + 1) a a [] (PassInv.init a)
  obtain ⟨rec, _, hws⟩ := hi.writes
  rw [hi.store]
  apply getMeta_applyAll_other
  intro w hw k' v he
  rw [hws] at hw
  obtain ⟨h, _, hw⟩ := List.mem_flatMap.mp hw
  simp only [incWrites, List.mem_cons, List.mem_nil_iff, or_false] at hw
  rcases hw with rfl | rfl | rfl <;> injection he with h1 _ <;> rw [← h1]
  · exact rhbKey_ne hk2 h "h"
  · exact rhbKey_ne hk2 h "d"
  · exact Ne.symm hk1

/-- a production step writes no metadata but the batch cursor -/
theorem publish_getMeta {c : Cfg} {n : Node} (hl : Live c n) (r : SeqResp) (e : ExecResp) (k : String)
    (hk : k ≠ lastBatchDataKey) : (publish c n r e).1.store.getMeta k = n.store.getMeta k := by
  obtain ⟨pre, hpre, hsh⟩ := publish_shape hl r e
  have hp : ∀ w ∈ pre, ∀ k' v, w = SW.setMeta k' v → k' ≠ k := by
    intro w hw k' v he
    cases hpre w hw with
    | cursor v' => injection he with h1 _; rw [← h1]; exact Ne.symm hk
    | pending b _ _ => cases he
  rcases hsh with ⟨_, b2, _, _⟩ | ⟨st', _, _, b3, _, _⟩
  · rw [b2]; exact getMeta_applyAll_other _ _ _ hp
  · rw [b3]; apply getMeta_applyAll_other
    intro w hw k' v he
    rcases List.mem_append.mp hw with h | h
    · exact hp w h k' v he
    · simp only [commitTail, List.mem_cons, List.mem_nil_iff, or_false] at h
      rcases h with rfl | rfl <;> cases he

/-! ### what is persisted -/

/-- the persisted watermark of kind `d` parses and is at most the one in memory (it is equal to it below 2^64:
`Persisted`, `C06_persisted`) -/
def PLe (d : Bool) (a : ANode) : Prop := ∃ w, wmOf a.n.store (wmKey d) = some w ∧ w ≤ wm d a

theorem wmOf_congr_meta {s s' : Store} {k : String} (h : s'.getMeta k = s.getMeta k) : wmOf s' k = wmOf s k := by
  unfold wmOf; rw [h]

theorem wmOf_le64 {s : Store} {k : String} {v : Nat} (h : s.getMeta k = some (le64 v)) :
    ∃ w, wmOf s k = some w ∧ w ≤ v := by
  refine ⟨v % 2 ^ 64, ?_, Nat.mod_le _ _⟩
  unfold wmOf; rw [h]
  simp only [le64_length, ↓reduceIte]
  have : (256 : Nat) ^ 8 = 2 ^ 64 := by decide
  rw [le64, unLe_le, this]

theorem IterInv.ple {d : Bool} {a0 : ANode} {items0 : List Item} {a : ANode} {ws : List SW}
    (h : IterInv d a0 items0 a ws) (hp : PLe d a0) : PLe d a := by
  rcases h.lastWrite with ⟨h1, h2⟩ | h1
  · have hs := h.store
    rw [h1] at hs
    obtain ⟨w, hw, hle⟩ := hp
    exact ⟨w, by rw [hs]; exact hw, by rw [h2]; exact hle⟩
  · exact wmOf_le64 (h.getMeta_last h1)

theorem IterInv.ple_other {d : Bool} {a0 : ANode} {items0 : List Item} {a : ANode} {ws : List SW}
    (h : IterInv d a0 items0 a ws) (hp : PLe (!d) a0) : PLe (!d) a := by
  have hk : wmKey d ≠ wmKey (!d) := by cases d <;> decide
  obtain ⟨w, hw, hle⟩ := hp
  exact ⟨w, by rw [wmOf_congr_meta (h.getMeta_other _ hk)]; exact hw, by rw [h.frame.otherWm]; exact hle⟩

/-! ### what a start reads as the DA-included height -/

/-- what a start reads as the DA-included height -/
def loadInc (c : Cfg) (s : Store) : Nat :=
  let di0 := match s.getMeta daIncKey with
    | some b => if b.length = 8 then Bytes.unLe b else 0
    | none => 0
  if c.initialHeight > 1 ∧ di0 < c.initialHeight - 1 then c.initialHeight - 1 else di0

theorem loadInc_some {c : Cfg} {s : Store} {v : Nat} (h : s.getMeta daIncKey = some (le64 v)) (hb : v < 2 ^ 64)
    (hl : c.initialHeight - 1 ≤ v) : loadInc c s = v := by
  unfold loadInc
  rw [h]
  simp only [le64_length, ↓reduceIte, unLe_le64 hb]
  rw [if_neg (by omega)]

theorem loadInc_none {c : Cfg} {s : Store} (h : s.getMeta daIncKey = none) : loadInc c s = c.initialHeight - 1 := by
  unfold loadInc
  rw [h]
  simp only
  split <;> omega

theorem loadInc_congr {c : Cfg} {s s' : Store} (h : s'.getMeta daIncKey = s.getMeta daIncKey) :
    loadInc c s' = loadInc c s := by
  unfold loadInc; rw [h]

theorem loadInc_ge (c : Cfg) (s : Store) : c.initialHeight - 1 ≤ loadInc c s := by
  unfold loadInc
  cases s.getMeta daIncKey with
  | none => simp only; split <;> omega
  | some b =>
    by_cases h8 : b.length = 8
    · simp only [h8, ↓reduceIte]; split <;> omega
    · simp only [h8, ↓reduceIte]; split <;> omega

theorem loadInc_le64 {c : Cfg} {s : Store} {v : Nat} (h : s.getMeta daIncKey = some (le64 v))
    (hl : c.initialHeight - 1 ≤ v) : loadInc c s ≤ v := by
  unfold loadInc
  rw [h]
  have h8 : (256 : Nat) ^ 8 = 2 ^ 64 := by decide
  have hm : Bytes.unLe (le64 v) ≤ v := by rw [le64, unLe_le, h8]; exact Nat.mod_le _ _
  simp only [le64_length, ↓reduceIte]
  split <;> omega

/-- the DA-included height is at least `initialHeight − 1`, and **what a restart would report is at most what the node
reports** (it is equal below 2^64: `PDI`) -/
def PDw (c : Cfg) (a : ANode) : Prop := c.initialHeight - 1 ≤ a.daInc ∧ loadInc c a.n.store ≤ a.daInc

theorem PDw.step {c : Cfg} {a : ANode} (hl : Live c a.n) (p : PDw c a) (act : Act) : PDw c (stepA c a act) := by
  cases act with
  | produce rs e =>
    have hm := publish_getMeta hl rs e daIncKey (by decide)
    exact ⟨p.1, by show loadInc c (publish c a.n rs e).1.store ≤ a.daInc; rw [loadInc_congr hm]; exact p.2⟩
  | subH s =>
    obtain ⟨_, hi, _⟩ := headersIter_iter a s
    have hm := hi.getMeta_other daIncKey (by decide)
    have hd : (headersIter a s).1.daInc = a.daInc := hi.frame.daInc
    exact ⟨by show _ ≤ (headersIter a s).1.daInc; rw [hd]; exact p.1,
      by show loadInc c (headersIter a s).1.n.store ≤ (headersIter a s).1.daInc; rw [loadInc_congr hm, hd]; exact p.2⟩
  | subD s =>
    obtain ⟨_, hi, _⟩ := dataIter_iter a s
    have hm := hi.getMeta_other daIncKey (by decide)
    have hd : (dataIter a s).1.daInc = a.daInc := hi.frame.daInc
    exact ⟨by show _ ≤ (dataIter a s).1.daInc; rw [hd]; exact p.1,
      by show loadInc c (dataIter a s).1.n.store ≤ (dataIter a s).1.daInc; rw [loadInc_congr hm, hd]; exact p.2⟩
  | incl =>
    have hi : PassInv a (includerIter a).1 (includerIter a).2 :=
      includerPass_inv (a.n.store.height + 1) a a [] (PassInv.init a)
    have hmono := hi.mono
    refine ⟨Nat.le_trans p.1 hmono, ?_⟩
    show loadInc c (includerIter a).1.n.store ≤ (includerIter a).1.daInc
    by_cases hadv : a.daInc < (includerIter a).1.daInc
    · exact loadInc_le64 (hi.persisted hadv).1 (Nat.le_trans p.1 hmono)
    · have heq : (includerIter a).1.daInc = a.daInc := by omega
      obtain ⟨rec, _, hws⟩ := hi.writes
      have hnil : (includerIter a).2 = [] := by rw [hws, heq]; simp
      have hst : (includerIter a).1.n.store = a.n.store := by rw [hi.store, hnil]; rfl
      rw [hst, heq]; exact p.2

/-! ### the invariant of reachable nodes -/

/-- `W` (watermarks in `[initialHeight − 1, height]`, acknowledged headers on the DA layer), `D` (data side), the producer's
liveness invariant, memory in sync with the durable image, persisted watermarks at most the ones in memory, `G` (marks and
reported heights sound) and `PDw` (DA-included height durable) -/
structure R (c : Cfg) (a : ANode) : Prop extends W c a, D c a where
  live : Live c a.n
  synced : Synced c a.n
  ph : PLe false a
  pd : PLe true a
  /-- marks and reported heights are sound (C07) -/
  g : G c a
  /-- the DA-included height is at least `initialHeight − 1` and a restart reports at most what the node reports -/
  pdw : PDw c a
  /-- every blob the DA double holds is the wire encoding of a stored signed header / signed data -/
  bytes : BY c a

theorem R.wmOK {c : Cfg} {a : ANode} (r : R c a) : WmOK a.n.store := by
  obtain ⟨w1, hw1, _⟩ := r.ph
  obtain ⟨w2, hw2, _⟩ := r.pd
  exact ⟨⟨w1, hw1⟩, ⟨w2, hw2⟩⟩

/-- the node `NewManager` builds on an empty disk, for every initial height ≥ 1 -/
theorem R_fresh (c : Cfg) (h1 : 1 ≤ c.initialHeight) : R c (freshA c) := by
  obtain ⟨n, ws, hst, hl, hsy, hwm, _⟩ := start_of_dinv (dinv_empty c h1)
  rw [start_empty] at hst
  simp only [Except.ok.injEq, Prod.mk.injEq] at hst
  obtain ⟨rfl, rfl⟩ := hst
  obtain ⟨hw, dw, e1, e2, e3, e4, e5, e6, _⟩ := start_facts (start_empty c)
  have z1 : hw = 0 := by
    have : wmOf ({} : Store) Producer.hdrWmKey = some 0 := rfl
    rw [this] at e1; simpa using e1.symm
  have z2 : dw = 0 := by
    have : wmOf ({} : Store) Producer.dataWmKey = some 0 := rfl
    rw [this] at e2; simpa using e2.symm
  subst z1; subst z2
  have hpdw : PDw c (freshA c) := by
    obtain ⟨_, _, hkv, _⟩ := freshDisk_facts c
    have hm : (freshNode c).store.getMeta daIncKey = none := hkv _ (by decide) (by decide)
    exact ⟨Nat.le_refl _, by show loadInc c (freshNode c).store ≤ c.initialHeight - 1; rw [loadInc_none hm]; exact Nat.le_refl _⟩
  have hby : BY c (freshA c) := ⟨rfl, fun e he => by cases he⟩
  refine { W_fresh c h1, D_fresh c h1 with
           live := hl, synced := hsy, ph := ?_, pd := ?_, g := G_fresh c h1, pdw := hpdw, bytes := hby }
  · show ∃ w, wmOf (freshNode c).store Producer.hdrWmKey = some w ∧ w ≤ (freshNode c).hdrWm
    by_cases hc : c.initialHeight > 1 ∧ c.initialHeight - 1 > 0
    · rw [if_pos hc] at e5
      obtain ⟨w, q1, q2⟩ := wmOf_le64 e5
      exact ⟨w, q1, by rw [e3]; unfold wmRaise; rw [if_pos hc]; exact q2⟩
    · rw [if_neg hc] at e5
      exact ⟨0, by rw [wmOf_congr_meta e5]; rfl, Nat.zero_le _⟩
  · show ∃ w, wmOf (freshNode c).store Producer.dataWmKey = some w ∧ w ≤ (freshNode c).dataWm
    by_cases hc : c.initialHeight > 1 ∧ c.initialHeight - 1 > 0
    · rw [if_pos hc] at e6
      obtain ⟨w, q1, q2⟩ := wmOf_le64 e6
      exact ⟨w, q1, by rw [e4]; unfold wmRaise; rw [if_pos hc]; exact q2⟩
    · rw [if_neg hc] at e6
      exact ⟨0, by rw [wmOf_congr_meta e6]; rfl, Nat.zero_le _⟩

/-- an action that leaves height, blocks, last state and saved state alone -/
theorem R.of_frame {c : Cfg} {a a' : ANode} (r : R c a) (w : W c a') (d : D c a') (hh : a'.n.store.height = a.n.store.height)
    (hb : ∀ k, a'.n.store.getBlock k = a.n.store.getBlock k) (hl : a'.n.lastState = a.n.lastState)
    (hs : a'.n.store.state = a.n.store.state) (ph : PLe false a') (pd : PLe true a') (g : G c a') (pdw : PDw c a')
    (y : BY c a') : R c a' :=
  { w, d with
    live := Live.of_same r.live hh hb hl
    synced := by have := r.synced; unfold Synced at this ⊢; rw [hs, hl]; exact this
    ph := ph, pd := pd, g := g, pdw := pdw, bytes := y }

theorem R.step {c : Cfg} {a : ANode} (r : R c a) (act : Act) : R c (stepA c a act) := by
  have w := r.toW.step act
  have d := D.step r.toW r.toD act
  have g := stepA_G r.g act
  have pdw := r.pdw.step r.live act
  have y := r.bytes.step r.pinv r.low r.dlow act
  cases act with
  | produce rs e =>
    obtain ⟨w1, w2⟩ := publish_wm c a.n rs e
    obtain ⟨s1, _, _⟩ := publish_synced r.live r.synced r.wmOK rs e
    refine { w, d with live := publish_live r.live rs e, synced := s1, ph := ?_, pd := ?_, g := g, pdw := pdw, bytes := y }
    · obtain ⟨x, hx, hle⟩ := r.ph
      refine ⟨x, ?_, ?_⟩
      · show wmOf (publish c a.n rs e).1.store (wmKey false) = some x
        rw [wmOf_congr_meta (publish_getMeta r.live rs e _ (by decide))]; exact hx
      · show x ≤ (publish c a.n rs e).1.hdrWm
        rw [w1]; exact hle
    · obtain ⟨x, hx, hle⟩ := r.pd
      refine ⟨x, ?_, ?_⟩
      · show wmOf (publish c a.n rs e).1.store (wmKey true) = some x
        rw [wmOf_congr_meta (publish_getMeta r.live rs e _ (by decide))]; exact hx
      · show x ≤ (publish c a.n rs e).1.dataWm
        rw [w2]; exact hle
  | subH s =>
    obtain ⟨items, hi, _⟩ := headersIter_iter a s
    exact r.of_frame w d hi.frame.height hi.frame.getBlock hi.frame.lastState hi.frame.state (hi.ple r.ph)
      (hi.ple_other (d := false) r.pd) g pdw y
  | subD s =>
    obtain ⟨items, hi, _⟩ := dataIter_iter a s
    exact r.of_frame w d hi.frame.height hi.frame.getBlock hi.frame.lastState hi.frame.state
      (hi.ple_other (d := true) r.ph) (hi.ple r.pd) g pdw y
  | incl =>
    have hi : PassInv a (includerIter a).1 (includerIter a).2 :=
      includerPass_inv (a.n.store.height + 1) a a [] (PassInv.init a)
    refine r.of_frame w d hi.frame.height hi.frame.getBlock hi.frame.lastState hi.frame.state ?_ ?_ g pdw y
    · obtain ⟨x, hx, hle⟩ := r.ph
      refine ⟨x, ?_, ?_⟩
      · show wmOf (includerIter a).1.n.store (wmKey false) = some x
        rw [wmOf_congr_meta (includer_getMeta a _ (by decide) (by decide))]; exact hx
      · show x ≤ (includerIter a).1.n.hdrWm
        rw [hi.frame.hdrWm]; exact hle
    · obtain ⟨x, hx, hle⟩ := r.pd
      refine ⟨x, ?_, ?_⟩
      · show wmOf (includerIter a).1.n.store (wmKey true) = some x
        rw [wmOf_congr_meta (includer_getMeta a _ (by decide) (by decide))]; exact hx
      · show x ≤ (includerIter a).1.n.dataWm
        rw [hi.frame.dataWm]; exact hle

/-! ### restart -/

/-- what a restart keeps and reloads -/
structure RestartFacts (c : Cfg) (a a' : ANode) (clean : Bool) : Prop where
  hdrWm : a'.n.hdrWm ≤ wmRaise c a.n.hdrWm
  dataWm : a'.n.dataWm ≤ wmRaise c a.n.dataWm
  height : a'.n.store.height = a.n.store.height
  blocks : ∀ k, k ≤ a.n.store.height → a'.n.store.getBlock k = a.n.store.getBlock k
  daBlobs : a'.daBlobs = a.daBlobs
  daBytes : a'.daBytes = a.daBytes
  daH : a'.daH = a.daH
  finals : a'.finals = a.finals
  hMarks : a'.hMarks = if clean then a.hMarks else []
  dMarks : a'.dMarks = if clean then a.dMarks else []
  daInc : a'.daInc = loadInc c a.n.store
  incMeta : a'.n.store.getMeta daIncKey = a.n.store.getMeta daIncKey

/-- **a restart (clean stop or crash between two actions) on the image of a reachable node succeeds and yields a
reachable node**: the reloaded watermarks are the persisted ones raised to `initialHeight − 1`, hence again in
`[initialHeight − 1, height]`, and everything at or below the header watermark is still on the DA layer -/
theorem R.restart {c : Cfg} {a : ANode} (r : R c a) (clean : Bool) :
    ∃ a', restart c a a.n.store clean = some a' ∧ R c a' ∧ RestartFacts c a a' clean := by
  obtain ⟨w1, hw1, hle1⟩ := r.ph
  obtain ⟨w2, hw2, hle2⟩ := r.pd
  have hle1' : w1 ≤ a.n.hdrWm := hle1
  have hle2' : w2 ≤ a.n.dataWm := hle2
  obtain ⟨n, ws, hst, hl, hsy, _⟩ := start_of_dinv (dinv_of_node r.live r.synced r.wmOK)
  obtain ⟨hw, dw, e1, e2, e3, e4, e5, e6, e7, e8, e9, _, e11, e12⟩ := start_facts hst
  have z1 : hw = w1 := by
    have : wmOf a.n.store Producer.hdrWmKey = some w1 := hw1
    rw [this] at e1; simpa using e1.symm
  have z2 : dw = w2 := by
    have : wmOf a.n.store Producer.dataWmKey = some w2 := hw2
    rw [this] at e2; simpa using e2.symm
  subst z1; subst z2
  -- in the image of a node that has not committed yet nothing is above `initialHeight − 1`
  have hnone : a.n.store.state = none → a.n.store.height = c.initialHeight - 1 := by
    intro hn
    rcases r.synced with ⟨h, _⟩ | ⟨_, h⟩
    · rw [hn] at h; cases h
    · have := r.live.hs; rw [h] at this; exact this
  have hlow := hl.low
  -- the restarted node holds the state the node held, hence the same chain height
  have hls : n.lastState = a.n.lastState := by
    rcases r.synced with ⟨h, _⟩ | ⟨h, h'⟩
    · exact e11 _ h
    · rw [e12 h, h']
  have hheq : n.store.height = a.n.store.height := by rw [hl.hs, hls, r.live.hs]
  have hblk' : ∀ k, k ≤ a.n.store.height → n.store.getBlock k = a.n.store.getBlock k := by
    intro k hk2
    exact e8 k (fun hn => by have := hnone hn; have := r.pinv.ihPos; omega)
  have hblk : ∀ k, c.initialHeight ≤ k → k ≤ a.n.store.height → n.store.getBlock k = a.n.store.getBlock k :=
    fun k _ hk2 => hblk' k hk2
  have hmd : n.store.getMeta daIncKey = a.n.store.getMeta daIncKey := e7 _ (by decide) (by decide)
  have hmono : ∀ x y, x ≤ y → wmRaise c x ≤ wmRaise c y := by
    intro x y hxy; unfold wmRaise; split <;> split <;> omega
  have hpl : ∀ (key : String) (x : Nat), n.store.getMeta key = (if c.initialHeight > 1 ∧ c.initialHeight - 1 > x
      then some (le64 (c.initialHeight - 1)) else a.n.store.getMeta key) → wmOf a.n.store key = some x →
      ∃ w, wmOf n.store key = some w ∧ w ≤ wmRaise c x := by
    intro key x e hx
    by_cases hc : c.initialHeight > 1 ∧ c.initialHeight - 1 > x
    · rw [if_pos hc] at e
      obtain ⟨w, q1, q2⟩ := wmOf_le64 e
      exact ⟨w, q1, by unfold wmRaise; rw [if_pos hc]; exact q2⟩
    · rw [if_neg hc] at e
      exact ⟨x, by rw [wmOf_congr_meta e]; exact hx, by unfold wmRaise; rw [if_neg hc]; exact Nat.le_refl _⟩
  have hr : ∃ a', Submit.restart c a a.n.store clean = some a' ∧ a'.n = n ∧ a'.daBlobs = a.daBlobs ∧
      a'.daBytes = a.daBytes ∧ a'.daH = a.daH ∧
      a'.finals = a.finals ∧ a'.hMarks = (if clean then a.hMarks else []) ∧ a'.dMarks = (if clean then a.dMarks else []) ∧
      a'.daInc = loadInc c n.store := by
    unfold Submit.restart; rw [hst]; exact ⟨_, rfl, rfl, rfl, rfl, rfl, rfl, rfl, rfl, rfl⟩
  obtain ⟨a', hr, hn, hda, hdby, hdah, hfin, hhm, hdm, hinc⟩ := hr
  subst hn
  have hinc' : a'.daInc = loadInc c a.n.store := by rw [hinc, loadInc_congr hmd]
  have hincle : a'.daInc ≤ a.daInc := by rw [hinc']; exact r.pdw.2
  have tH : ∀ k dh, HdrOnDA a k dh → HdrOnDA a' k dh := fun k dh h =>
    h.mono (by rw [hheq]; exact Nat.le_refl _) hblk' (fun e he => by rw [hda]; exact he)
  have tD : ∀ k dh, DataOnDA a k dh → DataOnDA a' k dh := fun k dh h =>
    h.mono (by rw [hheq]; exact Nat.le_refl _) hblk' (fun e he => by rw [hda]; exact he)
  refine ⟨a', hr, ?_, ⟨?_, ?_, hheq, hblk', hda, hdby, hdah, hfin, hhm, hdm, hinc', hmd⟩⟩
  · refine { pinv := hl.toInv, low := ?_, le := ?_, dlow := ?_, dle := ?_, acc := ?_, mh := ?_, dacc := ?_, live := hl,
             synced := hsy, ph := ?_, pd := ?_, g := ?_, pdw := ?_, bytes := ?_ }
    · rw [e3]; exact (wmRaise_ge c _).2
    · rw [e3]
      have := r.le
      rcases wmRaise_cases c hw with h | ⟨h, _⟩ <;> omega
    · rw [e4]; exact (wmRaise_ge c _).2
    · rw [e4]
      have := r.dle
      rcases wmRaise_cases c dw with h | ⟨h, _⟩ <;> omega
    · intro h ha hb
      have hb' : h ≤ a'.n.hdrWm := hb
      rw [e3] at hb'
      have hold : h ≤ a.n.hdrWm := by rcases wmRaise_cases c hw with q | ⟨q, _⟩ <;> omega
      obtain ⟨b, dh, r1, r2, r3⟩ := r.acc h ha hold
      refine ⟨b, dh, ?_, r2, by rw [hda]; exact r3⟩
      have hk : a.n.store.state = none → h ≠ c.initialHeight := by
        intro hn
        have q1 := hnone hn
        have q2 := r.le
        have q3 := r.pinv.ihPos
        omega
      rw [e8 h hk]; exact r1
    · intro h ha hb
      have hb' : h ≤ a.n.store.height := by rw [← hheq]; exact hb
      rw [hblk h ha hb']; exact r.mh h ha hb'
    · intro h ha hb
      have hb' : h ≤ a'.n.dataWm := hb
      rw [e4] at hb'
      have hold : h ≤ a.n.dataWm := by rcases wmRaise_cases c dw with q | ⟨q, _⟩ <;> omega
      obtain ⟨b, r1, r2⟩ := r.dacc h ha hold
      refine ⟨b, by rw [hblk h ha (Nat.le_trans hold r.dle)]; exact r1, ?_⟩
      rw [hda]; exact r2
    · obtain ⟨w, q1, q2⟩ := hpl _ _ e5 hw1
      exact ⟨w, q1, by show w ≤ a'.n.hdrWm; rw [e3]; exact q2⟩
    · obtain ⟨w, q1, q2⟩ := hpl _ _ e6 hw2
      exact ⟨w, q1, by show w ≤ a'.n.dataWm; rw [e4]; exact q2⟩
    · refine ⟨hl.toInv, ?_, ?_, ?_, ?_⟩
      · exact Nat.le_trans hincle (by rw [hheq]; exact r.g.incLe)
      · intro e he
        rw [hhm] at he
        cases clean with
        | false => cases he
        | true => exact tH _ _ (r.g.hM e he)
      · intro e he
        rw [hdm] at he
        cases clean with
        | false => cases he
        | true => exact tD _ _ (r.g.dM e he)
      · intro h h1 h2
        obtain ⟨b, r1, ⟨dh, r2⟩, r3⟩ := r.g.incSound h h1 (Nat.le_trans h2 hincle)
        refine ⟨b, by rw [hblk' h (Nat.le_trans (Nat.le_trans h2 hincle) r.g.incLe)]; exact r1, ⟨dh, tH _ _ r2⟩, ?_⟩
        rcases r3 with r3 | ⟨dd, r3⟩
        · exact Or.inl r3
        · exact Or.inr ⟨dd, tD _ _ r3⟩
    · exact ⟨by rw [hinc]; exact loadInc_ge c _, by rw [hinc]; exact Nat.le_refl _⟩
    · refine ⟨by rw [hda, hdby]; exact r.bytes.aligned, fun e he => ?_⟩
      rw [hdby] at he
      exact (r.bytes.entries e he).mono (Nat.le_refl _) (by rw [hheq]; exact Nat.le_refl _) hblk'
  · rw [e3]; exact hmono _ _ hle1'
  · rw [e4]; exact hmono _ _ hle2'

/-! ### the DA-included height is durable (exact form, below 2^64) -/

/-- the DA-included height is at least `initialHeight − 1`, and the persisted value is the one in memory — or nothing is
persisted yet and the node holds `initialHeight − 1` (where every start puts it) -/
def PDI (c : Cfg) (a : ANode) : Prop :=
  c.initialHeight - 1 ≤ a.daInc ∧
  (a.n.store.getMeta daIncKey = some (le64 a.daInc) ∨
   (a.n.store.getMeta daIncKey = none ∧ a.daInc = c.initialHeight - 1))

theorem PDI_fresh (c : Cfg) : PDI c (freshA c) := by
  obtain ⟨_, _, hkv, _⟩ := freshDisk_facts c
  exact ⟨Nat.le_refl _, Or.inr ⟨hkv _ (by decide) (by decide), rfl⟩⟩

theorem PDI.step {c : Cfg} {a : ANode} (r : R c a) (p : PDI c a) (act : Act) : PDI c (stepA c a act) := by
  cases act with
  | produce rs e =>
    have hm := publish_getMeta r.live rs e daIncKey (by decide)
    refine ⟨p.1, ?_⟩
    show (publish c a.n rs e).1.store.getMeta daIncKey = some (le64 a.daInc) ∨
      ((publish c a.n rs e).1.store.getMeta daIncKey = none ∧ a.daInc = c.initialHeight - 1)
    rw [hm]; exact p.2
  | subH s =>
    obtain ⟨_, hi, _⟩ := headersIter_iter a s
    have hm := hi.getMeta_other daIncKey (by decide)
    have hd : (headersIter a s).1.daInc = a.daInc := hi.frame.daInc
    refine ⟨by show _ ≤ (headersIter a s).1.daInc; rw [hd]; exact p.1, ?_⟩
    show (headersIter a s).1.n.store.getMeta daIncKey = some (le64 (headersIter a s).1.daInc) ∨
      ((headersIter a s).1.n.store.getMeta daIncKey = none ∧ (headersIter a s).1.daInc = c.initialHeight - 1)
    rw [hm, hd]; exact p.2
  | subD s =>
    obtain ⟨_, hi, _⟩ := dataIter_iter a s
    have hm := hi.getMeta_other daIncKey (by decide)
    have hd : (dataIter a s).1.daInc = a.daInc := hi.frame.daInc
    refine ⟨by show _ ≤ (dataIter a s).1.daInc; rw [hd]; exact p.1, ?_⟩
    show (dataIter a s).1.n.store.getMeta daIncKey = some (le64 (dataIter a s).1.daInc) ∨
      ((dataIter a s).1.n.store.getMeta daIncKey = none ∧ (dataIter a s).1.daInc = c.initialHeight - 1)
    rw [hm, hd]; exact p.2
  | incl =>
    have hi : PassInv a (includerIter a).1 (includerIter a).2 :=
      includerPass_inv (a.n.store.height + 1) a a [] (PassInv.init a)
    have hmono := hi.mono
    refine ⟨Nat.le_trans p.1 hmono, ?_⟩
    show (includerIter a).1.n.store.getMeta daIncKey = some (le64 (includerIter a).1.daInc) ∨
      ((includerIter a).1.n.store.getMeta daIncKey = none ∧ (includerIter a).1.daInc = c.initialHeight - 1)
    by_cases hadv : a.daInc < (includerIter a).1.daInc
    · exact Or.inl (hi.persisted hadv).1
    · have heq : (includerIter a).1.daInc = a.daInc := by omega
      obtain ⟨rec, _, hws⟩ := hi.writes
      have hnil : (includerIter a).2 = [] := by rw [hws, heq]; simp
      have hst : (includerIter a).1.n.store = a.n.store := by rw [hi.store, hnil]; rfl
      rw [hst, heq]; exact p.2

theorem PDI.run {c : Cfg} {a : ANode} (r : R c a) (p : PDI c a) (acts : List Act) : PDI c (runA c a acts) := by
  induction acts generalizing a with
  | nil => exact p
  | cons act acts ih => exact ih (r.step act) (p.step r act)

/-- **a restart gives the DA-included height back**: the persisted one, or `initialHeight − 1` when nothing is persisted —
which is what the node held -/
theorem PDI.restart {c : Cfg} {a a' : ANode} {clean : Bool} (p : PDI c a) (hr : Submit.restart c a a.n.store clean = some a')
    (hb : a.daInc < 2 ^ 64) : a'.daInc = a.daInc ∧ PDI c a' := by
  unfold Submit.restart at hr
  split at hr
  · simp at hr
  · rename_i n ws hst
    obtain ⟨_, _, _, _, _, _, _, _, e7, _⟩ := start_facts hst
    have hm : n.store.getMeta daIncKey = a.n.store.getMeta daIncKey := e7 _ (by decide) (by decide)
    simp only [Option.some.injEq] at hr
    subst hr
    have hval : loadInc c n.store = a.daInc := by
      rcases p.2 with h | ⟨h, h'⟩
      · exact loadInc_some (by rw [hm]; exact h) hb p.1
      · rw [loadInc_none (by rw [hm]; exact h), h']
    refine ⟨hval, ?_, ?_⟩
    · show _ ≤ loadInc c n.store; rw [hval]; exact p.1
    · show n.store.getMeta daIncKey = some (le64 (loadInc c n.store)) ∨
        (n.store.getMeta daIncKey = none ∧ loadInc c n.store = c.initialHeight - 1)
      rw [hval, hm]; exact p.2
end Submit
