import Model.Retrieve
import Proofs.WireTyped

/-!
# Helper lemmas for C09 (6) and C03: what `classify` / `classifyData` / `p2pAdmit` accept, exactly
-/

deriving instance DecidableEq for Retrieve.BlobClass

namespace Retrieve
open Wire Chain

/-! ## the two validation predicates, spelled out -/

/-- `SignedHeader.ValidateBasic` (after /repo e753a34): proposer address and signature present, the signer claims
the proposer address, carries a key, **its address is the address of that key**, and the signature verifies
under that key -/
theorem validateBasicWire_iff (o : Oracle) (sh : SignedHeader) :
    validateBasicWire o sh = true ↔
      sh.header.proposerAddress ≠ [] ∧ sh.signature ≠ [] ∧ sh.header.proposerAddress = sh.signer.address ∧
      sh.signer.pubKey ≠ [] ∧ sh.signer.address = keyAddrOf o sh.signer.pubKey ∧ o.hdrSigOk = true := by
  simp [validateBasicWire, and_assoc]

/-- `isValidSignedData` (after /repo e753a34) -/
theorem validSignedData_iff (o : Oracle) (p : Bytes) (sd : SignedData) :
    validSignedData o p sd = true ↔
      sd.signer.address = p ∧ sd.signer.pubKey ≠ [] ∧ sd.signer.address = keyAddrOf o sd.signer.pubKey ∧
      o.dataSigOk = true := by
  simp [validSignedData, and_assoc]

/-! ## the address of the carried key -/

theorem ed25519Raw_length {pk R : Bytes} (h : ed25519Raw pk = some R) : R.length = 32 := by
  unfold ed25519Raw at h
  split at h
  · simp at h
  · split at h
    · split at h
      · rename_i hc
        have : _ = R := Option.some.inj h
        rw [← this]; exact hc.2
      · simp at h
    · simp at h

theorem keyAddrOf_ed25519 (o : Oracle) {pk R : Bytes} (h : ed25519Raw pk = some R) :
    keyAddrOf o pk = sha256 R := by
  simp [keyAddrOf, h]

theorem keyAddrOf_other (o : Oracle) {pk : Bytes} (h : ed25519Raw pk = none) : keyAddrOf o pk = o.keyAddr := by
  simp [keyAddrOf, h]

/-- what libp2p's own `MarshalPublicKey` writes for an Ed25519 key is read back as that key -/
theorem ed25519Raw_canonical (R : Bytes) (h : R.length = 32) : ed25519Raw ([8, 1, 18, 32] ++ R) = some R := by
  have e : ([8, 1, 18, 32] ++ R : Bytes) = encFields [(1, .varint 1), (2, .len R)] := by
    simp [encFields, encField, encVarint, encVarintF, h]
  have hw : ∀ f ∈ [((1 : Nat), WVal.varint 1), (2, WVal.len R)], WF f := by
    intro f hf
    simp only [List.mem_cons, List.not_mem_nil, or_false] at hf
    rcases hf with hf | hf <;> subst hf <;> simp [WF, WVal.WF, maxFieldNum, h]
  unfold ed25519Raw
  rw [e, decFields_encFields _ hw]
  have h1 : ([((1 : Nat), WVal.varint 1), (2, WVal.len R)].filterMap (pickVarint 1)) = [1] := by
    simp [List.filterMap_cons, pickVarint]
  have h2 : ([((1 : Nat), WVal.varint 1), (2, WVal.len R)].filterMap (pickLen 2)) = [R] := by
    simp [List.filterMap_cons, pickLen]
  simp only [h1, h2, List.getLast?_singleton]
  simp [h]

/-! ## signed data -/

theorem classifyData_cases (o : Oracle) (p bs : Bytes) :
    classifyData o p bs = .ignored ∨ ∃ sd, classifyData o p bs = .dataAccepted sd := by
  unfold classifyData
  split
  · left; rfl
  · split
    · left; rfl
    · split
      · left; rfl
      · split
        · right; exact ⟨_, rfl⟩
        · left; rfl

/-- exactly when signed data is accepted -/
theorem classifyData_accepted_iff (o : Oracle) (p bs : Bytes) (sd : SignedData) :
    classifyData o p bs = .dataAccepted sd ↔
      SignedData.decode (fun _ => o.keyOk) bs = some sd ∧ sd.data.txs ≠ [] ∧
      sd.data.metadata.isSome = true ∧ validSignedData o p sd = true := by
  unfold classifyData
  constructor
  · intro h
    split at h
    · simp at h
    · rename_i x hx
      split at h
      · simp at h
      · rename_i hne
        split at h
        · simp at h
        · rename_i hm
          split at h
          · rename_i hv
            have : x = sd := by simpa using h
            subst this
            refine ⟨hx, ?_, ?_, hv⟩
            · intro he; simp [he] at hne
            · cases hmm : x.data.metadata <;> simp_all
          · simp at h
  · rintro ⟨hd, ht, hm, hv⟩
    rw [hd]
    simp only
    have h1 : sd.data.txs.isEmpty = false := by
      cases htx : sd.data.txs with
      | nil => exact absurd htx ht
      | cons a l => rfl
    have h2 : sd.data.metadata.isNone = false := by
      cases hmm : sd.data.metadata <;> simp_all
    simp [h1, h2, hv]

theorem classifyData_not_hdrAccepted (o : Oracle) (p bs : Bytes) (sh : SignedHeader) :
    classifyData o p bs ≠ .hdrAccepted sh := by
  rcases classifyData_cases o p bs with h | ⟨sd, h⟩ <;> rw [h] <;> simp

/-! ## headers -/

/-- `headerStage` is `SignedHeader.decode` with the two failure stages kept apart -/
theorem headerStage_ok_iff (o : Oracle) (bs : Bytes) (sh : SignedHeader) :
    headerStage o bs = .ok sh ↔ SignedHeader.decode (fun _ => o.keyOk) bs = some sh := by
  unfold headerStage SignedHeader.decode
  cases decFields bs with
  | none => simp
  | some fs =>
    simp only
    cases getMsg 1 Header.decode fs with
    | none => simp
    | some hd =>
      cases getMsg 3 Signer.decodeRaw fs with
      | none => cases hd <;> simp
      | some sg =>
        cases hd with
        | none => simp
        | some h =>
          simp only
          split <;> simp

theorem headerStage_nil (o : Oracle) : ∀ sh, headerStage o [] ≠ .ok sh := by
  intro sh h
  rw [headerStage_ok_iff] at h
  simp [SignedHeader.decode, decFields, decFieldsAux, getMsg, getRep] at h

/-- exactly when a header is accepted from the DA layer -/
theorem classify_hdrAccepted_iff (o : Oracle) (p bs : Bytes) (sh : SignedHeader) :
    classify o p bs = .hdrAccepted sh ↔
      headerStage o bs = .ok sh ∧ validateBasicWire o sh = true ∧ sh.header.proposerAddress = p := by
  constructor
  · intro h
    unfold classify at h
    split at h
    · simp at h
    · split at h
      · exact absurd h (classifyData_not_hdrAccepted _ _ _ _)
      · simp at h
      · rename_i x hst
        split at h
        · exact absurd h (classifyData_not_hdrAccepted _ _ _ _)
        · rename_i hvb
          split at h
          · simp at h
          · rename_i hp
            have hx : x = sh := by simpa using h
            subst hx
            exact ⟨hst, by simpa using hvb, by simpa using hp⟩
  · rintro ⟨hs, hv, hp⟩
    unfold classify
    have hne : bs.isEmpty = false := by
      cases bs with
      | nil => exact absurd hs (headerStage_nil o sh)
      | cons a l => rfl
    simp [hne, hs, hv, hp]

/-- exactly when signed data is accepted from the DA layer: the blob is not (also) a valid header, and the
data test accepts -/
theorem classify_dataAccepted_iff (o : Oracle) (p bs : Bytes) (sd : SignedData) :
    classify o p bs = .dataAccepted sd ↔
      bs ≠ [] ∧ (∀ sh, headerStage o bs = .ok sh → validateBasicWire o sh = false) ∧
      headerStage o bs ≠ .fromProtoErr ∧ classifyData o p bs = .dataAccepted sd := by
  unfold classify
  constructor
  · intro h
    split at h
    · simp at h
    · rename_i hne
      have hne' : bs ≠ [] := by intro he; simp [he] at hne
      split at h
      · rename_i hst
        exact ⟨hne', by intro sh hs; rw [hst] at hs; simp at hs, by rw [hst]; simp, h⟩
      · simp at h
      · rename_i x hst
        split at h
        · rename_i hvb
          refine ⟨hne', ?_, by rw [hst]; simp, h⟩
          intro sh hs
          rw [hst] at hs
          have : x = sh := by simpa using hs
          subst this; simpa using hvb
        · split at h <;> simp at h
  · rintro ⟨hne, hnv, hnf, hd⟩
    have : bs.isEmpty = false := by cases bs <;> simp_all
    simp only [this, Bool.false_eq_true, ↓reduceIte]
    split
    · exact hd
    · rename_i hst; exact absurd hst hnf
    · rename_i x hst
      simp [hnv x hst, hd]

/-- a blob that decodes as signed data with transactions never stops at the `FromProto` error of the header
attempt (which would consume it) -/
theorem headerStage_not_fromProtoErr_of_data (o : Oracle) (bs : Bytes) (sd : SignedData)
    (hd : SignedData.decode (fun _ => o.keyOk) bs = some sd) (ht : sd.data.txs ≠ []) :
    headerStage o bs ≠ .fromProtoErr := by
  unfold SignedData.decode at hd
  unfold headerStage
  cases hf : decFields bs with
  | none => simp
  | some fs =>
    rw [hf] at hd
    simp only at hd ⊢
    cases hg3 : getMsg 3 Signer.decodeRaw fs with
    | none => cases getMsg 1 Header.decode fs <;> simp
    | some sg =>
      rw [hg3] at hd
      cases hg1 : getMsg 1 Header.decode fs with
      | none => simp
      | some hdr =>
        cases hdr with
        | none =>
          -- no field 1 at all: the data part is the zero value, which has no transactions
          exfalso
          have hocc : (getRep 1 fs).isEmpty = true := by
            cases hoc : (getRep 1 fs).isEmpty with
            | true => rfl
            | false =>
              unfold getMsg at hg1
              simp only [hoc, Bool.false_eq_true, ↓reduceIte] at hg1
              split at hg1
              · cases hx : Header.decode (getRep 1 fs).flatten <;> simp [hx] at hg1
              · simp at hg1
          have hgd : getMsg 1 Data.decode fs = some none := by
            unfold getMsg; simp [hocc]
          rw [hgd] at hd
          simp only at hd
          split at hd
          · simp at hd
          · have : sd.data = {} := by
              have := congrArg (fun x => x.map (·.data)) hd
              simpa using this.symm
            rw [this] at ht; exact ht rfl
        | some h =>
          simp only
          split
          · rename_i hk
            exfalso
            cases hgd : getMsg 1 Data.decode fs with
            | none => rw [hgd] at hd; simp at hd
            | some d =>
              rw [hgd] at hd
              simp only at hd
              rw [if_pos hk] at hd
              simp at hd
          · simp

/-! ## what the encoders produce -/

theorem headerStage_encode (o : Oracle) (sh : SignedHeader) (hw : sh.WF) (hk : sh.signer.pubKey ≠ [])
    (hok : o.keyOk = true) : headerStage o sh.encode = .ok sh := by
  rw [headerStage_ok_iff, SignedHeader.decode_encode _ hw (fun _ => hok)]
  simp [SignedHeader.canon', Signer.canon, hk]

/-- **every well-formed signed header that passes the basic validation and names the proposer is accepted**, in
particular one carrying any key whatsoever -/
theorem classify_encode_header (o : Oracle) (p : Bytes) (sh : SignedHeader) (hw : sh.WF)
    (hok : o.keyOk = true) (hv : validateBasicWire o sh = true) (hp : sh.header.proposerAddress = p) :
    classify o p sh.encode = .hdrAccepted sh := by
  rw [classify_hdrAccepted_iff]
  exact ⟨headerStage_encode o sh hw ((validateBasicWire_iff o sh).1 hv).2.2.2.1 hok, hv, hp⟩

theorem classifyData_encode (o : Oracle) (p : Bytes) (sd : SignedData) (hw : sd.WF)
    (hok : o.keyOk = true) (ht : sd.data.txs ≠ []) (hm : sd.data.metadata.isSome = true)
    (hv : validSignedData o p sd = true) :
    classifyData o p sd.encode = .dataAccepted sd := by
  rw [classifyData_accepted_iff]
  have hk : sd.signer.pubKey ≠ [] := ((validSignedData_iff o p sd).1 hv).2.1
  refine ⟨?_, ht, hm, hv⟩
  rw [SignedData.decode_encode _ hw (fun _ => hok)]
  simp [SignedData.canon', Signer.canon, hk]

/-- a signed-data blob produced by the encoder is never mistaken for a valid header: read as a header it has no
proposer address -/
theorem Header.decode_dataEncode_proposer {d : Data} (hw : d.WF) {h : Header}
    (hd : Header.decode d.encode = some h) : h.proposerAddress = [] := by
  unfold Header.decode Data.encode at hd
  rw [decFields_encFields _ (Data.fields_wf hw)] at hd
  simp only at hd
  split at hd
  · split at hd
    · have := congrArg (fun x => x.map (·.proposerAddress)) hd
      simp only [Option.map_some, Option.some.injEq] at this
      rw [← this]
      obtain ⟨md, txs⟩ := d
      unfold Data.fields
      cases md <;> sel_simp <;> simp
    · simp at hd
  · simp at hd

theorem headerStage_encode_data (o : Oracle) (sd : SignedData) (hw : sd.WF) (sh : SignedHeader)
    (hs : headerStage o sd.encode = .ok sh) : validateBasicWire o sh = false := by
  rw [headerStage_ok_iff] at hs
  unfold SignedHeader.decode SignedData.encode at hs
  rw [decFields_encFields _ (SignedData.fields_wf hw)] at hs
  have hsg := Signer.decodeRaw_encode hw.2.2.2.1
  unfold getMsg SignedData.fields at hs
  simp only [getLen, getRep, List.filterMap_append, fm_pickLen_optB, fm_pickLen_single,
    Nat.reduceEqDiff, ↓reduceIte, List.append_nil, List.nil_append, getD_optB] at hs
  simp only [List.isEmpty_cons, Bool.false_eq_true, ↓reduceIte, List.all_cons, List.all_nil, Bool.and_true,
    List.flatten_cons, List.flatten_nil, List.append_nil, hsg, Option.isSome_some, Option.map_some] at hs
  cases hh : Header.decode sd.data.encode with
  | none => simp [hh] at hs
  | some h =>
    have hp := Header.decode_dataEncode_proposer hw.1 hh
    simp only [hh, Option.isSome_some, ↓reduceIte, Option.map_some, Option.getD_some] at hs
    split at hs
    · simp at hs
    · have : sh.header = h := by
        have := congrArg (fun x => x.map (·.header)) hs
        simpa using this.symm
      simp [validateBasicWire, this, hp]

/-- **every well-formed signed-data blob that passes the data test is accepted** -/
theorem classify_encode_data (o : Oracle) (p : Bytes) (sd : SignedData) (hw : sd.WF)
    (hok : o.keyOk = true) (ht : sd.data.txs ≠ []) (hm : sd.data.metadata.isSome = true)
    (hv : validSignedData o p sd = true) :
    classify o p sd.encode = .dataAccepted sd := by
  have hcd := classifyData_encode o p sd hw hok ht hm hv
  rw [classify_dataAccepted_iff]
  refine ⟨?_, headerStage_encode_data o sd hw, ?_, hcd⟩
  · intro he
    have := encFields_length_ge sd.fields
    unfold SignedData.encode at he
    rw [he] at this
    simp [SignedData.fields] at this
  · exact headerStage_not_fromProtoErr_of_data o _ sd ((classifyData_accepted_iff _ _ _ _).1 hcd).1 ht

/-! ## the oracle answers as functions of what they are applied to -/

/-- the third-party crypto as functions of what they are applied to -/
structure Crypto where
  /-- libp2p's `UnmarshalPublicKey` accepts these key bytes -/
  keyOk : Bytes → Bool
  /-- `PubKey.Verify(payload, signature)` under the key parsed from the first argument -/
  verify : Bytes → Bytes → Bytes → Bool
  /-- `types.KeyAddress` of the key parsed from these bytes -/
  keyAddr : Bytes → Bytes

/-- the key bytes a blob carries when read as `pb.SignedHeader` / `pb.SignedData` (field 3 = signer) -/
def carriedKey (bs : Bytes) : Bytes :=
  match decFields bs with
  | some fs => match getMsg 3 Signer.decodeRaw fs with
    | some sg => (sg.getD {}).pubKey
    | none => []
  | none => []

/-- the per-blob oracle answers as the harness computes them (`Oracles()` in harness/streams/retr): the blob is
decoded with the repository's decoder; the header signature is verified over `Header.MarshalBinary()` of the
DECODED header (the default signature payload), the data signature over `Data.MarshalBinary()` -/
def Crypto.oracleFor (c : Crypto) (bs : Bytes) : Oracle :=
  { keyOk := c.keyOk (carriedKey bs)
    hdrSigOk := match SignedHeader.decode (fun _ => true) bs with
      | some sh => c.verify sh.signer.pubKey sh.header.encode sh.signature
      | none => false
    dataSigOk := match SignedData.decode (fun _ => true) bs with
      | some sd => c.verify sd.signer.pubKey sd.data.encode sd.signature
      | none => false
    keyAddr := c.keyAddr (carriedKey bs) }

theorem SignedHeader.decode_true_of_decode (k : Bytes → Bool) (bs : Bytes) (sh : SignedHeader)
    (h : SignedHeader.decode k bs = some sh) : SignedHeader.decode (fun _ => true) bs = some sh := by
  unfold SignedHeader.decode at h ⊢
  cases hf : decFields bs with
  | none => rw [hf] at h; simp at h
  | some fs =>
    rw [hf] at h
    simp only at h ⊢
    split at h
    · split at h
      · simp at h
      · simp [h]
    · simp at h

theorem SignedData.decode_true_of_decode (k : Bytes → Bool) (bs : Bytes) (sd : SignedData)
    (h : SignedData.decode k bs = some sd) : SignedData.decode (fun _ => true) bs = some sd := by
  unfold SignedData.decode at h ⊢
  cases hf : decFields bs with
  | none => rw [hf] at h; simp at h
  | some fs =>
    rw [hf] at h
    simp only at h ⊢
    split at h
    · split at h
      · simp at h
      · simp [h]
    · simp at h

end Retrieve
