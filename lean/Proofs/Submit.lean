import Model.Submit
import Proofs.ChainLemmas

/-! One attempt of the retry loop `Submit.submitLoop` as a function (`step`), the unfolding lemma, a generic
induction principle for loop invariants, and the frame facts (what a submission never touches).
Used by `Spec/C06`, `Spec/C07`, `Spec/C08`. -/
namespace Submit
open Wire Chain Producer

/-! ### vocabulary -/

/-- the watermark of one kind -/
def wm (isData : Bool) (a : ANode) : Nat := if isData then a.n.dataWm else a.n.hdrWm
/-- the DA-inclusion marks of one kind -/
def marks (isData : Bool) (a : ANode) : List (Bytes × Nat) := if isData then a.dMarks else a.hMarks
def wmKey (isData : Bool) : String := if isData then dataWmKey else hdrWmKey

def addMarks (m : List (Bytes × Nat)) (sub : List Item) (d : Nat) : List (Bytes × Nat) :=
  sub.foldl (fun m it => (it.key, d) :: m) m

def cnt (rem : List Item) : Option Nat → Nat
  | none => rem.length
  | some k => min k rem.length

/-- what the DA double stores for an accepted chunk -/
def blobsOf (d : Nat) (isData : Bool) (sub : List Item) : List (Nat × Bool × Nat) :=
  (sub.map fun it => (d, isData, it.height)).reverse

def bytesOf (d : Nat) (isData : Bool) (sub : List Item) : List (Nat × Bool × Nat × Bytes) :=
  (sub.map fun it => (d, isData, it.height, it.blob)).reverse

def lastH (sub : List Item) : Nat := (sub.getLast?.map (·.height)).getD 0

/-- the DA double stores a chunk (also when the acknowledgement is lost) -/
def daStore (a : ANode) (isData : Bool) (sub : List Item) : ANode :=
  { a with daH := a.daH + 1, daBlobs := blobsOf a.daH isData sub ++ a.daBlobs,
           daBytes := bytesOf a.daH isData sub ++ a.daBytes }

def withMarks (a : ANode) (isData : Bool) (sub : List Item) : ANode :=
  if isData then { a with dMarks := addMarks a.dMarks sub a.daH }
  else { a with hMarks := addMarks a.hMarks sub a.daH }

/-- an accepted, acknowledged chunk: marks, watermark, DA double -/
def okStep (isData : Bool) (a : ANode) (sub : List Item) : ANode × List SW :=
  let r := raiseWm (withMarks a isData sub) isData (lastH sub)
  ({ r.1 with daH := a.daH + 1, daBlobs := blobsOf a.daH isData sub ++ r.1.daBlobs,
              daBytes := bytesOf a.daH isData sub ++ r.1.daBytes }, r.2)

/-- one attempt: new node, new remainder, durable writes, the call record -/
def step (isData : Bool) (a : ANode) (rem : List Item) (ans : DAAns) : ANode × List Item × List SW × SubmitCall :=
  let hs := rem.map (·.height)
  match ans with
  | .ok k =>
    if cnt rem k = 0 then (a, rem, [], ⟨isData, hs, ans, a.daH, 0⟩)
    else ((okStep isData a (rem.take (cnt rem k))).1, rem.drop (cnt rem k), (okStep isData a (rem.take (cnt rem k))).2,
          ⟨isData, hs, ans, a.daH, cnt rem k⟩)
  | .lost k =>
    (if cnt rem k = 0 then a else daStore a isData (rem.take (cnt rem k)), rem, [], ⟨isData, hs, ans, a.daH, cnt rem k⟩)
  | _ => (a, rem, [], ⟨isData, hs, ans, a.daH, 0⟩)

theorem submitLoop_zero (isData : Bool) (a : ANode) (rem : List Item) (script : List DAAns) (ws : List SW)
    (calls : List SubmitCall) : submitLoop isData 0 a rem script ws calls = (a, ws, calls, rem.isEmpty) := rfl

/-- the loop is: stop when nothing remains or on cancellation, otherwise one `step` and go on -/
theorem submitLoop_succ (isData : Bool) (fuel : Nat) (a : ANode) (rem : List Item) (script : List DAAns) (ws : List SW)
    (calls : List SubmitCall) :
    submitLoop isData (fuel+1) a rem script ws calls =
      if rem.isEmpty then (a, ws, calls, true)
      else if script.headD (.ok none) = .canceled then
        (a, ws, calls ++ [(step isData a rem .canceled).2.2.2], false)
      else submitLoop isData fuel (step isData a rem (script.headD (.ok none))).1
             (step isData a rem (script.headD (.ok none))).2.1 script.tail
             (ws ++ (step isData a rem (script.headD (.ok none))).2.2.1)
             (calls ++ [(step isData a rem (script.headD (.ok none))).2.2.2]) := by
  rw [submitLoop]
  split
  · rfl
  · generalize script.headD (.ok none) = ans
    cases ans with
    | ok k =>
      cases k with
      | none =>
        simp only [step, okStep, withMarks, addMarks, blobsOf, bytesOf, lastH, cnt, reduceCtorEq, ↓reduceIte]
        by_cases hc : rem.length = 0
        · simp only [hc, ↓reduceIte, List.append_nil]
        · simp only [hc, ↓reduceIte]
      | some k =>
        simp only [step, okStep, withMarks, addMarks, blobsOf, bytesOf, lastH, cnt, reduceCtorEq, ↓reduceIte]
        by_cases hc : min k rem.length = 0
        · simp only [hc, ↓reduceIte, List.append_nil]
        · simp only [hc, ↓reduceIte]
    | lost k =>
      cases k <;> simp [step, daStore, blobsOf, bytesOf, cnt]
    | canceled => simp [step]
    | notIncluded => simp [step]
    | inMempool => simp [step]
    | tooBig => simp [step]
    | error => simp [step]

/-- **induction principle for invariants of the retry loop** (state, remainder, writes, call log) -/
theorem submitLoop_inv (isData : Bool) (R : ANode → List Item → List SW → List SubmitCall → Prop)
    (hstep : ∀ a rem ws calls ans, R a rem ws calls → rem ≠ [] →
      R (step isData a rem ans).1 (step isData a rem ans).2.1 (ws ++ (step isData a rem ans).2.2.1)
        (calls ++ [(step isData a rem ans).2.2.2]))
    (fuel : Nat) (a : ANode) (rem : List Item) (script : List DAAns) (ws : List SW) (calls : List SubmitCall)
    (h : R a rem ws calls) :
    ∃ rem', R (submitLoop isData fuel a rem script ws calls).1 rem' (submitLoop isData fuel a rem script ws calls).2.1
        (submitLoop isData fuel a rem script ws calls).2.2.1 ∧
      (submitLoop isData fuel a rem script ws calls).2.2.2 = rem'.isEmpty := by
  induction fuel generalizing a rem script ws calls with
  | zero => exact ⟨rem, h, rfl⟩
  | succ n ih =>
    rw [submitLoop_succ]
    by_cases he : rem.isEmpty
    · rw [if_pos he]; exact ⟨rem, h, he.symm⟩
    · rw [if_neg he]
      have hne : rem ≠ [] := by simpa using he
      by_cases hc : script.headD (.ok none) = .canceled
      · rw [if_pos hc]
        have := hstep a rem ws calls .canceled h hne
        refine ⟨rem, ?_, by simpa using he⟩
        simpa [step] using this
      · rw [if_neg hc]
        exact ih _ _ _ _ _ (hstep a rem ws calls _ h hne)

/-! ### what one attempt does -/

theorem step_call (isData : Bool) (a : ANode) (rem : List Item) (ans : DAAns) :
    (step isData a rem ans).2.2.2.isData = isData ∧ (step isData a rem ans).2.2.2.heights = rem.map (·.height) ∧
    (step isData a rem ans).2.2.2.ans = ans ∧ (step isData a rem ans).2.2.2.daHeight = a.daH ∧
    (step isData a rem ans).2.2.2.accepted ≤ rem.length := by
  have hc : ∀ k, cnt rem k ≤ rem.length := by
    intro k; cases k <;> simp [cnt]; omega
  cases ans with
  | ok k =>
    simp only [step]
    split <;> simp [hc]
  | lost k => simp [step, hc]
  | _ => simp [step]

/-- the three kinds of attempt: nothing happens; the DA layer stores a chunk but the node does not learn it; the DA
layer stores a chunk and the node does its bookkeeping -/
theorem step_cases (isData : Bool) (a : ANode) (rem : List Item) (ans : DAAns) :
    ((step isData a rem ans).1 = a ∧ (step isData a rem ans).2.1 = rem ∧ (step isData a rem ans).2.2.1 = []) ∨
    (∃ c, 0 < c ∧ c ≤ rem.length ∧ (step isData a rem ans).1 = daStore a isData (rem.take c) ∧
        (step isData a rem ans).2.1 = rem ∧ (step isData a rem ans).2.2.1 = []) ∨
    (∃ c, 0 < c ∧ c ≤ rem.length ∧
        (step isData a rem ans).1 = (okStep isData a (rem.take c)).1 ∧
        (step isData a rem ans).2.1 = rem.drop c ∧ (step isData a rem ans).2.2.1 = (okStep isData a (rem.take c)).2) := by
  have hc : ∀ k, cnt rem k ≤ rem.length := by
    intro k; cases k <;> simp [cnt]; omega
  cases ans with
  | ok k =>
    by_cases h0 : cnt rem k = 0
    · left; simp [step, h0]
    · right; right
      exact ⟨cnt rem k, by omega, hc k, by simp [step, h0]⟩
  | lost k =>
    by_cases h0 : cnt rem k = 0
    · left; simp [step, h0]
    · right; left
      exact ⟨cnt rem k, by omega, hc k, by simp [step, h0]⟩
  | _ => exact Or.inl ⟨rfl, rfl, rfl⟩

/-- induction principle for invariants that do not mention the call log: it suffices to consider a chunk stored
without acknowledgement and a chunk stored and acknowledged -/
theorem submitLoop_inv3 (isData : Bool) (R : ANode → List Item → List SW → Prop)
    (hlost : ∀ a rem ws c, R a rem ws → 0 < c → c ≤ rem.length → R (daStore a isData (rem.take c)) rem ws)
    (hok : ∀ a rem ws c, R a rem ws → 0 < c → c ≤ rem.length →
      R (okStep isData a (rem.take c)).1 (rem.drop c) (ws ++ (okStep isData a (rem.take c)).2))
    (fuel : Nat) (a : ANode) (rem : List Item) (script : List DAAns) (ws : List SW) (calls : List SubmitCall)
    (h : R a rem ws) :
    ∃ rem', R (submitLoop isData fuel a rem script ws calls).1 rem' (submitLoop isData fuel a rem script ws calls).2.1 ∧
      (submitLoop isData fuel a rem script ws calls).2.2.2 = rem'.isEmpty := by
  refine submitLoop_inv isData (fun a rem ws _ => R a rem ws) ?_ fuel a rem script ws calls h
  intro a rem ws calls ans hr _
  rcases step_cases isData a rem ans with ⟨h1, h2, h3⟩ | ⟨c, c0, c1, h1, h2, h3⟩ | ⟨c, c0, c1, h1, h2, h3⟩
  · rw [h1, h2, h3, List.append_nil]; exact hr
  · rw [h1, h2, h3, List.append_nil]; exact hlost a rem ws c hr c0 c1
  · rw [h1, h2, h3]; exact hok a rem ws c hr c0 c1

/-! ### frame facts -/

theorem raiseWm_spec (a : ANode) (d : Bool) (h : Nat) :
    (raiseWm a d h).1.hMarks = a.hMarks ∧ (raiseWm a d h).1.dMarks = a.dMarks ∧
    (raiseWm a d h).1.daInc = a.daInc ∧ (raiseWm a d h).1.finals = a.finals ∧
    (raiseWm a d h).1.daH = a.daH ∧ (raiseWm a d h).1.daBlobs = a.daBlobs ∧
    wm d (raiseWm a d h).1 = max (wm d a) h ∧ wm (!d) (raiseWm a d h).1 = wm (!d) a ∧
    (raiseWm a d h).1.n.store = a.n.store.applyAll (raiseWm a d h).2 ∧
    (raiseWm a d h).2 = (if h > wm d a then [SW.setMeta (wmKey d) (le64 h)] else []) ∧
    (raiseWm a d h).1.n.lastState = a.n.lastState ∧ (raiseWm a d h).1.n.lastBatchData = a.n.lastBatchData ∧
    (raiseWm a d h).1.n.daHeight = a.n.daHeight := by
  unfold raiseWm
  cases d <;> simp only [wm, wmKey, Bool.false_eq_true, ↓reduceIte, Bool.not_false, Bool.not_true] <;> split <;>
    simp [Store.applyAll] <;> omega

/-- everything a submission iteration of kind `d` leaves alone -/
structure Frame (d : Bool) (a a' : ANode) : Prop where
  daInc : a'.daInc = a.daInc
  finals : a'.finals = a.finals
  otherMarks : marks (!d) a' = marks (!d) a
  otherWm : wm (!d) a' = wm (!d) a
  lastState : a'.n.lastState = a.n.lastState
  lastBatchData : a'.n.lastBatchData = a.n.lastBatchData
  daHeight : a'.n.daHeight = a.n.daHeight
  blocks : a'.n.store.blocks = a.n.store.blocks
  height : a'.n.store.height = a.n.store.height
  state : a'.n.store.state = a.n.store.state

theorem Frame.refl (d : Bool) (a : ANode) : Frame d a a := ⟨rfl, rfl, rfl, rfl, rfl, rfl, rfl, rfl, rfl, rfl⟩

theorem Frame.trans {d : Bool} {a b c : ANode} (h1 : Frame d a b) (h2 : Frame d b c) : Frame d a c :=
  ⟨h2.daInc.trans h1.daInc, h2.finals.trans h1.finals, h2.otherMarks.trans h1.otherMarks, h2.otherWm.trans h1.otherWm,
   h2.lastState.trans h1.lastState, h2.lastBatchData.trans h1.lastBatchData, h2.daHeight.trans h1.daHeight,
   h2.blocks.trans h1.blocks, h2.height.trans h1.height, h2.state.trans h1.state⟩

theorem Frame.getBlock {d : Bool} {a a' : ANode} (h : Frame d a a') (k : Nat) :
    a'.n.store.getBlock k = a.n.store.getBlock k := by
  simp [Store.getBlock, h.blocks]

theorem daStore_frame (d : Bool) (a : ANode) (sub : List Item) : Frame d a (daStore a d sub) :=
  ⟨rfl, rfl, by cases d <;> rfl, by cases d <;> rfl, rfl, rfl, rfl, rfl, rfl, rfl⟩

theorem addMarks_eq (m : List (Bytes × Nat)) (sub : List Item) (dh : Nat) :
    addMarks m sub dh = (sub.map fun it => (it.key, dh)).reverse ++ m := by
  unfold addMarks
  induction sub generalizing m with
  | nil => rfl
  | cons x xs ih => simp [ih]

theorem okStep_spec (d : Bool) (a : ANode) (sub : List Item) :
    (okStep d a sub).1.daH = a.daH + 1 ∧ (okStep d a sub).1.daBlobs = blobsOf a.daH d sub ++ a.daBlobs ∧
    marks d (okStep d a sub).1 = (sub.map fun it => (it.key, a.daH)).reverse ++ marks d a ∧
    wm d (okStep d a sub).1 = max (wm d a) (lastH sub) ∧
    (okStep d a sub).1.n.store = a.n.store.applyAll (okStep d a sub).2 ∧
    (okStep d a sub).2 = (if lastH sub > wm d a then [SW.setMeta (wmKey d) (le64 (lastH sub))] else []) ∧
    Frame d a (okStep d a sub).1 := by
  obtain ⟨r1, r2, r3, r4, r5, r6, r7, r8, r9, r10, r11, r12, r13⟩ := raiseWm_spec (withMarks a d sub) d (lastH sub)
  have hn : (withMarks a d sub).n = a.n := by cases d <;> rfl
  have hwm : ∀ e, wm e (withMarks a d sub) = wm e a := by intro e; simp [wm, hn]
  have hmk : marks d (withMarks a d sub) = (sub.map fun it => (it.key, a.daH)).reverse ++ marks d a := by
    cases d <;> simp [marks, withMarks, addMarks_eq]
  have hmo : marks (!d) (withMarks a d sub) = marks (!d) a := by cases d <;> rfl
  have hblob : (withMarks a d sub).daBlobs = a.daBlobs := by cases d <;> rfl
  have hinc : (withMarks a d sub).daInc = a.daInc := by cases d <;> rfl
  have hfin : (withMarks a d sub).finals = a.finals := by cases d <;> rfl
  refine ⟨rfl, ?_, ?_, ?_, ?_, ?_, ?_⟩
  · show blobsOf a.daH d sub ++ (raiseWm _ d _).1.daBlobs = _
    rw [r6, hblob]
  · have : marks d (okStep d a sub).1 = marks d (raiseWm (withMarks a d sub) d (lastH sub)).1 := by cases d <;> rfl
    rw [this]
    have : marks d (raiseWm (withMarks a d sub) d (lastH sub)).1 = marks d (withMarks a d sub) := by
      cases d <;> simp [marks, r1, r2]
    rw [this, hmk]
  · show wm d (raiseWm _ d _).1 = _
    rw [r7, hwm]
  · show (raiseWm _ d _).1.n.store = _
    rw [r9, hn]; rfl
  · show (raiseWm _ d _).2 = _
    rw [r10, hwm]
  · refine ⟨?_, ?_, ?_, ?_, ?_, ?_, ?_, ?_, ?_, ?_⟩
    · show (raiseWm _ d _).1.daInc = _; rw [r3, hinc]
    · show (raiseWm _ d _).1.finals = _; rw [r4, hfin]
    · have : marks (!d) (okStep d a sub).1 = marks (!d) (raiseWm (withMarks a d sub) d (lastH sub)).1 := by cases d <;> rfl
      rw [this]
      have : marks (!d) (raiseWm (withMarks a d sub) d (lastH sub)).1 = marks (!d) (withMarks a d sub) := by
        cases d <;> simp [marks, r1, r2]
      rw [this, hmo]
    · show wm (!d) (raiseWm _ d _).1 = _; rw [r8, hwm]
    · show (raiseWm _ d _).1.n.lastState = _; rw [r11, hn]
    · show (raiseWm _ d _).1.n.lastBatchData = _; rw [r12, hn]
    · show (raiseWm _ d _).1.n.daHeight = _; rw [r13, hn]
    · show (raiseWm _ d _).1.n.store.blocks = _
      rw [r9, r10, hn]; split <;> rfl
    · show (raiseWm _ d _).1.n.store.height = _
      rw [r9, r10, hn]; split <;> rfl
    · show (raiseWm _ d _).1.n.store.state = _
      rw [r9, r10, hn]; split <;> rfl

end Submit
