import Proofs.C14
import Proofs.C14Clean
import Proofs.ChainLemmas
import Model.Producer
import Model.Submit
import Model.Sync

/-!
# `pkg/store` over the key-value image refines `Chain.Store`, the store of C01–C08

`Chain.Store` (Model/Chain.lean) is the abstract block store the block-manager models program against:
`height`, `blocks` (read with `getBlock`), `state`, `kv` (read with `getMeta`), mutated by the atomic
writes `SW` (`saveBlock`, `setHeight`, `updateState`, `setMeta`).  This file connects it to the model
of the real store (Model/Store.lean: the `DefaultStore` methods over the durable `KV` with the real key
layout):

* `Rep` — how the *symbolic* values of `Chain` (signatures `Sig`, key ids) are written as bytes; the
  rest of the encoding is the wire codec of `Model/Wire.lean` (`SignedHeader.encode`, `Data.encode`) and
  `Store.State.encode`.
* `Sim r kv s` — the simulation relation: the image `kv` holds exactly what `s` holds
  (`Store.abs kv`, the abstraction function of C14, read through `r`).  `sim_functional`: when the
  encoding is injective `kv` determines everything that can be read from `s` — `Sim` is the graph of an
  abstraction function from images to `Chain.Store` up to what `getBlock/getMeta/height/state` observe
  (the two lists inside `Chain.Store` are only ever read through `find?`).
* `impl r kv w` — the write-sets the real method issues for the atomic write `w`; `sim_step`: ONE `SW` ↦ at
  most one write-set (`impl_length`; none exactly when `Chain.setHeightW` issues none: `impl_setHeight_length`)
  and the relation is kept; `sim_applyAll` for write logs; `sim_prefix` for crashes: a prefix of the
  write-sets is the image of a prefix of the `SW` log.
* reads commute: `read_height`, `read_block`, `read_signature`, `read_state`, `read_meta`.

Covered fields of `Chain.Store`: all four (`height`, `blocks`, `state`, `kv`).  Representation gaps,
all explicit in the statements:
* `Chain.Block.savedSig` is a field of the block; the real store keeps it in its own record `/c/<h>`
  written by the same batch (`Sim.blocks` relates the three records `/h/<h>`, `/d/<h>`, `/c/<h>` to one
  `Chain.Block`).
* `SW.saveBlock h b` carries the height separately; `SaveBlockData` takes it from the header: the
  correspondence needs `h = b.sh.hdr.height` (`SWOK`; true of every `saveBlock` the models issue:
  `Model/Producer.lean`, `Model/Sync.lean` write `SW.saveBlock sh.hdr.height …`, the early save and the
  genesis block are created at that height).
* `Chain.Store` has no hash index: `GetBlockByHash`/`GetSignatureByHash` are not part of the interface the
  block manager models use (C14's own theorems cover them).
* `Chain.State` has no `LastResultsHash` (always empty in the node) and counts time in ns
  (`stateOf`); `Chain.Store.kv` takes any key, the real store `path.Clean`s it: the relation speaks about
  the keys `path.Clean` leaves alone (`metaKeyOK`; every key of the models: `model_keys_ok`).
* typed reads decode the stored bytes: that decoding gives the value back is the wire round trip (C12)
  and appears as a hypothesis of `read_block_typed` / `read_state_typed`.
-/

namespace Store.Sim
open Chain (SW)

/-- how the symbolic signatures and key ids of `Chain` are written as bytes (`keyOk`: which key bytes
the libp2p parser accepts, as in `Wire.SignedHeader.decode`) -/
structure Rep where
  sigBytes : Chain.Sig → Bytes
  keyBytes : Chain.KeyId → Bytes
  keyOk : Bytes → Bool

def Rep.signer (r : Rep) (s : Chain.MSigner) : Wire.Signer :=
  { address := s.addr,
    pubKey := match s.key with
      | some k => r.keyBytes k
      | none => [] }

/-- the `types.SignedHeader` handed to `SaveBlockData` -/
def Rep.header (r : Rep) (sh : Chain.SHeader) : Wire.SignedHeader :=
  { header := sh.hdr, signature := r.sigBytes sh.sig, signer := r.signer sh.signer }

/-- the three stored records of a block -/
def Rep.block (r : Rep) (b : Chain.Block) : Store.Block :=
  ⟨(r.header b.sh).encode, b.data.encode, r.sigBytes b.savedSig⟩

/-- `types.State` of a `Chain.State` (time in ns since the epoch; no results hash) -/
def stateOf (st : Chain.State) : Store.State :=
  { version := st.version, chainId := st.chainId, initialHeight := st.initialHeight,
    lastBlockHeight := st.lastHeight, lastBlockTimeSec := st.lastTime / 1000000000,
    lastBlockTimeNanos := st.lastTime % 1000000000, daHeight := st.daHeight,
    lastResultsHash := [], appHash := st.appHash }

def Rep.H (r : Rep) : Bytes → Option Bytes := storedHeaderHash r.keyOk

/-- **the simulation relation** between a key-value image and the abstract store of C01–C08 -/
structure _root_.Store.Sim (r : Rep) (kv : KV) (s : Chain.Store) : Prop where
  inv : Inv r.H kv
  height : (abs kv).height = s.height
  blocks : ∀ h, (abs kv).blocks h = (s.getBlock h).map r.block
  state : (abs kv).state = s.state.map fun st => (stateOf st).encode
  metas : ∀ k, metaKeyOK k = true → (abs kv).metadata k = s.getMeta k

/-- the empty database is the empty store -/
theorem sim_empty (r : Rep) : Sim r KV.empty {} := by
  refine ⟨inv_empty _, ?_, ?_, ?_, ?_⟩ <;> simp [abs_empty, Abs.init, Chain.Store.getBlock, Chain.Store.getMeta]

/-! ## `getMeta` under the atomic writes (the `kv` field of `Chain.Store`) -/

theorem getMeta_setMeta (s : Chain.Store) (k k' : String) (v : Bytes) :
    (s.apply (.setMeta k v)).getMeta k' = if k' = k then some v else s.getMeta k' := by
  by_cases e : k' = k
  · subst e; simp [Chain.Store.apply, Chain.Store.getMeta]
  · have e' : ¬ k = k' := fun c => e c.symm
    simp [Chain.Store.apply, Chain.Store.getMeta, e, e']

theorem getMeta_saveBlock (s : Chain.Store) (h : Nat) (b : Chain.Block) (k : String) :
    (s.apply (.saveBlock h b)).getMeta k = s.getMeta k := rfl
theorem getMeta_updateState (s : Chain.Store) (st : Chain.State) (k : String) :
    (s.apply (.updateState st)).getMeta k = s.getMeta k := rfl
theorem getMeta_setHeight (s : Chain.Store) (h : Nat) (k : String) :
    (s.apply (.setHeight h)).getMeta k = s.getMeta k := by
  simp only [Chain.Store.apply]; split <;> rfl

/-! ## one atomic write `SW` ↦ the write-sets of the real method -/

/-- the real method behind each atomic write of `Chain.Store` -/
def impl (r : Rep) (kv : KV) : SW → List WriteSet
  | .saveBlock _ b => saveBlockData r.keyOk kv (r.header b.sh) b.data (r.sigBytes b.savedSig)
  | .setHeight h => setHeightW kv h
  | .updateState st => updateState (stateOf st)
  | .setMeta k v => setMetadata k v

/-- the same as an operation of C14's refinement theorem -/
def opOf (r : Rep) : SW → Op
  | .saveBlock _ b => .save b.sh.hdr.height b.sh.hdr.hash (r.block b)
  | .setHeight h => .setHeight h
  | .updateState st => .updateState (stateOf st).encode
  | .setMeta k v => .setMetadata k v

theorem impl_eq_writes (r : Rep) (kv : KV) (w : SW) : impl r kv w = writes r.H kv (opOf r w) := by
  cases w <;> rfl

/-- what the correspondence needs of an atomic write: the block is saved at its header's height
(`SaveBlockData` reads the height from the header), heights are `uint64`, the stored header parses back
to a header of the same hash (wire round trip, C12), metadata keys are ones `path.Clean` leaves alone -/
def SWOK (r : Rep) : SW → Prop
  | .saveBlock h b => h = b.sh.hdr.height ∧ h < 2 ^ 64 ∧ r.H (r.header b.sh).encode = some b.sh.hdr.hash
  | .setHeight h => h < 2 ^ 64
  | .updateState _ => True
  | .setMeta k _ => metaKeyOK k = true

theorem opOf_ok {r : Rep} {w : SW} (hw : SWOK r w) : (opOf r w).OK r.H := by
  cases w with
  | saveBlock h b => exact ⟨hw.1 ▸ hw.2.1, hw.2.2⟩
  | setHeight h => exact hw
  | updateState st => trivial
  | setMeta k v => exact hw

/-- ONE `SW` is at most one write-set (one `Put` or one `Batch.Commit`) … -/
theorem impl_length (r : Rep) (kv : KV) (w : SW) : (impl r kv w).length ≤ 1 := by
  rw [impl_eq_writes]; exact writes_length _ kv _

/-- … exactly one, except for a `SetHeight` that does not raise the height … -/
theorem impl_length_one (r : Rep) (kv : KV) (w : SW) (hw : ∀ h, w ≠ .setHeight h) : (impl r kv w).length = 1 := by
  cases w with
  | setHeight h => exact absurd rfl (hw h)
  | _ => rfl

/-- … which writes nothing exactly when the abstract `setHeightW` writes nothing -/
theorem impl_setHeight_length {r : Rep} {kv : KV} {s : Chain.Store} (hs : Sim r kv s) (h : Nat) :
    (impl r kv (.setHeight h)).length = (Chain.setHeightW s h).length := by
  simp only [impl, setHeightW, setHeight, height_of_inv hs.inv, Chain.setHeightW]
  rw [← hs.height, abs_height]
  by_cases hle : h ≤ heightOf kv
  · have : ¬ h > heightOf kv := by omega
    simp [hle, this]
  · have : h > heightOf kv := by omega
    simp [hle, this]

/-- **simulation, writes**: the real method applied to the image = the atomic write applied to the
abstract store -/
theorem sim_step {r : Rep} {kv : KV} {s : Chain.Store} (hs : Sim r kv s) {w : SW} (hw : SWOK r w) :
    Sim r (applyAll kv (impl r kv w)) (s.apply w) := by
  have hop := opOf_ok hw
  have e : applyAll kv (impl r kv w) = step r.H kv (opOf r w) := by rw [impl_eq_writes]; rfl
  rw [e]
  have ha := abs_step hs.inv hop
  refine ⟨inv_step hs.inv hop, ?_, ?_, ?_, ?_⟩
  · rw [ha]
    cases w with
    | setHeight h =>
      simp only [opOf, Abs.step, Chain.height_setHeight, hs.height]
      by_cases hle : h ≤ s.height
      · have : ¬ h > s.height := by omega
        simp [hle, this]
      · have : h > s.height := by omega
        simp [hle, this]
    | saveBlock h b => exact hs.height
    | updateState st => exact hs.height
    | setMeta k v => exact hs.height
  · intro h'
    rw [ha]
    cases w with
    | saveBlock h b =>
      have hh : h = b.sh.hdr.height := hw.1
      simp only [opOf, Abs.step, Chain.getBlock_saveBlock, ← hh]
      by_cases e : h' = h
      · subst e; simp
      · have e' : ¬ h = h' := fun c => e c.symm
        simp [e, e', hs.blocks h']
    | setHeight h => simpa [opOf, Abs.step] using hs.blocks h'
    | updateState st => simpa [opOf, Abs.step] using hs.blocks h'
    | setMeta k v => simpa [opOf, Abs.step] using hs.blocks h'
  · rw [ha]
    cases w with
    | updateState st => simp [opOf, Abs.step]
    | saveBlock h b => simpa [opOf, Abs.step] using hs.state
    | setHeight h => simpa [opOf, Abs.step] using hs.state
    | setMeta k v => simpa [opOf, Abs.step] using hs.state
  · intro k hk
    rw [ha]
    cases w with
    | setMeta k0 v =>
      simp only [opOf, Abs.step, getMeta_setMeta]
      by_cases e : k = k0
      · simp [e]
      · simp [e, hs.metas k hk]
    | saveBlock h b => simpa [opOf, Abs.step, getMeta_saveBlock] using hs.metas k hk
    | setHeight h => simpa [opOf, Abs.step, getMeta_setHeight] using hs.metas k hk
    | updateState st => simpa [opOf, Abs.step, getMeta_updateState] using hs.metas k hk

/-! ## write logs and crashes -/

/-- the write-sets of a log of atomic writes, each issued in the image its predecessors left -/
def implLog (r : Rep) : KV → List SW → List WriteSet
  | _, [] => []
  | kv, w :: ws => impl r kv w ++ implLog r (applyAll kv (impl r kv w)) ws

/-- **simulation for every log of atomic writes** (what `Producer.run`, `Sync.runOps`, the submitter and
the includer produce is such a log) -/
theorem sim_applyAll {r : Rep} (ws : List SW) {kv : KV} {s : Chain.Store} (hs : Sim r kv s)
    (hw : ∀ w ∈ ws, SWOK r w) : Sim r (applyAll kv (implLog r kv ws)) (s.applyAll ws) := by
  induction ws generalizing kv s with
  | nil => exact hs
  | cons w ws ih =>
    simp only [implLog, applyAll_append]
    exact ih (sim_step hs (hw w (List.mem_cons_self ..))) (fun w' h' => hw w' (List.mem_cons_of_mem _ h'))

/-- **crashes**: the image after a crash at any write-set boundary of the log is the image of the
abstract store after a crash at an `SW` boundary (`Chain.Store.applyPrefix`, the crash model of C04/C05) -/
theorem sim_prefix {r : Rep} (ws : List SW) {kv : KV} {s : Chain.Store} (hs : Sim r kv s)
    (hw : ∀ w ∈ ws, SWOK r w) (n : Nat) :
    ∃ m, m ≤ ws.length ∧ Sim r (applyPrefix n (implLog r kv ws) kv) (s.applyPrefix m ws) := by
  induction ws generalizing kv s n with
  | nil => exact ⟨0, Nat.le_refl _, by simpa [implLog, Chain.Store.applyPrefix, Chain.Store.applyAll] using hs⟩
  | cons w ws ih =>
    have hw0 := hw w (List.mem_cons_self ..)
    simp only [implLog]
    rw [applyPrefix_append]
    split
    · -- the crash falls inside (or right after) the write-sets of `w`: nothing or all of it
      have hl := impl_length r kv w
      match hi : impl r kv w with
      | [] =>
        refine ⟨0, Nat.zero_le _, ?_⟩
        simpa [Chain.Store.applyPrefix, Chain.Store.applyAll] using hs
      | [x] =>
        rcases applyPrefix_single n x kv with h0 | h1
        · refine ⟨0, Nat.zero_le _, ?_⟩
          rw [h0]; simpa [Chain.Store.applyPrefix, Chain.Store.applyAll] using hs
        · refine ⟨1, by simp, ?_⟩
          rw [h1]
          have := sim_step hs hw0
          rw [hi] at this
          simpa [Chain.Store.applyPrefix, Chain.Store.applyAll, applyAll] using this
      | _ :: _ :: _ => rw [hi] at hl; simp at hl
    · obtain ⟨m, hm, h⟩ := ih (sim_step hs hw0) (fun w' h' => hw w' (List.mem_cons_of_mem _ h'))
        (n - (impl r kv w).length)
      refine ⟨m + 1, by simp; omega, ?_⟩
      simpa [Chain.Store.applyPrefix, Chain.Store.applyAll] using h

/-! ## reads commute -/

/-- `Height()` -/
theorem read_height {r : Rep} {kv : KV} {s : Chain.Store} (hs : Sim r kv s) : Store.height kv = .ok s.height := by
  rw [Store.read_height hs.inv, hs.height]

/-- `GetBlockData(h)`: not found exactly when the abstract store has no block; otherwise the decoding of
the bytes the block was saved as -/
theorem read_block {r : Rep} {kv : KV} {s : Chain.Store} (hs : Sim r kv s) (h : Nat) :
    getBlockData r.keyOk kv h =
      match s.getBlock h with
      | some b => decodeBlock r.keyOk (r.header b.sh).encode b.data.encode
      | none => .error .notFound := by
  rw [read_blockData hs.inv, Abs.getBlockData, hs.blocks h]
  cases s.getBlock h <;> rfl

/-- … which is the block itself when the codec round-trips on it (C12's theorems) -/
theorem read_block_typed {r : Rep} {kv : KV} {s : Chain.Store} (hs : Sim r kv s) {h : Nat} {b : Chain.Block}
    (hb : s.getBlock h = some b)
    (h1 : Wire.SignedHeader.decode r.keyOk (r.header b.sh).encode = some (r.header b.sh))
    (h2 : Wire.Data.decode b.data.encode = some b.data) :
    getBlockData r.keyOk kv h = .ok (r.header b.sh, b.data) := by
  rw [read_block hs, hb]; simp [decodeBlock, h1, h2]

/-- `GetSignature(h)` returns `savedSig` of the block (kept under `/c/<h>` by the real store) -/
theorem read_signature {r : Rep} {kv : KV} {s : Chain.Store} (hs : Sim r kv s) (h : Nat) :
    getSignature kv h =
      match s.getBlock h with
      | some b => .ok (r.sigBytes b.savedSig)
      | none => .error .notFound := by
  rw [Store.read_signature hs.inv, Abs.getSignature, hs.blocks h]
  cases s.getBlock h <;> rfl

/-- `GetState()` -/
theorem read_state {r : Rep} {kv : KV} {s : Chain.Store} (hs : Sim r kv s) :
    getState kv =
      match s.state with
      | some st =>
        (match State.decode (stateOf st).encode with
         | some x => .ok x
         | none => .error .corrupt)
      | none => .error .notFound := by
  have h1 := Store.read_state kv
  rw [Abs.getState, hs.state] at h1
  unfold getState
  rw [h1]
  cases s.state <;> rfl

theorem read_state_typed {r : Rep} {kv : KV} {s : Chain.Store} (hs : Sim r kv s) {st : Chain.State}
    (h0 : s.state = some st) (h1 : State.decode (stateOf st).encode = some (stateOf st)) :
    getState kv = .ok (stateOf st) := by
  rw [read_state hs, h0]; simp [h1]

/-- `GetMetadata(k)` -/
theorem read_meta {r : Rep} {kv : KV} {s : Chain.Store} (hs : Sim r kv s) {k : String} (hk : metaKeyOK k = true) :
    getMetadata kv k =
      match s.getMeta k with
      | some v => .ok v
      | none => .error .notFound := by
  rw [read_metadata kv hk, Abs.getMetadata, hs.metas k hk]
  cases s.getMeta k <;> rfl

/-! ## the relation is the graph of an abstraction function -/

/-- when the encoding loses nothing, the image determines everything the block manager can read from the
abstract store -/
theorem sim_functional {r : Rep} {kv : KV} {s s' : Chain.Store} (h : Sim r kv s) (h' : Sim r kv s')
    (injB : ∀ a b : Chain.Block, r.block a = r.block b → a = b)
    (injS : ∀ a b : Chain.State, (stateOf a).encode = (stateOf b).encode → a = b) :
    s.height = s'.height ∧ (∀ k, s.getBlock k = s'.getBlock k) ∧ s.state = s'.state ∧
    (∀ k, metaKeyOK k = true → s.getMeta k = s'.getMeta k) := by
  refine ⟨by rw [← h.height, h'.height], ?_, ?_, ?_⟩
  · intro k
    have e := (h.blocks k).symm.trans (h'.blocks k)
    cases h1 : s.getBlock k <;> cases h2 : s'.getBlock k <;> simp [h1, h2] at e ⊢
    exact injB _ _ e
  · have e := h.state.symm.trans h'.state
    cases h1 : s.state <;> cases h2 : s'.state <;> simp [h1, h2] at e ⊢
    exact injS _ _ e
  · intro k hk
    exact (h.metas k hk).symm.trans (h'.metas k hk)

/-! ## the metadata keys of the block-manager models are keys of the real store that `path.Clean` leaves alone -/

theorem rhbKey_h (h : Nat) : Submit.rhbKey h "h" = rhbHeaderKey h := by
  simp [Submit.rhbKey, rhbHeaderKey, toString, String.append_assoc]
theorem rhbKey_d (h : Nat) : Submit.rhbKey h "d" = rhbDataKey h := by
  simp [Submit.rhbKey, rhbDataKey, toString, String.append_assoc]

theorem model_keys_ok :
    metaKeyOK Producer.lastBatchDataKey = true ∧ metaKeyOK Producer.hdrWmKey = true ∧
    metaKeyOK Producer.dataWmKey = true ∧ metaKeyOK Submit.hdrWmKey = true ∧
    metaKeyOK Submit.dataWmKey = true ∧ metaKeyOK Submit.daIncKey = true ∧
    ∀ h, metaKeyOK (Submit.rhbKey h "h") = true ∧ metaKeyOK (Submit.rhbKey h "d") = true :=
  ⟨by decide, by decide, by decide, by decide, by decide, by decide,
    fun h => ⟨by rw [rhbKey_h]; exact rhbHeaderKey_ok h, by rw [rhbKey_d]; exact rhbDataKey_ok h⟩⟩

/-- … and the names are the ones of `pkg/store/keys.go` / `block` that C14's facts re-read from the source -/
theorem model_keys_are_store_keys :
    Producer.lastBatchDataKey = lastBatchDataKey ∧ Producer.hdrWmKey = lastSubmittedHeaderHeightKey ∧
    Producer.dataWmKey = lastSubmittedDataHeightKey ∧ Submit.hdrWmKey = lastSubmittedHeaderHeightKey ∧
    Submit.dataWmKey = lastSubmittedDataHeightKey ∧ Submit.daIncKey = daIncludedHeightKey := by decide

/-! ## the writes the block-manager models issue have the shape the correspondence needs

`SWOK` asks three things of a write: (a) its SHAPE — a block is saved at its header's height, a metadata
key is one `path.Clean` leaves alone; (b) heights are `uint64`; (c) the stored header parses back with the
same hash (C12).  (a) is proved here for every write of the producer (`publish`, `start`), the syncer
(`applyBlock`, `start`), the submitter's watermark (`raiseWm`) and the DA includer (`includerPass`);
(b) and (c) are about the VALUES and stay hypotheses (`swok_of_shape`). -/

/-- the part of `SWOK` that is about the SHAPE of a write -/
def Shape : SW → Prop
  | .saveBlock h b => h = b.sh.hdr.height
  | .setMeta k _ => metaKeyOK k = true
  | _ => True

theorem shape_setHeightW (s : Chain.Store) (h : Nat) : ∀ w ∈ Chain.setHeightW s h, Shape w := by
  intro w hw
  unfold Chain.setHeightW at hw
  split at hw
  · simp at hw; subst hw; trivial
  · simp at hw

theorem shape_finish (c : Producer.Cfg) (n : Producer.Node) (ws : List SW) (sh d ldh ex)
    (hws : ∀ w ∈ ws, Shape w) : ∀ w ∈ (Producer.finish c n ws sh d ldh ex).2.1, Shape w := by
  unfold Producer.finish
  cases ex with
  | fail => exact hws
  | ok =>
    simp only
    split
    · exact hws
    · intro w hw
      simp only [List.mem_append, List.mem_cons, List.mem_nil_iff, or_false] at hw
      rcases hw with (hw | hw | hw) | hw
      · exact hws w hw
      · subst hw; exact rfl
      · subst hw; trivial
      · exact shape_setHeightW _ _ w hw

theorem shape_publish (c : Producer.Cfg) (n : Producer.Node) (resp ex) :
    ∀ w ∈ (Producer.publish c n resp ex).2.1, Shape w := by
  unfold Producer.publish
  split
  · simp
  · split
    · simp
    · split
      · exact shape_finish c n [] _ _ _ _ (by simp)
      · unfold Producer.fresh
        cases resp with
        | err => simp
        | absent => simp
        | batch txs ts bd =>
          have h0 : Shape (SW.setMeta Producer.lastBatchDataKey (Producer.batchDataToBytes bd)) := by
            show metaKeyOK Producer.lastBatchDataKey = true; decide
          simp only
          split
          · intro w hw; simp at hw; subst hw; exact h0
          · split
            · intro w hw; simp at hw; subst hw; exact h0
            · unfold Producer.buildAndFinish
              apply shape_finish
              intro w hw
              simp only [List.mem_cons, List.mem_nil_iff, or_false] at hw
              rcases hw with hw | hw
              · subst hw; exact h0
              · subst hw; exact rfl
theorem shape_wm {p : Prop} [Decidable p] (k : String) (hk : metaKeyOK k = true) (v : Bytes) :
    ∀ w ∈ (if p then [SW.setMeta k v] else []), Shape w := by
  intro w hw
  split at hw
  · simp at hw; subst hw; exact hk
  · simp at hw

theorem shape_producer_start (c : Producer.Cfg) (disk : Chain.Store) (da : Nat) {n : Producer.Node} {ws : List SW}
    (h : Producer.start c disk da = .ok (n, ws)) : ∀ w ∈ ws, Shape w := by
  unfold Producer.start at h
  simp only at h
  split at h
  · cases h
  · next s d1 ws1 hr =>
    have h1 : ∀ w ∈ ws1, Shape w := by
      split at hr
      · simp only [Except.ok.injEq, Prod.mk.injEq] at hr
        obtain ⟨_, _, rfl⟩ := hr
        intro w hw; simp at hw; subst hw; exact rfl
      · split at hr
        · cases hr
        · simp only [Except.ok.injEq, Prod.mk.injEq] at hr
          obtain ⟨_, _, rfl⟩ := hr
          simp
    split at h
    · simp only [Except.ok.injEq, Prod.mk.injEq] at h
      obtain ⟨_, rfl⟩ := h
      intro w hw
      simp only [List.mem_append] at hw
      rcases hw with ((hw | hw) | hw) | hw
      · exact h1 w hw
      · exact shape_setHeightW _ _ w hw
      · exact shape_wm _ (by decide) _ w hw
      · exact shape_wm _ (by decide) _ w hw
    · cases h

theorem shape_sync_applyBlock (n : Sync.FNode) (sh d ex) : ∀ w ∈ (Sync.applyBlock n sh d ex).2.1, Shape w := by
  unfold Sync.applyBlock
  cases ex with
  | fail => simp
  | ok =>
    intro w hw
    simp only [List.mem_append, List.mem_cons, List.mem_nil_iff, or_false] at hw
    rcases hw with (hw | hw) | hw
    · subst hw; exact rfl
    · subst hw; trivial
    · exact shape_setHeightW _ _ w hw

theorem shape_raiseWm (a : Submit.ANode) (isData : Bool) (h : Nat) : ∀ w ∈ (Submit.raiseWm a isData h).2, Shape w := by
  unfold Submit.raiseWm
  cases isData <;> simp only [Bool.false_eq_true, if_false, if_true] <;> split <;> intro w hw <;> simp at hw
  · subst hw; show metaKeyOK Submit.hdrWmKey = true; decide
  · subst hw; show metaKeyOK Submit.dataWmKey = true; decide

theorem shape_includerPass (fuel : Nat) (a : Submit.ANode) (ws : List SW) (hws : ∀ w ∈ ws, Shape w) :
    ∀ w ∈ (Submit.includerPass fuel a ws).2, Shape w := by
  induction fuel generalizing a ws with
  | zero => exact hws
  | succ fuel ih =>
    unfold Submit.includerPass
    simp only
    split
    · split
      · exact hws
      · split
        · exact hws
        · split
          · exact hws
          · apply ih
            intro w hw
            simp only [List.mem_append, List.mem_cons, List.mem_nil_iff, or_false] at hw
            rcases hw with hw | hw | hw | hw
            · exact hws w hw
            · subst hw; exact (model_keys_ok.2.2.2.2.2.2 _).1
            · subst hw; exact (model_keys_ok.2.2.2.2.2.2 _).2
            · subst hw; show metaKeyOK Submit.daIncKey = true; decide
    · exact hws
theorem shape_sync_start (c : Sync.Cfg) (disk : Chain.Store) (caches : Sync.FNode) {n : Sync.FNode} {ws : List SW}
    (h : Sync.start c disk caches = some (n, ws)) : ∀ w ∈ ws, Shape w := by
  unfold Sync.start at h
  simp only at h
  split at h
  · cases h
  · next s d1 ws1 hr =>
    have h1 : ∀ w ∈ ws1, Shape w := by
      split at hr
      · simp only [Option.some.injEq, Prod.mk.injEq] at hr
        obtain ⟨_, _, rfl⟩ := hr
        intro w hw; simp at hw; subst hw; exact rfl
      · split at hr
        · cases hr
        · simp only [Option.some.injEq, Prod.mk.injEq] at hr
          obtain ⟨_, _, rfl⟩ := hr
          simp
    split at h
    · simp only [Option.some.injEq, Prod.mk.injEq] at h
      obtain ⟨_, rfl⟩ := h
      intro w hw
      simp only [List.mem_append] at hw
      rcases hw with ((hw | hw) | hw) | hw
      · exact h1 w hw
      · exact shape_setHeightW _ _ w hw
      · exact shape_wm _ (by decide) _ w hw
      · exact shape_wm _ (by decide) _ w hw
    · cases h

/-- shape + value range + wire round trip = `SWOK` -/
theorem swok_of_shape {r : Rep} {w : SW} (hs : Shape w)
    (hv : match w with
      | .saveBlock h b => h < 2 ^ 64 ∧ r.H (r.header b.sh).encode = some b.sh.hdr.hash
      | .setHeight h => h < 2 ^ 64
      | _ => True) : SWOK r w := by
  cases w with
  | saveBlock h b => exact ⟨hs, hv.1, hv.2⟩
  | setHeight h => exact hv
  | updateState st => trivial
  | setMeta k v => exact hs

end Store.Sim
