import Proofs.SubmitAct

/-! The pending-submission limit (C08): what the two counters count, and that both return to 0. -/
namespace Submit
open Wire Chain Producer

/-! ### the header counter counts committed headers that the DA layer has not acknowledged -/

/-- both watermarks lie in `[initialHeight − 1, chain height]`, and every committed height at or below the header
watermark is on the DA layer -/
structure W (c : Cfg) (a : ANode) : Prop where
  pinv : Inv c a.n
  low : c.initialHeight ≤ a.n.hdrWm + 1
  le : a.n.hdrWm ≤ a.n.store.height
  dlow : c.initialHeight ≤ a.n.dataWm + 1
  dle : a.n.dataWm ≤ a.n.store.height
  acc : ∀ h, c.initialHeight ≤ h → h ≤ a.n.hdrWm → ∃ b dh, a.n.store.getBlock h = some b ∧ b.sh.hdr.height = h ∧
    (dh, false, h) ∈ a.daBlobs

/-- the node `NewManager` builds on an empty disk, **for every initial height ≥ 1**: both watermarks are
`initialHeight − 1`, which is the chain height -/
theorem W_fresh (c : Cfg) (h1 : 1 ≤ c.initialHeight) : W c (freshA c) := by
  obtain ⟨hh, _, _, _⟩ := freshDisk_facts c
  have hht : (freshNode c).store.height = c.initialHeight - 1 := hh
  have h0 : (freshNode c).hdrWm = wmRaise c 0 := rfl
  have h0' : (freshNode c).dataWm = wmRaise c 0 := rfl
  have hge := wmRaise_ge c 0
  have hle : wmRaise c 0 ≤ c.initialHeight - 1 := by rcases wmRaise_cases c 0 with h | ⟨h, _⟩ <;> omega
  refine ⟨freshNode_inv c h1, ?_, ?_, ?_, ?_, ?_⟩
  · show c.initialHeight ≤ (freshNode c).hdrWm + 1; rw [h0]; exact hge.2
  · show (freshNode c).hdrWm ≤ (freshNode c).store.height; rw [h0, hht]; exact hle
  · show c.initialHeight ≤ (freshNode c).dataWm + 1; rw [h0']; exact hge.2
  · show (freshNode c).dataWm ≤ (freshNode c).store.height; rw [h0', hht]; exact hle
  · intro h ha hb
    have : h ≤ (freshNode c).hdrWm := hb
    rw [h0] at this; omega

theorem W.step {c : Cfg} {a : ANode} (w : W c a) (act : Act) : W c (stepA c a act) := by
  cases act with
  | produce r e =>
    have hs := publish_store w.pinv r e
    obtain ⟨w1, w2⟩ := publish_wm c a.n r e
    have hh : a.n.store.height ≤ (publish c a.n r e).1.store.height := by rcases hs.1 with h | h <;> omega
    refine ⟨publish_inv w.pinv r e, ?_, ?_, ?_, ?_, ?_⟩
    · show c.initialHeight ≤ (publish c a.n r e).1.hdrWm + 1; rw [w1]; exact w.low
    · show (publish c a.n r e).1.hdrWm ≤ (publish c a.n r e).1.store.height; rw [w1]; exact Nat.le_trans w.le hh
    · show c.initialHeight ≤ (publish c a.n r e).1.dataWm + 1; rw [w2]; exact w.dlow
    · show (publish c a.n r e).1.dataWm ≤ (publish c a.n r e).1.store.height; rw [w2]; exact Nat.le_trans w.dle hh
    · intro h ha hb
      have hb' : h ≤ a.n.hdrWm := by rw [← w1]; exact hb
      obtain ⟨b, dh, r1, r2, r3⟩ := w.acc h ha hb'
      exact ⟨b, dh, by show (publish c a.n r e).1.store.getBlock h = _; rw [hs.2 h (Nat.le_trans hb' w.le)]; exact r1, r2, r3⟩
  | subH s =>
    obtain ⟨items, rem, pre, hi, _⟩ := headersIter_inv a s
    have hok := hdrOK_of_inv w.pinv w.low
    obtain ⟨new, hnew, _⟩ := hi.blobs
    have hmono : a.n.hdrWm ≤ (headersIter a s).1.n.hdrWm := hi.wmMono
    have hdw : (headersIter a s).1.n.dataWm = a.n.dataWm := hi.frame.otherWm
    refine ⟨inv_of_same_blocks w.pinv hi.frame.blocks hi.frame.height hi.frame.lastState, ?_,
      headersIter_wm_le a s hok w.le, ?_, ?_, ?_⟩
    · show c.initialHeight ≤ (headersIter a s).1.n.hdrWm + 1; have := w.low; omega
    · show c.initialHeight ≤ (headersIter a s).1.n.dataWm + 1; rw [hdw]; exact w.dlow
    · show (headersIter a s).1.n.dataWm ≤ (headersIter a s).1.n.store.height; rw [hdw, hi.frame.height]; exact w.dle
    · intro h ha hb
      show ∃ b dh, (headersIter a s).1.n.store.getBlock h = some b ∧ b.sh.hdr.height = h ∧
        (dh, false, h) ∈ (headersIter a s).1.daBlobs
      rw [hi.frame.getBlock]
      by_cases hold : h ≤ a.n.hdrWm
      · obtain ⟨b, dh, r1, r2, r3⟩ := w.acc h ha hold
        exact ⟨b, dh, r1, r2, by rw [hnew]; exact List.mem_append_right _ r3⟩
      · obtain ⟨b, dh, r1, r2, _, _, r3, _⟩ := headersIter_sound a s hok h (by omega) hb
        exact ⟨b, dh, r1, r2, r3⟩
  | subD s =>
    obtain ⟨items, hi, _⟩ := dataIter_iter a s
    obtain ⟨new, hnew, _⟩ := hi.blobs
    have hw : (dataIter a s).1.n.hdrWm = a.n.hdrWm := hi.frame.otherWm
    have hmono : a.n.dataWm ≤ (dataIter a s).1.n.dataWm := hi.wmMono
    refine ⟨inv_of_same_blocks w.pinv hi.frame.blocks hi.frame.height hi.frame.lastState, ?_, ?_, ?_,
      dataIter_wm_le_inv a s w.pinv w.dlow w.dle, ?_⟩
    · show c.initialHeight ≤ (dataIter a s).1.n.hdrWm + 1; rw [hw]; exact w.low
    · show (dataIter a s).1.n.hdrWm ≤ (dataIter a s).1.n.store.height; rw [hw, hi.frame.height]; exact w.le
    · show c.initialHeight ≤ (dataIter a s).1.n.dataWm + 1; have := w.dlow; omega
    · intro h ha hb
      show ∃ b dh, (dataIter a s).1.n.store.getBlock h = some b ∧ b.sh.hdr.height = h ∧
        (dh, false, h) ∈ (dataIter a s).1.daBlobs
      rw [hi.frame.getBlock]
      obtain ⟨b, dh, r1, r2, r3⟩ := w.acc h ha (by rw [← hw]; exact hb)
      exact ⟨b, dh, r1, r2, by rw [hnew]; exact List.mem_append_right _ r3⟩
  | incl =>
    have hi : PassInv a (includerIter a).1 (includerIter a).2 :=
      includerPass_inv (a.n.store.height + 1) a a [] (PassInv.init a)
    have hw : (includerIter a).1.n.hdrWm = a.n.hdrWm := hi.frame.hdrWm
    have hdw : (includerIter a).1.n.dataWm = a.n.dataWm := hi.frame.dataWm
    have hht : (includerIter a).1.n.store.height = a.n.store.height := hi.frame.height
    refine ⟨inv_of_same_blocks w.pinv hi.frame.blocks hi.frame.height hi.frame.lastState, ?_, ?_, ?_, ?_, ?_⟩
    · show c.initialHeight ≤ (includerIter a).1.n.hdrWm + 1; rw [hw]; exact w.low
    · show (includerIter a).1.n.hdrWm ≤ (includerIter a).1.n.store.height
      rw [hw, hht]; exact w.le
    · show c.initialHeight ≤ (includerIter a).1.n.dataWm + 1; rw [hdw]; exact w.dlow
    · show (includerIter a).1.n.dataWm ≤ (includerIter a).1.n.store.height
      rw [hdw, hht]; exact w.dle
    · intro h ha hb
      show ∃ b dh, (includerIter a).1.n.store.getBlock h = some b ∧ b.sh.hdr.height = h ∧
        (dh, false, h) ∈ (includerIter a).1.daBlobs
      rw [hi.frame.getBlock]
      obtain ⟨b, dh, r1, r2, r3⟩ := w.acc h ha (by rw [← hw]; exact hb)
      exact ⟨b, dh, r1, r2, by rw [show (includerIter a).1.daBlobs = a.daBlobs from hi.frame.daBlobs]; exact r3⟩

theorem W.run {c : Cfg} {a : ANode} (w : W c a) (acts : List Act) : W c (runA c a acts) := by
  induction acts generalizing a with
  | nil => exact w
  | cons act acts ih => exact ih (w.step act)

/-! ### the data half: lists of data items -/

/-- the pending block of index `i` is the block at `w + 1 + i` -/
theorem pendingBlocks_mem_of {s : Store} {w : Nat} {bs : List Block} (h : pendingBlocks s w = some bs)
    {k : Nat} {b : Block} (k1 : w < k) (k2 : k ≤ s.height) (hb : s.getBlock k = some b) : b ∈ bs := by
  obtain ⟨hl, hget⟩ := pendingBlocks_some h
  have hi : k - w - 1 < bs.length := by omega
  have := hget (k - w - 1) hi
  have hidx : w + 1 + (k - w - 1) = k := by omega
  rw [hidx, hb] at this
  have e : b = bs[k - w - 1] := by simpa using this
  rw [e]; exact List.getElem_mem _

theorem dataItems_mem_of {s : Store} {w : Nat} {bs : List Block} (h : pendingBlocks s w = some bs)
    {k : Nat} {b : Block} (k1 : w < k) (k2 : k ≤ s.height) (hb : s.getBlock k = some b) (hne : b.data.txs ≠ []) :
    ({ height := dataHeight b, key := b.data.daCommitment, blob := dataBlob b } : Item) ∈ dataItems bs := by
  unfold dataItems
  refine List.mem_map.mpr ⟨b, List.mem_filter.mpr ⟨pendingBlocks_mem_of h k1 k2 hb, ?_⟩, rfl⟩
  cases ht : b.data.txs with
  | nil => exact absurd ht hne
  | cons _ _ => rfl

/-- when nothing is left to submit every pending block is empty -/
theorem dataItems_nil {s : Store} {w : Nat} {bs : List Block} (h : pendingBlocks s w = some bs) (he : dataItems bs = [])
    {k : Nat} {b : Block} (k1 : w < k) (k2 : k ≤ s.height) (hb : s.getBlock k = some b) : b.data.txs = [] := by
  cases ht : b.data.txs with
  | nil => rfl
  | cons x xs =>
    have := dataItems_mem_of h k1 k2 hb (by rw [ht]; simp)
    rw [he] at this; cases this

/-- the data items are in increasing height order when the blocks carry their height in the data metadata -/
theorem dataItems_sorted {s : Store} {w : Nat} {bs : List Block} (h : pendingBlocks s w = some bs) (hok : DataOK s w) :
    (dataItems bs).Pairwise (fun x y => x.height < y.height) := by
  obtain ⟨hl, hget⟩ := pendingBlocks_some h
  have hdh : ∀ i (hi : i < bs.length), dataHeight bs[i] = w + 1 + i := by
    intro i hi
    obtain ⟨b, hb, hh⟩ := hok (w + 1 + i) (by omega) (by omega)
    rw [hget i hi] at hb
    have : bs[i] = b := by simpa using hb
    rw [this]; exact hh
  have hp : bs.Pairwise (fun x y => dataHeight x < dataHeight y) := by
    rw [List.pairwise_iff_getElem]
    intro i j hi hj hij
    rw [hdh i hi, hdh j hj]; omega
  unfold dataItems
  rw [List.pairwise_map]
  exact hp.filter _

theorem le_lastH_of_sorted {items : List Item} (hs : items.Pairwise (fun x y => x.height < y.height))
    {x : Item} (hx : x ∈ items) : x.height ≤ lastH items := by
  have hne : items ≠ [] := by intro e; rw [e] at hx; cases hx
  unfold lastH
  cases hg : items.getLast? with
  | none => exact absurd (List.getLast?_eq_none_iff.mp hg) hne
  | some z =>
    have hz : items = items.dropLast ++ [z] := by
      have := List.dropLast_concat_getLast hne
      have hzz : items.getLast hne = z := by
        have h' := List.getLast?_eq_some_getLast hne
        rw [hg] at h'; simpa using h'.symm
      rw [hzz] at this; exact this.symm
    rw [hz] at hx hs
    rcases List.mem_append.mp hx with hx | hx
    · have := (List.pairwise_append.mp hs).2.2 x hx z (by simp)
      simp; omega
    · simp at hx; subst hx; simp

/-! ### every committed block carries its height in the data metadata -/

theorem finish_meta {c : Cfg} {n : Node} (ws : List SW) (sh : SHeader) (d : Data) (ldh : Bytes) (ex : ExecResp)
    (hh : sh.hdr.height = n.store.height + 1)
    (hup : (finish c n ws sh d ldh ex).1.store.height = n.store.height + 1) :
    ((finish c n ws sh d ldh ex).1.store.getBlock (n.store.height + 1)).map dataHeight = some (n.store.height + 1) := by
  unfold finish at hup ⊢
  cases ex with
  | fail => exact absurd hup (by show ¬ n.store.height = n.store.height + 1; omega)
  | ok =>
    simp only [signed, withMeta] at hup ⊢
    split
    · rename_i hv
      rw [hv] at hup
      exact absurd hup (by show ¬ n.store.height = n.store.height + 1; omega)
    · simp only [hh]
      show ((Store.applyAll _ _).getBlock _).map dataHeight = _
      rw [(applyAll_setHeightW _ _).2.1, getBlock_updateState, getBlock_saveBlock_same]
      simp [dataHeight, hh]

theorem publish_meta {c : Cfg} {n : Node} (hi : Inv c n) (resp : SeqResp) (ex : ExecResp)
    (hup : (publish c n resp ex).1.store.height = n.store.height + 1) :
    ((publish c n resp ex).1.store.getBlock (n.store.height + 1)).map dataHeight = some (n.store.height + 1) := by
  have hno : ¬ n.store.height = n.store.height + 1 := by omega
  unfold publish at hup ⊢
  split
  · rename_i h; rw [if_pos h] at hup; exact absurd hup hno
  · rename_i h; rw [if_neg h] at hup
    split
    · rename_i hp; rw [hp] at hup; exact absurd hup hno
    · rename_i ls lhh ldh lht hp
      rw [hp] at hup
      simp only at hup
      split
      · rename_i pb hpb
        rw [hpb] at hup
        exact finish_meta [] pb.sh pb.data _ ex (hi.pend pb hpb).height hup
      · rename_i hnone
        rw [hnone] at hup
        simp only at hup
        unfold fresh at hup ⊢
        cases resp with
        | err => exact absurd hup hno
        | absent => exact absurd hup hno
        | batch txs ts bd =>
          simp only at hup ⊢
          split
          · rename_i hr; rw [if_pos hr] at hup; exact absurd hup hno
          · rename_i hr; rw [if_neg hr] at hup
            split
            · rename_i hsg; rw [if_pos hsg] at hup; exact absurd hup hno
            · rename_i hsg; rw [if_neg hsg] at hup
              unfold buildAndFinish at hup ⊢
              obtain ⟨f1, _⟩ := createBlock_facts c n.lastState (n.store.height + 1) ls lhh txs ts
              exact finish_meta (c := c) _ _ _ _ ex f1 hup

theorem map_dataHeight_some {o : Option Block} {k : Nat} (h : o.map dataHeight = some k) :
    ∃ b, o = some b ∧ dataHeight b = k := by
  cases o with
  | none => simp at h
  | some b => exact ⟨b, rfl, by simpa using h⟩

/-- the data side of the reachable-node invariant: **every committed block carries its own height in its data metadata**
(`publishBlockInternal` appends the metadata before saving, for empty blocks too), and **every committed height at or
below the data watermark is an empty block or a block whose signed data the DA double holds** -/
structure D (c : Cfg) (a : ANode) : Prop where
  mh : ∀ h, c.initialHeight ≤ h → h ≤ a.n.store.height → ∃ b, a.n.store.getBlock h = some b ∧ dataHeight b = h
  dacc : ∀ h, c.initialHeight ≤ h → h ≤ a.n.dataWm → ∃ b, a.n.store.getBlock h = some b ∧
    (b.data.txs = [] ∨ ∃ dh, (dh, true, h) ∈ a.daBlobs)

theorem D.dataOK {c : Cfg} {a : ANode} (d : D c a) (hlow : c.initialHeight ≤ a.n.dataWm + 1) :
    DataOK a.n.store a.n.dataWm := fun h h1 h2 => d.mh h (by omega) h2

theorem D_fresh (c : Cfg) (h1 : 1 ≤ c.initialHeight) : D c (freshA c) := by
  have w := W_fresh c h1
  obtain ⟨hh, _, _, _⟩ := freshDisk_facts c
  have hht : (freshNode c).store.height = c.initialHeight - 1 := hh
  refine ⟨fun h ha hb => ?_, fun h ha hb => ?_⟩
  · have : h ≤ (freshNode c).store.height := hb
    omega
  · have q1 : h ≤ (freshNode c).dataWm := hb
    have q2 : (freshNode c).dataWm ≤ (freshNode c).store.height := w.dle
    omega

/-- a frame step: blocks and height unchanged, the DA double only grows, the data watermark unchanged -/
theorem D.of_frame {c : Cfg} {a a' : ANode} (d : D c a) (hh : a'.n.store.height = a.n.store.height)
    (hb : ∀ k, a'.n.store.getBlock k = a.n.store.getBlock k) (hd : ∀ e ∈ a.daBlobs, e ∈ a'.daBlobs)
    (hw : a'.n.dataWm = a.n.dataWm) : D c a' := by
  refine ⟨fun h ha hb' => ?_, fun h ha hb' => ?_⟩
  · rw [hb]; exact d.mh h ha (by rw [← hh]; exact hb')
  · obtain ⟨b, r1, r2⟩ := d.dacc h ha (by rw [← hw]; exact hb')
    refine ⟨b, by rw [hb]; exact r1, ?_⟩
    rcases r2 with r2 | ⟨dh, r2⟩
    · exact Or.inl r2
    · exact Or.inr ⟨dh, hd _ r2⟩

/-- **soundness of the data watermark at the level of one data iteration**: every height the watermark moved past is a
stored block that is empty, or whose signed data the DA double stored during this iteration, the block's data commitment
being marked with that DA height -/
theorem dataIter_sound (a : ANode) (script : List DAAns) (hok : DataOK a.n.store a.n.dataWm)
    (hle : a.n.dataWm ≤ a.n.store.height) :
    ∀ h, a.n.dataWm < h → h ≤ (dataIter a script).1.n.dataWm →
      ∃ b, a.n.store.getBlock h = some b ∧ dataHeight b = h ∧
        (b.data.txs = [] ∨ ∃ dh, a.daH ≤ dh ∧ dh < (dataIter a script).1.daH ∧
          (dh, true, h) ∈ (dataIter a script).1.daBlobs ∧ (b.data.daCommitment, dh) ∈ (dataIter a script).1.dMarks) := by
  intro h h1 hb'
  obtain ⟨items, hi, _⟩ := dataIter_iter a script
  have hle' := dataIter_wm_le a script hok hle
  have hht : (dataIter a script).1.n.store.height = a.n.store.height := hi.frame.height
  have h2 : h ≤ a.n.store.height := by omega
  obtain ⟨b, r1, r2⟩ := hok h h1 h2
  refine ⟨b, r1, r2, ?_⟩
  by_cases hne : b.data.txs = []
  · exact Or.inl hne
  · right
    rcases dataIter_cases a script with ⟨he, _⟩ | ⟨he, _⟩ | ⟨bs, _, hbs, hnil, _⟩ | ⟨bs, _, hbs, _, he⟩
    · have q : h ≤ a.n.dataWm := by rw [he] at hb'; exact hb'
      omega
    · have q : h ≤ a.n.dataWm := by rw [he] at hb'; exact hb'
      omega
    · exact absurd (dataItems_nil hbs hnil h1 h2 r1) hne
    · rw [he] at hb' ⊢
      simp only [iterOf] at hb' ⊢
      have hit := dataItems_mem_of hbs h1 h2 r1 hne
      obtain ⟨dh, q1, q2, q3, q4⟩ := submitLoop_sound true maxSubmitAttempts a (dataItems bs) script []
        (dataItems_sorted hbs hok) _ hit (by show a.n.dataWm < dataHeight b; omega)
        (by show dataHeight b ≤ _; rw [r2]; exact hb')
      exact ⟨dh, q1, q2, by simpa [r2] using q3, q4⟩

theorem D.step {c : Cfg} {a : ANode} (w : W c a) (d : D c a) (act : Act) : D c (stepA c a act) := by
  cases act with
  | produce r e =>
    have hs := publish_store w.pinv r e
    obtain ⟨_, w2⟩ := publish_wm c a.n r e
    refine ⟨fun h ha hb => ?_, fun h ha hb => ?_⟩
    · show ∃ b, (publish c a.n r e).1.store.getBlock h = some b ∧ dataHeight b = h
      have hb' : h ≤ (publish c a.n r e).1.store.height := hb
      by_cases hold : h ≤ a.n.store.height
      · rw [hs.2 h hold]; exact d.mh h ha hold
      · have hup : (publish c a.n r e).1.store.height = a.n.store.height + 1 := by rcases hs.1 with q | q <;> omega
        have hh : h = a.n.store.height + 1 := by omega
        rw [hh]
        exact map_dataHeight_some (publish_meta w.pinv r e hup)
    · show ∃ b, (publish c a.n r e).1.store.getBlock h = some b ∧ _
      have hb' : h ≤ a.n.dataWm := by rw [← w2]; exact hb
      rw [hs.2 h (Nat.le_trans hb' w.dle)]
      exact d.dacc h ha hb'
  | subH s =>
    obtain ⟨items, hi, _⟩ := headersIter_iter a s
    obtain ⟨new, hnew, _⟩ := hi.blobs
    exact d.of_frame hi.frame.height hi.frame.getBlock (fun e he => by show e ∈ (headersIter a s).1.daBlobs; rw [hnew]; exact List.mem_append_right _ he)
      hi.frame.otherWm
  | incl =>
    have hi : PassInv a (includerIter a).1 (includerIter a).2 :=
      includerPass_inv (a.n.store.height + 1) a a [] (PassInv.init a)
    exact d.of_frame hi.frame.height hi.frame.getBlock
      (fun e he => by show e ∈ (includerIter a).1.daBlobs; rw [show (includerIter a).1.daBlobs = a.daBlobs from hi.frame.daBlobs]; exact he) hi.frame.dataWm
  | subD s =>
    obtain ⟨items, hi, _⟩ := dataIter_iter a s
    obtain ⟨new, hnew, _⟩ := hi.blobs
    have hok := d.dataOK w.dlow
    have hle' := dataIter_wm_le a s hok w.dle
    have hht : (dataIter a s).1.n.store.height = a.n.store.height := hi.frame.height
    refine ⟨fun h ha hb => ?_, fun h ha hb => ?_⟩
    · show ∃ b, (dataIter a s).1.n.store.getBlock h = some b ∧ dataHeight b = h
      rw [hi.frame.getBlock]; exact d.mh h ha (by rw [← hht]; exact hb)
    · show ∃ b, (dataIter a s).1.n.store.getBlock h = some b ∧
        (b.data.txs = [] ∨ ∃ dh, (dh, true, h) ∈ (dataIter a s).1.daBlobs)
      have hb' : h ≤ (dataIter a s).1.n.dataWm := hb
      rw [hi.frame.getBlock]
      by_cases hold : h ≤ a.n.dataWm
      · obtain ⟨b, r1, r2⟩ := d.dacc h ha hold
        refine ⟨b, r1, ?_⟩
        rcases r2 with r2 | ⟨dh, r2⟩
        · exact Or.inl r2
        · exact Or.inr ⟨dh, by rw [hnew]; exact List.mem_append_right _ r2⟩
      · obtain ⟨b, r1, _, r3⟩ := dataIter_sound a s hok w.dle h (by omega) hb'
        refine ⟨b, r1, ?_⟩
        rcases r3 with r3 | ⟨dh, _, _, r3, _⟩
        · exact Or.inl r3
        · exact Or.inr ⟨dh, r3⟩

/-! ### liveness of the data watermark -/

/-- **one accepting data tick**: after a data iteration against a DA layer that accepts after fewer than 30
non-cancellation failures, every block above the data watermark is empty (the watermark passed every non-empty block) -/
theorem dataIter_accepting (a : ANode) (fails tail : List DAAns) (htail : tail.headD (.ok none) = .ok none)
    (hnc : DAAns.canceled ∉ fails) (hf : fails.length < maxSubmitAttempts)
    (hok : DataOK a.n.store a.n.dataWm) (hle : a.n.dataWm ≤ a.n.store.height) :
    DataIdle (dataIter a (fails ++ tail)).1 := by
  obtain ⟨items, hi, _⟩ := dataIter_iter a (fails ++ tail)
  have hmono : a.n.dataWm ≤ (dataIter a (fails ++ tail)).1.n.dataWm := hi.wmMono
  intro h h1 h2
  rw [hi.frame.height] at h2
  rw [hi.frame.getBlock]
  obtain ⟨b, hb, hdh⟩ := hok h (by omega) h2
  refine ⟨b, hb, ?_⟩
  rcases dataIter_cases a (fails ++ tail) with ⟨_, he⟩ | ⟨_, he⟩ | ⟨bs, _, hbs, hnil, _⟩ | ⟨bs, _, hbs, _, he⟩
  · omega
  · exfalso
    rcases he with he | he
    · omega
    · obtain ⟨bs, hbs⟩ := pendingBlocks_exists (s := a.n.store) (w := a.n.dataWm)
        (fun k k1 k2 => by obtain ⟨b, hb, _⟩ := hok k k1 k2; exact ⟨b, hb⟩)
      rw [hbs] at he; simp at he
  · exact dataItems_nil hbs hnil (by omega) h2 hb
  · cases ht : b.data.txs with
    | nil => rfl
    | cons x xs =>
      exfalso
      have hne : b.data.txs ≠ [] := by rw [ht]; simp
      have hit := dataItems_mem_of hbs (by omega) h2 hb hne
      have hall := submitLoop_retry true fails tail htail hnc maxSubmitAttempts hf a (dataItems bs) [] []
      have hge := (submitLoop_wm_all true maxSubmitAttempts a (dataItems bs) (fails ++ tail) []).1 hall
      have hl := le_lastH_of_sorted (dataItems_sorted hbs hok) hit
      rw [he] at h1
      simp only [iterOf] at h1
      have hge' : lastH (dataItems bs) ≤
          (submitLoop true maxSubmitAttempts a (dataItems bs) (fails ++ tail) [] []).1.n.dataWm := hge
      have hl' : dataHeight b ≤ lastH (dataItems bs) := hl
      omega

/-- **a data tick over empty blocks**: when every block above the data watermark is empty, a data iteration — whatever
the DA layer would answer: it is not asked — ends with `dataWm = chain height` and issues no `Submit` call -/
theorem dataIter_idle_reaches {a : ANode} (h : DataIdle a) (hok : DataOK a.n.store a.n.dataWm)
    (hle : a.n.dataWm ≤ a.n.store.height) (script : List DAAns) :
    (dataIter a script).1.n.dataWm = (dataIter a script).1.n.store.height ∧ (dataIter a script).2.2.1 = [] := by
  by_cases heq : a.n.store.height = a.n.dataWm
  · rw [dataIter_skip heq]; exact ⟨heq.symm, rfl⟩
  · have hlt : a.n.dataWm < a.n.store.height := by omega
    obtain ⟨b, hb, he⟩ := dataIter_idle h hlt script
    obtain ⟨b', hb', hh⟩ := hok _ hlt (Nat.le_refl _)
    rw [hb] at hb'
    have : b = b' := by simpa using hb'
    subst this
    rw [he]
    have h7 : (raiseWm a true (dataHeight b)).1.n.dataWm = max a.n.dataWm (dataHeight b) :=
      (raiseWm_spec a true (dataHeight b)).2.2.2.2.2.2.1
    have hf := (raiseWm_frame a true (dataHeight b)).height
    refine ⟨?_, rfl⟩
    show (raiseWm a true (dataHeight b)).1.n.dataWm = (raiseWm a true (dataHeight b)).1.n.store.height
    rw [h7, hf, hh]; omega

/-- `DataOK` survives a data iteration (blocks and height are untouched, the watermark only grows) -/
theorem dataOK_dataIter {a : ANode} (hok : DataOK a.n.store a.n.dataWm) (script : List DAAns) :
    DataOK (dataIter a script).1.n.store (dataIter a script).1.n.dataWm := by
  obtain ⟨items, hi, _⟩ := dataIter_iter a script
  have hmono : a.n.dataWm ≤ (dataIter a script).1.n.dataWm := hi.wmMono
  intro h h1 h2
  rw [hi.frame.height] at h2
  rw [hi.frame.getBlock]
  exact hok h (by omega) h2

/-- **two data ticks clear the data counter**: an accepting tick passes every non-empty block, the next tick (any
answers) passes the trailing empty ones — for every mix of empty and non-empty blocks, all-empty included -/
theorem data_two_ticks (a : ANode) (fails tail s2 : List DAAns) (htail : tail.headD (.ok none) = .ok none)
    (hnc : DAAns.canceled ∉ fails) (hf : fails.length < maxSubmitAttempts)
    (hok : DataOK a.n.store a.n.dataWm) (hle : a.n.dataWm ≤ a.n.store.height) :
    (dataIter (dataIter a (fails ++ tail)).1 s2).1.n.dataWm = (dataIter (dataIter a (fails ++ tail)).1 s2).1.n.store.height :=
  (dataIter_idle_reaches (dataIter_accepting a fails tail htail hnc hf hok hle) (dataOK_dataIter hok _)
    (dataIter_wm_le a _ hok hle) s2).1

/-- with a non-empty last block one accepting data tick is enough -/
theorem dataIter_reaches (a : ANode) (fails tail : List DAAns) (htail : tail.headD (.ok none) = .ok none)
    (hnc : DAAns.canceled ∉ fails) (hf : fails.length < maxSubmitAttempts)
    (hok : DataOK a.n.store a.n.dataWm) (hlt : a.n.dataWm < a.n.store.height)
    (hlast : ∀ b, a.n.store.getBlock a.n.store.height = some b → b.data.txs ≠ []) :
    (dataIter a (fails ++ tail)).1.n.dataWm = (dataIter a (fails ++ tail)).1.n.store.height := by
  have hidle := dataIter_accepting a fails tail htail hnc hf hok (by omega)
  have hle' := dataIter_wm_le a (fails ++ tail) hok (by omega)
  obtain ⟨items, hi, _⟩ := dataIter_iter a (fails ++ tail)
  have hht : (dataIter a (fails ++ tail)).1.n.store.height = a.n.store.height := hi.frame.height
  by_cases heq : (dataIter a (fails ++ tail)).1.n.dataWm = (dataIter a (fails ++ tail)).1.n.store.height
  · exact heq
  · exfalso
    obtain ⟨b, hb, he⟩ := hidle _ (by omega) (Nat.le_refl _)
    rw [hht, hi.frame.getBlock] at hb
    exact hlast b hb he

end Submit
