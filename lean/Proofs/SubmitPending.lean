import Proofs.SubmitAct

/-! The pending-submission limit (C08): what the header counter counts, the data half, the deadlock. -/
namespace Submit
open Wire Chain Producer

/-! ### the header counter counts committed headers that the DA layer has not acknowledged -/

/-- both watermarks lie in `[initialHeight − 1, chain height]`, and every committed height at or below the header
watermark is on the DA layer -/
structure W (c : Cfg) (a : ANode) : Prop where
  pinv : Inv c a.n
  low : c.initialHeight ≤ a.n.hdrWm + 1
  le : a.n.hdrWm ≤ a.n.store.height
  dlow : c.initialHeight ≤ a.n.dataWm + 1
  dle : a.n.dataWm ≤ a.n.store.height
  acc : ∀ h, c.initialHeight ≤ h → h ≤ a.n.hdrWm → ∃ b dh, a.n.store.getBlock h = some b ∧ b.sh.hdr.height = h ∧
    (dh, false, h) ∈ a.daBlobs

/-- the node `NewManager` builds on an empty disk, **for every initial height ≥ 1**: both watermarks are
`initialHeight − 1`, which is the chain height -/
theorem W_fresh (c : Cfg) (h1 : 1 ≤ c.initialHeight) : W c (freshA c) := by
  obtain ⟨hh, _, _, _⟩ := freshDisk_facts c
  have hht : (freshNode c).store.height = c.initialHeight - 1 := hh
  have h0 : (freshNode c).hdrWm = wmRaise c 0 := rfl
  have h0' : (freshNode c).dataWm = wmRaise c 0 := rfl
  have hge := wmRaise_ge c 0
  have hle : wmRaise c 0 ≤ c.initialHeight - 1 := by rcases wmRaise_cases c 0 with h | ⟨h, _⟩ <;> omega
  refine ⟨freshNode_inv c h1, ?_, ?_, ?_, ?_, ?_⟩
  · show c.initialHeight ≤ (freshNode c).hdrWm + 1; rw [h0]; exact hge.2
  · show (freshNode c).hdrWm ≤ (freshNode c).store.height; rw [h0, hht]; exact hle
  · show c.initialHeight ≤ (freshNode c).dataWm + 1; rw [h0']; exact hge.2
  · show (freshNode c).dataWm ≤ (freshNode c).store.height; rw [h0', hht]; exact hle
  · intro h ha hb
    have : h ≤ (freshNode c).hdrWm := hb
    rw [h0] at this; omega

theorem W.step {c : Cfg} {a : ANode} (w : W c a) (act : Act) : W c (stepA c a act) := by
  cases act with
  | produce r e =>
    have hs := publish_store w.pinv r e
    obtain ⟨w1, w2⟩ := publish_wm c a.n r e
    have hh : a.n.store.height ≤ (publish c a.n r e).1.store.height := by rcases hs.1 with h | h <;> omega
    refine ⟨publish_inv w.pinv r e, ?_, ?_, ?_, ?_, ?_⟩
    · show c.initialHeight ≤ (publish c a.n r e).1.hdrWm + 1; rw [w1]; exact w.low
    · show (publish c a.n r e).1.hdrWm ≤ (publish c a.n r e).1.store.height; rw [w1]; exact Nat.le_trans w.le hh
    · show c.initialHeight ≤ (publish c a.n r e).1.dataWm + 1; rw [w2]; exact w.dlow
    · show (publish c a.n r e).1.dataWm ≤ (publish c a.n r e).1.store.height; rw [w2]; exact Nat.le_trans w.dle hh
    · intro h ha hb
      have hb' : h ≤ a.n.hdrWm := by rw [← w1]; exact hb
      obtain ⟨b, dh, r1, r2, r3⟩ := w.acc h ha hb'
      exact ⟨b, dh, by show (publish c a.n r e).1.store.getBlock h = _; rw [hs.2 h (Nat.le_trans hb' w.le)]; exact r1, r2, r3⟩
  | subH s =>
    obtain ⟨items, rem, pre, hi, _⟩ := headersIter_inv a s
    have hok := hdrOK_of_inv w.pinv w.low
    obtain ⟨new, hnew, _⟩ := hi.blobs
    have hmono : a.n.hdrWm ≤ (headersIter a s).1.n.hdrWm := hi.wmMono
    have hdw : (headersIter a s).1.n.dataWm = a.n.dataWm := hi.frame.otherWm
    refine ⟨inv_of_same_blocks w.pinv hi.frame.blocks hi.frame.height hi.frame.lastState, ?_,
      headersIter_wm_le a s hok w.le, ?_, ?_, ?_⟩
    · show c.initialHeight ≤ (headersIter a s).1.n.hdrWm + 1; have := w.low; omega
    · show c.initialHeight ≤ (headersIter a s).1.n.dataWm + 1; rw [hdw]; exact w.dlow
    · show (headersIter a s).1.n.dataWm ≤ (headersIter a s).1.n.store.height; rw [hdw, hi.frame.height]; exact w.dle
    · intro h ha hb
      show ∃ b dh, (headersIter a s).1.n.store.getBlock h = some b ∧ b.sh.hdr.height = h ∧
        (dh, false, h) ∈ (headersIter a s).1.daBlobs
      rw [hi.frame.getBlock]
      by_cases hold : h ≤ a.n.hdrWm
      · obtain ⟨b, dh, r1, r2, r3⟩ := w.acc h ha hold
        exact ⟨b, dh, r1, r2, by rw [hnew]; exact List.mem_append_right _ r3⟩
      · obtain ⟨b, dh, r1, r2, _, _, r3, _⟩ := headersIter_sound a s hok h (by omega) hb
        exact ⟨b, dh, r1, r2, r3⟩
  | subD s =>
    obtain ⟨items, rem, pre, hi, _⟩ := dataIter_inv a s
    obtain ⟨new, hnew, _⟩ := hi.blobs
    have hw : (dataIter a s).1.n.hdrWm = a.n.hdrWm := hi.frame.otherWm
    have hmono : a.n.dataWm ≤ (dataIter a s).1.n.dataWm := hi.wmMono
    refine ⟨inv_of_same_blocks w.pinv hi.frame.blocks hi.frame.height hi.frame.lastState, ?_, ?_, ?_,
      dataIter_wm_le_inv a s w.pinv w.dlow w.dle, ?_⟩
    · show c.initialHeight ≤ (dataIter a s).1.n.hdrWm + 1; rw [hw]; exact w.low
    · show (dataIter a s).1.n.hdrWm ≤ (dataIter a s).1.n.store.height; rw [hw, hi.frame.height]; exact w.le
    · show c.initialHeight ≤ (dataIter a s).1.n.dataWm + 1; have := w.dlow; omega
    · intro h ha hb
      show ∃ b dh, (dataIter a s).1.n.store.getBlock h = some b ∧ b.sh.hdr.height = h ∧
        (dh, false, h) ∈ (dataIter a s).1.daBlobs
      rw [hi.frame.getBlock]
      obtain ⟨b, dh, r1, r2, r3⟩ := w.acc h ha (by rw [← hw]; exact hb)
      exact ⟨b, dh, r1, r2, by rw [hnew]; exact List.mem_append_right _ r3⟩
  | incl =>
    have hi : PassInv a (includerIter a).1 (includerIter a).2 :=
      includerPass_inv (a.n.store.height + 1) a a [] (PassInv.init a)
    have hw : (includerIter a).1.n.hdrWm = a.n.hdrWm := hi.frame.hdrWm
    have hdw : (includerIter a).1.n.dataWm = a.n.dataWm := hi.frame.dataWm
    have hht : (includerIter a).1.n.store.height = a.n.store.height := hi.frame.height
    refine ⟨inv_of_same_blocks w.pinv hi.frame.blocks hi.frame.height hi.frame.lastState, ?_, ?_, ?_, ?_, ?_⟩
    · show c.initialHeight ≤ (includerIter a).1.n.hdrWm + 1; rw [hw]; exact w.low
    · show (includerIter a).1.n.hdrWm ≤ (includerIter a).1.n.store.height
      rw [hw, hht]; exact w.le
    · show c.initialHeight ≤ (includerIter a).1.n.dataWm + 1; rw [hdw]; exact w.dlow
    · show (includerIter a).1.n.dataWm ≤ (includerIter a).1.n.store.height
      rw [hdw, hht]; exact w.dle
    · intro h ha hb
      show ∃ b dh, (includerIter a).1.n.store.getBlock h = some b ∧ b.sh.hdr.height = h ∧
        (dh, false, h) ∈ (includerIter a).1.daBlobs
      rw [hi.frame.getBlock]
      obtain ⟨b, dh, r1, r2, r3⟩ := w.acc h ha (by rw [← hw]; exact hb)
      exact ⟨b, dh, r1, r2, by rw [show (includerIter a).1.daBlobs = a.daBlobs from hi.frame.daBlobs]; exact r3⟩

theorem W.run {c : Cfg} {a : ANode} (w : W c a) (acts : List Act) : W c (runA c a acts) := by
  induction acts generalizing a with
  | nil => exact w
  | cons act acts ih => exact ih (w.step act)

/-! ### the data half -/

theorem dataItems_lastH {bs : List Block} (hne : bs ≠ []) (hl : (bs.getLast hne).data.txs ≠ []) :
    lastH (dataItems bs) = dataHeight (bs.getLast hne) := by
  have hb := List.dropLast_concat_getLast hne
  generalize bs.getLast hne = l at hl hb
  rw [← hb]
  have hp : (!l.data.txs.isEmpty) = true := by
    cases h : l.data.txs with
    | nil => exact absurd h hl
    | cons _ _ => rfl
  simp [dataItems, lastH, List.filter_append, hp]

/-- **with a non-empty last block, a data iteration against a DA layer that accepts (after fewer than 30 failures) brings
the data watermark to the chain height** -/
theorem dataIter_reaches (a : ANode) (fails tail : List DAAns) (htail : tail.headD (.ok none) = .ok none)
    (hnc : DAAns.canceled ∉ fails) (hf : fails.length < maxSubmitAttempts)
    (hok : DataOK a.n.store a.n.dataWm) (hlt : a.n.dataWm < a.n.store.height)
    (hlast : ∀ b, a.n.store.getBlock a.n.store.height = some b → b.data.txs ≠ []) :
    (dataIter a (fails ++ tail)).1.n.dataWm = (dataIter a (fails ++ tail)).1.n.store.height := by
  rcases dataIter_cases a (fails ++ tail) with ⟨_, he⟩ | ⟨_, he⟩ | ⟨bs, _, hbs, hne, he⟩
  · exfalso
    rcases he with he | ⟨bs, hbs, hnil⟩
    · omega
    · obtain ⟨hl, hget⟩ := pendingBlocks_some hbs
      have hne : bs ≠ [] := by intro e; rw [e] at hl; simp at hl; omega
      have hi : bs.length - 1 < bs.length := by omega
      have hg := hget (bs.length - 1) hi
      have hidx : a.n.dataWm + 1 + (bs.length - 1) = a.n.store.height := by omega
      rw [hidx] at hg
      have := dataItems_lastH hne (by rw [List.getLast_eq_getElem]; exact hlast _ hg)
      have hmem : bs[bs.length - 1] ∈ bs.filter (fun b => !b.data.txs.isEmpty) := by
        rw [List.mem_filter]
        refine ⟨List.getElem_mem _, ?_⟩
        have := hlast _ hg
        cases h : bs[bs.length - 1].data.txs with
        | nil => exact absurd h this
        | cons _ _ => rfl
      have : bs.filter (fun b => !b.data.txs.isEmpty) = [] := by
        simpa [dataItems] using hnil
      rw [this] at hmem; simp at hmem
  · exfalso
    rcases he with he | he
    · omega
    · obtain ⟨bs, hbs⟩ := pendingBlocks_exists (s := a.n.store) (w := a.n.dataWm)
        (fun k k1 k2 => by obtain ⟨b, hb, _⟩ := hok k k1 k2; exact ⟨b, hb⟩)
      rw [hbs] at he; simp at he
  · rw [he]
    simp only [iterOf]
    obtain ⟨hl, hget⟩ := pendingBlocks_some hbs
    have hbne : bs ≠ [] := by intro e; rw [e] at hl; simp at hl; omega
    have hi : bs.length - 1 < bs.length := by omega
    have hg := hget (bs.length - 1) hi
    have hidx : a.n.dataWm + 1 + (bs.length - 1) = a.n.store.height := by omega
    rw [hidx] at hg
    have hlastne := hlast _ hg
    have hlh := dataItems_lastH hbne (by rw [List.getLast_eq_getElem]; exact hlastne)
    have hdh : dataHeight (bs.getLast hbne) = a.n.store.height := by
      rw [List.getLast_eq_getElem]
      obtain ⟨b', hb', hh⟩ := hok a.n.store.height hlt (Nat.le_refl _)
      rw [hg] at hb'
      have : bs[bs.length - 1] = b' := by simpa using hb'
      rw [this]; exact hh (by rw [← this]; exact hlastne)
    have hall := submitLoop_retry true fails tail htail hnc maxSubmitAttempts hf a (dataItems bs) [] []
    obtain ⟨h1, h2⟩ := submitLoop_wm_all true maxSubmitAttempts a (dataItems bs) (fails ++ tail) []
    have hge := h1 hall
    rw [hlh, hdh] at hge
    obtain ⟨_, _, hinv, _⟩ := submitLoop_loopInv true maxSubmitAttempts a (dataItems bs) (fails ++ tail) []
    rw [hinv.frame.height]
    have hge' : a.n.store.height ≤ (submitLoop true maxSubmitAttempts a (dataItems bs) (fails ++ tail) [] []).1.n.dataWm := hge
    rcases h2 with e | ⟨l, hlm, e⟩
    · have e' : (submitLoop true maxSubmitAttempts a (dataItems bs) (fails ++ tail) [] []).1.n.dataWm = a.n.dataWm := e
      omega
    · have e' : (submitLoop true maxSubmitAttempts a (dataItems bs) (fails ++ tail) [] []).1.n.dataWm = l.height := e
      obtain ⟨k, b, k1, k2, hb, hbne', rfl⟩ := dataItems_mem hbs l hlm
      obtain ⟨b', hb', hh⟩ := hok k k1 k2
      rw [hb] at hb'
      have : b = b' := by simpa using hb'
      subst this
      have : dataHeight b = k := hh hbne'
      simp only at e'
      omega

/-! ### the deadlock -/

/-- production is refused, no header is pending, and all blocks above the data watermark are empty -/
structure Dead (c : Cfg) (a : ANode) : Prop where
  refuses : pendingRefuses c a.n = true
  hdr : a.n.store.height = a.n.hdrWm
  data : DataIdle a

theorem Dead.step {c : Cfg} {a : ANode} (d : Dead c a) (act : Act) :
    Dead c (stepA c a act) ∧ (stepA c a act).n.store.height = a.n.store.height := by
  cases act with
  | produce r e =>
    have : (publish c a.n r e).1 = a.n := by unfold publish; rw [if_pos d.refuses]
    have hst : stepA c a (.produce r e) = a := by
      show { a with n := (publish c a.n r e).1 } = a
      rw [this]
    rw [hst]; exact ⟨d, rfl⟩
  | subH s =>
    have : stepA c a (.subH s) = a := by show (headersIter a s).1 = a; rw [headersIter_idle d.hdr]
    rw [this]; exact ⟨d, rfl⟩
  | subD s =>
    have : stepA c a (.subD s) = a := (dataIter_idle d.data s).1
    rw [this]; exact ⟨d, rfl⟩
  | incl =>
    have hi : PassInv a (includerIter a).1 (includerIter a).2 :=
      includerPass_inv (a.n.store.height + 1) a a [] (PassInv.init a)
    have h1 : (includerIter a).1.n.store.height = a.n.store.height := hi.frame.height
    have h2 : (includerIter a).1.n.hdrWm = a.n.hdrWm := hi.frame.hdrWm
    have h3 : (includerIter a).1.n.dataWm = a.n.dataWm := hi.frame.dataWm
    refine ⟨⟨?_, ?_, ?_⟩, h1⟩
    · show pendingRefuses c (includerIter a).1.n = true
      have := d.refuses
      unfold pendingRefuses at this ⊢
      rw [h1, h2, h3]; exact this
    · show (includerIter a).1.n.store.height = (includerIter a).1.n.hdrWm
      rw [h1, h2]; exact d.hdr
    · intro h ha hb
      have ha' : a.n.dataWm < h := by rw [← h3]; exact ha
      have hb' : h ≤ a.n.store.height := by rw [← h1]; exact hb
      obtain ⟨b, r1, r2⟩ := d.data h ha' hb'
      exact ⟨b, by show (includerIter a).1.n.store.getBlock h = _; rw [hi.frame.getBlock]; exact r1, r2⟩

/-- **a dead node stays dead for ever**: whatever the sequencer, the DA layer and the scheduler do, production is
refused and the chain height never changes again -/
theorem Dead.forever {c : Cfg} {a : ANode} (d : Dead c a) (acts : List Act) :
    Dead c (runA c a acts) ∧ (runA c a acts).n.store.height = a.n.store.height := by
  induction acts generalizing a with
  | nil => exact ⟨d, rfl⟩
  | cons act acts ih =>
    obtain ⟨d', h'⟩ := d.step act
    obtain ⟨d'', h''⟩ := ih d'
    exact ⟨d'', h''.trans h'⟩

end Submit
