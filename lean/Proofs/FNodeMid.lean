import Proofs.FNodeInc
import Proofs.FNodeWitness

/-!
# The DA includer inside a block application (`FullNode.midView`, `FullNode.runInc`)

`trySyncNextBlock` writes the block, the state and the chain height in this order; the includer may run between any
two of these writes.  Its guard `height ≤ store height` (`Submit.isDAIncluded`) is what keeps the DA-included height
at or below the chain height at every such boundary; with the guard relaxed by one (`isDAIncludedRelaxed`) a block
that is saved but not applied is finalized (kernel-checked witnesses).
-/

namespace FullNode
open Wire Chain Sync Retrieve Submit

theorem height_le_apply (s : Store) (w : SW) : s.height ≤ (s.apply w).height := by
  cases w with
  | setHeight h => simp only [Store.apply]; split <;> simp_all <;> omega
  | _ => exact Nat.le_refl _

theorem height_le_applyAll (ws : List SW) (s : Store) : s.height ≤ (s.applyAll ws).height := by
  induction ws generalizing s with
  | nil => exact Nat.le_refl _
  | cons w ws ih => exact Nat.le_trans (height_le_apply s w) (ih (s.apply w))

/-- one includer pass on ANY view whose DA-included height is at most its store height: the DA-included height stays
at most the (unchanged) store height, the new `SetFinal` calls are exactly the heights `old+1 … new`, all of them at
most the store height, and the persisted value is the new height -/
theorem includer_le_height (v : ANode) (hle : v.daInc ≤ v.n.store.height) :
    (includerIter v).1.daInc ≤ v.n.store.height ∧ (includerIter v).1.n.store.height = v.n.store.height ∧
    (∃ l, (includerIter v).1.finals = l ++ v.finals ∧ ∀ h ∈ l, v.daInc < h ∧ h ≤ v.n.store.height) ∧
    (v.daInc < (includerIter v).1.daInc →
      (includerIter v).1.n.store.getMeta daIncKey = some (le64 (includerIter v).1.daInc)) := by
  have hi : PassInv v (includerIter v).1 (includerIter v).2 :=
    includerPass_inv (v.n.store.height + 1) v v [] (PassInv.init v)
  have hh := hi.frame.height
  have hl := hi.le hle
  rw [hh] at hl
  refine ⟨hl, hh, ⟨_, hi.finals, ?_⟩, fun h => (hi.persisted h).1⟩
  intro h hm
  rw [List.mem_reverse, List.mem_range'_1] at hm
  omega

end FullNode
