import Proofs.FNodeConv

/-!
# The DA-included height of a full node (C07, the side "observed on the DA layer")

`run_includes`: a run whose scan starts at the DA start height and reaches the head of the DA layer marks every
accepted blob it passes — whether or not the node has seen (applied) the block before — and the includer then
reports every height the node holds whose parts are all on the DA layer.
-/
namespace FullNode
open Wire Chain Sync Retrieve Submit

variable {C : Cfg} {ch : PChain} {top h0 : Nat} {evs : List Ev} {lv gr : Bool}

theorem markOf_isSome_of_mem {m : List (Bytes × Nat)} {k : Bytes} {a : Nat} (h : (k, a) ∈ m) :
    (markOf m k).isSome = true := by
  unfold markOf
  cases hf : m.find? (·.1 = k) with
  | some x => rfl
  | none =>
    have := List.find?_eq_none.mp hf (k, a) h
    simp at this

theorem marksOf_eq (C : Cfg) (nd : Node) (v : DAView) :
    marksOf C nd v = ((scanOf C nd v).1.hMarks, (scanOf C nd v).1.dMarks) := rfl

/-- **eventually, full node**: after a run whose scan started at the DA start height, was never answered "not
found" and reached the head of the DA layer, every height `h` the node holds such that both parts of every block up
to `h` are on the DA layer (at or above the DA start height) is reported as DA-included — no matter whether the
node had applied those blocks before it saw their blobs (P2P first), and no matter what a crash did to its marks
before the restart. -/
theorem run_includes (g : GoodChain C.sync ch top) (dc : lv = true → DistinctCommitments ch) {s : HSt}
    (hi : HInv lv gr C ch h0 evs s) (hcur : s.nd.cursor = C.daStart)
    (hnf : ∀ a, Fetch.notFound ∉ s.v.scriptAt a)
    (hreach : s.v.top ≤ (hstep C s .run).nd.cursor)
    (h : Nat) (hh : h ≤ (hstep C s .run).nd.full.store.height)
    (hon : ∀ k, C.sync.initialHeight ≤ k → k ≤ h → OnDA C ch s.v k) :
    h ≤ (hstep C s .run).daInc := by
  have hs1 := scan_step g dc hi (scanOf C s.nd s.v).2.2.1 (fun e he => he)
  rw [hstep_run_eq hi.ok] at hreach hh ⊢
  obtain ⟨f1, _, f3, _⟩ := includeSt_frame
    { s with nd := { full := (feed C s.nd.full (scanOf C s.nd s.v).2.2.1).1, cursor := (scanOf C s.nd s.v).1.daHeight },
             v := (scanOf C s.nd s.v).2.1, before := s.nd.full.store,
             ws := (feed C s.nd.full (scanOf C s.nd s.v).2.2.1).2,
             hMarks := (marksOf C s.nd s.v).1 ++ s.hMarks, dMarks := (marksOf C s.nd s.v).2 ++ s.dMarks }
  rw [f1] at hreach
  rw [f3] at hh
  simp only at hreach hh
  generalize hF : feed C s.nd.full (scanOf C s.nd s.v).2.2.1 = F at hs1 hh ⊢
  show h ≤ (includerIter (toA F.1.store ((marksOf C s.nd s.v).1 ++ s.hMarks) ((marksOf C s.nd s.v).2 ++ s.dMarks)
    s.daInc s.finals)).1.daInc
  unfold includerIter
  apply includerPass_reaches
  · intro k k1 k2
    have k1' : s.daInc < k := k1
    have hk1 : C.sync.initialHeight ≤ k := by have := hi.incGe; omega
    have hkH : k ≤ F.1.store.height := by omega
    obtain ⟨b, sb, x1, x2, x3⟩ := hs1.safe.chain k hk1 hkH
    obtain ⟨s1, _, s3, _⟩ := x3
    obtain ⟨blk, hb, ⟨p, hp, hpd, w, hc, hwk⟩, hdat⟩ := hon k hk1 k2
    rw [x1] at hb; cases hb
    have hbelow := hi.view.below p hp
    obtain ⟨kk, hkk⟩ := trace_passed (scanOf_trace C s.nd s.v) (a := p.1) (by omega) (by omega)
    obtain ⟨_, mh, md⟩ := scan_handoff C.sync.proposerAddr (scanFuel s.nd.cursor s.v.top) (rnodeOf s.nd) s.v p.1 kk
      s.nd.full.seenH s.nd.full.seenD rfl rfl hkk (hnf _)
    refine ready_of_marked (b := sb) hkH x2 ?_ ?_
    · -- the header mark
      obtain ⟨blk', hbk', hsh⟩ := (hi.view.blobs p hp).1 w hc
      rw [hwk, x1] at hbk'; cases hbk'
      have hhash : w.header.hash = sb.sh.hdr.hash := by rw [s1, ← hsh, toSH_hdr]
      have hm : (w.header.hash, p.1) ∈ (scanOf C s.nd s.v).1.hMarks := by
        apply mh
        refine List.mem_filterMap.mpr ⟨p.2, mem_blobsAt.mpr ⟨p, hp, rfl, rfl⟩, ?_⟩
        unfold hMarkOf; rw [hc]
      apply markOf_isSome_of_mem (a := p.1)
      show (sb.sh.hdr.hash, p.1) ∈ (marksOf C s.nd s.v).1 ++ s.hMarks
      rw [← hhash, marksOf_eq]
      exact List.mem_append_left _ hm
    · -- the data mark
      have hcm : sb.data.daCommitment = b.data.daCommitment := daCommitment_txs s3
      rcases hdat with he | ⟨q, hq, hqd, sd, m, hcd, hm, hmk⟩
      · left
        rw [hcm, (g.facts x1).dataHash]; exact he
      · right
        have hqb := hi.view.below q hq
        obtain ⟨m', blk', hm', hbk', hsd⟩ := (hi.view.blobs q hq).2 sd hcd
        rw [hm] at hm'; cases hm'
        rw [hmk, x1] at hbk'; cases hbk'
        obtain ⟨kq, hkq⟩ := trace_passed (scanOf_trace C s.nd s.v) (a := q.1) (by omega) (by omega)
        obtain ⟨_, _, md'⟩ := scan_handoff C.sync.proposerAddr (scanFuel s.nd.cursor s.v.top) (rnodeOf s.nd) s.v q.1 kq
          s.nd.full.seenH s.nd.full.seenD rfl rfl hkq (hnf _)
        have hmm : (sd.data.daCommitment, q.1) ∈ (scanOf C s.nd s.v).1.dMarks := by
          apply md'
          refine List.mem_filterMap.mpr ⟨q.2, mem_blobsAt.mpr ⟨q, hq, rfl, rfl⟩, ?_⟩
          unfold dMarkOf; rw [hcd]
        apply markOf_isSome_of_mem (a := q.1)
        show (sb.data.daCommitment, q.1) ∈ (marksOf C s.nd s.v).2 ++ s.dMarks
        rw [hcm, ← hsd, marksOf_eq]
        exact List.mem_append_left _ hmm
  · show h - s.daInc ≤ F.1.store.height + 1
    omega

/-- under `DistinctCommitments`, "on the DA layer by hash / commitment" is "on the DA layer by height" -/
theorem incOnDA_onDA (g : GoodChain C.sync ch top) (dc : DistinctCommitments ch) {v : DAView} (hv : ViewOK C ch v)
    {k : Nat} (h : IncOnDA C ch v k) : OnDA C ch v k := by
  obtain ⟨b, hb, ⟨p, hp, hpd, w, hc, hw⟩, hdat⟩ := h
  refine ⟨b, hb, ?_, ?_⟩
  · obtain ⟨blk', hbk', hsh⟩ := (hv.blobs p hp).1 w hc
    have hhash : blk'.sh.hdr.hash = b.sh.hdr.hash := by rw [← hw, ← hsh, toSH_hdr]
    have := dc.hashInj _ _ _ _ hbk' hb hhash
    exact ⟨p, hp, hpd, w, hc, this⟩
  · rcases hdat with he | ⟨q, hq, hqd, sd, hcd, hcm⟩
    · exact Or.inl he
    · by_cases he : IsEmpty b
      · exact Or.inl he
      · right
        obtain ⟨m, blk', hm, hbk', hsd⟩ := (hv.blobs q hq).2 sd hcd
        have hne' : ¬ IsEmpty blk' := by
          intro h'
          have := (g.empty_iff hbk').mp h'
          rw [← hsd] at this
          exact accepted_data_nonempty hcd this
        have hcm' : blk'.data.daCommitment = b.data.daCommitment := by rw [← hsd]; exact hcm
        have := dc.dcInj _ _ _ _ hbk' hb hne' he hcm'
        exact ⟨q, hq, hqd, sd, m, hcd, hm, this⟩

/-! ## the P2P stores -/

/-- block `k` is in the node's P2P stores at store height `k`: its header (admitted by
`isUsingExpectedSingleSequencer`) in the header store and, unless the block is empty, its data in the data store -/
def InStores (C : Cfg) (ch : PChain) (s : HSt) (k : Nat) : Prop :=
  ∃ b, ch k = some b ∧
    (∃ w o, s.hStore[k - C.sync.initialHeight]? = some (w, o) ∧ p2pAdmit o C.sync.proposerAddr w = true ∧
      toSH C.key w = b.sh) ∧
    (IsEmpty b ∨ s.dStore[k - C.sync.initialHeight]? = some b.data)

/-- **convergence over the P2P stores**: both store loops have polled up to the store heights and everything is
quiescent; then the node holds every height `h` such that all blocks up to `h` are in its P2P stores -/
theorem p2p_converges (g : GoodChain C.sync ch top) {s : HSt} (hi : HInv true gr C ch h0 evs s)
    (hc : s.hCur = C.sync.initialHeight - 1 + s.hStore.length) (dc' : s.dCur = C.sync.initialHeight - 1 + s.dStore.length)
    (h : Nat) (hin : ∀ k, C.sync.initialHeight ≤ k → k ≤ h → InStores C ch s k) : h ≤ s.nd.full.store.height := by
  have hinv : Inv C.sync ch h0 evs (eraseN s.nd.full) := ⟨hi.safe, (hi.live rfl).1, (hi.live rfl).2⟩
  have hheight : (eraseN s.nd.full).store.height = s.nd.full.store.height := rfl
  have hpos := g.ihPos
  have hconv := hinv.converges h (fun k a b => by
    by_cases hk : k ≤ s.nd.full.store.height
    · exact hi.safe.sound k a (by rw [hheight]; exact hk)
    · have hge : h0 ≤ (eraseN s.nd.full).store.height := hi.safe.ge
      have hlow := hi.p2p.low
      have hk1 : C.sync.initialHeight ≤ k := by omega
      obtain ⟨blk, hb, ⟨w, o, hw, ha, hsh⟩, hdat⟩ := hin k hk1 b
      have hlen : k - C.sync.initialHeight < s.hStore.length := by
        have := (List.getElem?_eq_some_iff.mp hw).1; exact this
      have e1 := hi.p2p.hdr k (by omega) (by rw [hc]; omega) w o hw ha
      have hwk : w.header.height = k := by
        have : (toSH C.key w).hdr = blk.sh.hdr := by rw [hsh]
        rw [toSH_hdr] at this
        rw [this]; exact (g.facts hb).height
      rw [hwk] at e1
      refine ⟨blk, hb, e1, ?_⟩
      by_cases he : IsEmpty blk
      · exact Or.inl he
      · rcases hdat with he' | hd
        · exact absurd he' he
        · right
          have hlen' : k - C.sync.initialHeight < s.dStore.length := (List.getElem?_eq_some_iff.mp hd).1
          have e2 := hi.p2p.dat k (by omega) (by rw [dc']; omega) blk.data hd
          have hne : blk.data.txs ≠ [] := fun h' => he ((g.empty_iff hb).mpr h')
          cases hm : blk.data.metadata with
          | none => exact absurd hm (g.hasMeta k blk hb hne)
          | some m =>
            rw [hm] at e2
            simp only [Option.map_some, Option.getD_some] at e2
            rw [(g.facts hb).metaH m hm] at e2
            exact e2)
  rw [hheight] at hconv
  exact hconv

end FullNode
