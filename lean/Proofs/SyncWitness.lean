import Proofs.SyncCrash

/-!
# Decidable checkers for `GoodChain` / `DistinctCommitments` on a finite chain, and the concrete
witness chain used by `Spec/C02` and `Spec/C05` (built by the **producer model** from a fresh start).
All concrete facts are established by one kernel evaluation (`wFacts`).
-/
namespace Sync
open Wire Chain

/-- restriction of a block lookup to the heights `[lo, top]` -/
def clip (lo top : Nat) (f : Nat → Option Block) : PChain := fun k => if lo ≤ k ∧ k ≤ top then f k else none

/-- the per-block obligations of `GoodChain`, decidable -/
def CheckBlock (c : Cfg) (ch : PChain) (k : Nat) : Prop :=
  match ch k with
  | some b => execValidate (stateAt c ch (k - 1)) b.sh b.data = none ∧ (IsEmpty b → b.data.txs = []) ∧
              (b.data.txs ≠ [] → b.data.metadata ≠ none)
  | none => False

instance (c : Cfg) (ch : PChain) (k : Nat) : Decidable (CheckBlock c ch k) := by
  unfold CheckBlock; split <;> infer_instance

theorem goodChain_of_check (c : Cfg) (f : Nat → Option Block) (top : Nat) (hpos : 1 ≤ c.initialHeight)
    (h : ∀ k, k ≤ top → c.initialHeight ≤ k → CheckBlock c (clip c.initialHeight top f) k) :
    GoodChain c (clip c.initialHeight top f) top := by
  have dom : ∀ k b, clip c.initialHeight top f k = some b → c.initialHeight ≤ k ∧ k ≤ top := by
    intro k b hk
    unfold clip at hk
    split at hk
    · assumption
    · cases hk
  have get : ∀ k b, clip c.initialHeight top f k = some b →
      execValidate (stateAt c (clip c.initialHeight top f) (k - 1)) b.sh b.data = none ∧ (IsEmpty b → b.data.txs = []) ∧
      (b.data.txs ≠ [] → b.data.metadata ≠ none) := by
    intro k b hk
    have := h k (dom k b hk).2 (dom k b hk).1
    unfold CheckBlock at this
    rw [hk] at this
    exact this
  refine ⟨hpos, dom, ?_, fun k b hk => (get k b hk).1, fun k b hk => (get k b hk).2.1, fun k b hk => (get k b hk).2.2⟩
  intro k h1 h2
  have := h k h2 h1
  unfold CheckBlock at this
  cases hk : clip c.initialHeight top f k with
  | none => rw [hk] at this; exact this.elim
  | some b => exact ⟨b, rfl⟩

def CheckDistinct (ch : PChain) (top : Nat) : Prop :=
  ∀ j, j ≤ top → ∀ k, k ≤ top →
    match ch j, ch k with
    | some bj, some bk => (bj.sh.hdr.hash = bk.sh.hdr.hash → j = k) ∧
        (¬ IsEmpty bj → ¬ IsEmpty bk → bj.data.daCommitment = bk.data.daCommitment → j = k)
    | _, _ => True

instance (ch : PChain) (top : Nat) : Decidable (CheckDistinct ch top) := by
  unfold CheckDistinct
  have : ∀ j k, Decidable (match ch j, ch k with
    | some bj, some bk => (bj.sh.hdr.hash = bk.sh.hdr.hash → j = k) ∧
        (¬ IsEmpty bj → ¬ IsEmpty bk → bj.data.daCommitment = bk.data.daCommitment → j = k)
    | _, _ => True) := by
    intro j k; split <;> infer_instance
  infer_instance

theorem distinct_of_check (lo top : Nat) (f : Nat → Option Block) (h : CheckDistinct (clip lo top f) top) :
    DistinctCommitments (clip lo top f) := by
  have dom : ∀ k b, clip lo top f k = some b → k ≤ top := by
    intro k b hk
    unfold clip at hk
    split at hk
    · rename_i hh; exact hh.2
    · cases hk
  constructor
  · intro j k bj bk hj hk e
    have := h j (dom j bj hj) k (dom k bk hk)
    rw [hj, hk] at this
    exact this.1 e
  · intro j k bj bk hj hk nj nk e
    have := h j (dom j bj hj) k (dom k bk hk)
    rw [hj, hk] at this
    exact this.2 nj nk e

/-! ## the witness chain -/

def wP : Producer.Cfg :=
  { chainId := "w", initialHeight := 1, genesisTime := 100, proposerAddr := [1], key := 1, signerAddr := [1] }
def wC : Cfg := { chainId := "w", initialHeight := 1, genesisTime := 100, proposerAddr := [1] }

/-- the sequencer node after four blocks: block 1 empty, blocks 2 and 4 with **the same transaction list** -/
def wProd : Producer.Node := Producer.run wP (Producer.freshNode wP)
  [(.batch [] 150 [], .ok), (.batch [[7]] 200 [], .ok), (.batch [[8]] 300 [], .ok), (.batch [[7]] 400 [], .ok)]

/-- its chain, heights 1–4 -/
def wch : PChain := clip 1 4 wProd.store.getBlock
/-- the first three blocks (no repeated transaction list) -/
def wch3 : PChain := clip 1 3 wProd.store.getBlock

def wInOrder : List Ev := [.hdr 1, .dat 1, .hdr 2, .dat 2, .hdr 3, .dat 3, .hdr 4, .dat 4]
def wShuffled : List Ev := [.dat 3, .hdr 3, .dat 2, .hdr 2, .hdr 3, .dat 2, .hdr 1]

/-- the store holds at height `k` exactly what the proposer committed there: signed header, signature and
transaction list (decidable form of `SameBlock` without the data clause) -/
def holdsBlock (ch : PChain) (s : Store) (k : Nat) : Bool :=
  match ch k, s.getBlock k with
  | some b, some sb => decide (sb.sh = b.sh ∧ sb.savedSig = b.sh.sig ∧ sb.data.txs = b.data.txs)
  | _, _ => false

/-- the store holds the whole witness chain `wch3` -/
def holdsChain3 (s : Store) : Bool := holdsBlock wch3 s 1 && holdsBlock wch3 s 2 && holdsBlock wch3 s 3

/-- crash scenario of C05 (the witness of the defect repaired by /repo 99e45dc): header 1 and data 2 delivered,
then header 2 arrives and the process dies after the first write of applying block 2.  Before the repair that
write was the state (state of height 2 without block 2, for ever); now it is the block. -/
def wBefore : FNode := run wC wch3 [.hdr 1, .dat 2]
def wImage : Store := wBefore.store.applyPrefix 1 (deliver wch3 wBefore (.hdr 2)).2
def wAll : List Op := [.ev (.hdr 1), .ev (.dat 1), .ev (.hdr 2), .ev (.dat 2), .ev (.hdr 3), .ev (.dat 3)]
/-- the node restarted on the image, after everything has been delivered again -/
def wAfter : Option FNode := (boot wC wImage).map fun p => runFrom wC wch3 p.1 wAll

/-- the same step, crash after the second write (block and state written, chain height not yet raised): the
only remaining window in which the state is ahead of the stored chain height -/
def wImageS : Store := wBefore.store.applyPrefix 2 (deliver wch3 wBefore (.hdr 2)).2
def wAfterS : Option FNode := (boot wC wImageS).map fun p => runFrom wC wch3 p.1 wAll

/-- the same crash window at the initial height: header 1 (an empty block) arrives at the fresh node and the
process dies after the first write of applying block 1 -/
def wImage1 : Store := (fresh wC).store.applyPrefix 1 (deliver wch3 (fresh wC) (.hdr 1)).2
def wAfter1 : Option FNode := (boot wC wImage1).map fun p => runFrom wC wch3 p.1 wAll

set_option maxRecDepth 100000 in
theorem wFacts :
    (∀ k, k ≤ 4 → wC.initialHeight ≤ k → CheckBlock wC wch k) ∧
    (run wC wch wInOrder).store.height = 3 ∧
    ready wC wch 4 wInOrder = 4 ∧
    (∀ k, k ≤ 3 → wC.initialHeight ≤ k → CheckBlock wC wch3 k) ∧
    CheckDistinct wch3 3 ∧
    ready wC wch3 3 wShuffled = 3 ∧
    (wProd.store.height = 4 ∧ (wch 2).map (·.data.txs) = some [[7]] ∧ (wch 4).map (·.data.txs) = some [[7]]) := by
  decide +kernel

set_option maxRecDepth 100000 in
set_option synthInstance.maxSize 1024 in
theorem wCrashFacts :
    ((deliver wch3 wBefore (.hdr 2)).2.length = 3 ∧ wBefore.store.height = 1 ∧
     recHeight wC wImage = 1 ∧ wImage.height = 1 ∧ holdsBlock wch3 wImage 2 = true ∧
     (boot wC wImage).map (fun p => (p.1.store.height, p.1.lastState.lastHeight)) = some (1, 1) ∧
     wAfter.map (fun n => (n.store.height, n.lastState.lastHeight, holdsChain3 n.store, n.alive)) = some (3, 3, true, true)) ∧
    (recHeight wC wImageS = 2 ∧ wImageS.height = 1 ∧ holdsBlock wch3 wImageS 2 = true ∧
     (boot wC wImageS).map (fun p => (p.1.store.height, p.1.lastState.lastHeight)) = some (2, 2) ∧
     wAfterS.map (fun n => (n.store.height, n.lastState.lastHeight, holdsChain3 n.store, n.alive)) = some (3, 3, true, true)) ∧
    (recHeight wC wImage1 = 0 ∧ holdsBlock wch3 wImage1 1 = true ∧
     (wch3 1).map (·.sh.sig.isEmpty) = some false ∧
     (boot wC wImage1).map (fun p => (p.1.store.height, p.1.lastState.lastHeight)) = some (0, 0) ∧
     wAfter1.map (fun n => (n.store.height, n.lastState.lastHeight, holdsChain3 n.store,
       (n.store.getBlock 1).map (·.sh.sig.isEmpty), n.alive)) = some (3, 3, true, some false, true)) := by
  decide +kernel

theorem wf_check4 : ∀ k, k ≤ 4 → wC.initialHeight ≤ k → CheckBlock wC wch k := wFacts.1
theorem wf_stall : (run wC wch wInOrder).store.height = 3 := wFacts.2.1
theorem wf_ready4 : ready wC wch 4 wInOrder = 4 := wFacts.2.2.1
theorem wf_check3 : ∀ k, k ≤ 3 → wC.initialHeight ≤ k → CheckBlock wC wch3 k := wFacts.2.2.2.1
theorem wf_distinct3 : CheckDistinct wch3 3 := wFacts.2.2.2.2.1
theorem wf_readyShuffled : ready wC wch3 3 wShuffled = 3 := wFacts.2.2.2.2.2.1
theorem wf_chain : wProd.store.height = 4 ∧ (wch 2).map (·.data.txs) = some [[7]] ∧
    (wch 4).map (·.data.txs) = some [[7]] := wFacts.2.2.2.2.2.2
theorem wf_crash : (deliver wch3 wBefore (.hdr 2)).2.length = 3 ∧ wBefore.store.height = 1 ∧
    recHeight wC wImage = 1 ∧ wImage.height = 1 ∧ holdsBlock wch3 wImage 2 = true ∧
    (boot wC wImage).map (fun p => (p.1.store.height, p.1.lastState.lastHeight)) = some (1, 1) ∧
    wAfter.map (fun n => (n.store.height, n.lastState.lastHeight, holdsChain3 n.store, n.alive)) = some (3, 3, true, true) :=
  wCrashFacts.1
theorem wf_crashS : recHeight wC wImageS = 2 ∧ wImageS.height = 1 ∧ holdsBlock wch3 wImageS 2 = true ∧
    (boot wC wImageS).map (fun p => (p.1.store.height, p.1.lastState.lastHeight)) = some (2, 2) ∧
    wAfterS.map (fun n => (n.store.height, n.lastState.lastHeight, holdsChain3 n.store, n.alive)) = some (3, 3, true, true) :=
  wCrashFacts.2.1
theorem wf_crash1 : recHeight wC wImage1 = 0 ∧ holdsBlock wch3 wImage1 1 = true ∧
    (wch3 1).map (·.sh.sig.isEmpty) = some false ∧
    (boot wC wImage1).map (fun p => (p.1.store.height, p.1.lastState.lastHeight)) = some (0, 0) ∧
    wAfter1.map (fun n => (n.store.height, n.lastState.lastHeight, holdsChain3 n.store,
      (n.store.getBlock 1).map (·.sh.sig.isEmpty), n.alive)) = some (3, 3, true, some false, true) :=
  wCrashFacts.2.2

/-! ## junk data (unauthenticated P2P data) and stale cache files: the witnesses of the defects repaired by
/repo 4bb2ed2 and 1fa5e4f, and of what remains -/

/-- decidable form of `JunkData` -/
def checkJunk (ch : PChain) (d : Data) : Bool :=
  match d.metadata with
  | none => true
  | some m => match ch m.height with
    | none => true
    | some b => (validateData b.sh d).isSome

theorem junkData_of_check {ch : PChain} {d : Data} (h : checkJunk ch d = true) : JunkData ch d := by
  intro m hm b hb hv
  simp only [checkJunk, hm, hb, hv] at h
  cases h

/-- what anybody can gossip for height 2: the genuine metadata of block 2 (chain id, height, time, last data hash)
with another transaction -/
def wJunk2 : Data := match wch3 2 with
  | some b => { b.data with txs := [[122]] }
  | none => {}

/-- the former halt: header 1, junk data for height 2, then the genuine header 2 (before /repo 4bb2ed2 the loop
terminated here); then the genuine data and block 3 -/
def wJunkOps : List JOp := [.op (.ev (.hdr 1)), .junk wJunk2, .op (.ev (.hdr 2))]
def wJunkRest : List JOp := [.op (.ev (.dat 2)), .op (.ev (.hdr 3)), .op (.ev (.dat 3))]

/-- what remains: the genuine data of block 2 is cached first, a junk item for height 2 replaces it (one slot per
height), header 2 arrives (the junk is dropped); block 3 arrives completely — the genuine data 2 is not delivered again -/
def wJunkStall : List JOp :=
  [.op (.ev (.hdr 1)), .op (.ev (.dat 2)), .junk wJunk2, .op (.ev (.hdr 2)), .op (.ev (.hdr 3)), .op (.ev (.dat 3))]

/-- a junk item that **copies the genuine transactions** of block 2 (so it has the genuine data commitment, which
ignores metadata) under a wrong time: `types.Validate` rejects it against header 2 -/
def wJunkSame2 : Data := match wch3 2 with
  | some b => { b.data with metadata := b.data.metadata.map fun m => { m with time := m.time + 1 } }
  | none => {}

/-- the defect repaired by /repo c3c43a6, both orders: the copy arrives before header 2 / after header 2; then the
genuine data 2 and block 3 -/
def wSameA : List JOp := [.op (.ev (.hdr 1)), .junk wJunkSame2, .op (.ev (.hdr 2)), .op (.ev (.dat 2)),
  .op (.ev (.hdr 3)), .op (.ev (.dat 3))]
def wSameB : List JOp := [.op (.ev (.hdr 1)), .op (.ev (.hdr 2)), .junk wJunkSame2, .op (.ev (.dat 2)),
  .op (.ev (.hdr 3)), .op (.ev (.dat 3))]

/-- stale cache files: header 1, header 3 and data 3 are delivered, the node is stopped cleanly (generation `wGen`
of the caches: header 3, data 3 cached and seen) and restarted; data 2 and header 2 arrive and blocks 2 and 3 are
applied — the process dies after 4 of the 6 writes (block 3 saved, its state not) -/
def wGen : FNode := runOps wC wch3 [.ev (.hdr 1), .ev (.hdr 3), .ev (.dat 3), .restart]
def wStaleBefore : FNode := runFrom wC wch3 wGen [.ev (.dat 2)]
def wStaleImage : Store := wStaleBefore.store.applyPrefix 4 (deliver wch3 wStaleBefore (.hdr 2)).2

set_option maxRecDepth 100000 in
set_option synthInstance.maxSize 1024 in
theorem wJunkFacts :
    (checkJunk wch3 wJunk2 = true ∧
     (runJ wC wch3 wJunkOps).alive = true ∧ (runJ wC wch3 wJunkOps).store.height = 1 ∧
     (runJ wC wch3 (wJunkOps ++ wJunkRest)).store.height = 3 ∧ holdsChain3 (runJ wC wch3 (wJunkOps ++ wJunkRest)).store = true) ∧
    ((runJ wC wch3 wJunkStall).store.height = 1 ∧ (runJ wC wch3 wJunkStall).alive = true ∧
     ready wC wch3 3 (evsOf (opsOf wJunkStall)) = 3 ∧
     (runJ wC wch3 (wJunkStall ++ [.op (.ev (.dat 2))])).store.height = 3 ∧
     checkJunk wch3 wJunkSame2 = true ∧
     (wch3 2).map (·.data.daCommitment) = some wJunkSame2.daCommitment ∧
     (runJ wC wch3 wSameA).store.height = 3 ∧ holdsChain3 (runJ wC wch3 wSameA).store = true ∧
     (runJ wC wch3 wSameB).store.height = 3 ∧ holdsChain3 (runJ wC wch3 wSameB).store = true) ∧
    ((deliver wch3 wStaleBefore (.hdr 2)).2.length = 6 ∧ wGen.store.height = 1 ∧ recHeight wC wStaleImage = 2 ∧
     (start wC wStaleImage wGen).map (fun p => (p.1.store.height, decide (3 ∈ keysH p.1 ∧ 3 ∈ keysD p.1),
       (runFrom wC wch3 p.1 [.ev (.hdr 1), .ev (.hdr 2), .ev (.hdr 3)]).store.height)) = some (2, true, 2) ∧
     (boot wC wStaleImage wGen).map (fun p => (p.1.store.height, p.1.lastState.lastHeight, holdsChain3 p.1.store, p.1.alive))
       = some (3, 3, true, true)) := by
  decide +kernel

theorem wf_junk : checkJunk wch3 wJunk2 = true ∧
    (runJ wC wch3 wJunkOps).alive = true ∧ (runJ wC wch3 wJunkOps).store.height = 1 ∧
    (runJ wC wch3 (wJunkOps ++ wJunkRest)).store.height = 3 ∧
    holdsChain3 (runJ wC wch3 (wJunkOps ++ wJunkRest)).store = true := wJunkFacts.1
theorem wf_junkStall : (runJ wC wch3 wJunkStall).store.height = 1 ∧ (runJ wC wch3 wJunkStall).alive = true ∧
    ready wC wch3 3 (evsOf (opsOf wJunkStall)) = 3 ∧
    (runJ wC wch3 (wJunkStall ++ [.op (.ev (.dat 2))])).store.height = 3 ∧
    checkJunk wch3 wJunkSame2 = true ∧
    (wch3 2).map (·.data.daCommitment) = some wJunkSame2.daCommitment ∧
    (runJ wC wch3 wSameA).store.height = 3 ∧ holdsChain3 (runJ wC wch3 wSameA).store = true ∧
    (runJ wC wch3 wSameB).store.height = 3 ∧ holdsChain3 (runJ wC wch3 wSameB).store = true := wJunkFacts.2.1
theorem wf_stale : (deliver wch3 wStaleBefore (.hdr 2)).2.length = 6 ∧ wGen.store.height = 1 ∧
    recHeight wC wStaleImage = 2 ∧
    (start wC wStaleImage wGen).map (fun p => (p.1.store.height, decide (3 ∈ keysH p.1 ∧ 3 ∈ keysD p.1),
       (runFrom wC wch3 p.1 [.ev (.hdr 1), .ev (.hdr 2), .ev (.hdr 3)]).store.height)) = some (2, true, 2) ∧
    (boot wC wStaleImage wGen).map (fun p => (p.1.store.height, p.1.lastState.lastHeight, holdsChain3 p.1.store, p.1.alive))
      = some (3, 3, true, true) := wJunkFacts.2.2

end Sync
