import Proofs.CrashStart

/-!
# Histories of production steps and crashes (C04)

`Op` is one event in the life of the node: a production step (with the answers of the sequencing and execution
layers) or a crash.  `crash k` means: of the durable writes of the *last* operation (a step, or the restart after
an earlier crash) only the first `k` reached the disk, then the process died and was restarted (`Producer.start`)
on that image.  `k ≥` the number of writes is a crash between two operations; crashes may follow each other, which
gives crashes during recovery at any nesting depth.
-/
namespace Producer
open Wire Chain

inductive Op
  | step (r : SeqResp) (e : ExecResp)
  | crash (k : Nat)
  deriving Inhabited

/-- state of a history: the durable image before the last operation, the durable writes of the last operation
(in order), and the in-memory node after it -/
structure RunSt where
  base : Store
  ws : List SW
  node : Node
  deriving Inhabited

/-- the node after `NewManager` on an empty disk -/
def initSt (c : Cfg) : RunSt := { base := {}, ws := freshWrites c, node := freshNode c }

def opStep (c : Cfg) (σ : RunSt) : Op → Except StartErr RunSt
  | .step r e => .ok { base := σ.node.store, ws := (publish c σ.node r e).2.1, node := (publish c σ.node r e).1 }
  | .crash k =>
    match start c (σ.base.applyPrefix k σ.ws) with
    | .error err => .error err
    | .ok (n, ws) => .ok { base := σ.base.applyPrefix k σ.ws, ws := ws, node := n }

def runOps (c : Cfg) : RunSt → List Op → Except StartErr RunSt
  | σ, [] => .ok σ
  | σ, op :: rest =>
    match opStep c σ op with
    | .error err => .error err
    | .ok σ' => runOps c σ' rest

theorem runOps_append {c : Cfg} {σ σ1 : RunSt} {a : List Op} (b : List Op) (h : runOps c σ a = .ok σ1) :
    runOps c σ (a ++ b) = runOps c σ1 b := by
  induction a generalizing σ with
  | nil => simp only [runOps, Except.ok.injEq] at h; subst h; rfl
  | cons op a ih =>
    simp only [runOps, List.cons_append] at h ⊢
    split at h
    · cases h
    · rename_i σ' hop
      exact ih h

/-- the invariant of histories -/
structure Good (c : Cfg) (σ : RunSt) : Prop where
  live : Live c σ.node
  synced : Synced c σ.node
  wm : WmOK σ.node.store
  store : σ.node.store = σ.base.applyAll σ.ws
  cuts : ∀ k, DInv c (σ.base.applyPrefix k σ.ws)
  adv : ∀ k, Adv c σ.base (σ.base.applyPrefix k σ.ws)

theorem Good.inv {c : Cfg} {σ : RunSt} (hg : Good c σ) : Inv c σ.node := hg.live.toInv

theorem good_of_start {c : Cfg} {d : Store} (hd : DInv c d) :
    ∃ n ws, start c d = .ok (n, ws) ∧ Good c { base := d, ws := ws, node := n } := by
  obtain ⟨n, ws, hst, a1, a2, a3, a4, a5, a6, _⟩ := start_of_dinv hd
  exact ⟨n, ws, hst, ⟨a1, a2, a3, a4, a5, a6⟩⟩

theorem good_init (c : Cfg) (hpos : 1 ≤ c.initialHeight) : Good c (initSt c) := by
  obtain ⟨n, ws, hst, hg⟩ := good_of_start (dinv_empty c hpos)
  rw [start_empty] at hst
  simp only [Except.ok.injEq, Prod.mk.injEq] at hst
  obtain ⟨rfl, rfl⟩ := hst
  exact hg

/-- the transitive hull of `Adv`: the height never decreases and no block at or below it ever changes -/
def Ext (d d' : Store) : Prop := d.height ≤ d'.height ∧ ∀ h, h ≤ d.height → d'.getBlock h = d.getBlock h

theorem Ext.refl (d : Store) : Ext d d := ⟨Nat.le_refl _, fun _ _ => rfl⟩
theorem Ext.trans {a b d : Store} (h1 : Ext a b) (h2 : Ext b d) : Ext a d :=
  ⟨Nat.le_trans h1.1 h2.1, fun h hh => by rw [h2.2 h (Nat.le_trans hh h1.1), h1.2 h hh]⟩
theorem Adv.ext {c : Cfg} {d d' : Store} (h : Adv c d d') : Ext d d' := ⟨h.1, h.2.2⟩

theorem good_store_adv {c : Cfg} {σ : RunSt} (hg : Good c σ) : Adv c σ.base σ.node.store := by
  have := hg.adv σ.ws.length
  rw [applyPrefix_all _ _ _ (Nat.le_refl _), ← hg.store] at this
  exact this

/-- one operation from a good state — a step with any answers, or a crash after **any** number of the writes of the
last operation: the node is alive afterwards, the state is good again, and the durable image advanced by at most one
height without touching a committed block -/
theorem opStep_good {c : Cfg} {σ : RunSt} (hg : Good c σ) (op : Op) :
    ∃ σ', opStep c σ op = .ok σ' ∧ Good c σ' ∧ Adv c σ.base σ'.base := by
  cases op with
  | step r e =>
    obtain ⟨s1, s2, s3⟩ := publish_synced hg.live hg.synced hg.wm r e
    refine ⟨_, rfl, ⟨publish_live hg.live r e, s1, s2, s3, ?_, ?_⟩, good_store_adv hg⟩
    · intro k; exact (publish_prefix hg.live hg.synced hg.wm r e k).2
    · intro k; exact (publish_prefix hg.live hg.synced hg.wm r e k).1
  | crash k =>
    obtain ⟨n, ws, hst, hg'⟩ := good_of_start (hg.cuts k)
    refine ⟨{ base := σ.base.applyPrefix k σ.ws, ws := ws, node := n }, ?_, hg', hg.adv k⟩
    simp only [opStep, hst]

/-- **every history**: the node is alive at the end (no restart ever failed), the state is good, and the durable
image only grew -/
theorem runOps_good {c : Cfg} {σ : RunSt} (hg : Good c σ) (ops : List Op) :
    ∃ σ', runOps c σ ops = .ok σ' ∧ Good c σ' ∧ Ext σ.base σ'.base := by
  induction ops generalizing σ with
  | nil => exact ⟨σ, rfl, hg, Ext.refl _⟩
  | cons op ops ih =>
    obtain ⟨σ1, hop, hg1, ha⟩ := opStep_good hg op
    obtain ⟨σ2, hr, hg2, he⟩ := ih hg1
    exact ⟨σ2, by simp only [runOps, hop]; exact hr, hg2, ha.ext.trans he⟩

/-- once a block is committed the saved state is the node's state -/
theorem synced_some {c : Cfg} {n : Node} (hi : Inv c n) (hs : Synced c n) (hh : c.initialHeight ≤ n.store.height) :
    n.store.state = some n.lastState ∧ c.initialHeight ≤ n.lastState.lastHeight := by
  rcases hs with h | ⟨_, h2⟩
  · exact h
  · exfalso
    have := hi.hs
    rw [h2] at this
    simp only [genesisState] at this
    have := hi.ihPos
    omega

end Producer
