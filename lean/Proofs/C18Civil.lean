import Model.ConfigGenesis
/-!
# C18: `civilFromDays` yields a month 1..12 and a day 1..31 for every day number

(so every record `GoTime.ofUnix` builds is `WallClockOK`).  The day of the year computed from the
day of the era (`doe`, 0..146096) by nested floor divisions is in 0..365: not linear, proved by
cutting the era at the multiples of 1460 and 36524 (inside a piece `doe / 1460` and `doe / 36524`
are constants and `omega` decides it); one small lemma per piece (generated text), then a chain.
-/
namespace GenesisFile
namespace Civil

/-- the day of the year `civilFromDays` computes from the day of the era is in 0..365 -/
def DoyOK (doe : Int) : Prop :=
  0 ≤ doe - (365 * ((doe - doe / 1460 + doe / 36524 - doe / 146096) / 365) +
      (doe - doe / 1460 + doe / 36524 - doe / 146096) / 365 / 4 -
      (doe - doe / 1460 + doe / 36524 - doe / 146096) / 365 / 100) ∧
  doe - (365 * ((doe - doe / 1460 + doe / 36524 - doe / 146096) / 365) +
      (doe - doe / 1460 + doe / 36524 - doe / 146096) / 365 / 4 -
      (doe - doe / 1460 + doe / 36524 - doe / 146096) / 365 / 100) ≤ 365

theorem piece0 (doe : Int) (h0 : 0 ≤ doe) (h1 : doe < 1460) : DoyOK doe := by unfold DoyOK; omega
theorem piece1 (doe : Int) (h0 : 1460 ≤ doe) (h1 : doe < 2920) : DoyOK doe := by unfold DoyOK; omega
theorem piece2 (doe : Int) (h0 : 2920 ≤ doe) (h1 : doe < 4380) : DoyOK doe := by unfold DoyOK; omega
theorem piece3 (doe : Int) (h0 : 4380 ≤ doe) (h1 : doe < 5840) : DoyOK doe := by unfold DoyOK; omega
theorem piece4 (doe : Int) (h0 : 5840 ≤ doe) (h1 : doe < 7300) : DoyOK doe := by unfold DoyOK; omega
theorem piece5 (doe : Int) (h0 : 7300 ≤ doe) (h1 : doe < 8760) : DoyOK doe := by unfold DoyOK; omega
theorem piece6 (doe : Int) (h0 : 8760 ≤ doe) (h1 : doe < 10220) : DoyOK doe := by unfold DoyOK; omega
theorem piece7 (doe : Int) (h0 : 10220 ≤ doe) (h1 : doe < 11680) : DoyOK doe := by unfold DoyOK; omega
theorem piece8 (doe : Int) (h0 : 11680 ≤ doe) (h1 : doe < 13140) : DoyOK doe := by unfold DoyOK; omega
theorem piece9 (doe : Int) (h0 : 13140 ≤ doe) (h1 : doe < 14600) : DoyOK doe := by unfold DoyOK; omega
theorem piece10 (doe : Int) (h0 : 14600 ≤ doe) (h1 : doe < 16060) : DoyOK doe := by unfold DoyOK; omega
theorem piece11 (doe : Int) (h0 : 16060 ≤ doe) (h1 : doe < 17520) : DoyOK doe := by unfold DoyOK; omega
theorem piece12 (doe : Int) (h0 : 17520 ≤ doe) (h1 : doe < 18980) : DoyOK doe := by unfold DoyOK; omega
theorem piece13 (doe : Int) (h0 : 18980 ≤ doe) (h1 : doe < 20440) : DoyOK doe := by unfold DoyOK; omega
theorem piece14 (doe : Int) (h0 : 20440 ≤ doe) (h1 : doe < 21900) : DoyOK doe := by unfold DoyOK; omega
theorem piece15 (doe : Int) (h0 : 21900 ≤ doe) (h1 : doe < 23360) : DoyOK doe := by unfold DoyOK; omega
theorem piece16 (doe : Int) (h0 : 23360 ≤ doe) (h1 : doe < 24820) : DoyOK doe := by unfold DoyOK; omega
theorem piece17 (doe : Int) (h0 : 24820 ≤ doe) (h1 : doe < 26280) : DoyOK doe := by unfold DoyOK; omega
theorem piece18 (doe : Int) (h0 : 26280 ≤ doe) (h1 : doe < 27740) : DoyOK doe := by unfold DoyOK; omega
theorem piece19 (doe : Int) (h0 : 27740 ≤ doe) (h1 : doe < 29200) : DoyOK doe := by unfold DoyOK; omega
theorem piece20 (doe : Int) (h0 : 29200 ≤ doe) (h1 : doe < 30660) : DoyOK doe := by unfold DoyOK; omega
theorem piece21 (doe : Int) (h0 : 30660 ≤ doe) (h1 : doe < 32120) : DoyOK doe := by unfold DoyOK; omega
theorem piece22 (doe : Int) (h0 : 32120 ≤ doe) (h1 : doe < 33580) : DoyOK doe := by unfold DoyOK; omega
theorem piece23 (doe : Int) (h0 : 33580 ≤ doe) (h1 : doe < 35040) : DoyOK doe := by unfold DoyOK; omega
theorem piece24 (doe : Int) (h0 : 35040 ≤ doe) (h1 : doe < 36500) : DoyOK doe := by unfold DoyOK; omega
theorem piece25 (doe : Int) (h0 : 36500 ≤ doe) (h1 : doe < 36524) : DoyOK doe := by unfold DoyOK; omega
theorem piece26 (doe : Int) (h0 : 36524 ≤ doe) (h1 : doe < 37960) : DoyOK doe := by unfold DoyOK; omega
theorem piece27 (doe : Int) (h0 : 37960 ≤ doe) (h1 : doe < 39420) : DoyOK doe := by unfold DoyOK; omega
theorem piece28 (doe : Int) (h0 : 39420 ≤ doe) (h1 : doe < 40880) : DoyOK doe := by unfold DoyOK; omega
theorem piece29 (doe : Int) (h0 : 40880 ≤ doe) (h1 : doe < 42340) : DoyOK doe := by unfold DoyOK; omega
theorem piece30 (doe : Int) (h0 : 42340 ≤ doe) (h1 : doe < 43800) : DoyOK doe := by unfold DoyOK; omega
theorem piece31 (doe : Int) (h0 : 43800 ≤ doe) (h1 : doe < 45260) : DoyOK doe := by unfold DoyOK; omega
theorem piece32 (doe : Int) (h0 : 45260 ≤ doe) (h1 : doe < 46720) : DoyOK doe := by unfold DoyOK; omega
theorem piece33 (doe : Int) (h0 : 46720 ≤ doe) (h1 : doe < 48180) : DoyOK doe := by unfold DoyOK; omega
theorem piece34 (doe : Int) (h0 : 48180 ≤ doe) (h1 : doe < 49640) : DoyOK doe := by unfold DoyOK; omega
theorem piece35 (doe : Int) (h0 : 49640 ≤ doe) (h1 : doe < 51100) : DoyOK doe := by unfold DoyOK; omega
theorem piece36 (doe : Int) (h0 : 51100 ≤ doe) (h1 : doe < 52560) : DoyOK doe := by unfold DoyOK; omega
theorem piece37 (doe : Int) (h0 : 52560 ≤ doe) (h1 : doe < 54020) : DoyOK doe := by unfold DoyOK; omega
theorem piece38 (doe : Int) (h0 : 54020 ≤ doe) (h1 : doe < 55480) : DoyOK doe := by unfold DoyOK; omega
theorem piece39 (doe : Int) (h0 : 55480 ≤ doe) (h1 : doe < 56940) : DoyOK doe := by unfold DoyOK; omega
theorem piece40 (doe : Int) (h0 : 56940 ≤ doe) (h1 : doe < 58400) : DoyOK doe := by unfold DoyOK; omega
theorem piece41 (doe : Int) (h0 : 58400 ≤ doe) (h1 : doe < 59860) : DoyOK doe := by unfold DoyOK; omega
theorem piece42 (doe : Int) (h0 : 59860 ≤ doe) (h1 : doe < 61320) : DoyOK doe := by unfold DoyOK; omega
theorem piece43 (doe : Int) (h0 : 61320 ≤ doe) (h1 : doe < 62780) : DoyOK doe := by unfold DoyOK; omega
theorem piece44 (doe : Int) (h0 : 62780 ≤ doe) (h1 : doe < 64240) : DoyOK doe := by unfold DoyOK; omega
theorem piece45 (doe : Int) (h0 : 64240 ≤ doe) (h1 : doe < 65700) : DoyOK doe := by unfold DoyOK; omega
theorem piece46 (doe : Int) (h0 : 65700 ≤ doe) (h1 : doe < 67160) : DoyOK doe := by unfold DoyOK; omega
theorem piece47 (doe : Int) (h0 : 67160 ≤ doe) (h1 : doe < 68620) : DoyOK doe := by unfold DoyOK; omega
theorem piece48 (doe : Int) (h0 : 68620 ≤ doe) (h1 : doe < 70080) : DoyOK doe := by unfold DoyOK; omega
theorem piece49 (doe : Int) (h0 : 70080 ≤ doe) (h1 : doe < 71540) : DoyOK doe := by unfold DoyOK; omega
theorem piece50 (doe : Int) (h0 : 71540 ≤ doe) (h1 : doe < 73000) : DoyOK doe := by unfold DoyOK; omega
theorem piece51 (doe : Int) (h0 : 73000 ≤ doe) (h1 : doe < 73048) : DoyOK doe := by unfold DoyOK; omega
theorem piece52 (doe : Int) (h0 : 73048 ≤ doe) (h1 : doe < 74460) : DoyOK doe := by unfold DoyOK; omega
theorem piece53 (doe : Int) (h0 : 74460 ≤ doe) (h1 : doe < 75920) : DoyOK doe := by unfold DoyOK; omega
theorem piece54 (doe : Int) (h0 : 75920 ≤ doe) (h1 : doe < 77380) : DoyOK doe := by unfold DoyOK; omega
theorem piece55 (doe : Int) (h0 : 77380 ≤ doe) (h1 : doe < 78840) : DoyOK doe := by unfold DoyOK; omega
theorem piece56 (doe : Int) (h0 : 78840 ≤ doe) (h1 : doe < 80300) : DoyOK doe := by unfold DoyOK; omega
theorem piece57 (doe : Int) (h0 : 80300 ≤ doe) (h1 : doe < 81760) : DoyOK doe := by unfold DoyOK; omega
theorem piece58 (doe : Int) (h0 : 81760 ≤ doe) (h1 : doe < 83220) : DoyOK doe := by unfold DoyOK; omega
theorem piece59 (doe : Int) (h0 : 83220 ≤ doe) (h1 : doe < 84680) : DoyOK doe := by unfold DoyOK; omega
theorem piece60 (doe : Int) (h0 : 84680 ≤ doe) (h1 : doe < 86140) : DoyOK doe := by unfold DoyOK; omega
theorem piece61 (doe : Int) (h0 : 86140 ≤ doe) (h1 : doe < 87600) : DoyOK doe := by unfold DoyOK; omega
theorem piece62 (doe : Int) (h0 : 87600 ≤ doe) (h1 : doe < 89060) : DoyOK doe := by unfold DoyOK; omega
theorem piece63 (doe : Int) (h0 : 89060 ≤ doe) (h1 : doe < 90520) : DoyOK doe := by unfold DoyOK; omega
theorem piece64 (doe : Int) (h0 : 90520 ≤ doe) (h1 : doe < 91980) : DoyOK doe := by unfold DoyOK; omega
theorem piece65 (doe : Int) (h0 : 91980 ≤ doe) (h1 : doe < 93440) : DoyOK doe := by unfold DoyOK; omega
theorem piece66 (doe : Int) (h0 : 93440 ≤ doe) (h1 : doe < 94900) : DoyOK doe := by unfold DoyOK; omega
theorem piece67 (doe : Int) (h0 : 94900 ≤ doe) (h1 : doe < 96360) : DoyOK doe := by unfold DoyOK; omega
theorem piece68 (doe : Int) (h0 : 96360 ≤ doe) (h1 : doe < 97820) : DoyOK doe := by unfold DoyOK; omega
theorem piece69 (doe : Int) (h0 : 97820 ≤ doe) (h1 : doe < 99280) : DoyOK doe := by unfold DoyOK; omega
theorem piece70 (doe : Int) (h0 : 99280 ≤ doe) (h1 : doe < 100740) : DoyOK doe := by unfold DoyOK; omega
theorem piece71 (doe : Int) (h0 : 100740 ≤ doe) (h1 : doe < 102200) : DoyOK doe := by unfold DoyOK; omega
theorem piece72 (doe : Int) (h0 : 102200 ≤ doe) (h1 : doe < 103660) : DoyOK doe := by unfold DoyOK; omega
theorem piece73 (doe : Int) (h0 : 103660 ≤ doe) (h1 : doe < 105120) : DoyOK doe := by unfold DoyOK; omega
theorem piece74 (doe : Int) (h0 : 105120 ≤ doe) (h1 : doe < 106580) : DoyOK doe := by unfold DoyOK; omega
theorem piece75 (doe : Int) (h0 : 106580 ≤ doe) (h1 : doe < 108040) : DoyOK doe := by unfold DoyOK; omega
theorem piece76 (doe : Int) (h0 : 108040 ≤ doe) (h1 : doe < 109500) : DoyOK doe := by unfold DoyOK; omega
theorem piece77 (doe : Int) (h0 : 109500 ≤ doe) (h1 : doe < 109572) : DoyOK doe := by unfold DoyOK; omega
theorem piece78 (doe : Int) (h0 : 109572 ≤ doe) (h1 : doe < 110960) : DoyOK doe := by unfold DoyOK; omega
theorem piece79 (doe : Int) (h0 : 110960 ≤ doe) (h1 : doe < 112420) : DoyOK doe := by unfold DoyOK; omega
theorem piece80 (doe : Int) (h0 : 112420 ≤ doe) (h1 : doe < 113880) : DoyOK doe := by unfold DoyOK; omega
theorem piece81 (doe : Int) (h0 : 113880 ≤ doe) (h1 : doe < 115340) : DoyOK doe := by unfold DoyOK; omega
theorem piece82 (doe : Int) (h0 : 115340 ≤ doe) (h1 : doe < 116800) : DoyOK doe := by unfold DoyOK; omega
theorem piece83 (doe : Int) (h0 : 116800 ≤ doe) (h1 : doe < 118260) : DoyOK doe := by unfold DoyOK; omega
theorem piece84 (doe : Int) (h0 : 118260 ≤ doe) (h1 : doe < 119720) : DoyOK doe := by unfold DoyOK; omega
theorem piece85 (doe : Int) (h0 : 119720 ≤ doe) (h1 : doe < 121180) : DoyOK doe := by unfold DoyOK; omega
theorem piece86 (doe : Int) (h0 : 121180 ≤ doe) (h1 : doe < 122640) : DoyOK doe := by unfold DoyOK; omega
theorem piece87 (doe : Int) (h0 : 122640 ≤ doe) (h1 : doe < 124100) : DoyOK doe := by unfold DoyOK; omega
theorem piece88 (doe : Int) (h0 : 124100 ≤ doe) (h1 : doe < 125560) : DoyOK doe := by unfold DoyOK; omega
theorem piece89 (doe : Int) (h0 : 125560 ≤ doe) (h1 : doe < 127020) : DoyOK doe := by unfold DoyOK; omega
theorem piece90 (doe : Int) (h0 : 127020 ≤ doe) (h1 : doe < 128480) : DoyOK doe := by unfold DoyOK; omega
theorem piece91 (doe : Int) (h0 : 128480 ≤ doe) (h1 : doe < 129940) : DoyOK doe := by unfold DoyOK; omega
theorem piece92 (doe : Int) (h0 : 129940 ≤ doe) (h1 : doe < 131400) : DoyOK doe := by unfold DoyOK; omega
theorem piece93 (doe : Int) (h0 : 131400 ≤ doe) (h1 : doe < 132860) : DoyOK doe := by unfold DoyOK; omega
theorem piece94 (doe : Int) (h0 : 132860 ≤ doe) (h1 : doe < 134320) : DoyOK doe := by unfold DoyOK; omega
theorem piece95 (doe : Int) (h0 : 134320 ≤ doe) (h1 : doe < 135780) : DoyOK doe := by unfold DoyOK; omega
theorem piece96 (doe : Int) (h0 : 135780 ≤ doe) (h1 : doe < 137240) : DoyOK doe := by unfold DoyOK; omega
theorem piece97 (doe : Int) (h0 : 137240 ≤ doe) (h1 : doe < 138700) : DoyOK doe := by unfold DoyOK; omega
theorem piece98 (doe : Int) (h0 : 138700 ≤ doe) (h1 : doe < 140160) : DoyOK doe := by unfold DoyOK; omega
theorem piece99 (doe : Int) (h0 : 140160 ≤ doe) (h1 : doe < 141620) : DoyOK doe := by unfold DoyOK; omega
theorem piece100 (doe : Int) (h0 : 141620 ≤ doe) (h1 : doe < 143080) : DoyOK doe := by unfold DoyOK; omega
theorem piece101 (doe : Int) (h0 : 143080 ≤ doe) (h1 : doe < 144540) : DoyOK doe := by unfold DoyOK; omega
theorem piece102 (doe : Int) (h0 : 144540 ≤ doe) (h1 : doe < 146000) : DoyOK doe := by unfold DoyOK; omega
theorem piece103 (doe : Int) (h0 : 146000 ≤ doe) (h1 : doe < 146096) : DoyOK doe := by unfold DoyOK; omega
theorem piece104 (doe : Int) (h0 : 146096 ≤ doe) (h1 : doe < 146097) : DoyOK doe := by unfold DoyOK; omega

theorem doyOK (doe : Int) (h0 : 0 ≤ doe) (h1 : doe < 146097) : DoyOK doe := by
  by_cases c : doe < 1460
  · exact piece0 doe h0 c
  replace h0 := Int.not_lt.mp c; clear c
  by_cases c : doe < 2920
  · exact piece1 doe h0 c
  replace h0 := Int.not_lt.mp c; clear c
  by_cases c : doe < 4380
  · exact piece2 doe h0 c
  replace h0 := Int.not_lt.mp c; clear c
  by_cases c : doe < 5840
  · exact piece3 doe h0 c
  replace h0 := Int.not_lt.mp c; clear c
  by_cases c : doe < 7300
  · exact piece4 doe h0 c
  replace h0 := Int.not_lt.mp c; clear c
  by_cases c : doe < 8760
  · exact piece5 doe h0 c
  replace h0 := Int.not_lt.mp c; clear c
  by_cases c : doe < 10220
  · exact piece6 doe h0 c
  replace h0 := Int.not_lt.mp c; clear c
  by_cases c : doe < 11680
  · exact piece7 doe h0 c
  replace h0 := Int.not_lt.mp c; clear c
  by_cases c : doe < 13140
  · exact piece8 doe h0 c
  replace h0 := Int.not_lt.mp c; clear c
  by_cases c : doe < 14600
  · exact piece9 doe h0 c
  replace h0 := Int.not_lt.mp c; clear c
  by_cases c : doe < 16060
  · exact piece10 doe h0 c
  replace h0 := Int.not_lt.mp c; clear c
  by_cases c : doe < 17520
  · exact piece11 doe h0 c
  replace h0 := Int.not_lt.mp c; clear c
  by_cases c : doe < 18980
  · exact piece12 doe h0 c
  replace h0 := Int.not_lt.mp c; clear c
  by_cases c : doe < 20440
  · exact piece13 doe h0 c
  replace h0 := Int.not_lt.mp c; clear c
  by_cases c : doe < 21900
  · exact piece14 doe h0 c
  replace h0 := Int.not_lt.mp c; clear c
  by_cases c : doe < 23360
  · exact piece15 doe h0 c
  replace h0 := Int.not_lt.mp c; clear c
  by_cases c : doe < 24820
  · exact piece16 doe h0 c
  replace h0 := Int.not_lt.mp c; clear c
  by_cases c : doe < 26280
  · exact piece17 doe h0 c
  replace h0 := Int.not_lt.mp c; clear c
  by_cases c : doe < 27740
  · exact piece18 doe h0 c
  replace h0 := Int.not_lt.mp c; clear c
  by_cases c : doe < 29200
  · exact piece19 doe h0 c
  replace h0 := Int.not_lt.mp c; clear c
  by_cases c : doe < 30660
  · exact piece20 doe h0 c
  replace h0 := Int.not_lt.mp c; clear c
  by_cases c : doe < 32120
  · exact piece21 doe h0 c
  replace h0 := Int.not_lt.mp c; clear c
  by_cases c : doe < 33580
  · exact piece22 doe h0 c
  replace h0 := Int.not_lt.mp c; clear c
  by_cases c : doe < 35040
  · exact piece23 doe h0 c
  replace h0 := Int.not_lt.mp c; clear c
  by_cases c : doe < 36500
  · exact piece24 doe h0 c
  replace h0 := Int.not_lt.mp c; clear c
  by_cases c : doe < 36524
  · exact piece25 doe h0 c
  replace h0 := Int.not_lt.mp c; clear c
  by_cases c : doe < 37960
  · exact piece26 doe h0 c
  replace h0 := Int.not_lt.mp c; clear c
  by_cases c : doe < 39420
  · exact piece27 doe h0 c
  replace h0 := Int.not_lt.mp c; clear c
  by_cases c : doe < 40880
  · exact piece28 doe h0 c
  replace h0 := Int.not_lt.mp c; clear c
  by_cases c : doe < 42340
  · exact piece29 doe h0 c
  replace h0 := Int.not_lt.mp c; clear c
  by_cases c : doe < 43800
  · exact piece30 doe h0 c
  replace h0 := Int.not_lt.mp c; clear c
  by_cases c : doe < 45260
  · exact piece31 doe h0 c
  replace h0 := Int.not_lt.mp c; clear c
  by_cases c : doe < 46720
  · exact piece32 doe h0 c
  replace h0 := Int.not_lt.mp c; clear c
  by_cases c : doe < 48180
  · exact piece33 doe h0 c
  replace h0 := Int.not_lt.mp c; clear c
  by_cases c : doe < 49640
  · exact piece34 doe h0 c
  replace h0 := Int.not_lt.mp c; clear c
  by_cases c : doe < 51100
  · exact piece35 doe h0 c
  replace h0 := Int.not_lt.mp c; clear c
  by_cases c : doe < 52560
  · exact piece36 doe h0 c
  replace h0 := Int.not_lt.mp c; clear c
  by_cases c : doe < 54020
  · exact piece37 doe h0 c
  replace h0 := Int.not_lt.mp c; clear c
  by_cases c : doe < 55480
  · exact piece38 doe h0 c
  replace h0 := Int.not_lt.mp c; clear c
  by_cases c : doe < 56940
  · exact piece39 doe h0 c
  replace h0 := Int.not_lt.mp c; clear c
  by_cases c : doe < 58400
  · exact piece40 doe h0 c
  replace h0 := Int.not_lt.mp c; clear c
  by_cases c : doe < 59860
  · exact piece41 doe h0 c
  replace h0 := Int.not_lt.mp c; clear c
  by_cases c : doe < 61320
  · exact piece42 doe h0 c
  replace h0 := Int.not_lt.mp c; clear c
  by_cases c : doe < 62780
  · exact piece43 doe h0 c
  replace h0 := Int.not_lt.mp c; clear c
  by_cases c : doe < 64240
  · exact piece44 doe h0 c
  replace h0 := Int.not_lt.mp c; clear c
  by_cases c : doe < 65700
  · exact piece45 doe h0 c
  replace h0 := Int.not_lt.mp c; clear c
  by_cases c : doe < 67160
  · exact piece46 doe h0 c
  replace h0 := Int.not_lt.mp c; clear c
  by_cases c : doe < 68620
  · exact piece47 doe h0 c
  replace h0 := Int.not_lt.mp c; clear c
  by_cases c : doe < 70080
  · exact piece48 doe h0 c
  replace h0 := Int.not_lt.mp c; clear c
  by_cases c : doe < 71540
  · exact piece49 doe h0 c
  replace h0 := Int.not_lt.mp c; clear c
  by_cases c : doe < 73000
  · exact piece50 doe h0 c
  replace h0 := Int.not_lt.mp c; clear c
  by_cases c : doe < 73048
  · exact piece51 doe h0 c
  replace h0 := Int.not_lt.mp c; clear c
  by_cases c : doe < 74460
  · exact piece52 doe h0 c
  replace h0 := Int.not_lt.mp c; clear c
  by_cases c : doe < 75920
  · exact piece53 doe h0 c
  replace h0 := Int.not_lt.mp c; clear c
  by_cases c : doe < 77380
  · exact piece54 doe h0 c
  replace h0 := Int.not_lt.mp c; clear c
  by_cases c : doe < 78840
  · exact piece55 doe h0 c
  replace h0 := Int.not_lt.mp c; clear c
  by_cases c : doe < 80300
  · exact piece56 doe h0 c
  replace h0 := Int.not_lt.mp c; clear c
  by_cases c : doe < 81760
  · exact piece57 doe h0 c
  replace h0 := Int.not_lt.mp c; clear c
  by_cases c : doe < 83220
  · exact piece58 doe h0 c
  replace h0 := Int.not_lt.mp c; clear c
  by_cases c : doe < 84680
  · exact piece59 doe h0 c
  replace h0 := Int.not_lt.mp c; clear c
  by_cases c : doe < 86140
  · exact piece60 doe h0 c
  replace h0 := Int.not_lt.mp c; clear c
  by_cases c : doe < 87600
  · exact piece61 doe h0 c
  replace h0 := Int.not_lt.mp c; clear c
  by_cases c : doe < 89060
  · exact piece62 doe h0 c
  replace h0 := Int.not_lt.mp c; clear c
  by_cases c : doe < 90520
  · exact piece63 doe h0 c
  replace h0 := Int.not_lt.mp c; clear c
  by_cases c : doe < 91980
  · exact piece64 doe h0 c
  replace h0 := Int.not_lt.mp c; clear c
  by_cases c : doe < 93440
  · exact piece65 doe h0 c
  replace h0 := Int.not_lt.mp c; clear c
  by_cases c : doe < 94900
  · exact piece66 doe h0 c
  replace h0 := Int.not_lt.mp c; clear c
  by_cases c : doe < 96360
  · exact piece67 doe h0 c
  replace h0 := Int.not_lt.mp c; clear c
  by_cases c : doe < 97820
  · exact piece68 doe h0 c
  replace h0 := Int.not_lt.mp c; clear c
  by_cases c : doe < 99280
  · exact piece69 doe h0 c
  replace h0 := Int.not_lt.mp c; clear c
  by_cases c : doe < 100740
  · exact piece70 doe h0 c
  replace h0 := Int.not_lt.mp c; clear c
  by_cases c : doe < 102200
  · exact piece71 doe h0 c
  replace h0 := Int.not_lt.mp c; clear c
  by_cases c : doe < 103660
  · exact piece72 doe h0 c
  replace h0 := Int.not_lt.mp c; clear c
  by_cases c : doe < 105120
  · exact piece73 doe h0 c
  replace h0 := Int.not_lt.mp c; clear c
  by_cases c : doe < 106580
  · exact piece74 doe h0 c
  replace h0 := Int.not_lt.mp c; clear c
  by_cases c : doe < 108040
  · exact piece75 doe h0 c
  replace h0 := Int.not_lt.mp c; clear c
  by_cases c : doe < 109500
  · exact piece76 doe h0 c
  replace h0 := Int.not_lt.mp c; clear c
  by_cases c : doe < 109572
  · exact piece77 doe h0 c
  replace h0 := Int.not_lt.mp c; clear c
  by_cases c : doe < 110960
  · exact piece78 doe h0 c
  replace h0 := Int.not_lt.mp c; clear c
  by_cases c : doe < 112420
  · exact piece79 doe h0 c
  replace h0 := Int.not_lt.mp c; clear c
  by_cases c : doe < 113880
  · exact piece80 doe h0 c
  replace h0 := Int.not_lt.mp c; clear c
  by_cases c : doe < 115340
  · exact piece81 doe h0 c
  replace h0 := Int.not_lt.mp c; clear c
  by_cases c : doe < 116800
  · exact piece82 doe h0 c
  replace h0 := Int.not_lt.mp c; clear c
  by_cases c : doe < 118260
  · exact piece83 doe h0 c
  replace h0 := Int.not_lt.mp c; clear c
  by_cases c : doe < 119720
  · exact piece84 doe h0 c
  replace h0 := Int.not_lt.mp c; clear c
  by_cases c : doe < 121180
  · exact piece85 doe h0 c
  replace h0 := Int.not_lt.mp c; clear c
  by_cases c : doe < 122640
  · exact piece86 doe h0 c
  replace h0 := Int.not_lt.mp c; clear c
  by_cases c : doe < 124100
  · exact piece87 doe h0 c
  replace h0 := Int.not_lt.mp c; clear c
  by_cases c : doe < 125560
  · exact piece88 doe h0 c
  replace h0 := Int.not_lt.mp c; clear c
  by_cases c : doe < 127020
  · exact piece89 doe h0 c
  replace h0 := Int.not_lt.mp c; clear c
  by_cases c : doe < 128480
  · exact piece90 doe h0 c
  replace h0 := Int.not_lt.mp c; clear c
  by_cases c : doe < 129940
  · exact piece91 doe h0 c
  replace h0 := Int.not_lt.mp c; clear c
  by_cases c : doe < 131400
  · exact piece92 doe h0 c
  replace h0 := Int.not_lt.mp c; clear c
  by_cases c : doe < 132860
  · exact piece93 doe h0 c
  replace h0 := Int.not_lt.mp c; clear c
  by_cases c : doe < 134320
  · exact piece94 doe h0 c
  replace h0 := Int.not_lt.mp c; clear c
  by_cases c : doe < 135780
  · exact piece95 doe h0 c
  replace h0 := Int.not_lt.mp c; clear c
  by_cases c : doe < 137240
  · exact piece96 doe h0 c
  replace h0 := Int.not_lt.mp c; clear c
  by_cases c : doe < 138700
  · exact piece97 doe h0 c
  replace h0 := Int.not_lt.mp c; clear c
  by_cases c : doe < 140160
  · exact piece98 doe h0 c
  replace h0 := Int.not_lt.mp c; clear c
  by_cases c : doe < 141620
  · exact piece99 doe h0 c
  replace h0 := Int.not_lt.mp c; clear c
  by_cases c : doe < 143080
  · exact piece100 doe h0 c
  replace h0 := Int.not_lt.mp c; clear c
  by_cases c : doe < 144540
  · exact piece101 doe h0 c
  replace h0 := Int.not_lt.mp c; clear c
  by_cases c : doe < 146000
  · exact piece102 doe h0 c
  replace h0 := Int.not_lt.mp c; clear c
  by_cases c : doe < 146096
  · exact piece103 doe h0 c
  replace h0 := Int.not_lt.mp c; clear c
  exact piece104 doe h0 h1

theorem md_bounds (doy : Int) (h0 : 0 ≤ doy) (h1 : doy ≤ 365) :
    0 ≤ (5 * doy + 2) / 153 ∧ (5 * doy + 2) / 153 ≤ 11 ∧
    1 ≤ doy - (153 * ((5 * doy + 2) / 153) + 2) / 5 + 1 ∧ doy - (153 * ((5 * doy + 2) / 153) + 2) / 5 + 1 ≤ 31 := by
  omega

/-- month 1..12 and day 1..31 for every day number -/
theorem civil_bounds (z : Int) : 1 ≤ (civilFromDays z).2.1 ∧ (civilFromDays z).2.1 ≤ 12 ∧
    1 ≤ (civilFromDays z).2.2 ∧ (civilFromDays z).2.2 ≤ 31 := by
  unfold civilFromDays
  simp only []
  have hd0 : 0 ≤ (z + 719468) % 146097 := Int.emod_nonneg _ (by decide)
  have hd1 : (z + 719468) % 146097 < 146097 := Int.emod_lt_of_pos _ (by decide)
  generalize (z + 719468) % 146097 = doe at hd0 hd1
  have hdoy := doyOK doe hd0 hd1
  unfold DoyOK at hdoy
  generalize doe - (365 * ((doe - doe / 1460 + doe / 36524 - doe / 146096) / 365) +
      (doe - doe / 1460 + doe / 36524 - doe / 146096) / 365 / 4 -
      (doe - doe / 1460 + doe / 36524 - doe / 146096) / 365 / 100) = doy at hdoy
  have := md_bounds doy hdoy.1 hdoy.2
  generalize (5 * doy + 2) / 153 = mp at this
  split <;> omega

theorem ofUnix_wallClockOK (u : Int) (ns : Nat) (off : Int) (loc : String) (hns : ns < 1000000000) :
    WallClockOK (GoTime.ofUnix u ns off loc) = true := by
  have hc := civil_bounds ((u + off) / 86400)
  unfold GoTime.ofUnix
  simp only [WallClockOK, Bool.and_eq_true, decide_eq_true_eq]
  refine ⟨⟨⟨⟨⟨⟨⟨hc.1, hc.2.1⟩, hc.2.2.1⟩, hc.2.2.2⟩, ?_⟩, ?_⟩, ?_⟩, hns⟩ <;> omega

end Civil
end GenesisFile
